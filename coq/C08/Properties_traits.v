(* C08 — etl::char_traits members as operations of their own (Properties.v uses them only through
   basic_string_view).  Property theorems only.  The model is of the code after the repairs
   f246a8c (move) and 6bff3c6 (char_traits<char>::to_int_type).
   A buffer [l] is one address space, [d] / [s] are the offsets of dest / source in it; the hypotheses
   say exactly that both ranges lie inside the buffer (the documented precondition: valid ranges). *)
From Tetl Require Import Lib.Base C08.Model C08.Spec C08.Core C08.ProofsFind C08.ProofsCmp C08.ProofsPtr
  C08.ModelTraits C08.SpecTraits C08.ProofsTraits.
Local Open Scope Z_scope.

(** * move = memmove semantics for ALL overlaps; copy where the standard allows it; fill *)
(* move, copy, assign(s,n,c) *)
Theorem C08_traits_move_copy_fill :
  ((* move *) forall l d s count, (s + count <= length l)%nat -> (d + count <= length l)%nat ->
  tr_move_m l d s count = Ok (move_s l d s count)) /\
  ((* copy *) forall l d s count, (s + count <= length l)%nat -> (d + count <= length l)%nat ->
  ~ (s < d < s + count)%nat ->
  tr_copy_m l d s count = Ok (move_s l d s count)) /\
  ((* assign(s, n, c) *) forall l d count c, (d + count <= length l)%nat ->
  tr_fill_m l d count c = Ok (fill_s l d count c)).
Proof. exact (conj tr_move_correct (conj tr_copy_correct tr_fill_correct)). Qed.
Print Assumptions C08_traits_move_copy_fill.

(* the repaired defect: a forward-only loop is not memmove *)
Theorem C08_traits_forward_only_move_refuted :
  exists l d s count, (s + count <= length l)%nat /\ (d + count <= length l)%nat /\
  copy_fwd l d s count <> Ok (move_s l d s count).
Proof. exact forward_only_move_refuted. Qed.
Print Assumptions C08_traits_forward_only_move_refuted.

(** * compare looks at exactly count characters (a zero is a character like any other), find, length *)
(* compare, find, length *)
Theorem C08_traits_compare_find_length :
  ((* compare *) forall ck a b count, view_ok a -> view_ok b -> 0 <= count <= vlen a -> count <= vlen b ->
  traits_compare ck a b count = Ok (tr_compare_s (ct_of ck) (vchars a) (vchars b) count)) /\
  ((* find *) forall s count c, view_ok s -> 0 <= count <= vlen s ->
  traits_find s count c = Ok (tr_find_s (vchars s) count c)) /\
  ((* length *) forall a, cstr_ok a -> strlen_m a = Ok (tr_length_s (vchars a))).
Proof. exact (conj traits_compare_correct (conj traits_find_correct strlen_correct)). Qed.
Print Assumptions C08_traits_compare_find_length.

(** * eq, lt, assign; the int_type members against [char.traits.require] *)
(* eq, lt, assign, to_int_type, to_char_type, eq_int_type, eof, not_eof *)
Theorem C08_traits_char_and_int :
  ((* eq, lt, assign *) forall ck a b,
  tr_eq_m a b = (a =? b) /\ tr_lt_m ck a b = char_lt (ct_of ck) a b /\ tr_assign_m a b = b) /\
  ((* eof, to_int_type *) forall ck c,
  eof_m ck = eof_s (ct_of ck) /\ to_int_type_m ck c = to_int_type_s (ct_of ck) c) /\
  ((* eq_int_type *) forall ck a b, eq_int_type_m ck a b = (a =? b)) /\
  ((* round trip *) forall ck c d, char_range (ct_of ck) c -> char_range (ct_of ck) d ->
  to_char_type_m ck (to_int_type_m ck c) = c /\
  eq_int_type_m ck (to_int_type_m ck c) (to_int_type_m ck d) = tr_eq_m c d) /\
  ((* to_char_type inverts to_int_type *) forall ck c, char_range (ct_of ck) c ->
  to_char_type_m ck (to_int_type_s (ct_of ck) c) = to_char_type_s (ct_of ck) (to_int_type_s (ct_of ck) c) /\
  to_char_type_s (ct_of ck) (to_int_type_s (ct_of ck) c) = c) /\
  ((* eof is no character *) forall ck c, char_range (ct_of ck) c ->
  eq_int_type_m ck (to_int_type_m ck c) (eof_m ck) =
  match ck with
  | CChar | CChar8 => false
  | CWchar => c =? -1
  | CChar16 => c =? 65535
  | CChar32 => c =? 4294967295
  end) /\
  ((* not_eof *) forall ck e,
  (e <> eof_m ck -> not_eof_m ck e = e) /\
  (e = eof_m ck -> not_eof_m ck e = 0 /\ not_eof_m ck e <> eof_m ck)).
Proof.
  exact (conj tr_eq_lt_correct (conj (fun ck c => conj (eof_correct ck) (to_int_type_correct ck c))
        (conj eq_int_type_correct (conj int_type_round_trip (conj to_char_type_correct (conj eof_is_no_character not_eof_correct)))))).
Qed.
Print Assumptions C08_traits_char_and_int.

(** * Non-vacuity: the overlapping move of the defect report; an embedded zero does not stop compare *)
Example C08_traits_nonvacuous :
  let l := [97; 98; 99; 100; 101; 102] in                          (* "abcdef" *)
  (0 + 4 <= length l)%nat /\ (1 + 4 <= length l)%nat /\
  tr_move_m l 1 0 4 = Ok [97; 97; 98; 99; 100; 102] /\              (* move(p+1, p, 4): "aabcdf" *)
  tr_move_m l 0 1 4 = Ok [98; 99; 100; 101; 101; 102] /\            (* move(p, p+1, 4): "bcdeef" *)
  copy_fwd l 1 0 4 = Ok [97; 97; 97; 97; 97; 102] /\                (* the old loop: "aaaaaf" *)
  traits_compare CChar (mkview [97; 0; 98] 0 3) (mkview [97; 0; 99] 0 3) 3 = Ok (-1) /\
  to_int_type_m CChar (-1) = 255 /\ eof_m CChar = -1.
Proof. cbv zeta. cbn [length]. repeat split; try lia; reflexivity. Qed.
