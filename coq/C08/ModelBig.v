(* C08 model on HUGE views (fix-miss round 4, seeded change C08-h1).

   [Model.v] represents an allocation as a list of characters, so a view of 2^31+3 or 2^32+3 characters cannot be
   EXECUTED there (the theorems of Properties.v are about all lengths below 2^63, but the correspondence run never
   left lengths of a few hundred).  The size_t arithmetic of the anchored code (the length tie-break of compare, the
   clamping of substr/copy, size() - n.size() of ends_with, the size comparison of operator==) only shows a narrowing
   to 32 bits when two lengths differ by 2^31 or more.

   Here an allocation is SPARSE: [spre] explicit characters followed by the character [sfill] up to [scap]
   characters in total (the harness maps 2^33+16 characters of untouched, zero-filled memory and writes only a short
   prefix).  [rdb] is the checked read on such a view; the functions below are the functions of Model.v with [rd]
   replaced by [rdb] (same text otherwise).  ProofsBig.v proves, for ALL sparse views, that each of them equals the
   Model.v function on the expanded view [to_view] - so the theorems of Properties.v apply to what the driver
   executes.  No proofs in this file. *)
From Tetl Require Import Lib.Base C08.Model C08.Spec C08.ModelExt.
Local Open Scope Z_scope.

Record sbuf := mksbuf { spre : list Z; sfill : Z; scap : Z }.
Record bview := mkbview { bbuf : sbuf; boff : Z; blen : Z }.

(* the allocation as a list (never executed on a huge allocation) *)
Definition expand (b : sbuf) : list Z := spre b ++ repeat (sfill b) (Z.to_nat (scap b - len (spre b))).
Definition to_view (v : bview) : view := mkview (expand (bbuf v)) (boff v) (blen v).
(* an ordinary (list) view as a sparse one: nothing beyond the explicit characters *)
Definition of_view (v : view) : bview := mkbview (mksbuf (vbuf v) 0 (len (vbuf v))) (voff v) (vlen v).

(* _begin[i]: inside the view, and the cell exists in the allocation *)
Definition rdb (v : bview) (i : Z) : res Z :=
  if (0 <=? i) && (i <? blen v) then
    let k := boff v + i in
    if k <? len (spre (bbuf v)) then
      match nth_error (spre (bbuf v)) (Z.to_nat k) with
      | Some c => Ok c
      | None => UB OutOfBounds
      end
    else if k <? scap (bbuf v) then Ok (sfill (bbuf v)) else UB OutOfBounds
  else UB OutOfBounds.

(** Traits::compare(lhs, rhs, count) *)
Definition traits_compare_b (ck : charkind) (a b : bview) (count : Z) : res Z :=
  if count =? 0 then Ok 0 else
  do r <- for_up (fuel_of count) (fun i => i <? count)
            (fun i => do x <- rdb a i; do y <- rdb b i;
                      if lt_tr ck x y then Ok (Some (-1))
                      else if lt_tr ck y x then Ok (Some 1) else Ok None) 0;
  Ok (match r with Some c => c | None => 0 end).

(** substr / remove_prefix / remove_suffix / copy *)
Definition substr_b (v : bview) (pos count : Z) : res bview :=
  if pos <=? blen v then
    Ok (mkbview (bbuf v) (boff v + pos) (min_sz count (sz (blen v - pos))))
  else Contract.

Definition remove_prefix_b (v : bview) (n : Z) : res bview :=
  if n <=? blen v then Ok (mkbview (bbuf v) (boff v + n) (sz (blen v - n))) else Contract.

Definition remove_suffix_b (v : bview) (n : Z) : res bview :=
  if n <=? blen v then Ok (mkbview (bbuf v) (boff v) (sz (blen v - n))) else Contract.

Fixpoint copy_loop_b (fuel : nat) (v : bview) (pos i rcount : Z) : res (list Z) :=
  match fuel with
  | O => OutOfFuel
  | S f =>
    if i <? rcount then
      do x <- rdb v (sz (pos + i));
      do rest <- copy_loop_b f v pos (sz (i + 1)) rcount;
      Ok (x :: rest)
    else Ok []
  end.

Definition copy_b (v : bview) (count pos : Z) : res (Z * list Z) :=
  if pos <=? blen v then
    let rcount := min_sz count (sz (blen v - pos)) in
    do l <- copy_loop_b (fuel_of rcount) v pos 0 rcount;
    Ok (rcount, l)
  else Contract.

(** compare and the relational operators *)
Definition compare_b (ck : charkind) (a b : bview) : res Z :=
  let rlen := min_sz (blen a) (blen b) in
  do r <- traits_compare_b ck a b rlen;
  if r <? 0 then Ok (-1)
  else if r >? 0 then Ok 1
  else if blen a <? blen b then Ok (-1)
  else if blen a >? blen b then Ok 1
  else Ok 0.

Definition compare3_b ck (a : bview) (pos1 count1 : Z) (b : bview) : res Z :=
  do s <- substr_b a pos1 count1; compare_b ck s b.

Definition compare5_b ck (a : bview) (pos1 count1 : Z) (b : bview) (pos2 count2 : Z) : res Z :=
  do s <- substr_b a pos1 count1; do t <- substr_b b pos2 count2; compare_b ck s t.

Definition op_eq_b ck (a b : bview) : res bool :=
  if negb (blen a =? blen b) then Ok false else do c <- compare_b ck a b; Ok (c =? 0).
Definition op_ne_b ck (a b : bview) : res bool := do e <- op_eq_b ck a b; Ok (negb e).
Definition op_lt_b ck (a b : bview) : res bool := do c <- compare_b ck a b; Ok (c <? 0).
Definition op_le_b ck (a b : bview) : res bool :=
  do l <- op_lt_b ck a b; if l then Ok true else op_eq_b ck a b.
Definition op_gt_b ck (a b : bview) : res bool :=
  do l <- op_lt_b ck a b; if negb l then (do e <- op_eq_b ck a b; Ok (negb e)) else Ok false.
Definition op_ge_b ck (a b : bview) : res bool :=
  do g <- op_gt_b ck a b; if g then Ok true else op_eq_b ck a b.
Definition rel6_b ck (x y : bview) : res (list bool) :=
  do e <- op_eq_b ck x y; do ne <- op_ne_b ck x y; do l <- op_lt_b ck x y;
  do le <- op_le_b ck x y; do g <- op_gt_b ck x y; do ge <- op_ge_b ck x y;
  Ok [e; ne; l; le; g; ge].

(** starts_with / ends_with *)
Definition starts_with_b ck (h n : bview) : res bool :=
  do s <- substr_b h 0 (blen n); op_eq_b ck s n.
Definition ends_with_b ck (h n : bview) : res bool :=
  if blen h >=? blen n then
    do c <- compare3_b ck h (sz (blen h - blen n)) npos n; Ok (c =? 0)
  else Ok false.

(** the Char const* overloads: the C string lives in an ordinary small array [a] *)
Definition compare_p_b ck (h : bview) (a : view) : res Z :=
  with_cstr a (fun n => compare_b ck h (of_view n)).
Definition compare3_p_b ck (h : bview) (pos1 count1 : Z) (a : view) : res Z :=
  do s <- substr_b h pos1 count1; with_cstr a (fun n => compare_b ck s (of_view n)).
Definition compare4_p_b ck (h : bview) (pos1 count1 : Z) (a : view) (count2 : Z) : res Z :=
  do s <- substr_b h pos1 count1; compare_b ck s (of_view (ptr_view a count2)).
Definition starts_with_p_b ck (h : bview) (a : view) : res bool :=
  with_cstr a (fun n => starts_with_b ck h (of_view n)).
Definition ends_with_p_b ck (h : bview) (a : view) : res bool :=
  with_cstr a (fun n => ends_with_b ck h (of_view n)).

(* `s OP v` and `v OP s` with a C string s (the type_identity overloads) *)
Definition rel_pl_b ck (a : view) (v : bview) : res (list bool) :=
  with_cstr a (fun n => rel6_b ck (of_view n) v).
Definition rel_pr_b ck (v : bview) (a : view) : res (list bool) :=
  with_cstr a (fun n => rel6_b ck v (of_view n)).

(** element access (operator[] / front / back with their contract checks) *)
Definition index_b (v : bview) (pos : Z) : res Z := if pos <? blen v then rdb v pos else Contract.
Definition back_b (v : bview) : res Z := if blen v =? 0 then Contract else rdb v (sz (blen v - 1)).

(* what an observer prints of a (short) view *)
Fixpoint chars_loop_b (fuel : nat) (v : bview) (i : Z) : res (list Z) :=
  match fuel with
  | O => OutOfFuel
  | S f =>
    if i <? blen v then
      do x <- rdb v i; do rest <- chars_loop_b f v (i + 1); Ok (x :: rest)
    else Ok []
  end.
Definition chars_b (v : bview) : res (list Z) := chars_loop_b (fuel_of (blen v)) v 0.
