(* C08 — property theorems of the fix-miss round 4 (huge views; seeded change C08-h1).  Theorems only.

   [X_b] (ModelBig.v): the function X of Model.v on a SPARSE allocation (explicit prefix, fill character, capacity),
   which the driver can execute on views of 2^31 .. 2^33 characters; [X_sp] (SpecBig.v): closed forms of Spec.v's
   functions on sparse strings; [to_view] / [bchars]: the ordinary view / the character list a sparse view denotes. *)
From Tetl Require Import Lib.Base C08.Model C08.Spec C08.Core C08.ProofsFind C08.ProofsCmp C08.ModelExt C08.ProofsExt
  C08.ModelBig C08.ProofsBig C08.SpecBig C08.ProofsBigSpec C08.ProofsBigTie
  C08.ProofsRfind C08.SpecBigFind C08.ProofsBigFind.
Local Open Scope Z_scope.

(* what the driver executes on huge views IS the model: for every sparse view (any prefix, fill, capacity, offset >= 0,
   any length, position, count) the sparse function equals Model.v's function on the expanded view *)
Theorem C08_big_model_is_model :
  ((* read *) forall v i, bok v -> rdb v i = rd (to_view v) i) /\
  ((* Traits::compare *) forall ck a b c, bok a -> bok b ->
     traits_compare_b ck a b c = traits_compare ck (to_view a) (to_view b) c) /\
  ((* compare(v) *) forall ck a b, bok a -> bok b -> compare_b ck a b = compare_m ck (to_view a) (to_view b)) /\
  ((* compare(pos1,count1,v) *) forall ck a pos1 count1 b, bok a -> bok b -> 0 <= pos1 ->
     compare3_b ck a pos1 count1 b = compare3_m ck (to_view a) pos1 count1 (to_view b)) /\
  ((* compare(pos1,count1,v,pos2,count2) *) forall ck a pos1 count1 b pos2 count2, bok a -> bok b -> 0 <= pos1 -> 0 <= pos2 ->
     compare5_b ck a pos1 count1 b pos2 count2 = compare5_m ck (to_view a) pos1 count1 (to_view b) pos2 count2) /\
  ((* compare(s) *) forall ck h a, bok h -> 0 <= voff a -> compare_p_b ck h a = compare_p_m ck (to_view h) a) /\
  ((* compare(pos1,count1,s) *) forall ck h pos1 count1 a, bok h -> 0 <= voff a -> 0 <= pos1 ->
     compare3_p_b ck h pos1 count1 a = compare3_p_m ck (to_view h) pos1 count1 a) /\
  ((* compare(pos1,count1,s,count2) *) forall ck h pos1 count1 a count2, bok h -> 0 <= voff a -> 0 <= pos1 ->
     compare4_p_b ck h pos1 count1 a count2 = compare4_p_m ck (to_view h) pos1 count1 a count2) /\
  ((* == != < <= > >= *) forall ck a b, bok a -> bok b -> rel6_b ck a b = rel6_m ck (to_view a) (to_view b)) /\
  ((* s OP v *) forall ck a v, bok v -> 0 <= voff a -> rel_pl_b ck a v = rel_pl_m ck a (to_view v)) /\
  ((* v OP s *) forall ck v a, bok v -> 0 <= voff a -> rel_pr_b ck v a = rel_pr_m ck (to_view v) a) /\
  ((* starts_with(v) *) forall ck h n, bok h -> bok n -> starts_with_b ck h n = starts_with_m ck (to_view h) (to_view n)) /\
  ((* ends_with(v) *) forall ck h n, bok h -> bok n -> ends_with_b ck h n = ends_with_m ck (to_view h) (to_view n)) /\
  ((* starts_with(s) *) forall ck h a, bok h -> 0 <= voff a -> starts_with_p_b ck h a = starts_with_p_m ck (to_view h) a) /\
  ((* ends_with(s) *) forall ck h a, bok h -> 0 <= voff a -> ends_with_p_b ck h a = ends_with_p_m ck (to_view h) a) /\
  ((* substr *) forall v pos count, rview (substr_b v pos count) = substr_m (to_view v) pos count) /\
  ((* remove_prefix *) forall v n, rview (remove_prefix_b v n) = remove_prefix_m (to_view v) n) /\
  ((* remove_suffix *) forall v n, rview (remove_suffix_b v n) = remove_suffix_m (to_view v) n) /\
  ((* copy *) forall v count pos, bok v -> copy_b v count pos = copy_m (to_view v) count pos) /\
  ((* operator[] *) forall v pos, bok v -> index_b v pos = index_m (to_view v) pos) /\
  ((* back *) forall v, bok v -> back_b v = back_m (to_view v)) /\
  ((* printed characters *) forall v, bok v -> chars_b v = chars_m (to_view v)).
Proof.
  exact (conj rdb_rd (conj traits_compare_big (conj compare_big (conj compare3_big (conj compare5_big
        (conj compare_p_big (conj compare3_p_big (conj compare4_p_big (conj rel6_big (conj rel_pl_big (conj rel_pr_big
        (conj starts_with_big (conj ends_with_big (conj starts_with_p_big (conj ends_with_p_big
        (conj substr_big (conj remove_prefix_big (conj remove_suffix_big (conj copy_big (conj index_big
        (conj back_big chars_big))))))))))))))))))))).
Qed.
Print Assumptions C08_big_model_is_model.

(* the closed forms of the specification on sparse strings are Spec.v's functions on the denoted lists; a sparse view
   inside its allocation denotes an ordinary view_ok view with those characters *)
Theorem C08_big_spec_is_spec :
  (forall v, bview_ok v -> view_ok (to_view v) /\ len (bchars v) = blen v) /\
  (forall v i, bview_ok v -> 0 <= i < blen v -> zth (bchars v) i = bget v i) /\
  (forall v, bview_ok v -> chars_sp v = bchars v) /\
  (forall t a b, bview_ok a -> bview_ok b -> compare_sp t a b = compare_s t (bchars a) (bchars b)) /\
  (forall t a pos1 n1 b, bview_ok a -> bview_ok b -> 0 <= pos1 -> 0 <= n1 ->
     compare3_sp t a pos1 n1 b = compare3_s t (bchars a) pos1 n1 (bchars b)) /\
  (forall t a pos1 n1 b pos2 n2, bview_ok a -> bview_ok b -> 0 <= pos1 -> 0 <= n1 -> 0 <= pos2 -> 0 <= n2 ->
     compare5_sp t a pos1 n1 b pos2 n2 = compare5_s t (bchars a) pos1 n1 (bchars b) pos2 n2) /\
  (forall t a b, bview_ok a -> bview_ok b -> rel_sp t a b = rel_s t (bchars a) (bchars b)) /\
  (forall h n, bview_ok h -> bview_ok n -> starts_with_sp h n = starts_with_s (bchars h) (bchars n)) /\
  (forall h n, bview_ok h -> bview_ok n -> ends_with_sp h n = ends_with_s (bchars h) (bchars n)) /\
  (forall v pos n, bview_ok v -> 0 <= pos -> 0 <= n -> opt_chars (substr_sp v pos n) (substr_s (bchars v) pos n)) /\
  (forall v n, bview_ok v -> 0 <= n -> opt_chars (remove_prefix_sp v n) (remove_prefix_s (bchars v) n)) /\
  (forall v n, bview_ok v -> 0 <= n -> opt_chars (remove_suffix_sp v n) (remove_suffix_s (bchars v) n)) /\
  (forall l, len l < 9223372036854775808 -> bview_ok (sp_of_list l) /\ bchars (sp_of_list l) = l).
Proof.
  exact (conj (fun v H => conj (to_view_ok v H) (len_bchars v H)) (conj bget_zth (conj chars_sp_correct
        (conj compare_sp_correct (conj compare3_sp_correct (conj compare5_sp_correct (conj rel_sp_correct
        (conj starts_with_sp_correct (conj ends_with_sp_correct (conj substr_sp_correct
        (conj remove_prefix_sp_correct (conj remove_suffix_sp_correct sp_of_list_ok)))))))))))).
Qed.
Print Assumptions C08_big_spec_is_spec.

(* the executed model on huge views returns what the (sparse) specification says, for ALL sparse views inside their
   allocation - in particular for lengths of 2^31+3, 2^32+3, 2^33 *)
Theorem C08_big_compare :
  (forall ck a b, bview_ok a -> bview_ok b -> compare_b ck a b = Ok (compare_sp (ct_of ck) a b)) /\
  (forall ck a b, bview_ok a -> bview_ok b -> rel6_b ck a b = Ok (rel_sp (ct_of ck) a b)) /\
  (forall ck a pos1 count1 b, bview_ok a -> bview_ok b -> pos_ok pos1 -> pos_ok count1 ->
     res_opt (compare3_b ck a pos1 count1 b) (compare3_sp (ct_of ck) a pos1 count1 b)) /\
  (forall ck a pos1 count1 b pos2 count2, bview_ok a -> bview_ok b ->
     pos_ok pos1 -> pos_ok count1 -> pos_ok pos2 -> pos_ok count2 ->
     res_opt (compare5_b ck a pos1 count1 b pos2 count2) (compare5_sp (ct_of ck) a pos1 count1 b pos2 count2)) /\
  (forall ck h n, bview_ok h -> bview_ok n -> chars_ok (ct_of ck) (bchars h) -> chars_ok (ct_of ck) (bchars n) ->
     starts_with_b ck h n = Ok (starts_with_sp h n) /\ ends_with_b ck h n = Ok (ends_with_sp h n)).
Proof.
  repeat split.
  - intros ck a b Ha Hb. rewrite compare_big by (apply bview_ok_bok; assumption).
    rewrite compare_correct by (apply to_view_ok; assumption). rewrite compare_sp_correct by assumption. reflexivity.
  - intros ck a b Ha Hb. rewrite rel6_big by (apply bview_ok_bok; assumption).
    rewrite rel6_correct by (apply to_view_ok; assumption). rewrite rel_sp_correct by assumption. reflexivity.
  - intros ck a pos1 count1 b Ha Hb Hp Hc. pose proof Hp as Hp'. pose proof Hc as Hc'. unfold pos_ok in Hp', Hc'.
    rewrite compare3_big by (try apply bview_ok_bok; try assumption; lia).
    rewrite compare3_sp_correct by (assumption || lia).
    apply compare3_correct; try assumption; apply to_view_ok; assumption.
  - intros ck a pos1 count1 b pos2 count2 Ha Hb Hp1 Hc1 Hp2 Hc2.
    pose proof Hp1 as Hp1'. pose proof Hc1 as Hc1'. pose proof Hp2 as Hp2'. pose proof Hc2 as Hc2'.
    unfold pos_ok in Hp1', Hc1', Hp2', Hc2'.
    rewrite compare5_big by (try apply bview_ok_bok; try assumption; lia).
    rewrite compare5_sp_correct by (assumption || lia).
    apply compare5_correct; try assumption; apply to_view_ok; assumption.
  - rewrite starts_with_big by (apply bview_ok_bok; assumption).
    rewrite starts_with_sp_correct by assumption.
    apply starts_with_correct; try assumption; apply to_view_ok; assumption.
  - rewrite ends_with_big by (apply bview_ok_bok; assumption).
    rewrite ends_with_sp_correct by assumption.
    apply ends_with_correct; try assumption; apply to_view_ok; assumption.
Qed.
Print Assumptions C08_big_compare.

(* compare's length tie-break: when the two views agree on their common length the result is the sign of
   size() - v.size() computed over Z - for all lengths below 2^63, so for differences of 2^31, 2^32, ... as well; and
   the sign of that difference narrowed to 32 bits (static_cast<int>) is a different function; witnesses of 2^31+3 and
   2^32+3 characters *)
Theorem C08_compare_tiebreak_not_narrowed :
  (forall ck a b, view_ok a -> view_ok b -> common_prefix_equal (ct_of ck) (vchars a) (vchars b) ->
     compare_m ck a b = Ok (Z.sgn (vlen a - vlen b)) /\
     (vlen a < vlen b -> compare_m ck a b = Ok (-1)) /\
     (vlen a > vlen b -> compare_m ck a b = Ok 1) /\
     (compare_m ck a b = Ok 0 <-> vlen a = vlen b)) /\
  (forall t a b, common_prefix_equal t a b -> compare_s t a b = Z.sgn (len a - len b)) /\
  (Z.sgn (narrow32 (2147483651 - 3)) = -1 /\ Z.sgn (2147483651 - 3) = 1 /\
   Z.sgn (narrow32 (4294967299 - 3)) = 0 /\ Z.sgn (4294967299 - 3) = 1 /\
   Z.sgn (narrow32 (3 - 4294967299)) = 0 /\ Z.sgn (3 - 4294967299) = -1) /\
  (view_ok (to_view (wit 2147483651)) /\ view_ok (to_view (wit 4294967299)) /\ view_ok (to_view (wit 3)) /\
   common_prefix_equal TChar (bchars (wit 2147483651)) (bchars (wit 3)) /\
   common_prefix_equal TChar (bchars (wit 4294967299)) (bchars (wit 3)) /\
   compare_m CChar (to_view (wit 2147483651)) (to_view (wit 3)) = Ok 1 /\
   compare_m CChar (to_view (wit 3)) (to_view (wit 2147483651)) = Ok (-1) /\
   compare_m CChar (to_view (wit 4294967299)) (to_view (wit 3)) = Ok 1 /\
   compare_m CChar (to_view (wit 3)) (to_view (wit 4294967299)) = Ok (-1) /\
   op_eq_m CChar (to_view (wit 4294967299)) (to_view (wit 3)) = Ok false).
Proof.
  split; [|split; [|split]].
  - intros ck a b Ha Hb H. split; [apply compare_m_tie; assumption|apply compare_m_tie_cases; assumption].
  - exact compare_s_tie.
  - exact narrowed_tie_differs.
  - split; [apply to_view_ok, wit_ok; unfold big_cap; lia|].
    split; [apply to_view_ok, wit_ok; unfold big_cap; lia|].
    split; [apply to_view_ok, wit_ok; unfold big_cap; lia|].
    split; [apply wit_prefix; unfold big_cap; lia|].
    split; [apply wit_prefix; unfold big_cap; lia|].
    exact wit_compare.
Qed.
Print Assumptions C08_compare_tiebreak_not_narrowed.

(* the six search families on huge views: the model's functions (Model.v, whose loops need fuel proportional to the
   haystack length and are therefore not executed there) return, on the expanded views, the values of the closed
   forms of SpecBigFind.v - which are Spec.v's find_s ... on the denoted lists.  The driver prints these closed forms
   as the model leg of the `bigfind` ... `bigflno` operations. *)
Theorem C08_big_search :
  (forall h n pos, bview_ok h -> bview_ok n -> pos_ok pos ->
     find_m (to_view h) (to_view n) pos = Ok (find_sp h n pos) /\
     rfind_m (to_view h) (to_view n) pos = Ok (rfind_sp h n pos) /\
     find_first_of_m (to_view h) (to_view n) pos = Ok (find_first_of_sp h n pos) /\
     find_first_not_of_m (to_view h) (to_view n) pos = Ok (find_first_not_of_sp h n pos) /\
     find_last_of_m (to_view h) (to_view n) pos = Ok (find_last_of_sp h n pos) /\
     find_last_not_of_m (to_view h) (to_view n) pos = Ok (find_last_not_of_sp h n pos)) /\
  (forall h n pos, bview_ok h -> bview_ok n -> 0 <= pos ->
     find_sp h n pos = find_s (bchars h) (bchars n) pos /\
     rfind_sp h n pos = rfind_s (bchars h) (bchars n) pos /\
     find_first_of_sp h n pos = find_first_of_s (bchars h) (bchars n) pos /\
     find_first_not_of_sp h n pos = find_first_not_of_s (bchars h) (bchars n) pos /\
     find_last_of_sp h n pos = find_last_of_s (bchars h) (bchars n) pos /\
     find_last_not_of_sp h n pos = find_last_not_of_s (bchars h) (bchars n) pos).
Proof.
  split.
  - intros h n pos Hh Hn Hp.
    exact (conj (find_big h n pos Hh Hn Hp) (conj (rfind_big h n pos Hh Hn Hp) (conj (find_first_of_big h n pos Hh Hn Hp)
          (conj (find_first_not_of_big h n pos Hh Hn Hp) (conj (find_last_of_big h n pos Hh Hn Hp)
          (find_last_not_of_big h n pos Hh Hn Hp)))))).
  - intros h n pos Hh Hn Hp.
    exact (conj (find_sp_correct h n pos Hh Hn Hp) (conj (rfind_sp_correct h n pos Hh Hn Hp)
          (conj (find_first_of_sp_correct h n pos Hh Hn Hp) (conj (find_first_not_of_sp_correct h n pos Hh Hn Hp)
          (conj (find_last_of_sp_correct h n pos Hh Hn Hp) (find_last_not_of_sp_correct h n pos Hh Hn Hp)))))).
Qed.
Print Assumptions C08_big_search.

(* non-vacuity: a sparse view of 2^32+3 characters satisfies the hypotheses, and the executed functions return the
   values the C++ code returns on the unchanged tree *)
Example C08_big_nonvacuous :
  bview_ok (wit 4294967299) /\ bview_ok (wit 3) /\
  compare_b CChar (wit 4294967299) (wit 3) = Ok 1 /\
  rel6_b CChar (wit 3) (wit 4294967299) = Ok [false; true; true; true; false; false] /\
  ends_with_b CChar (wit 4294967299) (wit 3) = Ok false /\
  starts_with_b CChar (wit 4294967299) (wit 3) = Ok true /\
  find_sp (wit 4294967299) (mkbview (mksbuf [0] 0 1) 0 1) 4294967297 = 4294967297 /\
  rfind_sp (wit 4294967299) (mkbview (mksbuf [0] 0 1) 0 1) 4 = 4 /\
  find_last_of_sp (wit 4294967299) (wit 3) 5 = 2.
Proof.
  split; [apply wit_ok; unfold big_cap; lia|]. split; [apply wit_ok; unfold big_cap; lia|].
  vm_compute. repeat split.
Qed.
