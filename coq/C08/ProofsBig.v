(* C08: the sparse-allocation functions of ModelBig.v ARE the functions of Model.v on the expanded view, for all
   sparse views (any prefix, fill character, capacity, offset >= 0, length, position, count). *)
From Tetl Require Import Lib.Base C08.Model C08.Spec C08.ModelExt C08.Core C08.ModelBig.
From Coq Require Import ZifyBool.
Local Open Scope Z_scope.
Ltac Zify.zify_post_hook ::= Z.to_euclidean_division_equations.

Definition bok (v : bview) : Prop := 0 <= boff v.

Lemma rdb_rd v i : bok v -> rdb v i = rd (to_view v) i.
Proof.
  intros Hv. unfold bok in Hv. unfold rdb, rd, to_view, expand. cbn [vlen voff vbuf].
  destruct ((0 <=? i) && (i <? blen v)) eqn:E; [|reflexivity].
  assert (Hi : 0 <= i) by lia. unfold len.
  destruct (boff v + i <? Z.of_nat (length (spre (bbuf v)))) eqn:E1.
  - rewrite nth_error_app1 by lia. reflexivity.
  - rewrite nth_error_app2 by lia.
    destruct (boff v + i <? scap (bbuf v)) eqn:E2.
    + rewrite nth_error_repeat by lia. reflexivity.
    + assert (N : nth_error (repeat (sfill (bbuf v)) (Z.to_nat (scap (bbuf v) - Z.of_nat (length (spre (bbuf v))))))
                    (Z.to_nat (boff v + i) - length (spre (bbuf v))) = None).
      { apply nth_error_None. rewrite repeat_length. lia. }
      rewrite N. reflexivity.
Qed.

Lemma to_of_view n : to_view (of_view n) = n.
Proof.
  destruct n as [b o l]. unfold to_view, of_view, expand. cbn [bbuf boff blen spre sfill scap vbuf voff vlen].
  rewrite Z.sub_diag. cbn [Z.to_nat repeat]. rewrite app_nil_r. reflexivity.
Qed.

Lemma for_up_ext {A} (cond : Z -> bool) (b1 b2 : Z -> res (option A)) :
  (forall j, b1 j = b2 j) -> forall fuel i, for_up fuel cond b1 i = for_up fuel cond b2 i.
Proof.
  intros H. induction fuel as [|f IH]; intros i; [reflexivity|].
  cbn [for_up]. rewrite H. destruct (cond i); [|reflexivity].
  destruct (b2 i) as [[a|]| | |]; cbn [rbind]; try reflexivity. apply IH.
Qed.

Lemma traits_compare_big ck a b c : bok a -> bok b ->
  traits_compare_b ck a b c = traits_compare ck (to_view a) (to_view b) c.
Proof.
  intros Ha Hb. unfold traits_compare_b, traits_compare.
  destruct (c =? 0); [reflexivity|].
  rewrite (for_up_ext _ _ (fun i => do x <- rd (to_view a) i; do y <- rd (to_view b) i;
                      if lt_tr ck x y then Ok (Some (-1))
                      else if lt_tr ck y x then Ok (Some 1) else Ok None)); [reflexivity|].
  intros j. rewrite !rdb_rd by assumption. reflexivity.
Qed.

Lemma compare_big ck a b : bok a -> bok b ->
  compare_b ck a b = compare_m ck (to_view a) (to_view b).
Proof.
  intros Ha Hb. unfold compare_b, compare_m. rewrite traits_compare_big by assumption. reflexivity.
Qed.

(* a function result that is a view *)
Definition rview (r : res bview) : res view := do s <- r; Ok (to_view s).

Lemma substr_big v pos count : rview (substr_b v pos count) = substr_m (to_view v) pos count.
Proof.
  unfold rview, substr_b, substr_m, to_view. cbn [vlen voff vbuf].
  destruct (pos <=? blen v); reflexivity.
Qed.
Lemma substr_big_ok v pos count s : bok v -> 0 <= pos -> substr_b v pos count = Ok s -> bok s.
Proof.
  unfold bok, substr_b. intros Hv Hp. destruct (pos <=? blen v); [|discriminate].
  intros [= <-]. cbn [boff]. lia.
Qed.
Lemma remove_prefix_big v n : rview (remove_prefix_b v n) = remove_prefix_m (to_view v) n.
Proof.
  unfold rview, remove_prefix_b, remove_prefix_m, to_view. cbn [vlen voff vbuf].
  destruct (n <=? blen v); reflexivity.
Qed.
Lemma remove_suffix_big v n : rview (remove_suffix_b v n) = remove_suffix_m (to_view v) n.
Proof.
  unfold rview, remove_suffix_b, remove_suffix_m, to_view. cbn [vlen voff vbuf].
  destruct (n <=? blen v); reflexivity.
Qed.

Lemma copy_loop_big v pos rcount : bok v -> forall fuel i,
  copy_loop_b fuel v pos i rcount = copy_loop fuel (to_view v) pos i rcount.
Proof.
  intros Hv. induction fuel as [|f IH]; intros i; [reflexivity|].
  cbn [copy_loop_b copy_loop]. destruct (i <? rcount); [|reflexivity].
  rewrite rdb_rd by assumption. rewrite IH. reflexivity.
Qed.
Lemma copy_big v count pos : bok v -> copy_b v count pos = copy_m (to_view v) count pos.
Proof.
  intros Hv. unfold copy_b, copy_m. change (vlen (to_view v)) with (blen v).
  destruct (pos <=? blen v); [|reflexivity]. cbv zeta.
  rewrite copy_loop_big by assumption. reflexivity.
Qed.

Lemma compare3_big ck a pos1 count1 b : bok a -> bok b -> 0 <= pos1 ->
  compare3_b ck a pos1 count1 b = compare3_m ck (to_view a) pos1 count1 (to_view b).
Proof.
  intros Ha Hb Hp. unfold compare3_b, compare3_m. rewrite <- substr_big. unfold rview.
  destruct (substr_b a pos1 count1) as [s| | |] eqn:E; cbn [rbind]; try reflexivity.
  apply compare_big; [|assumption]. apply (substr_big_ok a pos1 count1); assumption.
Qed.

Lemma compare5_big ck a pos1 count1 b pos2 count2 : bok a -> bok b -> 0 <= pos1 -> 0 <= pos2 ->
  compare5_b ck a pos1 count1 b pos2 count2 = compare5_m ck (to_view a) pos1 count1 (to_view b) pos2 count2.
Proof.
  intros Ha Hb Hp1 Hp2. unfold compare5_b, compare5_m. rewrite <- !substr_big. unfold rview.
  destruct (substr_b a pos1 count1) as [s| | |] eqn:E; cbn [rbind]; try reflexivity.
  destruct (substr_b b pos2 count2) as [t| | |] eqn:E2; cbn [rbind]; try reflexivity.
  apply compare_big; [apply (substr_big_ok a pos1 count1)|apply (substr_big_ok b pos2 count2)]; assumption.
Qed.

Lemma op_eq_big ck a b : bok a -> bok b -> op_eq_b ck a b = op_eq_m ck (to_view a) (to_view b).
Proof. intros Ha Hb. unfold op_eq_b, op_eq_m. rewrite compare_big by assumption. reflexivity. Qed.
Lemma op_ne_big ck a b : bok a -> bok b -> op_ne_b ck a b = op_ne_m ck (to_view a) (to_view b).
Proof. intros Ha Hb. unfold op_ne_b, op_ne_m. rewrite op_eq_big by assumption. reflexivity. Qed.
Lemma op_lt_big ck a b : bok a -> bok b -> op_lt_b ck a b = op_lt_m ck (to_view a) (to_view b).
Proof. intros Ha Hb. unfold op_lt_b, op_lt_m. rewrite compare_big by assumption. reflexivity. Qed.
Lemma op_le_big ck a b : bok a -> bok b -> op_le_b ck a b = op_le_m ck (to_view a) (to_view b).
Proof. intros Ha Hb. unfold op_le_b, op_le_m. rewrite op_lt_big, op_eq_big by assumption. reflexivity. Qed.
Lemma op_gt_big ck a b : bok a -> bok b -> op_gt_b ck a b = op_gt_m ck (to_view a) (to_view b).
Proof. intros Ha Hb. unfold op_gt_b, op_gt_m. rewrite op_lt_big, op_eq_big by assumption. reflexivity. Qed.
Lemma op_ge_big ck a b : bok a -> bok b -> op_ge_b ck a b = op_ge_m ck (to_view a) (to_view b).
Proof. intros Ha Hb. unfold op_ge_b, op_ge_m. rewrite op_gt_big, op_eq_big by assumption. reflexivity. Qed.
Lemma rel6_big ck a b : bok a -> bok b -> rel6_b ck a b = rel6_m ck (to_view a) (to_view b).
Proof.
  intros Ha Hb. unfold rel6_b, rel6_m.
  rewrite op_eq_big, op_ne_big, op_lt_big, op_le_big, op_gt_big, op_ge_big by assumption. reflexivity.
Qed.

Lemma starts_with_big ck h n : bok h -> bok n ->
  starts_with_b ck h n = starts_with_m ck (to_view h) (to_view n).
Proof.
  intros Hh Hn. unfold starts_with_b, starts_with_m. change (vlen (to_view n)) with (blen n).
  rewrite <- substr_big. unfold rview.
  destruct (substr_b h 0 (blen n)) as [s| | |] eqn:E; cbn [rbind]; try reflexivity.
  apply op_eq_big; [|assumption]. apply (substr_big_ok h 0 (blen n)); [assumption|lia|assumption].
Qed.

Lemma ends_with_big ck h n : bok h -> bok n ->
  ends_with_b ck h n = ends_with_m ck (to_view h) (to_view n).
Proof.
  intros Hh Hn. unfold ends_with_b, ends_with_m.
  change (vlen (to_view n)) with (blen n). change (vlen (to_view h)) with (blen h).
  destruct (blen h >=? blen n); [|reflexivity].
  rewrite compare3_big; try assumption; [reflexivity|]. unfold sz. lia.
Qed.

Lemma of_view_ok n : 0 <= voff n -> bok (of_view n).
Proof. intros H. exact H. Qed.

Lemma with_cstr_big {A} (a : view) (f : bview -> res A) (g : view -> res A) : 0 <= voff a ->
  (forall n, bok n -> f n = g (to_view n)) ->
  with_cstr a (fun n => f (of_view n)) = with_cstr a g.
Proof.
  intros Ha H. unfold with_cstr, cstr_view. destruct (strlen_m a) as [l| | |]; cbn [rbind]; try reflexivity.
  rewrite H by exact Ha. rewrite to_of_view. reflexivity.
Qed.

Lemma compare_p_big ck h a : bok h -> 0 <= voff a -> compare_p_b ck h a = compare_p_m ck (to_view h) a.
Proof.
  intros Hh Ha. unfold compare_p_b, compare_p_m. apply with_cstr_big; [assumption|].
  intros n Hn. apply compare_big; assumption.
Qed.
Lemma compare3_p_big ck h pos1 count1 a : bok h -> 0 <= voff a -> 0 <= pos1 ->
  compare3_p_b ck h pos1 count1 a = compare3_p_m ck (to_view h) pos1 count1 a.
Proof.
  intros Hh Ha Hp. unfold compare3_p_b, compare3_p_m. rewrite <- substr_big. unfold rview.
  destruct (substr_b h pos1 count1) as [s| | |] eqn:E; cbn [rbind]; try reflexivity.
  apply with_cstr_big; [assumption|]. intros n Hn. apply compare_big; [|assumption].
  apply (substr_big_ok h pos1 count1); assumption.
Qed.
Lemma compare4_p_big ck h pos1 count1 a count2 : bok h -> 0 <= voff a -> 0 <= pos1 ->
  compare4_p_b ck h pos1 count1 a count2 = compare4_p_m ck (to_view h) pos1 count1 a count2.
Proof.
  intros Hh Ha Hp. unfold compare4_p_b, compare4_p_m. rewrite <- substr_big. unfold rview.
  destruct (substr_b h pos1 count1) as [s| | |] eqn:E; cbn [rbind]; try reflexivity.
  rewrite compare_big; [rewrite to_of_view; reflexivity| |exact Ha].
  apply (substr_big_ok h pos1 count1); assumption.
Qed.
Lemma starts_with_p_big ck h a : bok h -> 0 <= voff a ->
  starts_with_p_b ck h a = starts_with_p_m ck (to_view h) a.
Proof.
  intros Hh Ha. unfold starts_with_p_b, starts_with_p_m. apply with_cstr_big; [assumption|].
  intros n Hn. apply starts_with_big; assumption.
Qed.
Lemma ends_with_p_big ck h a : bok h -> 0 <= voff a ->
  ends_with_p_b ck h a = ends_with_p_m ck (to_view h) a.
Proof.
  intros Hh Ha. unfold ends_with_p_b, ends_with_p_m. apply with_cstr_big; [assumption|].
  intros n Hn. apply ends_with_big; assumption.
Qed.

Lemma rel_pl_big ck a v : bok v -> 0 <= voff a -> rel_pl_b ck a v = rel_pl_m ck a (to_view v).
Proof.
  intros Hv Ha. unfold rel_pl_b, rel_pl_m.
  apply (with_cstr_big a (fun n => rel6_b ck n v) (fun n => rel6_m ck n (to_view v))); [assumption|].
  intros n Hn. apply rel6_big; assumption.
Qed.
Lemma rel_pr_big ck v a : bok v -> 0 <= voff a -> rel_pr_b ck v a = rel_pr_m ck (to_view v) a.
Proof.
  intros Hv Ha. unfold rel_pr_b, rel_pr_m.
  apply (with_cstr_big a (fun n => rel6_b ck v n) (fun n => rel6_m ck (to_view v) n)); [assumption|].
  intros n Hn. apply rel6_big; assumption.
Qed.

Lemma index_big v pos : bok v -> index_b v pos = index_m (to_view v) pos.
Proof.
  intros Hv. unfold index_b, index_m, at_chk. change (vlen (to_view v)) with (blen v).
  destruct (pos <? blen v); [apply rdb_rd; assumption|reflexivity].
Qed.
Lemma back_big v : bok v -> back_b v = back_m (to_view v).
Proof.
  intros Hv. unfold back_b, back_m, back. change (vlen (to_view v)) with (blen v).
  destruct (blen v =? 0); [reflexivity|apply rdb_rd; assumption].
Qed.

Lemma chars_loop_big v : bok v -> forall fuel i,
  chars_loop_b fuel v i = chars_loop fuel (to_view v) i.
Proof.
  intros Hv. induction fuel as [|f IH]; intros i; [reflexivity|].
  cbn [chars_loop_b chars_loop]. change (vlen (to_view v)) with (blen v).
  destruct (i <? blen v); [|reflexivity]. rewrite rdb_rd by assumption. rewrite IH. reflexivity.
Qed.
Lemma chars_big v : bok v -> chars_b v = chars_m (to_view v).
Proof. intros Hv. unfold chars_b, chars_m. apply chars_loop_big. assumption. Qed.

(** * the expanded view is an ordinary view: the theorems of Properties.v apply *)
Definition bview_ok (v : bview) : Prop :=
  0 <= boff v /\ 0 <= blen v < 9223372036854775808 /\
  boff v + blen v <= Z.max (len (spre (bbuf v))) (scap (bbuf v)).

Lemma len_expand b : len (expand b) = Z.max (len (spre b)) (scap b).
Proof. unfold expand, len. rewrite app_length, repeat_length. lia. Qed.

Lemma to_view_ok v : bview_ok v -> view_ok (to_view v).
Proof.
  intros (H0 & H1 & H2). unfold view_ok, to_view. cbn [vlen voff vbuf]. rewrite len_expand. lia.
Qed.
Lemma bview_ok_bok v : bview_ok v -> bok v.
Proof. intros (H0 & _). exact H0. Qed.
