From Tetl Require Import Lib.Base C08.Model C08.Spec C08.ModelExt C08.SpecExt C08.ModelTraits C08.SpecTraits C08.ModelBig C08.SpecBig C08.SpecBigFind.
Require Extraction.
Require Import ExtrOcamlBasic.
Extraction Language OCaml.
Extraction "C08_model.ml" wire_anchor
  mkview rd chars_m cstr_view char_view ptr_view strlen_m
  substr_m remove_prefix_m remove_suffix_m copy_m
  compare_m compare3_m compare5_m compare_p_m compare3_p_m compare4_p_m
  op_eq_m op_ne_m op_lt_m op_le_m op_gt_m op_ge_m
  starts_with_m starts_with_c_m starts_with_p_m ends_with_m ends_with_c_m ends_with_p_m
  find_m find_c_m find_p_m find_pc_m contains_m contains_c_m contains_p_m
  rfind_m rfind_c_m rfind_p_m rfind_pc_m
  find_first_of_m find_first_of_c_m find_first_of_p_m find_first_of_pc_m
  find_first_not_of_m find_first_not_of_c_m find_first_not_of_p_m find_first_not_of_pc_m
  find_last_of_m find_last_of_c_m find_last_of_p_m find_last_of_pc_m
  find_last_not_of_m find_last_not_of_c_m find_last_not_of_p_m find_last_not_of_pc_m
  find_s rfind_s find_first_of_s find_first_not_of_s find_last_of_s find_last_not_of_s contains_s
  substr_s copy_s remove_prefix_s remove_suffix_s compare_s compare3_s compare5_s
  starts_with_s ends_with_s rel_s cstr_s sub
  (* review extension (ModelExt.v / SpecExt.v): defaulted arguments, heterogeneous relational operators,
     element access, swap *)
  find_d_m find_c_d_m find_p_d_m rfind_d_m rfind_c_d_m rfind_p_d_m
  find_first_of_d_m find_first_of_c_d_m find_first_of_p_d_m
  find_first_not_of_d_m find_first_not_of_c_d_m find_first_not_of_p_d_m
  find_last_of_d_m find_last_of_c_d_m find_last_of_p_d_m
  find_last_not_of_d_m find_last_not_of_c_d_m find_last_not_of_p_d_m
  substr_d0_m substr_d1_m copy_d_m rel6_m rel_pl_m rel_pr_m front_m back_m index_m swap_m
  find_d_s rfind_d_s find_first_of_d_s find_first_not_of_d_s find_last_of_d_s find_last_not_of_d_s
  substr_d0_s substr_d1_s copy_d_s index_s front_s back_s
  (* char_traits members as operations (ModelTraits.v / SpecTraits.v) *)
  tr_move_m tr_copy_m tr_fill_m traits_compare traits_find tr_eq_m tr_lt_m tr_assign_m
  eof_m to_int_type_m to_char_type_m eq_int_type_m not_eof_m
  move_s fill_s tr_compare_s tr_find_s tr_length_s eof_s to_int_type_s to_char_type_s char_lt
  (* huge views on a sparse allocation (ModelBig.v; equal to the functions above on the expanded view: ProofsBig.v) *)
  mksbuf mkbview of_view rdb chars_b substr_b remove_prefix_b remove_suffix_b copy_b
  compare_b compare3_b compare5_b compare_p_b compare3_p_b compare4_p_b rel6_b rel_pl_b rel_pr_b
  starts_with_b ends_with_b starts_with_p_b ends_with_p_b index_b back_b
  (* closed forms of the specification on sparse strings (SpecBig.v; equal to Spec.v's functions: ProofsBigSpec.v) *)
  bget chars_sp compare_sp compare3_sp compare5_sp rel_sp starts_with_sp ends_with_sp
  substr_sp remove_prefix_sp remove_suffix_sp sp_of_list
  find_sp rfind_sp find_first_of_sp find_first_not_of_sp find_last_of_sp find_last_not_of_sp.
