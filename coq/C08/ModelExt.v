(* C08 model, extension (second engineer's review): the call forms of
   include/etl/_string_view/basic_string_view.hpp that Model.v does not name:
   - the DEFAULT ARGUMENTS (find/find_first_of/find_first_not_of: pos = 0; rfind/find_last_of/
     find_last_not_of: pos = npos; substr(pos = 0, count = npos); copy(dest, count, pos = 0));
   - the HETEROGENEOUS relational operators: one operand is something convertible to the view
     (here: a C string pointer, converted by the basic_string_view(s) constructor = Traits::length), which
     selects the `type_identity_t` overloads (`int = 1`: left operand converted, `int = 2`: right
     operand converted) of < <= > >= and the single operator== (directly or through the rewritten
     reversed candidate; != is the rewritten !(==)).  Their bodies are token-identical to the
     homogeneous overloads, so the model composes the same [op_*_m];
   - operator[] / front() / back() as operations of their own (Model.v has them as helpers);
   - swap.
   No proofs in this file. *)
From Tetl Require Import Lib.Base C08.Model.
Local Open Scope Z_scope.

(** * default arguments: the declaration supplies the missing argument *)
Definition find_d_m h n := find_m h n 0.
Definition find_c_d_m h c := find_c_m h c 0.
Definition find_p_d_m h a := find_p_m h a 0.
Definition rfind_d_m h n := rfind_m h n npos.
Definition rfind_c_d_m h c := rfind_c_m h c npos.
Definition rfind_p_d_m h a := rfind_p_m h a npos.
Definition find_first_of_d_m h n := find_first_of_m h n 0.
Definition find_first_of_c_d_m h c := find_first_of_c_m h c 0.
Definition find_first_of_p_d_m h a := find_first_of_p_m h a 0.
Definition find_first_not_of_d_m h n := find_first_not_of_m h n 0.
Definition find_first_not_of_c_d_m h c := find_first_not_of_c_m h c 0.
Definition find_first_not_of_p_d_m h a := find_first_not_of_p_m h a 0.
Definition find_last_of_d_m h n := find_last_of_m h n npos.
Definition find_last_of_c_d_m h c := find_last_of_c_m h c npos.
Definition find_last_of_p_d_m h a := find_last_of_p_m h a npos.
Definition find_last_not_of_d_m h n := find_last_not_of_m h n npos.
Definition find_last_not_of_c_d_m h c := find_last_not_of_c_m h c npos.
Definition find_last_not_of_p_d_m h a := find_last_not_of_p_m h a npos.
(* substr() and substr(pos) *)
Definition substr_d0_m v := substr_m v 0 npos.
Definition substr_d1_m v pos := substr_m v pos npos.
(* copy(dest, count) *)
Definition copy_d_m v count := copy_m v count 0.

(** * heterogeneous relational operators: [a] is the array holding the C string *)
(* all six results of `s OP v` (C string pointer on the left: the `int = 1` overloads) *)
Definition rel6_m ck (x y : view) : res (list bool) :=
  do e <- op_eq_m ck x y; do ne <- op_ne_m ck x y; do l <- op_lt_m ck x y;
  do le <- op_le_m ck x y; do g <- op_gt_m ck x y; do ge <- op_ge_m ck x y;
  Ok [e; ne; l; le; g; ge].
Definition rel_pl_m ck (a v : view) : res (list bool) := with_cstr a (fun n => rel6_m ck n v).
(* `v OP s` (C string pointer on the right: the `int = 2` overloads) *)
Definition rel_pr_m ck (v a : view) : res (list bool) := with_cstr a (fun n => rel6_m ck v n).

(** * element access as operations *)
Definition front_m (v : view) : res Z := front v.
Definition back_m (v : view) : res Z := back v.
Definition index_m (v : view) (pos : Z) : res Z := at_chk v pos.

(** * swap: exchanges pointer and size *)
Definition swap_m (a b : view) : view * view := (b, a).
