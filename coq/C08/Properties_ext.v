(* C08 — extension of Properties.v (second engineer's review).  Property theorems only.
   Covers the call forms Properties.v does not name: default arguments, the heterogeneous
   (one operand converted from a C string pointer) relational operators, operator[] / front / back,
   and "no out-of-view read / no fuel exhaustion" ([defined]) for every overload that
   C08_reads_inside leaves out - starts_with / ends_with for ARBITRARY character values (no
   chars_ok hypothesis), the Char, C-string and (pointer, pos, count) overloads.
   [X_d_m] (ModelExt.v): the call of X without its defaulted argument(s); [X_d_s] (SpecExt.v): the
   std function with the default of [string.view.template]. *)
From Tetl Require Import Lib.Base C08.Model C08.Spec C08.Core C08.ProofsFind C08.ProofsCmp
  C08.ProofsRfind C08.ProofsPtr C08.ProofsSafe C08.ModelExt C08.SpecExt C08.ProofsExt.
Local Open Scope Z_scope.

(** * default arguments of the six search families (view, Char, C string) *)
(* defaults: search *)
Theorem C08_default_pos :
  ((* find *) forall h n, view_ok h -> view_ok n -> find_d_m h n = Ok (find_d_s (vchars h) (vchars n))) /\
  ((* find_c *) forall h c, view_ok h -> find_c_d_m h c = Ok (find_d_s (vchars h) [c])) /\
  ((* find_p *) forall h a, view_ok h -> cstr_ok a -> find_p_d_m h a = Ok (find_d_s (vchars h) (cstr_s (vchars a)))) /\
  ((* rfind *) forall h n, view_ok h -> view_ok n -> rfind_d_m h n = Ok (rfind_d_s (vchars h) (vchars n))) /\
  ((* rfind_c *) forall h c, view_ok h -> rfind_c_d_m h c = Ok (rfind_d_s (vchars h) [c])) /\
  ((* rfind_p *) forall h a, view_ok h -> cstr_ok a -> rfind_p_d_m h a = Ok (rfind_d_s (vchars h) (cstr_s (vchars a)))) /\
  ((* find_first_of *) forall h n, view_ok h -> view_ok n ->
  find_first_of_d_m h n = Ok (find_first_of_d_s (vchars h) (vchars n))) /\
  ((* find_first_of_c *) forall h c, view_ok h -> find_first_of_c_d_m h c = Ok (find_first_of_d_s (vchars h) [c])) /\
  ((* find_first_of_p *) forall h a, view_ok h -> cstr_ok a ->
  find_first_of_p_d_m h a = Ok (find_first_of_d_s (vchars h) (cstr_s (vchars a)))) /\
  ((* find_first_not_of *) forall h n, view_ok h -> view_ok n ->
  find_first_not_of_d_m h n = Ok (find_first_not_of_d_s (vchars h) (vchars n))) /\
  ((* find_first_not_of_c *) forall h c, view_ok h ->
  find_first_not_of_c_d_m h c = Ok (find_first_not_of_d_s (vchars h) [c])) /\
  ((* find_first_not_of_p *) forall h a, view_ok h -> cstr_ok a ->
  find_first_not_of_p_d_m h a = Ok (find_first_not_of_d_s (vchars h) (cstr_s (vchars a)))) /\
  ((* find_last_of *) forall h n, view_ok h -> view_ok n ->
  find_last_of_d_m h n = Ok (find_last_of_d_s (vchars h) (vchars n))) /\
  ((* find_last_of_c *) forall h c, view_ok h -> find_last_of_c_d_m h c = Ok (find_last_of_d_s (vchars h) [c])) /\
  ((* find_last_of_p *) forall h a, view_ok h -> cstr_ok a ->
  find_last_of_p_d_m h a = Ok (find_last_of_d_s (vchars h) (cstr_s (vchars a)))) /\
  ((* find_last_not_of *) forall h n, view_ok h -> view_ok n ->
  find_last_not_of_d_m h n = Ok (find_last_not_of_d_s (vchars h) (vchars n))) /\
  ((* find_last_not_of_c *) forall h c, view_ok h ->
  find_last_not_of_c_d_m h c = Ok (find_last_not_of_d_s (vchars h) [c])) /\
  ((* find_last_not_of_p *) forall h a, view_ok h -> cstr_ok a ->
  find_last_not_of_p_d_m h a = Ok (find_last_not_of_d_s (vchars h) (cstr_s (vchars a)))).
Proof.
  exact (conj find_d_correct (conj find_c_d_correct (conj find_p_d_correct
        (conj rfind_d_correct (conj rfind_c_d_correct (conj rfind_p_d_correct
        (conj find_first_of_d_correct (conj find_first_of_c_d_correct (conj find_first_of_p_d_correct
        (conj find_first_not_of_d_correct (conj find_first_not_of_c_d_correct (conj find_first_not_of_p_d_correct
        (conj find_last_of_d_correct (conj find_last_of_c_d_correct (conj find_last_of_p_d_correct
        (conj find_last_not_of_d_correct (conj find_last_not_of_c_d_correct find_last_not_of_p_d_correct))))))))))))))))).
Qed.
Print Assumptions C08_default_pos.

(* defaults: substr(), substr(pos), copy(dest, n); the defaulted spec forms are Spec.v's functions at
   the default values *)
Theorem C08_default_substr_copy :
  ((* substr() *) forall v, view_ok v -> view_res (substr_d0_m v) (substr_d0_s (vchars v)) (voff v)) /\
  ((* substr(pos) *) forall v pos, view_ok v -> pos_ok pos ->
  view_res (substr_d1_m v pos) (substr_d1_s (vchars v) pos) (voff v + pos)) /\
  ((* copy(dest, n) *) forall v count, view_ok v -> pos_ok count ->
  res_opt (copy_d_m v count) (copy_d_s (vchars v) count)) /\
  ((* spec forms *) forall l pos n, len l < 9223372036854775808 -> 0 <= pos ->
  substr_d0_s l = substr_s l 0 s_npos /\ substr_d1_s l pos = substr_s l pos s_npos /\
  copy_d_s l n = copy_s l n 0).
Proof.
  exact (conj substr_d0_correct (conj substr_d1_correct (conj copy_d_correct
        (fun l pos n Hl Hp => conj (substr_d0_s_eq l Hl) (conj (substr_d1_s_eq l pos Hl Hp) (copy_d_s_eq l n)))))).
Qed.
Print Assumptions C08_default_substr_copy.

(** * heterogeneous relational operators: `s OP v` and `v OP s` for a C string s, all six operators,
      every character type: the six results of [rel_s] on the C string and the view *)
(* heterogeneous relational *)
Theorem C08_relational_converted :
  ((* s OP v *) forall ck a v, cstr_ok a -> view_ok v ->
  rel_pl_m ck a v = Ok (rel_s (ct_of ck) (cstr_s (vchars a)) (vchars v))) /\
  ((* v OP s *) forall ck v a, view_ok v -> cstr_ok a ->
  rel_pr_m ck v a = Ok (rel_s (ct_of ck) (vchars v) (cstr_s (vchars a)))) /\
  ((* v OP w, as one list *) forall ck x y, view_ok x -> view_ok y ->
  rel6_m ck x y = Ok (rel_s (ct_of ck) (vchars x) (vchars y))).
Proof. exact (conj rel_pl_correct (conj rel_pr_correct rel6_correct)). Qed.
Print Assumptions C08_relational_converted.

(** * element access: Contract exactly when pos >= size() resp. the view is empty *)
(* operator[], front, back *)
Theorem C08_element_access :
  ((* operator[] *) forall v pos, view_ok v -> pos_ok pos -> res_opt (index_m v pos) (index_s (vchars v) pos)) /\
  ((* front *) forall v, view_ok v -> res_opt (front_m v) (front_s (vchars v))) /\
  ((* back *) forall v, view_ok v -> res_opt (back_m v) (back_s (vchars v))).
Proof. exact (conj index_correct (conj front_correct back_correct)). Qed.
Print Assumptions C08_element_access.

(** * no out-of-view read, no fuel exhaustion, for every remaining overload and ARBITRARY character
      values; what starts_with computes when the characters are not values of the type; frame *)
(* reads: remaining overloads *)
Theorem C08_reads_inside_overloads :
  ((* view / Char / (pointer,pos,count) overloads *) forall ck h n a c pos count,
  view_ok h -> view_ok n -> view_ok a -> pos_ok pos -> 0 <= count <= vlen a ->
  defined (starts_with_m ck h n) /\ defined (ends_with_m ck h n) /\
  defined (starts_with_c_m h c) /\ defined (ends_with_c_m h c) /\
  defined (find_c_m h c pos) /\ defined (rfind_c_m h c pos) /\
  defined (find_first_of_c_m h c pos) /\ defined (find_first_not_of_c_m h c pos) /\
  defined (find_last_of_c_m h c pos) /\ defined (find_last_not_of_c_m h c pos) /\
  defined (contains_c_m h c) /\
  defined (find_pc_m h a pos count) /\ defined (rfind_pc_m h a pos count) /\
  defined (find_first_of_pc_m h a pos count) /\ defined (find_first_not_of_pc_m h a pos count) /\
  defined (find_last_of_pc_m h a pos count) /\ defined (find_last_not_of_pc_m h a pos count) /\
  defined (index_m h pos) /\ defined (front_m h) /\ defined (back_m h)) /\
  ((* C string overloads *) forall ck h a pos, view_ok h -> cstr_ok a -> pos_ok pos ->
  defined (find_p_m h a pos) /\ defined (rfind_p_m h a pos) /\
  defined (find_first_of_p_m h a pos) /\ defined (find_first_not_of_p_m h a pos) /\
  defined (find_last_of_p_m h a pos) /\ defined (find_last_not_of_p_m h a pos) /\
  defined (contains_p_m h a) /\ defined (compare_p_m ck h a) /\
  defined (starts_with_p_m ck h a) /\ defined (ends_with_p_m ck h a) /\
  defined (rel_pl_m ck a h) /\ defined (rel_pr_m ck h a)) /\
  ((* starts_with is equality under Traits::compare *) forall ck h n, view_ok h -> view_ok n ->
  starts_with_m ck h n =
  Ok (compare_s (ct_of ck) (sub (vchars h) 0 (Z.min (vlen n) (vlen h))) (vchars n) =? 0)) /\
  ((* frame *) forall ck a a' b b', view_ok a -> view_ok a' -> view_ok b -> view_ok b' ->
  vchars a = vchars a' -> vchars b = vchars b' ->
  compare_m ck a b = compare_m ck a' b' /\ rel6_m ck a b = rel6_m ck a' b').
Proof. exact (conj reads_inside_overloads (conj reads_inside_cstr (conj starts_with_traits frame_compare))). Qed.
Print Assumptions C08_reads_inside_overloads.

(** * Non-vacuity: a C string array with characters after the terminator, a view strictly inside a
      larger buffer; the converted comparison distinguishes "ab" < "aba" and the defaulted rfind
      finds the LAST match *)
Example C08_ext_nonvacuous :
  let v := mkview [120; 97; 98; 97; 98] 1 3 in       (* "aba" at offset 1 of "xabab" *)
  let a := mkview [97; 98; 0; 97] 0 4 in             (* the array {'a','b',0,'a'}: C string "ab" *)
  view_ok v /\ cstr_ok a /\ cstr_s (vchars a) = [97; 98] /\
  rel_pl_m CChar a v = Ok [false; true; true; true; false; false] /\
  rel_pr_m CChar v a = Ok [false; true; false; false; true; true] /\
  rfind_d_m v (mkview [97] 0 1) = Ok 2 /\ find_last_not_of_d_m v (mkview [97] 0 1) = Ok 1 /\
  index_m v 3 = Contract /\ index_m v 2 = Ok 97 /\ back_m (mkview [1] 0 0) = Contract /\
  substr_d1_m v 1 = Ok (mkview [120; 97; 98; 97; 98] 2 2).
Proof.
  cbv zeta. unfold view_ok, cstr_ok, view_ok, len. cbn [vbuf voff vlen length].
  repeat split; try lia; try reflexivity.
  exists 2. split; [lia|reflexivity].
Qed.
