(* C08, extension: default arguments, heterogeneous relational operators, element access,
   and `defined` (no UB / no fuel exhaustion) for the overloads Properties.v's C08_reads_inside
   does not list; in particular starts_with / ends_with WITHOUT the chars_ok hypothesis. *)
From Tetl Require Import Lib.Base C08.Model C08.Spec C08.Core C08.ProofsFind C08.ProofsCmp
  C08.ProofsRfind C08.ProofsPtr C08.ProofsSafe C08.ModelExt C08.SpecExt.
From Coq Require Import ZifyBool.
Local Open Scope Z_scope.
Ltac Zify.zify_post_hook ::= Z.to_euclidean_division_equations.

Lemma pos_ok_0 : pos_ok 0. Proof. unfold pos_ok. lia. Qed.
Lemma pos_ok_npos : pos_ok npos. Proof. unfold pos_ok, npos. lia. Qed.
Lemma npos_s_npos : npos = s_npos. Proof. reflexivity. Qed.

(** * default arguments *)
Lemma find_d_correct h n : view_ok h -> view_ok n ->
  find_d_m h n = Ok (find_d_s (vchars h) (vchars n)).
Proof. intros Hh Hn. exact (find_correct h n 0 Hh Hn pos_ok_0). Qed.
Lemma find_c_d_correct h c : view_ok h -> find_c_d_m h c = Ok (find_d_s (vchars h) [c]).
Proof. intros Hh. exact (find_c_correct h c 0 Hh pos_ok_0). Qed.
Lemma find_p_d_correct h a : view_ok h -> cstr_ok a ->
  find_p_d_m h a = Ok (find_d_s (vchars h) (cstr_s (vchars a))).
Proof. intros Hh Ha. exact (find_p_correct h a 0 Hh Ha pos_ok_0). Qed.

Lemma rfind_d_correct h n : view_ok h -> view_ok n ->
  rfind_d_m h n = Ok (rfind_d_s (vchars h) (vchars n)).
Proof. intros Hh Hn. exact (rfind_correct h n npos Hh Hn pos_ok_npos). Qed.
Lemma rfind_c_d_correct h c : view_ok h -> rfind_c_d_m h c = Ok (rfind_d_s (vchars h) [c]).
Proof. intros Hh. exact (rfind_c_correct h c npos Hh pos_ok_npos). Qed.
Lemma rfind_p_d_correct h a : view_ok h -> cstr_ok a ->
  rfind_p_d_m h a = Ok (rfind_d_s (vchars h) (cstr_s (vchars a))).
Proof. intros Hh Ha. exact (rfind_p_correct h a npos Hh Ha pos_ok_npos). Qed.

Lemma find_first_of_d_correct h n : view_ok h -> view_ok n ->
  find_first_of_d_m h n = Ok (find_first_of_d_s (vchars h) (vchars n)).
Proof. intros Hh Hn. exact (find_first_of_correct h n 0 Hh Hn pos_ok_0). Qed.
Lemma find_first_of_c_d_correct h c : view_ok h ->
  find_first_of_c_d_m h c = Ok (find_first_of_d_s (vchars h) [c]).
Proof. intros Hh. exact (find_first_of_c_correct h c 0 Hh pos_ok_0). Qed.
Lemma find_first_of_p_d_correct h a : view_ok h -> cstr_ok a ->
  find_first_of_p_d_m h a = Ok (find_first_of_d_s (vchars h) (cstr_s (vchars a))).
Proof. intros Hh Ha. exact (find_first_of_p_correct h a 0 Hh Ha pos_ok_0). Qed.

Lemma find_first_not_of_d_correct h n : view_ok h -> view_ok n ->
  find_first_not_of_d_m h n = Ok (find_first_not_of_d_s (vchars h) (vchars n)).
Proof. intros Hh Hn. exact (find_first_not_of_correct h n 0 Hh Hn pos_ok_0). Qed.
Lemma find_first_not_of_c_d_correct h c : view_ok h ->
  find_first_not_of_c_d_m h c = Ok (find_first_not_of_d_s (vchars h) [c]).
Proof. intros Hh. exact (find_first_not_of_c_correct h c 0 Hh pos_ok_0). Qed.
Lemma find_first_not_of_p_d_correct h a : view_ok h -> cstr_ok a ->
  find_first_not_of_p_d_m h a = Ok (find_first_not_of_d_s (vchars h) (cstr_s (vchars a))).
Proof. intros Hh Ha. exact (find_first_not_of_p_correct h a 0 Hh Ha pos_ok_0). Qed.

Lemma find_last_of_d_correct h n : view_ok h -> view_ok n ->
  find_last_of_d_m h n = Ok (find_last_of_d_s (vchars h) (vchars n)).
Proof. intros Hh Hn. exact (find_last_of_correct h n npos Hh Hn pos_ok_npos). Qed.
Lemma find_last_of_c_d_correct h c : view_ok h ->
  find_last_of_c_d_m h c = Ok (find_last_of_d_s (vchars h) [c]).
Proof. intros Hh. exact (find_last_of_c_correct h c npos Hh pos_ok_npos). Qed.
Lemma find_last_of_p_d_correct h a : view_ok h -> cstr_ok a ->
  find_last_of_p_d_m h a = Ok (find_last_of_d_s (vchars h) (cstr_s (vchars a))).
Proof. intros Hh Ha. exact (find_last_of_p_correct h a npos Hh Ha pos_ok_npos). Qed.

Lemma find_last_not_of_d_correct h n : view_ok h -> view_ok n ->
  find_last_not_of_d_m h n = Ok (find_last_not_of_d_s (vchars h) (vchars n)).
Proof. intros Hh Hn. exact (find_last_not_of_correct h n npos Hh Hn pos_ok_npos). Qed.
Lemma find_last_not_of_c_d_correct h c : view_ok h ->
  find_last_not_of_c_d_m h c = Ok (find_last_not_of_d_s (vchars h) [c]).
Proof. intros Hh. exact (find_last_not_of_c_correct h c npos Hh pos_ok_npos). Qed.
Lemma find_last_not_of_p_d_correct h a : view_ok h -> cstr_ok a ->
  find_last_not_of_p_d_m h a = Ok (find_last_not_of_d_s (vchars h) (cstr_s (vchars a))).
Proof. intros Hh Ha. exact (find_last_not_of_p_correct h a npos Hh Ha pos_ok_npos). Qed.

(* substr() / substr(pos) / copy(dest, n): the defaulted spec forms are what Spec.v's general
   functions give at the default values *)
Lemma substr_d1_s_eq l pos : len l < 9223372036854775808 -> 0 <= pos ->
  substr_d1_s l pos = substr_s l pos s_npos.
Proof.
  intros Hl Hp. unfold substr_d1_s, substr_s. destruct (pos <=? len l) eqn:E; [|reflexivity].
  f_equal. symmetry. apply sub_to_end; [lia|]. pose proof (len_nonneg l). unfold s_npos. lia.
Qed.

Lemma substr_d0_s_eq l : len l < 9223372036854775808 -> substr_d0_s l = substr_s l 0 s_npos.
Proof.
  intros Hl. rewrite <- substr_d1_s_eq by lia. unfold substr_d0_s, substr_d1_s.
  pose proof (len_nonneg l). replace (0 <=? len l) with true by lia. reflexivity.
Qed.

Lemma copy_d_s_eq l n : copy_d_s l n = copy_s l n 0.
Proof.
  unfold copy_d_s, copy_s. pose proof (len_nonneg l). replace (0 <=? len l) with true by lia.
  rewrite Z.sub_0_r, sub_0. reflexivity.
Qed.

Lemma substr_d0_correct v : view_ok v ->
  view_res (substr_d0_m v) (substr_d0_s (vchars v)) (voff v).
Proof.
  intros Hv. pose proof Hv as (H0 & H1 & H2).
  rewrite substr_d0_s_eq by (rewrite (len_vchars v Hv); lia).
  pose proof (substr_correct v 0 npos Hv pos_ok_0 pos_ok_npos) as HS.
  rewrite Z.add_0_r in HS. exact HS.
Qed.

Lemma substr_d1_correct v pos : view_ok v -> pos_ok pos ->
  view_res (substr_d1_m v pos) (substr_d1_s (vchars v) pos) (voff v + pos).
Proof.
  intros Hv Hp. pose proof Hv as (H0 & H1 & H2).
  rewrite substr_d1_s_eq by (rewrite ?(len_vchars v Hv); unfold pos_ok in Hp; lia).
  exact (substr_correct v pos npos Hv Hp pos_ok_npos).
Qed.

Lemma copy_d_correct v count : view_ok v -> pos_ok count ->
  res_opt (copy_d_m v count) (copy_d_s (vchars v) count).
Proof. intros Hv Hc. rewrite copy_d_s_eq. exact (copy_correct v count 0 Hv Hc pos_ok_0). Qed.

(** * heterogeneous relational operators *)
Lemma rel6_correct ck x y : view_ok x -> view_ok y ->
  rel6_m ck x y = Ok (rel_s (ct_of ck) (vchars x) (vchars y)).
Proof.
  intros Hx Hy. unfold rel6_m.
  destruct (rel_correct ck x y Hx Hy) as (e & ne & l & le & g & ge & -> & -> & -> & -> & -> & -> & ->).
  reflexivity.
Qed.

Lemma rel_pl_correct ck a v : cstr_ok a -> view_ok v ->
  rel_pl_m ck a v = Ok (rel_s (ct_of ck) (cstr_s (vchars a)) (vchars v)).
Proof.
  intros Ha Hv. unfold rel_pl_m.
  destruct (with_cstr_spec a (fun n => rel6_m ck n v) Ha) as (n & E & Hok & Hch).
  rewrite E, <- Hch. apply rel6_correct; assumption.
Qed.

Lemma rel_pr_correct ck v a : view_ok v -> cstr_ok a ->
  rel_pr_m ck v a = Ok (rel_s (ct_of ck) (vchars v) (cstr_s (vchars a))).
Proof.
  intros Hv Ha. unfold rel_pr_m.
  destruct (with_cstr_spec a (fun n => rel6_m ck v n) Ha) as (n & E & Hok & Hch).
  rewrite E, <- Hch. apply rel6_correct; assumption.
Qed.

(** * element access: Contract exactly when the documented precondition fails *)
Lemma index_correct v pos : view_ok v -> pos_ok pos ->
  res_opt (index_m v pos) (index_s (vchars v) pos).
Proof.
  intros Hv Hp. pose proof (len_vchars v Hv) as LV. unfold index_m, at_chk, index_s. rewrite LV.
  destruct (pos <? vlen v) eqn:E; [|exact I].
  unfold pos_ok in Hp. rewrite rd_ok by (assumption || lia).
  rewrite (nth_error_zth (vchars v) (Z.to_nat pos)) by (unfold len in LV; lia).
  rewrite Z2Nat.id by lia. reflexivity.
Qed.

Lemma front_correct v : view_ok v -> res_opt (front_m v) (front_s (vchars v)).
Proof.
  intros Hv. pose proof (len_vchars v Hv) as LV. pose proof Hv as (H0 & H1 & H2).
  unfold front_m, front, front_s.
  destruct (vchars v) as [|x l] eqn:EV.
  - change (len []) with 0 in LV. replace (vlen v =? 0) with true by lia. exact I.
  - rewrite len_cons in LV. pose proof (len_nonneg l). replace (vlen v =? 0) with false by lia.
    rewrite rd_ok by (assumption || lia). rewrite EV, zth_cons_0. reflexivity.
Qed.

Lemma hd_error_rev_zth (l : list Z) : l <> [] -> hd_error (rev l) = Some (zth l (len l - 1)).
Proof.
  intros Hne. destruct (exists_last Hne) as (l' & x & ->).
  rewrite rev_app_distr. cbn [rev app hd_error]. f_equal.
  unfold zth, len. rewrite app_length. cbn [length].
  replace (Z.to_nat (Z.of_nat (length l' + 1) - 1)) with (length l') by lia.
  rewrite nth_middle. reflexivity.
Qed.

Lemma back_correct v : view_ok v -> res_opt (back_m v) (back_s (vchars v)).
Proof.
  intros Hv. pose proof (len_vchars v Hv) as LV. pose proof Hv as (H0 & H1 & H2).
  unfold back_m, back, back_s.
  destruct (vlen v =? 0) eqn:E.
  - destruct (vchars v) as [|x l]; [exact I|]. rewrite len_cons in LV. pose proof (len_nonneg l). lia.
  - rewrite sz_small by lia. rewrite rd_ok by (assumption || lia).
    rewrite hd_error_rev_zth.
    + rewrite LV. reflexivity.
    + intros EV. rewrite EV in LV. change (len []) with 0 in LV. lia.
Qed.

Lemma swap_correct a b : swap_m a b = (b, a).
Proof. reflexivity. Qed.

(** * no UB, no fuel exhaustion: the overloads not listed in C08_reads_inside *)
Lemma starts_with_defined ck h n : view_ok h -> view_ok n ->
  exists r, starts_with_m ck h n = Ok r.
Proof.
  intros Hh Hn. pose proof Hh as (H0 & H1 & H2). pose proof Hn as (N0 & N1 & N2).
  unfold starts_with_m.
  assert (HS := substr_correct h 0 (vlen n) Hh ltac:(unfold pos_ok; lia) ltac:(unfold pos_ok; lia)).
  unfold substr_s in HS. rewrite (len_vchars h Hh) in HS.
  destruct (0 <=? vlen h) eqn:E; [|lia].
  destruct (substr_m h 0 (vlen n)) as [s| | |]; cbn [view_res] in HS; try contradiction.
  destruct HS as (Hok & _). cbn [rbind]. rewrite op_eq_correct by assumption. eexists. reflexivity.
Qed.

Lemma ends_with_defined ck h n : view_ok h -> view_ok n ->
  exists r, ends_with_m ck h n = Ok r.
Proof.
  intros Hh Hn. pose proof Hh as (H0 & H1 & H2). pose proof Hn as (N0 & N1 & N2).
  unfold ends_with_m. destruct (vlen h >=? vlen n) eqn:E; [|eexists; reflexivity].
  rewrite sz_small by lia.
  assert (HC := compare3_correct ck h (vlen h - vlen n) npos n Hh Hn
                  ltac:(unfold pos_ok; lia) pos_ok_npos).
  unfold compare3_s, substr_s in HC. rewrite (len_vchars h Hh) in HC.
  replace (vlen h - vlen n <=? vlen h) with true in HC by lia.
  destruct (compare3_m ck h (vlen h - vlen n) npos n) as [c| | |]; cbn [res_opt] in HC; try contradiction.
  cbn [rbind]. eexists. reflexivity.
Qed.

(* what starts_with / ends_with compute in terms of Traits (no assumption on the character values):
   equality of the prefix / suffix under Traits::compare *)
Lemma starts_with_traits ck h n : view_ok h -> view_ok n ->
  starts_with_m ck h n =
  Ok (compare_s (ct_of ck) (sub (vchars h) 0 (Z.min (vlen n) (vlen h))) (vchars n) =? 0).
Proof.
  intros Hh Hn. pose proof Hh as (H0 & H1 & H2). pose proof Hn as (N0 & N1 & N2).
  unfold starts_with_m.
  assert (HS := substr_correct h 0 (vlen n) Hh ltac:(unfold pos_ok; lia) ltac:(unfold pos_ok; lia)).
  unfold substr_s in HS. rewrite (len_vchars h Hh) in HS.
  destruct (0 <=? vlen h) eqn:E; [|lia].
  destruct (substr_m h 0 (vlen n)) as [s| | |]; cbn [view_res] in HS; try contradiction.
  destruct HS as (Hok & Hch & _). cbn [rbind]. rewrite op_eq_correct by assumption.
  rewrite Hch, Z.sub_0_r. reflexivity.
Qed.

Lemma defined_ok {A} (r : res A) x : r = Ok x -> defined r.
Proof. intros ->. exact I. Qed.

Lemma reads_inside_overloads ck h n a c pos count :
  view_ok h -> view_ok n -> view_ok a -> pos_ok pos -> 0 <= count <= vlen a ->
  defined (starts_with_m ck h n) /\ defined (ends_with_m ck h n) /\
  defined (starts_with_c_m h c) /\ defined (ends_with_c_m h c) /\
  defined (find_c_m h c pos) /\ defined (rfind_c_m h c pos) /\
  defined (find_first_of_c_m h c pos) /\ defined (find_first_not_of_c_m h c pos) /\
  defined (find_last_of_c_m h c pos) /\ defined (find_last_not_of_c_m h c pos) /\
  defined (contains_c_m h c) /\
  defined (find_pc_m h a pos count) /\ defined (rfind_pc_m h a pos count) /\
  defined (find_first_of_pc_m h a pos count) /\ defined (find_first_not_of_pc_m h a pos count) /\
  defined (find_last_of_pc_m h a pos count) /\ defined (find_last_not_of_pc_m h a pos count) /\
  defined (index_m h pos) /\ defined (front_m h) /\ defined (back_m h).
Proof.
  intros Hh Hn Ha Hp Hc.
  destruct (starts_with_defined ck h n Hh Hn) as (r1 & ->).
  destruct (ends_with_defined ck h n Hh Hn) as (r2 & ->).
  rewrite starts_with_c_correct, ends_with_c_correct, find_c_correct, rfind_c_correct,
    find_first_of_c_correct, find_first_not_of_c_correct, find_last_of_c_correct,
    find_last_not_of_c_correct, contains_c_correct, find_pc_correct, rfind_pc_correct,
    find_first_of_pc_correct, find_first_not_of_pc_correct, find_last_of_pc_correct,
    find_last_not_of_pc_correct by assumption.
  pose proof (defined_res_opt _ _ (index_correct h pos Hh Hp)).
  pose proof (defined_res_opt _ _ (front_correct h Hh)).
  pose proof (defined_res_opt _ _ (back_correct h Hh)).
  cbn [defined]. tauto.
Qed.

(* C string overloads: strlen stays inside the array and the operation is then the view overload *)
Lemma reads_inside_cstr ck h a pos : view_ok h -> cstr_ok a -> pos_ok pos ->
  defined (find_p_m h a pos) /\ defined (rfind_p_m h a pos) /\
  defined (find_first_of_p_m h a pos) /\ defined (find_first_not_of_p_m h a pos) /\
  defined (find_last_of_p_m h a pos) /\ defined (find_last_not_of_p_m h a pos) /\
  defined (contains_p_m h a) /\ defined (compare_p_m ck h a) /\
  defined (starts_with_p_m ck h a) /\ defined (ends_with_p_m ck h a) /\
  defined (rel_pl_m ck a h) /\ defined (rel_pr_m ck h a).
Proof.
  intros Hh Ha Hp.
  rewrite find_p_correct, rfind_p_correct, find_first_of_p_correct, find_first_not_of_p_correct,
    find_last_of_p_correct, find_last_not_of_p_correct, contains_p_correct, compare_p_correct,
    rel_pl_correct, rel_pr_correct by assumption.
  unfold starts_with_p_m, ends_with_p_m.
  destruct (with_cstr_spec a (fun n => starts_with_m ck h n) Ha) as (n1 & -> & Hok1 & _).
  destruct (with_cstr_spec a (fun n => ends_with_m ck h n) Ha) as (n2 & -> & Hok2 & _).
  destruct (starts_with_defined ck h n1 Hh Hok1) as (r1 & ->).
  destruct (ends_with_defined ck h n2 Hh Hok2) as (r2 & ->).
  cbn [defined]. tauto.
Qed.

(* results of compare / relational operators / starts_with / ends_with depend only on the characters *)
Lemma frame_compare ck a a' b b' : view_ok a -> view_ok a' -> view_ok b -> view_ok b' ->
  vchars a = vchars a' -> vchars b = vchars b' ->
  compare_m ck a b = compare_m ck a' b' /\ rel6_m ck a b = rel6_m ck a' b'.
Proof.
  intros Ha Ha' Hb Hb' Ea Eb.
  rewrite !compare_correct, !rel6_correct by assumption. rewrite Ea, Eb. tauto.
Qed.
