(* C08 core lemmas: views as character lists, the checked read, the loop combinators against
   least/greatest-index search, index-wise characterisations of the list-level spec predicates. *)
From Tetl Require Import Lib.Base C08.Model C08.Spec.
From Coq Require Import ZifyBool.
Local Open Scope Z_scope.
Ltac Zify.zify_post_hook ::= Z.to_euclidean_division_equations.

(** * Views *)
(* the characters a view spans *)
Definition vchars (v : view) : list Z :=
  firstn (Z.to_nat (vlen v)) (skipn (Z.to_nat (voff v)) (vbuf v)).

(* a view lies inside its allocation; its length is below 2^63 *)
Definition view_ok (v : view) : Prop :=
  0 <= voff v /\ 0 <= vlen v < 9223372036854775808 /\ voff v + vlen v <= len (vbuf v).

Lemma len_nonneg l : 0 <= len l.
Proof. unfold len. lia. Qed.

Lemma len_vchars v : view_ok v -> len (vchars v) = vlen v.
Proof.
  intros (H0 & H1 & H2). unfold vchars, len in *.
  rewrite firstn_length, skipn_length. lia.
Qed.

Lemma zth_firstn l n i : 0 <= i < Z.of_nat n -> zth (firstn n l) i = zth l i.
Proof.
  intros H. unfold zth. revert l i H.
  induction n as [|n IH]; intros l i H; [lia|].
  destruct l as [|x l]; [reflexivity|].
  cbn [firstn]. destruct (Z.to_nat i) as [|k] eqn:E; [reflexivity|].
  cbn [nth]. specialize (IH l (Z.of_nat k)). rewrite Nat2Z.id in IH. apply IH. lia.
Qed.

Lemma zth_skipn l n i : 0 <= i -> zth (skipn n l) i = zth l (Z.of_nat n + i).
Proof.
  intros H. unfold zth. replace (Z.to_nat (Z.of_nat n + i)) with (n + Z.to_nat i)%nat by lia.
  revert l. induction n as [|n IH]; intros l; [reflexivity|].
  destruct l as [|x l]; cbn [skipn Nat.add nth].
  - destruct (Z.to_nat i); reflexivity.
  - apply IH.
Qed.

Lemma nth_error_zth l n : (n < length l)%nat -> nth_error l n = Some (zth l (Z.of_nat n)).
Proof.
  intros H. unfold zth. rewrite Nat2Z.id. apply nth_error_nth'. exact H.
Qed.

Lemma rd_ok v i : view_ok v -> 0 <= i < vlen v -> rd v i = Ok (zth (vchars v) i).
Proof.
  intros (H0 & H1 & H2) Hi. unfold rd, vchars, len in *.
  destruct ((0 <=? i) && (i <? vlen v)) eqn:E; [|lia].
  rewrite nth_error_zth by lia.
  rewrite zth_firstn by lia. rewrite zth_skipn by lia.
  do 2 f_equal. lia.
Qed.

Lemma sz_small x : 0 <= x < 18446744073709551616 -> sz x = x.
Proof. intros H. unfold sz. apply Z.mod_small. exact H. Qed.

(** * first_idx / last_idx *)
Lemma first_idx_none p : forall cnt lo,
  first_idx p lo cnt = None <-> (forall i, lo <= i < lo + Z.of_nat cnt -> p i = false).
Proof.
  induction cnt as [|k IH]; intros lo; cbn [first_idx].
  - split; [intros _ i Hi; lia|reflexivity].
  - destruct (p lo) eqn:E.
    + split; [discriminate|]. intros H. rewrite H in E by lia. discriminate.
    + rewrite IH. split; intros H i Hi.
      * destruct (Z.eq_dec i lo) as [->|Hne]; [exact E|]. apply H. lia.
      * apply H. lia.
Qed.

Lemma first_idx_some p : forall cnt lo r,
  first_idx p lo cnt = Some r <->
  (lo <= r < lo + Z.of_nat cnt /\ p r = true /\ forall i, lo <= i < r -> p i = false).
Proof.
  induction cnt as [|k IH]; intros lo r; cbn [first_idx].
  - split; [discriminate|]. intros (H & _). lia.
  - destruct (p lo) eqn:E.
    + split.
      * intros H. inversion H; subst r. repeat split; try lia. exact E.
      * intros (H1 & H2 & H3). f_equal.
        destruct (Z.eq_dec r lo) as [->|Hne]; [reflexivity|].
        rewrite H3 in E by lia. discriminate.
    + rewrite IH. split.
      * intros (H1 & H2 & H3). repeat split; try lia; [exact H2|].
        intros i Hi. destruct (Z.eq_dec i lo) as [->|Hne]; [exact E|]. apply H3. lia.
      * intros (H1 & H2 & H3).
        assert (r <> lo) by (intros ->; rewrite H2 in E; discriminate).
        repeat split; try lia; [exact H2|]. intros i Hi. apply H3. lia.
Qed.

Lemma last_idx_none p : forall cnt,
  last_idx p cnt = None <-> (forall i, 0 <= i < Z.of_nat cnt -> p i = false).
Proof.
  induction cnt as [|k IH]; cbn [last_idx].
  - split; [intros _ i Hi; lia|reflexivity].
  - destruct (p (Z.of_nat k)) eqn:E.
    + split; [discriminate|]. intros H. rewrite H in E by lia. discriminate.
    + rewrite IH. split; intros H i Hi.
      * destruct (Z.eq_dec i (Z.of_nat k)) as [->|Hne]; [exact E|]. apply H. lia.
      * apply H. lia.
Qed.

Lemma last_idx_some p : forall cnt r,
  last_idx p cnt = Some r <->
  (0 <= r < Z.of_nat cnt /\ p r = true /\ forall i, r < i < Z.of_nat cnt -> p i = false).
Proof.
  induction cnt as [|k IH]; intros r; cbn [last_idx].
  - split; [discriminate|]. intros (H & _). lia.
  - destruct (p (Z.of_nat k)) eqn:E.
    + split.
      * intros H. inversion H; subst r. repeat split; try lia. exact E.
      * intros (H1 & H2 & H3). f_equal.
        destruct (Z.eq_dec r (Z.of_nat k)) as [->|Hne]; [reflexivity|].
        rewrite H3 in E by lia. discriminate.
    + rewrite IH. split.
      * intros (H1 & H2 & H3). repeat split; try lia; [exact H2|].
        intros i Hi. destruct (Z.eq_dec i (Z.of_nat k)) as [->|Hne]; [exact E|]. apply H3. lia.
      * intros (H1 & H2 & H3).
        assert (r <> Z.of_nat k) by (intros ->; rewrite H2 in E; discriminate).
        repeat split; try lia; [exact H2|]. intros i Hi. apply H3. lia.
Qed.

(* two searches that see the same predicate on their ranges and the same witnesses agree *)
Lemma first_idx_ext p q : forall cnt lo,
  (forall i, lo <= i < lo + Z.of_nat cnt -> p i = q i) -> first_idx p lo cnt = first_idx q lo cnt.
Proof.
  induction cnt as [|k IH]; intros lo H; cbn [first_idx]; [reflexivity|].
  rewrite <- H by lia. destruct (p lo); [reflexivity|]. apply IH. intros i Hi. apply H. lia.
Qed.

Lemma last_idx_ext p q : forall cnt,
  (forall i, 0 <= i < Z.of_nat cnt -> p i = q i) -> last_idx p cnt = last_idx q cnt.
Proof.
  induction cnt as [|k IH]; intros H; cbn [last_idx]; [reflexivity|].
  rewrite <- H by lia. destruct (p (Z.of_nat k)); [reflexivity|]. apply IH. intros i Hi. apply H. lia.
Qed.

(* extending the range by positions where the predicate is false changes nothing *)
Lemma first_idx_extend p : forall c1 c2 lo,
  (forall i, lo + Z.of_nat c1 <= i < lo + Z.of_nat c1 + Z.of_nat c2 -> p i = false) ->
  first_idx p lo (c1 + c2) = first_idx p lo c1.
Proof.
  induction c1 as [|k IH]; intros c2 lo H.
  - cbn [Nat.add first_idx]. apply first_idx_none. intros i Hi. apply H. lia.
  - cbn [Nat.add first_idx]. destruct (p lo); [reflexivity|]. apply IH. intros i Hi. apply H. lia.
Qed.

Lemma last_idx_extend p : forall c2 c1,
  (forall i, Z.of_nat c1 <= i < Z.of_nat c1 + Z.of_nat c2 -> p i = false) ->
  last_idx p (c2 + c1) = last_idx p c1.
Proof.
  induction c2 as [|k IH]; intros c1 H; [reflexivity|].
  cbn [Nat.add last_idx]. rewrite H by lia. apply IH. intros i Hi. apply H. lia.
Qed.

(** * Loop combinators *)
Lemma for_up_stop {A} (cond : Z -> bool) (body : Z -> res (option A)) fuel i :
  cond i = false -> for_up (S fuel) cond body i = Ok None.
Proof. intros H. cbn [for_up]. rewrite H. reflexivity. Qed.

(* an early-return scan over [lo, hi) whose body is, on that range, "if p i then return g i" *)
Lemma for_up_first {A} (cond : Z -> bool) (body : Z -> res (option A)) (p : Z -> bool) (g : Z -> A) hi :
  hi < 18446744073709551616 ->
  cond hi = false ->
  forall fuel lo, 0 <= lo <= hi ->
  (forall i, lo <= i < hi -> cond i = true) ->
  (forall i, lo <= i < hi -> body i = Ok (if p i then Some (g i) else None)) ->
  (Z.to_nat (hi - lo) < fuel)%nat ->
  for_up fuel cond body lo = Ok (option_map g (first_idx p lo (Z.to_nat (hi - lo)))).
Proof.
  intros Hhi Hend. induction fuel as [|f IH]; intros lo Hlo Hc Hb Hf; [lia|].
  cbn [for_up]. destruct (Z.eq_dec lo hi) as [->|Hne].
  - rewrite Hend. replace (Z.to_nat (hi - hi)) with O by lia. reflexivity.
  - rewrite Hc by lia. rewrite Hb by lia.
    replace (Z.to_nat (hi - lo)) with (S (Z.to_nat (hi - (lo + 1)))) by lia.
    cbn [first_idx rbind]. destruct (p lo); [reflexivity|].
    rewrite sz_small by lia. apply IH; try lia.
    + intros i Hi. apply Hc. lia.
    + intros i Hi. apply Hb. lia.
Qed.

(* do { if p off then return g off } while (off-- != 0) *)
Lemma do_down_last {A} (body : Z -> res (option A)) (p : Z -> bool) (g : Z -> A) :
  forall fuel off, 0 <= off < 18446744073709551616 ->
  (forall i, 0 <= i <= off -> body i = Ok (if p i then Some (g i) else None)) ->
  (Z.to_nat off < fuel)%nat ->
  do_down fuel body off = Ok (option_map g (last_idx p (Z.to_nat (off + 1)))).
Proof.
  induction fuel as [|f IH]; intros off Hoff Hb Hf; [lia|].
  cbn [do_down]. rewrite Hb by lia.
  replace (Z.to_nat (off + 1)) with (S (Z.to_nat off)) by lia.
  cbn [last_idx rbind]. rewrite Z2Nat.id by lia. destruct (p off); [reflexivity|].
  destruct (Z.eq_dec off 0) as [->|Hne].
  - reflexivity.
  - replace (negb (off =? 0)) with true by lia.
    rewrite sz_small by lia. replace (Z.to_nat off) with (Z.to_nat (off - 1 + 1)) by lia.
    apply IH; try lia. intros i Hi. apply Hb. lia.
Qed.

(** * Spec predicates, index-wise *)
Lemma mem_iff c l : mem c l = true <-> exists j, 0 <= j < len l /\ zth l j = c.
Proof.
  unfold mem. rewrite existsb_exists. split.
  - intros (x & Hin & Hx). apply In_nth with (d := 0) in Hin as (n & Hn & Hnth).
    exists (Z.of_nat n). unfold len, zth. rewrite Nat2Z.id. split; [lia|]. rewrite Hnth. lia.
  - intros (j & Hj & Hz). exists c. split; [|lia].
    rewrite <- Hz. unfold zth. apply nth_In. unfold len in Hj. lia.
Qed.

Lemma mem_first_idx c l :
  mem c l = is_some (first_idx (fun j => zth l j =? c) 0 (Z.to_nat (len l))).
Proof.
  destruct (first_idx _ 0 _) as [r|] eqn:E; cbn [is_some].
  - apply first_idx_some in E as (H1 & H2 & _). apply mem_iff. exists r. split; lia.
  - destruct (mem c l) eqn:M; [|reflexivity].
    apply mem_iff in M as (j & Hj & Hz). rewrite first_idx_none in E.
    assert (E' := E j ltac:(lia)). cbv beta in E'. lia.
Qed.

Lemma skipn_cons_zth (l : list Z) i : 0 <= i < len l ->
  skipn (Z.to_nat i) l = zth l i :: skipn (Z.to_nat (i + 1)) l.
Proof.
  intros H. unfold zth, len in *. replace (Z.to_nat (i + 1)) with (S (Z.to_nat i)) by lia.
  assert (Hn : (Z.to_nat i < length l)%nat) by lia. clear H. revert l Hn.
  induction (Z.to_nat i) as [|n IH]; intros l Hn; destruct l as [|x l]; cbn [length] in Hn; try lia.
  - reflexivity.
  - cbn [skipn nth]. apply IH. lia.
Qed.

Lemma skipn_all_len (l : list Z) i : len l <= i -> skipn (Z.to_nat i) l = [].
Proof. intros H. apply skipn_all2. unfold len in H. lia. Qed.

Lemma len_cons x (l : list Z) : len (x :: l) = len l + 1.
Proof. unfold len. cbn [length]. lia. Qed.

Lemma zth_cons_0 x (l : list Z) : zth (x :: l) 0 = x.
Proof. reflexivity. Qed.

Lemma zth_cons_S x (l : list Z) j : 0 <= j -> zth (x :: l) (j + 1) = zth l j.
Proof.
  intros H. unfold zth. replace (Z.to_nat (j + 1)) with (S (Z.to_nat j)) by lia. reflexivity.
Qed.

(* n is a prefix of the tail of h at i  <->  it fits and agrees character by character *)
Lemma is_prefix_skipn_iff : forall n h i, 0 <= i <= len h ->
  is_prefix n (skipn (Z.to_nat i) h) = true <->
  (i + len n <= len h /\ forall j, 0 <= j < len n -> zth h (i + j) = zth n j).
Proof.
  induction n as [|x n IH]; intros h i Hi.
  - cbn [is_prefix]. change (len []) with 0. split; [|reflexivity]. intros _.
    split; [lia|intros j Hj; lia].
  - rewrite len_cons. destruct (Z.eq_dec i (len h)) as [->|Hne].
    + rewrite skipn_all_len by lia. cbn [is_prefix]. pose proof (len_nonneg n). split; [discriminate|lia].
    + rewrite skipn_cons_zth by lia. cbn [is_prefix]. rewrite andb_true_iff, IH by lia. split.
      * intros (Hx & Hfit & Hall). split; [lia|]. intros j Hj.
        destruct (Z.eq_dec j 0) as [->|Hj0].
        -- rewrite Z.add_0_r, zth_cons_0. lia.
        -- replace j with (j - 1 + 1) at 2 by lia. rewrite zth_cons_S by lia.
           rewrite <- Hall by lia. f_equal. lia.
      * intros (Hfit & Hall). pose proof (len_nonneg n). split; [|split; [lia|]].
        -- specialize (Hall 0). rewrite Z.add_0_r, zth_cons_0 in Hall. lia.
        -- intros j Hj. specialize (Hall (j + 1)). rewrite zth_cons_S in Hall by lia.
           rewrite <- Hall by lia. f_equal. lia.
Qed.

Lemma occurs_iff h n i : 0 <= i ->
  occurs h n i = true <->
  (i + len n <= len h /\ forall j, 0 <= j < len n -> zth h (i + j) = zth n j).
Proof.
  intros Hi. unfold occurs. pose proof (len_nonneg n).
  destruct (i <=? len h) eqn:E; cbn [andb].
  - apply is_prefix_skipn_iff. lia.
  - split; [discriminate|]. lia.
Qed.

(** * small helpers *)
Lemma min_sz_min a b : min_sz a b = Z.min a b.
Proof. unfold min_sz. destruct (b <? a) eqn:E; lia. Qed.

Lemma bool_eq_iff (a b : bool) : (a = true <-> b = true) -> a = b.
Proof. destruct a, b; intros [H1 H2]; try reflexivity; [symmetry; apply H1|apply H2]; reflexivity. Qed.
