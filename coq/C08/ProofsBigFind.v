(* C08: the sparse search functions equal Spec.v's on the denoted lists; hence (C08_find ... C08_find_last_not_of)
   they are the values of the MODEL's search functions on the expanded huge views. *)
From Tetl Require Import Lib.Base C08.Model C08.Spec C08.ModelExt C08.Core C08.ProofsFind C08.ProofsRfind C08.ProofsCmp
  C08.ModelBig C08.ProofsBig C08.SpecBig C08.ProofsBigSpec C08.SpecBigFind.
From Coq Require Import ZifyBool.
Local Open Scope Z_scope.
Ltac Zify.zify_post_hook ::= Z.to_euclidean_division_equations.

Lemma occurs_sp_correct h n i : bview_ok h -> bview_ok n -> 0 <= i ->
  occurs_sp h n i = occurs (bchars h) (bchars n) i.
Proof.
  intros Hh Hn Hi. pose proof Hh as (H0 & H1 & H2). pose proof Hn as (N0 & N1 & N2).
  apply bool_eq_iff. rewrite occurs_iff by exact Hi. rewrite !len_bchars by assumption.
  unfold occurs_sp. rewrite andb_true_iff, eq_sp_true. split.
  - intros (L & E). split; [lia|]. intros j Hj. rewrite !bget_zth by (assumption || lia).
    rewrite <- E by exact Hj. unfold bget. cbn [bbuf boff]. rewrite Z.add_assoc. reflexivity.
  - intros (L & E). split; [lia|]. intros j Hj. rewrite <- (bget_zth n j) by (assumption || lia).
    rewrite <- E by exact Hj. rewrite bget_zth by (assumption || lia).
    unfold bget. cbn [bbuf boff]. rewrite Z.add_assoc. reflexivity.
Qed.

Lemma mem_sp_correct h n i : bview_ok h -> bview_ok n -> 0 <= i < blen h ->
  mem (bget h i) (chars_sp n) = mem (zth (bchars h) i) (bchars n).
Proof. intros Hh Hn Hi. rewrite chars_sp_correct, bget_zth by assumption. reflexivity. Qed.

Lemma find_sp_correct h n pos : bview_ok h -> bview_ok n -> 0 <= pos ->
  find_sp h n pos = find_s (bchars h) (bchars n) pos.
Proof.
  intros Hh Hn Hp. unfold find_sp, find_s. rewrite len_bchars by assumption. f_equal.
  apply first_idx_ext. intros i Hi. apply occurs_sp_correct; (assumption || lia).
Qed.

Lemma rfind_sp_correct h n pos : bview_ok h -> bview_ok n -> 0 <= pos ->
  rfind_sp h n pos = rfind_s (bchars h) (bchars n) pos.
Proof.
  intros Hh Hn Hp. unfold rfind_sp, rfind_s. rewrite len_bchars by assumption. f_equal.
  apply last_idx_ext. intros i Hi. apply occurs_sp_correct; (assumption || lia).
Qed.

Lemma find_first_of_sp_correct h n pos : bview_ok h -> bview_ok n -> 0 <= pos ->
  find_first_of_sp h n pos = find_first_of_s (bchars h) (bchars n) pos.
Proof.
  intros Hh Hn Hp. unfold find_first_of_sp, find_first_of_s. rewrite len_bchars by assumption. f_equal.
  apply first_idx_ext. intros i Hi. apply mem_sp_correct; (assumption || lia).
Qed.

Lemma find_first_not_of_sp_correct h n pos : bview_ok h -> bview_ok n -> 0 <= pos ->
  find_first_not_of_sp h n pos = find_first_not_of_s (bchars h) (bchars n) pos.
Proof.
  intros Hh Hn Hp. unfold find_first_not_of_sp, find_first_not_of_s. rewrite len_bchars by assumption. f_equal.
  apply first_idx_ext. intros i Hi. f_equal. apply mem_sp_correct; (assumption || lia).
Qed.

Lemma find_last_of_sp_correct h n pos : bview_ok h -> bview_ok n -> 0 <= pos ->
  find_last_of_sp h n pos = find_last_of_s (bchars h) (bchars n) pos.
Proof.
  intros Hh Hn Hp. unfold find_last_of_sp, find_last_of_s. rewrite len_bchars by assumption. f_equal.
  apply last_idx_ext. intros i Hi. apply mem_sp_correct; (assumption || lia).
Qed.

Lemma find_last_not_of_sp_correct h n pos : bview_ok h -> bview_ok n -> 0 <= pos ->
  find_last_not_of_sp h n pos = find_last_not_of_s (bchars h) (bchars n) pos.
Proof.
  intros Hh Hn Hp. unfold find_last_not_of_sp, find_last_not_of_s. rewrite len_bchars by assumption. f_equal.
  apply last_idx_ext. intros i Hi. f_equal. apply mem_sp_correct; (assumption || lia).
Qed.

(** the model's search functions on the expanded views *)
Section Model.
  Variables (h n : bview) (pos : Z).
  Hypothesis (Hh : bview_ok h) (Hn : bview_ok n) (Hp : pos_ok pos).
  Let Hp0 : 0 <= pos. Proof. unfold pos_ok in Hp. lia. Qed.

  Lemma find_big : find_m (to_view h) (to_view n) pos = Ok (find_sp h n pos).
  Proof. rewrite find_correct by (try apply to_view_ok; assumption). rewrite find_sp_correct by assumption. reflexivity. Qed.
  Lemma rfind_big : rfind_m (to_view h) (to_view n) pos = Ok (rfind_sp h n pos).
  Proof. rewrite rfind_correct by (try apply to_view_ok; assumption). rewrite rfind_sp_correct by assumption. reflexivity. Qed.
  Lemma find_first_of_big : find_first_of_m (to_view h) (to_view n) pos = Ok (find_first_of_sp h n pos).
  Proof.
    rewrite find_first_of_correct by (try apply to_view_ok; assumption).
    rewrite find_first_of_sp_correct by assumption. reflexivity.
  Qed.
  Lemma find_first_not_of_big : find_first_not_of_m (to_view h) (to_view n) pos = Ok (find_first_not_of_sp h n pos).
  Proof.
    rewrite find_first_not_of_correct by (try apply to_view_ok; assumption).
    rewrite find_first_not_of_sp_correct by assumption. reflexivity.
  Qed.
  Lemma find_last_of_big : find_last_of_m (to_view h) (to_view n) pos = Ok (find_last_of_sp h n pos).
  Proof.
    rewrite find_last_of_correct by (try apply to_view_ok; assumption).
    rewrite find_last_of_sp_correct by assumption. reflexivity.
  Qed.
  Lemma find_last_not_of_big : find_last_not_of_m (to_view h) (to_view n) pos = Ok (find_last_not_of_sp h n pos).
  Proof.
    rewrite find_last_not_of_correct by (try apply to_view_ok; assumption).
    rewrite find_last_not_of_sp_correct by assumption. reflexivity.
  Qed.
End Model.
