(* C08: the executable specification functions of Spec.v satisfy the wording of
   [string.view.find]: "the lowest/highest position xpos such that ...; npos if no such xpos".
   These lemmas are about the SPEC only (no model, no code). *)
From Tetl Require Import Lib.Base C08.Model C08.Spec C08.Core.
From Coq Require Import ZifyBool.
Local Open Scope Z_scope.
Ltac Zify.zify_post_hook ::= Z.to_euclidean_division_equations.

(* n occurs in h at position x: x + |n| <= |h| and h[x + I] = n[I] for all I in [0, |n|) *)
Definition occurs_at (h n : list Z) (x : Z) : Prop :=
  x + len n <= len h /\ forall j, 0 <= j < len n -> zth h (x + j) = zth n j.

Lemma occurs_true h n x : 0 <= x -> occurs h n x = true -> occurs_at h n x.
Proof. intros Hx H. apply occurs_iff in H; assumption. Qed.

Lemma occurs_false h n x : 0 <= x -> occurs h n x = false -> ~ occurs_at h n x.
Proof. intros Hx H O. apply occurs_iff in O; [|assumption]. rewrite O in H. discriminate. Qed.

Lemma find_s_char h n pos : 0 <= pos ->
  (find_s h n pos = s_npos /\ forall x, pos <= x -> ~ occurs_at h n x) \/
  (pos <= find_s h n pos /\ occurs_at h n (find_s h n pos) /\
   forall x, pos <= x < find_s h n pos -> ~ occurs_at h n x).
Proof.
  intros Hp. unfold find_s. pose proof (len_nonneg h). pose proof (len_nonneg n).
  destruct (first_idx _ pos _) as [r|] eqn:E; cbn [or_s_npos].
  - right. apply first_idx_some in E as (E1 & E2 & E3).
    split; [lia|]. split; [apply occurs_true; [lia|exact E2]|].
    intros x Hx. apply occurs_false; [lia|]. apply E3. lia.
  - left. split; [reflexivity|]. rewrite first_idx_none in E. intros x Hx.
    destruct (Z_le_gt_dec x (len h)) as [Hle|Hgt].
    + apply occurs_false; [lia|]. apply E. lia.
    + intros (Hfit & _). lia.
Qed.

Lemma rfind_s_char h n pos : 0 <= pos ->
  (rfind_s h n pos = s_npos /\ forall x, 0 <= x <= pos -> ~ occurs_at h n x) \/
  (0 <= rfind_s h n pos <= pos /\ occurs_at h n (rfind_s h n pos) /\
   forall x, rfind_s h n pos < x <= pos -> ~ occurs_at h n x).
Proof.
  intros Hp. unfold rfind_s. pose proof (len_nonneg h). pose proof (len_nonneg n).
  destruct (last_idx _ _) as [r|] eqn:E; cbn [or_s_npos].
  - right. apply last_idx_some in E as (E1 & E2 & E3).
    split; [lia|]. split; [apply occurs_true; [lia|exact E2]|].
    intros x Hx. destruct (Z_le_gt_dec x (len h)) as [Hle|Hgt].
    + apply occurs_false; [lia|]. apply E3. lia.
    + intros (Hfit & _). lia.
  - left. split; [reflexivity|]. rewrite last_idx_none in E. intros x Hx.
    destruct (Z_le_gt_dec x (len h)) as [Hle|Hgt].
    + apply occurs_false; [lia|]. apply E. lia.
    + intros (Hfit & _). lia.
Qed.

(* find_first_of / find_first_not_of share the shape "lowest xpos >= pos, xpos < |h|, q (h[xpos])" *)
Lemma first_of_char (q : Z -> bool) h pos : 0 <= pos ->
  let r := or_s_npos (first_idx (fun i => q (zth h i)) pos (Z.to_nat (len h - pos))) in
  (r = s_npos /\ forall x, pos <= x < len h -> q (zth h x) = false) \/
  (pos <= r < len h /\ q (zth h r) = true /\ forall x, pos <= x < r -> q (zth h x) = false).
Proof.
  intros Hp r. subst r. destruct (first_idx _ pos _) as [r|] eqn:E; cbn [or_s_npos].
  - right. apply first_idx_some in E as (E1 & E2 & E3). repeat split; try lia; [exact E2|].
    intros x Hx. apply E3. lia.
  - left. split; [reflexivity|]. rewrite first_idx_none in E. intros x Hx. apply E. lia.
Qed.

(* find_last_of / find_last_not_of: "highest xpos <= pos, xpos < |h|, q (h[xpos])" *)
Lemma last_of_char (q : Z -> bool) h pos : 0 <= pos ->
  let r := or_s_npos (last_idx (fun i => q (zth h i)) (Z.to_nat (Z.min (pos + 1) (len h)))) in
  (r = s_npos /\ forall x, 0 <= x <= pos -> x < len h -> q (zth h x) = false) \/
  (0 <= r <= pos /\ r < len h /\ q (zth h r) = true /\
   forall x, r < x <= pos -> x < len h -> q (zth h x) = false).
Proof.
  intros Hp r. subst r. pose proof (len_nonneg h).
  destruct (last_idx _ _) as [r|] eqn:E; cbn [or_s_npos].
  - right. apply last_idx_some in E as (E1 & E2 & E3). repeat split; try lia; [exact E2|].
    intros x Hx Hl. apply E3. lia.
  - left. split; [reflexivity|]. rewrite last_idx_none in E. intros x Hx Hl. apply E. lia.
Qed.

Lemma find_first_of_s_char h n pos : 0 <= pos ->
  let r := find_first_of_s h n pos in
  (r = s_npos /\ forall x, pos <= x < len h -> mem (zth h x) n = false) \/
  (pos <= r < len h /\ mem (zth h r) n = true /\ forall x, pos <= x < r -> mem (zth h x) n = false).
Proof. intros Hp. exact (first_of_char (fun c => mem c n) h pos Hp). Qed.

Lemma find_first_not_of_s_char h n pos : 0 <= pos ->
  let r := find_first_not_of_s h n pos in
  (r = s_npos /\ forall x, pos <= x < len h -> mem (zth h x) n = true) \/
  (pos <= r < len h /\ mem (zth h r) n = false /\ forall x, pos <= x < r -> mem (zth h x) n = true).
Proof.
  intros Hp. cbv zeta.
  destruct (first_of_char (fun c => negb (mem c n)) h pos Hp) as [(E & Hall)|(E1 & E2 & Hall)]; cbv zeta in *.
  - left. split; [exact E|]. intros x Hx. specialize (Hall x Hx). destruct (mem (zth h x) n); [reflexivity|discriminate].
  - right. split; [exact E1|]. fold (find_first_not_of_s h n pos) in *.
    split; [destruct (mem _ n); [discriminate|reflexivity]|].
    intros x Hx. specialize (Hall x Hx). destruct (mem (zth h x) n); [reflexivity|discriminate].
Qed.

Lemma find_last_of_s_char h n pos : 0 <= pos ->
  let r := find_last_of_s h n pos in
  (r = s_npos /\ forall x, 0 <= x <= pos -> x < len h -> mem (zth h x) n = false) \/
  (0 <= r <= pos /\ r < len h /\ mem (zth h r) n = true /\
   forall x, r < x <= pos -> x < len h -> mem (zth h x) n = false).
Proof. intros Hp. exact (last_of_char (fun c => mem c n) h pos Hp). Qed.

Lemma find_last_not_of_s_char h n pos : 0 <= pos ->
  let r := find_last_not_of_s h n pos in
  (r = s_npos /\ forall x, 0 <= x <= pos -> x < len h -> mem (zth h x) n = true) \/
  (0 <= r <= pos /\ r < len h /\ mem (zth h r) n = false /\
   forall x, r < x <= pos -> x < len h -> mem (zth h x) n = true).
Proof.
  intros Hp. cbv zeta.
  destruct (last_of_char (fun c => negb (mem c n)) h pos Hp) as [(E & Hall)|(E1 & E2 & E3 & Hall)]; cbv zeta in *.
  - left. split; [exact E|]. intros x Hx Hl. specialize (Hall x Hx Hl).
    destruct (mem (zth h x) n); [reflexivity|discriminate].
  - right. fold (find_last_not_of_s h n pos) in *. split; [exact E1|]. split; [exact E2|].
    split; [destruct (mem _ n); [discriminate|reflexivity]|].
    intros x Hx Hl. specialize (Hall x Hx Hl). destruct (mem (zth h x) n); [reflexivity|discriminate].
Qed.
