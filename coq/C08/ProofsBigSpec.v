(* C08: the closed forms of SpecBig.v equal Spec.v's functions on the denoted character list, for all sparse strings. *)
From Tetl Require Import Lib.Base C08.Model C08.Spec C08.ModelExt C08.Core C08.ProofsFind C08.ProofsCmp
  C08.ModelBig C08.ProofsBig C08.SpecBig.
From Coq Require Import ZifyBool.
Local Open Scope Z_scope.
Ltac Zify.zify_post_hook ::= Z.to_euclidean_division_equations.

Definition bchars (v : bview) : list Z := vchars (to_view v).

Lemma len_bchars v : bview_ok v -> len (bchars v) = blen v.
Proof. intros Hv. unfold bchars. rewrite len_vchars by (apply to_view_ok; exact Hv). reflexivity. Qed.

Lemma rdb_bget v i : bview_ok v -> 0 <= i < blen v -> rdb v i = Ok (bget v i).
Proof.
  intros (H0 & H1 & H2) Hi. unfold rdb, bget. cbv zeta.
  destruct ((0 <=? i) && (i <? blen v)) eqn:E; [|lia].
  destruct (boff v + i <? len (spre (bbuf v))) eqn:E1.
  - unfold len in E1. rewrite nth_error_zth by lia. rewrite Z2Nat.id by lia. reflexivity.
  - destruct (boff v + i <? scap (bbuf v)) eqn:E2; [reflexivity|lia].
Qed.

Lemma bget_zth v i : bview_ok v -> 0 <= i < blen v -> zth (bchars v) i = bget v i.
Proof.
  intros Hv Hi. pose proof (rdb_bget v i Hv Hi) as R.
  rewrite rdb_rd in R by (apply bview_ok_bok; exact Hv).
  rewrite rd_ok in R by (try apply to_view_ok; assumption). injection R as R. exact R.
Qed.

Lemma tie_sgn la lb : tie la lb = Z.sgn (la - lb).
Proof. unfold tie. destruct (la <? lb) eqn:E1; [lia|]. destruct (la >? lb) eqn:E2; lia. Qed.

Lemma compare_sp_correct t a b : bview_ok a -> bview_ok b ->
  compare_sp t a b = compare_s t (bchars a) (bchars b).
Proof.
  intros Ha Hb. rewrite compare_s_idx, !len_bchars by assumption. unfold compare_sp.
  pose proof Ha as (A0 & A1 & A2). pose proof Hb as (B0 & B1 & B2).
  rewrite (first_idx_ext _ (differ t (bchars a) (bchars b))).
  - destruct (first_idx _ 0 _) as [r|] eqn:Er.
    + apply first_idx_some in Er as (Er & _). rewrite !bget_zth by (assumption || lia). reflexivity.
    + symmetry. apply tie_sgn.
  - intros i Hi. unfold differ. rewrite !bget_zth by (assumption || lia). reflexivity.
Qed.

Lemma rel_sp_correct t a b : bview_ok a -> bview_ok b -> rel_sp t a b = rel_s t (bchars a) (bchars b).
Proof. intros Ha Hb. unfold rel_sp, rel_s. rewrite compare_sp_correct by assumption. reflexivity. Qed.

(* sub-strings: the denoted list of the shifted sparse string is the sub-list *)
Lemma subview_sp v pos k : bview_ok v -> 0 <= pos <= blen v -> 0 <= k <= blen v - pos ->
  bview_ok (mkbview (bbuf v) (boff v + pos) k) /\
  bchars (mkbview (bbuf v) (boff v + pos) k) = sub (bchars v) pos k.
Proof.
  intros Hv Hp Hk. pose proof Hv as (H0 & H1 & H2). split.
  - unfold bview_ok. cbn [bbuf boff blen]. lia.
  - unfold bchars. pose proof (subview (to_view v) pos k (to_view_ok v Hv)) as S.
    cbn [to_view vbuf voff vlen] in S. destruct S as (_ & S); [lia|lia|]. exact S.
Qed.

Definition opt_chars (o : option bview) (l : option (list Z)) : Prop :=
  match o, l with
  | Some s, Some c => bview_ok s /\ bchars s = c
  | None, None => True
  | _, _ => False
  end.

Lemma substr_sp_correct v pos n : bview_ok v -> 0 <= pos -> 0 <= n ->
  opt_chars (substr_sp v pos n) (substr_s (bchars v) pos n).
Proof.
  intros Hv Hp Hn. unfold substr_sp, substr_s. rewrite len_bchars by assumption.
  destruct (pos <=? blen v) eqn:E; cbn [opt_chars]; [|exact I].
  apply subview_sp; [assumption|lia|lia].
Qed.

Lemma remove_prefix_sp_correct v n : bview_ok v -> 0 <= n ->
  opt_chars (remove_prefix_sp v n) (remove_prefix_s (bchars v) n).
Proof.
  intros Hv Hn. unfold remove_prefix_sp, remove_prefix_s. rewrite len_bchars by assumption.
  destruct (n <=? blen v) eqn:E; cbn [opt_chars]; [|exact I].
  destruct (subview_sp v n (blen v - n) Hv) as (Hok & Hch); try lia. split; [exact Hok|].
  rewrite Hch. apply sub_to_end; [lia|]. rewrite len_bchars by assumption. lia.
Qed.

Lemma remove_suffix_sp_correct v n : bview_ok v -> 0 <= n ->
  opt_chars (remove_suffix_sp v n) (remove_suffix_s (bchars v) n).
Proof.
  intros Hv Hn. unfold remove_suffix_sp, remove_suffix_s. rewrite len_bchars by assumption.
  destruct (n <=? blen v) eqn:E; cbn [opt_chars]; [|exact I].
  destruct (subview_sp v 0 (blen v - n) Hv) as (Hok & Hch); try lia.
  rewrite Z.add_0_r in Hok, Hch. split; [exact Hok|]. rewrite Hch. apply sub_0.
Qed.

Lemma compare3_sp_correct t a pos1 n1 b : bview_ok a -> bview_ok b -> 0 <= pos1 -> 0 <= n1 ->
  compare3_sp t a pos1 n1 b = compare3_s t (bchars a) pos1 n1 (bchars b).
Proof.
  intros Ha Hb Hp Hn. unfold compare3_sp, compare3_s.
  pose proof (substr_sp_correct a pos1 n1 Ha Hp Hn) as S.
  destruct (substr_sp a pos1 n1) as [s|], (substr_s (bchars a) pos1 n1) as [l|]; cbn [opt_chars] in S;
    try contradiction; [|reflexivity].
  destruct S as (Hok & <-). rewrite compare_sp_correct by assumption. reflexivity.
Qed.

Lemma compare5_sp_correct t a pos1 n1 b pos2 n2 :
  bview_ok a -> bview_ok b -> 0 <= pos1 -> 0 <= n1 -> 0 <= pos2 -> 0 <= n2 ->
  compare5_sp t a pos1 n1 b pos2 n2 = compare5_s t (bchars a) pos1 n1 (bchars b) pos2 n2.
Proof.
  intros Ha Hb Hp1 Hn1 Hp2 Hn2. unfold compare5_sp, compare5_s.
  pose proof (substr_sp_correct a pos1 n1 Ha Hp1 Hn1) as S.
  pose proof (substr_sp_correct b pos2 n2 Hb Hp2 Hn2) as T.
  destruct (substr_sp a pos1 n1) as [s|], (substr_s (bchars a) pos1 n1) as [l|]; cbn [opt_chars] in S;
    try contradiction; [|reflexivity].
  destruct (substr_sp b pos2 n2) as [u|], (substr_s (bchars b) pos2 n2) as [m|]; cbn [opt_chars] in T;
    try contradiction; [|reflexivity].
  destruct S as (Hok & <-). destruct T as (Hok2 & <-). rewrite compare_sp_correct by assumption. reflexivity.
Qed.

(* the characters of a (short) sparse string *)
Lemma list_as_map (l : list Z) : l = map (fun i => zth l (Z.of_nat i)) (seq 0 (length l)).
Proof.
  induction l as [|x l IH]; [reflexivity|].
  cbn [length seq map]. f_equal. rewrite <- seq_shift, map_map. rewrite IH at 1.
  apply map_ext. intros i. unfold zth. rewrite !Nat2Z.id. reflexivity.
Qed.

Lemma chars_sp_correct v : bview_ok v -> chars_sp v = bchars v.
Proof.
  intros Hv. pose proof (len_bchars v Hv) as L. unfold len in L.
  rewrite (list_as_map (bchars v)). unfold chars_sp.
  replace (Z.to_nat (blen v)) with (length (bchars v)) by lia.
  apply map_ext_in. intros i Hi. apply in_seq in Hi. symmetry. apply bget_zth; [assumption|lia].
Qed.

(* starts_with / ends_with *)
Lemma eq_sp_true a b cnt : eq_sp a b cnt = true <-> forall i, 0 <= i < cnt -> bget a i = bget b i.
Proof.
  unfold eq_sp. destruct (first_idx _ 0 (Z.to_nat cnt)) as [r|] eqn:E.
  - apply first_idx_some in E as (E1 & E2 & _). split; [discriminate|]. intros H.
    rewrite H in E2 by lia. rewrite Z.eqb_refl in E2. discriminate.
  - split; [|reflexivity]. intros _ i Hi.
    pose proof (proj1 (first_idx_none _ _ _) E i) as N. cbv beta in N.
    destruct (bget a i =? bget b i) eqn:F; [lia|]. cbn [negb] in N. specialize (N ltac:(lia)). discriminate.
Qed.

Lemma firstn_eq_zth (n h : list Z) : (length n <= length h)%nat ->
  (firstn (length n) h = n <-> forall i, 0 <= i < len n -> zth h i = zth n i).
Proof.
  intros Hl. split.
  - intros E i Hi. rewrite <- E. symmetry. apply zth_firstn. unfold len in Hi. lia.
  - intros H. rewrite (list_as_map n) at 2. rewrite (list_as_map (firstn (length n) h)).
    rewrite firstn_length, Nat.min_l by lia. apply map_ext_in. intros i Hi. apply in_seq in Hi.
    rewrite zth_firstn by lia. apply H. unfold len. lia.
Qed.

Lemma starts_with_sp_correct h n : bview_ok h -> bview_ok n ->
  starts_with_sp h n = starts_with_s (bchars h) (bchars n).
Proof.
  intros Hh Hn. unfold starts_with_sp, starts_with_s.
  pose proof (len_bchars h Hh) as Lh. pose proof (len_bchars n Hn) as Ln.
  pose proof Hh as (H0 & H1 & H2). pose proof Hn as (N0 & N1 & N2).
  apply bool_eq_iff. rewrite is_prefix_firstn, andb_true_iff, eq_sp_true. unfold len in Lh, Ln.
  destruct (blen n <=? blen h) eqn:E.
  - rewrite firstn_eq_zth by lia. unfold len. rewrite Ln. split.
    + intros (_ & H) i Hi. rewrite !bget_zth by (assumption || lia). apply H. exact Hi.
    + intros H. split; [reflexivity|]. intros i Hi. rewrite <- !bget_zth by (assumption || lia). apply H. exact Hi.
  - split; [intros (F & _); discriminate|]. intros F. exfalso.
    assert (L : length (firstn (length (bchars n)) (bchars h)) = length (bchars n)) by (rewrite F; reflexivity).
    rewrite firstn_length in L. lia.
Qed.

Lemma ends_with_sp_correct h n : bview_ok h -> bview_ok n ->
  ends_with_sp h n = ends_with_s (bchars h) (bchars n).
Proof.
  intros Hh Hn. unfold ends_with_sp, ends_with_s. rewrite !len_bchars by assumption.
  pose proof Hh as (H0 & H1 & H2). pose proof Hn as (N0 & N1 & N2).
  destruct (blen n <=? blen h) eqn:E; cbn [andb]; [|reflexivity].
  destruct (subview_sp h (blen h - blen n) (blen n) Hh) as (Hok & Hch); try lia.
  set (t := mkbview (bbuf h) (boff h + (blen h - blen n)) (blen n)) in *.
  assert (S : starts_with_sp t n = starts_with_s (bchars t) (bchars n)) by (apply starts_with_sp_correct; assumption).
  unfold starts_with_sp, starts_with_s in S. change (blen t) with (blen n) in S. rewrite Z.leb_refl in S.
  cbn [andb] in S. rewrite S, Hch. f_equal. unfold sub. apply firstn_all2.
  rewrite skipn_length. pose proof (len_bchars h Hh) as L. unfold len in L. lia.
Qed.

(* a list as a sparse string *)
Lemma sp_of_list_ok l : len l < 9223372036854775808 -> bview_ok (sp_of_list l) /\ bchars (sp_of_list l) = l.
Proof.
  intros Hl. pose proof (len_nonneg l). split.
  - unfold bview_ok, sp_of_list. cbn [bbuf boff blen spre scap]. lia.
  - unfold bchars, sp_of_list, to_view, expand, vchars. cbn [bbuf boff blen spre sfill scap vbuf voff vlen].
    rewrite Z.sub_diag. cbn [Z.to_nat repeat skipn]. rewrite app_nil_r. apply firstn_all2. unfold len. lia.
Qed.
