(* C08: "only characters inside the views involved are read".  In the model every character
   access is [rd], which is UB OutOfBounds outside [0, vlen) of its own view; so a run that is
   not UB has read inside the views only. *)
From Tetl Require Import Lib.Base C08.Model C08.Spec C08.Core C08.ProofsFind C08.ProofsCmp C08.ProofsRfind.
From Coq Require Import ZifyBool.
Local Open Scope Z_scope.
Ltac Zify.zify_post_hook ::= Z.to_euclidean_division_equations.

(* neither undefined behaviour (in particular no out-of-view read) nor fuel exhaustion *)
Definition defined {A} (r : res A) : Prop :=
  match r with Ok _ | Contract => True | UB _ | OutOfFuel => False end.

Lemma rd_outside v i : ~ (0 <= i < vlen v) -> rd v i = UB OutOfBounds.
Proof. intros H. unfold rd. destruct ((0 <=? i) && (i <? vlen v)) eqn:E; [lia|reflexivity]. Qed.

Lemma rd_inside v i c : rd v i = Ok c -> 0 <= i < vlen v.
Proof. unfold rd. destruct ((0 <=? i) && (i <? vlen v)) eqn:E; [lia|discriminate]. Qed.

Lemma defined_res_opt {A} (r : res A) o : res_opt r o -> defined r.
Proof. destruct r, o; cbn; tauto. Qed.

Lemma defined_view_res r o off : view_res r o off -> defined r.
Proof. destruct r, o; cbn; tauto. Qed.

Lemma reads_inside_searches h n pos : view_ok h -> view_ok n -> pos_ok pos ->
  defined (find_m h n pos) /\ defined (rfind_m h n pos) /\
  defined (find_first_of_m h n pos) /\ defined (find_first_not_of_m h n pos) /\
  defined (find_last_of_m h n pos) /\ defined (find_last_not_of_m h n pos) /\
  defined (contains_m h n).
Proof.
  intros Hh Hn Hp.
  rewrite find_correct, rfind_correct, find_first_of_correct, find_first_not_of_correct,
    find_last_of_correct, find_last_not_of_correct, contains_correct by assumption.
  cbn. tauto.
Qed.

Lemma reads_inside_compare ck a b pos1 count1 pos2 count2 : view_ok a -> view_ok b ->
  pos_ok pos1 -> pos_ok count1 -> pos_ok pos2 -> pos_ok count2 ->
  defined (compare_m ck a b) /\ defined (compare3_m ck a pos1 count1 b) /\
  defined (compare5_m ck a pos1 count1 b pos2 count2) /\
  defined (op_eq_m ck a b) /\ defined (op_ne_m ck a b) /\ defined (op_lt_m ck a b) /\
  defined (op_le_m ck a b) /\ defined (op_gt_m ck a b) /\ defined (op_ge_m ck a b) /\
  defined (substr_m a pos1 count1) /\ defined (copy_m a count1 pos1) /\
  defined (remove_prefix_m a pos1) /\ defined (remove_suffix_m a pos1).
Proof.
  intros Ha Hb Hp1 Hc1 Hp2 Hc2.
  destruct (rel_correct ck a b Ha Hb) as (e & ne & l & le & g & ge & -> & -> & -> & -> & -> & -> & _).
  rewrite compare_correct by assumption.
  pose proof (defined_res_opt _ _ (compare3_correct ck a pos1 count1 b Ha Hb Hp1 Hc1)).
  pose proof (defined_res_opt _ _ (compare5_correct ck a pos1 count1 b pos2 count2 Ha Hb Hp1 Hc1 Hp2 Hc2)).
  pose proof (defined_view_res _ _ _ (substr_correct a pos1 count1 Ha Hp1 Hc1)).
  pose proof (defined_res_opt _ _ (copy_correct a count1 pos1 Ha Hc1 Hp1)).
  pose proof (defined_view_res _ _ _ (remove_prefix_correct a pos1 Ha Hp1)).
  pose proof (defined_view_res _ _ _ (remove_suffix_correct a pos1 Ha Hp1)).
  cbn [defined]. tauto.
Qed.

(* the result depends only on the characters the views span, not on the rest of the allocations *)
Lemma frame_find h h' n n' pos : view_ok h -> view_ok h' -> view_ok n -> view_ok n' -> pos_ok pos ->
  vchars h = vchars h' -> vchars n = vchars n' ->
  find_m h n pos = find_m h' n' pos /\ rfind_m h n pos = rfind_m h' n' pos /\
  find_first_of_m h n pos = find_first_of_m h' n' pos /\
  find_first_not_of_m h n pos = find_first_not_of_m h' n' pos /\
  find_last_of_m h n pos = find_last_of_m h' n' pos /\
  find_last_not_of_m h n pos = find_last_not_of_m h' n' pos.
Proof.
  intros Hh Hh' Hn Hn' Hp Eh En.
  rewrite !find_correct, !rfind_correct, !find_first_of_correct, !find_first_not_of_correct,
    !find_last_of_correct, !find_last_not_of_correct by assumption.
  rewrite Eh, En. tauto.
Qed.
