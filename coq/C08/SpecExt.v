(* C08 specification, extension: the call forms of std::basic_string_view that Spec.v does not name.
   [string.view.template] declares the defaults
     find / find_first_of / find_first_not_of (x, size_type pos = 0)
     rfind / find_last_of / find_last_not_of (x, size_type pos = npos)
     substr(size_type pos = 0, size_type n = npos),  copy(charT* s, size_type n, size_type pos = 0);
   [string.view.comparison]: the comparison operators also accept one operand that is implicitly
   convertible to the view type, with the same meaning after conversion;
   [string.view.access]: operator[](pos) requires pos < size(); front()/back() require !empty(). *)
From Coq Require Import ZArith List Bool.
From Tetl Require Import C08.Spec.
Import ListNotations.
Local Open Scope Z_scope.

Definition find_d_s h n := find_s h n 0.
Definition rfind_d_s h n := rfind_s h n s_npos.
Definition find_first_of_d_s h n := find_first_of_s h n 0.
Definition find_first_not_of_d_s h n := find_first_not_of_s h n 0.
Definition find_last_of_d_s h n := find_last_of_s h n s_npos.
Definition find_last_not_of_d_s h n := find_last_not_of_s h n s_npos.
(* substr() is the whole view, substr(pos) the tail from pos (pos <= size()) *)
Definition substr_d0_s (h : list Z) : option (list Z) := Some h.
Definition substr_d1_s (h : list Z) (pos : Z) : option (list Z) :=
  if pos <=? len h then Some (skipn (Z.to_nat pos) h) else None.
(* copy(dest, n): the first min(n, size()) characters *)
Definition copy_d_s (h : list Z) (n : Z) : option (Z * list Z) :=
  Some (Z.min n (len h), firstn (Z.to_nat (Z.min n (len h))) h).

(* element access: None = precondition violated *)
Definition index_s (h : list Z) (pos : Z) : option Z := if pos <? len h then nth_error h (Z.to_nat pos) else None.
Definition front_s (h : list Z) : option Z := hd_error h.
Definition back_s (h : list Z) : option Z := hd_error (rev h).
