(* C08 model: executable mirror of include/etl/_string_view/basic_string_view.hpp
   (with _string/char_traits.hpp, _algorithm/{search,find_end,clamp,min,none_of,find_if}.hpp,
   _strings/cstr.hpp strlen) as the code is AFTER the fix commits afd39cc, 1d0f46c, fbe678c,
   756ed15, 4530224.

   A view is (buffer, offset, length): the buffer is the whole allocation, so that a read
   outside the view but inside the allocation is expressible.  EVERY character access goes
   through [rd], which yields [UB OutOfBounds] for an index outside [0, vlen) of ITS OWN view.
   size_t values are integers in [0, 2^64); size_t arithmetic wraps ([sz]).
   Loops are the fuelled combinators [for_up] / [do_down] (early return = [Some r]);
   running out of fuel is the distinguished outcome [OutOfFuel]. No proofs in this file. *)
From Tetl Require Import Lib.Base.
Local Open Scope Z_scope.

Notation "'do' x <- a ; b" := (rbind a (fun x => b)) (at level 200, x name, a at level 100, b at level 200).

Definition two64 : Z := 18446744073709551616.
Definition npos : Z := 18446744073709551615.
Definition sz (x : Z) : Z := x mod 18446744073709551616.

Record view := mkview { vbuf : list Z; voff : Z; vlen : Z }.

(* the only access path to characters: _begin[pos] *)
Definition rd (v : view) (i : Z) : res Z :=
  if (0 <=? i) && (i <? vlen v) then
    match nth_error (vbuf v) (Z.to_nat (voff v + i)) with
    | Some c => Ok c
    | None => UB OutOfBounds
    end
  else UB OutOfBounds.

(* character types: value range and the ordering used by Traits::lt *)
Inductive charkind := CChar | CWchar | CChar8 | CChar16 | CChar32.

(* char_traits_base::lt: `if constexpr (is_same_v<char_type, char>)` compares as unsigned char,
   otherwise the built-in < of the character type (values carry their sign) *)
Definition lt_tr (ck : charkind) (a b : Z) : bool :=
  match ck with
  | CChar => (a mod 256) <? (b mod 256)
  | _ => a <? b
  end.

(* etl::min(a, b) = comp(b, a) ? b : a ; etl::clamp(v, lo, hi) = v < lo ? lo : hi < v ? hi : v *)
Definition min_sz (a b : Z) : Z := if b <? a then b else a.
Definition clamp_sz (v lo hi : Z) : Z := if v <? lo then lo else if hi <? v then hi else v.

(** * Loop combinators *)
Section Loops.
  Context {A : Type}.
  (* for (i = i0; cond(i); ++i) { if body(i) yields Some r: return r; }   None = loop ran to its end *)
  Fixpoint for_up (fuel : nat) (cond : Z -> bool) (body : Z -> res (option A)) (i : Z) : res (option A) :=
    match fuel with
    | O => OutOfFuel
    | S f =>
      if cond i then
        do r <- body i;
        match r with
        | Some a => Ok (Some a)
        | None => for_up f cond body (sz (i + 1))
        end
      else Ok None
    end.

  (* do { if body(off) yields Some r: return r; } while (off-- != 0); *)
  Fixpoint do_down (fuel : nat) (body : Z -> res (option A)) (off : Z) : res (option A) :=
    match fuel with
    | O => OutOfFuel
    | S f =>
      do r <- body off;
      match r with
      | Some a => Ok (Some a)
      | None => if negb (off =? 0) then do_down f body (sz (off - 1)) else Ok None
      end
    end.
End Loops.

Definition fuel_of (n : Z) : nat := S (S (Z.to_nat n)).
Definition or_npos (r : option Z) : Z := match r with Some i => i | None => npos end.
Definition is_some {A} (r : option A) : bool := match r with Some _ => true | None => false end.

(** * Element access with contract checks *)
Definition front (v : view) : res Z := if vlen v =? 0 then Contract else rd v 0.
Definition back (v : view) : res Z := if vlen v =? 0 then Contract else rd v (sz (vlen v - 1)).
Definition at_chk (v : view) (pos : Z) : res Z := if pos <? vlen v then rd v pos else Contract.

(** * Traits *)
(* Traits::compare(lhs, rhs, count) *)
Definition traits_compare (ck : charkind) (a b : view) (count : Z) : res Z :=
  if count =? 0 then Ok 0 else
  do r <- for_up (fuel_of count) (fun i => i <? count)
            (fun i => do x <- rd a i; do y <- rd b i;
                      if lt_tr ck x y then Ok (Some (-1))
                      else if lt_tr ck y x then Ok (Some 1) else Ok None) 0;
  Ok (match r with Some c => c | None => 0 end).

(* Traits::find(str, count, token): index of the first equal character or None (nullptr) *)
Definition traits_find (s : view) (count : Z) (token : Z) : res (option Z) :=
  for_up (fuel_of count) (fun i => i <? count)
         (fun i => do x <- rd s i; Ok (if x =? token then Some i else None)) 0.

(* Traits::length(s) = detail::strlen: for (s = str; *s != 0; ++s) {} on the array [a] that holds the
   C string; running off the array is an out-of-bounds read *)
Definition strlen_m (a : view) : res Z :=
  do r <- for_up (fuel_of (vlen a)) (fun _ => true)
            (fun i => do x <- rd a i; Ok (if x =? 0 then Some i else None)) 0;
  match r with Some l => Ok l | None => OutOfFuel end.

(* basic_string_view(Char const* s): the view of the C string stored in array [a] *)
Definition cstr_view (a : view) : res view :=
  do l <- strlen_m a; Ok (mkview (vbuf a) (voff a) l).
(* basic_string_view(&c, 1) *)
Definition char_view (c : Z) : view := mkview [c] 0 1.
(* basic_string_view(s, count) on the array [a] *)
Definition ptr_view (a : view) (count : Z) : view := mkview (vbuf a) (voff a) count.

(** * substr / remove_prefix / remove_suffix / copy *)
Definition substr_m (v : view) (pos count : Z) : res view :=
  if pos <=? vlen v then
    Ok (mkview (vbuf v) (voff v + pos) (min_sz count (sz (vlen v - pos))))
  else Contract.

Definition remove_prefix_m (v : view) (n : Z) : res view :=
  if n <=? vlen v then Ok (mkview (vbuf v) (voff v + n) (sz (vlen v - n))) else Contract.

Definition remove_suffix_m (v : view) (n : Z) : res view :=
  if n <=? vlen v then Ok (mkview (vbuf v) (voff v) (sz (vlen v - n))) else Contract.

(* Traits::copy(dest, data() + pos, rcount): the characters written to dest, in order *)
Fixpoint copy_loop (fuel : nat) (v : view) (pos i rcount : Z) : res (list Z) :=
  match fuel with
  | O => OutOfFuel
  | S f =>
    if i <? rcount then
      do x <- rd v (sz (pos + i));
      do rest <- copy_loop f v pos (sz (i + 1)) rcount;
      Ok (x :: rest)
    else Ok []
  end.

Definition copy_m (v : view) (count pos : Z) : res (Z * list Z) :=
  if pos <=? vlen v then
    let rcount := min_sz count (sz (vlen v - pos)) in
    do l <- copy_loop (fuel_of rcount) v pos 0 rcount;
    Ok (rcount, l)
  else Contract.

(** * compare and the relational operators *)
Definition compare_m (ck : charkind) (a b : view) : res Z :=
  let rlen := min_sz (vlen a) (vlen b) in
  do r <- traits_compare ck a b rlen;
  if r <? 0 then Ok (-1)
  else if r >? 0 then Ok 1
  else if vlen a <? vlen b then Ok (-1)
  else if vlen a >? vlen b then Ok 1
  else Ok 0.

Definition compare3_m ck (a : view) (pos1 count1 : Z) (b : view) : res Z :=
  do s <- substr_m a pos1 count1; compare_m ck s b.

Definition compare5_m ck (a : view) (pos1 count1 : Z) (b : view) (pos2 count2 : Z) : res Z :=
  do s <- substr_m a pos1 count1; do t <- substr_m b pos2 count2; compare_m ck s t.

Definition op_eq_m ck (a b : view) : res bool :=
  if negb (vlen a =? vlen b) then Ok false else do c <- compare_m ck a b; Ok (c =? 0).
Definition op_ne_m ck (a b : view) : res bool := do e <- op_eq_m ck a b; Ok (negb e).
Definition op_lt_m ck (a b : view) : res bool := do c <- compare_m ck a b; Ok (c <? 0).
(* (lhs < rhs) or (lhs == rhs) *)
Definition op_le_m ck (a b : view) : res bool :=
  do l <- op_lt_m ck a b; if l then Ok true else op_eq_m ck a b.
(* !(lhs < rhs) and !(lhs == rhs) *)
Definition op_gt_m ck (a b : view) : res bool :=
  do l <- op_lt_m ck a b; if negb l then (do e <- op_eq_m ck a b; Ok (negb e)) else Ok false.
(* lhs > rhs or lhs == rhs *)
Definition op_ge_m ck (a b : view) : res bool :=
  do g <- op_gt_m ck a b; if g then Ok true else op_eq_m ck a b.

(** * starts_with / ends_with *)
Definition starts_with_m ck (h n : view) : res bool :=
  do s <- substr_m h 0 (vlen n); op_eq_m ck s n.
Definition starts_with_c_m (h : view) (c : Z) : res bool :=
  if negb (vlen h =? 0) then (do f <- front h; Ok (f =? c)) else Ok false.
Definition ends_with_m ck (h n : view) : res bool :=
  if vlen h >=? vlen n then
    do c <- compare3_m ck h (sz (vlen h - vlen n)) npos n; Ok (c =? 0)
  else Ok false.
Definition ends_with_c_m (h : view) (c : Z) : res bool :=
  if negb (vlen h =? 0) then (do f <- back h; Ok (f =? c)) else Ok false.

(** * find *)
(* the inner lambda: for (innerIdx = 0; innerIdx < v.size(); ++innerIdx)
     if (unsafe_at(outerIdx + innerIdx) != v[innerIdx]) return false;   return true; *)
Definition find_inner (h n : view) (outer : Z) : res bool :=
  do r <- for_up (fuel_of (vlen n)) (fun j => j <? vlen n)
            (fun j => do a <- rd h (sz (outer + j)); do b <- at_chk n j;
                      Ok (if negb (a =? b) then Some false else None)) 0;
  Ok (match r with Some b => b | None => true end).

Definition find_m (h n : view) (pos : Z) : res Z :=
  if vlen n =? 0 then Ok (if pos <=? vlen h then pos else npos) else
  if (pos >? vlen h) || (vlen n >? sz (vlen h - pos)) then Ok npos else
  let lastIdx := sz (vlen h - vlen n) in
  do r <- for_up (fuel_of (vlen h)) (fun i => i <=? lastIdx)
            (fun i => do a <- rd h i; do b <- front n;
                      if a =? b then (do found <- find_inner h n i; Ok (if found then Some i else None))
                      else Ok None) pos;
  Ok (or_npos r).

Definition contains_m (h n : view) : res bool := do r <- find_m h n 0; Ok (negb (r =? npos)).

(** * rfind: clamped prefix + find_end (repeated search) *)
Inductive sres := SFound | SEnd | SBreak.

(* inner loop of etl::search for one candidate start: for (sIt = sFirst;; ++it, ++sIt) *)
Fixpoint search_in (fuel : nat) (h n : view) (last it sIt : Z) : res sres :=
  match fuel with
  | O => OutOfFuel
  | S f =>
    if sIt =? vlen n then Ok SFound
    else if it =? last then Ok SEnd
    else do a <- rd h it; do b <- rd n sIt;
         if negb (a =? b) then Ok SBreak else search_in f h n last (sz (it + 1)) (sz (sIt + 1))
  end.

(* etl::search(data()+first, data()+last, sv.begin(), sv.end(), eq): offset of the result *)
Fixpoint search_m (fuel : nat) (h n : view) (first last : Z) : res Z :=
  match fuel with
  | O => OutOfFuel
  | S f =>
    do r <- search_in (fuel_of (vlen n)) h n last first 0;
    match r with
    | SFound => Ok first
    | SEnd => Ok last
    | SBreak => search_m f h n (sz (first + 1)) last
    end
  end.

(* the while(true) loop of etl::find_end *)
Fixpoint find_end_loop (fuel : nat) (h n : view) (first last result : Z) : res Z :=
  match fuel with
  | O => OutOfFuel
  | S f =>
    do nr <- search_m (fuel_of (vlen h)) h n first last;
    if nr =? last then Ok result
    else find_end_loop f h n (sz (nr + 1)) last nr
  end.

Definition find_end_m (h n : view) (last : Z) : res Z :=
  if vlen n =? 0 then Ok last else find_end_loop (fuel_of (vlen h)) h n 0 last last.

Definition rfind_m (h n : view) (pos0 : Z) : res Z :=
  let pos1 := min_sz pos0 (vlen h) in
  let pos := if vlen n <? sz (vlen h - pos1) then sz (pos1 + vlen n) else vlen h in
  do r <- find_end_m h n pos;
  if (vlen n >? 0) && (r =? pos) then Ok npos else Ok r.

(* rfind(Char c, pos): for (s = data() + pos; s != data();) if (eq( *--s, c)) return s - data(); *)
Fixpoint rfind_c_loop (fuel : nat) (h : view) (c s : Z) : res Z :=
  match fuel with
  | O => OutOfFuel
  | S f =>
    if negb (s =? 0) then
      let s' := s - 1 in
      do x <- rd h s'; if x =? c then Ok s' else rfind_c_loop f h c s'
    else Ok npos
  end.

Definition rfind_c_m (h : view) (c pos : Z) : res Z :=
  if vlen h <? 1 then Ok npos else
  let pos' := if pos <? vlen h then sz (pos + 1) else vlen h in
  rfind_c_loop (fuel_of (vlen h)) h c pos'.

(** * find_first_of / find_first_not_of *)
Definition find_first_of_m (h n : view) (pos : Z) : res Z :=
  do r <- for_up (fuel_of (vlen h)) (fun i => i <? vlen h)
            (fun i => for_up (fuel_of (vlen n)) (fun j => j <? vlen n)
                        (fun j => do c <- rd n j; do x <- rd h i; Ok (if c =? x then Some i else None)) 0)
            pos;
  Ok (or_npos r).

Definition find_first_not_of_m (h n : view) (pos : Z) : res Z :=
  if pos <? vlen h then
    do r <- for_up (fuel_of (vlen h)) (fun i => negb (i =? vlen h))
              (fun i => do x <- rd h i; do t <- traits_find n (vlen n) x;
                        Ok (match t with None => Some i | Some _ => None end)) pos;
    Ok (or_npos r)
  else Ok npos.

Definition find_first_not_of_c_m (h : view) (c pos : Z) : res Z :=
  if pos <? vlen h then
    do r <- for_up (fuel_of (vlen h)) (fun i => negb (i =? vlen h))
              (fun i => do x <- rd h i; Ok (if negb (x =? c) then Some i else None)) pos;
    Ok (or_npos r)
  else Ok npos.

(** * find_last_of / find_last_not_of *)
Definition find_last_of_m (h n : view) (pos : Z) : res Z :=
  if vlen h =? 0 then Ok npos else
  let offset := clamp_sz pos 0 (sz (vlen h - 1)) in
  do r <- do_down (fuel_of (vlen h))
            (fun o => do cur <- rd h o;
                      for_up (fuel_of (vlen n)) (fun j => j <? vlen n)
                        (fun j => do ch <- rd n j; Ok (if ch =? cur then Some o else None)) 0)
            offset;
  Ok (or_npos r).

Definition find_last_not_of_m (h n : view) (pos : Z) : res Z :=
  if vlen h =? 0 then Ok npos else
  let offset := clamp_sz pos 0 (sz (vlen h - 1)) in
  do r <- do_down (fuel_of (vlen h))
            (fun o => (* none_of(v.begin(), v.end(), equals) = (find_if(...) == last) *)
               do t <- for_up (fuel_of (vlen n)) (fun j => j <? vlen n)
                         (fun j => do ch <- rd n j; do x <- rd h o; Ok (if ch =? x then Some j else None)) 0;
               Ok (match t with None => Some o | Some _ => None end))
            offset;
  Ok (or_npos r).

(** * The single-character and pointer overloads: argument plumbing as written in the header *)
Definition find_c_m (h : view) (c pos : Z) := find_m h (char_view c) pos.
Definition contains_c_m (h : view) (c : Z) : res bool := do r <- find_c_m h c 0; Ok (negb (r =? npos)).
Definition find_first_of_c_m (h : view) (c pos : Z) := find_first_of_m h (char_view c) pos.
Definition find_last_of_c_m (h : view) (c pos : Z) := find_last_of_m h (char_view c) pos.
Definition find_last_not_of_c_m (h : view) (c pos : Z) := find_last_not_of_m h (char_view c) pos.

(* f(Char const* s, pos): needle = basic_string_view(s) resp. {s, traits_type::length(s)} *)
Definition with_cstr {A} (a : view) (f : view -> res A) : res A := do n <- cstr_view a; f n.

Definition find_p_m h a pos := with_cstr a (fun n => find_m h n pos).
Definition rfind_p_m h a pos := with_cstr a (fun n => rfind_m h n pos).
Definition find_first_of_p_m h a pos := with_cstr a (fun n => find_first_of_m h n pos).
Definition find_first_not_of_p_m h a pos := with_cstr a (fun n => find_first_not_of_m h n pos).
Definition find_last_of_p_m h a pos := with_cstr a (fun n => find_last_of_m h n pos).
Definition find_last_not_of_p_m h a pos := with_cstr a (fun n => find_last_not_of_m h n pos).
Definition contains_p_m h a := with_cstr a (fun n => contains_m h n).
Definition starts_with_p_m ck h a := with_cstr a (fun n => starts_with_m ck h n).
Definition ends_with_p_m ck h a := with_cstr a (fun n => ends_with_m ck h n).
Definition compare_p_m ck h a := with_cstr a (fun n => compare_m ck h n).
Definition compare3_p_m ck h pos1 count1 a :=
  do s <- substr_m h pos1 count1; with_cstr a (fun n => compare_m ck s n).

(* f(Char const* s, pos, count): needle = basic_string_view(s, count) *)
Definition find_pc_m h a pos count := find_m h (ptr_view a count) pos.
Definition rfind_pc_m h a pos count := rfind_m h (ptr_view a count) pos.
Definition find_first_of_pc_m h a pos count := find_first_of_m h (ptr_view a count) pos.
Definition find_first_not_of_pc_m h a pos count := find_first_not_of_m h (ptr_view a count) pos.
Definition find_last_of_pc_m h a pos count := find_last_of_m h (ptr_view a count) pos.
Definition find_last_not_of_pc_m h a pos count := find_last_not_of_m h (ptr_view a count) pos.
Definition compare4_p_m ck h pos1 count1 a count2 :=
  do s <- substr_m h pos1 count1; compare_m ck s (ptr_view a count2).

(* what an observer sees of a view: the characters it spans (every one read through [rd]) *)
Fixpoint chars_loop (fuel : nat) (v : view) (i : Z) : res (list Z) :=
  match fuel with
  | O => OutOfFuel
  | S f =>
    if i <? vlen v then
      do x <- rd v i; do rest <- chars_loop f v (i + 1); Ok (x :: rest)
    else Ok []
  end.
Definition chars_m (v : view) : res (list Z) := chars_loop (fuel_of (vlen v)) v 0.
