(* C08: substr, copy, remove_prefix/suffix, compare (all view overloads), the six relational
   operators, starts_with, ends_with: model = spec for all views and arguments. *)
From Tetl Require Import Lib.Base C08.Model C08.Spec C08.Core C08.ProofsFind.
From Coq Require Import ZifyBool.
Local Open Scope Z_scope.
Ltac Zify.zify_post_hook ::= Z.to_euclidean_division_equations.

(* model character kinds and spec character types are the same five types *)
Definition ct_of (ck : charkind) : chartype :=
  match ck with CChar => TChar | CWchar => TWchar | CChar8 => TChar8 | CChar16 => TChar16 | CChar32 => TChar32 end.

Lemma lt_tr_spec ck a b : lt_tr ck a b = char_lt (ct_of ck) a b.
Proof. destruct ck; reflexivity. Qed.

(* results that may be a contract violation: Contract exactly when the spec has no value *)
Definition res_opt {A} (r : res A) (o : option A) : Prop :=
  match r, o with
  | Ok x, Some y => x = y
  | Contract, None => True
  | _, _ => False
  end.
Definition view_res (r : res view) (o : option (list Z)) (off : Z) : Prop :=
  match r, o with
  | Ok v, Some l => view_ok v /\ vchars v = l /\ voff v = off
  | Contract, None => True
  | _, _ => False
  end.

(** * sub-views *)
Lemma skipn_skipn {A} (a b : nat) (l : list A) : skipn a (skipn b l) = skipn (b + a) l.
Proof.
  revert l. induction b as [|b IH]; intros l; [reflexivity|].
  destruct l as [|x l]; cbn [skipn Nat.add].
  - destruct a; reflexivity.
  - apply IH.
Qed.

Lemma subview v pos k : view_ok v -> 0 <= pos <= vlen v -> 0 <= k <= vlen v - pos ->
  view_ok (mkview (vbuf v) (voff v + pos) k) /\
  vchars (mkview (vbuf v) (voff v + pos) k) = sub (vchars v) pos k.
Proof.
  intros (H0 & H1 & H2) Hp Hk. split.
  - unfold view_ok. cbn [vbuf voff vlen]. lia.
  - unfold vchars, sub. cbn [vbuf voff vlen].
    rewrite skipn_firstn_comm, firstn_firstn, skipn_skipn.
    rewrite Nat.min_l by lia. do 2 f_equal. lia.
Qed.

Lemma sub_0 l k : sub l 0 k = firstn (Z.to_nat k) l.
Proof. reflexivity. Qed.

Lemma sub_to_end l pos k : 0 <= pos -> len l - pos <= k -> sub l pos k = skipn (Z.to_nat pos) l.
Proof.
  intros Hp Hk. unfold sub. apply firstn_all2. rewrite skipn_length. unfold len in Hk. lia.
Qed.


(** * substr / remove_prefix / remove_suffix *)
Lemma substr_correct v pos count : view_ok v -> pos_ok pos -> pos_ok count ->
  view_res (substr_m v pos count) (substr_s (vchars v) pos count) (voff v + pos).
Proof.
  intros Hv Hp Hc. pose proof Hv as (H0 & H1 & H2). unfold pos_ok in *.
  unfold substr_m, substr_s. rewrite (len_vchars v Hv).
  destruct (pos <=? vlen v) eqn:E; cbn [view_res]; [|exact I].
  rewrite sz_small, min_sz_min by lia.
  destruct (subview v pos (Z.min count (vlen v - pos))) as (Hok & Hch); try lia; [exact Hv|].
  repeat split; try apply Hok. exact Hch.
Qed.

Lemma remove_prefix_correct v n : view_ok v -> pos_ok n ->
  view_res (remove_prefix_m v n) (remove_prefix_s (vchars v) n) (voff v + n).
Proof.
  intros Hv Hp. pose proof Hv as (H0 & H1 & H2). unfold pos_ok in *.
  unfold remove_prefix_m, remove_prefix_s. rewrite (len_vchars v Hv).
  destruct (n <=? vlen v) eqn:E; cbn [view_res]; [|exact I].
  rewrite sz_small by lia.
  destruct (subview v n (vlen v - n)) as (Hok & Hch); try lia; [exact Hv|].
  repeat split; try apply Hok. rewrite Hch. apply sub_to_end; [lia|]. rewrite (len_vchars v Hv). lia.
Qed.

Lemma remove_suffix_correct v n : view_ok v -> pos_ok n ->
  view_res (remove_suffix_m v n) (remove_suffix_s (vchars v) n) (voff v).
Proof.
  intros Hv Hp. pose proof Hv as (H0 & H1 & H2). unfold pos_ok in *.
  unfold remove_suffix_m, remove_suffix_s. rewrite (len_vchars v Hv).
  destruct (n <=? vlen v) eqn:E; cbn [view_res]; [|exact I].
  rewrite sz_small by lia.
  destruct (subview v 0 (vlen v - n)) as (Hok & Hch); try lia; [exact Hv|].
  rewrite Z.add_0_r in *. destruct v as [b o l]. cbn [vbuf voff vlen] in *.
  repeat split; try apply Hok. rewrite Hch. apply sub_0.
Qed.

(** * copy *)
Lemma sub_step l i k : 0 <= i < len l -> 0 < k -> sub l i k = zth l i :: sub l (i + 1) (k - 1).
Proof.
  intros Hi Hk. unfold sub. rewrite skipn_cons_zth by lia.
  replace (Z.to_nat k) with (S (Z.to_nat (k - 1))) by lia. reflexivity.
Qed.

Lemma copy_loop_spec v pos rcount : view_ok v -> 0 <= pos -> pos + rcount <= vlen v ->
  forall fuel i, 0 <= i <= rcount -> (Z.to_nat (rcount - i) < fuel)%nat ->
  copy_loop fuel v pos i rcount = Ok (sub (vchars v) (pos + i) (rcount - i)).
Proof.
  intros Hv Hp Hr. pose proof Hv as (H0 & H1 & H2).
  induction fuel as [|f IH]; intros i Hi Hf; [lia|].
  cbn [copy_loop]. destruct (i <? rcount) eqn:E.
  - rewrite !sz_small by lia. rewrite rd_ok by (assumption || lia). cbn [rbind].
    rewrite IH by lia. cbn [rbind]. f_equal.
    rewrite (sub_step (vchars v) (pos + i)); [|rewrite (len_vchars v Hv); lia|lia].
    do 2 f_equal; lia.
  - replace (rcount - i) with 0 by lia. reflexivity.
Qed.

Lemma copy_correct v count pos : view_ok v -> pos_ok count -> pos_ok pos ->
  res_opt (copy_m v count pos) (copy_s (vchars v) count pos).
Proof.
  intros Hv Hc Hp. pose proof Hv as (H0 & H1 & H2). unfold pos_ok in *.
  unfold copy_m, copy_s. rewrite (len_vchars v Hv).
  destruct (pos <=? vlen v) eqn:E; cbn [res_opt]; [|exact I].
  rewrite sz_small, min_sz_min by lia.
  rewrite copy_loop_spec; try (assumption || unfold fuel_of; lia).
  cbn [rbind res_opt]. do 2 f_equal; lia.
Qed.

(** * compare *)
Definition differ t (a b : list Z) (i : Z) : bool :=
  char_lt t (zth a i) (zth b i) || char_lt t (zth b i) (zth a i).
Definition tie (la lb : Z) : Z := if la <? lb then -1 else if la >? lb then 1 else 0.

Lemma first_idx_shift p : forall cnt lo,
  first_idx p (lo + 1) cnt = option_map Z.succ (first_idx (fun i => p (i + 1)) lo cnt).
Proof.
  induction cnt as [|k IH]; intros lo; cbn [first_idx]; [reflexivity|].
  destruct (p (lo + 1)); [reflexivity|]. apply IH.
Qed.

(* the recursive list definition against "first differing index decides, else the lengths" *)
Lemma compare_s_idx t : forall a b,
  compare_s t a b =
  match first_idx (differ t a b) 0 (Z.to_nat (Z.min (len a) (len b))) with
  | Some i => if char_lt t (zth a i) (zth b i) then -1 else 1
  | None => tie (len a) (len b)
  end.
Proof.
  induction a as [|x a IH]; intros [|y b].
  - reflexivity.
  - change (len []) with 0. pose proof (len_nonneg (y :: b)) as L. rewrite len_cons in *.
    replace (Z.to_nat (Z.min 0 _)) with O by lia. cbn [first_idx compare_s]. unfold tie.
    pose proof (len_nonneg b). destruct (0 <? len b + 1) eqn:E; lia.
  - change (len []) with 0. pose proof (len_nonneg a). rewrite len_cons.
    replace (Z.to_nat (Z.min _ 0)) with O by lia. cbn [first_idx compare_s]. unfold tie.
    destruct (len a + 1 <? 0) eqn:E; [lia|]. destruct (len a + 1 >? 0) eqn:E2; lia.
  - pose proof (len_nonneg a). pose proof (len_nonneg b). rewrite !len_cons.
    replace (Z.to_nat (Z.min (len a + 1) (len b + 1))) with (S (Z.to_nat (Z.min (len a) (len b)))) by lia.
    cbn [first_idx compare_s]. unfold differ at 1. rewrite !zth_cons_0.
    destruct (char_lt t x y) eqn:E1; cbn [orb]; [cbv iota; rewrite !zth_cons_0, E1; reflexivity|].
    destruct (char_lt t y x) eqn:E2; [cbv iota; rewrite !zth_cons_0, E1; reflexivity|].
    rewrite IH. change 1 with (0 + 1) at 1. rewrite first_idx_shift.
    rewrite (first_idx_ext (fun i => differ t (x :: a) (y :: b) (i + 1)) (differ t a b)).
    + destruct (first_idx (differ t a b) 0 _) as [r|] eqn:Er; cbn [option_map].
      * apply first_idx_some in Er as (Er & _). unfold Z.succ. rewrite !zth_cons_S by lia. reflexivity.
      * unfold tie. destruct (len a <? len b) eqn:F1, (len a + 1 <? len b + 1) eqn:F2; try lia.
        destruct (len a >? len b) eqn:F3, (len a + 1 >? len b + 1) eqn:F4; lia.
    + intros i Hi. unfold differ. rewrite !zth_cons_S by lia. reflexivity.
Qed.

Lemma compare_correct ck a b : view_ok a -> view_ok b ->
  compare_m ck a b = Ok (compare_s (ct_of ck) (vchars a) (vchars b)).
Proof.
  intros Ha Hb. pose proof Ha as (A0 & A1 & A2). pose proof Hb as (B0 & B1 & B2).
  rewrite compare_s_idx, (len_vchars a Ha), (len_vchars b Hb).
  unfold compare_m, traits_compare. rewrite min_sz_min.
  destruct (Z.min (vlen a) (vlen b) =? 0) eqn:E0.
  - replace (Z.to_nat (Z.min (vlen a) (vlen b))) with O by lia. cbn [first_idx rbind]. unfold tie.
    change (0 <? 0) with false. change (0 >? 0) with false. cbv iota.
    destruct (vlen a <? vlen b); [reflexivity|]. destruct (vlen a >? vlen b); reflexivity.
  - rewrite (for_up_first _ _ (differ (ct_of ck) (vchars a) (vchars b))
              (fun i => if char_lt (ct_of ck) (zth (vchars a) i) (zth (vchars b) i) then -1 else 1)
              (Z.min (vlen a) (vlen b))); try (cbv beta; unfold fuel_of; lia).
    + cbn [rbind]. rewrite Z.sub_0_r.
      destruct (first_idx _ 0 _) as [r|]; cbn [option_map].
      * destruct (char_lt _ _ _); reflexivity.
      * unfold tie. change (0 <? 0) with false. change (0 >? 0) with false. cbv iota.
        destruct (vlen a <? vlen b); [reflexivity|]. destruct (vlen a >? vlen b); reflexivity.
    + intros i Hi. rewrite !rd_ok by (assumption || lia). cbn [rbind]. unfold differ.
      rewrite !lt_tr_spec. destruct (char_lt _ (zth (vchars a) i) _); cbn [orb]; [reflexivity|].
      destruct (char_lt _ _ _); reflexivity.
Qed.

Lemma compare3_correct ck a pos1 count1 b : view_ok a -> view_ok b -> pos_ok pos1 -> pos_ok count1 ->
  res_opt (compare3_m ck a pos1 count1 b) (compare3_s (ct_of ck) (vchars a) pos1 count1 (vchars b)).
Proof.
  intros Ha Hb Hp Hc. unfold compare3_m, compare3_s.
  pose proof (substr_correct a pos1 count1 Ha Hp Hc) as HS.
  destruct (substr_m a pos1 count1) as [s| | |], (substr_s (vchars a) pos1 count1) as [l|];
    cbn [view_res] in HS; try contradiction; cbn [rbind res_opt]; [|exact I].
  destruct HS as (Hok & Hch & _). rewrite compare_correct by assumption. rewrite Hch. reflexivity.
Qed.

Lemma compare5_correct ck a pos1 count1 b pos2 count2 :
  view_ok a -> view_ok b -> pos_ok pos1 -> pos_ok count1 -> pos_ok pos2 -> pos_ok count2 ->
  res_opt (compare5_m ck a pos1 count1 b pos2 count2)
          (compare5_s (ct_of ck) (vchars a) pos1 count1 (vchars b) pos2 count2).
Proof.
  intros Ha Hb Hp1 Hc1 Hp2 Hc2. unfold compare5_m, compare5_s.
  pose proof (substr_correct a pos1 count1 Ha Hp1 Hc1) as HS.
  pose proof (substr_correct b pos2 count2 Hb Hp2 Hc2) as HT.
  destruct (substr_m a pos1 count1) as [s| | |], (substr_s (vchars a) pos1 count1) as [l|];
    cbn [view_res] in HS; try contradiction; cbn [rbind res_opt]; [|exact I].
  destruct (substr_m b pos2 count2) as [u| | |], (substr_s (vchars b) pos2 count2) as [m|];
    cbn [view_res] in HT; try contradiction; cbn [rbind res_opt]; [|exact I].
  destruct HS as (Hok & Hch & _). destruct HT as (Hok2 & Hch2 & _).
  rewrite compare_correct by assumption. rewrite Hch, Hch2. reflexivity.
Qed.

(** * relational operators *)
Lemma compare_s_len t : forall a b, compare_s t a b = 0 -> len a = len b.
Proof.
  induction a as [|x a IH]; intros [|y b]; cbn [compare_s]; try discriminate; [reflexivity|].
  destruct (char_lt t x y); [discriminate|]. destruct (char_lt t y x); [discriminate|].
  intros H. rewrite !len_cons. rewrite (IH b H). reflexivity.
Qed.

Lemma compare_s_range t : forall a b, compare_s t a b = -1 \/ compare_s t a b = 0 \/ compare_s t a b = 1.
Proof.
  induction a as [|x a IH]; intros [|y b]; cbn [compare_s]; try lia.
  destruct (char_lt t x y); [lia|]. destruct (char_lt t y x); [lia|]. apply IH.
Qed.

Lemma op_eq_correct ck a b : view_ok a -> view_ok b ->
  op_eq_m ck a b = Ok (compare_s (ct_of ck) (vchars a) (vchars b) =? 0).
Proof.
  intros Ha Hb. unfold op_eq_m. destruct (vlen a =? vlen b) eqn:E; cbn [negb].
  - rewrite compare_correct by assumption. reflexivity.
  - f_equal. symmetry. apply Z.eqb_neq. intros H. apply compare_s_len in H.
    rewrite (len_vchars a Ha), (len_vchars b Hb) in H. lia.
Qed.

Lemma rel_correct ck a b : view_ok a -> view_ok b ->
  exists e ne l le g ge,
    op_eq_m ck a b = Ok e /\ op_ne_m ck a b = Ok ne /\ op_lt_m ck a b = Ok l /\
    op_le_m ck a b = Ok le /\ op_gt_m ck a b = Ok g /\ op_ge_m ck a b = Ok ge /\
    rel_s (ct_of ck) (vchars a) (vchars b) = [e; ne; l; le; g; ge].
Proof.
  intros Ha Hb.
  unfold op_ge_m, op_gt_m, op_le_m, op_ne_m, op_lt_m.
  rewrite !op_eq_correct, !compare_correct by assumption. cbn [rbind]. unfold rel_s.
  set (c := compare_s (ct_of ck) (vchars a) (vchars b)).
  pose proof (compare_s_range (ct_of ck) (vchars a) (vchars b)) as R. fold c in R.
  destruct R as [-> | [-> | ->]]; cbn; do 6 eexists; repeat split.
Qed.

(** * starts_with / ends_with *)
(* the characters are values of the character type (only needed for char, whose order looks at
   the value modulo 256) *)
Definition char_ok (t : chartype) (c : Z) : Prop :=
  match t with TChar => -128 <= c <= 127 | _ => True end.
Definition chars_ok (t : chartype) (l : list Z) : Prop := Forall (char_ok t) l.

Lemma char_lt_antisym t x y : char_ok t x -> char_ok t y ->
  char_lt t x y = false -> char_lt t y x = false -> x = y.
Proof. destruct t; cbn [char_ok char_lt]; intros; lia. Qed.

Lemma char_lt_irrefl t x : char_lt t x x = false.
Proof. destruct t; cbn [char_lt]; lia. Qed.

Lemma compare_s_eq t : forall a b, chars_ok t a -> chars_ok t b -> (compare_s t a b = 0 <-> a = b).
Proof.
  induction a as [|x a IH]; intros [|y b] Ha Hb; cbn [compare_s]; try (split; [lia|discriminate]).
  - split; reflexivity.
  - inversion Ha as [|? ? Hx Ha']; inversion Hb as [|? ? Hy Hb']; subst.
    destruct (char_lt t x y) eqn:E1.
    + split; [lia|]. intros H; inversion H; subst. rewrite char_lt_irrefl in E1. discriminate.
    + destruct (char_lt t y x) eqn:E2.
      * split; [lia|]. intros H; inversion H; subst. rewrite char_lt_irrefl in E2. discriminate.
      * rewrite (IH b Ha' Hb'). rewrite (char_lt_antisym t x y Hx Hy E1 E2).
        split; [intros ->; reflexivity|]. intros H; inversion H; reflexivity.
Qed.

Lemma is_prefix_firstn : forall n h, is_prefix n h = true <-> firstn (length n) h = n.
Proof.
  induction n as [|x n IH]; intros h; cbn [is_prefix length firstn].
  - split; reflexivity.
  - destruct h as [|y h]; [split; discriminate|].
    rewrite andb_true_iff, IH. split.
    + intros (Hx & Hn). f_equal; [lia|exact Hn].
    + intros H. inversion H; subst. split; [lia|]. rewrite H2. exact H2.
Qed.

Lemma chars_ok_firstn t k l : chars_ok t l -> chars_ok t (firstn k l).
Proof.
  unfold chars_ok. rewrite !Forall_forall. intros H x Hx. apply H.
  rewrite <- (firstn_skipn k l). apply in_or_app. left. exact Hx.
Qed.

Lemma chars_ok_skipn t k l : chars_ok t l -> chars_ok t (skipn k l).
Proof.
  unfold chars_ok. rewrite !Forall_forall. intros H x Hx. apply H.
  rewrite <- (firstn_skipn k l). apply in_or_app. right. exact Hx.
Qed.


Lemma starts_with_correct ck h n : view_ok h -> view_ok n ->
  chars_ok (ct_of ck) (vchars h) -> chars_ok (ct_of ck) (vchars n) ->
  starts_with_m ck h n = Ok (starts_with_s (vchars h) (vchars n)).
Proof.
  intros Hh Hn Ch Cn. pose proof Hh as (H0 & H1 & H2). pose proof Hn as (N0 & N1 & N2).
  unfold starts_with_m, starts_with_s.
  assert (HS := substr_correct h 0 (vlen n) Hh ltac:(unfold pos_ok; lia) ltac:(unfold pos_ok; lia)).
  unfold substr_s in HS. rewrite (len_vchars h Hh) in HS.
  destruct (0 <=? vlen h) eqn:E; [|lia].
  destruct (substr_m h 0 (vlen n)) as [s| | |]; cbn [view_res] in HS; try contradiction.
  destruct HS as (Hok & Hch & _). cbn [rbind].
  rewrite op_eq_correct by assumption. f_equal. apply bool_eq_iff.
  rewrite Z.eqb_eq, Hch, sub_0, Z.sub_0_r.
  rewrite compare_s_eq by (first [assumption | apply chars_ok_firstn; assumption]).
  rewrite is_prefix_firstn. pose proof (len_vchars n Hn) as LN. pose proof (len_vchars h Hh) as LH.
  unfold len in LN, LH.
  destruct (Z_le_gt_dec (vlen n) (vlen h)) as [Hle|Hgt].
  - replace (Z.to_nat (Z.min (vlen n) (vlen h))) with (length (vchars n)) by lia. reflexivity.
  - split; intros H.
    + exfalso. apply (f_equal (@length Z)) in H. rewrite firstn_length in H. lia.
    + exfalso. apply (f_equal (@length Z)) in H. rewrite firstn_length in H. lia.
Qed.

Lemma ends_with_correct ck h n : view_ok h -> view_ok n ->
  chars_ok (ct_of ck) (vchars h) -> chars_ok (ct_of ck) (vchars n) ->
  ends_with_m ck h n = Ok (ends_with_s (vchars h) (vchars n)).
Proof.
  intros Hh Hn Ch Cn. pose proof Hh as (H0 & H1 & H2). pose proof Hn as (N0 & N1 & N2).
  pose proof (len_vchars n Hn) as LN. pose proof (len_vchars h Hh) as LH.
  unfold ends_with_m, ends_with_s. rewrite LN, LH.
  destruct (vlen h >=? vlen n) eqn:E.
  - replace (vlen n <=? vlen h) with true by lia. cbn [andb].
    rewrite sz_small by lia.
    assert (HC := compare3_correct ck h (vlen h - vlen n) npos n Hh Hn
                    ltac:(unfold pos_ok; lia) ltac:(unfold pos_ok, npos; lia)).
    unfold compare3_s, substr_s in HC. rewrite LH in HC.
    replace (vlen h - vlen n <=? vlen h) with true in HC by lia.
    destruct (compare3_m ck h (vlen h - vlen n) npos n) as [c| | |]; cbn [res_opt] in HC;
      try contradiction.
    cbn [rbind]. rewrite HC. unfold npos. f_equal. apply bool_eq_iff.
    rewrite Z.eqb_eq. rewrite sub_to_end by lia.
    rewrite compare_s_eq by (first [assumption | apply chars_ok_skipn; assumption]).
    rewrite is_prefix_firstn. split; intros H.
    + rewrite H. apply firstn_all.
    + rewrite <- H. symmetry. apply firstn_all2. rewrite skipn_length. unfold len in LN, LH. lia.
  - replace (vlen n <=? vlen h) with false by lia. reflexivity.
Qed.

Lemma starts_with_c_correct h c : view_ok h ->
  starts_with_c_m h c = Ok (starts_with_s (vchars h) [c]).
Proof.
  intros Hh. pose proof Hh as (H0 & H1 & H2). pose proof (len_vchars h Hh) as LH.
  unfold starts_with_c_m, starts_with_s, front.
  destruct (vlen h =? 0) eqn:E; cbn [negb].
  - destruct (vchars h) as [|x l]; [reflexivity|]. rewrite len_cons in LH. pose proof (len_nonneg l). lia.
  - rewrite rd_ok by (assumption || lia). cbn [rbind].
    destruct (vchars h) as [|x l]; [change (len []) with 0 in LH; lia|].
    rewrite zth_cons_0. cbn [is_prefix]. rewrite andb_true_r, (Z.eqb_sym c). reflexivity.
Qed.

Lemma ends_with_c_correct h c : view_ok h ->
  ends_with_c_m h c = Ok (ends_with_s (vchars h) [c]).
Proof.
  intros Hh. pose proof Hh as (H0 & H1 & H2). pose proof (len_vchars h Hh) as LH.
  unfold ends_with_c_m, ends_with_s, back. rewrite LH. change (len [c]) with 1.
  destruct (vlen h =? 0) eqn:E; cbn [negb].
  - replace (1 <=? vlen h) with false by lia. reflexivity.
  - replace (1 <=? vlen h) with true by lia. rewrite sz_small by lia.
    rewrite rd_ok by (assumption || lia). cbn [rbind andb].
    rewrite skipn_cons_zth by lia. cbn [is_prefix]. rewrite andb_true_r, (Z.eqb_sym c). reflexivity.
Qed.
