(* C08: find, find_first_of, find_first_not_of, find_last_of, find_last_not_of, contains
   and their single-character overloads: model = spec for all views, needles and positions. *)
From Tetl Require Import Lib.Base C08.Model C08.Spec C08.Core.
From Coq Require Import ZifyBool.
Local Open Scope Z_scope.
Ltac Zify.zify_post_hook ::= Z.to_euclidean_division_equations.

Definition pos_ok (p : Z) : Prop := 0 <= p < 18446744073709551616.

Lemma or_npos_eq r : or_npos r = or_s_npos r.
Proof. reflexivity. Qed.

Lemma option_map_id {A} (o : option A) : option_map (fun x => x) o = o.
Proof. destruct o; reflexivity. Qed.

(** * Scanning a needle for a character *)
Lemma scan_needle {A} n c (g : Z -> A) (body : Z -> res (option A)) :
  view_ok n ->
  (forall j, 0 <= j < vlen n -> body j = Ok (if zth (vchars n) j =? c then Some (g j) else None)) ->
  for_up (fuel_of (vlen n)) (fun j => j <? vlen n) body 0 =
  Ok (option_map g (first_idx (fun j => zth (vchars n) j =? c) 0 (Z.to_nat (vlen n)))).
Proof.
  intros Hn Hb. pose proof Hn as (N0 & N1 & N2).
  rewrite (for_up_first _ body (fun j => zth (vchars n) j =? c) g (vlen n)); try (cbv beta; unfold fuel_of; lia).
  - rewrite Z.sub_0_r. reflexivity.
  - intros i Hi. apply Hb. lia.
Qed.

Lemma scan_needle_const {A} n c (k : A) (body : Z -> res (option A)) :
  view_ok n ->
  (forall j, 0 <= j < vlen n -> body j = Ok (if zth (vchars n) j =? c then Some k else None)) ->
  for_up (fuel_of (vlen n)) (fun j => j <? vlen n) body 0 =
  Ok (if mem c (vchars n) then Some k else None).
Proof.
  intros Hn Hb. rewrite (scan_needle n c (fun _ => k) body Hn Hb).
  rewrite mem_first_idx, (len_vchars n Hn).
  destruct (first_idx _ 0 _); reflexivity.
Qed.

Lemma traits_find_spec n c : view_ok n ->
  exists r, traits_find n (vlen n) c = Ok r /\ is_some r = mem c (vchars n).
Proof.
  intros Hn. unfold traits_find.
  rewrite (scan_needle n c (fun j => j)).
  - eexists. split; [reflexivity|]. rewrite mem_first_idx, (len_vchars n Hn).
    destruct (first_idx _ 0 _); reflexivity.
  - exact Hn.
  - intros j Hj. rewrite rd_ok by (assumption || lia). reflexivity.
Qed.

(** * find_first_of *)
Lemma find_first_of_correct h n pos : view_ok h -> view_ok n -> pos_ok pos ->
  find_first_of_m h n pos = Ok (find_first_of_s (vchars h) (vchars n) pos).
Proof.
  intros Hh Hn Hp. pose proof Hh as (H0 & H1 & H2). unfold pos_ok in Hp.
  unfold find_first_of_m, find_first_of_s. rewrite (len_vchars h Hh).
  destruct (Z_lt_le_dec pos (vlen h)) as [Hlt|Hge].
  - rewrite (for_up_first _ _ (fun i => mem (zth (vchars h) i) (vchars n)) (fun i => i) (vlen h)); try (cbv beta; unfold fuel_of; lia).
    + cbn [rbind]. rewrite option_map_id. reflexivity.
    + intros i Hi. apply scan_needle_const; [exact Hn|].
      intros j Hj. rewrite !rd_ok by (assumption || lia). reflexivity.
  - unfold fuel_of. rewrite for_up_stop by lia. cbn [rbind].
    replace (Z.to_nat (vlen h - pos)) with O by lia. reflexivity.
Qed.

(** * find_first_not_of *)
Lemma find_first_not_of_correct h n pos : view_ok h -> view_ok n -> pos_ok pos ->
  find_first_not_of_m h n pos = Ok (find_first_not_of_s (vchars h) (vchars n) pos).
Proof.
  intros Hh Hn Hp. pose proof Hh as (H0 & H1 & H2). unfold pos_ok in Hp.
  unfold find_first_not_of_m, find_first_not_of_s. rewrite (len_vchars h Hh).
  destruct (pos <? vlen h) eqn:E.
  - rewrite (for_up_first _ _ (fun i => negb (mem (zth (vchars h) i) (vchars n))) (fun i => i) (vlen h)); try (cbv beta; unfold fuel_of; lia).
    + cbn [rbind]. rewrite option_map_id. reflexivity.
    + intros i Hi. rewrite rd_ok by (assumption || lia). cbn [rbind].
      destruct (traits_find_spec n (zth (vchars h) i) Hn) as (r & -> & Hr). cbn [rbind].
      rewrite <- Hr. destruct r; reflexivity.
  - replace (Z.to_nat (vlen h - pos)) with O by lia. reflexivity.
Qed.

Lemma find_first_not_of_c_correct h c pos : view_ok h -> pos_ok pos ->
  find_first_not_of_c_m h c pos = Ok (find_first_not_of_s (vchars h) [c] pos).
Proof.
  intros Hh Hp. pose proof Hh as (H0 & H1 & H2). unfold pos_ok in Hp.
  unfold find_first_not_of_c_m, find_first_not_of_s. rewrite (len_vchars h Hh).
  destruct (pos <? vlen h) eqn:E.
  - rewrite (for_up_first _ _ (fun i => negb (mem (zth (vchars h) i) [c])) (fun i => i) (vlen h)); try (cbv beta; unfold fuel_of; lia).
    + cbn [rbind]. rewrite option_map_id. reflexivity.
    + intros i Hi. rewrite rd_ok by (assumption || lia). cbn [rbind mem existsb].
      rewrite orb_false_r. rewrite (Z.eqb_sym c). reflexivity.
  - replace (Z.to_nat (vlen h - pos)) with O by lia. reflexivity.
Qed.

(** * find_last_of / find_last_not_of *)
Lemma clamp_last pos l : pos_ok pos -> 0 < l < 9223372036854775808 ->
  clamp_sz pos 0 (sz (l - 1)) = Z.min pos (l - 1).
Proof.
  unfold pos_ok. intros Hp Hl. rewrite sz_small by lia. unfold clamp_sz.
  destruct (pos <? 0) eqn:E1; [lia|]. destruct (l - 1 <? pos) eqn:E2; lia.
Qed.

Lemma find_last_of_correct h n pos : view_ok h -> view_ok n -> pos_ok pos ->
  find_last_of_m h n pos = Ok (find_last_of_s (vchars h) (vchars n) pos).
Proof.
  intros Hh Hn Hp. pose proof Hh as (H0 & H1 & H2).
  unfold find_last_of_m, find_last_of_s. rewrite (len_vchars h Hh).
  destruct (vlen h =? 0) eqn:E.
  - unfold pos_ok in Hp. replace (Z.to_nat (Z.min (pos + 1) (vlen h))) with O by lia. reflexivity.
  - rewrite clamp_last by (assumption || lia). unfold pos_ok in Hp.
    rewrite (do_down_last _ (fun i => mem (zth (vchars h) i) (vchars n)) (fun i => i)); try (cbv beta; unfold fuel_of; lia).
    + cbn [rbind]. rewrite option_map_id.
      replace (Z.min pos (vlen h - 1) + 1) with (Z.min (pos + 1) (vlen h)) by lia. reflexivity.
    + intros i Hi. rewrite rd_ok by (assumption || lia). cbn [rbind].
      apply scan_needle_const; [exact Hn|].
      intros j Hj. rewrite rd_ok by (assumption || lia). reflexivity.
Qed.

Lemma find_last_not_of_correct h n pos : view_ok h -> view_ok n -> pos_ok pos ->
  find_last_not_of_m h n pos = Ok (find_last_not_of_s (vchars h) (vchars n) pos).
Proof.
  intros Hh Hn Hp. pose proof Hh as (H0 & H1 & H2).
  unfold find_last_not_of_m, find_last_not_of_s. rewrite (len_vchars h Hh).
  destruct (vlen h =? 0) eqn:E.
  - unfold pos_ok in Hp. replace (Z.to_nat (Z.min (pos + 1) (vlen h))) with O by lia. reflexivity.
  - rewrite clamp_last by (assumption || lia). unfold pos_ok in Hp.
    rewrite (do_down_last _ (fun i => negb (mem (zth (vchars h) i) (vchars n))) (fun i => i)); try (cbv beta; unfold fuel_of; lia).
    + cbn [rbind]. rewrite option_map_id.
      replace (Z.min pos (vlen h - 1) + 1) with (Z.min (pos + 1) (vlen h)) by lia. reflexivity.
    + intros i Hi.
      rewrite (scan_needle n (zth (vchars h) i) (fun j => j)); [|exact Hn|].
      * cbn [rbind]. rewrite mem_first_idx, (len_vchars n Hn).
        destruct (first_idx _ 0 _); reflexivity.
      * intros j Hj. rewrite !rd_ok by (assumption || lia). reflexivity.
Qed.

(** * find *)
(* the inner comparison at a position where the needle still fits *)
Lemma find_inner_spec h n i : view_ok h -> view_ok n -> 0 <= i -> i + vlen n <= vlen h ->
  find_inner h n i = Ok (occurs (vchars h) (vchars n) i).
Proof.
  intros Hh Hn Hi Hfit. pose proof Hh as (H0 & H1 & H2). pose proof Hn as (N0 & N1 & N2).
  pose proof (len_vchars h Hh) as LH. pose proof (len_vchars n Hn) as LN.
  unfold find_inner.
  rewrite (for_up_first _ _ (fun j => negb (zth (vchars h) (i + j) =? zth (vchars n) j)) (fun _ => false) (vlen n));
    try (cbv beta; unfold fuel_of; lia).
  - cbn [rbind]. f_equal. rewrite Z.sub_0_r.
    destruct (first_idx _ 0 _) as [r|] eqn:E; cbn [option_map].
    + apply first_idx_some in E as (E1 & E2 & _). symmetry. apply not_true_iff_false.
      rewrite occurs_iff by lia. intros (_ & Hall). specialize (Hall r). cbv beta in E2. lia.
    + rewrite first_idx_none in E. symmetry. apply occurs_iff; [lia|].
      split; [lia|].
      intros j Hj. specialize (E j). cbv beta in E. lia.
  - intros j Hj. rewrite sz_small by lia. rewrite rd_ok by (assumption || lia).
    unfold at_chk. replace (j <? vlen n) with true by lia. rewrite rd_ok by (assumption || lia).
    reflexivity.
Qed.

Lemma occurs_first_char h n i : 0 <= i -> 0 < len n -> zth h i <> zth n 0 -> occurs h n i = false.
Proof.
  intros Hi Hn Hne. apply not_true_iff_false. rewrite occurs_iff by lia.
  intros (_ & Hall). specialize (Hall 0). rewrite Z.add_0_r in Hall. apply Hne, Hall. lia.
Qed.

Lemma occurs_too_long h n i : 0 <= i -> len h < i + len n -> occurs h n i = false.
Proof.
  intros Hi Hl. apply not_true_iff_false. rewrite occurs_iff by lia. lia.
Qed.

Lemma find_correct h n pos : view_ok h -> view_ok n -> pos_ok pos ->
  find_m h n pos = Ok (find_s (vchars h) (vchars n) pos).
Proof.
  intros Hh Hn Hp. pose proof Hh as (H0 & H1 & H2). pose proof Hn as (N0 & N1 & N2). unfold pos_ok in Hp.
  pose proof (len_vchars h Hh) as LH. pose proof (len_vchars n Hn) as LN.
  unfold find_m, find_s. rewrite LH.
  destruct (vlen n =? 0) eqn:En.
  - (* empty needle *)
    destruct (pos <=? vlen h) eqn:Ep.
    + replace (Z.to_nat (vlen h + 1 - pos)) with (S (Z.to_nat (vlen h - pos))) by lia.
      cbn [first_idx]. replace (occurs (vchars h) (vchars n) pos) with true; [reflexivity|].
      symmetry. apply occurs_iff; [lia|]. split; [lia|]. intros j Hj. lia.
    + replace (Z.to_nat (vlen h + 1 - pos)) with O by lia. reflexivity.
  - destruct ((pos >? vlen h) || (vlen n >? sz (vlen h - pos))) eqn:Eg.
    + (* the needle does not fit anywhere at or after pos *)
      f_equal. symmetry. replace (first_idx _ _ _) with (@None Z); [reflexivity|].
      symmetry. apply first_idx_none. intros i Hi. apply occurs_too_long; [lia|].
      rewrite LH, LN. destruct (pos >? vlen h) eqn:E1; [lia|].
      rewrite sz_small in Eg by lia. lia.
    + destruct (pos >? vlen h) eqn:E1; [discriminate|]. cbn [orb] in Eg.
      rewrite sz_small in Eg by lia. rewrite sz_small by lia.
      rewrite (for_up_first _ _ (occurs (vchars h) (vchars n)) (fun i => i) (vlen h - vlen n + 1)); try (cbv beta; unfold fuel_of; lia).
      * cbn [rbind]. rewrite option_map_id, or_npos_eq. do 2 f_equal.
        replace (Z.to_nat (vlen h + 1 - pos))
          with (Z.to_nat (vlen h - vlen n + 1 - pos) + Z.to_nat (vlen n))%nat by lia.
        symmetry. apply first_idx_extend. intros i Hi. apply occurs_too_long; lia.
      * intros i Hi. rewrite rd_ok by (assumption || lia).
        unfold front. rewrite En. rewrite rd_ok by (assumption || lia). cbn [rbind].
        destruct (zth (vchars h) i =? zth (vchars n) 0) eqn:Ec.
        -- rewrite find_inner_spec by (assumption || lia). cbn [rbind]. reflexivity.
        -- rewrite occurs_first_char by lia. reflexivity.
Qed.

Lemma contains_correct h n : view_ok h -> view_ok n ->
  contains_m h n = Ok (contains_s (vchars h) (vchars n)).
Proof.
  intros Hh Hn. unfold contains_m, contains_s. rewrite find_correct by (assumption || unfold pos_ok; lia).
  reflexivity.
Qed.

(** * single-character overloads: a one-character view *)
Lemma char_view_ok c : view_ok (char_view c).
Proof. unfold view_ok, char_view, len. cbn. lia. Qed.

Lemma char_view_chars c : vchars (char_view c) = [c].
Proof. reflexivity. Qed.

Lemma find_c_correct h c pos : view_ok h -> pos_ok pos ->
  find_c_m h c pos = Ok (find_s (vchars h) [c] pos).
Proof. intros. unfold find_c_m. rewrite find_correct by (auto using char_view_ok). reflexivity. Qed.

Lemma contains_c_correct h c : view_ok h -> contains_c_m h c = Ok (contains_s (vchars h) [c]).
Proof.
  intros. unfold contains_c_m. rewrite find_c_correct by (assumption || unfold pos_ok; lia). reflexivity.
Qed.

Lemma find_first_of_c_correct h c pos : view_ok h -> pos_ok pos ->
  find_first_of_c_m h c pos = Ok (find_first_of_s (vchars h) [c] pos).
Proof. intros. unfold find_first_of_c_m. rewrite find_first_of_correct by (auto using char_view_ok). reflexivity. Qed.

Lemma find_last_of_c_correct h c pos : view_ok h -> pos_ok pos ->
  find_last_of_c_m h c pos = Ok (find_last_of_s (vchars h) [c] pos).
Proof. intros. unfold find_last_of_c_m. rewrite find_last_of_correct by (auto using char_view_ok). reflexivity. Qed.

Lemma find_last_not_of_c_correct h c pos : view_ok h -> pos_ok pos ->
  find_last_not_of_c_m h c pos = Ok (find_last_not_of_s (vchars h) [c] pos).
Proof.
  intros. unfold find_last_not_of_c_m. rewrite find_last_not_of_correct by (auto using char_view_ok). reflexivity.
Qed.
