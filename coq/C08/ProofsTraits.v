(* C08: char_traits members as operations: move = memmove semantics for ALL overlaps, copy, fill,
   compare over exactly n characters, find, length, the int_type members. *)
From Tetl Require Import Lib.Base C08.Model C08.Spec C08.Core C08.ProofsFind C08.ProofsCmp C08.ProofsPtr
  C08.ModelTraits C08.SpecTraits.
From Coq Require Import ZifyBool.
Local Open Scope Z_scope.
Ltac Zify.zify_post_hook ::= Z.to_euclidean_division_equations.

(** * checked buffer *)
Lemma length_upd l i v : (i < length l)%nat -> length (upd l i v) = length l.
Proof.
  intros H. unfold upd. rewrite app_length, firstn_length. cbn [length]. rewrite skipn_length. lia.
Qed.

Lemma nth_upd l i v j : (i < length l)%nat ->
  nth j (upd l i v) 0 = if (j =? i)%nat then v else nth j l 0.
Proof.
  intros H. unfold upd.
  destruct (Nat.eqb_spec j i) as [->|Hne].
  - rewrite app_nth2 by (rewrite firstn_length; lia). rewrite firstn_length.
    replace (i - Nat.min i (length l))%nat with O by lia. reflexivity.
  - destruct (Nat.lt_ge_cases j i) as [Hlt|Hge].
    + rewrite app_nth1 by (rewrite firstn_length; lia).
      rewrite <- (firstn_skipn i l) at 2. rewrite app_nth1 by (rewrite firstn_length; lia). reflexivity.
    + rewrite app_nth2 by (rewrite firstn_length; lia). rewrite firstn_length.
      replace (j - Nat.min i (length l))%nat with (S (j - S i)) by lia. cbn [nth].
      rewrite <- (firstn_skipn (S i) l) at 2.
      rewrite app_nth2 by (rewrite firstn_length; lia). rewrite firstn_length.
      f_equal. lia.
Qed.

Lemma rdn_ok l i : (i < length l)%nat -> rdn l i = Ok (nth i l 0).
Proof.
  intros H. unfold rdn. destruct (nth_error l i) as [x|] eqn:E.
  - rewrite (nth_error_nth _ _ 0 E). reflexivity.
  - apply nth_error_None in E. lia.
Qed.

Lemma wrn_ok l i v : (i < length l)%nat -> wrn l i v = Ok (upd l i v).
Proof. intros H. unfold wrn. destruct (Nat.ltb_spec i (length l)); [reflexivity|lia]. Qed.

(* what "dest range := old source range" means, index by index *)
Definition moved (l r : list Z) (d s k : nat) : Prop :=
  length r = length l /\
  forall j, nth j r 0 = if (d <=? j)%nat && (j <? d + k)%nat then nth (s + (j - d)) l 0 else nth j l 0.

(* the forward loop is right when dest does not point into (source, source + k) *)
Lemma copy_fwd_spec : forall k l d s,
  (s + k <= length l)%nat -> (d + k <= length l)%nat -> (d <= s \/ s + k <= d)%nat ->
  exists r, copy_fwd l d s k = Ok r /\ moved l r d s k.
Proof.
  induction k as [|k IH]; intros l d s Hs Hd Hov.
  - exists l. split; [reflexivity|]. split; [reflexivity|]. intros j.
    destruct ((d <=? j)%nat && (j <? d + 0)%nat) eqn:E; [lia|reflexivity].
  - cbn [copy_fwd]. rewrite rdn_ok by lia. cbn [rbind]. rewrite wrn_ok by lia. cbn [rbind].
    set (l1 := upd l d (nth s l 0)).
    assert (L1 : length l1 = length l) by (apply length_upd; lia).
    destruct (IH l1 (S d) (S s)) as (r & Hr & Hlen & Hnth); try lia.
    exists r. split; [exact Hr|]. split; [lia|]. intros j. rewrite Hnth.
    unfold l1. rewrite !nth_upd by lia.
    destruct ((S d <=? j)%nat && (j <? S d + k)%nat) eqn:E1;
      destruct ((d <=? j)%nat && (j <? d + S k)%nat) eqn:E2; try lia.
    + replace (S s + (j - S d))%nat with (s + (j - d))%nat by lia.
      destruct (Nat.eqb_spec (s + (j - d)) d); [lia|reflexivity].
    + assert (j = d) as -> by lia. rewrite Nat.eqb_refl. f_equal. lia.
    + destruct (Nat.eqb_spec j d); [lia|reflexivity].
Qed.

(* the backward loop is right when source does not point into (dest, dest + k) *)
Lemma copy_bwd_spec : forall k l d s,
  (s + k <= length l)%nat -> (d + k <= length l)%nat -> (s <= d \/ d + k <= s)%nat ->
  exists r, copy_bwd l d s k = Ok r /\ moved l r d s k.
Proof.
  induction k as [|k IH]; intros l d s Hs Hd Hov.
  - exists l. split; [reflexivity|]. split; [reflexivity|]. intros j.
    destruct ((d <=? j)%nat && (j <? d + 0)%nat) eqn:E; [lia|reflexivity].
  - cbn [copy_bwd]. rewrite rdn_ok by lia. cbn [rbind]. rewrite wrn_ok by lia. cbn [rbind].
    set (l1 := upd l (d + k) (nth (s + k) l 0)).
    assert (L1 : length l1 = length l) by (apply length_upd; lia).
    destruct (IH l1 d s) as (r & Hr & Hlen & Hnth); try lia.
    exists r. split; [exact Hr|]. split; [lia|]. intros j. rewrite Hnth.
    unfold l1. rewrite !nth_upd by lia.
    destruct ((d <=? j)%nat && (j <? d + k)%nat) eqn:E1;
      destruct ((d <=? j)%nat && (j <? d + S k)%nat) eqn:E2; try lia.
    + destruct (Nat.eqb_spec (s + (j - d)) (d + k)); [lia|reflexivity].
    + assert (j = d + k)%nat as -> by lia. rewrite Nat.eqb_refl. f_equal. lia.
    + destruct (Nat.eqb_spec j (d + k)); [lia|reflexivity].
Qed.

Lemma points_into_tail_iff d s count :
  points_into_tail d s count = true <-> (s < d < s + count)%nat.
Proof.
  unfold points_into_tail. rewrite existsb_exists. split.
  - intros (i & Hin & Hi). apply in_seq in Hin. lia.
  - intros H. exists (d - s)%nat. split; [apply in_seq; lia|lia].
Qed.

Lemma map_seq_ext (F : nat -> Z) (r : list Z) n :
  length r = n -> (forall j, nth j r 0 = F j) -> r = map F (seq 0 n).
Proof.
  intros Hlen Hnth. apply (nth_ext _ _ 0 (F 0%nat)).
  - rewrite List.map_length, List.seq_length. exact Hlen.
  - intros j Hj. rewrite map_nth, seq_nth by lia. apply Hnth.
Qed.

Lemma moved_eq l r d s k : moved l r d s k -> r = move_s l d s k.
Proof. intros (Hlen & Hnth). unfold move_s. apply map_seq_ext; assumption. Qed.

(* move = memmove semantics for ALL overlaps *)
Lemma tr_move_correct l d s count :
  (s + count <= length l)%nat -> (d + count <= length l)%nat ->
  tr_move_m l d s count = Ok (move_s l d s count).
Proof.
  intros Hs Hd. unfold tr_move_m.
  destruct (points_into_tail d s count) eqn:E.
  - apply points_into_tail_iff in E.
    destruct (copy_bwd_spec count l d s Hs Hd ltac:(lia)) as (r & -> & Hm). f_equal. apply moved_eq, Hm.
  - assert (~ (s < d < s + count)%nat) as N by (rewrite <- points_into_tail_iff, E; discriminate).
    destruct (copy_fwd_spec count l d s Hs Hd ltac:(lia)) as (r & -> & Hm). f_equal. apply moved_eq, Hm.
Qed.

(* copy: the standard requires dest not in [source, source + count); the forward loop is right
   whenever dest is not in (source, source + count) *)
Lemma tr_copy_correct l d s count :
  (s + count <= length l)%nat -> (d + count <= length l)%nat -> ~ (s < d < s + count)%nat ->
  tr_copy_m l d s count = Ok (move_s l d s count).
Proof.
  intros Hs Hd N. unfold tr_copy_m.
  destruct (copy_fwd_spec count l d s Hs Hd ltac:(lia)) as (r & -> & Hm). f_equal. apply moved_eq, Hm.
Qed.

(* the forward-only loop (the code before f246a8c) is NOT memmove: the witness of the defect *)
Lemma forward_only_move_refuted :
  exists l d s count, (s + count <= length l)%nat /\ (d + count <= length l)%nat /\
  copy_fwd l d s count <> Ok (move_s l d s count).
Proof.
  exists [97; 98; 99; 100; 101; 102], 1%nat, 0%nat, 4%nat.
  split; [cbn; lia|]. split; [cbn; lia|]. cbv. discriminate.
Qed.

Lemma tr_fill_spec : forall k l d c, (d + k <= length l)%nat ->
  exists r, tr_fill_m l d k c = Ok r /\ length r = length l /\
  forall j, nth j r 0 = if (d <=? j)%nat && (j <? d + k)%nat then c else nth j l 0.
Proof.
  induction k as [|k IH]; intros l d c Hd.
  - exists l. split; [reflexivity|]. split; [reflexivity|]. intros j.
    destruct ((d <=? j)%nat && (j <? d + 0)%nat) eqn:E; [lia|reflexivity].
  - cbn [tr_fill_m]. rewrite wrn_ok by lia. cbn [rbind].
    assert (L1 : length (upd l d c) = length l) by (apply length_upd; lia).
    destruct (IH (upd l d c) (S d) c) as (r & Hr & Hlen & Hnth); try lia.
    exists r. split; [exact Hr|]. split; [lia|]. intros j. rewrite Hnth, nth_upd by lia.
    destruct ((S d <=? j)%nat && (j <? S d + k)%nat) eqn:E1;
      destruct ((d <=? j)%nat && (j <? d + S k)%nat) eqn:E2; try lia; try reflexivity.
    + assert (j = d) as -> by lia. rewrite Nat.eqb_refl. reflexivity.
    + destruct (Nat.eqb_spec j d); [lia|reflexivity].
Qed.

Lemma tr_fill_correct l d count c : (d + count <= length l)%nat ->
  tr_fill_m l d count c = Ok (fill_s l d count c).
Proof.
  intros Hd. destruct (tr_fill_spec count l d c Hd) as (r & -> & Hlen & Hnth). f_equal.
  unfold fill_s. apply map_seq_ext; assumption.
Qed.

(** * compare over exactly count characters, find, length *)
Lemma len_sub0 (l : list Z) n : 0 <= n <= len l -> len (sub l 0 n) = n.
Proof. intros H. rewrite sub_0. unfold len in *. rewrite firstn_length. lia. Qed.

Lemma zth_sub0 (l : list Z) n i : 0 <= i < n -> zth (sub l 0 n) i = zth l i.
Proof. intros H. rewrite sub_0. apply zth_firstn. lia. Qed.

Lemma traits_compare_correct ck a b count : view_ok a -> view_ok b ->
  0 <= count <= vlen a -> count <= vlen b ->
  traits_compare ck a b count = Ok (tr_compare_s (ct_of ck) (vchars a) (vchars b) count).
Proof.
  intros Ha Hb Hca Hcb. pose proof Ha as (A0 & A1 & A2). pose proof Hb as (B0 & B1 & B2).
  pose proof (len_vchars a Ha) as LA. pose proof (len_vchars b Hb) as LB.
  unfold tr_compare_s. rewrite compare_s_idx, !len_sub0 by lia. rewrite Z.min_id.
  unfold traits_compare. destruct (count =? 0) eqn:E0.
  - replace (Z.to_nat count) with O by lia. cbn [first_idx]. unfold tie.
    destruct (count <? count) eqn:F1; [lia|]. destruct (count >? count) eqn:F2; [lia|]. reflexivity.
  - rewrite (for_up_first _ _ (differ (ct_of ck) (sub (vchars a) 0 count) (sub (vchars b) 0 count))
              (fun i => if char_lt (ct_of ck) (zth (sub (vchars a) 0 count) i) (zth (sub (vchars b) 0 count) i)
                        then -1 else 1) count); try (cbv beta; unfold fuel_of; lia).
    + cbn [rbind]. rewrite Z.sub_0_r.
      destruct (first_idx _ 0 _) as [r|]; cbn [option_map].
      * destruct (char_lt _ _ _); reflexivity.
      * unfold tie. destruct (count <? count) eqn:F1; [lia|]. destruct (count >? count) eqn:F2; [lia|]. reflexivity.
    + intros i Hi. rewrite !rd_ok by (assumption || lia). cbn [rbind]. unfold differ.
      rewrite !zth_sub0 by lia. rewrite !lt_tr_spec.
      destruct (char_lt _ (zth (vchars a) i) _); cbn [orb]; [reflexivity|].
      destruct (char_lt _ _ _); reflexivity.
Qed.

Lemma traits_find_correct s count c : view_ok s -> 0 <= count <= vlen s ->
  traits_find s count c = Ok (tr_find_s (vchars s) count c).
Proof.
  intros Hs Hc. pose proof Hs as (S0 & S1 & S2). unfold traits_find, tr_find_s.
  rewrite (for_up_first _ _ (fun i => zth (vchars s) i =? c) (fun i => i) count);
    try (cbv beta; unfold fuel_of; lia).
  - rewrite Z.sub_0_r. destruct (first_idx _ 0 _); reflexivity.
  - intros i Hi. rewrite rd_ok by (assumption || lia). reflexivity.
Qed.

Lemma strlen_correct a : cstr_ok a -> strlen_m a = Ok (tr_length_s (vchars a)).
Proof.
  intros Ha. destruct (cstr_view_spec a Ha) as (n & Hn & Hok & Hch).
  unfold cstr_view in Hn. destruct (strlen_m a) as [l| | |]; cbn [rbind] in Hn; try discriminate.
  inversion Hn; subst n. unfold tr_length_s. rewrite <- Hch, (len_vchars _ Hok). reflexivity.
Qed.

(** * character-level and int_type members *)
Lemma tr_eq_lt_correct ck a b :
  tr_eq_m a b = (a =? b) /\ tr_lt_m ck a b = char_lt (ct_of ck) a b /\ tr_assign_m a b = b.
Proof. split; [reflexivity|]. split; [apply lt_tr_spec|reflexivity]. Qed.

Lemma eof_correct ck : eof_m ck = eof_s (ct_of ck).
Proof. destruct ck; reflexivity. Qed.

Lemma to_int_type_correct ck c : to_int_type_m ck c = to_int_type_s (ct_of ck) c.
Proof. destruct ck; reflexivity. Qed.

(* eq_int_type is equality of the int_type values (the eof tests are redundant) *)
Lemma eq_int_type_correct ck a b : eq_int_type_m ck a b = (a =? b).
Proof.
  unfold eq_int_type_m. destruct (a =? b) eqn:E; [reflexivity|].
  destruct ((a =? eof_m ck) && (b =? eof_m ck)) eqn:E2; [lia|].
  destruct ((a =? eof_m ck) || (b =? eof_m ck)); reflexivity.
Qed.

(* [char.traits.require]: to_char_type(to_int_type(c)) = c; eq_int_type(to_int_type(c), to_int_type(d)) = eq(c, d) *)
Lemma int_type_round_trip ck c d : char_range (ct_of ck) c -> char_range (ct_of ck) d ->
  to_char_type_m ck (to_int_type_m ck c) = c /\
  eq_int_type_m ck (to_int_type_m ck c) (to_int_type_m ck d) = tr_eq_m c d.
Proof.
  intros Hc Hd. rewrite eq_int_type_correct. unfold tr_eq_m.
  destruct ck; cbn [ct_of char_range to_char_type_m to_int_type_m] in *; unfold two32; split; lia.
Qed.

(* eof() is not the int_type of any char / char8_t; for wchar_t, char16_t, char32_t only the all-ones
   value (WEOF, 0xFFFF, 0xFFFFFFFF - no characters) coincides with it, as in libstdc++ *)
Lemma eof_is_no_character ck c : char_range (ct_of ck) c ->
  eq_int_type_m ck (to_int_type_m ck c) (eof_m ck) =
  match ck with
  | CChar | CChar8 => false
  | CWchar => c =? -1
  | CChar16 => c =? 65535
  | CChar32 => c =? 4294967295
  end.
Proof.
  intros Hc. rewrite eq_int_type_correct.
  destruct ck; cbn [ct_of char_range to_int_type_m eof_m] in *; unfold two32; lia.
Qed.

(* not_eof(e) = e unless e is eof(), then a value that is not eof() *)
Lemma not_eof_correct ck e :
  (e <> eof_m ck -> not_eof_m ck e = e) /\
  (e = eof_m ck -> not_eof_m ck e = 0 /\ not_eof_m ck e <> eof_m ck).
Proof.
  unfold not_eof_m. rewrite eq_int_type_correct. split.
  - intros H. destruct (e =? eof_m ck) eqn:E; [lia|reflexivity].
  - intros ->. rewrite Z.eqb_refl. cbn [negb]. split; [reflexivity|]. destruct ck; cbn; lia.
Qed.

(* to_char_type inverts to_int_type on its image *)
Lemma to_char_type_correct ck c : char_range (ct_of ck) c ->
  to_char_type_m ck (to_int_type_s (ct_of ck) c) = to_char_type_s (ct_of ck) (to_int_type_s (ct_of ck) c) /\
  to_char_type_s (ct_of ck) (to_int_type_s (ct_of ck) c) = c.
Proof.
  intros Hc.
  destruct ck; cbn [ct_of char_range to_char_type_m to_int_type_s to_char_type_s] in *; unfold two32.
  - destruct (c mod 256 <? 128) eqn:E; split; lia.
  - destruct (c mod 4294967296 <? 2147483648) eqn:E; split; lia.
  - split; lia.
  - split; lia.
  - split; lia.
Qed.
