(* C08 specification on sparse strings (fix-miss round 4).

   The std::basic_string_view specification of Spec.v is written on character lists; a string of 2^31+3 characters
   cannot be executed as a list.  A sparse string is (explicit prefix, fill character, capacity, offset, length): the
   [length] characters from [offset] of  prefix ++ fill ++ fill ++ ...  - the record [bview] of ModelBig.v is reused as
   its carrier (only as a record: nothing here reads through [rdb] or mentions size_t; positions, counts and lengths
   are mathematical integers).  [bget] is the i-th character.  The functions below are CLOSED FORMS of Spec.v's
   functions on such strings - ProofsBigSpec.v proves, for all sparse strings, that they equal Spec.v's functions on
   the denoted list [vchars (to_view v)].  The length tie-break of compare is [Z.sgn (length1 - length2)] over Z. *)
From Tetl Require Import Lib.Base C08.Model C08.Spec C08.ModelBig.
Local Open Scope Z_scope.

Definition bget (v : bview) (i : Z) : Z :=
  let k := boff v + i in
  if k <? len (spre (bbuf v)) then zth (spre (bbuf v)) k else sfill (bbuf v).

(* the characters as a list (executed only on short strings) *)
Definition chars_sp (v : bview) : list Z :=
  map (fun i => bget v (Z.of_nat i)) (seq 0 (Z.to_nat (blen v))).

(* [string.view.ops] compare: the first differing character among the first min(length1, length2) decides by
   Traits::lt; otherwise the sign of the difference of the two lengths *)
Definition compare_sp (t : chartype) (a b : bview) : Z :=
  match first_idx (fun i => char_lt t (bget a i) (bget b i) || char_lt t (bget b i) (bget a i)) 0
                  (Z.to_nat (Z.min (blen a) (blen b))) with
  | Some i => if char_lt t (bget a i) (bget b i) then -1 else 1
  | None => Z.sgn (blen a - blen b)
  end.

Definition substr_sp (v : bview) (pos n : Z) : option bview :=
  if pos <=? blen v then Some (mkbview (bbuf v) (boff v + pos) (Z.min n (blen v - pos))) else None.
Definition remove_prefix_sp (v : bview) (n : Z) : option bview :=
  if n <=? blen v then Some (mkbview (bbuf v) (boff v + n) (blen v - n)) else None.
Definition remove_suffix_sp (v : bview) (n : Z) : option bview :=
  if n <=? blen v then Some (mkbview (bbuf v) (boff v) (blen v - n)) else None.

Definition compare3_sp t (a : bview) (pos1 n1 : Z) (b : bview) : option Z :=
  match substr_sp a pos1 n1 with Some s => Some (compare_sp t s b) | None => None end.
Definition compare5_sp t (a : bview) (pos1 n1 : Z) (b : bview) (pos2 n2 : Z) : option Z :=
  match substr_sp a pos1 n1, substr_sp b pos2 n2 with
  | Some s, Some u => Some (compare_sp t s u)
  | _, _ => None
  end.
Definition rel_sp (t : chartype) (a b : bview) : list bool :=
  let c := compare_sp t a b in
  [c =? 0; negb (c =? 0); c <? 0; c <=? 0; c >? 0; c >=? 0].

(* starts_with / ends_with: the needle is not longer and equals the first / last |n| characters *)
Definition eq_sp (a b : bview) (cnt : Z) : bool :=
  match first_idx (fun i => negb (bget a i =? bget b i)) 0 (Z.to_nat cnt) with Some _ => false | None => true end.
Definition starts_with_sp (h n : bview) : bool := (blen n <=? blen h) && eq_sp h n (blen n).
Definition ends_with_sp (h n : bview) : bool :=
  (blen n <=? blen h) && eq_sp (mkbview (bbuf h) (boff h + (blen h - blen n)) (blen n)) n (blen n).

(* a sparse string from a list *)
Definition sp_of_list (l : list Z) : bview := mkbview (mksbuf l 0 (len l)) 0 (len l).
