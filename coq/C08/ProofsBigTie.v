(* C08: the length tie-break of compare is the sign of the difference of the two size_t lengths over Z - it is not
   the sign of that difference narrowed to 32 bits - and witnesses of 2^31+3 / 2^32+3 characters (sparse views). *)
From Tetl Require Import Lib.Base C08.Model C08.Spec C08.ModelExt C08.Core C08.ProofsFind C08.ProofsCmp
  C08.ModelBig C08.ProofsBig C08.SpecBig C08.ProofsBigSpec.
From Coq Require Import ZifyBool.
Local Open Scope Z_scope.
Ltac Zify.zify_post_hook ::= Z.to_euclidean_division_equations.

(* static_cast<int>(x) of a size_t difference: the low 32 bits as a two's complement number *)
Definition narrow32 (x : Z) : Z := (x + 2147483648) mod 4294967296 - 2147483648.

(* the views agree (under Traits::lt) on their common length *)
Definition common_prefix_equal (t : chartype) (a b : list Z) : Prop :=
  forall i, 0 <= i < Z.min (len a) (len b) -> differ t a b i = false.

Lemma compare_s_tie t a b : common_prefix_equal t a b -> compare_s t a b = Z.sgn (len a - len b).
Proof.
  intros H. rewrite compare_s_idx.
  pose proof (len_nonneg a). pose proof (len_nonneg b).
  assert (E : first_idx (differ t a b) 0 (Z.to_nat (Z.min (len a) (len b))) = None).
  { apply first_idx_none. intros i Hi. apply H. lia. }
  rewrite E. apply tie_sgn.
Qed.

Lemma compare_m_tie ck a b : view_ok a -> view_ok b ->
  common_prefix_equal (ct_of ck) (vchars a) (vchars b) ->
  compare_m ck a b = Ok (Z.sgn (vlen a - vlen b)).
Proof.
  intros Ha Hb H. rewrite compare_correct by assumption. rewrite compare_s_tie by exact H.
  rewrite (len_vchars a Ha), (len_vchars b Hb). reflexivity.
Qed.

Lemma compare_m_tie_cases ck a b : view_ok a -> view_ok b ->
  common_prefix_equal (ct_of ck) (vchars a) (vchars b) ->
  (vlen a < vlen b -> compare_m ck a b = Ok (-1)) /\
  (vlen a > vlen b -> compare_m ck a b = Ok 1) /\
  (compare_m ck a b = Ok 0 <-> vlen a = vlen b).
Proof.
  intros Ha Hb H. rewrite (compare_m_tie ck a b Ha Hb H). repeat split.
  - intros L. f_equal. lia.
  - intros L. f_equal. lia.
  - intros [= E]. lia.
  - intros E. f_equal. lia.
Qed.

(* the narrowed tie-break is a different function already on lengths below 2^34 *)
Lemma narrowed_tie_differs :
  Z.sgn (narrow32 (2147483651 - 3)) = -1 /\ Z.sgn (2147483651 - 3) = 1 /\
  Z.sgn (narrow32 (4294967299 - 3)) = 0 /\ Z.sgn (4294967299 - 3) = 1 /\
  Z.sgn (narrow32 (3 - 4294967299)) = 0 /\ Z.sgn (3 - 4294967299) = -1.
Proof. vm_compute. repeat split. Qed.

(** witnesses: "abc" followed by NULs, 2^31+3 resp. 2^32+3 characters, against its own first 3 characters *)
Definition big_cap : Z := 8589934608.
Definition wit (n : Z) : bview := mkbview (mksbuf [97; 98; 99] 0 big_cap) 0 n.

Lemma wit_ok n : 0 <= n <= big_cap -> bview_ok (wit n).
Proof. intros H. unfold bview_ok, wit, big_cap in *. cbn [bbuf boff blen spre scap len length]. lia. Qed.

Lemma wit_prefix n : 3 <= n <= big_cap ->
  common_prefix_equal TChar (bchars (wit n)) (bchars (wit 3)).
Proof.
  intros Hn i Hi. pose proof (wit_ok n ltac:(unfold big_cap in *; lia)) as On.
  pose proof (wit_ok 3 ltac:(unfold big_cap; lia)) as O3.
  rewrite !len_bchars in Hi by assumption. cbn [wit blen] in Hi.
  unfold differ. rewrite !bget_zth by (assumption || cbn [wit blen]; lia).
  unfold bget. cbn [wit bbuf boff spre sfill len length]. rewrite !Z.add_0_l.
  destruct (i <? Z.of_nat 3) eqn:E; [|lia]. rewrite char_lt_irrefl. reflexivity.
Qed.

Lemma wit_compare :
  compare_m CChar (to_view (wit 2147483651)) (to_view (wit 3)) = Ok 1 /\
  compare_m CChar (to_view (wit 3)) (to_view (wit 2147483651)) = Ok (-1) /\
  compare_m CChar (to_view (wit 4294967299)) (to_view (wit 3)) = Ok 1 /\
  compare_m CChar (to_view (wit 3)) (to_view (wit 4294967299)) = Ok (-1) /\
  op_eq_m CChar (to_view (wit 4294967299)) (to_view (wit 3)) = Ok false.
Proof.
  assert (B : forall n, bok (wit n)) by (intros n; unfold bok; cbn; lia).
  rewrite <- !compare_big, <- op_eq_big by apply B. vm_compute. repeat split.
Qed.
