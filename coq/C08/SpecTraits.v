(* C08 specification, part 3: the character traits requirements [char.traits.require] and the
   specializations [char.traits.specializations], on lists / integers. *)
From Coq Require Import ZArith List Bool.
From Tetl Require Import C08.Spec.
Import ListNotations.
Local Open Scope Z_scope.

(* move(s, p, n): "copies correctly even where the ranges [p,p+n) and [s,s+n) overlap" = memmove:
   afterwards dest[j] holds what source[j] held BEFORE the call, everything else is unchanged.
   [l]: the address space, [d]/[s]: offsets of dest/source *)
Definition move_s (l : list Z) (d s count : nat) : list Z :=
  map (fun j => if (d <=? j)%nat && (j <? d + count)%nat then nth (s + (j - d)) l 0 else nth j l 0)
      (seq 0 (length l)).
(* assign(s, n, c): n copies of c *)
Definition fill_s (l : list Z) (d count : nat) (c : Z) : list Z :=
  map (fun j => if (d <=? j)%nat && (j <? d + count)%nat then c else nth j l 0) (seq 0 (length l)).

(* compare(p, q, n): the first i in [0,n) with p[i] != q[i] decides by lt; 0 if there is none.
   ALL n characters take part - a zero character is a character like any other *)
Definition tr_compare_s (t : chartype) (a b : list Z) (n : Z) : Z := compare_s t (sub a 0 n) (sub b 0 n).
(* find(p, n, c): the smallest q in [p,p+n) with eq( *q, c), as an offset; None = null pointer *)
Definition tr_find_s (l : list Z) (n c : Z) : option Z := first_idx (fun i => zth l i =? c) 0 (Z.to_nat n).
(* length(p): the smallest i with eq(p[i], charT()) *)
Definition tr_length_s (l : list Z) : Z := len (cstr_s l).

(* the values a character type can hold *)
Definition char_range (t : chartype) (c : Z) : Prop :=
  match t with
  | TChar => -128 <= c <= 127
  | TWchar => -2147483648 <= c <= 2147483647
  | TChar8 => 0 <= c <= 255
  | TChar16 => 0 <= c <= 65535
  | TChar32 => 0 <= c <= 4294967295
  end.
(* eof(): EOF / WEOF / int_type(-1) *)
Definition eof_s (t : chartype) : Z :=
  match t with TChar => -1 | TChar16 => 65535 | _ => 4294967295 end.
(* to_int_type(c): char as unsigned char ([char.traits.require]: eof() is no character), the other types
   by the value-preserving / modular conversion to their int_type *)
Definition to_int_type_s (t : chartype) (c : Z) : Z :=
  match t with TChar => c mod 256 | TWchar => c mod 4294967296 | _ => c end.
(* to_char_type(e) for an e that is the int_type of a character c: that c ([char.traits.require]);
   unspecified for other e *)
Definition to_char_type_s (t : chartype) (e : Z) : Z :=
  match t with
  | TChar => if e <? 128 then e else e - 256
  | TWchar => if e <? 2147483648 then e else e - 4294967296
  | _ => e
  end.
