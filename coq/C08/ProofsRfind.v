(* C08: rfind (clamped prefix + etl::find_end = repeated etl::search) and rfind(Char):
   model = spec for all views, needles and positions. *)
From Tetl Require Import Lib.Base C08.Model C08.Spec C08.Core C08.ProofsFind.
From Coq Require Import ZifyBool.
Local Open Scope Z_scope.
Ltac Zify.zify_post_hook ::= Z.to_euclidean_division_equations.

(** * rfind(Char c, pos) *)
Lemma rfind_c_loop_spec h c : view_ok h ->
  forall fuel s, 0 <= s <= vlen h -> (Z.to_nat s < fuel)%nat ->
  rfind_c_loop fuel h c s = Ok (or_s_npos (last_idx (fun i => zth (vchars h) i =? c) (Z.to_nat s))).
Proof.
  intros Hh. induction fuel as [|f IH]; intros s Hs Hf; [lia|].
  cbn [rfind_c_loop]. destruct (s =? 0) eqn:E; cbn [negb].
  - replace (Z.to_nat s) with O by lia. reflexivity.
  - rewrite rd_ok by (assumption || lia). cbn [rbind].
    replace (Z.to_nat s) with (S (Z.to_nat (s - 1))) by lia. cbn [last_idx].
    rewrite Z2Nat.id by lia. destruct (zth (vchars h) (s - 1) =? c); [reflexivity|].
    apply IH; lia.
Qed.

Lemma occurs_single h c i : 0 <= i -> occurs h [c] i = (i <? len h) && (zth h i =? c).
Proof.
  intros Hi. apply bool_eq_iff. rewrite occurs_iff by lia. change (len [c]) with 1.
  rewrite andb_true_iff. split.
  - intros (Hfit & Hall). specialize (Hall 0). rewrite Z.add_0_r in Hall.
    change (zth [c] 0) with c in Hall. lia.
  - intros (H1 & H2). split; [lia|]. intros j Hj. replace j with 0 by lia.
    rewrite Z.add_0_r. change (zth [c] 0) with c. lia.
Qed.

Lemma rfind_c_correct h c pos : view_ok h -> pos_ok pos ->
  rfind_c_m h c pos = Ok (rfind_s (vchars h) [c] pos).
Proof.
  intros Hh Hp. pose proof Hh as (H0 & H1 & H2). pose proof (len_vchars h Hh) as LH. unfold pos_ok in Hp.
  unfold rfind_c_m, rfind_s. rewrite LH.
  destruct (vlen h <? 1) eqn:E.
  - f_equal. symmetry. replace (last_idx _ _) with (@None Z); [reflexivity|].
    symmetry. apply last_idx_none. intros i Hi. rewrite occurs_single by lia. lia.
  - rewrite rfind_c_loop_spec; try (assumption || unfold fuel_of; destruct (pos <? vlen h) eqn:?;
      rewrite ?sz_small by lia; lia).
    do 2 f_equal. destruct (pos <? vlen h) eqn:E2.
    + rewrite sz_small by lia. replace (Z.min pos (vlen h)) with pos by lia.
      apply last_idx_ext. intros i Hi. rewrite occurs_single by lia. cbv beta. lia.
    + replace (Z.min pos (vlen h) + 1) with (vlen h + 1) by lia.
      replace (Z.to_nat (vlen h + 1)) with (1 + Z.to_nat (vlen h))%nat by lia.
      rewrite last_idx_extend.
      * apply last_idx_ext. intros i Hi. rewrite occurs_single by lia. cbv beta. lia.
      * intros i Hi. rewrite occurs_single by lia. lia.
Qed.

(** * etl::search and etl::find_end on the window [0, last) of the haystack *)
Definition occ_in (H N : list Z) (last i : Z) : bool := occurs H N i && (i + len N <=? last).

Section Search.
  Variables h n : view.
  Hypothesis Hh : view_ok h.
  Hypothesis Hn : view_ok n.
  Variable last : Z.
  Hypothesis Hlast : 0 <= last <= vlen h.

  Let H := vchars h.
  Let N := vchars n.
  Let m := vlen n.

  Lemma search_in_spec first : 0 <= first ->
    forall fuel k, 0 <= k <= m -> first + k <= last ->
    (forall j, 0 <= j < k -> zth H (first + j) = zth N j) ->
    (Z.to_nat (m - k) < fuel)%nat ->
    exists r, search_in fuel h n last (first + k) k = Ok r /\
      match r with
      | SFound => occ_in H N last first = true
      | SEnd => last < first + m
      | SBreak => first < last /\ occurs H N first = false
      end.
  Proof.
    intros Hf0. pose proof Hh as (H0 & H1 & H2). pose proof Hn as (N0 & N1 & N2).
    pose proof (len_vchars h Hh) as LH. pose proof (len_vchars n Hn) as LN. fold H in LH. fold N in LN.
    induction fuel as [|f IH]; intros k Hk Hfit Hmatch Hfuel; [lia|].
    cbn [search_in]. fold m. destruct (k =? m) eqn:E1.
    - exists SFound. split; [reflexivity|]. unfold occ_in. apply andb_true_iff. split; [|lia].
      apply occurs_iff; [lia|]. split; [lia|]. intros j Hj. apply Hmatch. lia.
    - destruct (first + k =? last) eqn:E2.
      + exists SEnd. split; [reflexivity|]. lia.
      + rewrite !rd_ok by (assumption || lia). cbn [rbind]. fold H N.
        destruct (zth H (first + k) =? zth N k) eqn:E3; cbn [negb].
        * rewrite !sz_small by lia. replace (first + k + 1) with (first + (k + 1)) by lia.
          apply IH; try lia. intros j Hj. destruct (Z.eq_dec j k) as [->|Hne]; [lia|]. apply Hmatch. lia.
        * exists SBreak. split; [reflexivity|]. split; [lia|].
          apply not_true_iff_false. rewrite occurs_iff by lia. intros (_ & Hall).
          specialize (Hall k). lia.
  Qed.

  Hypothesis Hm : 0 < m.

  Lemma occ_in_lt i : occ_in H N last i = true -> i < last.
  Proof.
    unfold occ_in. rewrite andb_true_iff. intros (_ & Hfit).
    pose proof (len_vchars n Hn) as LN. fold N in LN. fold m in LN. lia.
  Qed.

  Lemma search_m_spec : forall fuel first, 0 <= first <= last -> (Z.to_nat (last - first) < fuel)%nat ->
    search_m fuel h n first last =
    Ok (match first_idx (occ_in H N last) first (Z.to_nat (last - first)) with Some i => i | None => last end).
  Proof.
    pose proof Hh as (H0 & H1 & H2). pose proof Hn as (N0 & N1 & N2).
    pose proof (len_vchars n Hn) as LN. fold N in LN. fold m in LN.
    induction fuel as [|f IH]; intros first Hfirst Hfuel; [lia|].
    cbn [search_m].
    destruct (search_in_spec first ltac:(lia) (fuel_of (vlen n)) 0) as (r & Hr & Hcase);
      try (fold m; unfold fuel_of; lia).
    rewrite Z.add_0_r in Hr. rewrite Hr. cbn [rbind]. destruct r.
    - pose proof (occ_in_lt first Hcase).
      replace (Z.to_nat (last - first)) with (S (Z.to_nat (last - (first + 1)))) by lia.
      cbn [first_idx]. rewrite Hcase. reflexivity.
    - f_equal. replace (first_idx _ _ _) with (@None Z); [reflexivity|].
      symmetry. apply first_idx_none. intros i Hi. unfold occ_in. lia.
    - destruct Hcase as (Hlt & Hno).
      replace (Z.to_nat (last - first)) with (S (Z.to_nat (last - (first + 1)))) by lia.
      cbn [first_idx]. unfold occ_in at 1. rewrite Hno. cbn [andb].
      rewrite sz_small by lia. apply IH; lia.
  Qed.

  Lemma find_end_loop_spec : forall fuel first result, 0 <= first <= last ->
    (Z.to_nat (last - first) < fuel)%nat ->
    exists R, find_end_loop fuel h n first last result = Ok R /\
      ((forall i, first <= i < last -> occ_in H N last i = false) -> R = result) /\
      ((exists i, first <= i < last /\ occ_in H N last i = true) ->
       last_idx (occ_in H N last) (Z.to_nat last) = Some R).
  Proof.
    pose proof Hh as (H0 & H1 & H2).
    induction fuel as [|f IH]; intros first result Hfirst Hfuel; [lia|].
    cbn [find_end_loop]. rewrite search_m_spec by (unfold fuel_of; lia). cbn [rbind].
    destruct (first_idx (occ_in H N last) first (Z.to_nat (last - first))) as [nr|] eqn:E.
    - apply first_idx_some in E as (E1 & E2 & E3).
      replace (nr =? last) with false by lia. rewrite sz_small by lia.
      destruct (IH (nr + 1) nr ltac:(lia) ltac:(lia)) as (R & HR & HR1 & HR2).
      exists R. split; [exact HR|]. split.
      + intros Hall. rewrite Hall in E2 by lia. discriminate.
      + intros _. destruct (last_idx (occ_in H N last) (Z.to_nat last)) as [g|] eqn:G.
        * pose proof G as G'. apply last_idx_some in G' as (G1 & G2 & G3).
          assert (nr <= g). { destruct (Z_le_gt_dec nr g); [assumption|]. rewrite G3 in E2 by lia. discriminate. }
          destruct (Z.eq_dec g nr) as [->|Hne].
          -- f_equal. symmetry. apply HR1. intros i Hi. apply G3. lia.
          -- apply HR2. exists g. split; [lia|exact G2].
        * rewrite last_idx_none in G. rewrite G in E2 by lia. discriminate.
    - rewrite Z.eqb_refl. exists result. split; [reflexivity|]. split; [reflexivity|].
      intros (i & Hi & Hocc). rewrite first_idx_none in E. rewrite E in Hocc by lia. discriminate.
  Qed.
End Search.

Lemma rfind_correct h n pos : view_ok h -> view_ok n -> pos_ok pos ->
  rfind_m h n pos = Ok (rfind_s (vchars h) (vchars n) pos).
Proof.
  intros Hh Hn Hp. pose proof Hh as (H0 & H1 & H2). pose proof Hn as (N0 & N1 & N2). unfold pos_ok in Hp.
  pose proof (len_vchars h Hh) as LH. pose proof (len_vchars n Hn) as LN.
  unfold rfind_m, rfind_s. rewrite LH, min_sz_min.
  set (pos1 := Z.min pos (vlen h)).
  assert (HP : (if vlen n <? sz (vlen h - pos1) then sz (pos1 + vlen n) else vlen h)
               = Z.min (pos1 + vlen n) (vlen h)).
  { rewrite sz_small by lia. destruct (vlen n <? vlen h - pos1) eqn:E; [rewrite sz_small by lia|]; lia. }
  rewrite HP. set (P := Z.min (pos1 + vlen n) (vlen h)). unfold find_end_m.
  destruct (vlen n =? 0) eqn:En.
  - (* empty needle: the result is min(pos, size()) *)
    cbn [rbind]. replace (vlen n >? 0) with false by lia. cbn [andb]. f_equal.
    replace (Z.to_nat (pos1 + 1)) with (S (Z.to_nat pos1)) by lia. cbn [last_idx].
    rewrite Z2Nat.id by lia. replace (occurs (vchars h) (vchars n) pos1) with true; [cbn; lia|].
    symmetry. apply occurs_iff; [lia|]. split; [lia|]. intros j Hj. lia.
  - destruct (find_end_loop_spec h n Hh Hn P ltac:(lia) ltac:(lia) (fuel_of (vlen h)) 0 P)
      as (R & HR & HR1 & HR2); try (unfold fuel_of; lia).
    rewrite HR. cbn [rbind]. replace (vlen n >? 0) with true by lia. cbn [andb].
    assert (Hequiv : forall i, 0 <= i ->
              occ_in (vchars h) (vchars n) P i = occurs (vchars h) (vchars n) i && (i <=? pos1)).
    { intros i Hi. unfold occ_in. rewrite LN. destruct (occurs (vchars h) (vchars n) i) eqn:O; cbn [andb]; [|reflexivity].
      apply occurs_iff in O as (Ofit & _); [|lia]. rewrite LH, LN in Ofit. lia. }
    destruct (last_idx (occ_in (vchars h) (vchars n) P) (Z.to_nat P)) as [g|] eqn:G.
    + pose proof G as G'. apply last_idx_some in G' as (G1 & G2 & G3).
      assert (R = g).
      { assert (Some g = Some R) as HgR; [|inversion HgR; reflexivity].
        apply HR2. exists g. split; [lia|exact G2]. }
      subst R. replace (g =? P) with false by lia. f_equal.
      replace (last_idx _ _) with (Some g); [reflexivity|].
      symmetry. apply last_idx_some. rewrite Hequiv in G2 by lia. apply andb_true_iff in G2 as (G2a & G2b).
      split; [lia|]. split; [exact G2a|].
      intros i Hi. destruct (occurs (vchars h) (vchars n) i) eqn:O; [|reflexivity].
      exfalso. assert (Hocc : occ_in (vchars h) (vchars n) P i = true).
      { rewrite Hequiv by lia. rewrite O. cbn [andb]. lia. }
      pose proof (occ_in_lt h n Hn P ltac:(lia) i Hocc) as Hlt.
      rewrite G3 in Hocc by lia. discriminate.
    + rewrite last_idx_none in G.
      assert (R = P) by (apply HR1; intros i Hi; apply G; lia). subst R.
      rewrite Z.eqb_refl. f_equal.
      replace (last_idx _ _) with (@None Z); [reflexivity|].
      symmetry. apply last_idx_none. intros i Hi.
      destruct (occurs (vchars h) (vchars n) i) eqn:O; [|reflexivity].
      exfalso. assert (Hocc : occ_in (vchars h) (vchars n) P i = true).
      { rewrite Hequiv by lia. rewrite O. cbn [andb]. lia. }
      pose proof (occ_in_lt h n Hn P ltac:(lia) i Hocc) as Hlt.
      rewrite G in Hocc by lia. discriminate.
Qed.
