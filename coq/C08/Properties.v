From Tetl Require Import Lib.Base C08.Model C08.Spec.
Local Open Scope Z_scope.
Theorem C08_placeholder : find_m (mkview [] 0 0) (mkview [] 0 0) 0 = Ok (find_s [] [] 0).
Proof. reflexivity. Qed.
Print Assumptions C08_placeholder.
