(* C08 — string_view searches and comparisons equal std::string_view for all arguments.
   Property theorems only: each is closed by [exact] of a lemma proved in Proofs*.v / SpecFacts.v,
   followed by Print Assumptions.

   Reading guide.  [X_m] (Model.v) is the executable mirror of basic_string_view::X on views
   (buffer, offset, length); [X_s] (Spec.v) is std::basic_string_view::X on character lists.
   [view_ok v]: the view lies inside its allocation and vlen v < 2^63.  [pos_ok p]: 0 <= p < 2^64
   (any size_t value, incl. npos and positions beyond size()).  [vchars v]: the characters spanned.
   A result [Ok r] excludes UB (every character access of the model is a checked read that is
   UB OutOfBounds outside its own view), contract failures and fuel exhaustion.
   [res_opt] / [view_res]: the model is [Contract] exactly when the spec has no value
   (pos > size(): std throws out_of_range / documents a precondition). *)
From Tetl Require Import Lib.Base C08.Model C08.Spec C08.Core C08.ProofsFind C08.ProofsCmp
  C08.ProofsRfind C08.ProofsPtr C08.ProofsSafe C08.SpecFacts.
Local Open Scope Z_scope.

(** * The six search families: view, Char, Char const* and (Char const*, pos, count) overloads,
      for all views, needles (incl. empty, longer than the haystack) and positions.
      [cstr_ok a]: the array holds a zero; the needle is the characters before it. *)
(* find + contains *)
Theorem C08_find :
  ((* find *) forall h n pos, view_ok h -> view_ok n -> pos_ok pos ->
  find_m h n pos = Ok (find_s (vchars h) (vchars n) pos)) /\
  ((* find_c *) forall h c pos, view_ok h -> pos_ok pos ->
  find_c_m h c pos = Ok (find_s (vchars h) [c] pos)) /\
  ((* find_p *) forall h a pos, view_ok h -> cstr_ok a -> pos_ok pos ->
  find_p_m h a pos = Ok (find_s (vchars h) (cstr_s (vchars a)) pos)) /\
  ((* find_pc *) forall h a pos count, view_ok h -> view_ok a -> pos_ok pos -> 0 <= count <= vlen a ->
  find_pc_m h a pos count = Ok (find_s (vchars h) (sub (vchars a) 0 count) pos)) /\
  ((* contains *) forall h n, view_ok h -> view_ok n ->
  contains_m h n = Ok (contains_s (vchars h) (vchars n))) /\
  ((* contains_c *) forall h c, view_ok h -> contains_c_m h c = Ok (contains_s (vchars h) [c])) /\
  ((* contains_p *) forall h a, view_ok h -> cstr_ok a ->
  contains_p_m h a = Ok (contains_s (vchars h) (cstr_s (vchars a)))).
Proof. exact (conj find_correct (conj find_c_correct (conj find_p_correct (conj find_pc_correct (conj contains_correct (conj contains_c_correct contains_p_correct)))))). Qed.
Print Assumptions C08_find.

(* rfind *)
Theorem C08_rfind :
  ((* rfind *) forall h n pos, view_ok h -> view_ok n -> pos_ok pos ->
  rfind_m h n pos = Ok (rfind_s (vchars h) (vchars n) pos)) /\
  ((* rfind_c *) forall h c pos, view_ok h -> pos_ok pos ->
  rfind_c_m h c pos = Ok (rfind_s (vchars h) [c] pos)) /\
  ((* rfind_p *) forall h a pos, view_ok h -> cstr_ok a -> pos_ok pos ->
  rfind_p_m h a pos = Ok (rfind_s (vchars h) (cstr_s (vchars a)) pos)) /\
  ((* rfind_pc *) forall h a pos count, view_ok h -> view_ok a -> pos_ok pos -> 0 <= count <= vlen a ->
  rfind_pc_m h a pos count = Ok (rfind_s (vchars h) (sub (vchars a) 0 count) pos)).
Proof. exact (conj rfind_correct (conj rfind_c_correct (conj rfind_p_correct rfind_pc_correct))). Qed.
Print Assumptions C08_rfind.

(* find_first_of *)
Theorem C08_find_first_of :
  ((* find_first_of *) forall h n pos, view_ok h -> view_ok n -> pos_ok pos ->
  find_first_of_m h n pos = Ok (find_first_of_s (vchars h) (vchars n) pos)) /\
  ((* find_first_of_c *) forall h c pos, view_ok h -> pos_ok pos ->
  find_first_of_c_m h c pos = Ok (find_first_of_s (vchars h) [c] pos)) /\
  ((* find_first_of_p *) forall h a pos, view_ok h -> cstr_ok a -> pos_ok pos ->
  find_first_of_p_m h a pos = Ok (find_first_of_s (vchars h) (cstr_s (vchars a)) pos)) /\
  ((* find_first_of_pc *) forall h a pos count, view_ok h -> view_ok a -> pos_ok pos -> 0 <= count <= vlen a ->
  find_first_of_pc_m h a pos count = Ok (find_first_of_s (vchars h) (sub (vchars a) 0 count) pos)).
Proof. exact (conj find_first_of_correct (conj find_first_of_c_correct (conj find_first_of_p_correct find_first_of_pc_correct))). Qed.
Print Assumptions C08_find_first_of.

(* find_first_not_of *)
Theorem C08_find_first_not_of :
  ((* find_first_not_of *) forall h n pos, view_ok h -> view_ok n -> pos_ok pos ->
  find_first_not_of_m h n pos = Ok (find_first_not_of_s (vchars h) (vchars n) pos)) /\
  ((* find_first_not_of_c *) forall h c pos, view_ok h -> pos_ok pos ->
  find_first_not_of_c_m h c pos = Ok (find_first_not_of_s (vchars h) [c] pos)) /\
  ((* find_first_not_of_p *) forall h a pos, view_ok h -> cstr_ok a -> pos_ok pos ->
  find_first_not_of_p_m h a pos = Ok (find_first_not_of_s (vchars h) (cstr_s (vchars a)) pos)) /\
  ((* find_first_not_of_pc *) forall h a pos count, view_ok h -> view_ok a -> pos_ok pos -> 0 <= count <= vlen a ->
  find_first_not_of_pc_m h a pos count = Ok (find_first_not_of_s (vchars h) (sub (vchars a) 0 count) pos)).
Proof. exact (conj find_first_not_of_correct (conj find_first_not_of_c_correct (conj find_first_not_of_p_correct find_first_not_of_pc_correct))). Qed.
Print Assumptions C08_find_first_not_of.

(* find_last_of *)
Theorem C08_find_last_of :
  ((* find_last_of *) forall h n pos, view_ok h -> view_ok n -> pos_ok pos ->
  find_last_of_m h n pos = Ok (find_last_of_s (vchars h) (vchars n) pos)) /\
  ((* find_last_of_c *) forall h c pos, view_ok h -> pos_ok pos ->
  find_last_of_c_m h c pos = Ok (find_last_of_s (vchars h) [c] pos)) /\
  ((* find_last_of_p *) forall h a pos, view_ok h -> cstr_ok a -> pos_ok pos ->
  find_last_of_p_m h a pos = Ok (find_last_of_s (vchars h) (cstr_s (vchars a)) pos)) /\
  ((* find_last_of_pc *) forall h a pos count, view_ok h -> view_ok a -> pos_ok pos -> 0 <= count <= vlen a ->
  find_last_of_pc_m h a pos count = Ok (find_last_of_s (vchars h) (sub (vchars a) 0 count) pos)).
Proof. exact (conj find_last_of_correct (conj find_last_of_c_correct (conj find_last_of_p_correct find_last_of_pc_correct))). Qed.
Print Assumptions C08_find_last_of.

(* find_last_not_of *)
Theorem C08_find_last_not_of :
  ((* find_last_not_of *) forall h n pos, view_ok h -> view_ok n -> pos_ok pos ->
  find_last_not_of_m h n pos = Ok (find_last_not_of_s (vchars h) (vchars n) pos)) /\
  ((* find_last_not_of_c *) forall h c pos, view_ok h -> pos_ok pos ->
  find_last_not_of_c_m h c pos = Ok (find_last_not_of_s (vchars h) [c] pos)) /\
  ((* find_last_not_of_p *) forall h a pos, view_ok h -> cstr_ok a -> pos_ok pos ->
  find_last_not_of_p_m h a pos = Ok (find_last_not_of_s (vchars h) (cstr_s (vchars a)) pos)) /\
  ((* find_last_not_of_pc *) forall h a pos count, view_ok h -> view_ok a -> pos_ok pos -> 0 <= count <= vlen a ->
  find_last_not_of_pc_m h a pos count = Ok (find_last_not_of_s (vchars h) (sub (vchars a) 0 count) pos)).
Proof. exact (conj find_last_not_of_correct (conj find_last_not_of_c_correct (conj find_last_not_of_p_correct find_last_not_of_pc_correct))). Qed.
Print Assumptions C08_find_last_not_of.

(** * construction from a C string pointer: Traits::length never leaves the array and yields the C string *)
(* cstr *)
Theorem C08_cstr_view :
  ((* cstr_view *) forall a, cstr_ok a ->
  exists n, cstr_view a = Ok n /\ view_ok n /\ vchars n = cstr_s (vchars a)).
Proof. exact cstr_view_spec. Qed.
Print Assumptions C08_cstr_view.

(** * compare (all six overloads) for every character type, and the six relational operators *)
(* compare *)
Theorem C08_compare :
  ((* compare *) forall ck a b, view_ok a -> view_ok b ->
  compare_m ck a b = Ok (compare_s (ct_of ck) (vchars a) (vchars b))) /\
  ((* compare3 *) forall ck a pos1 count1 b, view_ok a -> view_ok b -> pos_ok pos1 -> pos_ok count1 ->
  res_opt (compare3_m ck a pos1 count1 b) (compare3_s (ct_of ck) (vchars a) pos1 count1 (vchars b))) /\
  ((* compare5 *) forall ck a pos1 count1 b pos2 count2,
  view_ok a -> view_ok b -> pos_ok pos1 -> pos_ok count1 -> pos_ok pos2 -> pos_ok count2 ->
  res_opt (compare5_m ck a pos1 count1 b pos2 count2)
          (compare5_s (ct_of ck) (vchars a) pos1 count1 (vchars b) pos2 count2)) /\
  ((* compare_p *) forall ck h a, view_ok h -> cstr_ok a ->
  compare_p_m ck h a = Ok (compare_s (ct_of ck) (vchars h) (cstr_s (vchars a)))) /\
  ((* compare3_p *) forall ck h pos1 count1 a, view_ok h -> cstr_ok a -> pos_ok pos1 -> pos_ok count1 ->
  res_opt (compare3_p_m ck h pos1 count1 a) (compare3_s (ct_of ck) (vchars h) pos1 count1 (cstr_s (vchars a)))) /\
  ((* compare4_p *) forall ck h pos1 count1 a count2,
  view_ok h -> view_ok a -> pos_ok pos1 -> pos_ok count1 -> 0 <= count2 <= vlen a ->
  res_opt (compare4_p_m ck h pos1 count1 a count2)
          (compare3_s (ct_of ck) (vchars h) pos1 count1 (sub (vchars a) 0 count2))).
Proof. exact (conj compare_correct (conj compare3_correct (conj compare5_correct (conj compare_p_correct (conj compare3_p_correct compare4_p_correct))))). Qed.
Print Assumptions C08_compare.

(* ==, !=, <, <=, >, >= *)
Theorem C08_relational :
  ((* relational *) forall ck a b, view_ok a -> view_ok b ->
  exists e ne l le g ge,
    op_eq_m ck a b = Ok e /\ op_ne_m ck a b = Ok ne /\ op_lt_m ck a b = Ok l /\
    op_le_m ck a b = Ok le /\ op_gt_m ck a b = Ok g /\ op_ge_m ck a b = Ok ge /\
    rel_s (ct_of ck) (vchars a) (vchars b) = [e; ne; l; le; g; ge]).
Proof. exact rel_correct. Qed.
Print Assumptions C08_relational.

(** * starts_with / ends_with; [chars_ok]: the characters are values of the character type *)
(* starts_with, ends_with *)
Theorem C08_starts_ends_with :
  ((* starts_with *) forall ck h n, view_ok h -> view_ok n ->
  chars_ok (ct_of ck) (vchars h) -> chars_ok (ct_of ck) (vchars n) ->
  starts_with_m ck h n = Ok (starts_with_s (vchars h) (vchars n))) /\
  ((* starts_with_c *) forall h c, view_ok h -> starts_with_c_m h c = Ok (starts_with_s (vchars h) [c])) /\
  ((* starts_with_p *) forall ck h a, view_ok h -> cstr_ok a ->
  chars_ok (ct_of ck) (vchars h) -> chars_ok (ct_of ck) (vchars a) ->
  starts_with_p_m ck h a = Ok (starts_with_s (vchars h) (cstr_s (vchars a)))) /\
  ((* ends_with *) forall ck h n, view_ok h -> view_ok n ->
  chars_ok (ct_of ck) (vchars h) -> chars_ok (ct_of ck) (vchars n) ->
  ends_with_m ck h n = Ok (ends_with_s (vchars h) (vchars n))) /\
  ((* ends_with_c *) forall h c, view_ok h -> ends_with_c_m h c = Ok (ends_with_s (vchars h) [c])) /\
  ((* ends_with_p *) forall ck h a, view_ok h -> cstr_ok a ->
  chars_ok (ct_of ck) (vchars h) -> chars_ok (ct_of ck) (vchars a) ->
  ends_with_p_m ck h a = Ok (ends_with_s (vchars h) (cstr_s (vchars a)))).
Proof. exact (conj starts_with_correct (conj starts_with_c_correct (conj starts_with_p_correct (conj ends_with_correct (conj ends_with_c_correct ends_with_p_correct))))). Qed.
Print Assumptions C08_starts_ends_with.

(** * substr, copy, remove_prefix, remove_suffix: any pos / count; Contract iff pos (n) > size() *)
(* substr, copy, remove_prefix, remove_suffix *)
Theorem C08_substr_copy_remove :
  ((* substr *) forall v pos count, view_ok v -> pos_ok pos -> pos_ok count ->
  view_res (substr_m v pos count) (substr_s (vchars v) pos count) (voff v + pos)) /\
  ((* copy *) forall v count pos, view_ok v -> pos_ok count -> pos_ok pos ->
  res_opt (copy_m v count pos) (copy_s (vchars v) count pos)) /\
  ((* remove_prefix *) forall v n, view_ok v -> pos_ok n ->
  view_res (remove_prefix_m v n) (remove_prefix_s (vchars v) n) (voff v + n)) /\
  ((* remove_suffix *) forall v n, view_ok v -> pos_ok n ->
  view_res (remove_suffix_m v n) (remove_suffix_s (vchars v) n) (voff v)).
Proof. exact (conj substr_correct (conj copy_correct (conj remove_prefix_correct remove_suffix_correct))). Qed.
Print Assumptions C08_substr_copy_remove.

(** * Only characters inside the views involved are read: the model's only access path fails
      outside the view, no operation ever takes that path (nor runs out of fuel), and the results
      do not depend on what the allocations hold outside the views *)
(* reads *)
Theorem C08_reads_inside :
  ((* read_is_checked *) forall v i, ~ (0 <= i < vlen v) -> rd v i = UB OutOfBounds) /\
  ((* reads_inside_searches *) forall h n pos, view_ok h -> view_ok n -> pos_ok pos ->
  defined (find_m h n pos) /\ defined (rfind_m h n pos) /\
  defined (find_first_of_m h n pos) /\ defined (find_first_not_of_m h n pos) /\
  defined (find_last_of_m h n pos) /\ defined (find_last_not_of_m h n pos) /\
  defined (contains_m h n)) /\
  ((* reads_inside_compare *) forall ck a b pos1 count1 pos2 count2, view_ok a -> view_ok b ->
  pos_ok pos1 -> pos_ok count1 -> pos_ok pos2 -> pos_ok count2 ->
  defined (compare_m ck a b) /\ defined (compare3_m ck a pos1 count1 b) /\
  defined (compare5_m ck a pos1 count1 b pos2 count2) /\
  defined (op_eq_m ck a b) /\ defined (op_ne_m ck a b) /\ defined (op_lt_m ck a b) /\
  defined (op_le_m ck a b) /\ defined (op_gt_m ck a b) /\ defined (op_ge_m ck a b) /\
  defined (substr_m a pos1 count1) /\ defined (copy_m a count1 pos1) /\
  defined (remove_prefix_m a pos1) /\ defined (remove_suffix_m a pos1)) /\
  ((* frame *) forall h h' n n' pos,
  view_ok h -> view_ok h' -> view_ok n -> view_ok n' -> pos_ok pos ->
  vchars h = vchars h' -> vchars n = vchars n' ->
  find_m h n pos = find_m h' n' pos /\ rfind_m h n pos = rfind_m h' n' pos /\
  find_first_of_m h n pos = find_first_of_m h' n' pos /\
  find_first_not_of_m h n pos = find_first_not_of_m h' n' pos /\
  find_last_of_m h n pos = find_last_of_m h' n' pos /\
  find_last_not_of_m h n pos = find_last_not_of_m h' n' pos).
Proof. exact (conj rd_outside (conj reads_inside_searches (conj reads_inside_compare frame_find))). Qed.
Print Assumptions C08_reads_inside.

(** * The executable spec functions say what [string.view.find] / [string.view.ops] say
      ([occurs_at h n x]: x + |n| <= |h| and h[x+I] = n[I] for all I) *)
(* spec *)
Theorem C08_spec_wording :
  ((* spec_find *) forall h n pos, 0 <= pos ->
  (find_s h n pos = s_npos /\ forall x, pos <= x -> ~ occurs_at h n x) \/
  (pos <= find_s h n pos /\ occurs_at h n (find_s h n pos) /\
   forall x, pos <= x < find_s h n pos -> ~ occurs_at h n x)) /\
  ((* spec_rfind *) forall h n pos, 0 <= pos ->
  (rfind_s h n pos = s_npos /\ forall x, 0 <= x <= pos -> ~ occurs_at h n x) \/
  (0 <= rfind_s h n pos <= pos /\ occurs_at h n (rfind_s h n pos) /\
   forall x, rfind_s h n pos < x <= pos -> ~ occurs_at h n x)) /\
  ((* spec_find_first_of *) forall h n pos, 0 <= pos ->
  let r := find_first_of_s h n pos in
  (r = s_npos /\ forall x, pos <= x < len h -> mem (zth h x) n = false) \/
  (pos <= r < len h /\ mem (zth h r) n = true /\ forall x, pos <= x < r -> mem (zth h x) n = false)) /\
  ((* spec_find_first_not_of *) forall h n pos, 0 <= pos ->
  let r := find_first_not_of_s h n pos in
  (r = s_npos /\ forall x, pos <= x < len h -> mem (zth h x) n = true) \/
  (pos <= r < len h /\ mem (zth h r) n = false /\ forall x, pos <= x < r -> mem (zth h x) n = true)) /\
  ((* spec_find_last_of *) forall h n pos, 0 <= pos ->
  let r := find_last_of_s h n pos in
  (r = s_npos /\ forall x, 0 <= x <= pos -> x < len h -> mem (zth h x) n = false) \/
  (0 <= r <= pos /\ r < len h /\ mem (zth h r) n = true /\
   forall x, r < x <= pos -> x < len h -> mem (zth h x) n = false)) /\
  ((* spec_find_last_not_of *) forall h n pos, 0 <= pos ->
  let r := find_last_not_of_s h n pos in
  (r = s_npos /\ forall x, 0 <= x <= pos -> x < len h -> mem (zth h x) n = true) \/
  (0 <= r <= pos /\ r < len h /\ mem (zth h r) n = false /\
   forall x, r < x <= pos -> x < len h -> mem (zth h x) n = true)) /\
  ((* spec_compare *) forall t a b,
  compare_s t a b =
  match first_idx (differ t a b) 0 (Z.to_nat (Z.min (len a) (len b))) with
  | Some i => if char_lt t (zth a i) (zth b i) then -1 else 1
  | None => tie (len a) (len b)
  end).
Proof. exact (conj find_s_char (conj rfind_s_char (conj find_first_of_s_char (conj find_first_not_of_s_char (conj find_last_of_s_char (conj find_last_not_of_s_char compare_s_idx)))))). Qed.
Print Assumptions C08_spec_wording.

(** * Non-vacuity: the hypotheses are satisfiable, on a view strictly inside a larger buffer
      whose neighbouring characters would give a different answer (DESIGN Appendix A row 8) *)
Example C08_nonvacuous :
  let h := mkview [97; 98; 97; 98] 0 3 in   (* "aba" inside the buffer "abab" *)
  let n := mkview [97; 98] 0 2 in           (* "ab" *)
  view_ok h /\ view_ok n /\ pos_ok 1 /\ pos_ok npos /\ cstr_ok (mkview [97; 0] 0 2) /\
  chars_ok TChar (vchars h) /\
  find_m h n 1 = Ok npos /\ find_s (vchars h) (vchars n) 1 = npos /\ rfind_m h n npos = Ok 0.
Proof.
  cbv zeta. unfold view_ok, pos_ok, cstr_ok, view_ok, chars_ok, npos, len. cbn [vbuf voff vlen length].
  repeat split; try lia; try reflexivity.
  - exists 1. split; [lia|reflexivity].
  - repeat constructor; cbn; lia.
Qed.
