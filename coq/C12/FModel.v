(* C12 model, floating-point target representation: duration_cast<duration<double, P2>> and the
   converting constructor duration<double, P2>(duration<Int, P1>) for a signed integer source
   representation.  CR = common_type_t<double, Int, intmax_t> = double, so every operation is the
   correctly rounded (round-to-nearest-even) IEEE-754 binary64 operation of Flocq; the conversion
   of an integer to double rounds to nearest even.  No proofs here. *)
From Coq Require Import ZArith Bool.
From Flocq Require Import Core BinarySingleNaN.
From Flocq Require Bits.
From Tetl Require Import Lib.Base C12.Model C12.Spec.
Local Open Scope Z_scope.

Notation b64 := (binary_float 53 1024).
Definition p64 : Prec_gt_0 53 := eq_refl.
Definition pe64 : Prec_lt_emax 53 1024 := eq_refl.

Definition d_of_Z (n : Z) : b64 := binary_normalize 53 1024 p64 pe64 mode_NE n 0 false.  (* static_cast<double>(n) *)
Definition dmul (x y : b64) : b64 := @Bmult 53 1024 p64 pe64 mode_NE x y.
Definition ddiv (x y : b64) : b64 := @Bdiv 53 1024 p64 pe64 mode_NE x y.

(* bit_cast<uint64_t>(x), the single NaN printed as the quiet NaN with zero payload *)
Definition enc64 (x : b64) : Z :=
  match x with
  | B754_zero s => Bits.join_bits 52 11 s 0 0
  | B754_infinity s => Bits.join_bits 52 11 s 0 2047
  | B754_nan => Bits.join_bits 52 11 false (2 ^ 51) 2047
  | B754_finite s m e _ =>
      let m' := Zpos m - 2 ^ 52 in
      if 0 <=? m' then Bits.join_bits 52 11 s m' (e + 1075)
      else Bits.join_bits 52 11 s (Zpos m) 0
  end.

(* duration_cast.hpp with CR = double: the four duration_cast_impl specialisations *)
Definition fcast_m (from to_ : dty) : Z -> out b64 :=
  let cf := ratio_divide_m (pn from, pd from) (pn to_, pd to_) in
  fun c =>
    do cf' <- cf;
    let cn := fst cf' in
    let cd := snd cf' in
    let x := d_of_Z c in
    Val (if cn =? 1 then (if cd =? 1 then x else ddiv x (d_of_Z cd))
         else if cd =? 1 then dmul x (d_of_Z cn)
         else ddiv (dmul x (d_of_Z cn)) (d_of_Z cd)).

(* detail::period_quotient<From, To>::representable *)
Definition period_quotient_representable_m (from to_ : dty) : out bool :=
  do g1 <- gcd_m (pn from) (pn to_);
  do g2 <- gcd_m (pd from) (pd to_);
  if (g1 =? 0) || (g2 =? 0) then IllFormed
  else
    let q1 := Z.quot (pn from) g1 in
    let q2 := Z.quot (pd to_) g2 in
    let e1 := Z.quot (pd from) g2 in
    let e2 := Z.quot (pn to_) g1 in
    if (q2 =? 0) || (e2 =? 0) then IllFormed
    else Val ((q1 <=? Z.quot max64 q2) && (e1 <=? Z.quot max64 e2)).

(* duration<double, P2>(duration<Int, P1> const&): participates when the period quotient is
   representable; static_cast<double>(count) * num / den without specialisation *)
Definition fconv_m (from to_ : dty) : Z -> out b64 :=
  let ok := period_quotient_representable_m from to_ in
  let cf := ratio_divide_m (pn from, pd from) (pn to_, pd to_) in
  fun c =>
    do ok' <- ok;
    if negb ok' then IllFormed
    else
      do cf' <- cf;
      Val (ddiv (dmul (d_of_Z c) (d_of_Z (fst cf'))) (d_of_Z (snd cf'))).

(** * specification: the exact rational c*n1*d2 / (d1*n2) rounded once to nearest even.
   Computable form for numerator and denominator below 2^53 (both exactly representable, one
   correctly rounded division); FProofs.v relates it to [round] on the reals. *)
Definition fcast_spec (n1 d1 n2 d2 c : Z) : b64 := ddiv (d_of_Z (c * n1 * d2)) (d_of_Z (d1 * n2)).
Definition two53 : Z := 9007199254740992.
Definition fspec_ok (n1 d1 n2 d2 c : Z) : bool := (Z.abs (c * n1 * d2) <? two53) && (d1 * n2 <? two53).

(** * floating-point SOURCE representation: duration<double, P1> (tested against the code and
   std::chrono by the correspondence run; the theorems of Properties_float.v cover the integer
   source only).  Every arithmetic step is the correctly rounded binary64 operation. *)
From Flocq Require Binary.

(* bit_cast<double>(bits) (NaN payloads dropped) *)
Definition dec64 (z : Z) : b64 :=
  Binary.B2BSN 53 1024 (Bits.binary_float_of_bits 52 11 eq_refl eq_refl eq_refl z).

Definition dadd (x y : b64) : b64 := @Bplus 53 1024 p64 pe64 mode_NE x y.
Definition dsub (x y : b64) : b64 := @Bminus 53 1024 p64 pe64 mode_NE x y.
Definition dlt (x y : b64) : bool := Bltb x y.
Definition deq (x y : b64) : bool := Beqb x y.

(* static_cast<int64_t>(x): truncation toward zero; undefined unless the truncated value fits *)
Definition d_to_i64 (x : b64) : out Z :=
  match x with
  | B754_nan | B754_infinity _ => Ub SignedOverflow
  | _ => let z := Btrunc x in if in64 z then Val z else Ub SignedOverflow
  end.

(* the value part of duration_cast with CR = double on a double count: the four specialisations *)
Definition dscale (cn cd : Z) (x : b64) : b64 :=
  if cn =? 1 then (if cd =? 1 then x else ddiv x (d_of_Z cd))
  else if cd =? 1 then dmul x (d_of_Z cn)
  else ddiv (dmul x (d_of_Z cn)) (d_of_Z cd).

Definition same_period (a b : dty) : bool := (pn a =? pn b) && (pd a =? pd b).

(* duration_cast<duration<double, P2>>(duration<double, P1>{x}) *)
Definition dd_cast_m (from to_ : dty) : b64 -> out b64 :=
  let cf := ratio_divide_m (pn from, pd from) (pn to_, pd to_) in
  fun x => do cf' <- cf; Val (dscale (fst cf') (snd cf') x).

(* duration_cast<duration<int64_t, P2>>(duration<double, P1>{x}) *)
Definition di_cast_m (from to_ : dty) : b64 -> out Z :=
  let cf := ratio_divide_m (pn from, pd from) (pn to_, pd to_) in
  fun x => do cf' <- cf; d_to_i64 (dscale (fst cf') (snd cf') x).

(* converting constructor into duration<double, Pc> from a double count (identity for the same
   type) and from an int64 count: count * num / den in double, no specialisation *)
Definition dconv_d (from to_ : dty) : b64 -> out b64 :=
  let same := same_period from to_ in
  let ok := period_quotient_representable_m from to_ in
  let cf := ratio_divide_m (pn from, pd from) (pn to_, pd to_) in
  fun x =>
    if same then Val x
    else
      do ok' <- ok;
      if negb ok' then IllFormed
      else do cf' <- cf; Val (ddiv (dmul x (d_of_Z (fst cf'))) (d_of_Z (snd cf'))).
Definition dconv_i := fconv_m.

(* the common type of two durations (periods only; the representation is double) *)
Definition dcommon (a b : dty) : out dty := common_m a b.

(* floor / ceil / round <duration<int64_t, P2>> (duration<double, P1>{x}) *)
Definition di_floor_m (from to_ : dty) : b64 -> out Z :=
  let cast := di_cast_m from to_ in
  let k := (do t <- dcommon to_ from; Val (dconv_d from t, dconv_i to_ t)) in
  fun x =>
    do t <- cast x;
    do '(cvd, cvi) <- k;
    do xd <- cvd x;
    do td <- cvi t;
    if dlt xd td then ck64 (t - 1) else Val t.        (* t > d  is  d < t *)

Definition di_ceil_m (from to_ : dty) : b64 -> out Z :=
  let cast := di_cast_m from to_ in
  let k := (do t <- dcommon to_ from; Val (dconv_d from t, dconv_i to_ t)) in
  fun x =>
    do t <- cast x;
    do '(cvd, cvi) <- k;
    do xd <- cvd x;
    do td <- cvi t;
    if dlt td xd then ck64 (t + 1) else Val t.        (* t < d *)

Definition di_round_m (from to_ : dty) : b64 -> out Z :=
  let fl := di_floor_m from to_ in
  let k := (do t <- dcommon from to_; Val (dconv_d from t, dconv_i to_ t)) in
  fun x =>
    do low <- fl x;
    do high <- ck64 (low + 1);
    do '(cvd, cvi) <- k;
    do xd <- cvd x;
    do lowd <- cvi low;
    do highd <- cvi high;
    let lowDiff := dsub xd lowd in
    let highDiff := dsub highd xd in
    if dlt lowDiff highDiff then Val low
    else if dlt highDiff lowDiff then Val high
    else if Z.odd low then Val high else Val low.

(* + - / and the comparisons of duration<double, P1>{x} with duration<double, P2>{y} *)
Definition dd_common_m (a b : dty) : b64 -> b64 -> out (b64 * b64) :=
  let k := (do t <- dcommon a b; Val (dconv_d a t, dconv_d b t)) in
  fun x y => do '(ca, cb) <- k; do xa <- ca x; do yb <- cb y; Val (xa, yb).
Definition dd_plus_m (a b : dty) : b64 -> b64 -> out b64 :=
  let tc := dd_common_m a b in fun x y => do '(u, v) <- tc x y; Val (dadd u v).
Definition dd_minus_m (a b : dty) : b64 -> b64 -> out b64 :=
  let tc := dd_common_m a b in fun x y => do '(u, v) <- tc x y; Val (dsub u v).
Definition dd_div_m (a b : dty) : b64 -> b64 -> out b64 :=
  let tc := dd_common_m a b in fun x y => do '(u, v) <- tc x y; Val (ddiv u v).
Definition dd_lt_m (a b : dty) : b64 -> b64 -> out bool :=
  let tc := dd_common_m a b in fun x y => do '(u, v) <- tc x y; Val (dlt u v).
Definition dd_eq_m (a b : dty) : b64 -> b64 -> out bool :=
  let tc := dd_common_m a b in fun x y => do '(u, v) <- tc x y; Val (deq u v).

(** * guards used by the correspondence run to decide where the float-source theorems apply *)
(* the whole number held by a double, if any (-0.0 excluded) *)
Definition d_int_of (x : b64) : option Z :=
  match x with
  | B754_nan | B754_infinity _ => None
  | _ => let z := Btrunc x in if enc64 (d_of_Z z) =? enc64 x then Some z else None
  end.
(* a conservative computable form of the hypotheses of C12_float_source_cast_exact and
   C12_float_source_rounding_exact *)
Definition fsrc_ok (n1 d1 n2 d2 c : Z) : bool :=
  let cn := factor_num n1 d1 n2 d2 in
  let cd := factor_den n1 d1 n2 d2 in
  let g := cnum n1 n2 in
  let l := cden d1 d2 in
  let t1 := ticks n1 d1 g l in
  let t2 := ticks n2 d2 g l in
  (Z.abs c <=? two53) && (cn <=? two53) && (cd <=? two53) && (Z.abs (c * cn) <? two53)
  && (l <=? max64) && (t1 <=? two53) && (t2 <=? two53)
  && (Z.abs c * t1 + 2 * t2 <=? two53) && (Z.abs (floor_spec n1 d1 n2 d2 c) + 2 <=? two53).

(** * mixed representations: duration<int64_t, P1>{c} op duration<double, P2>{y} and the reverse;
   the common representation is double *)
Definition id_common_m (a b : dty) : Z -> b64 -> out (b64 * b64) :=     (* (int64, P1), (double, P2) *)
  let k := (do t <- dcommon a b; Val (dconv_i a t, dconv_d b t)) in
  fun c y => do '(ca, cb) <- k; do u <- ca c; do v <- cb y; Val (u, v).
Definition di_common_m (a b : dty) : b64 -> Z -> out (b64 * b64) :=     (* (double, P1), (int64, P2) *)
  let k := (do t <- dcommon a b; Val (dconv_d a t, dconv_i b t)) in
  fun x c => do '(ca, cb) <- k; do u <- ca x; do v <- cb c; Val (u, v).
Definition id_plus_m (a b : dty) : Z -> b64 -> out b64 :=
  let tc := id_common_m a b in fun c y => do '(u, v) <- tc c y; Val (dadd u v).
Definition id_minus_m (a b : dty) : Z -> b64 -> out b64 :=
  let tc := id_common_m a b in fun c y => do '(u, v) <- tc c y; Val (dsub u v).
Definition id_lt_m (a b : dty) : Z -> b64 -> out bool :=
  let tc := id_common_m a b in fun c y => do '(u, v) <- tc c y; Val (dlt u v).
Definition id_eq_m (a b : dty) : Z -> b64 -> out bool :=
  let tc := id_common_m a b in fun c y => do '(u, v) <- tc c y; Val (deq u v).
Definition di_plus_m (a b : dty) : b64 -> Z -> out b64 :=
  let tc := di_common_m a b in fun x c => do '(u, v) <- tc x c; Val (dadd u v).
Definition di_minus_m (a b : dty) : b64 -> Z -> out b64 :=
  let tc := di_common_m a b in fun x c => do '(u, v) <- tc x c; Val (dsub u v).
Definition di_lt_m (a b : dty) : b64 -> Z -> out bool :=
  let tc := di_common_m a b in fun x c => do '(u, v) <- tc x c; Val (dlt u v).
Definition di_eq_m (a b : dty) : b64 -> Z -> out bool :=
  let tc := di_common_m a b in fun x c => do '(u, v) <- tc x c; Val (deq u v).

(* duration<int64_t, P>{c} * s, s * d, d / s with a double scalar s: CD = duration<double, P>;
   duration<double, P>{x} * k, d / k with an int64 scalar k (converted to double by the usual
   arithmetic conversions) *)
Definition is_mul_m (a : dty) : Z -> b64 -> out b64 :=
  let cv := dconv_i a a in fun c s => do u <- cv c; Val (dmul u s).
Definition is_div_m (a : dty) : Z -> b64 -> out b64 :=
  let cv := dconv_i a a in fun c s => do u <- cv c; Val (ddiv u s).
Definition ds_mul_m (x : b64) (k : Z) : b64 := dmul x (d_of_Z k).
Definition ds_div_m (x : b64) (k : Z) : b64 := ddiv x (d_of_Z k).
