(* C12 proofs, mixed representations: duration<int64_t, P1>{c1} with duration<double, P2> holding
   the whole number c2 — the common representation is double, both conversions are exact, so
   + - < == are the exact results. *)
From Coq Require Import ZArith Reals Bool Lia Lra ZifyBool Znumtheory.
From Flocq Require Import Core BinarySingleNaN.
From Tetl Require Import Lib.Base C12.Model C12.Spec C12.ProofsArith C12.ProofsCast C12.ProofsCommon
  C12.ProofsRound C12.FModel C12.FProofs C12.FProofs2 C12.FProofs3.
Local Open Scope Z_scope.

Section Mixed.
  Variables w1 n1 d1 w2 n2 d2 c1 c2 : Z.
  Hypothesis Hp1 : period_ok n1 d1 = true.
  Hypothesis Hp2 : period_ok n2 d2 = true.
  Hypothesis Hb : fboth_ok n1 d1 n2 d2 c1 c2.
  Let a := Dur w1 n1 d1.
  Let b := Dur w2 n2 d2.

  Lemma id_common_exact : exists u v,
    id_common_m a b c1 (d_of_Z c2) = Val (u, v)
    /\ is_finite u = true /\ is_finite v = true
    /\ B2R u = IZR (c1 * tk1 n1 d1 n2 d2) /\ B2R v = IZR (c2 * tk2 n1 d1 n2 d2).
  Proof.
    destruct Hb as (Hl & Ht1 & Ht2 & Hc1 & Hc2 & Hx & Hy).
    pose proof (common_period_ok _ _ _ _ Hp1 Hp2 Hl) as Hpc.
    destruct (tk_facts n1 d1 n2 d2 Hp1 Hp2) as (Hg & Hl0 & D1 & D2 & D3 & D4 & _).
    unfold id_common_m, dcommon, a, b. cbv zeta.
    rewrite common_m_spec by assumption. cbn [bind].
    destruct (dconv_i_exact w1 n1 d1 (Z.max w1 w2) (cnum n1 n2) (cden d1 d2) c1 Hp1 Hpc D1 D3 Ht1 Hc1 Hx)
      as (u & Eu & Fu & Ru).
    destruct (dconv_d_exact w2 n2 d2 (Z.max w1 w2) (cnum n1 n2) (cden d1 d2) c2 Hp2 Hpc D2 D4 Ht2 Hc2 Hy)
      as (v & Ev & Fv & Rv).
    rewrite Eu. cbn [bind]. rewrite Ev. cbn [bind].
    exists u, v. repeat split; assumption.
  Qed.

  Lemma id_ops_exact :
    (Z.abs (plus_spec n1 d1 n2 d2 c1 c2) <= two53 ->
       exists r, id_plus_m a b c1 (d_of_Z c2) = Val r /\ is_finite r = true
                 /\ B2R r = IZR (plus_spec n1 d1 n2 d2 c1 c2))
    /\ (Z.abs (minus_spec n1 d1 n2 d2 c1 c2) <= two53 ->
       exists r, id_minus_m a b c1 (d_of_Z c2) = Val r /\ is_finite r = true
                 /\ B2R r = IZR (minus_spec n1 d1 n2 d2 c1 c2))
    /\ id_lt_m a b c1 (d_of_Z c2) = Val (lt_spec n1 d1 n2 d2 c1 c2)
    /\ id_eq_m a b c1 (d_of_Z c2) = Val (eq_spec n1 d1 n2 d2 c1 c2).
  Proof.
    destruct id_common_exact as (u & v & E & Fu & Fv & Ru & Rv).
    destruct (scaled_values n1 d1 n2 d2 c1 c2 Hp1 Hp2) as (K & l & HK & Hl & Ex & Ey).
    unfold id_plus_m, id_minus_m, id_lt_m, id_eq_m. cbv zeta. fold a b. rewrite E. cbn [bind].
    split; [|split; [|split]].
    - intros Hs. unfold plus_spec in *. cbv zeta in *. rewrite in_common_l, in_common_r in *.
      destruct (dadd_exact u v _ _ Fu Fv Ru Rv Hs) as [R F]. eexists. split; [reflexivity|]. split; assumption.
    - intros Hs. unfold minus_spec in *. cbv zeta in *. rewrite in_common_l, in_common_r in *.
      destruct (dsub_exact u v _ _ Fu Fv Ru Rv Hs) as [R F]. eexists. split; [reflexivity|]. split; assumption.
    - f_equal. rewrite (dlt_exact u v _ _ Fu Fv Ru Rv). unfold lt_spec. exact (scaled_lt _ _ _ _ K l HK Hl Ex Ey).
    - f_equal. rewrite (deq_exact u v _ _ Fu Fv Ru Rv). unfold eq_spec. exact (scaled_eq _ _ _ _ K l HK Hl Ex Ey).
  Qed.
End Mixed.

(* a double -> double cast of a whole-valued count is the integer-source cast (same expression) *)
Lemma dd_cast_of_int a b c : dd_cast_m a b (d_of_Z c) = fcast_m a b c.
Proof. reflexivity. Qed.
