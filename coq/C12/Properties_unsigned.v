(* C12 — duration / time_point arithmetic with representation types of either signedness and of 8, 16, 32
   or 64 bits (int8_t .. int64_t, uint8_t .. uint64_t; LP64).

   Reading guide.  A representation type is a code r: +bits = signed, -bits = unsigned ([urep_ok]: the eight
   standard types).  [Dur r n d] models duration<Rep, ratio<n, d>>.  The u*_m functions (UModel.v) mirror the
   C++ including integral promotion, the usual arithmetic conversions, unsigned wrap-around and narrowing
   conversions; the *_spec functions are the exact rational arithmetic of Spec.v (they do not depend on the
   representation).  [crep_spec] is common_type_t<Rep1, Rep2> in the standard's words, [ufits r x] says that
   x is a value of the type r, [uwrap r x] is x reduced modulo 2^bits into r.  The u*_ok hypotheses are the
   documented domain: operands, the operands converted to the common type, and the exact result are
   representable.  All statements hold for ALL periods, ALL counts in that domain and ALL 64 pairs of types. *)
From Tetl Require Import Lib.Base C12.Model C12.Spec C12.UModel C12.USpec C12.ProofsArith C12.ProofsCast
  C12.ProofsCommon C12.ProofsRound C12.ProofsScalar C12.UProofs C12.UProofs2.
Local Open Scope Z_scope.

(* common_type_t<Rep1, Rep2> as the code computes it (conditional operator, promotion, usual arithmetic
   conversions) is the type the standard's wording yields - for each of the 8 x 8 pairs of types *)
Theorem C12_rep_common_type : forall r1 r2, urep_ok r1 = true -> urep_ok r2 = true ->
  common_rep r1 r2 = crep_spec r1 r2 /\ urep_ok (crep_spec r1 r2) = true.
Proof. exact common_rep_spec. Qed.

Theorem C12_common_type_mixed : forall r1 n1 d1 r2 n2 d2,
  urep_ok r1 = true -> urep_ok r2 = true ->
  period_ok n1 d1 = true -> period_ok n2 d2 = true -> cden d1 d2 <= max64 ->
  ucommon_m (Dur r1 n1 d1) (Dur r2 n2 d2) = Val (Dur (crep_spec r1 r2) (cnum n1 n2) (cden d1 d2)).
Proof.
  intros r1 n1 d1 r2 n2 d2 H1 H2 Hp1 Hp2 Hl. destruct (common_rep_spec r1 r2 H1 H2) as [<- _].
  apply ucommon_m_spec; assumption.
Qed.

(* conversion of both operands to the common type is exact (no rounding, no wrap-around) *)
Theorem C12_common_type_exact_mixed : forall r1 n1 d1 r2 n2 d2 c1 c2,
  urep_ok r1 = true -> urep_ok r2 = true -> period_ok n1 d1 = true -> period_ok n2 d2 = true ->
  uboth_ok r1 n1 d1 r2 n2 d2 c1 c2 = true ->
  uto_common_m (Dur r1 n1 d1) (Dur r2 n2 d2) c1 c2
  = Val (Dur (crep_spec r1 r2) (cnum n1 n2) (cden d1 d2), in_common n1 d1 n2 d2 c1, in_common n2 d2 n1 d1 c2).
Proof.
  intros r1 n1 d1 r2 n2 d2 c1 c2 H1 H2 Hp1 Hp2 Hb. destruct (common_rep_spec r1 r2 H1 H2) as [<- _].
  rewrite in_common_l, in_common_r. apply uto_common_m_spec; assumption.
Qed.

(** * + - / % and the six comparisons on two durations of any two integer representations *)
Theorem C12_plus_mixed : forall r1 n1 d1 r2 n2 d2,
  urep_ok r1 = true -> urep_ok r2 = true -> period_ok n1 d1 = true -> period_ok n2 d2 = true ->
  forall c1 c2, uplus_ok r1 n1 d1 r2 n2 d2 c1 c2 = true ->
  uadd_m (Dur r1 n1 d1) (Dur r2 n2 d2) c1 c2 = Val (plus_spec n1 d1 n2 d2 c1 c2).
Proof.
  intros r1 n1 d1 r2 n2 d2 H1 H2 Hp1 Hp2 c1 c2 Hok. apply uplus_m_spec; try assumption.
  unfold uplus_ok in Hok. cbv zeta in Hok. apply Bool.andb_true_iff in Hok. tauto.
Qed.

Theorem C12_minus_mixed : forall r1 n1 d1 r2 n2 d2,
  urep_ok r1 = true -> urep_ok r2 = true -> period_ok n1 d1 = true -> period_ok n2 d2 = true ->
  forall c1 c2, uminus_ok r1 n1 d1 r2 n2 d2 c1 c2 = true ->
  usub_m (Dur r1 n1 d1) (Dur r2 n2 d2) c1 c2 = Val (minus_spec n1 d1 n2 d2 c1 c2).
Proof.
  intros r1 n1 d1 r2 n2 d2 H1 H2 Hp1 Hp2 c1 c2 Hok. apply uminus_m_spec; try assumption.
  unfold uminus_ok in Hok. cbv zeta in Hok. apply Bool.andb_true_iff in Hok. tauto.
Qed.

Theorem C12_div_mod_mixed : forall r1 n1 d1 r2 n2 d2,
  urep_ok r1 = true -> urep_ok r2 = true -> period_ok n1 d1 = true -> period_ok n2 d2 = true ->
  forall c1 c2, udiv_ok r1 n1 d1 r2 n2 d2 c1 c2 = true ->
  udiv_m (Dur r1 n1 d1) (Dur r2 n2 d2) c1 c2 = Val (div_spec n1 d1 n2 d2 c1 c2)
  /\ umod_m (Dur r1 n1 d1) (Dur r2 n2 d2) c1 c2 = Val (mod_spec n1 d1 n2 d2 c1 c2).
Proof.
  intros r1 n1 d1 r2 n2 d2 H1 H2 Hp1 Hp2 c1 c2 Hok. apply udiv_mod_m_spec; try assumption.
  unfold udiv_ok in Hok. cbv zeta in Hok. rewrite !Bool.andb_true_iff in Hok. tauto.
Qed.

Theorem C12_compare_mixed : forall r1 n1 d1 r2 n2 d2,
  urep_ok r1 = true -> urep_ok r2 = true -> period_ok n1 d1 = true -> period_ok n2 d2 = true ->
  forall c1 c2, uboth_ok r1 n1 d1 r2 n2 d2 c1 c2 = true ->
  let a := Dur r1 n1 d1 in let b := Dur r2 n2 d2 in
  ueq_m a b c1 c2 = Val (eq_spec n1 d1 n2 d2 c1 c2)
  /\ une_m a b c1 c2 = Val (negb (eq_spec n1 d1 n2 d2 c1 c2))
  /\ ult_m a b c1 c2 = Val (lt_spec n1 d1 n2 d2 c1 c2)
  /\ ule_m a b c1 c2 = Val (negb (lt_spec n2 d2 n1 d1 c2 c1))
  /\ ugt_m a b c1 c2 = Val (lt_spec n2 d2 n1 d1 c2 c1)
  /\ uge_m a b c1 c2 = Val (negb (lt_spec n1 d1 n2 d2 c1 c2)).
Proof. intros r1 n1 d1 r2 n2 d2 H1 H2 Hp1 Hp2 c1 c2 Hb. apply ucompare_spec; assumption. Qed.

(* + and - on every pair of operands that converts to the common type: undefined behaviour exactly when
   the common representation is int or long and the exact result does not fit it (the hypotheses of
   C12_plus_mixed / C12_minus_mixed are tight); for every other common representation - unsigned, or narrower
   than int - never undefined: the exact result modulo 2^bits *)
Theorem C12_plus_minus_mixed_total : forall r1 n1 d1 r2 n2 d2,
  urep_ok r1 = true -> urep_ok r2 = true -> period_ok n1 d1 = true -> period_ok n2 d2 = true ->
  forall c1 c2, uboth_ok r1 n1 d1 r2 n2 d2 c1 c2 = true ->
  let rc := crep_spec r1 r2 in
  uadd_m (Dur r1 n1 d1) (Dur r2 n2 d2) c1 c2
    = (if negb (overflow_is_ub rc) || ufits rc (plus_spec n1 d1 n2 d2 c1 c2)
       then Val (uwrap rc (plus_spec n1 d1 n2 d2 c1 c2)) else Ub SignedOverflow)
  /\ usub_m (Dur r1 n1 d1) (Dur r2 n2 d2) c1 c2
    = (if negb (overflow_is_ub rc) || ufits rc (minus_spec n1 d1 n2 d2 c1 c2)
       then Val (uwrap rc (minus_spec n1 d1 n2 d2 c1 c2)) else Ub SignedOverflow).
Proof. intros r1 n1 d1 r2 n2 d2 H1 H2 Hp1 Hp2 c1 c2 Hb. apply uplus_minus_total; assumption. Qed.

(** * time_point + duration, duration + time_point, time_point - duration, time_point - time_point *)
Theorem C12_time_point_arith_mixed : forall r1 n1 d1 r2 n2 d2,
  urep_ok r1 = true -> urep_ok r2 = true -> period_ok n1 d1 = true -> period_ok n2 d2 = true ->
  forall c1 c2,
  let a := Dur r1 n1 d1 in let b := Dur r2 n2 d2 in
  (uplus_ok r1 n1 d1 r2 n2 d2 c1 c2 = true ->
     utp_plus_m a b c1 c2 = Val (plus_spec n1 d1 n2 d2 c1 c2)
     /\ utp_plus_r_m b a c2 c1 = Val (plus_spec n1 d1 n2 d2 c1 c2))
  /\ (uminus_ok r1 n1 d1 r2 n2 d2 c1 c2 = true ->
     utp_minus_m a b c1 c2 = Val (minus_spec n1 d1 n2 d2 c1 c2)
     /\ utp_diff_m a b c1 c2 = Val (minus_spec n1 d1 n2 d2 c1 c2)).
Proof.
  intros r1 n1 d1 r2 n2 d2 H1 H2 Hp1 Hp2 c1 c2. cbv zeta.
  destruct (utp_ops_are_duration_ops (Dur r1 n1 d1) (Dur r2 n2 d2) c1 c2) as (E1 & E2 & E3 & E4).
  rewrite E1, E2, E3, E4. split; intros H; split;
    first [apply C12_plus_mixed|apply C12_minus_mixed]; assumption.
Qed.

(** * duration * rep, rep * duration (same function), duration / rep, duration % rep *)
Theorem C12_scalar_ops_mixed : forall r n d rs c s,
  urep_ok r = true -> urep_ok rs = true -> period_ok n d = true -> uscalar_ok r rs c s = true ->
  let rc := crep_spec r rs in
  (ufits rc (c * s) = true -> usmul_m (Dur r n d) rs c s = Val (c * s))
  /\ (s <> 0 -> ufits rc (Z.quot c s) = true ->
      usdiv_m (Dur r n d) rs c s = Val (Z.quot c s) /\ usmod_m (Dur r n d) rs c s = Val (Z.rem c s)).
Proof. exact uscalar_ops_spec. Qed.

(* duration * scalar for ALL representable operands: the product is formed in the type the usual arithmetic conversions
   give for (common representation, scalar type); when that type is signed - int or long, in particular for two
   uint16_t or uint8_t operands, which are promoted to int - a product outside it is undefined behaviour; otherwise,
   and always for an unsigned 32/64-bit type, the result is the exact product modulo 2^bits *)
Theorem C12_scalar_mul_mixed_total : forall r n d rs c s,
  urep_ok r = true -> urep_ok rs = true -> period_ok n d = true -> uscalar_ok r rs c s = true ->
  let rc := crep_spec r rs in
  let t := arith_conv_spec rc rs in
  usmul_m (Dur r n d) rs c s
  = if usigned t && negb (ufits t (c * s)) then Ub SignedOverflow else Val (uwrap rc (c * s)).
Proof. exact usmul_total. Qed.

(** * member operators of duration and time_point *)
Theorem C12_member_ops_mixed : forall r c x, urep_ok r = true -> ufits r c = true -> ufits r x = true ->
  (ufits r (- c) = true -> uneg_m r c = Val (- c))
  /\ uuplus_m r c = Val c
  /\ (ufits r (c + 1) = true -> uinc_m r c = Val (c + 1) /\ utp_inc_m r c = Val (c + 1))
  /\ (ufits r (c - 1) = true -> udec_m r c = Val (c - 1) /\ utp_dec_m r c = Val (c - 1))
  /\ (ufits r (c + x) = true -> uadd_assign_m r c x = Val (c + x) /\ utp_add_assign_m r c x = Val (c + x))
  /\ (ufits r (c - x) = true -> usub_assign_m r c x = Val (c - x) /\ utp_sub_assign_m r c x = Val (c - x))
  /\ (ufits r (c * x) = true -> umul_assign_m r c x = Val (c * x))
  /\ (x <> 0 -> ufits r (Z.quot c x) = true ->
        udiv_assign_m r c x = Val (Z.quot c x) /\ umod_assign_m r c x = Val (Z.rem c x)).
Proof. exact umember_ops_spec. Qed.

(** * duration_cast between any two integer representations: truncation toward zero *)
Theorem C12_duration_cast_mixed : forall r1 n1 d1 r2 n2 d2 c,
  urep_ok r1 = true -> urep_ok r2 = true -> period_ok n1 d1 = true -> period_ok n2 d2 = true ->
  ucast_ok r1 n1 d1 r2 n2 d2 c = true ->
  ucast_m (Dur r1 n1 d1) (Dur r2 n2 d2) c = Val (cast_spec n1 d1 n2 d2 c).
Proof. exact ucast_m_spec. Qed.

(** * floor, ceil, round (ties to even), abs and the converting constructor between any two integer representations *)
Theorem C12_rounding_mixed : forall r1 n1 d1 r2 n2 d2,
  urep_ok r1 = true -> urep_ok r2 = true -> period_ok n1 d1 = true -> period_ok n2 d2 = true ->
  forall c,
  (ufloor_ok r1 n1 d1 r2 n2 d2 c = true -> ufloor_m (Dur r1 n1 d1) (Dur r2 n2 d2) c = Val (floor_spec n1 d1 n2 d2 c))
  /\ (uceil_ok r1 n1 d1 r2 n2 d2 c = true -> uceil_m (Dur r1 n1 d1) (Dur r2 n2 d2) c = Val (ceil_spec n1 d1 n2 d2 c))
  /\ (uround_ok r1 n1 d1 r2 n2 d2 c = true -> uround_m (Dur r1 n1 d1) (Dur r2 n2 d2) c = Val (round_spec n1 d1 n2 d2 c)).
Proof.
  intros r1 n1 d1 r2 n2 d2 H1 H2 Hp1 Hp2 c. split; [|split]; intros H.
  - apply ufloor_m_spec; assumption.
  - apply uceil_m_spec; assumption.
  - apply uround_m_spec; assumption.
Qed.

(* abs is constrained to signed representations ([time.duration.alg]); for those, |c| unless c is the most
   negative value *)
Theorem C12_abs_mixed : forall r n d c, urep_ok r = true -> period_ok n d = true ->
  (usigned r = false -> uabs_m (Dur r n d) c = IllFormed)
  /\ (uabs_ok r c = true -> uabs_m (Dur r n d) c = Val (abs_spec c)).
Proof. exact uabs_m_spec. Qed.

(* participation: the periods alone decide (as for int / long); conversion is exact whenever the source count, the
   count in the computation type common_type_t<Rep, Rep2, intmax_t>, the product and the result are representable *)
Theorem C12_converting_constructor_mixed : forall r1 n1 d1 r2 n2 d2,
  urep_ok r1 = true -> urep_ok r2 = true -> period_ok n1 d1 = true -> period_ok n2 d2 = true ->
  uconvertible_m (Dur r1 n1 d1) (Dur r2 n2 d2)
  = Val (((n1 * d2) mod (d1 * n2) =? 0) && ((n1 * d2) / (d1 * n2) <=? max64))
  /\ forall c, (n1 * d2) mod (d1 * n2) = 0 -> ucast_ok r1 n1 d1 r2 n2 d2 c = true ->
       uconv_m (Dur r1 n1 d1) (Dur r2 n2 d2) c = Val (cast_spec n1 d1 n2 d2 c)
       /\ cast_spec n1 d1 n2 d2 c * (d1 * n2) = c * n1 * d2.
Proof.
  intros r1 n1 d1 r2 n2 d2 H1 H2 Hp1 Hp2. split.
  - apply uconvertible_m_spec; assumption.
  - intros c He Hc. apply uconv_m_spec; assumption.
Qed.

(** * Model.v / Spec.v (int and long representations) are the special case: same common representation, same
      domain predicates, and on that domain both models return the same value *)
Theorem C12_mixed_extends_signed : forall w1 n1 d1 w2 n2 d2,
  rep_ok w1 = true -> rep_ok w2 = true -> period_ok n1 d1 = true -> period_ok n2 d2 = true ->
  urep_ok w1 = true /\ urep_ok w2 = true /\ crep_spec w1 w2 = Z.max w1 w2
  /\ forall c1 c2,
     (uplus_ok w1 n1 d1 w2 n2 d2 c1 c2 = plus_ok w1 n1 d1 w2 n2 d2 c1 c2
      /\ uminus_ok w1 n1 d1 w2 n2 d2 c1 c2 = minus_ok w1 n1 d1 w2 n2 d2 c1 c2
      /\ udiv_ok w1 n1 d1 w2 n2 d2 c1 c2 = div_ok w1 n1 d1 w2 n2 d2 c1 c2)
     /\ (plus_ok w1 n1 d1 w2 n2 d2 c1 c2 = true ->
         uadd_m (Dur w1 n1 d1) (Dur w2 n2 d2) c1 c2 = plus_m (Dur w1 n1 d1) (Dur w2 n2 d2) c1 c2)
     /\ (minus_ok w1 n1 d1 w2 n2 d2 c1 c2 = true ->
         usub_m (Dur w1 n1 d1) (Dur w2 n2 d2) c1 c2 = minus_m (Dur w1 n1 d1) (Dur w2 n2 d2) c1 c2)
     /\ (div_ok w1 n1 d1 w2 n2 d2 c1 c2 = true ->
         udiv_m (Dur w1 n1 d1) (Dur w2 n2 d2) c1 c2 = div_m (Dur w1 n1 d1) (Dur w2 n2 d2) c1 c2
         /\ umod_m (Dur w1 n1 d1) (Dur w2 n2 d2) c1 c2 = mod_m (Dur w1 n1 d1) (Dur w2 n2 d2) c1 c2).
Proof.
  intros w1 n1 d1 w2 n2 d2 Hw1 Hw2 Hp1 Hp2.
  destruct (signed_special_case w1 w2 Hw1 Hw2) as (U1 & U2 & Ec & _).
  repeat split; try assumption.
  - apply signed_ok_agree; assumption.
  - apply signed_ok_agree; assumption.
  - apply signed_ok_agree; assumption.
  - intros H. rewrite plus_m_spec by assumption. apply C12_plus_mixed; try assumption.
    destruct (signed_ok_agree w1 n1 d1 w2 n2 d2 c1 c2 Hw1 Hw2) as (_ & -> & _). exact H.
  - intros H. rewrite minus_m_spec by assumption. apply C12_minus_mixed; try assumption.
    destruct (signed_ok_agree w1 n1 d1 w2 n2 d2 c1 c2 Hw1 Hw2) as (_ & _ & -> & _). exact H.
  - rewrite div_m_spec by assumption. apply C12_div_mod_mixed; try assumption.
    destruct (signed_ok_agree w1 n1 d1 w2 n2 d2 c1 c2 Hw1 Hw2) as (_ & _ & _ & ->). assumption.
  - rewrite mod_m_spec by assumption. apply C12_div_mod_mixed; try assumption.
    destruct (signed_ok_agree w1 n1 d1 w2 n2 d2 c1 c2 Hw1 Hw2) as (_ & _ & _ & ->). assumption.
Qed.

Definition C12_group_mixed_representations :=
  (conj C12_rep_common_type (conj C12_common_type_mixed (conj C12_common_type_exact_mixed (conj C12_plus_mixed
   (conj C12_minus_mixed (conj C12_div_mod_mixed (conj C12_compare_mixed (conj C12_plus_minus_mixed_total
   (conj C12_time_point_arith_mixed (conj C12_scalar_ops_mixed (conj C12_scalar_mul_mixed_total (conj C12_member_ops_mixed
   (conj C12_duration_cast_mixed (conj C12_rounding_mixed (conj C12_abs_mixed (conj C12_converting_constructor_mixed C12_mixed_extends_signed)))))))))))))))).
Print Assumptions C12_group_mixed_representations.

(** * non-vacuity, and what the theorems distinguish.  time_point<ms, int64>{10000} - duration<uint32_t>{5}:
      the common type is milliseconds/int64, the subtrahend converts to 5000 and the result is 5000 ms.
      Negating the subtrahend in its own type first (-d wraps to 4294967291 s) and adding gives
      4294967301000 ms: [tp - d] is not [tp + (-d)] for an unsigned representation narrower than the result. *)
Example C12_unsigned_nonvacuous :
  uminus_ok 64 1 1000 (-32) 1 1 10000 5 = true
  /\ utp_minus_m (Dur 64 1 1000) (Dur (-32) 1 1) 10000 5 = Val 5000
  /\ uneg_m (-32) 5 = Val 4294967291
  /\ utp_plus_m (Dur 64 1 1000) (Dur (-32) 1 1) 10000 4294967291 = Val 4294967301000
  /\ uplus_ok (-16) 1 1 (-16) 1 1 65535 1 = false
  /\ uadd_m (Dur (-16) 1 1) (Dur (-16) 1 1) 65535 1 = Val 0
  /\ crep_spec (-16) 16 = 32 /\ crep_spec (-32) 32 = -32 /\ crep_spec 64 (-32) = 64 /\ crep_spec (-64) 64 = -64
  /\ crep_spec (-8) (-8) = -8
  /\ uplus_ok 32 60 1 (-32) 1 1 (-1) 61 = false
  /\ uadd_m (Dur 32 60 1) (Dur (-32) 1 1) (-1) 61 = Val 1
  /\ udiv_ok (-64) 1 1000 8 1 1 18446744073709551615 127 = true
  /\ udiv_m (Dur (-64) 1 1000) (Dur 8 1 1) 18446744073709551615 127 = Val 145249953336295
  /\ uscalar_ok (-16) (-16) 65535 65535 = true
  /\ usmul_m (Dur (-16) 1 1) (-16) 65535 65535 = Ub SignedOverflow
  /\ ucast_ok (-64) 1 1 (-64) 60 1 18446744073709551615 = true
  /\ ucast_m (Dur (-64) 1 1) (Dur (-64) 60 1) 18446744073709551615 = Val 307445734561825860
  /\ uround_ok (-16) 1 1000 (-8) 1 1 2500 = true
  /\ uround_m (Dur (-16) 1 1000) (Dur (-8) 1 1) 2500 = Val 2
  /\ uround_m (Dur (-16) 1 1000) (Dur (-8) 1 1) 3500 = Val 4
  /\ ufloor_ok 8 1 1 (-64) 60 1 (-1) = false
  /\ uabs_ok 8 (-127) = true /\ uabs_m (Dur 8 1 1) (-127) = Val 127 /\ uabs_m (Dur (-8) 1 1) 5 = IllFormed.
Proof. vm_compute. repeat split; reflexivity. Qed.
