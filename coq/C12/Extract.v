From Flocq Require Import Core BinarySingleNaN.
From Tetl Require Import Lib.Base C12.Model C12.Spec C12.FModel C12.UModel C12.USpec C12.FGuard C12.ModelChain C12.SpecChain.
Require Extraction.
Require Import ExtrOcamlBasic.
Extraction Language OCaml.
Extraction "C12_model.ml" wire_anchor
  gcd_m lcm_m ratio_m ratio_divide_m mk_dty common_m duration_cast_m convertible_m conv_m
  plus_m minus_m div_m mod_m eq_m ne_m lt_m le_m gt_m ge_m
  neg_m uplus_m inc_m dec_m add_assign_m sub_assign_m mul_assign_m div_assign_m mod_assign_m
  floor_m ceil_m round_m abs_m smul_m sdiv_m smod_m tp_plus_m tp_plus_r_m tp_minus_m tp_diff_m
  tp_cast_m tp_floor_m tp_ceil_m tp_round_m tp_conv_m tp_add_assign_m tp_sub_assign_m tp_inc_m tp_dec_m
  tp_eq_m tp_lt_m tp_le_m tp_gt_m tp_ge_m typedefs_m
  cast_spec floor_spec ceil_spec round_spec abs_spec cnum cden ticks in_common
  plus_spec minus_spec div_spec mod_spec eq_spec lt_spec typedefs_spec
  d_of_Z enc64 dec64 fcast_m fconv_m fcast_spec fspec_ok
  d_int_of fsrc_ok farith_ok dd_cast_m di_cast_m di_floor_m di_ceil_m di_round_m dd_plus_m dd_minus_m dd_div_m dd_lt_m dd_eq_m
  id_plus_m id_minus_m id_lt_m id_eq_m di_minus_m di_lt_m is_mul_m is_div_m ds_mul_m ds_div_m
  rty_ok rmin rmax cvt common_rep cr3 ucommon_m uconv_m uconvertible_m ucast_m uadd_m usub_m udiv_m umod_m
  ueq_m une_m ult_m ule_m ugt_m uge_m uneg_m uuplus_m uinc_m udec_m uadd_assign_m usub_assign_m umul_assign_m
  udiv_assign_m umod_assign_m usmul_m usdiv_m usmod_m ufloor_m uceil_m uround_m uabs_m
  utp_plus_m utp_plus_r_m utp_minus_m utp_diff_m utp_add_assign_m utp_sub_assign_m utp_inc_m utp_dec_m
  utp_eq_m utp_ne_m utp_lt_m utp_le_m utp_gt_m utp_ge_m
  urep_ok crep_spec ufits uboth_ok uplus_ok uminus_ok udiv_ok uscalar_ok ucast_ok uwrap overflow_is_ub
  ufloor_ok uceil_ok uround_ok uabs_ok
  all_mops effect_m result_m call_m chain_m tp_call_m tp_chain_m returns_lvalue_m tp_returns_lvalue_m tp_has_op
  effect_spec returns_this_spec value_spec chain_spec step_ok chain_ok tp_op_spec
  fits rep_ok period_ok cast_ok common_ok both_ok plus_ok minus_ok div_ok floor_ok ceil_ok round_ok abs_ok.
