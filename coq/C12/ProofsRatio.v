(* C12 proofs, part 8: ratio<N, D> for operands of either sign (|N|, |D| <= INTMAX_MAX, D <> 0):
   num/den are the sign-normalised reduced fraction. *)
From Tetl Require Import Lib.Base C12.Model C12.Spec C12.ProofsArith.
From Coq Require Import ZifyBool Znumtheory.
Local Open Scope Z_scope.

Lemma uabs64_abs v : - max64 <= v <= max64 -> uabs64 v = Z.abs v.
Proof.
  unfold max64. intros H. destruct (Z.neg_nonneg_cases v) as [Hn|Hp].
  - unfold uabs64. destruct (v <? 0) eqn:E; [|lia].
    unfold wrapu64, two64.
    assert (E1 : v mod 18446744073709551616 = v + 18446744073709551616).
    { symmetry. apply (Z.mod_unique v _ (-1)); [left; lia|ring]. }
    rewrite E1.
    assert (E2 : (0 - (v + 18446744073709551616)) mod 18446744073709551616 = - v).
    { symmetry. apply (Z.mod_unique _ _ (-1)); [left; lia|ring]. }
    rewrite E2. lia.
  - rewrite uabs64_id by (unfold max64; lia). lia.
Qed.

Lemma gcd_m_signed m n : - max64 <= m <= max64 -> - max64 <= n <= max64 -> gcd_m m n = Val (Z.gcd m n).
Proof.
  intros Hm Hn. unfold gcd_m. rewrite !uabs64_abs by assumption.
  rewrite gcd_loop_64 by lia. cbn [bind]. rewrite Z.gcd_abs_l, Z.gcd_abs_r.
  assert (Hg : 0 <= Z.gcd m n <= max64).
  { split; [apply Z.gcd_nonneg|].
    destruct (Z.eq_dec m 0) as [E|E].
    - subst m. rewrite Z.gcd_0_l. lia.
    - rewrite <- Z.gcd_abs_l. apply Z.le_trans with (Z.abs m); [|lia].
      apply Z.divide_pos_le; [lia|apply Z.gcd_divide_l]. }
  rewrite wraps64_id by exact Hg. reflexivity.
Qed.

Lemma sgn_unit D : D <> 0 -> Z.sgn D = 1 \/ Z.sgn D = -1.
Proof. intros H. destruct D; [contradiction|left|right]; reflexivity. Qed.

Lemma gcd_unit_abs s a b : s = 1 \/ s = -1 -> Z.gcd a b = 1 -> Z.gcd (s * a) (Z.abs b) = 1.
Proof.
  intros [->| ->] H; rewrite Z.gcd_abs_r.
  - rewrite Z.mul_1_l. exact H.
  - replace (-1 * a) with (- a) by ring. rewrite Z.gcd_opp_l. exact H.
Qed.

Lemma sgn_of_multiple N n' g : 0 < g -> N = n' * g -> Z.sgn N = Z.sgn n'.
Proof. intros Hg E. rewrite E, Z.sgn_mul, (Z.sgn_pos g) by exact Hg. ring. Qed.

(* sgn N * sgn D * |n'| = sgn D * n'   and   |d'| = sgn D * d' *)
Lemma num_form N D n' d' g : 0 < g -> N = n' * g -> D = d' * g ->
  Z.sgn N * Z.sgn D * Z.abs n' = Z.sgn D * n'.
Proof.
  intros Hg En Ed. rewrite (sgn_of_multiple N n' g Hg En).
  replace (Z.sgn n' * Z.sgn D * Z.abs n') with (Z.sgn D * (Z.abs n' * Z.sgn n')) by ring.
  rewrite Z.abs_sgn. reflexivity.
Qed.

Lemma abs_form D d' g : 0 < g -> D = d' * g -> Z.abs d' = Z.sgn D * d'.
Proof.
  intros Hg Ed. rewrite (sgn_of_multiple D d' g Hg Ed). rewrite Z.mul_comm. symmetry. apply Z.sgn_abs.
Qed.

Lemma ratio_m_signed N D : D <> 0 -> - max64 <= N <= max64 -> - max64 <= D <= max64 ->
  let g := Z.gcd N D in
  ratio_m N D = Val (Z.sgn N * Z.sgn D * (Z.abs N / g), Z.abs D / g)
  /\ 0 < Z.abs D / g
  /\ Z.gcd (Z.sgn N * Z.sgn D * (Z.abs N / g)) (Z.abs D / g) = 1
  /\ (Z.sgn N * Z.sgn D * (Z.abs N / g)) * D = N * (Z.abs D / g).
Proof.
  intros HD HN HDb g.
  assert (Hg : 0 < g).
  { pose proof (Z.gcd_nonneg N D). assert (g <> 0) by (unfold g; intros E; apply Z.gcd_eq_0_r in E; contradiction). unfold g in *. lia. }
  destruct (Z.gcd_divide_l N D) as [n' En]. destruct (Z.gcd_divide_r N D) as [d' Ed]. fold g in En, Ed.
  assert (EaN : Z.abs N = Z.abs n' * g) by (rewrite En at 1; rewrite Z.abs_mul, (Z.abs_eq g) by lia; reflexivity).
  assert (EaD : Z.abs D = Z.abs d' * g) by (rewrite Ed at 1; rewrite Z.abs_mul, (Z.abs_eq g) by lia; reflexivity).
  assert (QN : Z.abs N / g = Z.abs n') by (rewrite EaN; apply Z.div_mul; lia).
  assert (QD : Z.abs D / g = Z.abs d') by (rewrite EaD; apply Z.div_mul; lia).
  assert (Hd' : d' <> 0) by (intros E; subst d'; lia).
  assert (Hcop : Z.gcd n' d' = 1).
  { assert (E : Z.gcd (N / g) (D / g) = 1) by (apply Z.gcd_div_gcd; [lia|reflexivity]).
    rewrite En, Ed in E at 1. rewrite !Z.div_mul in E by lia. exact E. }
  rewrite QN, QD. split; [|split; [lia|split]].
  - unfold ratio_m. rewrite gcd_m_signed by assumption. fold g. cbn [bind].
    destruct ((D =? 0) || (g =? 0)) eqn:E0; [lia|].
    rewrite !cx64_ok by (unfold min64, max64 in *; lia). cbn [bind].
    assert (Es : forall v, sign_m v = if v <? 0 then -1 else 1) by reflexivity.
    f_equal. f_equal.
    + rewrite EaN. rewrite Z.mul_assoc. rewrite Z.quot_mul by lia.
      assert (ESN : sign_m N * Z.abs n' = Z.sgn N * Z.abs n').
      { rewrite Es. destruct (N <? 0) eqn:EN.
        - apply Z.ltb_lt in EN. rewrite Z.sgn_neg by exact EN. reflexivity.
        - apply Z.ltb_ge in EN. destruct (Z.eq_dec N 0) as [E|E].
          + assert (n' = 0) by (rewrite E in En; symmetry in En; apply Z.mul_eq_0 in En; destruct En; [assumption|lia]).
            subst n'. rewrite !Z.mul_0_r. reflexivity.
          + rewrite Z.sgn_pos by lia. reflexivity. }
      assert (ESD : sign_m D = Z.sgn D).
      { rewrite Es. destruct (D <? 0) eqn:ED.
        - apply Z.ltb_lt in ED. rewrite Z.sgn_neg by exact ED. reflexivity.
        - apply Z.ltb_ge in ED. rewrite Z.sgn_pos by lia. reflexivity. }
      rewrite ESD. replace (sign_m N * Z.sgn D * Z.abs n') with (Z.sgn D * (sign_m N * Z.abs n')) by ring.
      rewrite ESN. ring.
    + rewrite EaD. rewrite Z.quot_mul by lia. reflexivity.
  - (* lowest terms *)
    rewrite (num_form N D n' d' g) by assumption.
    apply gcd_unit_abs; [apply sgn_unit; exact HD|exact Hcop].
  - rewrite (num_form N D n' d' g) by assumption.
    rewrite (abs_form D d' g) by assumption.
    generalize (Z.sgn D). intros sD. rewrite En, Ed. ring.
Qed.
