(* C12 — floating-point target representation (duration<double, P2> from an integer-count
   duration): property theorems.  These theorems talk about real numbers (Flocq's B2R), so they
   depend on the axioms the Coq standard library declares for the classical reals
   (ClassicalDedekindReals.sig_forall_dec, sig_not_dec, FunctionalExtensionality.
   functional_extensionality_dep) — printed below each theorem and named in manifest.json.

   [rnd64] is rounding to nearest, ties to even, in IEEE-754 binary64; [fbounds] says that the
   count, the numerator and denominator of the reduced conversion factor and count * numerator are
   at most 2^53 in magnitude (so every intermediate the C++ forms in double is exact and only the
   final division rounds). *)
From Coq Require Import ZArith Reals.
From Flocq Require Import Core BinarySingleNaN.
From Tetl Require Import Lib.Base C12.Model C12.Spec C12.ProofsCast C12.ProofsAlgebra C12.FModel C12.FProofs.
Local Open Scope Z_scope.

(* duration_cast<duration<double, n2/d2>>(duration<Int, n1/d1>{c}) and the converting constructor
   return the exact rational c*n1*d2/(d1*n2) rounded once: a finite double, never NaN/inf *)
Theorem C12_float_cast_correctly_rounded : forall w1 n1 d1 w2 n2 d2 c,
  period_ok n1 d1 = true -> period_ok n2 d2 = true -> fbounds n1 d1 n2 d2 c ->
  (exists r, fcast_m (Dur w1 n1 d1) (Dur w2 n2 d2) c = Val r /\ is_finite r = true
             /\ B2R r = rnd64 (IZR (c * n1 * d2) / IZR (d1 * n2)))
  /\ (exists r, fconv_m (Dur w1 n1 d1) (Dur w2 n2 d2) c = Val r /\ is_finite r = true
             /\ B2R r = rnd64 (IZR (c * n1 * d2) / IZR (d1 * n2))).
Proof.
  intros w1 n1 d1 w2 n2 d2 c Hp1 Hp2 Hb. split.
  - apply fcast_m_spec; assumption.
  - apply fconv_m_spec; assumption.
Qed.
Print Assumptions C12_float_cast_correctly_rounded.

(* hence exact whenever the exact result is a whole number (of magnitude <= 2^53): the value of
   the integer duration_cast (which is then exact too, C12_conversion_laws) *)
Theorem C12_float_cast_exact_on_integers : forall w1 n1 d1 w2 n2 d2 c,
  period_ok n1 d1 = true -> period_ok n2 d2 = true -> fbounds n1 d1 n2 d2 c ->
  (c * n1 * d2) mod (d1 * n2) = 0 -> Z.abs (cast_spec n1 d1 n2 d2 c) <= two53 ->
  (exists r, fcast_m (Dur w1 n1 d1) (Dur w2 n2 d2) c = Val r /\ is_finite r = true
             /\ B2R r = IZR (cast_spec n1 d1 n2 d2 c))
  /\ (exists r, fconv_m (Dur w1 n1 d1) (Dur w2 n2 d2) c = Val r /\ is_finite r = true
             /\ B2R r = IZR (cast_spec n1 d1 n2 d2 c)).
Proof.
  intros w1 n1 d1 w2 n2 d2 c Hp1 Hp2 Hb Hm Hq.
  destruct (fcast_m_spec w1 n1 d1 w2 n2 d2 c Hp1 Hp2 Hb) as (r & E & F & R).
  destruct (fconv_m_spec w1 n1 d1 w2 n2 d2 c Hp1 Hp2 Hb) as (r' & E' & F' & R').
  destruct (fpos n1 d1 n2 d2 Hp1 Hp2) as [_ HB].
  destruct (exact_all_equal _ _ HB Hm) as (Eq & _ & _).
  unfold cast_spec in *. rewrite Eq in *.
  rewrite rnd_exact_integer in R, R' by assumption.
  split; [exists r|exists r']; repeat split; assumption.
Qed.
Print Assumptions C12_float_cast_exact_on_integers.

(* the computable specification used by the correspondence run (one correctly rounded division of
   the exactly represented numerator and denominator) is that once-rounded rational *)
Theorem C12_float_spec_is_rounded_rational : forall n1 d1 n2 d2 c,
  0 < d1 * n2 -> fspec_ok n1 d1 n2 d2 c = true ->
  B2R (fcast_spec n1 d1 n2 d2 c) = rnd64 (IZR (c * n1 * d2) / IZR (d1 * n2))
  /\ is_finite (fcast_spec n1 d1 n2 d2 c) = true.
Proof. exact fcast_spec_correct. Qed.
Print Assumptions C12_float_spec_is_rounded_rational.

(* non-vacuity: 1500 ms -> 1.5 s; 90 min -> 1.5 h; -2^31 ticks of 1001/30000 s in thirds of a second *)
Definition bits_of (o : out b64) : Z := match o with Val r => enc64 r | _ => -1 end.
Example C12_float_nonvacuous :
  fbounds 1 1000 1 1 1500 /\ fbounds 60 1 3600 1 90 /\ fbounds 1001 30000 1 3 (-2147483648)
  /\ fspec_ok 1001 30000 1 3 (-2147483648) = true
  /\ bits_of (fcast_m (Dur 64 1 1000) (Dur 64 1 1) 1500) = 4609434218613702656   (* 1.5 *)
  /\ bits_of (fconv_m (Dur 32 60 1) (Dur 64 3600 1) 90) = 4609434218613702656
  /\ bits_of (fcast_m (Dur 64 1001 30000) (Dur 64 1 3) (-2147483648))
     = enc64 (fcast_spec 1001 30000 1 3 (-2147483648)).
Proof. unfold fbounds. vm_compute. repeat split; intros; discriminate. Qed.
