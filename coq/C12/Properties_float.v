(* C12 — floating-point target representation (duration<double, P2> from an integer-count
   duration): property theorems.  These theorems talk about real numbers (Flocq's B2R), so they
   depend on the axioms the Coq standard library declares for the classical reals
   (ClassicalDedekindReals.sig_forall_dec, sig_not_dec, FunctionalExtensionality.
   functional_extensionality_dep) — printed below each theorem and named in manifest.json.

   [rnd64] is rounding to nearest, ties to even, in IEEE-754 binary64; [fbounds] says that the
   count, the numerator and denominator of the reduced conversion factor and count * numerator are
   at most 2^53 in magnitude (so every intermediate the C++ forms in double is exact and only the
   final division rounds). *)
From Coq Require Import ZArith Reals.
From Flocq Require Import Core BinarySingleNaN.
From Tetl Require Import Lib.Base C12.Model C12.Spec C12.ProofsCast C12.ProofsAlgebra C12.FModel C12.FProofs C12.FProofs2 C12.FProofs3 C12.FProofs4 C12.FProofs5 C12.FProofs6 C12.FGuard.
Local Open Scope Z_scope.

(* duration_cast<duration<double, n2/d2>>(duration<Int, n1/d1>{c}) and the converting constructor
   return the exact rational c*n1*d2/(d1*n2) rounded once: a finite double, never NaN/inf *)
Theorem C12_float_cast_correctly_rounded : forall w1 n1 d1 w2 n2 d2 c,
  period_ok n1 d1 = true -> period_ok n2 d2 = true -> fbounds n1 d1 n2 d2 c ->
  (exists r, fcast_m (Dur w1 n1 d1) (Dur w2 n2 d2) c = Val r /\ is_finite r = true
             /\ B2R r = rnd64 (IZR (c * n1 * d2) / IZR (d1 * n2)))
  /\ (exists r, fconv_m (Dur w1 n1 d1) (Dur w2 n2 d2) c = Val r /\ is_finite r = true
             /\ B2R r = rnd64 (IZR (c * n1 * d2) / IZR (d1 * n2))).
Proof.
  intros w1 n1 d1 w2 n2 d2 c Hp1 Hp2 Hb. split.
  - apply fcast_m_spec; assumption.
  - apply fconv_m_spec; assumption.
Qed.

(* hence exact whenever the exact result is a whole number (of magnitude <= 2^53): the value of
   the integer duration_cast (which is then exact too, C12_conversion_laws) *)
Theorem C12_float_cast_exact_on_integers : forall w1 n1 d1 w2 n2 d2 c,
  period_ok n1 d1 = true -> period_ok n2 d2 = true -> fbounds n1 d1 n2 d2 c ->
  (c * n1 * d2) mod (d1 * n2) = 0 -> Z.abs (cast_spec n1 d1 n2 d2 c) <= two53 ->
  (exists r, fcast_m (Dur w1 n1 d1) (Dur w2 n2 d2) c = Val r /\ is_finite r = true
             /\ B2R r = IZR (cast_spec n1 d1 n2 d2 c))
  /\ (exists r, fconv_m (Dur w1 n1 d1) (Dur w2 n2 d2) c = Val r /\ is_finite r = true
             /\ B2R r = IZR (cast_spec n1 d1 n2 d2 c)).
Proof.
  intros w1 n1 d1 w2 n2 d2 c Hp1 Hp2 Hb Hm Hq.
  destruct (fcast_m_spec w1 n1 d1 w2 n2 d2 c Hp1 Hp2 Hb) as (r & E & F & R).
  destruct (fconv_m_spec w1 n1 d1 w2 n2 d2 c Hp1 Hp2 Hb) as (r' & E' & F' & R').
  destruct (fpos n1 d1 n2 d2 Hp1 Hp2) as [_ HB].
  destruct (exact_all_equal _ _ HB Hm) as (Eq & _ & _).
  unfold cast_spec in *. rewrite Eq in *.
  rewrite rnd_exact_integer in R, R' by assumption.
  split; [exists r|exists r']; repeat split; assumption.
Qed.

(* for EVERY int64 count and every representable conversion factor (no 2^53 bound) the result is a
   finite double - no overflow, no NaN - namely the C++ expression with each conversion and
   operation correctly rounded: rnd (rnd (rnd c * rnd num) / rnd den) *)
Theorem C12_float_cast_always_finite : forall w1 n1 d1 w2 n2 d2 c,
  period_ok n1 d1 = true -> period_ok n2 d2 = true ->
  factor_num n1 d1 n2 d2 <= max64 -> factor_den n1 d1 n2 d2 <= max64 -> fits 64 c = true ->
  let nested := rnd64 (rnd64 (rnd64 (IZR c) * rnd64 (IZR (factor_num n1 d1 n2 d2)))
                       / rnd64 (IZR (factor_den n1 d1 n2 d2))) in
  (exists r, fcast_m (Dur w1 n1 d1) (Dur w2 n2 d2) c = Val r /\ is_finite r = true /\ B2R r = nested)
  /\ (exists r, fconv_m (Dur w1 n1 d1) (Dur w2 n2 d2) c = Val r /\ is_finite r = true /\ B2R r = nested).
Proof.
  intros w1 n1 d1 w2 n2 d2 c Hp1 Hp2 Hn Hd Hc. cbv zeta. split.
  - apply fcast_m_any; assumption.
  - apply fconv_m_any; assumption.
Qed.

(* the converting constructor into a floating representation participates exactly when the period
   quotient is representable (detail::period_quotient<...>::representable): both terms of the reduced
   conversion factor fit intmax_t *)
Theorem C12_float_converting_constructor_participates : forall w1 n1 d1 w2 n2 d2,
  period_ok n1 d1 = true -> period_ok n2 d2 = true ->
  period_quotient_representable_m (Dur w1 n1 d1) (Dur w2 n2 d2)
  = Val ((factor_num n1 d1 n2 d2 <=? max64) && (factor_den n1 d1 n2 d2 <=? max64)).
Proof. exact period_quotient_representable_m_spec. Qed.

(* floating-point SOURCE holding a whole number c: duration_cast<duration<int64_t, n2/d2>>
   (duration<double, n1/d1>{c}) is the exact truncation, although the double quotient is rounded
   before it is truncated: for |c * numerator| < 2^53 the rounding error is smaller than the
   distance to the next integer *)
Theorem C12_float_source_cast_exact : forall w1 n1 d1 w2 n2 d2 c,
  period_ok n1 d1 = true -> period_ok n2 d2 = true -> fbounds n1 d1 n2 d2 c ->
  Z.abs (c * factor_num n1 d1 n2 d2) < two53 -> fits 64 (cast_spec n1 d1 n2 d2 c) = true ->
  di_cast_m (Dur w1 n1 d1) (Dur w2 n2 d2) (d_of_Z c) = Val (cast_spec n1 d1 n2 d2 c).
Proof. exact di_cast_m_spec. Qed.

(* ... and so are floor, ceil and round (ties to even) to an int64 duration: the comparisons and
   differences they form in double on the common type are exact ([fboth_ok]: the common period
   exists and both counts, converted to it, stay within 2^53) *)
Theorem C12_float_source_rounding_exact : forall w1 n1 d1 w2 n2 d2 c,
  period_ok n1 d1 = true -> period_ok n2 d2 = true -> fbounds n1 d1 n2 d2 c ->
  Z.abs (c * factor_num n1 d1 n2 d2) < two53 -> fits 64 (cast_spec n1 d1 n2 d2 c) = true ->
  fboth_ok n1 d1 n2 d2 c (cast_spec n1 d1 n2 d2 c) ->
  let a := Dur w1 n1 d1 in let b := Dur w2 n2 d2 in let q := floor_spec n1 d1 n2 d2 c in
  (fits 64 q = true -> di_floor_m a b (d_of_Z c) = Val q)
  /\ (fits 64 (ceil_spec n1 d1 n2 d2 c) = true -> di_ceil_m a b (d_of_Z c) = Val (ceil_spec n1 d1 n2 d2 c))
  /\ (fits 64 q = true -> fits 64 (q + 1) = true -> fboth_ok n1 d1 n2 d2 c q -> fboth_ok n1 d1 n2 d2 c (q + 1) ->
      Z.abs (minus_spec n1 d1 n2 d2 c q) <= two53 -> Z.abs (minus_spec n2 d2 n1 d1 (q + 1) c) <= two53 ->
      di_round_m a b (d_of_Z c) = Val (round_spec n1 d1 n2 d2 c)).
Proof.
  intros w1 n1 d1 w2 n2 d2 c Hp1 Hp2 Hb Hs Hf Hc. cbv zeta. split; [|split].
  - apply di_floor_m_spec; assumption.
  - apply di_ceil_m_spec; assumption.
  - intros. apply di_round_m_spec; assumption.
Qed.

(* + - < == on two double durations holding whole numbers: exact *)
Theorem C12_float_source_arith_exact : forall w1 n1 d1 w2 n2 d2 c1 c2,
  period_ok n1 d1 = true -> period_ok n2 d2 = true -> fboth_ok n1 d1 n2 d2 c1 c2 ->
  let a := Dur w1 n1 d1 in let b := Dur w2 n2 d2 in
  (Z.abs (plus_spec n1 d1 n2 d2 c1 c2) <= two53 ->
     exists r, dd_plus_m a b (d_of_Z c1) (d_of_Z c2) = Val r /\ is_finite r = true
               /\ B2R r = IZR (plus_spec n1 d1 n2 d2 c1 c2))
  /\ (Z.abs (minus_spec n1 d1 n2 d2 c1 c2) <= two53 ->
     exists r, dd_minus_m a b (d_of_Z c1) (d_of_Z c2) = Val r /\ is_finite r = true
               /\ B2R r = IZR (minus_spec n1 d1 n2 d2 c1 c2))
  /\ dd_lt_m a b (d_of_Z c1) (d_of_Z c2) = Val (lt_spec n1 d1 n2 d2 c1 c2)
  /\ dd_eq_m a b (d_of_Z c1) (d_of_Z c2) = Val (eq_spec n1 d1 n2 d2 c1 c2).
Proof.
  intros w1 n1 d1 w2 n2 d2 c1 c2 Hp1 Hp2 Hb. cbv zeta.
  split; [intros H; apply dd_plus_exact; assumption|].
  split; [intros H; apply dd_minus_exact; assumption|].
  apply dd_cmp_exact; assumption.
Qed.

(* the same four statements under ONE computable hypothesis: the boolean guard [fsrc_ok] (FModel.v)
   that the correspondence run evaluates to decide where to print the specification leg of the
   double-source conversions implies every hypothesis above *)
Theorem C12_float_source_guarded : forall w1 n1 d1 w2 n2 d2 c,
  period_ok n1 d1 = true -> period_ok n2 d2 = true -> fsrc_ok n1 d1 n2 d2 c = true ->
  let a := Dur w1 n1 d1 in let b := Dur w2 n2 d2 in
  di_cast_m a b (d_of_Z c) = Val (cast_spec n1 d1 n2 d2 c)
  /\ di_floor_m a b (d_of_Z c) = Val (floor_spec n1 d1 n2 d2 c)
  /\ di_ceil_m a b (d_of_Z c) = Val (ceil_spec n1 d1 n2 d2 c)
  /\ di_round_m a b (d_of_Z c) = Val (round_spec n1 d1 n2 d2 c).
Proof. exact float_source_guarded. Qed.

(* mixed representations: an int64-count duration with a double-count duration holding a whole
   number (common representation double): + - exact, < == exact; and a double -> double cast of a
   whole-valued count is the integer-source cast of the theorems above *)
Theorem C12_float_mixed_exact : forall w1 n1 d1 w2 n2 d2 c1 c2,
  period_ok n1 d1 = true -> period_ok n2 d2 = true -> fboth_ok n1 d1 n2 d2 c1 c2 ->
  let a := Dur w1 n1 d1 in let b := Dur w2 n2 d2 in
  (Z.abs (plus_spec n1 d1 n2 d2 c1 c2) <= two53 ->
     exists r, id_plus_m a b c1 (d_of_Z c2) = Val r /\ is_finite r = true
               /\ B2R r = IZR (plus_spec n1 d1 n2 d2 c1 c2))
  /\ (Z.abs (minus_spec n1 d1 n2 d2 c1 c2) <= two53 ->
     exists r, id_minus_m a b c1 (d_of_Z c2) = Val r /\ is_finite r = true
               /\ B2R r = IZR (minus_spec n1 d1 n2 d2 c1 c2))
  /\ id_lt_m a b c1 (d_of_Z c2) = Val (lt_spec n1 d1 n2 d2 c1 c2)
  /\ id_eq_m a b c1 (d_of_Z c2) = Val (eq_spec n1 d1 n2 d2 c1 c2)
  /\ dd_cast_m a b (d_of_Z c1) = fcast_m a b c1.
Proof.
  intros w1 n1 d1 w2 n2 d2 c1 c2 Hp1 Hp2 Hb. cbv zeta.
  destruct (id_ops_exact w1 n1 d1 w2 n2 d2 c1 c2 Hp1 Hp2 Hb) as (H1 & H2 & H3 & H4).
  repeat split; try assumption.
Qed.

(* + - < == (double with double, and int64 with double) under ONE computable hypothesis: the boolean guard
   [farith_ok] (FGuard.v) that the correspondence run evaluates to decide where it prints the specification leg of
   the ops d_pm / d_mpm implies the hypotheses of C12_float_source_arith_exact and C12_float_mixed_exact, for both
   orders of the operands (a <= b is evaluated as !(b < a)) *)
Theorem C12_float_arith_guarded : forall w1 n1 d1 w2 n2 d2 c1 c2,
  period_ok n1 d1 = true -> period_ok n2 d2 = true -> farith_ok n1 d1 n2 d2 c1 c2 = true ->
  let a := Dur w1 n1 d1 in let b := Dur w2 n2 d2 in
  (exists r, dd_plus_m a b (d_of_Z c1) (d_of_Z c2) = Val r /\ is_finite r = true
             /\ B2R r = IZR (plus_spec n1 d1 n2 d2 c1 c2))
  /\ (exists r, dd_minus_m a b (d_of_Z c1) (d_of_Z c2) = Val r /\ is_finite r = true
             /\ B2R r = IZR (minus_spec n1 d1 n2 d2 c1 c2))
  /\ dd_lt_m a b (d_of_Z c1) (d_of_Z c2) = Val (lt_spec n1 d1 n2 d2 c1 c2)
  /\ dd_eq_m a b (d_of_Z c1) (d_of_Z c2) = Val (eq_spec n1 d1 n2 d2 c1 c2)
  /\ dd_lt_m b a (d_of_Z c2) (d_of_Z c1) = Val (lt_spec n2 d2 n1 d1 c2 c1)
  /\ (exists r, id_plus_m a b c1 (d_of_Z c2) = Val r /\ is_finite r = true
             /\ B2R r = IZR (plus_spec n1 d1 n2 d2 c1 c2))
  /\ (exists r, id_minus_m a b c1 (d_of_Z c2) = Val r /\ is_finite r = true
             /\ B2R r = IZR (minus_spec n1 d1 n2 d2 c1 c2))
  /\ id_lt_m a b c1 (d_of_Z c2) = Val (lt_spec n1 d1 n2 d2 c1 c2)
  /\ id_eq_m a b c1 (d_of_Z c2) = Val (eq_spec n1 d1 n2 d2 c1 c2).
Proof. exact farith_guarded. Qed.

(* the computable specification used by the correspondence run (one correctly rounded division of
   the exactly represented numerator and denominator) is that once-rounded rational *)
Theorem C12_float_spec_is_rounded_rational : forall n1 d1 n2 d2 c,
  0 < d1 * n2 -> fspec_ok n1 d1 n2 d2 c = true ->
  B2R (fcast_spec n1 d1 n2 d2 c) = rnd64 (IZR (c * n1 * d2) / IZR (d1 * n2))
  /\ is_finite (fcast_spec n1 d1 n2 d2 c) = true.
Proof. exact fcast_spec_correct. Qed.

(* Print Assumptions on the two groups (conjunctions) of the theorems above: every theorem of this
   file is a member of exactly one group; the axioms printed are those of Coq's classical reals. *)
Definition C12_group_float_target :=
  (conj C12_float_cast_correctly_rounded (conj C12_float_cast_exact_on_integers (conj C12_float_spec_is_rounded_rational (conj C12_float_cast_always_finite C12_float_converting_constructor_participates)))).
Print Assumptions C12_group_float_target.

Definition C12_group_float_source :=
  (conj C12_float_source_cast_exact (conj C12_float_source_rounding_exact (conj C12_float_source_arith_exact (conj C12_float_mixed_exact (conj C12_float_source_guarded C12_float_arith_guarded))))).
Print Assumptions C12_group_float_source.

(* non-vacuity: 1500 ms -> 1.5 s; 90 min -> 1.5 h; -2^31 ticks of 1001/30000 s in thirds of a second *)
Definition bits_of (o : out b64) : Z := match o with Val r => enc64 r | _ => -1 end.
Example C12_float_nonvacuous :
  fbounds 1 1000 1 1 1500 /\ fbounds 60 1 3600 1 90 /\ fbounds 1001 30000 1 3 (-2147483648)
  /\ fspec_ok 1001 30000 1 3 (-2147483648) = true
  /\ bits_of (fcast_m (Dur 64 1 1000) (Dur 64 1 1) 1500) = 4609434218613702656   (* 1.5 *)
  /\ bits_of (fconv_m (Dur 32 60 1) (Dur 64 3600 1) 90) = 4609434218613702656
  /\ bits_of (fcast_m (Dur 64 1001 30000) (Dur 64 1 3) (-2147483648))
     = enc64 (fcast_spec 1001 30000 1 3 (-2147483648)).
Proof. unfold fbounds. vm_compute. repeat split; intros; discriminate. Qed.

(* the hypotheses of the float-source theorems are met by 2500 ms -> s (a tie: floor 2, round 2) *)
Definition zof (o : out Z) : Z := match o with Val z => z | _ => -1 end.
Example C12_float_source_nonvacuous :
  fbounds 1 1000 1 1 2500 /\ fboth_ok 1 1000 1 1 2500 2 /\ fboth_ok 1 1000 1 1 2500 3
  /\ fsrc_ok 1 1000 1 1 2500 = true /\ fsrc_ok 1001 30000 1 3 (-2147483648) = true
  /\ zof (di_round_m (Dur 64 1 1000) (Dur 64 1 1) (d_of_Z 2500)) = 2
  /\ zof (di_round_m (Dur 64 1 1000) (Dur 64 1 1) (d_of_Z 3500)) = 4
  /\ zof (di_floor_m (Dur 64 1 1000) (Dur 64 1 1) (d_of_Z (-2500))) = -3.
Proof. unfold fbounds, fboth_ok. vm_compute. repeat split; intros; discriminate. Qed.
