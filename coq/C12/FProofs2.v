(* C12 proofs, floating-point SOURCE representation holding a whole number: duration_cast from
   duration<double, P1>{c} to an int64 duration is the exact truncation cast_spec when
   |c * numerator| < 2^53 (the rounding error of the double quotient is smaller than the distance
   to the next integer). *)
From Coq Require Import ZArith Reals Bool Lia Lra ZifyBool.
From Flocq Require Import Core BinarySingleNaN Relative.
From Tetl Require Import Lib.Base C12.Model C12.Spec C12.ProofsArith C12.ProofsCast C12.FModel C12.FProofs.
Local Open Scope Z_scope.

(* rounding error of a quotient of integers: below 1/B when |X| < 2^53 *)
Lemma rnd_quot_err X B : 0 < X < two53 -> 0 < B <= two53 ->
  (Rabs (rnd64 (IZR X / IZR B) - IZR X / IZR B) < / IZR B)%R.
Proof.
  intros HX HB.
  assert (HBr : (0 < IZR B)%R) by (apply IZR_lt; lia).
  assert (HXr : (0 < IZR X)%R) by (apply IZR_lt; lia).
  set (y := (IZR X / IZR B)%R).
  assert (Hy : (0 < y)%R) by (unfold y; apply Rdiv_lt_0_compat; assumption).
  assert (Hylo : (bpow radix2 (3 - 1024 - 53 + 53 - 1) <= Rabs y)%R).
  { rewrite Rabs_pos_eq by lra.
    apply Rle_trans with (/ IZR two53)%R.
    - change (IZR two53) with (bpow radix2 53). rewrite <- bpow_opp. apply bpow_le. lia.
    - unfold y, Rdiv. apply Rle_trans with (1 * / IZR B)%R.
      + rewrite Rmult_1_l. apply Rinv_le_contravar; [exact HBr|apply IZR_le; lia].
      + apply Rmult_le_compat_r; [left; apply Rinv_0_lt_compat; exact HBr|]. apply (IZR_le 1). lia. }
  pose proof (relative_error_N_FLT radix2 (3 - 1024 - 53) 53 ltac:(lia) (fun t => negb (Z.even t)) y Hylo) as He.
  change (round radix2 (FLT_exp (3 - 1024 - 53) 53) (Znearest (fun t => negb (Z.even t))) y) with (rnd64 y) in He.
  eapply Rle_lt_trans; [exact He|].
  rewrite (Rabs_pos_eq y) by lra.
  assert (Ebp : bpow radix2 (- (53) + 1) = (/ IZR (2 ^ 52))%R) by reflexivity.
  rewrite Ebp. clear Ebp.
  assert (E53 : IZR two53 = (IZR (2 ^ 52) * 2)%R) by (rewrite <- mult_IZR; reflexivity).
  assert (Hlt : (IZR X < IZR (2 ^ 52) * 2)%R) by (rewrite <- E53; apply IZR_lt; lia).
  assert (H52 : (0 < IZR (2 ^ 52))%R) by (apply IZR_lt; reflexivity).
  set (T := IZR (2 ^ 52)) in *.
  unfold y, Rdiv.
  assert (HiB : (0 < / IZR B)%R) by (apply Rinv_0_lt_compat; exact HBr).
  replace (/ 2 * / T * (IZR X * / IZR B))%R with ((IZR X * / (T * 2)) * / IZR B)%R by (field; lra).
  rewrite <- (Rmult_1_l (/ IZR B)) at 2.
  apply Rmult_lt_compat_r; [exact HiB|].
  apply Rmult_lt_reg_r with (T * 2)%R; [lra|].
  rewrite Rmult_assoc, Rinv_l by lra. lra.
Qed.

(* ... so truncating the rounded quotient gives the integer quotient (X >= 0) *)
Lemma trunc_rnd_quot_pos X B : 0 <= X < two53 -> 0 < B <= two53 ->
  Ztrunc (rnd64 (IZR X / IZR B)) = X / B.
Proof.
  intros HX HB.
  assert (HBr : (0 < IZR B)%R) by (apply IZR_lt; lia).
  pose proof (Z.div_mod X B ltac:(lia)) as E. pose proof (Z.mod_pos_bound X B ltac:(lia)) as Hr.
  set (q := X / B) in *. set (r := X mod B) in *.
  assert (Hq : 0 <= q) by (apply Z.div_pos; lia).
  assert (Hq53 : q <= two53) by (unfold q; apply Z.le_trans with X; [apply Z.div_le_upper_bound; nia|lia]).
  set (y := (IZR X / IZR B)%R).
  assert (Ey : y = (IZR q + IZR r / IZR B)%R).
  { unfold y. rewrite E at 1. rewrite plus_IZR, mult_IZR. field. lra. }
  assert (Hlo : (IZR q <= rnd64 y)%R).
  { rewrite <- (rnd_IZR q) by lia. apply round_le; [apply FLT_exp_valid; reflexivity|apply valid_rnd_round_mode|].
    rewrite Ey. assert (0 <= IZR r / IZR B)%R; [|lra].
    apply Rmult_le_pos; [apply IZR_le; lia|left; apply Rinv_0_lt_compat; exact HBr]. }
  assert (Hhi : (rnd64 y < IZR q + 1)%R).
  { destruct (Z.eq_dec X 0) as [E0|E0].
    - assert (Ey0 : y = 0%R) by (unfold y; rewrite E0; unfold Rdiv; apply Rmult_0_l).
      rewrite Ey0, round_0 by apply valid_rnd_round_mode.
      assert (0 <= IZR q)%R by (apply IZR_le; exact Hq). lra.
    - pose proof (rnd_quot_err X B ltac:(lia) HB) as Herr. fold y in Herr.
      assert (Hd : (y + / IZR B <= IZR q + 1)%R).
      { rewrite Ey. unfold Rdiv. rewrite Rplus_assoc. apply Rplus_le_compat_l.
        rewrite <- (Rmult_1_l (/ IZR B)) at 2. rewrite <- Rmult_plus_distr_r.
        apply Rmult_le_reg_r with (IZR B); [exact HBr|].
        rewrite Rmult_assoc, Rinv_l, Rmult_1_r, Rmult_1_l by lra.
        rewrite <- (plus_IZR r 1). apply IZR_le. lia. }
      apply Rabs_lt_inv in Herr. lra. }
  rewrite Ztrunc_floor by (apply Rle_trans with (IZR q); [apply IZR_le; exact Hq|exact Hlo]).
  apply Zfloor_imp. rewrite plus_IZR. split; assumption.
Qed.

Lemma trunc_rnd_quot X B : Z.abs X < two53 -> 0 < B <= two53 ->
  Ztrunc (rnd64 (IZR X / IZR B)) = Z.quot X B.
Proof.
  intros HX HB. destruct (Z.le_gt_cases 0 X) as [Hp|Hn].
  - rewrite trunc_rnd_quot_pos by lia. symmetry. apply Z.quot_div_nonneg; lia.
  - replace (IZR X / IZR B)%R with (- (IZR (- X) / IZR B))%R by (rewrite opp_IZR; field; apply not_0_IZR; lia).
    rewrite round_NE_opp, Ztrunc_opp. rewrite trunc_rnd_quot_pos by lia.
    replace X with (- (- X)) at 2 by ring. rewrite Z.quot_opp_l by lia.
    rewrite Z.quot_div_nonneg by lia. reflexivity.
Qed.

(* Btrunc is Ztrunc of the value *)
Lemma Btrunc_Ztrunc (x : b64) : Btrunc x = Ztrunc (B2R x).
Proof.
  apply eq_IZR. rewrite Btrunc_correct. rewrite round_FIX_IZR. reflexivity. exact pe64.
Qed.

Lemma d_to_i64_finite (r : b64) : is_finite r = true -> in64 (Ztrunc (B2R r)) = true ->
  d_to_i64 r = Val (Ztrunc (B2R r)).
Proof.
  intros F Hi. unfold d_to_i64. rewrite Btrunc_Ztrunc.
  destruct r; try discriminate F; rewrite Hi; reflexivity.
Qed.

(* duration_cast<duration<int64_t, P2>>(duration<double, P1>{c}) for a whole count c *)
Lemma di_cast_m_spec w1 n1 d1 w2 n2 d2 c :
  period_ok n1 d1 = true -> period_ok n2 d2 = true -> fbounds n1 d1 n2 d2 c ->
  Z.abs (c * factor_num n1 d1 n2 d2) < two53 -> fits 64 (cast_spec n1 d1 n2 d2 c) = true ->
  di_cast_m (Dur w1 n1 d1) (Dur w2 n2 d2) (d_of_Z c) = Val (cast_spec n1 d1 n2 d2 c).
Proof.
  intros Hp1 Hp2 Hb Hs Hf.
  destruct (fcast_m_spec w1 n1 d1 w2 n2 d2 c Hp1 Hp2 Hb) as (r & E & F & R).
  destruct (fpos n1 d1 n2 d2 Hp1 Hp2) as [Ha0 Hb0].
  destruct Hb as (Hc & Hcn & Hcd & Hprod).
  destruct (factor_facts _ _ _ _ Ha0 Hb0) as (Hg & Ea & Eb & Pcn & Pcd).
  (* the model of the double-source cast on d_of_Z c is the integer-source float cast followed by the conversion *)
  unfold fcast_m in E. unfold di_cast_m. cbn [rw pn pd] in *. cbv zeta in *.
  rewrite ratio_divide_m_spec in * by (try assumption; unfold two53, max64 in *; lia).
  cbn [bind fst snd] in *. unfold dscale. injection E as E. rewrite E.
  rewrite <- (factor_ratio n1 d1 n2 d2 c Ha0 Hb0) in R.
  assert (Et : Ztrunc (B2R r) = cast_spec n1 d1 n2 d2 c).
  { rewrite R. rewrite trunc_rnd_quot by (try assumption; lia).
    symmetry. apply cast_reduced; assumption. }
  rewrite d_to_i64_finite; [rewrite Et; reflexivity|exact F|].
  rewrite Et. rewrite <- fits64_in64. exact Hf.
Qed.
