(* C12 proofs, part 3: the common type is ratio<gcd, lcm>, conversion to it is exact, and
   + - / % == < on two durations are the operations on the rationals they denote. *)
From Tetl Require Import Lib.Base C12.Model C12.Spec C12.ProofsArith C12.ProofsCast.
From Coq Require Import ZifyBool Znumtheory.
Local Open Scope Z_scope.
Ltac Zify.zify_post_hook ::= Z.to_euclidean_division_equations.

(** * Number theory of the common period *)
Lemma cnum_comm n1 n2 : cnum n2 n1 = cnum n1 n2.
Proof. unfold cnum. apply Z.gcd_comm. Qed.
Lemma cden_comm d1 d2 : cden d2 d1 = cden d1 d2.
Proof. unfold cden. apply Z.lcm_comm. Qed.

(* gcd(n1,n2) / lcm(d1,d2) is in lowest terms when n1/d1 and n2/d2 are *)
Lemma common_coprime n1 d1 n2 d2 :
  Z.gcd n1 d1 = 1 -> Z.gcd n2 d2 = 1 -> Z.gcd (cnum n1 n2) (cden d1 d2) = 1.
Proof.
  intros H1 H2. unfold cnum, cden. apply Zgcd_1_rel_prime.
  apply Zgcd_1_rel_prime in H1, H2.
  assert (R1 : rel_prime (Z.gcd n1 n2) d1) by (eapply rel_prime_div; [exact H1|apply Z.gcd_divide_l]).
  assert (R2 : rel_prime (Z.gcd n1 n2) d2) by (eapply rel_prime_div; [exact H2|apply Z.gcd_divide_r]).
  pose proof (rel_prime_mult _ _ _ R1 R2) as R.
  apply rel_prime_sym. eapply rel_prime_div; [apply rel_prime_sym; exact R|].
  apply Z.lcm_least; [apply Z.divide_factor_l|apply Z.divide_factor_r].
Qed.

Lemma common_period_ok n1 d1 n2 d2 :
  period_ok n1 d1 = true -> period_ok n2 d2 = true -> cden d1 d2 <= max64 ->
  period_ok (cnum n1 n2) (cden d1 d2) = true.
Proof.
  intros Hp1 Hp2 Hl.
  apply period_ok_iff in Hp1, Hp2. destruct Hp1 as (Hn1 & Hd1 & Hg1). destruct Hp2 as (Hn2 & Hd2 & Hg2).
  apply period_ok_iff. unfold cnum, cden in *.
  pose proof (gcd_le_l n1 n2 ltac:(lia)). pose proof (gcd_pos_l n1 n2 ltac:(lia)).
  pose proof (lcm_pos d1 d2 ltac:(lia) ltac:(lia)).
  repeat split; try lia. apply common_coprime; assumption.
Qed.

(* one tick of n/d is a whole number [ticks] of ticks of g/l when g | n and d | l *)
Lemma ticks_facts n d g l :
  0 < n -> 0 < d -> 0 < g -> 0 < l -> (g | n) -> (d | l) ->
  ticks n d g l * (d * g) = n * l /\ 0 < ticks n d g l /\ (d * g | n * l).
Proof.
  intros Hn Hd Hg Hl [n' En] [l' El]. unfold ticks.
  assert (0 < n') by nia. assert (0 < l') by nia.
  assert (E : n * l = n' * l' * (d * g)) by (rewrite En, El; ring).
  rewrite E. rewrite Z.div_mul by nia. repeat split; try nia.
  exists (n' * l'). reflexivity.
Qed.

(** * common_type<duration, duration> *)
Lemma common_m_spec w1 n1 d1 w2 n2 d2 :
  period_ok n1 d1 = true -> period_ok n2 d2 = true -> cden d1 d2 <= max64 ->
  common_m (Dur w1 n1 d1) (Dur w2 n2 d2) = Val (Dur (Z.max w1 w2) (cnum n1 n2) (cden d1 d2)).
Proof.
  intros Hp1 Hp2 Hl. pose proof (common_period_ok _ _ _ _ Hp1 Hp2 Hl) as Hpc.
  apply period_ok_iff in Hp1, Hp2. destruct Hp1 as (Hn1 & Hd1 & Hg1). destruct Hp2 as (Hn2 & Hd2 & Hg2).
  unfold common_m. cbn [rw pn pd].
  rewrite gcd_m_spec by lia. cbn [bind].
  rewrite lcm_m_spec by (unfold cden in Hl; lia). cbn [bind].
  fold (cnum n1 n2). fold (cden d1 d2).
  rewrite ratio_m_normal by assumption. cbn [bind]. reflexivity.
Qed.

Lemma common_m_self w n d : period_ok n d = true -> common_m (Dur w n d) (Dur w n d) = Val (Dur w n d).
Proof.
  intros Hp. pose proof Hp as Hp'. apply period_ok_iff in Hp'. destruct Hp' as (Hn & Hd & Hg).
  rewrite common_m_spec; try assumption.
  - unfold cnum, cden. rewrite Z.gcd_diag, Z.lcm_diag, Z.max_id, !Z.abs_eq by lia. reflexivity.
  - unfold cden. rewrite Z.lcm_diag, Z.abs_eq by lia. lia.
Qed.

(** * the converting constructor into a type whose period divides the source period *)
Lemma same_ty_iff a b : same_ty a b = true <-> a = b.
Proof.
  destruct a as [wa na da], b as [wb nb db]. unfold same_ty. cbn [rw pn pd].
  rewrite !Bool.andb_true_iff, !Z.eqb_eq. split.
  - intros ((-> & ->) & ->). reflexivity.
  - intros E. injection E as -> -> ->. auto.
Qed.

Lemma conv_m_exact wa n d wt g l c :
  rep_ok wt = true ->
  period_ok n d = true -> period_ok g l = true -> (g | n) -> (d | l) -> ticks n d g l <= max64 ->
  in_rep wt (c * ticks n d g l) = true ->
  conv_m (Dur wa n d) (Dur wt g l) c = Val (c * ticks n d g l).
Proof.
  intros Hwt Hp Hpt Hgn Hdl Htk Hfit.
  pose proof (proj1 (period_ok_iff _ _) Hp) as (Hn & Hd & Hc).
  pose proof (proj1 (period_ok_iff _ _) Hpt) as (Hg & Hl & Hcc).
  destruct (ticks_facts n d g l ltac:(lia) ltac:(lia) ltac:(lia) ltac:(lia) Hgn Hdl) as (Et & Htp & Hdiv).
  unfold conv_m. cbv zeta.
  destruct (same_ty (Dur wa n d) (Dur wt g l)) eqn:Es.
  - apply same_ty_iff in Es. injection Es as -> -> ->.
    assert (E1 : ticks g l g l = 1) by nia. rewrite E1, Z.mul_1_r. reflexivity.
  - cbn [pn pd rw].
    assert (Hb : d * g <= n * l) by (apply Z.divide_pos_le; [nia|exact Hdiv]).
    assert (EG : Z.gcd (n * l) (d * g) = d * g).
    { rewrite Z.gcd_comm. apply Z.divide_gcd_iff; [nia|exact Hdiv]. }
    assert (Efn : factor_num n d g l = ticks n d g l) by (unfold factor_num, ticks; rewrite EG; reflexivity).
    assert (Efd : factor_den n d g l = 1) by (unfold factor_den; rewrite EG; apply Z.div_same; nia).
    rewrite period_quotient_integral_m_spec by assumption.
    rewrite ratio_divide_m_spec by (try assumption; rewrite ?Efn, ?Efd; unfold max64 in *; lia).
    rewrite Efn, Efd. cbn [bind fst snd].
    replace (ticks n d g l <=? max64) with true by lia. cbn [andb Z.eqb Pos.eqb negb].
    rewrite ck64_ok by (eapply in_rep_in64; eassumption). cbn [bind].
    rewrite div_rep_pos by lia. cbn [bind]. rewrite Z.quot_1_r.
    rewrite wrap_rep_id by assumption. reflexivity.
Qed.

(** * CD(lhs).count(), CD(rhs).count() *)
Definition tk1 n1 d1 n2 d2 : Z := ticks n1 d1 (cnum n1 n2) (cden d1 d2).
Definition tk2 n1 d1 n2 d2 : Z := ticks n2 d2 (cnum n1 n2) (cden d1 d2).

Lemma in_common_l n1 d1 n2 d2 c : in_common n1 d1 n2 d2 c = c * tk1 n1 d1 n2 d2.
Proof. reflexivity. Qed.
Lemma in_common_r n1 d1 n2 d2 c : in_common n2 d2 n1 d1 c = c * tk2 n1 d1 n2 d2.
Proof. unfold in_common, tk2. cbv zeta. rewrite cnum_comm, cden_comm. reflexivity. Qed.

Lemma common_ok_iff n1 d1 n2 d2 :
  common_ok n1 d1 n2 d2 = true <->
  cden d1 d2 <= max64 /\ tk1 n1 d1 n2 d2 <= max64 /\ tk2 n1 d1 n2 d2 <= max64.
Proof. unfold common_ok, tk1, tk2, lim64, max64. rewrite !Bool.andb_true_iff, !Z.leb_le. tauto. Qed.

Lemma both_ok_iff w1 n1 d1 w2 n2 d2 c1 c2 :
  both_ok w1 n1 d1 w2 n2 d2 c1 c2 = true <->
  common_ok n1 d1 n2 d2 = true /\ in_rep w1 c1 = true /\ in_rep w2 c2 = true
  /\ in_rep (Z.max w1 w2) (c1 * tk1 n1 d1 n2 d2) = true
  /\ in_rep (Z.max w1 w2) (c2 * tk2 n1 d1 n2 d2) = true.
Proof.
  unfold both_ok. cbv zeta. rewrite in_common_l, in_common_r, !fits_in_rep.
  rewrite !Bool.andb_true_iff. tauto.
Qed.

(* the two tick factors: positive, and exact (so conversion to the common type never rounds) *)
Lemma tk_facts n1 d1 n2 d2 :
  period_ok n1 d1 = true -> period_ok n2 d2 = true ->
  let g := cnum n1 n2 in let l := cden d1 d2 in
  0 < g /\ 0 < l /\ (g | n1) /\ (g | n2) /\ (d1 | l) /\ (d2 | l)
  /\ tk1 n1 d1 n2 d2 * (d1 * g) = n1 * l /\ tk2 n1 d1 n2 d2 * (d2 * g) = n2 * l
  /\ 0 < tk1 n1 d1 n2 d2 /\ 0 < tk2 n1 d1 n2 d2.
Proof.
  intros Hp1 Hp2 g l.
  apply period_ok_iff in Hp1, Hp2. destruct Hp1 as (Hn1 & Hd1 & Hg1). destruct Hp2 as (Hn2 & Hd2 & Hg2).
  assert (Hg : 0 < g) by (apply gcd_pos_l; lia).
  assert (Hl : 0 < l) by (apply lcm_pos; lia).
  assert (D1 : (g | n1)) by apply Z.gcd_divide_l.
  assert (D2 : (g | n2)) by apply Z.gcd_divide_r.
  assert (D3 : (d1 | l)) by apply Z.divide_lcm_l.
  assert (D4 : (d2 | l)) by apply Z.divide_lcm_r.
  destruct (ticks_facts n1 d1 g l ltac:(lia) ltac:(lia) Hg Hl D1 D3) as (E1 & P1 & _).
  destruct (ticks_facts n2 d2 g l ltac:(lia) ltac:(lia) Hg Hl D2 D4) as (E2 & P2 & _).
  unfold tk1, tk2. fold g l. repeat split; assumption.
Qed.

Lemma to_common_m_spec w1 n1 d1 w2 n2 d2 c1 c2 :
  rep_ok w1 = true -> rep_ok w2 = true ->
  period_ok n1 d1 = true -> period_ok n2 d2 = true ->
  both_ok w1 n1 d1 w2 n2 d2 c1 c2 = true ->
  to_common_m (Dur w1 n1 d1) (Dur w2 n2 d2) c1 c2
  = Val (Dur (Z.max w1 w2) (cnum n1 n2) (cden d1 d2), c1 * tk1 n1 d1 n2 d2, c2 * tk2 n1 d1 n2 d2).
Proof.
  intros Hw1 Hw2 Hp1 Hp2 Hok.
  apply both_ok_iff in Hok. destruct Hok as (Hco & Hc1 & Hc2 & Hx & Hy).
  apply common_ok_iff in Hco. destruct Hco as (Hl & Hnl1 & Hnl2).
  pose proof (common_period_ok _ _ _ _ Hp1 Hp2 Hl) as Hpc.
  destruct (tk_facts n1 d1 n2 d2 Hp1 Hp2) as (Hg & Hl0 & D1 & D2 & D3 & D4 & _).
  unfold to_common_m. cbv zeta.
  rewrite common_m_spec by assumption. cbn [bind].
  pose proof (rep_ok_max _ _ Hw1 Hw2) as Hwc.
  rewrite (conv_m_exact w1 n1 d1) by assumption.
  cbn [bind].
  rewrite (conv_m_exact w2 n2 d2) by assumption.
  reflexivity.
Qed.

(** * the rationals behind the common-type counts *)
(* x = c1*tk1 and y = c2*tk2 are the two values scaled by the same positive factor:
   x * K = (c1*n1*d2) * l  and  y * K = (c2*n2*d1) * l  with K = d1*d2*g *)
Lemma scaled_values n1 d1 n2 d2 c1 c2 :
  period_ok n1 d1 = true -> period_ok n2 d2 = true ->
  exists K l, 0 < K /\ 0 < l
    /\ c1 * tk1 n1 d1 n2 d2 * K = c1 * n1 * d2 * l
    /\ c2 * tk2 n1 d1 n2 d2 * K = c2 * n2 * d1 * l.
Proof.
  intros Hp1 Hp2.
  destruct (tk_facts n1 d1 n2 d2 Hp1 Hp2) as (Hg & Hl & _ & _ & _ & _ & E1 & E2 & _ & _).
  apply period_ok_iff in Hp1, Hp2. destruct Hp1 as (Hn1 & Hd1 & _). destruct Hp2 as (Hn2 & Hd2 & _).
  exists (d1 * d2 * cnum n1 n2), (cden d1 d2). repeat split; try nia.
  - transitivity (c1 * d2 * (tk1 n1 d1 n2 d2 * (d1 * cnum n1 n2))); [ring|]. rewrite E1. ring.
  - transitivity (c2 * d1 * (tk2 n1 d1 n2 d2 * (d2 * cnum n1 n2))); [ring|]. rewrite E2. ring.
Qed.

Lemma scaled_lt x y X Y K l : 0 < K -> 0 < l -> x * K = X * l -> y * K = Y * l -> (x <? y) = (X <? Y).
Proof. intros HK Hl Ex Ey. apply Bool.eq_iff_eq_true. rewrite !Z.ltb_lt. nia. Qed.

Lemma scaled_eq x y X Y K l : 0 < K -> 0 < l -> x * K = X * l -> y * K = Y * l -> (x =? y) = (X =? Y).
Proof. intros HK Hl Ex Ey. apply Bool.eq_iff_eq_true. rewrite !Z.eqb_eq. nia. Qed.

Lemma scaled_quot x y X Y K l : 0 < K -> 0 < l -> x * K = X * l -> y * K = Y * l -> y <> 0 ->
  Z.quot x y = Z.quot X Y.
Proof.
  intros HK Hl Ex Ey Hy.
  assert (HY : Y <> 0) by nia.
  rewrite <- (Z.quot_mul_cancel_r x y K) by lia.
  rewrite <- (Z.quot_mul_cancel_r X Y l) by lia.
  rewrite Ex, Ey. reflexivity.
Qed.

(** * operators *)
Section BinOps.
  Variables w1 n1 d1 w2 n2 d2 : Z.
  Hypothesis Hw1 : rep_ok w1 = true.
  Hypothesis Hw2 : rep_ok w2 = true.
  Hypothesis Hp1 : period_ok n1 d1 = true.
  Hypothesis Hp2 : period_ok n2 d2 = true.
  Let a := Dur w1 n1 d1.
  Let b := Dur w2 n2 d2.

  Lemma plus_m_spec c1 c2 : plus_ok w1 n1 d1 w2 n2 d2 c1 c2 = true ->
    plus_m a b c1 c2 = Val (plus_spec n1 d1 n2 d2 c1 c2).
  Proof.
    unfold plus_ok. cbv zeta. rewrite Bool.andb_true_iff, fits_in_rep. intros [Hb Hf].
    unfold plus_m, a, b. cbv zeta. rewrite to_common_m_spec by assumption. cbn [bind rw].
    unfold plus_spec in *. cbv zeta in *. rewrite in_common_l, in_common_r in *.
    apply ck_rep_ok. exact Hf.
  Qed.

  Lemma minus_m_spec c1 c2 : minus_ok w1 n1 d1 w2 n2 d2 c1 c2 = true ->
    minus_m a b c1 c2 = Val (minus_spec n1 d1 n2 d2 c1 c2).
  Proof.
    unfold minus_ok. cbv zeta. rewrite Bool.andb_true_iff, fits_in_rep. intros [Hb Hf].
    unfold minus_m, a, b. cbv zeta. rewrite to_common_m_spec by assumption. cbn [bind rw].
    unfold minus_spec in *. cbv zeta in *. rewrite in_common_l, in_common_r in *.
    apply ck_rep_ok. exact Hf.
  Qed.

  Lemma eq_m_spec c1 c2 : both_ok w1 n1 d1 w2 n2 d2 c1 c2 = true ->
    eq_m a b c1 c2 = Val (eq_spec n1 d1 n2 d2 c1 c2).
  Proof.
    intros Hb. unfold eq_m, a, b. cbv zeta. rewrite to_common_m_spec by assumption. cbn [bind].
    destruct (scaled_values n1 d1 n2 d2 c1 c2 Hp1 Hp2) as (K & l & HK & Hl & Ex & Ey).
    unfold eq_spec. f_equal. exact (scaled_eq _ _ _ _ K l HK Hl Ex Ey).
  Qed.

  Lemma lt_m_spec c1 c2 : both_ok w1 n1 d1 w2 n2 d2 c1 c2 = true ->
    lt_m a b c1 c2 = Val (lt_spec n1 d1 n2 d2 c1 c2).
  Proof.
    intros Hb. unfold lt_m, a, b. cbv zeta. rewrite to_common_m_spec by assumption. cbn [bind].
    destruct (scaled_values n1 d1 n2 d2 c1 c2 Hp1 Hp2) as (K & l & HK & Hl & Ex & Ey).
    unfold lt_spec. f_equal. exact (scaled_lt _ _ _ _ K l HK Hl Ex Ey).
  Qed.

  Lemma div_m_spec c1 c2 : div_ok w1 n1 d1 w2 n2 d2 c1 c2 = true ->
    div_m a b c1 c2 = Val (div_spec n1 d1 n2 d2 c1 c2).
  Proof.
    unfold div_ok. cbv zeta. rewrite !Bool.andb_true_iff, fits_in_rep. intros [[Hb Hnz] Hf].
    unfold div_m, a, b. cbv zeta. rewrite to_common_m_spec by assumption. cbn [bind rw].
    destruct (scaled_values n1 d1 n2 d2 c1 c2 Hp1 Hp2) as (K & l & HK & Hl & Ex & Ey).
    destruct (tk_facts n1 d1 n2 d2 Hp1 Hp2) as (_ & _ & _ & _ & _ & _ & _ & _ & _ & Ht2).
    assert (Hy : c2 * tk2 n1 d1 n2 d2 <> 0) by nia.
    assert (Eq : Z.quot (c1 * tk1 n1 d1 n2 d2) (c2 * tk2 n1 d1 n2 d2) = div_spec n1 d1 n2 d2 c1 c2).
    { unfold div_spec. exact (scaled_quot _ _ _ _ K l HK Hl Ex Ey Hy). }
    unfold div_rep.
    destruct (c2 * tk2 n1 d1 n2 d2 =? 0) eqn:E0; [lia|].
    destruct ((c1 * tk1 n1 d1 n2 d2 =? min_rep (Z.max w1 w2)) && (c2 * tk2 n1 d1 n2 d2 =? -1)) eqn:Em.
    - (* min / -1: the quotient would not be representable *)
      exfalso. apply Bool.andb_true_iff in Em. destruct Em as [E1 E2].
      apply Z.eqb_eq in E1, E2. rewrite <- Eq, E1, E2 in Hf.
      pose proof (rep_ok_max _ _ Hw1 Hw2) as Hwc.
      unfold rep_ok, in_rep, in32, in64, min_rep, min32, max32, min64, max64 in *.
      destruct (Z.max w1 w2 =? 32); cbn in Hf; discriminate.
    - rewrite <- Eq. destruct (c2 * tk2 n1 d1 n2 d2 =? 1) eqn:E1; [|reflexivity].
      apply Z.eqb_eq in E1. rewrite E1, Z.quot_1_r. reflexivity.
  Qed.

  Lemma mod_m_spec c1 c2 : div_ok w1 n1 d1 w2 n2 d2 c1 c2 = true ->
    mod_m a b c1 c2 = Val (mod_spec n1 d1 n2 d2 c1 c2).
  Proof.
    unfold div_ok. cbv zeta. rewrite !Bool.andb_true_iff, fits_in_rep. intros [[Hb Hnz] Hf].
    unfold mod_m, a, b. cbv zeta. rewrite to_common_m_spec by assumption. cbn [bind rw].
    destruct (scaled_values n1 d1 n2 d2 c1 c2 Hp1 Hp2) as (K & l & HK & Hl & Ex & Ey).
    destruct (tk_facts n1 d1 n2 d2 Hp1 Hp2) as (_ & _ & _ & _ & _ & _ & _ & _ & _ & Ht2).
    assert (Hy : c2 * tk2 n1 d1 n2 d2 <> 0) by nia.
    assert (Eq : Z.quot (c1 * tk1 n1 d1 n2 d2) (c2 * tk2 n1 d1 n2 d2) = div_spec n1 d1 n2 d2 c1 c2).
    { unfold div_spec. exact (scaled_quot _ _ _ _ K l HK Hl Ex Ey Hy). }
    unfold mod_spec. cbv zeta. rewrite in_common_l, in_common_r.
    unfold rem_rep.
    destruct (c2 * tk2 n1 d1 n2 d2 =? 0) eqn:E0; [lia|].
    destruct ((c1 * tk1 n1 d1 n2 d2 =? min_rep (Z.max w1 w2)) && (c2 * tk2 n1 d1 n2 d2 =? -1)) eqn:Em.
    - exfalso. apply Bool.andb_true_iff in Em. destruct Em as [E1 E2].
      apply Z.eqb_eq in E1, E2. rewrite <- Eq, E1, E2 in Hf.
      pose proof (rep_ok_max _ _ Hw1 Hw2) as Hwc.
      unfold rep_ok, in_rep, in32, in64, min_rep, min32, max32, min64, max64 in *.
      destruct (Z.max w1 w2 =? 32); cbn in Hf; discriminate.
    - reflexivity.
  Qed.
End BinOps.
