(* C12 — translator obligations: the kernels REGENERATED from /repo's current source (coq/Gen/Gen_duration.v, by
   translate/cxx2gallina.py from translate/kernels_duration.json + translate/tu_duration.cpp) agree with the hand models
   of coq/C12/Model.v (UModel.v for the unsigned instantiation) for EVERY argument of the parameter's representation
   type ([fits w c]: the C++ parameter cannot hold anything else).  See GenEquiv.v.

   Duration types: Ds32 = duration<int>, Ds64 = duration<long>, Dms32 / Dms64 = duration<int / long, milli>,
   Dmin32 = duration<int, ratio<60>>, Df32 / Df64 = duration<int / long, ratio<1001, 30000>>,
   Dt32 / Dt64 = duration<int / long, ratio<1, 3>>, Dums32 = duration<unsigned, milli>, Dus64 = duration<unsigned long>. *)
From Tetl Require Import Lib.Base Lib.MachOps C12.Model C12.Spec C12.UModel C12.GenEquiv.
From Tetl Require Gen.Gen_duration.
Local Open Scope Z_scope.

(** what [tie m g] says: the generated code yields exactly the model's value, has undefined behaviour (None) exactly
    where the model has, and the model never answers "does not compile" / "out of fuel" *)
Theorem C12_gen_tie_meaning : forall (m : out Z) (g : option Z),
  tie m g <-> ((forall v, m = Val v <-> g = Some v) /\ ((exists k, m = Ub k) <-> g = None)
               /\ m <> IllFormed /\ m <> Fuel).
Proof.
  intros m g. unfold tie. destruct m as [v|k| |].
  - split.
    + intros ->. split; [intros v'; split; congruence|].
      split; [split; [intros [k K]; discriminate K|intros K; discriminate K]|]. split; discriminate.
    + intros (H & _). apply H. reflexivity.
  - split.
    + intros ->. split; [intros v; split; discriminate|].
      split; [split; [reflexivity|intros _; exists k; reflexivity]|]. split; discriminate.
    + intros (_ & H & _). apply H. exists k. reflexivity.
  - split; [intros []|]. intros (_ & _ & H & _). apply H. reflexivity.
  - split; [intros []|]. intros (_ & _ & _ & H). apply H. reflexivity.
Qed.

(** duration_cast: num == 1 && den == 1 (both directions, widening and narrowing), num == 1, den == 1, general *)
Theorem C12_gen_duration_cast :
  (forall c, fits 32 c = true -> tie (duration_cast_m Ds32 Ds64 c) (Gen_duration.cast_s32_s64_g c))
  /\ (forall c, fits 64 c = true -> tie (duration_cast_m Ds64 Ds32 c) (Gen_duration.cast_s64_s32_g c))
  /\ (forall c, fits 64 c = true -> tie (duration_cast_m Dms64 Ds32 c) (Gen_duration.cast_ms64_s32_g c))
  /\ (forall c, fits 32 c = true -> tie (duration_cast_m Dms32 Ds64 c) (Gen_duration.cast_ms32_s64_g c))
  /\ (forall c, fits 32 c = true -> tie (duration_cast_m Ds32 Dms64 c) (Gen_duration.cast_s32_ms64_g c))
  /\ (forall c, fits 64 c = true -> tie (duration_cast_m Ds64 Dms32 c) (Gen_duration.cast_s64_ms32_g c))
  /\ (forall c, fits 32 c = true -> tie (duration_cast_m Dmin32 Ds64 c) (Gen_duration.cast_min32_s64_g c))
  /\ (forall c, fits 64 c = true -> tie (duration_cast_m Df64 Dt64 c) (Gen_duration.cast_f64_t64_g c))
  /\ (forall c, fits 32 c = true -> tie (duration_cast_m Dt32 Df32 c) (Gen_duration.cast_t32_f32_g c)).
Proof. exact (conj gen_cast_s32_s64 (conj gen_cast_s64_s32 (conj gen_cast_ms64_s32 (conj gen_cast_ms32_s64 (conj gen_cast_s32_ms64 (conj gen_cast_s64_ms32 (conj gen_cast_min32_s64 (conj gen_cast_f64_t64 gen_cast_t32_f32)))))))). Qed.

(** the same kernel on an unsigned representation (computation type unsigned long) *)
Theorem C12_gen_duration_cast_unsigned :
  forall c, in_ty u32 c = true -> tie (ucast_m Dums32 Dus64 c) (Gen_duration.cast_ums32_us64_g c).
Proof. exact gen_cast_ums32_us64. Qed.

(** floor, ceil, round (ties to even) incl. the comparisons / subtractions in the common type they are built from *)
Theorem C12_gen_rounding :
  (forall c, fits 64 c = true -> tie (floor_m Dms64 Ds64 c) (Gen_duration.floor_ms64_s64_g c))
  /\ (forall c, fits 64 c = true -> tie (ceil_m Dms64 Ds64 c) (Gen_duration.ceil_ms64_s64_g c))
  /\ (forall c, fits 64 c = true -> tie (round_m Dms64 Ds64 c) (Gen_duration.round_ms64_s64_g c))
  /\ (forall c, fits 64 c = true -> tie (floor_m Df64 Dt64 c) (Gen_duration.floor_f64_t64_g c))
  /\ (forall c, fits 64 c = true -> tie (ceil_m Df64 Dt64 c) (Gen_duration.ceil_f64_t64_g c))
  /\ (forall c, fits 64 c = true -> tie (round_m Df64 Dt64 c) (Gen_duration.round_f64_t64_g c))
  /\ (forall c, fits 32 c = true -> tie (floor_m Ds32 Dmin32 c) (Gen_duration.floor_s32_min32_g c))
  /\ (forall c, fits 32 c = true -> tie (ceil_m Ds32 Dmin32 c) (Gen_duration.ceil_s32_min32_g c))
  /\ (forall c, fits 32 c = true -> tie (round_m Ds32 Dmin32 c) (Gen_duration.round_s32_min32_g c)).
Proof. exact (conj gen_floor_ms64_s64 (conj gen_ceil_ms64_s64 (conj gen_round_ms64_s64 (conj gen_floor_f64_t64 (conj gen_ceil_f64_t64 (conj gen_round_f64_t64 (conj gen_floor_s32_min32 (conj gen_ceil_s32_min32 gen_round_s32_min32)))))))). Qed.

(** abs *)
Theorem C12_gen_abs :
  (forall c, fits 32 c = true -> tie (abs_m Ds32 c) (Gen_duration.abs_s32_g c))
  /\ (forall c, fits 64 c = true -> tie (abs_m Dms64 c) (Gen_duration.abs_ms64_g c)).
Proof. exact (conj gen_abs_s32 gen_abs_ms64). Qed.

(** duration + - % / on two mixed-period pairs *)
Theorem C12_gen_arithmetic :
  (forall a b, fits 64 a = true -> fits 32 b = true -> tie (plus_m Dms64 Ds32 a b) (Gen_duration.plus_ms64_s32_g a b))
  /\ (forall a b, fits 64 a = true -> fits 32 b = true -> tie (minus_m Dms64 Ds32 a b) (Gen_duration.minus_ms64_s32_g a b))
  /\ (forall a b, fits 64 a = true -> fits 32 b = true -> tie (mod_m Dms64 Ds32 a b) (Gen_duration.mod_ms64_s32_g a b))
  /\ (forall a b, fits 64 a = true -> fits 32 b = true -> tie (div_m Dms64 Ds32 a b) (Gen_duration.div_ms64_s32_g a b))
  /\ (forall a b, fits 32 a = true -> fits 64 b = true -> tie (plus_m Dmin32 Dt64 a b) (Gen_duration.plus_min32_t64_g a b))
  /\ (forall a b, fits 32 a = true -> fits 64 b = true -> tie (minus_m Dmin32 Dt64 a b) (Gen_duration.minus_min32_t64_g a b))
  /\ (forall a b, fits 32 a = true -> fits 64 b = true -> tie (mod_m Dmin32 Dt64 a b) (Gen_duration.mod_min32_t64_g a b))
  /\ (forall a b, fits 32 a = true -> fits 64 b = true -> tie (div_m Dmin32 Dt64 a b) (Gen_duration.div_min32_t64_g a b)).
Proof. exact (conj gen_plus_ms64_s32 (conj gen_minus_ms64_s32 (conj gen_mod_ms64_s32 (conj gen_div_ms64_s32 (conj gen_plus_min32_t64 (conj gen_minus_min32_t64 (conj gen_mod_min32_t64 gen_div_min32_t64))))))). Qed.

Definition C12_group_translator_tie :=
  (conj C12_gen_tie_meaning (conj C12_gen_duration_cast (conj C12_gen_duration_cast_unsigned
    (conj C12_gen_rounding (conj C12_gen_abs C12_gen_arithmetic))))).
Print Assumptions C12_group_translator_tie.

(** non-vacuity: the generated kernels compute (round<seconds>(2500ms) = 2s, ties to even; floor of -1 frame; the
    narrowing cast wraps; signed overflow of the multiply-only cast is None) *)
Example C12_gen_nonvacuous :
  Gen_duration.round_ms64_s64_g 2500 = Some 2 /\ Gen_duration.round_ms64_s64_g 3500 = Some 4
  /\ Gen_duration.floor_f64_t64_g (-1) = Some (-1) /\ Gen_duration.ceil_s32_min32_g 61 = Some 2
  /\ Gen_duration.cast_s64_s32_g 4294967297 = Some 1
  /\ Gen_duration.cast_s32_ms64_g 2147483647 = Some 2147483647000
  /\ Gen_duration.cast_f64_t64_g 9223372036854775807 = None
  /\ Gen_duration.plus_min32_t64_g 2 5 = Some 365 /\ Gen_duration.div_ms64_s32_g 7000 0 = None
  /\ Gen_duration.abs_s32_g (-2147483648) = None.
Proof. vm_compute. repeat split; reflexivity. Qed.
