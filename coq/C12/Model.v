(* C12 model: executable mirror of the duration / time_point arithmetic in
     include/etl/_chrono/{duration,duration_cast,floor,ceil,round,abs,time_point,time_point_cast}.hpp,
     include/etl/_ratio/{ratio,ratio_divide}.hpp, include/etl/_numeric/{gcd,lcm}.hpp
   for signed integer representations of 32 or 64 bits (LP64: int = 32, long = intmax_t = 64).

   Staging of the C++ is kept: everything that the compiler evaluates in constant expressions
   (gcd, lcm, ratio normalisation, ratio_divide, the choice of the duration_cast_impl
   specialisation, the common type) is computed from the periods alone; a signed overflow
   there makes the program ill-formed ([IllFormed]), a signed overflow in run-time arithmetic
   on tick counts is undefined behaviour ([Ub SignedOverflow]).  Unsigned arithmetic wraps. *)
From Tetl Require Import Lib.Base.
Local Open Scope Z_scope.

(** * Outcomes *)
Inductive out (A : Type) : Type :=
| Val (a : A)
| Ub (k : ubkind)    (* run-time undefined behaviour *)
| IllFormed          (* the instantiation does not compile (constant-expression overflow, requires-clause) *)
| Fuel.              (* loop fuel exhausted; excluded by the theorems, never happens for 64-bit operands *)
Arguments Val {A} a.
Arguments Ub {A} k.
Arguments IllFormed {A}.
Arguments Fuel {A}.

Definition bind {A B} (r : out A) (f : A -> out B) : out B :=
  match r with
  | Val a => f a
  | Ub k => Ub k
  | IllFormed => IllFormed
  | Fuel => Fuel
  end.
Notation "'do' x <- a ; b" := (bind a (fun x => b)) (at level 200, x name, a at level 100, b at level 200).
Notation "'do' ' p <- a ; b" := (bind a (fun p => b)) (at level 200, p pattern, a at level 100, b at level 200).

(** * Machine arithmetic with the constants written out (no 2^w recomputation at run time) *)
Definition min64 : Z := -9223372036854775808.
Definition max64 : Z := 9223372036854775807.
Definition min32 : Z := -2147483648.
Definition max32 : Z := 2147483647.
Definition two64 : Z := 18446744073709551616.
Definition two32 : Z := 4294967296.

Definition in64 (x : Z) : bool := (min64 <=? x) && (x <=? max64).
Definition in32 (x : Z) : bool := (min32 <=? x) && (x <=? max32).
Definition wrapu64 (x : Z) : Z := x mod two64.
Definition wraps64 (x : Z) : Z := let r := x mod two64 in if r <=? max64 then r else r - two64.
Definition wraps32 (x : Z) : Z := let r := x mod two32 in if r <=? max32 then r else r - two32.

(* a representation type is given by its width: 32 (int) or 64 (long = intmax_t) *)
Definition in_rep (w x : Z) : bool := if w =? 32 then in32 x else in64 x.
(* static_cast to a signed type: value-preserving when representable, modular otherwise (C++20) *)
Definition wrap_rep (w x : Z) : Z :=
  if w =? 32 then (if in32 x then x else wraps32 x) else (if in64 x then x else wraps64 x).
Definition min_rep (w : Z) : Z := if w =? 32 then min32 else min64.

(* signed arithmetic in a constant expression (ill-formed on overflow) and at run time (UB) *)
Definition cx64 (x : Z) : out Z := if in64 x then Val x else IllFormed.
Definition ck64 (x : Z) : out Z := if in64 x then Val x else Ub SignedOverflow.
Definition ck_rep (w x : Z) : out Z := if in_rep w x then Val x else Ub SignedOverflow.
(* (the quotient by 1 is written out so that the extracted model does not run a long division for it) *)
Definition div_rep (w a b : Z) : out Z :=
  if b =? 0 then Ub DivByZero
  else if (a =? min_rep w) && (b =? -1) then Ub SignedOverflow
  else Val (if b =? 1 then a else Z.quot a b).
Definition rem_rep (w a b : Z) : out Z :=
  if b =? 0 then Ub DivByZero
  else if (a =? min_rep w) && (b =? -1) then Ub SignedOverflow
  else Val (Z.rem a b).

(** * _numeric/gcd.hpp, _numeric/lcm.hpp (instantiated with intmax_t, as ratio and common_type do) *)

(* detail::gcd_abs<U>(v): |v| computed modulo 2^64 *)
Definition uabs64 (v : Z) : Z := if v <? 0 then wrapu64 (0 - wrapu64 v) else wrapu64 v.

(* while (b != 0) { r = a % b; a = b; b = r; }  on unsigned operands *)
Fixpoint gcd_loop (fuel : nat) (a b : Z) : out Z :=
  match fuel with
  | O => Fuel
  | S f => if b =? 0 then Val a else gcd_loop f b (a mod b)
  end.

Definition gcd_fuel : nat := 200.

Definition gcd_m (m n : Z) : out Z :=
  do a <- gcd_loop gcd_fuel (uabs64 m) (uabs64 n); Val (wraps64 a).

Definition lcm_m (m n : Z) : out Z :=
  if (m =? 0) || (n =? 0) then Val 0
  else
    do g <- gcd_m m n;
    Val (wraps64 (wrapu64 (Z.quot (uabs64 m) (wrapu64 g) * uabs64 n))).

(** * _ratio/ratio.hpp, ratio_divide.hpp *)
Definition sign_m (v : Z) : Z := if v <? 0 then -1 else 1.

(* ratio<Num, Denom>::num / ::den *)
Definition ratio_m (num den : Z) : out (Z * Z) :=
  do g <- gcd_m num den;
  if (den =? 0) || (g =? 0) then IllFormed        (* static_assert(Denom != 0) *)
  else
    do an <- cx64 (Z.abs num);
    do ad <- cx64 (Z.abs den);
    Val (Z.quot (sign_m num * sign_m den * an) g, Z.quot ad g).

(* ratio_divide<R1, R2> = detail::ratio_divide_impl<R1, R2>::type:
     static_assert(R2::num != 0);
     g1 = gcd(R1::num, R2::num);  g2 = gcd(R2::den, R1::den);
     ratio<(R1::num / g1) * (R2::den / g2), (R1::den / g2) * (R2::num / g1)>::type *)
Definition ratio_divide_m (r1 r2 : Z * Z) : out (Z * Z) :=
  if fst r2 =? 0 then IllFormed
  else
    do g1 <- gcd_m (fst r1) (fst r2);
    do g2 <- gcd_m (snd r2) (snd r1);
    if (g1 =? 0) || (g2 =? 0) then IllFormed
    else
      do a <- cx64 (Z.quot (fst r1) g1 * Z.quot (snd r2) g2);
      do b <- cx64 (Z.quot (snd r1) g2 * Z.quot (fst r2) g1);
      ratio_m a b.

(** * duration types *)
(* duration<Rep, Period>: width of Rep and the members Period::num, Period::den *)
Record dty := { rw : Z; pn : Z; pd : Z }.

(* the type duration<Rep, ratio<N, D>> *)
Definition mk_dty (w num den : Z) : out dty :=
  do '(n, d) <- ratio_m num den; Val {| rw := w; pn := n; pd := d |}.

(* common_type<duration<R1,P1>, duration<R2,P2>>:
   duration<common_type_t<R1,R2>, ratio<gcd(P1::num,P2::num), lcm(P1::den,P2::den)>> *)
Definition common_m (a b : dty) : out dty :=
  do g <- gcd_m (pn a) (pn b);
  do l <- lcm_m (pd a) (pd b);
  do '(n, d) <- ratio_m g l;
  Val {| rw := Z.max (rw a) (rw b); pn := n; pd := d |}.

(** * Staging.  Every operation below is written [fun types => let <compile-time part> in
   fun counts => <run-time part>]: the part before the inner [fun] depends on the duration
   types only (what the C++ compiler evaluates once per instantiation), the inner function is
   the run-time arithmetic on tick counts.  Logically this is just a function of all its
   arguments; the extracted OCaml evaluates the compile-time part once per partial application. *)

(** * duration_cast.hpp: the four duration_cast_impl specialisations; CR = intmax_t *)
Definition duration_cast_m (from to : dty) : Z -> out Z :=
  let cf := ratio_divide_m (pn from, pd from) (pn to, pd to) in
  fun c =>
    do cf' <- cf;
    let cn := fst cf' in
    let cd := snd cf' in
    do v <- (if cn =? 1 then
               (if cd =? 1 then Val c else div_rep 64 c cd)
             else if cd =? 1 then ck64 (c * cn)
             else do p <- ck64 (c * cn); div_rep 64 p cd);
    Val (wrap_rep (rw to) v).

(** * duration.hpp *)
(* same C++ type: the defaulted copy constructor is used and ratio_divide is never instantiated *)
Definition same_ty (a b : dty) : bool := (rw a =? rw b) && (pn a =? pn b) && (pd a =? pd b).

(* detail::period_quotient<From, To>::integral: the conversion factor From/To is representable
   (decided on the cross-cancelled factors, no overflow possible) and a whole number *)
Definition period_quotient_integral_m (from to : dty) : out bool :=
  do g1 <- gcd_m (pn from) (pn to);
  do g2 <- gcd_m (pd from) (pd to);
  if (g1 =? 0) || (g2 =? 0) then IllFormed
  else
    let q1 := Z.quot (pn from) g1 in
    let q2 := Z.quot (pd to) g2 in
    let e1 := Z.quot (pd from) g2 in
    let e2 := Z.quot (pn to) g1 in
    if (q2 =? 0) || (e2 =? 0) then IllFormed
    else
      let representable := (q1 <=? Z.quot max64 q2) && (e1 <=? Z.quot max64 e2) in
      Val (representable && (e1 =? 1) && (e2 =? 1)).

(* whether the converting constructor duration(duration<Rep2,Period2> const&) participates
   (integer representations: the period_quotient<Period2, period>::integral disjunct) *)
Definition convertible_m (from to : dty) : out bool :=
  if same_ty from to then Val true else period_quotient_integral_m from to.

(* converting constructor:
   static_cast<Rep>(static_cast<CR>(other.count()) * ratio_divide<Period2, period>::num
                    / ratio_divide<Period2, period>::den),  CR = intmax_t *)
Definition conv_m (from to : dty) : Z -> out Z :=
  let same := same_ty from to in
  let ok := period_quotient_integral_m from to in
  let cf := ratio_divide_m (pn from, pd from) (pn to, pd to) in
  fun c =>
    if same then Val c
    else
      do ok' <- ok;
      if negb ok' then IllFormed
      else
        do cf' <- cf;
        do p <- ck64 (c * fst cf');
        do q <- div_rep 64 p (snd cf');
        Val (wrap_rep (rw to) q).

(* CD(lhs).count(), CD(rhs).count() for CD = the common type *)
Definition to_common_m (a b : dty) : Z -> Z -> out (dty * Z * Z) :=
  let k := (do t <- common_m a b; Val (t, conv_m a t, conv_m b t)) in
  fun ca cb =>
    do '(t, fa, fb) <- k;
    do x <- fa ca;
    do y <- fb cb;
    Val (t, x, y).

Definition plus_m (a b : dty) : Z -> Z -> out Z :=
  let tc := to_common_m a b in
  fun ca cb => do '(t, x, y) <- tc ca cb; ck_rep (rw t) (x + y).
Definition minus_m (a b : dty) : Z -> Z -> out Z :=
  let tc := to_common_m a b in
  fun ca cb => do '(t, x, y) <- tc ca cb; ck_rep (rw t) (x - y).
Definition div_m (a b : dty) : Z -> Z -> out Z :=
  let tc := to_common_m a b in
  fun ca cb => do '(t, x, y) <- tc ca cb; div_rep (rw t) x y.
Definition mod_m (a b : dty) : Z -> Z -> out Z :=
  let tc := to_common_m a b in
  fun ca cb => do '(t, x, y) <- tc ca cb; rem_rep (rw t) x y.
Definition eq_m (a b : dty) : Z -> Z -> out bool :=
  let tc := to_common_m a b in
  fun ca cb => do '(t, x, y) <- tc ca cb; Val (x =? y).
Definition lt_m (a b : dty) : Z -> Z -> out bool :=
  let tc := to_common_m a b in
  fun ca cb => do '(t, x, y) <- tc ca cb; Val (x <? y).
Definition ne_m (a b : dty) : Z -> Z -> out bool :=
  let f := eq_m a b in fun ca cb => do r <- f ca cb; Val (negb r).
Definition le_m (a b : dty) : Z -> Z -> out bool :=
  let f := lt_m b a in fun ca cb => do r <- f cb ca; Val (negb r).
Definition gt_m (a b : dty) : Z -> Z -> out bool :=
  let f := lt_m b a in fun ca cb => f cb ca.
Definition ge_m (a b : dty) : Z -> Z -> out bool :=
  let f := lt_m a b in fun ca cb => do r <- f ca cb; Val (negb r).

(* members on one duration of width w *)
Definition neg_m (w c : Z) : out Z := ck_rep w (- c).            (* operator-() *)
Definition uplus_m (w c : Z) : out Z := Val c.                    (* operator+() *)
Definition inc_m (w c : Z) : out Z := ck_rep w (c + 1).           (* ++ (value left in the object) *)
Definition dec_m (w c : Z) : out Z := ck_rep w (c - 1).           (* -- *)
Definition add_assign_m (w c d : Z) : out Z := ck_rep w (c + d).  (* += duration *)
Definition sub_assign_m (w c d : Z) : out Z := ck_rep w (c - d).  (* -= duration *)
Definition mul_assign_m (w c s : Z) : out Z := ck_rep w (c * s).  (* *= rep *)
Definition div_assign_m (w c s : Z) : out Z := div_rep w c s.     (* /= rep *)
Definition mod_assign_m (w c s : Z) : out Z := rem_rep w c s.     (* %= rep and %= duration *)

(** * duration * rep, rep * duration, duration / rep, duration % rep  [time.duration.nonmember]
   CD = duration<common_type_t<Rep1, Rep2>, Period>;  return CD(CD(d).count() op s);
   (rep * duration forwards to duration * rep) *)
Definition scale_ty (a : dty) (ws : Z) : dty := {| rw := Z.max (rw a) ws; pn := pn a; pd := pd a |}.
Definition smul_m (a : dty) (ws : Z) : Z -> Z -> out Z :=
  let t := scale_ty a ws in
  let cv := conv_m a t in
  fun c s => do x <- cv c; ck_rep (rw t) (x * s).
Definition sdiv_m (a : dty) (ws : Z) : Z -> Z -> out Z :=
  let t := scale_ty a ws in
  let cv := conv_m a t in
  fun c s => do x <- cv c; div_rep (rw t) x s.
Definition smod_m (a : dty) (ws : Z) : Z -> Z -> out Z :=
  let t := scale_ty a ws in
  let cv := conv_m a t in
  fun c s => do x <- cv c; rem_rep (rw t) x s.

(** * floor.hpp, ceil.hpp, round.hpp, abs.hpp *)
Definition floor_m (from to : dty) : Z -> out Z :=
  let cast := duration_cast_m from to in
  let gt := gt_m to from in
  fun c =>
    do t <- cast c;
    do g <- gt t c;                                 (* t > d *)
    if g then ck_rep (rw to) (t - 1) else Val t.

Definition ceil_m (from to : dty) : Z -> out Z :=
  let cast := duration_cast_m from to in
  let lt := lt_m to from in
  fun c =>
    do t <- cast c;
    do l <- lt t c;                                 (* t < d *)
    if l then ck_rep (rw to) (t + 1) else Val t.

(* the instantiation-time part of round: the operators it uses *)
Definition round_ops (from to : dty) :=
  do t2 <- common_m to to;                          (* type of low + To{1} *)
  do cd1 <- common_m from to;                       (* type of dur - low *)
  do cd2 <- common_m to from;                       (* type of high - dur *)
  Val (plus_m to to, conv_m t2 to, minus_m from to, minus_m to from, lt_m cd1 cd2, gt_m cd1 cd2).

Definition round_m (from to : dty) : Z -> out Z :=
  let fl := floor_m from to in
  let ops := round_ops from to in
  fun c =>
    do low <- fl c;
    do '(pl, cv, mi1, mi2, lt, gt) <- ops;
    do h0 <- pl low 1;
    do high <- cv h0;                               (* To const high = low + To{1} *)
    do lowDiff <- mi1 c low;                        (* dur - low *)
    do highDiff <- mi2 high c;                      (* high - dur *)
    do l <- lt lowDiff highDiff;
    if l then Val low
    else
      do g <- gt lowDiff highDiff;
      if g then Val high
      else if Z.odd low then Val high else Val low. (* low.count() & 1 ? high : low *)

Definition abs_ops (t : dty) :=
  do t2 <- common_m t t; Val (lt_m t t, minus_m t t, conv_m t2 t).

Definition abs_m (t : dty) : Z -> out Z :=
  let ops := abs_ops t in
  fun c =>
    do '(lt, mi, cv) <- ops;
    do neg <- lt c 0;                               (* d < zero() *)
    if neg then do r <- mi 0 c; cv r                (* return zero() - d *)
    else Val c.

(** * time_point.hpp, time_point_cast.hpp: thin wrappers around the stored duration *)
Definition tp_cast_m := duration_cast_m.           (* time_point_cast<To>(tp) *)
Definition tp_floor_m := floor_m.
Definition tp_ceil_m := ceil_m.
Definition tp_round_m := round_m.
Definition tp_conv_m := conv_m.                    (* time_point(time_point<Clock, Dur2> const&) *)
Definition tp_add_assign_m := add_assign_m.
Definition tp_sub_assign_m := sub_assign_m.
Definition tp_inc_m := inc_m.
Definition tp_dec_m := dec_m.
(* time_point + duration, duration + time_point (= time_point + duration), time_point - duration,
   time_point - time_point  [time.point.nonmember]: the duration operators on time_since_epoch() *)
Definition tp_plus_m := plus_m.                    (* tp<a> + b *)
Definition tp_plus_r_m (d tp : dty) : Z -> Z -> out Z :=   (* d + tp<tp>  ==  tp + d *)
  let f := plus_m tp d in fun cd ctp => f ctp cd.
Definition tp_minus_m := minus_m.                  (* tp<a> - b *)
Definition tp_diff_m := minus_m.                   (* tp<a> - tp<b> *)
Definition tp_eq_m := eq_m.
Definition tp_ne_m := ne_m.                        (* rewritten from operator== *)
Definition tp_lt_m := lt_m.
(* these forward to the duration operator of the same name *)
Definition tp_le_m := le_m.
Definition tp_gt_m := gt_m.
Definition tp_ge_m := ge_m.

(** * the convenience typedefs of duration.hpp: (width, num, den) *)
Definition typedefs_m : list (Z * Z * Z) :=
  [ (64, 1, 1000000000); (64, 1, 1000000); (64, 1, 1000); (64, 1, 1);
    (32, 60, 1); (32, 3600, 1); (32, 86400, 1); (32, 604800, 1); (32, 2629746, 1); (32, 31556952, 1) ].
