(* C12 proofs, floating-point target, ALL int64 counts and all representable factors: the result of
   duration_cast / the converting constructor to duration<double, P2> is always a finite double
   (no overflow, no NaN) and is the nested correctly-rounded expression
   rnd (rnd (rnd c * rnd num) / rnd den). *)
From Coq Require Import ZArith Reals Bool Lia Lra ZifyBool.
From Flocq Require Import Core BinarySingleNaN.
From Tetl Require Import Lib.Base C12.Model C12.Spec C12.ProofsArith C12.ProofsCast C12.FModel C12.FProofs.
Local Open Scope Z_scope.

Lemma format_bpow64 e : -1074 <= e -> generic_format radix2 fexp64 (bpow radix2 e).
Proof. intros He. apply generic_format_bpow. unfold SpecFloat.fexp, SpecFloat.emin. lia. Qed.

(* rounding keeps a value within a power of two *)
Lemma rnd_le_bpow r e : -1074 <= e -> (Rabs r <= bpow radix2 e)%R -> (Rabs (rnd64 r) <= bpow radix2 e)%R.
Proof.
  intros He H. apply abs_round_le_generic; [apply FLT_exp_valid; reflexivity|apply valid_rnd_round_mode| |exact H].
  apply format_bpow64. exact He.
Qed.

Lemma bpow_lt_emax e : e < 1024 -> (bpow radix2 e < bpow radix2 1024)%R.
Proof. intros H. apply bpow_lt. exact H. Qed.

(* static_cast<double>(n) for any |n| <= 2^63 *)
Lemma d_of_Z_any n : Z.abs n <= 2 ^ 63 ->
  B2R (d_of_Z n) = rnd64 (IZR n) /\ is_finite (d_of_Z n) = true /\ (Rabs (B2R (d_of_Z n)) <= bpow radix2 63)%R.
Proof.
  intros Hn. unfold d_of_Z.
  generalize (binary_normalize_correct 53 1024 p64 pe64 mode_NE n 0 false). cbn zeta.
  assert (HF : F2R (Float radix2 n 0) = IZR n).
  { unfold F2R. cbn [Fnum Fexp bpow]. now rewrite Rmult_1_r. }
  rewrite HF.
  assert (Hb : (Rabs (IZR n) <= bpow radix2 63)%R).
  { rewrite <- abs_IZR. change (bpow radix2 63) with (IZR (2 ^ 63)). apply IZR_le. exact Hn. }
  pose proof (rnd_le_bpow _ 63 ltac:(lia) Hb) as Hr.
  rewrite Rlt_bool_true by (eapply Rle_lt_trans; [exact Hr|apply bpow_lt_emax; lia]).
  intros (H1 & H2 & _). rewrite H1. repeat split; assumption.
Qed.

(* a positive integer converts to a double >= 1 *)
Lemma d_of_Z_ge_1 n : 1 <= n <= 2 ^ 63 -> (1 <= B2R (d_of_Z n))%R.
Proof.
  intros Hn. destruct (d_of_Z_any n ltac:(lia)) as (R & _ & _). rewrite R.
  rewrite <- (rnd_IZR 1) by (unfold two53; lia).
  apply round_le; [apply FLT_exp_valid; reflexivity|apply valid_rnd_round_mode|apply IZR_le; lia].
Qed.

Lemma dmul_bounded x y a b : is_finite x = true -> is_finite y = true ->
  (Rabs (B2R x) <= bpow radix2 a)%R -> (Rabs (B2R y) <= bpow radix2 b)%R -> -1074 <= a + b < 1024 ->
  B2R (dmul x y) = rnd64 (B2R x * B2R y) /\ is_finite (dmul x y) = true
  /\ (Rabs (B2R (dmul x y)) <= bpow radix2 (a + b))%R.
Proof.
  intros Fx Fy Hx Hy Hab. unfold dmul.
  generalize (Bmult_correct 53 1024 p64 pe64 mode_NE x y).
  assert (Hp : (Rabs (B2R x * B2R y) <= bpow radix2 (a + b))%R).
  { rewrite Rabs_mult, bpow_plus. apply Rmult_le_compat; try apply Rabs_pos; assumption. }
  pose proof (rnd_le_bpow _ (a + b) ltac:(lia) Hp) as Hr.
  rewrite Rlt_bool_true by (eapply Rle_lt_trans; [exact Hr|apply bpow_lt_emax; lia]).
  rewrite Fx, Fy. intros (H1 & H2 & _). rewrite H1. repeat split; assumption.
Qed.

Lemma ddiv_bounded x y a : is_finite x = true -> (Rabs (B2R x) <= bpow radix2 a)%R -> -1074 <= a < 1024 ->
  (1 <= B2R y)%R ->
  B2R (ddiv x y) = rnd64 (B2R x / B2R y) /\ is_finite (ddiv x y) = true
  /\ (Rabs (B2R (ddiv x y)) <= bpow radix2 a)%R.
Proof.
  intros Fx Hx Ha Hy. unfold ddiv.
  generalize (Bdiv_correct 53 1024 p64 pe64 mode_NE x y).
  assert (Hnz : B2R y <> 0%R) by lra. intros H. specialize (H Hnz).
  assert (Hq : (Rabs (B2R x / B2R y) <= bpow radix2 a)%R).
  { unfold Rdiv. rewrite Rabs_mult. rewrite (Rabs_pos_eq (/ B2R y)) by (left; apply Rinv_0_lt_compat; lra).
    apply Rle_trans with (Rabs (B2R x) * 1)%R; [|lra].
    apply Rmult_le_compat_l; [apply Rabs_pos|]. rewrite <- Rinv_1. apply Rinv_le_contravar; lra. }
  pose proof (rnd_le_bpow _ a ltac:(lia) Hq) as Hr.
  rewrite Rlt_bool_true in H by (eapply Rle_lt_trans; [exact Hr|apply bpow_lt_emax; lia]).
  destruct H as (H1 & H2 & _). rewrite H1, H2. repeat split; assumption.
Qed.

Section Any.
  Variables w1 n1 d1 w2 n2 d2 c : Z.
  Hypothesis Hp1 : period_ok n1 d1 = true.
  Hypothesis Hp2 : period_ok n2 d2 = true.
  Hypothesis Hcn : factor_num n1 d1 n2 d2 <= max64.
  Hypothesis Hcd : factor_den n1 d1 n2 d2 <= max64.
  Hypothesis Hc : fits 64 c = true.
  Let cn := factor_num n1 d1 n2 d2.
  Let cd := factor_den n1 d1 n2 d2.
  Let nested : R := rnd64 (rnd64 (rnd64 (IZR c) * rnd64 (IZR cn)) / rnd64 (IZR cd)).

  Lemma c_abs : Z.abs c <= 2 ^ 63.
  Proof. rewrite fits64_iff in Hc. unfold min64, max64 in Hc. lia. Qed.

  Lemma fconv_m_any : exists r,
    fconv_m (Dur w1 n1 d1) (Dur w2 n2 d2) c = Val r /\ is_finite r = true /\ B2R r = nested.
  Proof.
    destruct (fpos n1 d1 n2 d2 Hp1 Hp2) as [Ha0 Hb0].
    destruct (factor_facts _ _ _ _ Ha0 Hb0) as (Hg & Ea & Eb & Pcn & Pcd). fold cn cd in Pcn, Pcd.
    unfold fconv_m. cbv zeta.
    rewrite period_quotient_representable_m_spec by assumption. cbn [bind pn pd].
    replace (factor_num n1 d1 n2 d2 <=? max64) with true by (symmetry; apply Z.leb_le; exact Hcn).
    replace (factor_den n1 d1 n2 d2 <=? max64) with true by (symmetry; apply Z.leb_le; exact Hcd).
    cbn [andb negb]. rewrite ratio_divide_m_spec by assumption. cbn [bind fst snd]. fold cn cd.
    destruct (d_of_Z_any c c_abs) as (Rc & Fc & Bc).
    destruct (d_of_Z_any cn ltac:(unfold cn, max64 in *; lia)) as (Rn & Fn & Bn).
    destruct (d_of_Z_any cd ltac:(unfold cd, max64 in *; lia)) as (Rd & Fd & Bd).
    pose proof (d_of_Z_ge_1 cd ltac:(unfold cd, max64 in *; lia)) as Hd1.
    destruct (dmul_bounded _ _ 63 63 Fc Fn Bc Bn ltac:(lia)) as (Rm & Fm & Bm).
    destruct (ddiv_bounded _ (d_of_Z cd) (63 + 63) Fm Bm ltac:(lia) Hd1) as (Rq & Fq & _).
    eexists. split; [reflexivity|]. split; [exact Fq|]. rewrite Rq, Rm, Rc, Rn, Rd. reflexivity.
  Qed.

  (* duration_cast: the specialisations drop the multiplication / division by 1, which are exact *)
  Lemma fcast_m_any : exists r,
    fcast_m (Dur w1 n1 d1) (Dur w2 n2 d2) c = Val r /\ is_finite r = true /\ B2R r = nested.
  Proof.
    destruct (fpos n1 d1 n2 d2 Hp1 Hp2) as [Ha0 Hb0].
    destruct (factor_facts _ _ _ _ Ha0 Hb0) as (Hg & Ea & Eb & Pcn & Pcd). fold cn cd in Pcn, Pcd.
    unfold fcast_m. cbn [rw pn pd]. cbv zeta.
    rewrite ratio_divide_m_spec by assumption. cbn [bind fst snd]. fold cn cd.
    destruct (d_of_Z_any c c_abs) as (Rc & Fc & Bc).
    destruct (d_of_Z_any cn ltac:(unfold cn, max64 in *; lia)) as (Rn & Fn & Bn).
    destruct (d_of_Z_any cd ltac:(unfold cd, max64 in *; lia)) as (Rd & Fd & Bd).
    pose proof (d_of_Z_ge_1 cd ltac:(unfold cd, max64 in *; lia)) as Hd1.
    assert (G : generic_format radix2 fexp64 (rnd64 (IZR c))).
    { apply generic_format_round; [apply FLT_exp_valid; reflexivity|apply valid_rnd_round_mode]. }
    assert (R1 : rnd64 (IZR 1) = 1%R) by (apply rnd_IZR; unfold two53; lia).
    unfold nested.
    destruct (cn =? 1) eqn:Ecn.
    - apply Z.eqb_eq in Ecn. rewrite Ecn, R1, Rmult_1_r.
      rewrite (round_generic _ _ _ (rnd64 (IZR c))) by (try apply valid_rnd_round_mode; exact G).
      destruct (cd =? 1) eqn:Ecd.
      + apply Z.eqb_eq in Ecd. rewrite Ecd, R1. unfold Rdiv. rewrite Rinv_1, Rmult_1_r.
        rewrite (round_generic _ _ _ (rnd64 (IZR c))) by (try apply valid_rnd_round_mode; exact G).
        eexists. split; [reflexivity|]. split; [exact Fc|exact Rc].
      + destruct (ddiv_bounded _ (d_of_Z cd) 63 Fc Bc ltac:(lia) Hd1) as (Rq & Fq & _).
        eexists. split; [reflexivity|]. split; [exact Fq|]. rewrite Rq, Rc, Rd. reflexivity.
    - destruct (dmul_bounded _ _ 63 63 Fc Fn Bc Bn ltac:(lia)) as (Rm & Fm & Bm).
      destruct (cd =? 1) eqn:Ecd.
      + apply Z.eqb_eq in Ecd. rewrite Ecd, R1. unfold Rdiv. rewrite Rinv_1, Rmult_1_r.
        rewrite (round_generic _ _ _ (rnd64 _)) by
          (try apply valid_rnd_round_mode; apply generic_format_round; [apply FLT_exp_valid; reflexivity|apply valid_rnd_round_mode]).
        eexists. split; [reflexivity|]. split; [exact Fm|]. rewrite Rm, Rc, Rn. reflexivity.
      + destruct (ddiv_bounded _ (d_of_Z cd) (63 + 63) Fm Bm ltac:(lia) Hd1) as (Rq & Fq & _).
        eexists. split; [reflexivity|]. split; [exact Fq|]. rewrite Rq, Rm, Rc, Rn, Rd. reflexivity.
  Qed.
End Any.
