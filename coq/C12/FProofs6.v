(* C12 proofs: the computable guard [fsrc_ok] used by the correspondence run implies every
   hypothesis of the float-source theorems (so the spec leg is printed only inside their domain). *)
From Coq Require Import ZArith Bool Lia ZifyBool Znumtheory.
From Tetl Require Import Lib.Base C12.Model C12.Spec C12.ProofsArith C12.ProofsCast C12.ProofsCommon
  C12.ProofsRound C12.ProofsAlgebra C12.FModel.
From Coq Require Import Reals.
From Tetl Require Import C12.FProofs C12.FProofs2 C12.FProofs3.
Local Open Scope Z_scope.

(* |y| <= |x| + k*t when y*K and x*K differ by at most k*t*K *)
Lemma scaled_abs_le x y t k K : 0 < K -> 0 <= t -> 0 <= k ->
  Z.abs (y * K - x * K) <= k * (t * K) -> Z.abs y <= Z.abs x + k * t.
Proof.
  intros HK Ht Hk H.
  assert (E : y * K - x * K = (y - x) * K) by ring. rewrite E in H.
  rewrite Z.abs_mul, (Z.abs_eq K) in H by lia.
  assert (H2 : Z.abs (y - x) * K <= (k * t) * K) by (rewrite <- Z.mul_assoc; exact H).
  apply Z.mul_le_mono_pos_r in H2; [|exact HK]. lia.
Qed.

(* small arithmetic facts, proved in small contexts *)
Lemma abs_between q t M : q <= t <= q + 1 -> Z.abs q + 2 <= M -> Z.abs t <= M.
Proof. lia. Qed.
Lemma abs_succ q M : Z.abs q + 2 <= M -> Z.abs (q + 1) <= M.
Proof. lia. Qed.
Lemma abs_self q M : Z.abs q + 2 <= M -> Z.abs q <= M.
Proof. lia. Qed.
Lemma le_add1 a b t s : a <= b + 1 * t -> b + 2 * t <= s -> 0 <= t -> a <= b + 2 * t.
Proof. lia. Qed.
Lemma scaled_range v r K t B l : 0 < K -> 0 < l -> v * K = r * l -> t * K = B * l -> 0 <= r <= B ->
  0 <= v <= t.
Proof.
  intros HK Hl Ev Et Hr. split.
  - apply (Z.mul_le_mono_pos_r _ _ K HK). rewrite Z.mul_0_l, Ev. apply Z.mul_nonneg_nonneg; lia.
  - apply (Z.mul_le_mono_pos_r _ _ K HK). rewrite Ev, Et. apply Z.mul_le_mono_nonneg_r; lia.
Qed.
Lemma abs_range v t M : 0 <= v <= t -> t <= M -> Z.abs v <= M.
Proof. lia. Qed.

Section Guard.
  Variables n1 d1 n2 d2 c : Z.
  Hypothesis Hp1 : period_ok n1 d1 = true.
  Hypothesis Hp2 : period_ok n2 d2 = true.
  Hypothesis Hg : fsrc_ok n1 d1 n2 d2 c = true.
  Let t1 := tk1 n1 d1 n2 d2.
  Let t2 := tk2 n1 d1 n2 d2.
  Let X := c * n1 * d2.
  Let B := d1 * n2.

  Lemma guard_parts :
    Z.abs c <= two53 /\ factor_num n1 d1 n2 d2 <= two53 /\ factor_den n1 d1 n2 d2 <= two53
    /\ Z.abs (c * factor_num n1 d1 n2 d2) < two53 /\ cden d1 d2 <= max64 /\ t1 <= two53 /\ t2 <= two53
    /\ Z.abs c * t1 + 2 * t2 <= two53 /\ Z.abs (floor_spec n1 d1 n2 d2 c) + 2 <= two53.
  Proof.
    unfold fsrc_ok in Hg. cbv zeta in Hg. fold (tk1 n1 d1 n2 d2) (tk2 n1 d1 n2 d2) in Hg. fold t1 t2 in Hg.
    rewrite !andb_true_iff in Hg. rewrite !Z.leb_le, Z.ltb_lt in Hg. tauto.
  Qed.

  (* x = c*t1 and y = t*t2 scaled by K = d1*d2*g: x*K = X*l, y*K = (t*B)*l, t2*K = B*l *)
  Lemma scale_facts : exists K l, 0 < K /\ 0 < l /\ 0 < t1 /\ 0 < t2 /\ 0 < B
    /\ c * t1 * K = X * l /\ t2 * K = B * l /\ (forall t, t * t2 * K = t * B * l).
  Proof.
    destruct (tk_facts n1 d1 n2 d2 Hp1 Hp2) as (Hg0 & Hl0 & _ & _ & _ & _ & E1 & E2 & P1 & P2).
    pose proof (proj1 (period_ok_iff _ _) Hp1) as (Hn1 & Hd1 & _).
    pose proof (proj1 (period_ok_iff _ _) Hp2) as (Hn2 & Hd2 & _).
    fold t1 t2 in E1, E2, P1, P2.
    exists (d1 * d2 * cnum n1 n2), (cden d1 d2).
    assert (HK : 0 < d1 * d2 * cnum n1 n2) by (apply Z.mul_pos_pos; [apply Z.mul_pos_pos|]; lia).
    assert (HB : 0 < B) by (unfold B; apply Z.mul_pos_pos; lia).
    assert (Et2 : t2 * (d1 * d2 * cnum n1 n2) = B * cden d1 d2).
    { unfold B. transitivity (d1 * (t2 * (d2 * cnum n1 n2))); [ring|]. rewrite E2. ring. }
    repeat split; try assumption.
    - unfold X. transitivity (c * d2 * (t1 * (d1 * cnum n1 n2))); [ring|]. rewrite E1. ring.
    - intros t. rewrite <- Z.mul_assoc, Et2. ring.
  Qed.

  Lemma near_bound t k : 0 <= k -> Z.abs (t * B - X) <= k * B -> Z.abs (t * t2) <= Z.abs c * t1 + k * t2.
  Proof.
    intros Hk Hn. destruct scale_facts as (K & l & HK & Hl & P1 & P2 & HB & Ex & Eb & Ey).
    assert (Hx : Z.abs (c * t1) = Z.abs c * t1) by (rewrite Z.abs_mul, (Z.abs_eq t1) by lia; reflexivity).
    rewrite <- Hx. apply (scaled_abs_le (c * t1) (t * t2) t2 k K HK ltac:(lia) Hk).
    rewrite Ey, Ex, Eb.
    replace (t * B * l - X * l) with ((t * B - X) * l) by ring.
    rewrite Z.abs_mul, (Z.abs_eq l) by lia.
    replace (k * (B * l)) with (k * B * l) by ring.
    apply Z.mul_le_mono_nonneg_r; [lia|exact Hn].
  Qed.

  (* distances of truncation, floor and floor + 1 from the exact value, in target ticks *)
  Lemma dist_facts :
    let q := floor_spec n1 d1 n2 d2 c in
    Z.abs (cast_spec n1 d1 n2 d2 c * B - X) <= 1 * B
    /\ Z.abs (q * B - X) <= 1 * B /\ Z.abs ((q + 1) * B - X) <= 1 * B
    /\ 0 <= X - q * B < B.
  Proof.
    destruct scale_facts as (K & l & HK & Hl & P1 & P2 & HB & _).
    cbv zeta. unfold floor_spec, cast_spec. fold X B.
    pose proof (Z.div_mod X B ltac:(lia)) as E. pose proof (Z.mod_pos_bound X B HB) as Hr.
    pose proof (quot_between X B HB) as Hq. pose proof (floor_le_ceil X B HB) as Hc.
    set (q := X / B) in *. set (r := X mod B) in *. set (t := Z.quot X B) in *.
    assert (Hqr : X - q * B = r) by lia.
    assert (Ht : t = q \/ t = q + 1) by lia.
    repeat split; lia.
  Qed.

  Lemma fits64_small z : Z.abs z <= two53 -> fits 64 z = true.
  Proof. intros H. rewrite fits64_iff. unfold two53, min64, max64 in *. lia. Qed.

  (* every hypothesis of C12_float_source_cast_exact / _rounding_exact *)
  Lemma fsrc_ok_sound :
    let q := floor_spec n1 d1 n2 d2 c in
    fbounds n1 d1 n2 d2 c
    /\ Z.abs (c * factor_num n1 d1 n2 d2) < two53
    /\ fits 64 (cast_spec n1 d1 n2 d2 c) = true
    /\ fboth_ok n1 d1 n2 d2 c (cast_spec n1 d1 n2 d2 c)
    /\ fits 64 q = true /\ fits 64 (ceil_spec n1 d1 n2 d2 c) = true /\ fits 64 (q + 1) = true
    /\ fboth_ok n1 d1 n2 d2 c q /\ fboth_ok n1 d1 n2 d2 c (q + 1)
    /\ Z.abs (minus_spec n1 d1 n2 d2 c q) <= two53
    /\ Z.abs (minus_spec n2 d2 n1 d1 (q + 1) c) <= two53.
  Proof.
    cbv zeta.
    destruct guard_parts as (Gc & Gn & Gd & Gp & Gl & G1 & G2 & Gs & Gq).
    destruct scale_facts as (K & l & HK & Hl & P1 & P2 & HB & Ex & Eb & Ey).
    destruct dist_facts as (Dt & Dq & Dq1 & Dr). cbv zeta in Dq, Dq1, Dr.
    pose proof (near_bound _ 1 (Z.le_0_1) Dt) as Nt.
    pose proof (near_bound _ 1 (Z.le_0_1) Dq) as Nq.
    pose proof (near_bound _ 1 (Z.le_0_1) Dq1) as Nq1.
    assert (Ht2 : 0 <= t2) by (apply Z.lt_le_incl; exact P2).
    assert (Hx : Z.abs (c * t1) = Z.abs c * t1).
    { rewrite Z.abs_mul. f_equal. apply Z.abs_eq. apply Z.lt_le_incl. exact P1. }
    (* truncation and ceiling lie between floor and floor + 1 *)
    assert (Ho : floor_spec n1 d1 n2 d2 c <= cast_spec n1 d1 n2 d2 c <= floor_spec n1 d1 n2 d2 c + 1
                 /\ floor_spec n1 d1 n2 d2 c <= ceil_spec n1 d1 n2 d2 c <= floor_spec n1 d1 n2 d2 c + 1).
    { unfold floor_spec, cast_spec, ceil_spec. fold X B.
      pose proof (quot_between X B HB) as Q1. pose proof (floor_le_ceil X B HB) as Q2.
      revert Q1 Q2. generalize (X / B) (Z.quot X B) (- (- X / B)). clear. intros a b e Q1 Q2. lia. }
    destruct Ho as [Ho1 Ho2].
    set (q := floor_spec n1 d1 n2 d2 c) in *. set (t0 := cast_spec n1 d1 n2 d2 c) in *.
    assert (At0 : Z.abs t0 <= two53) by (exact (abs_between q t0 two53 Ho1 Gq)).
    assert (Ace : Z.abs (ceil_spec n1 d1 n2 d2 c) <= two53) by (exact (abs_between q _ two53 Ho2 Gq)).
    assert (Aq : Z.abs q <= two53) by (exact (abs_self q two53 Gq)).
    assert (Aq1 : Z.abs (q + 1) <= two53) by (exact (abs_succ q two53 Gq)).
    assert (Hbo : forall t, Z.abs t <= two53 -> Z.abs (t * t2) <= Z.abs c * t1 + 1 * t2 -> fboth_ok n1 d1 n2 d2 c t).
    { intros t Ht Hy. unfold fboth_ok. fold t1 t2. rewrite Hx.
      pose proof (le_add1 _ _ _ _ Hy Gs Ht2) as Hy2.
      assert (Hc1 : Z.abs c * t1 <= two53).
      { apply Z.le_trans with (Z.abs c * t1 + 2 * t2); [|exact Gs].
        rewrite <- (Z.add_0_r (Z.abs c * t1)) at 1. apply Z.add_le_mono_l. apply Z.mul_nonneg_nonneg; [discriminate|exact Ht2]. }
      repeat split; try assumption. apply Z.le_trans with (Z.abs c * t1 + 2 * t2); assumption. }
    split; [unfold fbounds; repeat split; try assumption; apply Z.lt_le_incl; exact Gp|]. split; [exact Gp|].
    split; [apply fits64_small; exact At0|]. split; [apply Hbo; assumption|].
    split; [apply fits64_small; exact Aq|]. split; [apply fits64_small; exact Ace|].
    split; [apply fits64_small; exact Aq1|].
    split; [apply Hbo; assumption|]. split; [apply Hbo; assumption|].
    (* the two differences are at most one target tick, i.e. at most t2 common ticks *)
    assert (Elo : minus_spec n1 d1 n2 d2 c q = c * t1 - q * t2).
    { unfold minus_spec. cbv zeta. rewrite in_common_l, in_common_r. reflexivity. }
    assert (Ehi : minus_spec n2 d2 n1 d1 (q + 1) c = (q + 1) * t2 - c * t1).
    { unfold minus_spec. cbv zeta. rewrite in_common_r, in_common_l. reflexivity. }
    rewrite Elo, Ehi.
    assert (Slo : (c * t1 - q * t2) * K = (X - q * B) * l).
    { replace ((c * t1 - q * t2) * K) with (c * t1 * K - q * t2 * K) by ring. rewrite Ex, Ey. ring. }
    assert (Shi : ((q + 1) * t2 - c * t1) * K = ((q + 1) * B - X) * l).
    { replace (((q + 1) * t2 - c * t1) * K) with ((q + 1) * t2 * K - c * t1 * K) by ring. rewrite Ex, Ey. ring. }
    assert (Rlo : 0 <= X - q * B <= B) by (split; [apply Dr|apply Z.lt_le_incl; apply Dr]).
    assert (Rhi : 0 <= (q + 1) * B - X <= B).
    { replace ((q + 1) * B - X) with (B - (X - q * B)) by ring.
      revert Dr. generalize (X - q * B). generalize B. clear. intros B r Dr. lia. }
    split.
    - apply (abs_range _ t2); [exact (scaled_range _ _ K t2 B l HK Hl Slo Eb Rlo)|exact G2].
    - apply (abs_range _ t2); [exact (scaled_range _ _ K t2 B l HK Hl Shi Eb Rhi)|exact G2].
  Qed.
End Guard.

(* the float-source theorems under the computable guard *)
Lemma float_source_guarded w1 n1 d1 w2 n2 d2 c :
  period_ok n1 d1 = true -> period_ok n2 d2 = true -> fsrc_ok n1 d1 n2 d2 c = true ->
  let a := Dur w1 n1 d1 in let b := Dur w2 n2 d2 in
  di_cast_m a b (d_of_Z c) = Val (cast_spec n1 d1 n2 d2 c)
  /\ di_floor_m a b (d_of_Z c) = Val (floor_spec n1 d1 n2 d2 c)
  /\ di_ceil_m a b (d_of_Z c) = Val (ceil_spec n1 d1 n2 d2 c)
  /\ di_round_m a b (d_of_Z c) = Val (round_spec n1 d1 n2 d2 c).
Proof.
  intros Hp1 Hp2 Hg. cbv zeta.
  destruct (fsrc_ok_sound n1 d1 n2 d2 c Hp1 Hp2 Hg) as (H1 & H2 & H3 & H4 & H5 & H6 & H7 & H8 & H9 & H10 & H11).
  cbv zeta in *.
  split; [apply FProofs2.di_cast_m_spec; assumption|].
  split; [apply di_floor_m_spec; assumption|].
  split; [apply di_ceil_m_spec; assumption|].
  apply di_round_m_spec; assumption.
Qed.
