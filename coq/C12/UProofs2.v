(* C12 proofs, part U2: floor, ceil, round (ties to even), abs and the converting constructor between any two
   integer representations (UModel.v against Spec.v / USpec.v). *)
From Tetl Require Import Lib.Base C12.Model C12.Spec C12.UModel C12.USpec C12.ProofsArith C12.ProofsCast
  C12.ProofsCommon C12.ProofsRound C12.ProofsScalar C12.UProofs.
From Coq Require Import ZifyBool Znumtheory.
Local Open Scope Z_scope.
Ltac Zify.zify_post_hook ::= Z.to_euclidean_division_equations.

(** * two durations of the same type *)
Lemma tk_self n d : period_ok n d = true -> tk1 n d n d = 1 /\ tk2 n d n d = 1 /\ cnum n n = n /\ cden d d = d.
Proof.
  intros Hp. apply period_ok_iff in Hp. destruct Hp as (Hn & Hd & _).
  unfold tk1, tk2, cnum, cden. rewrite Z.gcd_diag, Z.lcm_diag, !Z.abs_eq by lia.
  rewrite ticks_self by lia. auto.
Qed.

Lemma common_rep_diag r : common_rep r r = r.
Proof. unfold common_rep. rewrite Z.eqb_refl. reflexivity. Qed.

Lemma uboth_ok_self r n d x y : urep_ok r = true -> period_ok n d = true ->
  in_rty r x = true -> in_rty r y = true -> uboth_ok r n d r n d x y = true.
Proof.
  intros Hr Hp Hx Hy. apply uboth_ok_iff; try assumption.
  destruct (tk_self n d Hp) as (E1 & E2 & E3 & E4). rewrite E1, E2, !Z.mul_1_r, common_rep_diag.
  repeat split; try assumption.
  apply common_ok_iff. fold (tk1 n d n d) (tk2 n d n d). rewrite E1, E2, E4.
  apply period_ok_iff in Hp. unfold max64 in *. lia.
Qed.

Lemma uto_common_m_self r n d x y : urep_ok r = true -> period_ok n d = true ->
  in_rty r x = true -> in_rty r y = true ->
  uto_common_m (Dur r n d) (Dur r n d) x y = Val (Dur r n d, x, y).
Proof.
  intros Hr Hp Hx Hy. rewrite uto_common_m_spec by (try assumption; apply uboth_ok_self; assumption).
  destruct (tk_self n d Hp) as (E1 & E2 & E3 & E4). rewrite E1, E2, E3, E4, !Z.mul_1_r, common_rep_diag. reflexivity.
Qed.

Lemma ult_m_self r n d x y : urep_ok r = true -> period_ok n d = true ->
  in_rty r x = true -> in_rty r y = true -> ult_m (Dur r n d) (Dur r n d) x y = Val (x <? y).
Proof.
  intros Hr Hp Hx Hy. unfold ult_m. cbv zeta. rewrite uto_common_m_self by assumption. cbn [bind rw].
  destruct (uac_self_sup r (urep_rty r Hr)) as [Hs _].
  unfold bin_lt. cbv zeta. rewrite !cvt_id by (eapply in_rty_sup; eassumption). reflexivity.
Qed.

Lemma uplus_m_self r n d x y : urep_ok r = true -> period_ok n d = true ->
  in_rty r x = true -> in_rty r y = true -> in_rty r (x + y) = true ->
  uadd_m (Dur r n d) (Dur r n d) x y = Val (x + y).
Proof.
  intros Hr Hp Hx Hy Hs. unfold uadd_m. cbv zeta. rewrite uto_common_m_self by assumption. cbn [bind rw].
  destruct (uac_self_sup r (urep_rty r Hr)) as [Hsup _].
  rewrite (bin_add_ok r r (uac r r)) by (try reflexivity; eapply in_rty_sup; eassumption).
  cbn [bind]. rewrite cvt_id by assumption. reflexivity.
Qed.

Lemma uminus_m_self r n d x y : urep_ok r = true -> period_ok n d = true ->
  in_rty r x = true -> in_rty r y = true -> in_rty r (x - y) = true ->
  usub_m (Dur r n d) (Dur r n d) x y = Val (x - y).
Proof.
  intros Hr Hp Hx Hy Hs. unfold usub_m. cbv zeta. rewrite uto_common_m_self by assumption. cbn [bind rw].
  destruct (uac_self_sup r (urep_rty r Hr)) as [Hsup _].
  rewrite (bin_sub_ok r r (uac r r)) by (try reflexivity; eapply in_rty_sup; eassumption).
  cbn [bind]. rewrite cvt_id by assumption. reflexivity.
Qed.

Lemma ucommon_m_self r n d : period_ok n d = true -> ucommon_m (Dur r n d) (Dur r n d) = Val (Dur r n d).
Proof.
  intros Hp. destruct (tk_self n d Hp) as (_ & _ & E3 & E4).
  rewrite ucommon_m_spec; try assumption.
  - rewrite E3, E4, common_rep_diag. reflexivity.
  - rewrite E4. apply period_ok_iff in Hp. lia.
Qed.

Lemma uconv_m_same t c : uconv_m t t c = Val c.
Proof. unfold uconv_m. cbv zeta. rewrite same_ty_refl. reflexivity. Qed.

Section URounding.
  Variables r1 n1 d1 r2 n2 d2 : Z.
  Hypothesis Hr1 : urep_ok r1 = true.
  Hypothesis Hr2 : urep_ok r2 = true.
  Hypothesis Hp1 : period_ok n1 d1 = true.
  Hypothesis Hp2 : period_ok n2 d2 = true.
  Let from := Dur r1 n1 d1.
  Let to := Dur r2 n2 d2.

  Lemma upos_factor : 0 < d1 * n2.
  Proof. apply period_ok_iff in Hp1, Hp2. nia. Qed.

  Lemma ufloor_m_spec c : ufloor_ok r1 n1 d1 r2 n2 d2 c = true ->
    ufloor_m from to c = Val (floor_spec n1 d1 n2 d2 c).
  Proof.
    unfold ufloor_ok. cbv zeta. rewrite !Bool.andb_true_iff, ufits_in_rty by assumption. intros [[Hc Hb] Hf].
    pose proof (proj1 (ucast_ok_iff _ _ _ _ _ _ _ Hr1 Hr2) Hc) as (_ & _ & _ & _ & _ & Hcast).
    unfold ufloor_m, from, to. cbv zeta. rewrite ucast_m_spec by assumption. cbn [bind].
    unfold ugt_m. cbv zeta. rewrite ult_m_spec by assumption. cbn [bind rw].
    pose proof upos_factor as HB.
    assert (E : (if lt_spec n1 d1 n2 d2 c (cast_spec n1 d1 n2 d2 c)
                 then cast_spec n1 d1 n2 d2 c - 1 else cast_spec n1 d1 n2 d2 c) = floor_spec n1 d1 n2 d2 c).
    { unfold lt_spec, cast_spec, floor_spec.
      replace (Z.quot (c * n1 * d2) (d1 * n2) * n2 * d1) with (Z.quot (c * n1 * d2) (d1 * n2) * (d1 * n2)) by ring.
      apply floor_from_trunc. exact HB. }
    destruct (lt_spec n1 d1 n2 d2 c (cast_spec n1 d1 n2 d2 c)).
    - rewrite <- E in Hf. pose proof (urep_rty _ Hr2) as Ht2.
      destruct (uac_self_sup r2 Ht2) as [Hs _]. destruct (rty_facts r2 Ht2) as (F1 & F2 & _ & _).
      rewrite (bin_sub_ok r2 r2 (uac r2 r2)); try reflexivity; try (eapply in_rty_sup; eassumption).
      + cbn [bind]. rewrite cvt_id by assumption. rewrite E. reflexivity.
      + eapply in_rty_sup; [eassumption|]. apply in_rty_iff. lia.
    - rewrite E. reflexivity.
  Qed.

  Lemma uceil_m_spec c : uceil_ok r1 n1 d1 r2 n2 d2 c = true ->
    uceil_m from to c = Val (ceil_spec n1 d1 n2 d2 c).
  Proof.
    unfold uceil_ok. cbv zeta. rewrite !Bool.andb_true_iff, ufits_in_rty by assumption. intros [[Hc Hb] Hf].
    pose proof (proj1 (ucast_ok_iff _ _ _ _ _ _ _ Hr1 Hr2) Hc) as (_ & _ & _ & _ & _ & Hcast).
    unfold uceil_m, from, to. cbv zeta. rewrite ucast_m_spec by assumption. cbn [bind].
    rewrite ult_m_spec by (try assumption; rewrite uboth_ok_sym; assumption). cbn [bind rw].
    pose proof upos_factor as HB.
    assert (E : (if lt_spec n2 d2 n1 d1 (cast_spec n1 d1 n2 d2 c) c
                 then cast_spec n1 d1 n2 d2 c + 1 else cast_spec n1 d1 n2 d2 c) = ceil_spec n1 d1 n2 d2 c).
    { unfold lt_spec, cast_spec, ceil_spec.
      replace (Z.quot (c * n1 * d2) (d1 * n2) * n2 * d1) with (Z.quot (c * n1 * d2) (d1 * n2) * (d1 * n2)) by ring.
      apply ceil_from_trunc. exact HB. }
    destruct (lt_spec n2 d2 n1 d1 (cast_spec n1 d1 n2 d2 c) c).
    - rewrite <- E in Hf. pose proof (urep_rty _ Hr2) as Ht2.
      destruct (uac_self_sup r2 Ht2) as [Hs _]. destruct (rty_facts r2 Ht2) as (F1 & F2 & _ & _).
      rewrite (bin_add_ok r2 r2 (uac r2 r2)); try reflexivity; try (eapply in_rty_sup; eassumption).
      + cbn [bind]. rewrite cvt_id by assumption. rewrite E. reflexivity.
      + eapply in_rty_sup; [eassumption|]. apply in_rty_iff. lia.
    - rewrite E. reflexivity.
  Qed.

  Lemma uround_m_spec c : uround_ok r1 n1 d1 r2 n2 d2 c = true ->
    uround_m from to c = Val (round_spec n1 d1 n2 d2 c).
  Proof.
    unfold uround_ok. cbv zeta. rewrite !Bool.andb_true_iff, ufits_in_rty by assumption. intros [[[Hfl Hq1] Hm1] Hm2].
    unfold uround_m, from, to. cbv zeta. rewrite ufloor_m_spec by assumption. cbn [bind].
    assert (Hfl' := Hfl). unfold ufloor_ok in Hfl'. cbv zeta in Hfl'.
    rewrite !Bool.andb_true_iff, ufits_in_rty in Hfl' by assumption. destruct Hfl' as [_ Hq0].
    assert (Hbo : uboth_ok r1 n1 d1 r2 n2 d2 c (floor_spec n1 d1 n2 d2 c) = true).
    { unfold uminus_ok in Hm1. cbv zeta in Hm1. apply Bool.andb_true_iff in Hm1. tauto. }
    assert (Hbo2 : uboth_ok r2 n2 d2 r1 n1 d1 (floor_spec n1 d1 n2 d2 c + 1) c = true).
    { unfold uminus_ok in Hm2. cbv zeta in Hm2. apply Bool.andb_true_iff in Hm2. tauto. }
    pose proof (proj1 (uboth_ok_iff _ _ _ _ _ _ _ _ Hr1 Hr2) Hbo) as (Hco & _).
    pose proof (proj1 (common_ok_iff _ _ _ _) Hco) as (Hl & _ & _).
    pose proof (common_period_ok _ _ _ _ Hp1 Hp2 Hl) as Hpc.
    pose proof (urep_rty _ Hr1) as Ht1. pose proof (urep_rty _ Hr2) as Ht2.
    destruct (common_rep_spec r1 r2 Hr1 Hr2) as [Ecr Hrc].
    unfold uround_ops. rewrite ucommon_m_self by assumption. cbn [bind].
    rewrite ucommon_m_spec by assumption. cbn [bind].
    rewrite (ucommon_m_spec r2 n2 d2 r1 n1 d1) by (try assumption; rewrite cden_comm; assumption).
    cbn [bind]. rewrite (cnum_comm n1 n2), (cden_comm d1 d2), (common_rep_comm r1 r2) by assumption.
    (* low + To{1}, converted back to To *)
    destruct (rty_facts r2 Ht2) as (F1 & F2 & _ & _).
    rewrite uplus_m_self by (try assumption; apply in_rty_iff; lia). cbn [bind].
    rewrite uconv_m_same. cbn [bind].
    rewrite uminus_m_spec by (try assumption). cbn [bind].
    rewrite uminus_m_spec by (try assumption). cbn [bind].
    (* the two differences are values of the common representation *)
    assert (Hlo : in_rty (common_rep r1 r2) (minus_spec n1 d1 n2 d2 c (floor_spec n1 d1 n2 d2 c)) = true).
    { unfold uminus_ok in Hm1. cbv zeta in Hm1. apply Bool.andb_true_iff in Hm1. destruct Hm1 as [_ H].
      rewrite <- Ecr in H. rewrite ufits_in_rty in H by (rewrite Ecr; assumption). exact H. }
    assert (Hhi : in_rty (common_rep r1 r2) (minus_spec n2 d2 n1 d1 (floor_spec n1 d1 n2 d2 c + 1) c) = true).
    { unfold uminus_ok in Hm2. cbv zeta in Hm2. apply Bool.andb_true_iff in Hm2. destruct Hm2 as [_ H].
      destruct (common_rep_spec r2 r1 Hr2 Hr1) as [Ecr' Hrc'].
      rewrite <- Ecr' in H. rewrite ufits_in_rty in H by (rewrite Ecr'; assumption).
      rewrite (common_rep_comm r1 r2) in H by assumption. exact H. }
    assert (Hrcu : urep_ok (common_rep r1 r2) = true) by (rewrite Ecr; assumption).
    rewrite ult_m_self by assumption. cbn [bind].
    unfold ugt_m. cbv zeta. rewrite ult_m_self by assumption. cbn [bind].
    (* arithmetic *)
    set (q := floor_spec n1 d1 n2 d2 c) in *.
    set (lo := minus_spec n1 d1 n2 d2 c q) in *. set (hi := minus_spec n2 d2 n1 d1 (q + 1) c) in *.
    destruct (scaled_values n1 d1 n2 d2 c 1 Hp1 Hp2) as (K & l & HK & Hl0 & Ex & Ey).
    pose proof upos_factor as HB.
    assert (Elo : lo * K = (c * n1 * d2 - q * (d1 * n2)) * l).
    { unfold lo, minus_spec. cbv zeta. rewrite in_common_l, in_common_r.
      replace ((c * tk1 n1 d1 n2 d2 - q * tk2 n1 d1 n2 d2) * K)
        with (c * tk1 n1 d1 n2 d2 * K - q * (1 * tk2 n1 d1 n2 d2 * K)) by ring.
      rewrite Ex, Ey. ring. }
    assert (Ehi : hi * K = ((q + 1) * (d1 * n2) - c * n1 * d2) * l).
    { unfold hi, minus_spec. cbv zeta. rewrite !in_common_l.
      destruct (tk_swap n1 d1 n2 d2) as [E1 E2]. rewrite E1.
      replace (((q + 1) * tk2 n1 d1 n2 d2 - c * tk1 n1 d1 n2 d2) * K)
        with ((q + 1) * (1 * tk2 n1 d1 n2 d2 * K) - c * tk1 n1 d1 n2 d2 * K) by ring.
      rewrite Ex, Ey. ring. }
    pose proof (round_decide (c * n1 * d2) (d1 * n2) K l lo hi HB HK Hl0) as R.
    unfold q, floor_spec in Elo, Ehi. specialize (R Elo Ehi).
    unfold round_spec. cbv zeta. rewrite <- R. unfold q, floor_spec.
    destruct (lo <? hi); [reflexivity|]. destruct (hi <? lo); [reflexivity|].
    destruct (Z.odd (c * n1 * d2 / (d1 * n2))); reflexivity.
  Qed.
End URounding.

(** * abs *)
Lemma uabs_m_spec r n d c : urep_ok r = true -> period_ok n d = true ->
  (usigned r = false -> uabs_m (Dur r n d) c = IllFormed)
  /\ (uabs_ok r c = true -> uabs_m (Dur r n d) c = Val (abs_spec c)).
Proof.
  intros Hr Hp. split.
  - intros Hs. unfold uabs_m. cbn [rw]. change (rsigned r) with (usigned r). rewrite Hs. reflexivity.
  - unfold uabs_ok. rewrite !Bool.andb_true_iff, !ufits_in_rty by assumption. intros [[Hs Hc] Hn].
    unfold uabs_m, uabs_ops. cbn [rw]. change (rsigned r) with (usigned r). rewrite Hs. cbn [negb].
    rewrite ucommon_m_self by assumption. cbn [bind].
    destruct (rty_facts r (urep_rty r Hr)) as (F1 & F2 & _ & _).
    assert (H0 : in_rty r 0 = true) by (apply in_rty_iff; lia).
    rewrite ult_m_self by assumption. cbn [bind]. unfold abs_spec.
    destruct (c <? 0) eqn:E.
    + rewrite uminus_m_self by assumption. cbn [bind].
      rewrite uconv_m_same. f_equal. lia.
    + f_equal. lia.
Qed.

(** * the converting constructor between any two integer representations *)
Lemma uconv_m_spec r1 n1 d1 r2 n2 d2 c :
  urep_ok r1 = true -> urep_ok r2 = true ->
  period_ok n1 d1 = true -> period_ok n2 d2 = true ->
  (n1 * d2) mod (d1 * n2) = 0 ->
  ucast_ok r1 n1 d1 r2 n2 d2 c = true ->
  uconv_m (Dur r1 n1 d1) (Dur r2 n2 d2) c = Val (cast_spec n1 d1 n2 d2 c)
  /\ cast_spec n1 d1 n2 d2 c * (d1 * n2) = c * n1 * d2.
Proof.
  intros Hr1 Hr2 Hp1 Hp2 Hex Hok.
  pose proof (proj1 (period_ok_iff _ _) Hp1) as (Hn1 & Hd1 & Hg1).
  pose proof (proj1 (period_ok_iff _ _) Hp2) as (Hn2 & Hd2 & Hg2).
  assert (Ha0 : 0 < n1 * d2) by nia. assert (Hb0 : 0 < d1 * n2) by nia.
  assert (Hexact : cast_spec n1 d1 n2 d2 c * (d1 * n2) = c * n1 * d2).
  { unfold cast_spec. apply Z.mod_divide in Hex; [|lia]. destruct Hex as [k Ek].
    replace (c * n1 * d2) with (c * k * (d1 * n2)) by (rewrite <- Z.mul_assoc, <- Ek; ring).
    rewrite Z.quot_mul by lia. reflexivity. }
  split; [|exact Hexact].
  apply ucast_ok_iff in Hok; try assumption. destruct Hok as (Ha & Hb & Hc & Hcc & Hm & Hr).
  pose proof (urep_rty _ Hr1) as Ht1. pose proof (urep_rty _ Hr2) as Ht2.
  unfold uconv_m. cbv zeta. destruct (same_ty (Dur r1 n1 d1) (Dur r2 n2 d2)) eqn:Es.
  - apply same_ty_iff in Es. injection Es as -> -> ->. f_equal.
    unfold cast_spec. replace (c * n2 * d2) with (c * (d2 * n2)) by ring. rewrite Z.quot_mul by lia. reflexivity.
  - cbn [pn pd rw].
    rewrite period_quotient_integral_m_spec by assumption.
    rewrite factor_integral by assumption.
    apply Z.mod_divide in Hex; [|lia].
    assert (EG : Z.gcd (n1 * d2) (d1 * n2) = d1 * n2).
    { rewrite Z.gcd_comm. apply Z.divide_gcd_iff; [lia|exact Hex]. }
    assert (Efn : factor_num n1 d1 n2 d2 = n1 * d2 / (d1 * n2)) by (unfold factor_num; rewrite EG; reflexivity).
    assert (Efd : factor_den n1 d1 n2 d2 = 1) by (unfold factor_den; rewrite EG; apply Z.div_same; lia).
    assert (Em : (n1 * d2) mod (d1 * n2) = 0) by (apply Z.mod_divide; [lia|exact Hex]).
    rewrite Em. rewrite <- Efn. replace (factor_num n1 d1 n2 d2 <=? max64) with true by (symmetry; apply Z.leb_le; exact Ha).
    cbn [bind Z.eqb andb negb].
    rewrite ratio_divide_m_spec by (try assumption; unfold max64; lia).
    cbn [bind fst snd].
    rewrite (cast_reduced n1 d1 n2 d2 c Ha0 Hb0) in *. rewrite Efd in *.
    rewrite Z.quot_1_r in *.
    destruct (factor_facts _ _ _ _ Ha0 Hb0) as (_ & _ & _ & Hcn & _).
    set (cn := factor_num n1 d1 n2 d2) in *.
    assert (Hcr : (cr3 r2 r1 = 64 \/ cr3 r2 r1 = -64)) by (rewrite cr3_val by assumption; destruct ((r2 =? -64) || (r1 =? -64)); auto).
    set (cr := cr3 r2 r1) in *.
    assert (Hcrok : rty_ok cr = true) by (destruct Hcr as [-> | ->]; reflexivity).
    assert (Eu : uac cr 64 = cr) by (destruct Hcr as [-> | ->]; reflexivity).
    assert (Hk : in_rty cr cn = true).
    { apply in_rty_iff. destruct Hcr as [-> | ->]; cbv [rmin rmax Z.eqb Pos.eqb min64 max64] in *; lia. }
    rewrite (cvt_id cr c) by assumption.
    rewrite (bin_mul_ok cr 64 cr) by assumption. cbn [bind].
    rewrite Eu. rewrite (bin_div_one cr 64 cr) by assumption. cbn [bind].
    rewrite cvt_id by assumption. reflexivity.
Qed.

Lemma uconvertible_m_spec r1 n1 d1 r2 n2 d2 :
  period_ok n1 d1 = true -> period_ok n2 d2 = true ->
  uconvertible_m (Dur r1 n1 d1) (Dur r2 n2 d2)
  = Val (((n1 * d2) mod (d1 * n2) =? 0) && ((n1 * d2) / (d1 * n2) <=? max64)).
Proof. intros Hp1 Hp2. apply convertible_m_spec; assumption. Qed.

(** * duration * scalar on every pair of representable operands *)
(* the type in which (count of the common representation) * (scalar) is formed, in the standard's words *)
Lemma uac_scalar_spec r rs : urep_ok r = true -> urep_ok rs = true ->
  uac (common_rep r rs) rs = arith_conv_spec (crep_spec r rs) rs
  /\ (rsigned (uac (common_rep r rs) rs) = false -> uac (common_rep r rs) rs = common_rep r rs).
Proof. intros H1 H2; rcases H1; rcases H2; split; try reflexivity; intros H; try discriminate H; reflexivity. Qed.

Lemma usmul_total r n d rs c s :
  urep_ok r = true -> urep_ok rs = true -> period_ok n d = true -> uscalar_ok r rs c s = true ->
  let rc := crep_spec r rs in
  let t := arith_conv_spec rc rs in
  usmul_m (Dur r n d) rs c s
  = if usigned t && negb (ufits t (c * s)) then Ub SignedOverflow else Val (uwrap rc (c * s)).
Proof.
  intros Hr Hrs Hp Hok. cbv zeta.
  unfold uscalar_ok in Hok. cbv zeta in Hok. rewrite !Bool.andb_true_iff in Hok.
  rewrite !ufits_crep in Hok by assumption. rewrite !ufits_in_rty in Hok by assumption.
  destruct Hok as (((Hc & Hs) & Hcc) & Hsc).
  pose proof (urep_rty _ Hr) as Ht. pose proof (urep_rty _ Hrs) as Hts.
  destruct (uac_scalar_sup r rs Ht Hts) as [Hsup Hto].
  destruct (uac_scalar_spec r rs Hr Hrs) as [Et Eu].
  destruct (common_rep_spec r rs Hr Hrs) as [Ecr Hrc]. rewrite <- Ecr in *. rewrite <- Et.
  pose proof (common_rep_ok _ _ Ht Hts) as Hrcok.
  set (rc := common_rep r rs) in *. set (t := uac rc rs) in *.
  assert (Htu : urep_ok t = true).
  { unfold t, rc. clear -Hr Hrs. rcases Hr; rcases Hrs; reflexivity. }
  rewrite (ufits_in_rty t) by assumption. change (usigned t) with (rsigned t).
  unfold usmul_m. cbv zeta. rewrite uconv_widen by assumption. cbn [bind uscale_ty rw]. fold rc.
  unfold bin_mul. cbv zeta. fold t.
  rewrite !cvt_id by (eapply in_rty_sup; eassumption).
  unfold ar. rewrite <- cvt_uwrap by assumption.
  destruct (rsigned t) eqn:Es; cbn [andb].
  - destruct (in_rty t (c * s)); reflexivity.
  - cbn [bind]. rewrite (Eu eq_refl). f_equal.
    rewrite (cvt_id rc (cvt rc (c * s))) by (apply cvt_in; assumption). reflexivity.
Qed.
