(* C12 proofs, part 7: complete characterisation of duration_cast — for every source count the
   model either has signed overflow in intmax_t (exactly when count * factor-numerator does not
   fit) or returns the truncated exact quotient converted to the target representation. *)
From Tetl Require Import Lib.Base C12.Model C12.Spec C12.ProofsArith C12.ProofsCast.
From Coq Require Import ZifyBool.
Local Open Scope Z_scope.

Lemma ck64_case x : ck64 x = if in64 x then Val x else Ub SignedOverflow.
Proof. reflexivity. Qed.

Lemma duration_cast_total w1 n1 d1 w2 n2 d2 c :
  rep_ok w1 = true -> period_ok n1 d1 = true -> period_ok n2 d2 = true ->
  factor_num n1 d1 n2 d2 <= max64 -> factor_den n1 d1 n2 d2 <= max64 ->
  fits w1 c = true ->
  duration_cast_m (Dur w1 n1 d1) (Dur w2 n2 d2) c
  = if fits 64 (c * factor_num n1 d1 n2 d2)
    then Val (wrap_rep w2 (cast_spec n1 d1 n2 d2 c)) else Ub SignedOverflow.
Proof.
  intros Hw1 Hp1 Hp2 Ha Hb Hc. rewrite fits_in_rep in Hc. rewrite fits64_in64.
  pose proof (proj1 (period_ok_iff _ _) Hp1) as (Hn1 & Hd1 & Hg1).
  pose proof (proj1 (period_ok_iff _ _) Hp2) as (Hn2 & Hd2 & Hg2).
  assert (Ha0 : 0 < n1 * d2) by (apply Z.mul_pos_pos; lia).
  assert (Hb0 : 0 < d1 * n2) by (apply Z.mul_pos_pos; lia).
  pose proof (in_rep_in64 _ _ Hw1 Hc) as Hc64.
  unfold duration_cast_m. cbn [rw pn pd]. cbv zeta.
  rewrite ratio_divide_m_spec by assumption. cbn [bind fst snd].
  rewrite (cast_reduced n1 d1 n2 d2 c Ha0 Hb0).
  destruct (factor_facts _ _ _ _ Ha0 Hb0) as (Hg & Ea & Eb & Hcn & Hcd).
  set (cn := factor_num n1 d1 n2 d2) in *. set (cd := factor_den n1 d1 n2 d2) in *.
  destruct (cn =? 1) eqn:Ecn.
  - apply Z.eqb_eq in Ecn. rewrite Ecn, Z.mul_1_r. rewrite Hc64.
    destruct (cd =? 1) eqn:Ecd.
    + apply Z.eqb_eq in Ecd. rewrite Ecd, Z.quot_1_r. reflexivity.
    + rewrite div_rep_pos by lia. reflexivity.
  - destruct (cd =? 1) eqn:Ecd.
    + apply Z.eqb_eq in Ecd. rewrite Ecd, Z.quot_1_r. rewrite ck64_case.
      destruct (in64 (c * cn)); reflexivity.
    + rewrite ck64_case. destruct (in64 (c * cn)); [|reflexivity].
      cbn [bind]. rewrite div_rep_pos by lia. reflexivity.
Qed.

(* in particular: no undefined behaviour at all when the factor's numerator is 1 (casts to a
   coarser period that is a multiple of the source period, e.g. milliseconds -> seconds) *)
Lemma duration_cast_coarser_never_ub w1 n1 d1 w2 n2 d2 c :
  rep_ok w1 = true -> period_ok n1 d1 = true -> period_ok n2 d2 = true ->
  factor_num n1 d1 n2 d2 = 1 -> factor_den n1 d1 n2 d2 <= max64 -> fits w1 c = true ->
  duration_cast_m (Dur w1 n1 d1) (Dur w2 n2 d2) c = Val (wrap_rep w2 (cast_spec n1 d1 n2 d2 c)).
Proof.
  intros Hw1 Hp1 Hp2 E Hb Hc.
  rewrite duration_cast_total by (try assumption; rewrite E; unfold max64; lia).
  rewrite E, Z.mul_1_r. rewrite fits_in_rep in Hc. rewrite fits64_in64.
  rewrite (in_rep_in64 _ _ Hw1 Hc). reflexivity.
Qed.
