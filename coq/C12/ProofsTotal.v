(* C12 proofs, part 7: complete characterisation of duration_cast — for every source count the
   model either has signed overflow in intmax_t (exactly when count * factor-numerator does not
   fit) or returns the truncated exact quotient converted to the target representation. *)
From Tetl Require Import Lib.Base C12.Model C12.Spec C12.ProofsArith C12.ProofsCast.
From Coq Require Import ZifyBool.
Local Open Scope Z_scope.

Lemma ck64_case x : ck64 x = if in64 x then Val x else Ub SignedOverflow.
Proof. reflexivity. Qed.

Lemma duration_cast_total w1 n1 d1 w2 n2 d2 c :
  rep_ok w1 = true -> period_ok n1 d1 = true -> period_ok n2 d2 = true ->
  factor_num n1 d1 n2 d2 <= max64 -> factor_den n1 d1 n2 d2 <= max64 ->
  fits w1 c = true ->
  duration_cast_m (Dur w1 n1 d1) (Dur w2 n2 d2) c
  = if fits 64 (c * factor_num n1 d1 n2 d2)
    then Val (wrap_rep w2 (cast_spec n1 d1 n2 d2 c)) else Ub SignedOverflow.
Proof.
  intros Hw1 Hp1 Hp2 Ha Hb Hc. rewrite fits_in_rep in Hc. rewrite fits64_in64.
  pose proof (proj1 (period_ok_iff _ _) Hp1) as (Hn1 & Hd1 & Hg1).
  pose proof (proj1 (period_ok_iff _ _) Hp2) as (Hn2 & Hd2 & Hg2).
  assert (Ha0 : 0 < n1 * d2) by (apply Z.mul_pos_pos; lia).
  assert (Hb0 : 0 < d1 * n2) by (apply Z.mul_pos_pos; lia).
  pose proof (in_rep_in64 _ _ Hw1 Hc) as Hc64.
  unfold duration_cast_m. cbn [rw pn pd]. cbv zeta.
  rewrite ratio_divide_m_spec by assumption. cbn [bind fst snd].
  rewrite (cast_reduced n1 d1 n2 d2 c Ha0 Hb0).
  destruct (factor_facts _ _ _ _ Ha0 Hb0) as (Hg & Ea & Eb & Hcn & Hcd).
  set (cn := factor_num n1 d1 n2 d2) in *. set (cd := factor_den n1 d1 n2 d2) in *.
  destruct (cn =? 1) eqn:Ecn.
  - apply Z.eqb_eq in Ecn. rewrite Ecn, Z.mul_1_r. rewrite Hc64.
    destruct (cd =? 1) eqn:Ecd.
    + apply Z.eqb_eq in Ecd. rewrite Ecd, Z.quot_1_r. reflexivity.
    + rewrite div_rep_pos by lia. reflexivity.
  - destruct (cd =? 1) eqn:Ecd.
    + apply Z.eqb_eq in Ecd. rewrite Ecd, Z.quot_1_r. rewrite ck64_case.
      destruct (in64 (c * cn)); reflexivity.
    + rewrite ck64_case. destruct (in64 (c * cn)); [|reflexivity].
      cbn [bind]. rewrite div_rep_pos by lia. reflexivity.
Qed.

(* in particular: no undefined behaviour at all when the factor's numerator is 1 (casts to a
   coarser period that is a multiple of the source period, e.g. milliseconds -> seconds) *)
Lemma duration_cast_coarser_never_ub w1 n1 d1 w2 n2 d2 c :
  rep_ok w1 = true -> period_ok n1 d1 = true -> period_ok n2 d2 = true ->
  factor_num n1 d1 n2 d2 = 1 -> factor_den n1 d1 n2 d2 <= max64 -> fits w1 c = true ->
  duration_cast_m (Dur w1 n1 d1) (Dur w2 n2 d2) c = Val (wrap_rep w2 (cast_spec n1 d1 n2 d2 c)).
Proof.
  intros Hw1 Hp1 Hp2 E Hb Hc.
  rewrite duration_cast_total by (try assumption; rewrite E; unfold max64; lia).
  rewrite E, Z.mul_1_r. rewrite fits_in_rep in Hc. rewrite fits64_in64.
  rewrite (in_rep_in64 _ _ Hw1 Hc). reflexivity.
Qed.

(** * + - / % : the representability hypotheses of the main theorems are tight.  Once both counts
   convert to the common type (both_ok), the model has undefined behaviour exactly when the exact
   result does not fit the common representation (or the divisor is zero). *)
From Tetl Require Import C12.ProofsCommon.

Lemma ck_rep_case w x : ck_rep w x = if in_rep w x then Val x else Ub SignedOverflow.
Proof. reflexivity. Qed.

(* a quotient of two values in [-M-1, M] leaves that range only as (-M-1) / (-1) *)
Lemma quot_leaves_range M x y : 0 <= M -> - M - 1 <= x <= M -> - M - 1 <= y <= M -> y <> 0 ->
  ~ (- M - 1 <= Z.quot x y <= M) -> x = - M - 1 /\ y = -1.
Proof.
  intros HM Hx Hy Hnz Hq.
  assert (Hay : 0 < Z.abs y) by lia.
  assert (Ea : Z.abs (Z.quot x y) = Z.quot (Z.abs x) (Z.abs y)) by (symmetry; apply Z.quot_abs; exact Hnz).
  assert (Hle : Z.quot (Z.abs x) (Z.abs y) <= Z.abs x).
  { apply Z.quot_le_upper_bound; [exact Hay|]. 
    replace (Z.abs x) with (1 * Z.abs x) at 1 by ring. apply Z.mul_le_mono_nonneg_r; lia. }
  assert (Hq2 : Z.quot x y = M + 1) by lia.
  assert (Hx2 : x = - M - 1) by lia.
  split; [exact Hx2|].
  destruct (Z.eq_dec (Z.abs y) 1) as [E1|N1].
  - destruct (Z.eq_dec y 1) as [Ey|Ney]; [|lia].
    subst y. rewrite Z.quot_1_r in Hq2. lia.
  - exfalso. assert (Hlt : Z.quot (Z.abs x) (Z.abs y) < Z.abs x) by (apply Z.quot_lt; lia). lia.
Qed.

Lemma quot_leaves_rep w x y : rep_ok w = true -> in_rep w x = true -> in_rep w y = true -> y <> 0 ->
  in_rep w (Z.quot x y) = false -> x = min_rep w /\ y = -1.
Proof.
  unfold rep_ok, in_rep, min_rep. intros Hw Hx Hy Hnz Hq. destruct (w =? 32) eqn:E.
  - unfold in32, min32, max32 in *. apply (quot_leaves_range 2147483647); lia.
  - unfold in64, min64, max64 in *. apply (quot_leaves_range 9223372036854775807); lia.
Qed.

Section Tight.
  Variables w1 n1 d1 w2 n2 d2 : Z.
  Hypothesis Hw1 : rep_ok w1 = true.
  Hypothesis Hw2 : rep_ok w2 = true.
  Hypothesis Hp1 : period_ok n1 d1 = true.
  Hypothesis Hp2 : period_ok n2 d2 = true.
  Variables c1 c2 : Z.
  Hypothesis Hb : both_ok w1 n1 d1 w2 n2 d2 c1 c2 = true.
  Let wc := Z.max w1 w2.

  Lemma plus_m_tight :
    plus_m (Dur w1 n1 d1) (Dur w2 n2 d2) c1 c2
    = if fits wc (plus_spec n1 d1 n2 d2 c1 c2) then Val (plus_spec n1 d1 n2 d2 c1 c2) else Ub SignedOverflow.
  Proof.
    unfold plus_m. cbv zeta. rewrite to_common_m_spec by assumption. cbn [bind rw].
    unfold plus_spec. cbv zeta. rewrite in_common_l, in_common_r. rewrite fits_in_rep. apply ck_rep_case.
  Qed.

  Lemma minus_m_tight :
    minus_m (Dur w1 n1 d1) (Dur w2 n2 d2) c1 c2
    = if fits wc (minus_spec n1 d1 n2 d2 c1 c2) then Val (minus_spec n1 d1 n2 d2 c1 c2) else Ub SignedOverflow.
  Proof.
    unfold minus_m. cbv zeta. rewrite to_common_m_spec by assumption. cbn [bind rw].
    unfold minus_spec. cbv zeta. rewrite in_common_l, in_common_r. rewrite fits_in_rep. apply ck_rep_case.
  Qed.

  Lemma div_mod_m_tight :
    (c2 = 0 -> div_m (Dur w1 n1 d1) (Dur w2 n2 d2) c1 c2 = Ub DivByZero
               /\ mod_m (Dur w1 n1 d1) (Dur w2 n2 d2) c1 c2 = Ub DivByZero)
    /\ (c2 <> 0 -> fits wc (div_spec n1 d1 n2 d2 c1 c2) = false ->
          div_m (Dur w1 n1 d1) (Dur w2 n2 d2) c1 c2 = Ub SignedOverflow
          /\ mod_m (Dur w1 n1 d1) (Dur w2 n2 d2) c1 c2 = Ub SignedOverflow).
  Proof.
    destruct (tk_facts n1 d1 n2 d2 Hp1 Hp2) as (_ & _ & _ & _ & _ & _ & _ & _ & _ & Ht2).
    split.
    - intros E. subst c2. unfold div_m, mod_m. cbv zeta. rewrite to_common_m_spec by assumption.
      cbn [bind rw]. unfold div_rep, rem_rep. rewrite Z.mul_0_l. cbn [Z.eqb]. split; reflexivity.
    - intros Hnz Hf.
      destruct (scaled_values n1 d1 n2 d2 c1 c2 Hp1 Hp2) as (K & l & HK & Hl & Ex & Ey).
      assert (Hy : c2 * tk2 n1 d1 n2 d2 <> 0).
      { intros E. apply Z.mul_eq_0 in E. destruct E as [E|E]; [contradiction|]. rewrite E in Ht2. inversion Ht2. }
      assert (Eq : Z.quot (c1 * tk1 n1 d1 n2 d2) (c2 * tk2 n1 d1 n2 d2) = div_spec n1 d1 n2 d2 c1 c2).
      { unfold div_spec. exact (scaled_quot _ _ _ _ K l HK Hl Ex Ey Hy). }
      (* the quotient of two values of the common representation leaves it only for min / -1 *)
      pose proof (proj1 (both_ok_iff _ _ _ _ _ _ _ _) Hb) as (_ & _ & _ & Hx & Hyr).
      fold wc in Hx, Hyr. rewrite fits_in_rep in Hf. rewrite <- Eq in Hf.
      set (x := c1 * tk1 n1 d1 n2 d2) in *. set (y := c2 * tk2 n1 d1 n2 d2) in *.
      assert (Hm : x = min_rep wc /\ y = -1).
      { pose proof (rep_ok_max _ _ Hw1 Hw2) as Hwc. fold wc in Hwc.
        apply quot_leaves_rep; assumption. }
      destruct Hm as [Emin Ey1].
      unfold div_m, mod_m. cbv zeta. rewrite to_common_m_spec by assumption. cbn [bind rw].
      fold x y wc. unfold div_rep, rem_rep.
      destruct (y =? 0) eqn:E0; [apply Z.eqb_eq in E0; contradiction|].
      rewrite Emin, Ey1, Z.eqb_refl. cbn [Z.eqb andb Pos.eqb]. split; reflexivity.
  Qed.
End Tight.
