(* C12 specification, part 2: representation types of either signedness and of 8..64 bits.

   The values of the operations are the ones of Spec.v (exact rational arithmetic over Z: plus_spec,
   minus_spec, div_spec, mod_spec, eq_spec, lt_spec, cast_spec ... do not depend on the representation).
   What depends on the representation is
     - which type common_type_t<Rep1, Rep2> is ([meta.trans.other], [expr.cond], [expr.arith.conv],
       [conv.prom]): written here in the standard's words (ranks, "can represent all the values"),
     - the documented domain: the exact result and the operands converted to the common type are
       representable ("ufits").
   A representation type is a code: +bits = signed integer type of that width, -bits = unsigned. *)
From Tetl Require Import Lib.Base C12.Spec.
Local Open Scope Z_scope.

Definition urep_ok (r : Z) : bool := existsb (Z.eqb r) [8; 16; 32; 64; -8; -16; -32; -64].
Definition ubits (r : Z) : Z := Z.abs r.
Definition usigned (r : Z) : bool := 0 <? r.
(* the range of values [basic.fundamental]: two's complement *)
Definition ulo (r : Z) : Z := if usigned r then - 2 ^ (ubits r - 1) else 0.
Definition uhi (r : Z) : Z := if usigned r then 2 ^ (ubits r - 1) - 1 else 2 ^ ubits r - 1.
Definition ufits (r x : Z) : bool := (ulo r <=? x) && (x <=? uhi r).

(* "type s can represent all the values of type u" *)
Definition represents_all (s u : Z) : bool := (ulo s <=? ulo u) && (uhi u <=? uhi s).
(* integer conversion rank [conv.rank] of signed char/short/int/long and their unsigned counterparts:
   ordered like the widths on LP64, a signed type and its unsigned counterpart have the same rank *)
Definition urank (r : Z) : Z := ubits r.
(* [conv.prom]: rank below int -> int if int can represent all its values, otherwise unsigned int *)
Definition promote_spec (r : Z) : Z :=
  if urank r <? urank 32 then (if represents_all 32 r then 32 else -32) else r.
(* [expr.arith.conv] for integer operands, after promotion *)
Definition arith_conv_spec (r1 r2 : Z) : Z :=
  let a := promote_spec r1 in
  let b := promote_spec r2 in
  if a =? b then a
  else if Bool.eqb (usigned a) (usigned b) then (if urank a <? urank b then b else a)
  else
    let u := if usigned a then b else a in
    let s := if usigned a then a else b in
    if urank s <=? urank u then u
    else if represents_all s u then s
    else - s.
(* common_type_t<R1, R2>: decay of the type of (false ? R1 : R2) - operands of the same type keep it *)
Definition crep_spec (r1 r2 : Z) : Z := if r1 =? r2 then r1 else arith_conv_spec r1 r2.

(** * the documented domain *)
(* both counts fit their own type and, expressed in the common period, the common representation *)
Definition uboth_ok (r1 n1 d1 r2 n2 d2 : Z) : Z -> Z -> bool :=
  let tyok := common_ok n1 d1 n2 d2 in
  let a := in_common n1 d1 n2 d2 in
  let b := in_common n2 d2 n1 d1 in
  let rc := crep_spec r1 r2 in
  fun c1 c2 => tyok && ufits r1 c1 && ufits r2 c2 && ufits rc (a c1) && ufits rc (b c2).
Definition uplus_ok (r1 n1 d1 r2 n2 d2 : Z) : Z -> Z -> bool :=
  let bo := uboth_ok r1 n1 d1 r2 n2 d2 in
  let sp := plus_spec n1 d1 n2 d2 in
  let rc := crep_spec r1 r2 in
  fun c1 c2 => bo c1 c2 && ufits rc (sp c1 c2).
Definition uminus_ok (r1 n1 d1 r2 n2 d2 : Z) : Z -> Z -> bool :=
  let bo := uboth_ok r1 n1 d1 r2 n2 d2 in
  let sp := minus_spec n1 d1 n2 d2 in
  let rc := crep_spec r1 r2 in
  fun c1 c2 => bo c1 c2 && ufits rc (sp c1 c2).
Definition udiv_ok (r1 n1 d1 r2 n2 d2 : Z) : Z -> Z -> bool :=
  let bo := uboth_ok r1 n1 d1 r2 n2 d2 in
  let rc := crep_spec r1 r2 in
  fun c1 c2 => bo c1 c2 && negb (c2 =? 0) && ufits rc (div_spec n1 d1 n2 d2 c1 c2).

(* duration<r1, P>{c} op scalar s of type rs: both operands and the result are representable in the
   common representation *)
Definition uscalar_ok (r1 rs c s : Z) : bool :=
  let rc := crep_spec r1 rs in ufits r1 c && ufits rs s && ufits rc c && ufits rc s.

(* duration_cast between any two integer representations: as cast_ok of Spec.v; the computation type
   common_type_t<ToRep, Rep, intmax_t> is unsigned long when one of the two is, else intmax_t *)
Definition ucast_ok (r1 n1 d1 r2 n2 d2 : Z) : Z -> bool :=
  let cn := factor_num n1 d1 n2 d2 in
  let cd := factor_den n1 d1 n2 d2 in
  let tyok := (cn <=? lim64) && (cd <=? lim64) in
  let cr := crep_spec (crep_spec r2 r1) 64 in
  fun c => tyok && ufits r1 c && ufits cr c && ufits cr (c * cn) && ufits r2 (cast_spec n1 d1 n2 d2 c).

(** * modular arithmetic: the value of type r congruent to v modulo 2^bits ([conv.integral], and
      [basic.fundamental]: unsigned arithmetic is arithmetic modulo 2^bits) *)
Definition uwrap (r v : Z) : Z :=
  let m := 2 ^ ubits r in
  let y := v mod m in
  if usigned r && (uhi r <? y) then y - m else y.
(* the types in which C++ performs arithmetic with undefined overflow: int and long (every narrower type is
   promoted to int, where sums, differences and negations of 8/16-bit values always fit) *)
Definition overflow_is_ub (r : Z) : bool := (r =? 32) || (r =? 64).

(** * floor / ceil / round / abs between any two integer representations: the domain predicates of Spec.v
      (floor_ok, ceil_ok, round_ok, abs_ok) with the representability tests of the types involved *)
Definition ufloor_ok (r1 n1 d1 r2 n2 d2 : Z) : Z -> bool :=
  let ca := ucast_ok r1 n1 d1 r2 n2 d2 in
  let bo := uboth_ok r1 n1 d1 r2 n2 d2 in
  fun c => ca c && bo c (cast_spec n1 d1 n2 d2 c) && ufits r2 (floor_spec n1 d1 n2 d2 c).
Definition uceil_ok (r1 n1 d1 r2 n2 d2 : Z) : Z -> bool :=
  let ca := ucast_ok r1 n1 d1 r2 n2 d2 in
  let bo := uboth_ok r1 n1 d1 r2 n2 d2 in
  fun c => ca c && bo c (cast_spec n1 d1 n2 d2 c) && ufits r2 (ceil_spec n1 d1 n2 d2 c).
Definition uround_ok (r1 n1 d1 r2 n2 d2 : Z) : Z -> bool :=
  let fl := ufloor_ok r1 n1 d1 r2 n2 d2 in
  let m1 := uminus_ok r1 n1 d1 r2 n2 d2 in
  let m2 := uminus_ok r2 n2 d2 r1 n1 d1 in
  fun c =>
    fl c && ufits r2 (floor_spec n1 d1 n2 d2 c + 1)
    && m1 c (floor_spec n1 d1 n2 d2 c) && m2 (floor_spec n1 d1 n2 d2 c + 1) c.
(* abs participates for signed representations only; everything but the most negative count *)
Definition uabs_ok (r c : Z) : bool := usigned r && ufits r c && ufits r (- c).
