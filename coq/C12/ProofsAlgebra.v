(* C12 proofs, part 6: laws relating the four conversions (order, exactness, negation symmetry,
   monotonicity, round trip through a finer period), stated on the specification functions, and
   their transport to the model through the main theorems. *)
From Tetl Require Import Lib.Base C12.Model C12.Spec C12.ProofsArith C12.ProofsCast.
From Coq Require Import ZifyBool.
Local Open Scope Z_scope.

(** * floor / ceiling / truncation / nearest-even of X/B for B > 0 *)
Section Frac.
  Variables X B : Z.
  Hypothesis HB : 0 < B.
  Let f := X / B.
  Let r := X mod B.

  Lemma fr_eq : X = B * f + r /\ 0 <= r < B.
  Proof. split; [apply Z.div_mod; lia|apply Z.mod_pos_bound; exact HB]. Qed.

  (* ceiling: f when exact, f + 1 otherwise *)
  Lemma ceil_cases : - ((- X) / B) = if r =? 0 then f else f + 1.
  Proof.
    destruct fr_eq as [E Hr]. destruct (r =? 0) eqn:E0.
    - apply Z.eqb_eq in E0. rewrite E0, Z.add_0_r in E.
      assert (H : (- X) / B = - f).
      { symmetry. apply (Z.div_unique (- X) B (- f) 0); [left; lia|]. rewrite E. ring. }
      rewrite H. ring.
    - apply Z.eqb_neq in E0.
      assert (H : (- X) / B = - (f + 1)).
      { symmetry. apply (Z.div_unique (- X) B (- (f + 1)) (B - r)); [left; lia|]. rewrite E at 1. ring. }
      rewrite H. ring.
  Qed.

  (* truncation: floor for X >= 0, ceiling for X <= 0 *)
  Lemma quot_cases : Z.quot X B = if 0 <=? X then f else - ((- X) / B).
  Proof.
    destruct (0 <=? X) eqn:E0.
    - apply Z.leb_le in E0. apply Z.quot_div_nonneg; lia.
    - apply Z.leb_gt in E0.
      replace X with (- (- X)) at 1 by ring. rewrite Z.quot_opp_l by lia.
      rewrite Z.quot_div_nonneg by lia. reflexivity.
  Qed.
End Frac.

Definition rnd (X B : Z) : Z :=
  let q := X / B in let r := X mod B in
  if 2 * r <? B then q else if B <? 2 * r then q + 1 else if Z.even q then q else q + 1.

Lemma round_spec_rnd n1 d1 n2 d2 c : round_spec n1 d1 n2 d2 c = rnd (c * n1 * d2) (d1 * n2).
Proof. reflexivity. Qed.

Section Order.
  Variables X B : Z.
  Hypothesis HB : 0 < B.

  Lemma floor_le_ceil : X / B <= - ((- X) / B) <= X / B + 1.
  Proof. rewrite ceil_cases by exact HB. destruct (X mod B =? 0); lia. Qed.

  Lemma quot_between : X / B <= Z.quot X B <= - ((- X) / B).
  Proof.
    pose proof floor_le_ceil as H. rewrite quot_cases by exact HB. destruct (0 <=? X); lia.
  Qed.

  Lemma rnd_between : X / B <= rnd X B <= - ((- X) / B).
  Proof.
    rewrite ceil_cases by exact HB. unfold rnd. cbv zeta.
    pose proof (Z.mod_pos_bound X B HB) as Hr.
    destruct (2 * (X mod B) <? B) eqn:E1.
    - destruct (X mod B =? 0); lia.
    - apply Z.ltb_ge in E1. destruct (X mod B =? 0) eqn:E0; [apply Z.eqb_eq in E0; lia|].
      destruct (B <? 2 * (X mod B)); [lia|]. destruct (Z.even (X / B)); lia.
  Qed.

  (* exact quotient: all four agree *)
  Lemma exact_all_equal : X mod B = 0 ->
    Z.quot X B = X / B /\ - ((- X) / B) = X / B /\ rnd X B = X / B.
  Proof.
    intros E. repeat split.
    - rewrite quot_cases by exact HB. destruct (0 <=? X); [reflexivity|].
      rewrite ceil_cases by exact HB. rewrite E. reflexivity.
    - rewrite ceil_cases by exact HB. rewrite E. reflexivity.
    - unfold rnd. cbv zeta. rewrite E. destruct (2 * 0 <? B) eqn:E1; [reflexivity|]. apply Z.ltb_ge in E1. lia.
  Qed.

  (* ... and conversely floor = ceiling only when exact *)
  Lemma floor_eq_ceil_exact : - ((- X) / B) = X / B -> X mod B = 0.
  Proof.
    rewrite ceil_cases by exact HB. destruct (X mod B =? 0) eqn:E0; [intros _; apply Z.eqb_eq; exact E0|lia].
  Qed.
End Order.

(** * negation symmetry *)
Section Neg.
  Variables X B : Z.
  Hypothesis HB : 0 < B.

  Lemma quot_neg : Z.quot (- X) B = - Z.quot X B.
  Proof. apply Z.quot_opp_l. lia. Qed.

  (* nearest-even is odd-symmetric: rnd (-X) = - rnd X *)
  Lemma rnd_neg : rnd (- X) B = - rnd X B.
  Proof.
    unfold rnd. cbv zeta.
    pose proof (Z.div_mod X B ltac:(lia)) as E. pose proof (Z.mod_pos_bound X B HB) as Hr.
    set (q := X / B) in *. set (r := X mod B) in *.
    destruct (r =? 0) eqn:E0.
    - apply Z.eqb_eq in E0. rewrite E0 in *. rewrite Z.add_0_r in E.
      assert (Hq : (- X) / B = - q).
      { symmetry. apply (Z.div_unique (- X) B (- q) 0); [left; lia|]. rewrite E. ring. }
      assert (Hm : (- X) mod B = 0).
      { symmetry. apply (Z.mod_unique (- X) B (- q) 0); [left; lia|]. rewrite E. ring. }
      rewrite Hq, Hm. destruct (2 * 0 <? B) eqn:E1; [reflexivity|]. apply Z.ltb_ge in E1. lia.
    - apply Z.eqb_neq in E0.
      assert (Hq : (- X) / B = - (q + 1)).
      { symmetry. apply (Z.div_unique (- X) B (- (q + 1)) (B - r)); [left; lia|]. rewrite E at 1. ring. }
      assert (Hm : (- X) mod B = B - r).
      { symmetry. apply (Z.mod_unique (- X) B (- (q + 1)) (B - r)); [left; lia|]. rewrite E at 1. ring. }
      rewrite Hq, Hm.
      destruct (2 * r <? B) eqn:E1; destruct (B <? 2 * r) eqn:E2;
        destruct (2 * (B - r) <? B) eqn:E3; destruct (B <? 2 * (B - r)) eqn:E4; try lia.
      (* the tie: q and -(q+1) have opposite parities *)
      replace (- (q + 1)) with (- q - 1) by ring.
      rewrite Z.even_sub, Z.even_opp. change (Z.even 1) with false.
      destruct (Z.even q); cbn [Bool.eqb]; ring.
  Qed.
End Neg.

(** * monotonicity in the numerator *)
Section Mono.
  Variables X Y B : Z.
  Hypothesis HB : 0 < B.
  Hypothesis HXY : X <= Y.

  Lemma floor_mono : X / B <= Y / B.
  Proof. apply Z.div_le_mono; assumption. Qed.

  Lemma ceil_mono : - ((- X) / B) <= - ((- Y) / B).
  Proof. apply -> Z.opp_le_mono. apply Z.div_le_mono; lia. Qed.

  Lemma quot_mono : Z.quot X B <= Z.quot Y B.
  Proof. apply Z.quot_le_mono; assumption. Qed.

  Lemma rnd_mono : rnd X B <= rnd Y B.
  Proof.
    pose proof floor_mono as Hf.
    destruct (Z.eq_dec (X / B) (Y / B)) as [Eq|Ne].
    - (* same floor: compare the remainders *)
      unfold rnd. cbv zeta. rewrite <- Eq.
      pose proof (Z.div_mod X B ltac:(lia)) as EX. pose proof (Z.div_mod Y B ltac:(lia)) as EY.
      rewrite <- Eq in EY.
      assert (Hr : X mod B <= Y mod B) by lia.
      destruct (2 * (X mod B) <? B) eqn:E1; destruct (B <? 2 * (X mod B)) eqn:E2;
        destruct (2 * (Y mod B) <? B) eqn:E3; destruct (B <? 2 * (Y mod B)) eqn:E4;
        destruct (Z.even (X / B)); lia.
    - (* floors differ by at least one: rnd X <= floor X + 1 <= floor Y <= rnd Y *)
      pose proof (rnd_between X B HB) as [_ H1]. pose proof (rnd_between Y B HB) as [H2 _].
      pose proof (floor_le_ceil X B HB) as [_ H3]. lia.
  Qed.
End Mono.

(** * the same laws on the specification functions *)
Section SpecLaws.
  Variables n1 d1 n2 d2 : Z.
  Hypothesis Hn1 : 0 < n1.
  Hypothesis Hd1 : 0 < d1.
  Hypothesis Hn2 : 0 < n2.
  Hypothesis Hd2 : 0 < d2.

  Lemma Bpos : 0 < d1 * n2.
  Proof. apply Z.mul_pos_pos; assumption. Qed.

  Lemma spec_order c :
    floor_spec n1 d1 n2 d2 c <= cast_spec n1 d1 n2 d2 c <= ceil_spec n1 d1 n2 d2 c
    /\ floor_spec n1 d1 n2 d2 c <= round_spec n1 d1 n2 d2 c <= ceil_spec n1 d1 n2 d2 c
    /\ ceil_spec n1 d1 n2 d2 c <= floor_spec n1 d1 n2 d2 c + 1
    /\ cast_spec n1 d1 n2 d2 c = (if 0 <=? c then floor_spec n1 d1 n2 d2 c else ceil_spec n1 d1 n2 d2 c).
  Proof.
    pose proof Bpos as HB. unfold floor_spec, cast_spec, ceil_spec. rewrite round_spec_rnd.
    split; [apply quot_between; exact HB|]. split; [apply rnd_between; exact HB|].
    split; [apply floor_le_ceil; exact HB|].
    rewrite quot_cases by exact HB.
    assert (Hs : (0 <=? c * n1 * d2) = (0 <=? c)).
    { apply Bool.eq_iff_eq_true. rewrite !Z.leb_le. split; intros H.
      - destruct (Z.le_gt_cases 0 c) as [Hc|Hc]; [exact Hc|].
        assert (c * n1 * d2 < 0) by (apply Z.mul_neg_pos; [apply Z.mul_neg_pos|]; assumption). lia.
      - apply Z.mul_nonneg_nonneg; [apply Z.mul_nonneg_nonneg|]; lia. }
    rewrite Hs. reflexivity.
  Qed.

  Lemma spec_exact c : (c * n1 * d2) mod (d1 * n2) = 0 <->
    floor_spec n1 d1 n2 d2 c = ceil_spec n1 d1 n2 d2 c.
  Proof.
    pose proof Bpos as HB. unfold floor_spec, ceil_spec. split; intros H.
    - destruct (exact_all_equal _ _ HB H) as (_ & E & _). symmetry. exact E.
    - apply floor_eq_ceil_exact; [exact HB|symmetry; exact H].
  Qed.

  Lemma spec_exact_all c : (c * n1 * d2) mod (d1 * n2) = 0 ->
    cast_spec n1 d1 n2 d2 c = floor_spec n1 d1 n2 d2 c
    /\ ceil_spec n1 d1 n2 d2 c = floor_spec n1 d1 n2 d2 c
    /\ round_spec n1 d1 n2 d2 c = floor_spec n1 d1 n2 d2 c
    /\ floor_spec n1 d1 n2 d2 c * (d1 * n2) = c * n1 * d2.
  Proof.
    pose proof Bpos as HB. intros H. unfold cast_spec, ceil_spec, floor_spec. rewrite round_spec_rnd.
    destruct (exact_all_equal _ _ HB H) as (E1 & E2 & E3). repeat split; try assumption.
    pose proof (Z.div_mod (c * n1 * d2) (d1 * n2) ltac:(lia)) as E. rewrite H, Z.add_0_r in E.
    rewrite E at 2. ring.
  Qed.

  Lemma spec_neg c :
    cast_spec n1 d1 n2 d2 (- c) = - cast_spec n1 d1 n2 d2 c
    /\ floor_spec n1 d1 n2 d2 (- c) = - ceil_spec n1 d1 n2 d2 c
    /\ ceil_spec n1 d1 n2 d2 (- c) = - floor_spec n1 d1 n2 d2 c
    /\ round_spec n1 d1 n2 d2 (- c) = - round_spec n1 d1 n2 d2 c.
  Proof.
    pose proof Bpos as HB. unfold cast_spec, floor_spec, ceil_spec. rewrite !round_spec_rnd.
    replace (- c * n1 * d2) with (- (c * n1 * d2)) by ring.
    split; [apply quot_neg; exact HB|]. split; [ring|].
    split; [rewrite Z.opp_involutive; reflexivity|]. apply rnd_neg. exact HB.
  Qed.

  Lemma spec_mono c c' : c <= c' ->
    cast_spec n1 d1 n2 d2 c <= cast_spec n1 d1 n2 d2 c'
    /\ floor_spec n1 d1 n2 d2 c <= floor_spec n1 d1 n2 d2 c'
    /\ ceil_spec n1 d1 n2 d2 c <= ceil_spec n1 d1 n2 d2 c'
    /\ round_spec n1 d1 n2 d2 c <= round_spec n1 d1 n2 d2 c'.
  Proof.
    pose proof Bpos as HB. intros Hc.
    assert (HX : c * n1 * d2 <= c' * n1 * d2).
    { apply Z.mul_le_mono_nonneg_r; [lia|]. apply Z.mul_le_mono_nonneg_r; lia. }
    unfold cast_spec, floor_spec, ceil_spec. rewrite !round_spec_rnd.
    split; [apply quot_mono; assumption|]. split; [apply floor_mono; assumption|].
    split; [apply ceil_mono; assumption|]. apply rnd_mono; assumption.
  Qed.

  (* a conversion to a period that divides the source period is exact, and converting back by any
     of the four functions returns the original count *)
  Lemma spec_roundtrip c : (n1 * d2) mod (d1 * n2) = 0 ->
    let t := cast_spec n1 d1 n2 d2 c in
    t * (d1 * n2) = c * n1 * d2
    /\ cast_spec n2 d2 n1 d1 t = c /\ floor_spec n2 d2 n1 d1 t = c
    /\ ceil_spec n2 d2 n1 d1 t = c /\ round_spec n2 d2 n1 d1 t = c.
  Proof.
    pose proof Bpos as HB. intros H. cbv zeta.
    assert (HA : 0 < d2 * n1) by (apply Z.mul_pos_pos; assumption).
    apply Z.mod_divide in H; [|lia]. destruct H as [k Ek].
    assert (Ht : cast_spec n1 d1 n2 d2 c = c * k).
    { unfold cast_spec. replace (c * n1 * d2) with (c * k * (d1 * n2)) by (rewrite <- Z.mul_assoc, <- Ek; ring).
      apply Z.quot_mul. lia. }
    rewrite Ht. split; [rewrite <- Z.mul_assoc, <- Ek; ring|].
    assert (EX : c * k * n2 * d1 = c * (d2 * n1)).
    { replace (c * k * n2 * d1) with (c * (k * (d1 * n2))) by ring. rewrite <- Ek. ring. }
    assert (Hm : (c * k * n2 * d1) mod (d2 * n1) = 0) by (rewrite EX; apply Z.mod_mul; lia).
    assert (Hf : floor_spec n2 d2 n1 d1 (c * k) = c).
    { unfold floor_spec. rewrite EX. apply Z.div_mul. lia. }
    destruct (exact_all_equal _ _ HA Hm) as (E1 & E2 & E3).
    unfold floor_spec in Hf. unfold cast_spec, floor_spec, ceil_spec. rewrite round_spec_rnd.
    rewrite E1, E2, E3. repeat split; exact Hf.
  Qed.
End SpecLaws.
