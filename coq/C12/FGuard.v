(* C12: one computable guard for the theorems about + - < == on double-count durations holding whole numbers
   (C12_float_source_arith_exact, C12_float_mixed_exact).  The correspondence run evaluates [farith_ok] to decide
   where it prints the specification leg of the ops d_pm / d_mpm; the lemma below shows that the guard implies
   the (Prop-valued) hypotheses of those theorems. *)
From Coq Require Import ZArith Reals Bool Lia ZifyBool.
From Flocq Require Import Core BinarySingleNaN.
From Tetl Require Import Lib.Base C12.Model C12.Spec C12.ProofsArith C12.ProofsCast C12.ProofsCommon
  C12.ProofsRound C12.FModel C12.FProofs C12.FProofs2 C12.FProofs3 C12.FProofs5.
Local Open Scope Z_scope.

Definition fboth_okb (n1 d1 n2 d2 c1 c2 : Z) : bool :=
  let g := cnum n1 n2 in
  let l := cden d1 d2 in
  let t1 := ticks n1 d1 g l in
  let t2 := ticks n2 d2 g l in
  (l <=? max64) && (t1 <=? two53) && (t2 <=? two53) && (Z.abs c1 <=? two53) && (Z.abs c2 <=? two53)
  && (Z.abs (c1 * t1) <=? two53) && (Z.abs (c2 * t2) <=? two53).

(* both orders of the operands (a <= b is evaluated as !(b < a)) and the two exact results *)
Definition farith_ok (n1 d1 n2 d2 c1 c2 : Z) : bool :=
  fboth_okb n1 d1 n2 d2 c1 c2 && fboth_okb n2 d2 n1 d1 c2 c1
  && (Z.abs (plus_spec n1 d1 n2 d2 c1 c2) <=? two53) && (Z.abs (minus_spec n1 d1 n2 d2 c1 c2) <=? two53).

Lemma fboth_okb_ok n1 d1 n2 d2 c1 c2 : fboth_okb n1 d1 n2 d2 c1 c2 = true -> fboth_ok n1 d1 n2 d2 c1 c2.
Proof.
  unfold fboth_okb, fboth_ok, tk1, tk2. cbv zeta. rewrite !Bool.andb_true_iff, !Z.leb_le. tauto.
Qed.

Lemma farith_guarded w1 n1 d1 w2 n2 d2 c1 c2 :
  period_ok n1 d1 = true -> period_ok n2 d2 = true -> farith_ok n1 d1 n2 d2 c1 c2 = true ->
  let a := Dur w1 n1 d1 in let b := Dur w2 n2 d2 in
  (exists r, dd_plus_m a b (d_of_Z c1) (d_of_Z c2) = Val r /\ is_finite r = true
             /\ B2R r = IZR (plus_spec n1 d1 n2 d2 c1 c2))
  /\ (exists r, dd_minus_m a b (d_of_Z c1) (d_of_Z c2) = Val r /\ is_finite r = true
             /\ B2R r = IZR (minus_spec n1 d1 n2 d2 c1 c2))
  /\ dd_lt_m a b (d_of_Z c1) (d_of_Z c2) = Val (lt_spec n1 d1 n2 d2 c1 c2)
  /\ dd_eq_m a b (d_of_Z c1) (d_of_Z c2) = Val (eq_spec n1 d1 n2 d2 c1 c2)
  /\ dd_lt_m b a (d_of_Z c2) (d_of_Z c1) = Val (lt_spec n2 d2 n1 d1 c2 c1)
  /\ (exists r, id_plus_m a b c1 (d_of_Z c2) = Val r /\ is_finite r = true
             /\ B2R r = IZR (plus_spec n1 d1 n2 d2 c1 c2))
  /\ (exists r, id_minus_m a b c1 (d_of_Z c2) = Val r /\ is_finite r = true
             /\ B2R r = IZR (minus_spec n1 d1 n2 d2 c1 c2))
  /\ id_lt_m a b c1 (d_of_Z c2) = Val (lt_spec n1 d1 n2 d2 c1 c2)
  /\ id_eq_m a b c1 (d_of_Z c2) = Val (eq_spec n1 d1 n2 d2 c1 c2).
Proof.
  intros Hp1 Hp2 Hg. cbv zeta. unfold farith_ok in Hg. rewrite !Bool.andb_true_iff, !Z.leb_le in Hg.
  destruct Hg as [[[H12 H21] Hpl] Hmi].
  apply fboth_okb_ok in H12, H21.
  destruct (dd_cmp_exact w1 n1 d1 w2 n2 d2 c1 c2 Hp1 Hp2 H12) as [L E].
  destruct (dd_cmp_exact w2 n2 d2 w1 n1 d1 c2 c1 Hp2 Hp1 H21) as [L' _].
  destruct (id_ops_exact w1 n1 d1 w2 n2 d2 c1 c2 Hp1 Hp2 H12) as (I1 & I2 & I3 & I4).
  repeat split; try assumption.
  - apply dd_plus_exact; assumption.
  - apply dd_minus_exact; assumption.
  - apply I1; assumption.
  - apply I2; assumption.
Qed.
