(* C12 specification.  A duration of c ticks with period n/d (n, d > 0) denotes the rational
   number c*n/d of seconds.  [time.duration] of the C++ standard defines every operation on
   these rationals; they are written here over Z by cross-multiplication.  Nothing in this file
   refers to the code (no ratio_divide, no specialisations, no machine arithmetic), except the
   representability predicates of the last section, which only mention the width of the
   representation types and the mathematical values that must fit into them. *)
From Tetl Require Import Lib.Base.
Local Open Scope Z_scope.

(** * Conversions between periods: the exact quotient is (c*n1*d2) / (d1*n2) *)
(* duration_cast: truncation toward zero [time.duration.cast] *)
Definition cast_spec (n1 d1 n2 d2 c : Z) : Z := Z.quot (c * n1 * d2) (d1 * n2).
(* floor: greatest t with t <= d;  ceil: least t with t >= d  [time.duration.cast]/floor, ceil *)
Definition floor_spec (n1 d1 n2 d2 c : Z) : Z := (c * n1 * d2) / (d1 * n2).
Definition ceil_spec (n1 d1 n2 d2 c : Z) : Z := - ((- (c * n1 * d2)) / (d1 * n2)).
(* round: nearest t, a tie goes to the even t *)
Definition round_spec (n1 d1 n2 d2 c : Z) : Z :=
  let a := c * n1 * d2 in
  let b := d1 * n2 in
  let q := a / b in
  let r := a mod b in
  if 2 * r <? b then q else if b <? 2 * r then q + 1 else if Z.even q then q else q + 1.
Definition abs_spec (c : Z) : Z := Z.abs c.

(** * The common type [time.traits.specializations]: period gcd(n1,n2)/lcm(d1,d2) *)
Definition cnum (n1 n2 : Z) : Z := Z.gcd n1 n2.
Definition cden (d1 d2 : Z) : Z := Z.lcm d1 d2.
(* how many ticks of the common period g/l make one tick of n/d (an exact quotient) *)
Definition ticks (n d g l : Z) : Z := (n * l) / (d * g).
(* the count of c ticks of n1/d1 expressed in the common period of n1/d1 and n2/d2.
   (Written, like the predicates below, with the part that depends on the periods only in
   front of the [fun] over the counts; logically a plain function of all arguments.) *)
Definition in_common (n1 d1 n2 d2 : Z) : Z -> Z :=
  let f := ticks n1 d1 (cnum n1 n2) (cden d1 d2) in fun c => c * f.

(** * Arithmetic and comparison of two durations (c1 ticks of n1/d1, c2 ticks of n2/d2) *)
Definition plus_spec (n1 d1 n2 d2 : Z) : Z -> Z -> Z :=
  let a := in_common n1 d1 n2 d2 in let b := in_common n2 d2 n1 d1 in fun c1 c2 => a c1 + b c2.
Definition minus_spec (n1 d1 n2 d2 : Z) : Z -> Z -> Z :=
  let a := in_common n1 d1 n2 d2 in let b := in_common n2 d2 n1 d1 in fun c1 c2 => a c1 - b c2.
(* duration / duration: the truncated quotient of the two rationals *)
Definition div_spec (n1 d1 n2 d2 c1 c2 : Z) : Z := Z.quot (c1 * n1 * d2) (c2 * n2 * d1).
(* duration % duration: the remainder, in ticks of the common period *)
Definition mod_spec (n1 d1 n2 d2 : Z) : Z -> Z -> Z :=
  let a := in_common n1 d1 n2 d2 in let b := in_common n2 d2 n1 d1 in fun c1 c2 => Z.rem (a c1) (b c2).
Definition eq_spec (n1 d1 n2 d2 c1 c2 : Z) : bool := c1 * n1 * d2 =? c2 * n2 * d1.
Definition lt_spec (n1 d1 n2 d2 c1 c2 : Z) : bool := c1 * n1 * d2 <? c2 * n2 * d1.

(** * The named durations [time.syn]: minimum number of value bits and period in seconds *)
Definition typedefs_spec : list (Z * Z * Z) :=
  [ (64, 1, 1000000000); (55, 1, 1000000); (45, 1, 1000); (35, 1, 1);
    (29, 60, 1); (23, 3600, 1); (25, 86400, 1); (22, 7 * 86400, 1);
    (20, (146097 * 86400 / 400) / 12, 1); (17, 146097 * 86400 / 400, 1) ].

(** * Representability: the documented domain of the theorems *)
Definition lim64 : Z := 9223372036854775807.
Definition fits (w x : Z) : bool :=
  if w =? 32 then (-2147483648 <=? x) && (x <=? 2147483647)
  else (-9223372036854775808 <=? x) && (x <=? 9223372036854775807).
Definition rep_ok (w : Z) : bool := (w =? 32) || (w =? 64).

(* a period as exposed by ratio<>::num / ::den: positive, in lowest terms, representable *)
Definition period_ok (n d : Z) : bool :=
  (0 <? n) && (0 <? d) && (Z.gcd n d =? 1) && (n <=? lim64) && (d <=? lim64).

(* the conversion factor (n1/d1)/(n2/d2) in lowest terms *)
Definition factor_num (n1 d1 n2 d2 : Z) : Z := (n1 * d2) / Z.gcd (n1 * d2) (d1 * n2).
Definition factor_den (n1 d1 n2 d2 : Z) : Z := (d1 * n2) / Z.gcd (n1 * d2) (d1 * n2).

(* duration_cast from (w1; n1/d1) to (w2; n2/d2) of the count c:
   the conversion factor in lowest terms is representable (a requirement of the standard on
   ratio_divide), the source count fits, the count times the factor's numerator fits intmax_t,
   and the truncated result fits the target *)
Definition cast_ok (w1 n1 d1 w2 n2 d2 : Z) : Z -> bool :=
  let cn := factor_num n1 d1 n2 d2 in
  let cd := factor_den n1 d1 n2 d2 in
  let tyok := (cn <=? lim64) && (cd <=? lim64) in
  fun c => tyok && fits w1 c && fits 64 (c * cn) && fits w2 (cast_spec n1 d1 n2 d2 c).

(* the common type of the two periods exists and both tick factors are representable *)
Definition common_ok (n1 d1 n2 d2 : Z) : bool :=
  (cden d1 d2 <=? lim64)
  && (ticks n1 d1 (cnum n1 n2) (cden d1 d2) <=? lim64)
  && (ticks n2 d2 (cnum n1 n2) (cden d1 d2) <=? lim64).

(* both counts fit their own type and, converted to the common type, fit its representation *)
Definition both_ok (w1 n1 d1 w2 n2 d2 : Z) : Z -> Z -> bool :=
  let tyok := common_ok n1 d1 n2 d2 in
  let a := in_common n1 d1 n2 d2 in
  let b := in_common n2 d2 n1 d1 in
  let wc := Z.max w1 w2 in
  fun c1 c2 => tyok && fits w1 c1 && fits w2 c2 && fits wc (a c1) && fits wc (b c2).

Definition plus_ok (w1 n1 d1 w2 n2 d2 : Z) : Z -> Z -> bool :=
  let bo := both_ok w1 n1 d1 w2 n2 d2 in
  let sp := plus_spec n1 d1 n2 d2 in
  let wc := Z.max w1 w2 in
  fun c1 c2 => bo c1 c2 && fits wc (sp c1 c2).
Definition minus_ok (w1 n1 d1 w2 n2 d2 : Z) : Z -> Z -> bool :=
  let bo := both_ok w1 n1 d1 w2 n2 d2 in
  let sp := minus_spec n1 d1 n2 d2 in
  let wc := Z.max w1 w2 in
  fun c1 c2 => bo c1 c2 && fits wc (sp c1 c2).
(* division and modulo: the divisor is not zero and the quotient is representable *)
Definition div_ok (w1 n1 d1 w2 n2 d2 : Z) : Z -> Z -> bool :=
  let bo := both_ok w1 n1 d1 w2 n2 d2 in
  let wc := Z.max w1 w2 in
  fun c1 c2 => bo c1 c2 && negb (c2 =? 0) && fits wc (div_spec n1 d1 n2 d2 c1 c2).

(* floor / ceil: the cast, the comparison of its result with the argument, and the result *)
Definition floor_ok (w1 n1 d1 w2 n2 d2 : Z) : Z -> bool :=
  let ca := cast_ok w1 n1 d1 w2 n2 d2 in
  let bo := both_ok w1 n1 d1 w2 n2 d2 in
  fun c => ca c && bo c (cast_spec n1 d1 n2 d2 c) && fits w2 (floor_spec n1 d1 n2 d2 c).
Definition ceil_ok (w1 n1 d1 w2 n2 d2 : Z) : Z -> bool :=
  let ca := cast_ok w1 n1 d1 w2 n2 d2 in
  let bo := both_ok w1 n1 d1 w2 n2 d2 in
  fun c => ca c && bo c (cast_spec n1 d1 n2 d2 c) && fits w2 (ceil_spec n1 d1 n2 d2 c).
(* round: floor, the next tick above it, and the two differences in the common type *)
Definition round_ok (w1 n1 d1 w2 n2 d2 : Z) : Z -> bool :=
  let fl := floor_ok w1 n1 d1 w2 n2 d2 in
  let m1 := minus_ok w1 n1 d1 w2 n2 d2 in
  let m2 := minus_ok w2 n2 d2 w1 n1 d1 in
  fun c =>
    fl c && fits w2 (floor_spec n1 d1 n2 d2 c + 1)
    && m1 c (floor_spec n1 d1 n2 d2 c) && m2 (floor_spec n1 d1 n2 d2 c + 1) c.
(* abs: everything but the most negative count *)
Definition abs_ok (w c : Z) : bool := fits w c && fits w (- c).
