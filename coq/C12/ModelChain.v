(* C12 model, part "what a member operator RETURNS": the compound-assignment and increment /
   decrement operators of include/etl/_chrono/duration.hpp and time_point.hpp as state-passing
   functions.

   Model.v gives each member operator as its effect on the stored tick count only
   ([add_assign_m w c x] = the new _rep).  That cannot express the difference between

       constexpr auto operator-=(duration const& d) noexcept -> duration&  { _rep -= d.count(); return *this; }
       constexpr auto operator-=(duration const& d) noexcept -> duration   { _rep -= d.count(); return *this; }

   which is invisible in [d -= x;] and decisive in [(d -= a) -= b;]: the second call is made on
   whatever the first call expression designates.  Here a call returns the new state of the
   object AND a designator of its result: the object itself (an lvalue: return type [duration&],
   [return *this]) or a temporary holding a value (a prvalue: return type [duration],
   [return duration(_rep++)]).  A further member call on the result updates the designated object. *)
From Tetl Require Import Lib.Base C12.Model.
Local Open Scope Z_scope.

(* the ten mutating member operators of duration, in the order of duration.hpp *)
Inductive mop : Type :=
| MPreInc     (* operator++()                    ++_rep; return *this;        -> duration& *)
| MPostInc    (* operator++(int)                 return duration(_rep++);     -> duration  *)
| MPreDec     (* operator--()                    --_rep; return *this;        -> duration& *)
| MPostDec    (* operator--(int)                 return duration(_rep--);     -> duration  *)
| MAdd        (* operator+=(duration const& d)   _rep += d.count(); return *this;  -> duration& *)
| MSub        (* operator-=(duration const& d)   _rep -= d.count(); return *this;  -> duration& *)
| MMul        (* operator*=(rep const& rhs)      _rep *= rhs; return *this;   -> duration& *)
| MDiv        (* operator/=(rep const& rhs)      _rep /= rhs; return *this;   -> duration& *)
| MModR       (* operator%=(rep const& rhs)      _rep %= rhs; return *this;   -> duration& *)
| MModD.      (* operator%=(duration const& rhs) _rep %= rhs.count(); return *this; -> duration& *)

Definition all_mops : list mop :=
  [ MPreInc; MPostInc; MPreDec; MPostDec; MAdd; MSub; MMul; MDiv; MModR; MModD ].

(* the effect of the call on the member _rep (width w, old value c, argument x; the increment /
   decrement operators ignore x): the functions of Model.v *)
Definition effect_m (o : mop) (w c x : Z) : out Z :=
  match o with
  | MPreInc | MPostInc => inc_m w c
  | MPreDec | MPostDec => dec_m w c
  | MAdd => add_assign_m w c x
  | MSub => sub_assign_m w c x
  | MMul => mul_assign_m w c x
  | MDiv => div_assign_m w c x
  | MModR | MModD => mod_assign_m w c x
  end.

(* what the call expression designates *)
Inductive designator : Type :=
| ThisObject              (* lvalue: the object the operator was called on *)
| Temporary (v : Z).      (* prvalue: a new duration holding v *)

(* the return statement + return type of each operator; c = the value of _rep BEFORE the call *)
Definition result_m (o : mop) (c : Z) : designator :=
  match o with
  | MPreInc => ThisObject
  | MPostInc => Temporary c
  | MPreDec => ThisObject
  | MPostDec => Temporary c
  | MAdd => ThisObject
  | MSub => ThisObject
  | MMul => ThisObject
  | MDiv => ThisObject
  | MModR => ThisObject
  | MModD => ThisObject
  end.

(* one call  obj.operator@(x):  (new value of obj, what the expression designates) *)
Definition call_m (o : mop) (w c x : Z) : out (Z * designator) :=
  do c' <- effect_m o w c x; Val (c', result_m o c).

(* the count read through a designator, given the current value of the object *)
Definition read_m (cur : Z) (r : designator) : Z :=
  match r with ThisObject => cur | Temporary v => v end.

(* the static fact  is_same_v<decltype(obj @ x), duration&>  (1) / is_same_v<..., duration> (0) *)
Definition returns_lvalue_m (o : mop) : bool :=
  match result_m o 0 with ThisObject => true | Temporary _ => false end.

(* the full expression  (obj @1 a) @2 b :
   (value of obj afterwards, count of the value of the whole expression) *)
Definition chain_m (o1 o2 : mop) (w c a b : Z) : out (Z * Z) :=
  do '(c1, r1) <- call_m o1 w c a;
  match r1 with
  | ThisObject =>                          (* the second call is made on obj *)
      do '(c2, r2) <- call_m o2 w c1 b;
      Val (c2, read_m c2 r2)
  | Temporary v =>                         (* the second call is made on the temporary; obj keeps c1 *)
      do '(v2, r2) <- call_m o2 w v b;
      Val (c1, read_m v2 r2)
  end.

(** * time_point.hpp: += -= ++ -- (prefix and postfix) forward to the stored duration _d and
   return *this (time_point&) resp. time_point(_d++) *)
Definition tp_has_op (o : mop) : bool :=
  match o with MMul | MDiv | MModR | MModD => false | _ => true end.
Definition tp_effect_m (o : mop) (w c x : Z) : out Z :=
  if tp_has_op o then effect_m o w c x else IllFormed.
Definition tp_result_m (o : mop) (c : Z) : designator :=
  match o with
  | MPostInc | MPostDec => Temporary c     (* return time_point(_d++) *)
  | _ => ThisObject                        (* _d += d; return *this;  -> time_point& *)
  end.
Definition tp_call_m (o : mop) (w c x : Z) : out (Z * designator) :=
  do c' <- tp_effect_m o w c x; Val (c', tp_result_m o c).
Definition tp_returns_lvalue_m (o : mop) : bool :=
  match tp_result_m o 0 with ThisObject => true | Temporary _ => false end.
Definition tp_chain_m (o1 o2 : mop) (w c a b : Z) : out (Z * Z) :=
  do '(c1, r1) <- tp_call_m o1 w c a;
  match r1 with
  | ThisObject =>
      do '(c2, r2) <- tp_call_m o2 w c1 b;
      Val (c2, read_m c2 r2)
  | Temporary v =>
      do '(v2, r2) <- tp_call_m o2 w v b;
      Val (c1, read_m v2 r2)
  end.
