(* C12 proofs, part 5: duration * rep, rep * duration, duration / rep, duration % rep and the
   time_point non-member operators. *)
From Tetl Require Import Lib.Base C12.Model C12.Spec C12.ProofsArith C12.ProofsCast C12.ProofsCommon.
From Coq Require Import ZifyBool Znumtheory.
Local Open Scope Z_scope.
Ltac Zify.zify_post_hook ::= Z.to_euclidean_division_equations.

Lemma ticks_self n d : 0 < n -> 0 < d -> ticks n d n d = 1.
Proof. intros Hn Hd. unfold ticks. replace (n * d) with (d * n) by ring. apply Z.div_same. nia. Qed.

(* CD(d): widening the representation, same period *)
Lemma conv_m_widen w n d ws c :
  rep_ok w = true -> rep_ok ws = true -> period_ok n d = true -> in_rep w c = true ->
  conv_m (Dur w n d) (scale_ty (Dur w n d) ws) c = Val c.
Proof.
  intros Hw Hws Hp Hc. unfold scale_ty. cbn [rw pn pd].
  pose proof (proj1 (period_ok_iff _ _) Hp) as (Hn & Hd & Hg).
  pose proof (ticks_self n d ltac:(lia) ltac:(lia)) as Et.
  rewrite (conv_m_exact w n d (Z.max w ws) n d c).
  - rewrite Et, Z.mul_1_r. reflexivity.
  - apply rep_ok_max; assumption.
  - assumption.
  - assumption.
  - apply Z.divide_refl.
  - apply Z.divide_refl.
  - rewrite Et. unfold max64. lia.
  - rewrite Et, Z.mul_1_r. apply in_rep_max_l; assumption.
Qed.

Section Scalar.
  Variables w n d ws : Z.
  Hypothesis Hw : rep_ok w = true.
  Hypothesis Hws : rep_ok ws = true.
  Hypothesis Hp : period_ok n d = true.
  Variables c s : Z.
  Hypothesis Hc : in_rep w c = true.

  Lemma smul_m_spec : fits (Z.max w ws) (c * s) = true -> smul_m (Dur w n d) ws c s = Val (c * s).
  Proof.
    rewrite fits_in_rep. intros Hf. unfold smul_m. cbv zeta. rewrite conv_m_widen by assumption.
    cbn [bind scale_ty rw]. apply ck_rep_ok. exact Hf.
  Qed.

  Lemma min_over_neg1 wc : rep_ok wc = true -> in_rep wc (Z.quot (min_rep wc) (-1)) = false.
  Proof.
    unfold rep_ok, in_rep, min_rep. intros H. destruct (wc =? 32) eqn:E; reflexivity.
  Qed.

  Lemma sdiv_m_spec : s <> 0 -> fits (Z.max w ws) (Z.quot c s) = true ->
    sdiv_m (Dur w n d) ws c s = Val (Z.quot c s) /\ smod_m (Dur w n d) ws c s = Val (Z.rem c s).
  Proof.
    rewrite fits_in_rep. intros Hs Hf. unfold sdiv_m, smod_m. cbv zeta. rewrite conv_m_widen by assumption.
    cbn [bind scale_ty rw]. unfold div_rep, rem_rep.
    destruct (s =? 0) eqn:E0; [lia|].
    destruct ((c =? min_rep (Z.max w ws)) && (s =? -1)) eqn:Em.
    - exfalso. apply Bool.andb_true_iff in Em. destruct Em as [E1 E2]. apply Z.eqb_eq in E1, E2.
      rewrite E1, E2 in Hf. rewrite min_over_neg1 in Hf by (apply rep_ok_max; assumption). discriminate.
    - split; [|reflexivity]. destruct (s =? 1) eqn:E1; [|reflexivity].
      apply Z.eqb_eq in E1. rewrite E1, Z.quot_1_r. reflexivity.
  Qed.
End Scalar.

(* the time_point operators are the duration operators on time_since_epoch() *)
Lemma tp_ops_are_duration_ops a b c1 c2 :
  tp_plus_m a b c1 c2 = plus_m a b c1 c2 /\ tp_plus_r_m b a c2 c1 = plus_m a b c1 c2
  /\ tp_minus_m a b c1 c2 = minus_m a b c1 c2 /\ tp_diff_m a b c1 c2 = minus_m a b c1 c2.
Proof. repeat split. Qed.

(** * member operators: one checked machine operation on the stored count each *)
Lemma member_ops_spec w c x : rep_ok w = true -> fits w c = true -> fits w x = true ->
  (fits w (- c) = true -> neg_m w c = Val (- c))
  /\ uplus_m w c = Val c
  /\ (fits w (c + 1) = true -> inc_m w c = Val (c + 1) /\ tp_inc_m w c = Val (c + 1))
  /\ (fits w (c - 1) = true -> dec_m w c = Val (c - 1) /\ tp_dec_m w c = Val (c - 1))
  /\ (fits w (c + x) = true -> add_assign_m w c x = Val (c + x) /\ tp_add_assign_m w c x = Val (c + x))
  /\ (fits w (c - x) = true -> sub_assign_m w c x = Val (c - x) /\ tp_sub_assign_m w c x = Val (c - x))
  /\ (fits w (c * x) = true -> mul_assign_m w c x = Val (c * x))
  /\ (x <> 0 -> fits w (Z.quot c x) = true ->
        div_assign_m w c x = Val (Z.quot c x) /\ mod_assign_m w c x = Val (Z.rem c x)).
Proof.
  intros Hw Hc Hx.
  assert (K : forall v, fits w v = true -> ck_rep w v = Val v) by (intros v H; rewrite fits_in_rep in H; apply ck_rep_ok; exact H).
  unfold neg_m, uplus_m, inc_m, tp_inc_m, dec_m, tp_dec_m, add_assign_m, tp_add_assign_m, sub_assign_m,
    tp_sub_assign_m, mul_assign_m, div_assign_m, mod_assign_m, inc_m, dec_m, add_assign_m, sub_assign_m.
  split; [exact (K _)|]. split; [reflexivity|].
  split; [intros H; split; exact (K _ H)|]. split; [intros H; split; exact (K _ H)|].
  split; [intros H; split; exact (K _ H)|]. split; [intros H; split; exact (K _ H)|].
  split; [exact (K _)|].
  intros Hnz H. rewrite fits_in_rep in H. unfold div_rep, rem_rep.
  destruct (x =? 0) eqn:E0; [lia|].
  destruct ((c =? min_rep w) && (x =? -1)) eqn:Em.
  - exfalso. apply Bool.andb_true_iff in Em. destruct Em as [E1 E2]. apply Z.eqb_eq in E1, E2.
    rewrite E1, E2 in H. rewrite (min_over_neg1 w Hw) in H. discriminate.
  - split; [|reflexivity].
    destruct (x =? 1) eqn:E1; [|reflexivity]. apply Z.eqb_eq in E1. rewrite E1, Z.quot_1_r. reflexivity.
Qed.
