(* C12 proofs, part 5: the functions of Spec.v are the operations the C++ standard words
   relationally.  A count t of period n2/d2 compares with c ticks of period n1/d1 like
   t * (d1*n2) compares with c*n1*d2 (multiply both rationals by d1*d2/... > 0). *)
From Tetl Require Import Lib.Base C12.Model C12.Spec C12.ProofsArith C12.ProofsCast C12.ProofsCommon C12.ProofsRound.
From Coq Require Import ZifyBool.
Local Open Scope Z_scope.
Ltac Zify.zify_post_hook ::= Z.to_euclidean_division_equations.

Section SpecChar.
  Variables n1 d1 n2 d2 c : Z.
  Hypothesis Hn1 : 0 < n1.
  Hypothesis Hd1 : 0 < d1.
  Hypothesis Hn2 : 0 < n2.
  Hypothesis Hd2 : 0 < d2.
  Let X := c * n1 * d2.
  Let B := d1 * n2.

  Lemma B_pos : 0 < B.
  Proof. unfold B. nia. Qed.

  (* duration_cast: toward zero — the result has the sign of the argument, does not exceed it in
     magnitude, and is less than one target tick away *)
  Lemma cast_spec_char :
    let t := cast_spec n1 d1 n2 d2 c in
    Z.abs (t * B) <= Z.abs X /\ Z.abs (X - t * B) < B /\ (0 <= X -> 0 <= t) /\ (X <= 0 -> t <= 0).
  Proof.
    pose proof B_pos as HB. unfold cast_spec. fold X B.
    destruct (quot_rem_facts X B HB) as (E & Hr & Hp & Hn).
    set (t := Z.quot X B) in *. set (r := Z.rem X B) in *. cbv zeta.
    assert (Ex : X - t * B = r) by lia.
    rewrite Ex.
    assert (Hsign : (0 <= X -> 0 <= t) /\ (X <= 0 -> t <= 0)) by (split; intros HX; nia).
    destruct Hsign as [Hs1 Hs2].
    split; [|split; [lia|split; assumption]].
    destruct (Z.le_ge_cases 0 X) as [HX|HX].
    - specialize (Hs1 HX). specialize (Hp HX). rewrite !Z.abs_eq by nia. nia.
    - specialize (Hs2 HX). specialize (Hn HX). rewrite !Z.abs_neq by nia. nia.
  Qed.

  (* floor: the greatest t with t <= d *)
  Lemma floor_spec_char :
    let t := floor_spec n1 d1 n2 d2 c in
    t * B <= X < (t + 1) * B /\ (forall t', t' * B <= X -> t' <= t).
  Proof.
    pose proof B_pos as HB. unfold floor_spec. fold X B.
    pose proof (Z.div_mod X B ltac:(lia)) as E. pose proof (Z.mod_pos_bound X B HB) as Hr.
    cbv zeta. split; [nia|]. intros t' Ht'. nia.
  Qed.

  (* ceil: the least t with t >= d *)
  Lemma ceil_spec_char :
    let t := ceil_spec n1 d1 n2 d2 c in
    (t - 1) * B < X <= t * B /\ (forall t', X <= t' * B -> t <= t').
  Proof.
    pose proof B_pos as HB. unfold ceil_spec. fold X B.
    pose proof (Z.div_mod (- X) B ltac:(lia)) as E. pose proof (Z.mod_pos_bound (- X) B HB) as Hr.
    cbv zeta. split; [nia|]. intros t' Ht'. nia.
  Qed.

  (* round: no t' is closer to d than the result, and when some other t' is equally close
     (an exact tie) the result is the even one *)
  Lemma round_spec_char :
    let t := round_spec n1 d1 n2 d2 c in
    forall t', Z.abs (X - t * B) <= Z.abs (X - t' * B)
               /\ (t' <> t -> Z.abs (X - t * B) = Z.abs (X - t' * B) -> Z.even t = true).
  Proof.
    pose proof B_pos as HB. unfold round_spec. fold X B. cbv zeta.
    pose proof (Z.div_mod X B ltac:(lia)) as E. pose proof (Z.mod_pos_bound X B HB) as Hr.
    set (q := X / B) in *. set (r := X mod B) in *.
    intros t'.
    assert (Hfar : forall k, Z.abs (X - k * B) = Z.abs (r + (q - k) * B)) by (intros k; f_equal; lia).
    destruct (2 * r <? B) eqn:E1; [|destruct (B <? 2 * r) eqn:E2; [|destruct (Z.even q) eqn:E3]].
    - apply Z.ltb_lt in E1. split.
      + rewrite !Hfar. assert (t' <= q \/ q + 1 <= t') as [H|H] by lia; nia.
      + intros Hne Heq. exfalso. rewrite !Hfar in Heq. assert (t' <= q - 1 \/ q + 1 <= t') as [H|H] by lia; nia.
    - apply Z.ltb_lt in E2. split.
      + rewrite !Hfar. assert (t' <= q \/ q + 1 <= t') as [H|H] by lia; nia.
      + intros Hne Heq. exfalso. rewrite !Hfar in Heq. assert (t' <= q \/ q + 2 <= t') as [H|H] by lia; nia.
    - apply Z.ltb_ge in E1, E2. split; [|intros; exact E3].
      rewrite !Hfar. assert (t' <= q \/ q + 1 <= t') as [H|H] by lia; nia.
    - apply Z.ltb_ge in E1, E2. split.
      + rewrite !Hfar. assert (t' <= q \/ q + 1 <= t') as [H|H] by lia; nia.
      + intros _ _. rewrite Z.even_add. rewrite E3. reflexivity.
  Qed.
End SpecChar.

Section SpecArith.
  Variables n1 d1 n2 d2 : Z.
  Hypothesis Hp1 : period_ok n1 d1 = true.
  Hypothesis Hp2 : period_ok n2 d2 = true.
  Let g := cnum n1 n2.
  Let l := cden d1 d2.

  (* c ticks of n1/d1 are exactly [in_common c] ticks of g/l:  (c*f) * g/l = c * n1/d1 *)
  Lemma in_common_exact c : in_common n1 d1 n2 d2 c * g * d1 = c * n1 * l.
  Proof.
    destruct (tk_facts n1 d1 n2 d2 Hp1 Hp2) as (_ & _ & _ & _ & _ & _ & E1 & _).
    rewrite in_common_l. fold g l in E1.
    transitivity (c * (tk1 n1 d1 n2 d2 * (d1 * g))); [ring|]. rewrite E1. ring.
  Qed.

  (* r = plus_spec is the count with r * g/l = c1*n1/d1 + c2*n2/d2 (cross-multiplied) *)
  Lemma plus_spec_char c1 c2 :
    plus_spec n1 d1 n2 d2 c1 c2 * g * (d1 * d2) = l * (c1 * n1 * d2 + c2 * n2 * d1).
  Proof.
    destruct (tk_facts n1 d1 n2 d2 Hp1 Hp2) as (_ & _ & _ & _ & _ & _ & E1 & E2 & _).
    unfold plus_spec. cbv zeta. rewrite in_common_l, in_common_r. fold g l in E1, E2.
    transitivity (c1 * d2 * (tk1 n1 d1 n2 d2 * (d1 * g)) + c2 * d1 * (tk2 n1 d1 n2 d2 * (d2 * g))); [ring|].
    rewrite E1, E2. ring.
  Qed.

  Lemma minus_spec_char c1 c2 :
    minus_spec n1 d1 n2 d2 c1 c2 * g * (d1 * d2) = l * (c1 * n1 * d2 - c2 * n2 * d1).
  Proof.
    destruct (tk_facts n1 d1 n2 d2 Hp1 Hp2) as (_ & _ & _ & _ & _ & _ & E1 & E2 & _).
    unfold minus_spec. cbv zeta. rewrite in_common_l, in_common_r. fold g l in E1, E2.
    transitivity (c1 * d2 * (tk1 n1 d1 n2 d2 * (d1 * g)) - c2 * d1 * (tk2 n1 d1 n2 d2 * (d2 * g))); [ring|].
    rewrite E1, E2. ring.
  Qed.

  (* lhs = rhs * (lhs / rhs) + (lhs % rhs), all in ticks of the common period; the remainder is
     smaller in magnitude than the divisor *)
  Lemma div_mod_spec_char c1 c2 : c2 <> 0 ->
    in_common n1 d1 n2 d2 c1
    = in_common n2 d2 n1 d1 c2 * div_spec n1 d1 n2 d2 c1 c2 + mod_spec n1 d1 n2 d2 c1 c2
    /\ Z.abs (mod_spec n1 d1 n2 d2 c1 c2) < Z.abs (in_common n2 d2 n1 d1 c2).
  Proof.
    intros Hc2.
    destruct (scaled_values n1 d1 n2 d2 c1 c2 Hp1 Hp2) as (K & l' & HK & Hl & Ex & Ey).
    destruct (tk_facts n1 d1 n2 d2 Hp1 Hp2) as (_ & _ & _ & _ & _ & _ & _ & _ & _ & Ht2).
    assert (Hy : c2 * tk2 n1 d1 n2 d2 <> 0) by nia.
    unfold mod_spec. cbv zeta. rewrite in_common_l, in_common_r.
    unfold div_spec. rewrite <- (scaled_quot _ _ _ _ K l' HK Hl Ex Ey Hy).
    split; [apply Z.quot_rem'|]. apply Z.rem_bound_abs. exact Hy.
  Qed.
End SpecArith.

(* the typedef table of the model satisfies [time.syn]: same periods, at least the required bits *)
Lemma typedefs_ok :
  forallb (fun p => let '((w, n, d), (bits, sn, sd)) := p in (n =? sn) && (d =? sd) && (bits <=? w))
          (combine typedefs_m typedefs_spec) = true
  /\ length typedefs_m = length typedefs_spec.
Proof. split; reflexivity. Qed.
