(* C12, translator tie: the definitions REGENERATED from /repo's current source by translate/cxx2gallina.py
   (coq/Gen/Gen_duration.v: concrete instantiations of duration_cast, floor, ceil, round, abs and of the duration
   operators + - % /) agree with the hand-written models (coq/C12/Model.v; UModel.v for the unsigned one) on ALL
   arguments of the parameter types: the same value where the model says [Val], [None] exactly where the model says
   [Ub], and the model is never [IllFormed] / [Fuel] on these instantiations.

   Proof method: the compile-time stage of each model function (ratio_divide, common type, participation of the
   converting constructor) is evaluated on the concrete types; what is left runs the same checked machine operations in
   the same order as the generated term, and the two are walked in lockstep ([tie_*] lemmas).  A semantic edit of a C++
   kernel changes the generated term and breaks these proofs. *)
From Tetl Require Import Lib.Base Lib.MachOps C12.Model C12.UModel C12.ProofsArith C12.ProofsTotal.
From Tetl Require Gen.Gen_duration.
From Coq Require Import ZifyBool.
Local Open Scope Z_scope.
Ltac Zify.zify_post_hook ::= Z.to_euclidean_division_equations.

(** * the tie relation between a model outcome and a generated result *)
Definition tie {A} (m : out A) (g : option A) : Prop :=
  match m with
  | Val v => g = Some v
  | Ub _ => g = None
  | IllFormed => False
  | Fuel => False
  end.

(** * the duration types of translate/tu_duration.cpp *)
Definition Ds32 := Build_dty 32 1 1.
Definition Ds64 := Build_dty 64 1 1.
Definition Dms32 := Build_dty 32 1 1000.
Definition Dms64 := Build_dty 64 1 1000.
Definition Dmin32 := Build_dty 32 60 1.
Definition Df32 := Build_dty 32 1001 30000.
Definition Df64 := Build_dty 64 1001 30000.
Definition Dt32 := Build_dty 32 1 3.
Definition Dt64 := Build_dty 64 1 3.

(** * machine-level bridges *)
Lemma in_ty_i64 x : in_ty i64 x = in64 x. Proof. reflexivity. Qed.
Lemma in_ty_i32 x : in_ty i32 x = in32 x. Proof. reflexivity. Qed.

Lemma in64_bounds x : in64 x = true <-> -9223372036854775808 <= x <= 9223372036854775807.
Proof. rewrite in64_iff. unfold min64, max64. reflexivity. Qed.
Lemma in32_bounds x : in32 x = true <-> -2147483648 <= x <= 2147483647.
Proof. rewrite in32_iff. unfold min32, max32. reflexivity. Qed.
Lemma in32_in64 x : in32 x = true -> in64 x = true.
Proof. rewrite in32_bounds, in64_bounds. lia. Qed.

Lemma wrap_rep_32 x : wrap_rep 32 x = wrap_ty i32 x.
Proof.
  unfold wrap_rep, wrap_ty, wraps, wraps32, in32, min32, max32, two32. cbn [sgn bits i32 Z.eqb Pos.eqb].
  change (2 ^ 32) with 4294967296. change (2 ^ (32 - 1)) with 2147483648.
  destruct ((-2147483648 <=? x) && (x <=? 2147483647)) eqn:E.
  - apply Bool.andb_true_iff in E. destruct E as [E1 E2]. apply Z.leb_le in E1, E2.
    destruct (x mod 4294967296 <? 2147483648) eqn:F; [apply Z.ltb_lt in F|apply Z.ltb_ge in F]; lia.
  - destruct (x mod 4294967296 <=? 2147483647) eqn:F1; destruct (x mod 4294967296 <? 2147483648) eqn:F2; lia.
Qed.
Lemma wrap_rep_64 x : wrap_rep 64 x = wrap_ty i64 x.
Proof.
  unfold wrap_rep, wrap_ty, wraps, wraps64, in64, min64, max64, two64. cbn [sgn bits i64 Z.eqb Pos.eqb].
  change (2 ^ 64) with 18446744073709551616. change (2 ^ (64 - 1)) with 9223372036854775808.
  destruct ((-9223372036854775808 <=? x) && (x <=? 9223372036854775807)) eqn:E.
  - apply Bool.andb_true_iff in E. destruct E as [E1 E2]. apply Z.leb_le in E1, E2.
    destruct (x mod 18446744073709551616 <? 9223372036854775808) eqn:F; [apply Z.ltb_lt in F|apply Z.ltb_ge in F]; lia.
  - destruct (x mod 18446744073709551616 <=? 9223372036854775807) eqn:F1;
      destruct (x mod 18446744073709551616 <? 9223372036854775808) eqn:F2; lia.
Qed.
Lemma wrap_rep_64_id x : in64 x = true -> wrap_rep 64 x = x.
Proof. intros H. unfold wrap_rep. cbn [Z.eqb Pos.eqb]. rewrite H. reflexivity. Qed.
Lemma wrap_ty_i32_in x : in32 (wrap_ty i32 x) = true.
Proof.
  unfold wrap_ty, wraps. cbn [sgn bits i32]. change (2 ^ 32) with 4294967296. change (2 ^ (32 - 1)) with 2147483648.
  apply in32_bounds. destruct (x mod 4294967296 <? 2147483648) eqn:?; lia.
Qed.
Lemma wrap_ty_i32_id x : in32 x = true -> wrap_ty i32 x = x.
Proof. intros H. rewrite <- wrap_rep_32. unfold wrap_rep. cbn [Z.eqb Pos.eqb]. rewrite H. reflexivity. Qed.

Lemma land1_odd a : negb (Z.land a 1 =? 0) = Z.odd a.
Proof.
  change 1 with (Z.ones 1). rewrite Z.land_ones by lia. change (2 ^ 1) with 2.
  rewrite Zodd_mod. destruct (Zeq_bool (a mod 2) 1) eqn:E.
  - apply Zeq_is_eq_bool in E. rewrite E. reflexivity.
  - destruct (a mod 2 =? 0) eqn:E0; [reflexivity|]. exfalso.
    assert (a mod 2 <> 1) by (intros K; rewrite K in E; discriminate). lia.
Qed.

(** * monad laws used to flatten both sides *)
Lemma bind_assoc {A B C} (m : out A) (f : A -> out B) (g : B -> out C) :
  bind (bind m f) g = bind m (fun x => bind (f x) g).
Proof. destruct m; reflexivity. Qed.
Lemma obind_assoc {A B C} (m : option A) (f : A -> option B) (g : B -> option C) :
  obind (obind m f) g = obind m (fun x => obind (f x) g).
Proof. destruct m; reflexivity. Qed.

(** * lockstep lemmas: one checked machine operation on each side *)
Lemma tie_ret {A} (x y : A) : y = x -> tie (Val x) (Some y).
Proof. intros ->. reflexivity. Qed.

Lemma tie_ck64 {A} x (f : Z -> out A) (h : Z -> option A) :
  (in64 x = true -> tie (f x) (h x)) -> tie (bind (ck64 x) f) (obind (chk i64 x) h).
Proof.
  intros H. unfold ck64, chk. change (in_ty i64 x) with (in64 x). destruct (in64 x); cbn [bind obind tie]; [apply H; reflexivity|reflexivity].
Qed.
Lemma tie_ck_rep64 {A} x (f : Z -> out A) (h : Z -> option A) :
  (in64 x = true -> tie (f x) (h x)) -> tie (bind (ck_rep 64 x) f) (obind (chk i64 x) h).
Proof. exact (tie_ck64 x f h). Qed.
Lemma tie_ck_rep32 {A} x (f : Z -> out A) (h : Z -> option A) :
  (in32 x = true -> tie (f x) (h x)) -> tie (bind (ck_rep 32 x) f) (obind (chk i32 x) h).
Proof.
  intros H. unfold ck_rep, chk. change (in_ty i32 x) with (in32 x). change (in_rep 32 x) with (in32 x).
  destruct (in32 x); cbn [bind obind tie]; [apply H; reflexivity|reflexivity].
Qed.

Lemma quot_in64 a b : in64 a = true -> in64 b = true -> b <> 0 -> (a =? min64) && (b =? -1) = false ->
  in64 (Z.quot a b) = true.
Proof.
  intros Ha Hb Hnz E. destruct (in64 (Z.quot a b)) eqn:Hq; [reflexivity|exfalso].
  apply in64_bounds in Ha, Hb.
  assert (K : ~ (- 9223372036854775807 - 1 <= Z.quot a b <= 9223372036854775807)).
  { intros K. assert (in64 (Z.quot a b) = true) by (apply in64_bounds; lia). congruence. }
  destruct (quot_leaves_range 9223372036854775807 a b ltac:(lia) ltac:(lia) ltac:(lia) Hnz K) as [E1 E2].
  subst. discriminate E.
Qed.

Lemma tie_div64 {A} a b (f : Z -> out A) (h : Z -> option A) :
  in64 a = true -> in64 b = true ->
  (b <> 0 -> in64 (Z.quot a b) = true -> tie (f (Z.quot a b)) (h (Z.quot a b))) ->
  tie (bind (div_rep 64 a b) f) (obind (div_chk i64 a b) h).
Proof.
  intros Ha Hb H. unfold div_rep, div_chk, chk. change (in_ty i64 (Z.quot a b)) with (in64 (Z.quot a b)). change (min_rep 64) with min64.
  destruct (b =? 0) eqn:E0; cbn [bind obind tie]; [reflexivity|]. apply Z.eqb_neq in E0.
  destruct ((a =? min64) && (b =? -1)) eqn:E1.
  - assert (in64 (Z.quot a b) = false) as ->.
    { apply Bool.andb_true_iff in E1. destruct E1 as [E1 E2]. apply Z.eqb_eq in E1, E2. subst. reflexivity. }
    reflexivity.
  - assert (Hq : in64 (Z.quot a b) = true).
    { apply quot_in64; assumption. }
    rewrite Hq. cbn [bind obind].
    replace (if b =? 1 then a else Z.quot a b) with (Z.quot a b).
    + apply H; [exact E0|exact Hq].
    + destruct (b =? 1) eqn:E2; [|reflexivity]. apply Z.eqb_eq in E2. subst. rewrite Z.quot_1_r. reflexivity.
Qed.

Lemma tie_rem64 {A} a b (f : Z -> out A) (h : Z -> option A) :
  in64 a = true -> in64 b = true ->
  (b <> 0 -> in64 (Z.quot a b) = true -> tie (f (Z.rem a b)) (h (Z.rem a b))) ->
  tie (bind (rem_rep 64 a b) f) (obind (rem_chk i64 a b) h).
Proof.
  intros Ha Hb H. unfold rem_rep, rem_chk. change (in_ty i64 (Z.quot a b)) with (in64 (Z.quot a b)). change (min_rep 64) with min64.
  destruct (b =? 0) eqn:E0; cbn [bind obind tie]; [reflexivity|]. apply Z.eqb_neq in E0.
  destruct ((a =? min64) && (b =? -1)) eqn:E1.
  - assert (in64 (Z.quot a b) = false) as ->.
    { apply Bool.andb_true_iff in E1. destruct E1 as [E1 E2]. apply Z.eqb_eq in E1, E2. subst. reflexivity. }
    reflexivity.
  - assert (Hq : in64 (Z.quot a b) = true).
    { apply quot_in64; assumption. }
    rewrite Hq. cbn [bind obind]. apply H; [exact E0|exact Hq].
Qed.

(** * evaluation of the compile-time stage, unfolding of the generated definitions, lockstep tactic *)
Module G := Gen_duration.

(* evaluate the closed compile-time stage of the model *)
Ltac ev2 f := repeat match goal with |- context [f ?a ?b] =>
  let t := constr:(f a b) in let v := eval vm_compute in t in
  progress (replace t with v by (vm_compute; reflexivity)) end.
Ltac ev_eqb := repeat match goal with |- context [Z.eqb (Zpos ?a) (Zpos ?b)] =>
  let v := eval vm_compute in (Z.eqb (Zpos a) (Zpos b)) in change (Z.eqb (Zpos a) (Zpos b)) with v end.
Ltac mnorm :=
  repeat progress (ev2 ratio_divide_m; ev2 common_m; ev2 same_ty; ev2 period_quotient_integral_m;
                   cbn [bind fst snd negb rw pn pd]; ev_eqb).
Ltac model_norm :=
  cbv beta zeta delta [duration_cast_m floor_m ceil_m round_m round_ops abs_m abs_ops plus_m minus_m div_m mod_m
                       lt_m gt_m eq_m to_common_m conv_m Ds32 Ds64 Dms32 Dms64 Dmin32 Df32 Df64 Dt32 Dt64];
  cbn [pn pd rw]; mnorm.

#[local] Hint Unfold G.cast_duration_cast_impl_duration_i64_ratio_1_1_i64_1_1_i32_ratio_1_1_of_duration_i32_ratio_1_1_g : gen.
#[local] Hint Unfold G.cast_s32_s64_g : gen.
#[local] Hint Unfold G.cast_duration_cast_impl_duration_i32_ratio_1_1_i64_1_1_i64_ratio_1_1_of_duration_i64_ratio_1_1_g : gen.
#[local] Hint Unfold G.cast_s64_s32_g : gen.
#[local] Hint Unfold G.cast_duration_cast_impl_duration_i32_ratio_1_1000_i64_1_0_i64_ratio_1_1000_of_duration_i64_ratio_1_1000_g : gen.
#[local] Hint Unfold G.cast_ms64_s32_g : gen.
#[local] Hint Unfold G.cast_duration_cast_impl_duration_i64_ratio_1_1000_i64_1_0_i32_ratio_1_1000_of_duration_i32_ratio_1_1000_g : gen.
#[local] Hint Unfold G.cast_ms32_s64_g : gen.
#[local] Hint Unfold G.cast_duration_cast_impl_duration_u64_ratio_1_1000_u64_1_0_u32_ratio_1_1000_of_duration_u32_ratio_1_1000_g : gen.
#[local] Hint Unfold G.cast_ums32_us64_g : gen.
#[local] Hint Unfold G.cast_duration_cast_impl_duration_i64_ratio_1_1000_ratio_1000_1_i64_0_1_i32_ratio_1_1_of_duration_i32_ratio_1_1_g : gen.
#[local] Hint Unfold G.cast_s32_ms64_g : gen.
#[local] Hint Unfold G.cast_duration_cast_impl_duration_i32_ratio_1_1000_ratio_1000_1_i64_0_1_i64_ratio_1_1_of_duration_i64_ratio_1_1_g : gen.
#[local] Hint Unfold G.cast_s64_ms32_g : gen.
#[local] Hint Unfold G.cast_duration_cast_impl_duration_i64_ratio_60_1_i64_0_1_i32_ratio_60_1_of_duration_i32_ratio_60_1_g : gen.
#[local] Hint Unfold G.cast_min32_s64_g : gen.
#[local] Hint Unfold G.cast_duration_cast_impl_duration_i64_ratio_1_3_ratio_1001_10000_i64_0_0_i64_ratio_1001_30000_of_duration_i64_ratio_1001_30000_g : gen.
#[local] Hint Unfold G.cast_f64_t64_g : gen.
#[local] Hint Unfold G.cast_duration_cast_impl_duration_i32_ratio_1001_30000_ratio_10000_1001_i64_0_0_i32_ratio_1_3_of_duration_i32_ratio_1_3_g : gen.
#[local] Hint Unfold G.cast_t32_f32_g : gen.
#[local] Hint Unfold G.cast_duration_cast_impl_duration_i64_ratio_1_1000_i64_1_0_i64_ratio_1_1000_of_duration_i64_ratio_1_1000_g : gen.
#[local] Hint Unfold G.duration_cast_duration_i64_i64_ratio_1_1000_of_duration_i64_ratio_1_1000_g : gen.
#[local] Hint Unfold G.op_lt_i64_ratio_1_1000_i64_ratio_1_1_of_duration_i64_ratio_1_1000_duration_i64_ratio_1_1_g : gen.
#[local] Hint Unfold G.op_gt_i64_ratio_1_1_i64_ratio_1_1000_of_duration_i64_ratio_1_1_duration_i64_ratio_1_1000_g : gen.
#[local] Hint Unfold G.floor_ms64_s64_g : gen.
#[local] Hint Unfold G.op_lt_i64_ratio_1_1_i64_ratio_1_1000_of_duration_i64_ratio_1_1_duration_i64_ratio_1_1000_g : gen.
#[local] Hint Unfold G.ceil_ms64_s64_g : gen.
#[local] Hint Unfold G.op_plus_i64_ratio_1_1_i64_ratio_1_1_of_duration_i64_ratio_1_1_duration_i64_ratio_1_1_g : gen.
#[local] Hint Unfold G.op_minus_i64_ratio_1_1000_i64_ratio_1_1_of_duration_i64_ratio_1_1000_duration_i64_ratio_1_1_g : gen.
#[local] Hint Unfold G.op_minus_i64_ratio_1_1_i64_ratio_1_1000_of_duration_i64_ratio_1_1_duration_i64_ratio_1_1000_g : gen.
#[local] Hint Unfold G.op_lt_i64_ratio_1_1000_i64_ratio_1_1000_of_duration_i64_ratio_1_1000_duration_i64_ratio_1_1000_g : gen.
#[local] Hint Unfold G.op_gt_i64_ratio_1_1000_i64_ratio_1_1000_of_duration_i64_ratio_1_1000_duration_i64_ratio_1_1000_g : gen.
#[local] Hint Unfold G.round_ms64_s64_g : gen.
#[local] Hint Unfold G.op_lt_i64_ratio_1001_30000_i64_ratio_1_3_of_duration_i64_ratio_1001_30000_duration_i64_ratio_1_3_g : gen.
#[local] Hint Unfold G.op_gt_i64_ratio_1_3_i64_ratio_1001_30000_of_duration_i64_ratio_1_3_duration_i64_ratio_1001_30000_g : gen.
#[local] Hint Unfold G.floor_f64_t64_g : gen.
#[local] Hint Unfold G.op_lt_i64_ratio_1_3_i64_ratio_1001_30000_of_duration_i64_ratio_1_3_duration_i64_ratio_1001_30000_g : gen.
#[local] Hint Unfold G.ceil_f64_t64_g : gen.
#[local] Hint Unfold G.op_plus_i64_ratio_1_3_i64_ratio_1_3_of_duration_i64_ratio_1_3_duration_i64_ratio_1_3_g : gen.
#[local] Hint Unfold G.op_minus_i64_ratio_1001_30000_i64_ratio_1_3_of_duration_i64_ratio_1001_30000_duration_i64_ratio_1_3_g : gen.
#[local] Hint Unfold G.op_minus_i64_ratio_1_3_i64_ratio_1001_30000_of_duration_i64_ratio_1_3_duration_i64_ratio_1001_30000_g : gen.
#[local] Hint Unfold G.op_lt_i64_ratio_1_30000_i64_ratio_1_30000_of_duration_i64_ratio_1_30000_duration_i64_ratio_1_30000_g : gen.
#[local] Hint Unfold G.op_gt_i64_ratio_1_30000_i64_ratio_1_30000_of_duration_i64_ratio_1_30000_duration_i64_ratio_1_30000_g : gen.
#[local] Hint Unfold G.round_f64_t64_g : gen.
#[local] Hint Unfold G.cast_duration_cast_impl_duration_i32_ratio_60_1_ratio_1_60_i64_1_0_i32_ratio_1_1_of_duration_i32_ratio_1_1_g : gen.
#[local] Hint Unfold G.duration_cast_duration_i32_ratio_60_1_i32_ratio_1_1_of_duration_i32_ratio_1_1_g : gen.
#[local] Hint Unfold G.op_lt_i32_ratio_1_1_i32_ratio_60_1_of_duration_i32_ratio_1_1_duration_i32_ratio_60_1_g : gen.
#[local] Hint Unfold G.op_gt_i32_ratio_60_1_i32_ratio_1_1_of_duration_i32_ratio_60_1_duration_i32_ratio_1_1_g : gen.
#[local] Hint Unfold G.floor_s32_min32_g : gen.
#[local] Hint Unfold G.op_lt_i32_ratio_60_1_i32_ratio_1_1_of_duration_i32_ratio_60_1_duration_i32_ratio_1_1_g : gen.
#[local] Hint Unfold G.ceil_s32_min32_g : gen.
#[local] Hint Unfold G.op_plus_i32_ratio_60_1_i32_ratio_60_1_of_duration_i32_ratio_60_1_duration_i32_ratio_60_1_g : gen.
#[local] Hint Unfold G.op_minus_i32_ratio_1_1_i32_ratio_60_1_of_duration_i32_ratio_1_1_duration_i32_ratio_60_1_g : gen.
#[local] Hint Unfold G.op_minus_i32_ratio_60_1_i32_ratio_1_1_of_duration_i32_ratio_60_1_duration_i32_ratio_1_1_g : gen.
#[local] Hint Unfold G.op_lt_i32_ratio_1_1_i32_ratio_1_1_of_duration_i32_ratio_1_1_duration_i32_ratio_1_1_g : gen.
#[local] Hint Unfold G.op_gt_i32_ratio_1_1_i32_ratio_1_1_of_duration_i32_ratio_1_1_duration_i32_ratio_1_1_g : gen.
#[local] Hint Unfold G.round_s32_min32_g : gen.
#[local] Hint Unfold G.zero_duration_i32_ratio_1_1_of_g : gen.
#[local] Hint Unfold G.op_minus_i32_ratio_1_1_i32_ratio_1_1_of_duration_i32_ratio_1_1_duration_i32_ratio_1_1_g : gen.
#[local] Hint Unfold G.abs_s32_g : gen.
#[local] Hint Unfold G.zero_duration_i64_ratio_1_1000_of_g : gen.
#[local] Hint Unfold G.op_minus_i64_ratio_1_1000_i64_ratio_1_1000_of_duration_i64_ratio_1_1000_duration_i64_ratio_1_1000_g : gen.
#[local] Hint Unfold G.abs_ms64_g : gen.
#[local] Hint Unfold G.plus_ms64_s32_g : gen.
#[local] Hint Unfold G.minus_ms64_s32_g : gen.
#[local] Hint Unfold G.mod_ms64_s32_g : gen.
#[local] Hint Unfold G.div_ms64_s32_g : gen.
#[local] Hint Unfold G.plus_min32_t64_g : gen.
#[local] Hint Unfold G.minus_min32_t64_g : gen.
#[local] Hint Unfold G.mod_min32_t64_g : gen.
#[local] Hint Unfold G.div_min32_t64_g : gen.

Lemma bind_ret_r {A} (m : out A) : bind m (fun x => Val x) = m.
Proof. destruct m; reflexivity. Qed.
Ltac tail_bind :=
  match goal with
  | |- tie (ck_rep ?w ?x) _ => rewrite <- (bind_ret_r (ck_rep w x))
  | |- tie (ck64 ?x) _ => rewrite <- (bind_ret_r (ck64 x))
  | |- tie (div_rep ?w ?x ?y) _ => rewrite <- (bind_ret_r (div_rep w x y))
  | |- tie (rem_rep ?w ?x ?y) _ => rewrite <- (bind_ret_r (rem_rep w x y))
  end.
Ltac flat := repeat (rewrite bind_assoc || rewrite obind_assoc); cbn [bind obind].
Ltac rng := first [ assumption | reflexivity | (apply in32_in64; assumption) | apply wrap_ty_i32_in
                  | (apply in32_in64; apply wrap_ty_i32_in) ].
Ltac step :=
  flat; mnorm; flat; try tail_bind;
  repeat match goal with |- context [wrap_rep 32 ?x] => rewrite (wrap_rep_32 x) end;
  repeat match goal with H : in64 ?x = true |- context [wrap_rep 64 ?x] => rewrite (wrap_rep_64_id x H) end;
  repeat match goal with H : in32 ?x = true |- context [wrap_rep 64 ?x] => rewrite (wrap_rep_64_id x (in32_in64 x H)) end;
  repeat match goal with |- context [wrap_rep 64 (wrap_ty i32 ?x)] => rewrite (wrap_rep_64_id _ (in32_in64 _ (wrap_ty_i32_in x))) end;
  repeat match goal with |- context [Z.land ?x 1] => rewrite (land1_odd x) end;
  first
  [ apply tie_ret; reflexivity
  | apply tie_ck64; intros ?
  | apply tie_ck_rep64; intros ?
  | apply tie_ck_rep32; intros ?
  | apply tie_div64; [rng | rng | intros ? ?]
  | apply tie_rem64; [rng | rng | intros ? ?]
  | match goal with |- tie (if ?b then _ else _) (if ?b then _ else _) => destruct b eqn:? end
  | match goal with |- tie (bind (if ?b then _ else _) _) (obind (if ?b then _ else _) _) => destruct b eqn:? end
  | match goal with |- tie (if ?b then _ else _) (Some (if ?b then _ else _)) => destruct b eqn:? end ].
Ltac tie_auto := model_norm; repeat autounfold with gen; repeat step.


(** * duration_cast: the four duration_cast_impl specialisations, both directions, int / long *)
Theorem gen_cast_s32_s64 : forall c, in32 c = true -> tie (duration_cast_m Ds32 Ds64 c) (G.cast_s32_s64_g c).
Proof. intros c Hc. tie_auto. Qed.
Theorem gen_cast_s64_s32 : forall c, in64 c = true -> tie (duration_cast_m Ds64 Ds32 c) (G.cast_s64_s32_g c).
Proof. intros c Hc. tie_auto. Qed.
Theorem gen_cast_ms64_s32 : forall c, in64 c = true -> tie (duration_cast_m Dms64 Ds32 c) (G.cast_ms64_s32_g c).
Proof. intros c Hc. tie_auto. Qed.
Theorem gen_cast_ms32_s64 : forall c, in32 c = true -> tie (duration_cast_m Dms32 Ds64 c) (G.cast_ms32_s64_g c).
Proof. intros c Hc. tie_auto. Qed.
Theorem gen_cast_s32_ms64 : forall c, in32 c = true -> tie (duration_cast_m Ds32 Dms64 c) (G.cast_s32_ms64_g c).
Proof. intros c Hc. tie_auto. Qed.
Theorem gen_cast_s64_ms32 : forall c, in64 c = true -> tie (duration_cast_m Ds64 Dms32 c) (G.cast_s64_ms32_g c).
Proof. intros c Hc. tie_auto. Qed.
Theorem gen_cast_min32_s64 : forall c, in32 c = true -> tie (duration_cast_m Dmin32 Ds64 c) (G.cast_min32_s64_g c).
Proof. intros c Hc. tie_auto. Qed.
Theorem gen_cast_f64_t64 : forall c, in64 c = true -> tie (duration_cast_m Df64 Dt64 c) (G.cast_f64_t64_g c).
Proof. intros c Hc. tie_auto. Qed.
Theorem gen_cast_t32_f32 : forall c, in32 c = true -> tie (duration_cast_m Dt32 Df32 c) (G.cast_t32_f32_g c).
Proof. intros c Hc. tie_auto. Qed.

(** * floor, ceil, round *)
Theorem gen_floor_ms64_s64 : forall c, in64 c = true -> tie (floor_m Dms64 Ds64 c) (G.floor_ms64_s64_g c).
Proof. intros c Hc. tie_auto. Qed.
Theorem gen_ceil_ms64_s64 : forall c, in64 c = true -> tie (ceil_m Dms64 Ds64 c) (G.ceil_ms64_s64_g c).
Proof. intros c Hc. tie_auto. Qed.
Theorem gen_round_ms64_s64 : forall c, in64 c = true -> tie (round_m Dms64 Ds64 c) (G.round_ms64_s64_g c).
Proof. intros c Hc. tie_auto. Qed.
Theorem gen_floor_f64_t64 : forall c, in64 c = true -> tie (floor_m Df64 Dt64 c) (G.floor_f64_t64_g c).
Proof. intros c Hc. tie_auto. Qed.
Theorem gen_ceil_f64_t64 : forall c, in64 c = true -> tie (ceil_m Df64 Dt64 c) (G.ceil_f64_t64_g c).
Proof. intros c Hc. tie_auto. Qed.
Theorem gen_round_f64_t64 : forall c, in64 c = true -> tie (round_m Df64 Dt64 c) (G.round_f64_t64_g c).
Proof. intros c Hc. tie_auto. Qed.
Theorem gen_floor_s32_min32 : forall c, in32 c = true -> tie (floor_m Ds32 Dmin32 c) (G.floor_s32_min32_g c).
Proof. intros c Hc. tie_auto. Qed.
Theorem gen_ceil_s32_min32 : forall c, in32 c = true -> tie (ceil_m Ds32 Dmin32 c) (G.ceil_s32_min32_g c).
Proof. intros c Hc. tie_auto. Qed.
Theorem gen_round_s32_min32 : forall c, in32 c = true -> tie (round_m Ds32 Dmin32 c) (G.round_s32_min32_g c).
Proof. intros c Hc. tie_auto. Qed.

(** * abs *)
Theorem gen_abs_s32 : forall c, in32 c = true -> tie (abs_m Ds32 c) (G.abs_s32_g c).
Proof. intros c Hc. tie_auto. Qed.
Theorem gen_abs_ms64 : forall c, in64 c = true -> tie (abs_m Dms64 c) (G.abs_ms64_g c).
Proof. intros c Hc. tie_auto. Qed.

(** * duration + - % / on mixed periods (conversion of both operands to the common type) *)
Theorem gen_plus_ms64_s32 : forall a b, in64 a = true -> in32 b = true ->
  tie (plus_m Dms64 Ds32 a b) (G.plus_ms64_s32_g a b).
Proof. intros a b Ha Hb. tie_auto. Qed.
Theorem gen_minus_ms64_s32 : forall a b, in64 a = true -> in32 b = true ->
  tie (minus_m Dms64 Ds32 a b) (G.minus_ms64_s32_g a b).
Proof. intros a b Ha Hb. tie_auto. Qed.
Theorem gen_mod_ms64_s32 : forall a b, in64 a = true -> in32 b = true ->
  tie (mod_m Dms64 Ds32 a b) (G.mod_ms64_s32_g a b).
Proof. intros a b Ha Hb. tie_auto. Qed.
Theorem gen_div_ms64_s32 : forall a b, in64 a = true -> in32 b = true ->
  tie (div_m Dms64 Ds32 a b) (G.div_ms64_s32_g a b).
Proof. intros a b Ha Hb. tie_auto. Qed.
Theorem gen_plus_min32_t64 : forall a b, in32 a = true -> in64 b = true ->
  tie (plus_m Dmin32 Dt64 a b) (G.plus_min32_t64_g a b).
Proof. intros a b Ha Hb. tie_auto. Qed.
Theorem gen_minus_min32_t64 : forall a b, in32 a = true -> in64 b = true ->
  tie (minus_m Dmin32 Dt64 a b) (G.minus_min32_t64_g a b).
Proof. intros a b Ha Hb. tie_auto. Qed.
Theorem gen_mod_min32_t64 : forall a b, in32 a = true -> in64 b = true ->
  tie (mod_m Dmin32 Dt64 a b) (G.mod_min32_t64_g a b).
Proof. intros a b Ha Hb. tie_auto. Qed.
Theorem gen_div_min32_t64 : forall a b, in32 a = true -> in64 b = true ->
  tie (div_m Dmin32 Dt64 a b) (G.div_min32_t64_g a b).
Proof. intros a b Ha Hb. tie_auto. Qed.

(** * an unsigned instantiation: duration_cast<duration<unsigned long>>(duration<unsigned, milli>), model UModel.ucast_m
      (type codes -32 / -64 = unsigned 32 / 64 bit); CR = unsigned long, the division is done there *)
Definition Dums32 := Build_dty (-32) 1 1000.
Definition Dus64 := Build_dty (-64) 1 1.
Lemma cvt_u64_id x : 0 <= x <= 18446744073709551615 -> cvt (-64) x = x.
Proof.
  intros H. unfold cvt, in_rty. change (rmin (-64)) with 0. change (rmax (-64)) with 18446744073709551615.
  destruct ((0 <=? x) && (x <=? 18446744073709551615)) eqn:E; [reflexivity|]. exfalso.
  apply Bool.andb_false_iff in E. destruct E as [E|E]; [apply Z.leb_gt in E|apply Z.leb_gt in E]; lia.
Qed.
Theorem gen_cast_ums32_us64 : forall c, in_ty u32 c = true -> tie (ucast_m Dums32 Dus64 c) (G.cast_ums32_us64_g c).
Proof.
  intros c Hc.
  assert (Hr : 0 <= c <= 4294967295).
  { unfold in_ty in Hc. change (imin u32) with 0 in Hc. change (imax u32) with 4294967295 in Hc.
    apply Bool.andb_true_iff in Hc. destruct Hc as [H1 H2]. apply Z.leb_le in H1, H2. lia. }
  assert (Hq : 0 <= Z.quot c 1000 <= 4294967295).
  { split; [apply Z.quot_pos; lia|]. apply Z.quot_le_upper_bound; lia. }
  unfold ucast_m, Dums32, Dus64. cbn [pn pd rw]. ev2 ratio_divide_m. cbn [bind fst snd].
  ev2 cr3. ev_eqb. cbv beta zeta iota.
  rewrite (cvt_u64_id c) by lia. rewrite (cvt_u64_id 1000) by lia.
  unfold bin_div. ev2 uac. cbv beta zeta. rewrite (cvt_u64_id c) by lia. rewrite (cvt_u64_id 1000) by lia.
  change (1000 =? 0) with false. change (rsigned (-64)) with false. change (1000 =? 1) with false.
  cbn [andb bind]. rewrite (cvt_u64_id (Z.quot c 1000)) by lia.
  repeat autounfold with gen. unfold div_chk, chk.
  change (wrap_ty u64 1000) with 1000. change (1000 =? 0) with false.
  assert (in_ty u64 (Z.quot c 1000) = true) as ->.
  { unfold in_ty. change (imin u64) with 0. change (imax u64) with 18446744073709551615.
    apply Bool.andb_true_iff. split; apply Z.leb_le; lia. }
  reflexivity.
Qed.
