(* placeholder; replaced once the proofs are in *)
From Tetl Require Import Lib.Base C12.Model C12.Spec.
Local Open Scope Z_scope.
Theorem C12_placeholder : duration_cast_m {| rw := 64; pn := 1; pd := 1000 |} {| rw := 64; pn := 1; pd := 1 |} (-1500) = Val (-1).
Proof. vm_compute. reflexivity. Qed.
Print Assumptions C12_placeholder.
