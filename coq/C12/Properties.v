(* C12 — Duration arithmetic and rounding casts are exact rational arithmetic.
   Property theorems only: each is closed by [exact] of a lemma proved in Proofs*.v; Print Assumptions
   is called on groups of them at the end of the file.

   Reading guide.  [Dur w n d] is the model of the type duration<Rep, ratio<n, d>> with Rep a
   signed integer of w bits (rep_ok: w = 32 or 64) and n/d in lowest terms, positive,
   representable (period_ok) — which is what ratio<N, D>::num/den always are (C12_ratio_normalises).
   The [*_m] functions are the executable mirror of the C++ (Model.v), the [*_spec] functions the
   rational arithmetic of [time.duration] (Spec.v).  The [*_ok] hypotheses are the documented
   domain: the exact result and the intermediate values the C++ computes in intmax_t / the
   common representation are representable (otherwise the C++ has signed overflow = UB).
   All statements hold for ALL periods and ALL counts in that domain. *)
From Tetl Require Import Lib.Base C12.Model C12.Spec C12.ProofsArith C12.ProofsCast C12.ProofsCommon
  C12.ProofsRound C12.ProofsSpec C12.ProofsScalar C12.ProofsAlgebra C12.ProofsTotal C12.ProofsRatio.
Local Open Scope Z_scope.

(** * ratio, gcd, lcm *)
Theorem C12_gcd : forall m n, 0 < m <= max64 -> 0 <= n <= max64 -> gcd_m m n = Val (Z.gcd m n).
Proof. exact gcd_m_spec. Qed.

Theorem C12_lcm : forall m n, 0 < m <= max64 -> 0 < n <= max64 -> Z.lcm m n <= max64 ->
  lcm_m m n = Val (Z.lcm m n).
Proof. exact lcm_m_spec. Qed.

(* ratio<N, D>::num / ::den are N, D divided by their gcd, and form a period in the above sense *)
Theorem C12_ratio_normalises : forall w N D, 0 < N <= max64 -> 0 < D <= max64 ->
  mk_dty w N D = Val (Dur w (N / Z.gcd N D) (D / Z.gcd N D))
  /\ period_ok (N / Z.gcd N D) (D / Z.gcd N D) = true.
Proof. intros w N D HN HD. split; [apply mk_dty_spec|apply reduced_period_ok]; assumption. Qed.

(* ratio<N, D> with operands of either sign: the denominator is made positive, the fraction reduced,
   the value N/D preserved *)
Theorem C12_ratio_signed : forall N D, D <> 0 -> - max64 <= N <= max64 -> - max64 <= D <= max64 ->
  let g := Z.gcd N D in
  ratio_m N D = Val (Z.sgn N * Z.sgn D * (Z.abs N / g), Z.abs D / g)
  /\ 0 < Z.abs D / g
  /\ Z.gcd (Z.sgn N * Z.sgn D * (Z.abs N / g)) (Z.abs D / g) = 1
  /\ (Z.sgn N * Z.sgn D * (Z.abs N / g)) * D = N * (Z.abs D / g).
Proof. exact ratio_m_signed. Qed.

(** * duration_cast, floor, ceil, round, abs *)
Theorem C12_duration_cast_trunc : forall w1 n1 d1 w2 n2 d2 c,
  rep_ok w1 = true -> rep_ok w2 = true -> period_ok n1 d1 = true -> period_ok n2 d2 = true ->
  cast_ok w1 n1 d1 w2 n2 d2 c = true ->
  duration_cast_m (Dur w1 n1 d1) (Dur w2 n2 d2) c = Val (cast_spec n1 d1 n2 d2 c).
Proof. exact duration_cast_spec. Qed.

Theorem C12_floor : forall w1 n1 d1 w2 n2 d2,
  rep_ok w1 = true -> rep_ok w2 = true -> period_ok n1 d1 = true -> period_ok n2 d2 = true ->
  forall c, floor_ok w1 n1 d1 w2 n2 d2 c = true ->
  floor_m (Dur w1 n1 d1) (Dur w2 n2 d2) c = Val (floor_spec n1 d1 n2 d2 c).
Proof. exact floor_m_spec. Qed.

Theorem C12_ceil : forall w1 n1 d1 w2 n2 d2,
  rep_ok w1 = true -> rep_ok w2 = true -> period_ok n1 d1 = true -> period_ok n2 d2 = true ->
  forall c, ceil_ok w1 n1 d1 w2 n2 d2 c = true ->
  ceil_m (Dur w1 n1 d1) (Dur w2 n2 d2) c = Val (ceil_spec n1 d1 n2 d2 c).
Proof. exact ceil_m_spec. Qed.

Theorem C12_round_half_even : forall w1 n1 d1 w2 n2 d2,
  rep_ok w1 = true -> rep_ok w2 = true -> period_ok n1 d1 = true -> period_ok n2 d2 = true ->
  forall c, round_ok w1 n1 d1 w2 n2 d2 c = true ->
  round_m (Dur w1 n1 d1) (Dur w2 n2 d2) c = Val (round_spec n1 d1 n2 d2 c).
Proof. exact round_m_spec. Qed.

Theorem C12_abs : forall w n d c, period_ok n d = true -> abs_ok w c = true ->
  abs_m (Dur w n d) c = Val (abs_spec c).
Proof. exact abs_m_spec. Qed.

(** * the common type and conversion to it *)
Theorem C12_common_type : forall w1 n1 d1 w2 n2 d2,
  period_ok n1 d1 = true -> period_ok n2 d2 = true -> cden d1 d2 <= max64 ->
  common_m (Dur w1 n1 d1) (Dur w2 n2 d2) = Val (Dur (Z.max w1 w2) (cnum n1 n2) (cden d1 d2)).
Proof. exact common_m_spec. Qed.

(* conversion to the common type never rounds: CD(lhs).count() = c1 * (n1/d1)/(g/l), an integer
   multiple, and likewise for rhs *)
Theorem C12_common_type_exact : forall w1 n1 d1 w2 n2 d2 c1 c2,
  rep_ok w1 = true -> rep_ok w2 = true -> period_ok n1 d1 = true -> period_ok n2 d2 = true ->
  both_ok w1 n1 d1 w2 n2 d2 c1 c2 = true ->
  to_common_m (Dur w1 n1 d1) (Dur w2 n2 d2) c1 c2
  = Val (Dur (Z.max w1 w2) (cnum n1 n2) (cden d1 d2), in_common n1 d1 n2 d2 c1, in_common n2 d2 n1 d1 c2)
  /\ in_common n1 d1 n2 d2 c1 * cnum n1 n2 * d1 = c1 * n1 * cden d1 d2.
Proof.
  intros w1 n1 d1 w2 n2 d2 c1 c2 Hw1 Hw2 Hp1 Hp2 Hb. split.
  - rewrite in_common_l, in_common_r. apply to_common_m_spec; assumption.
  - apply in_common_exact; assumption.
Qed.

(* the converting constructor participates exactly when the source period is a representable
   integer multiple of the target period ([time.duration.cons]: "no overflow is induced in the
   conversion" and the quotient of the periods has denominator 1), and then converts exactly *)
Theorem C12_converting_constructor : forall w1 n1 d1 w2 n2 d2,
  rep_ok w1 = true -> rep_ok w2 = true -> period_ok n1 d1 = true -> period_ok n2 d2 = true ->
  convertible_m (Dur w1 n1 d1) (Dur w2 n2 d2)
  = Val (((n1 * d2) mod (d1 * n2) =? 0) && ((n1 * d2) / (d1 * n2) <=? max64))
  /\ forall c, (n1 * d2) mod (d1 * n2) = 0 -> cast_ok w1 n1 d1 w2 n2 d2 c = true ->
       conv_m (Dur w1 n1 d1) (Dur w2 n2 d2) c = Val (cast_spec n1 d1 n2 d2 c)
       /\ cast_spec n1 d1 n2 d2 c * (d1 * n2) = c * n1 * d2.
Proof.
  intros w1 n1 d1 w2 n2 d2 Hw1 Hw2 Hp1 Hp2. split.
  - apply convertible_m_spec; assumption.
  - intros c He Hc. apply conv_m_spec; assumption.
Qed.

(** * + - / % == != < <= > >= on two durations *)
Theorem C12_plus : forall w1 n1 d1 w2 n2 d2,
  rep_ok w1 = true -> rep_ok w2 = true -> period_ok n1 d1 = true -> period_ok n2 d2 = true ->
  forall c1 c2, plus_ok w1 n1 d1 w2 n2 d2 c1 c2 = true ->
  plus_m (Dur w1 n1 d1) (Dur w2 n2 d2) c1 c2 = Val (plus_spec n1 d1 n2 d2 c1 c2).
Proof. exact plus_m_spec. Qed.

Theorem C12_minus : forall w1 n1 d1 w2 n2 d2,
  rep_ok w1 = true -> rep_ok w2 = true -> period_ok n1 d1 = true -> period_ok n2 d2 = true ->
  forall c1 c2, minus_ok w1 n1 d1 w2 n2 d2 c1 c2 = true ->
  minus_m (Dur w1 n1 d1) (Dur w2 n2 d2) c1 c2 = Val (minus_spec n1 d1 n2 d2 c1 c2).
Proof. exact minus_m_spec. Qed.

Theorem C12_div : forall w1 n1 d1 w2 n2 d2,
  rep_ok w1 = true -> rep_ok w2 = true -> period_ok n1 d1 = true -> period_ok n2 d2 = true ->
  forall c1 c2, div_ok w1 n1 d1 w2 n2 d2 c1 c2 = true ->
  div_m (Dur w1 n1 d1) (Dur w2 n2 d2) c1 c2 = Val (div_spec n1 d1 n2 d2 c1 c2).
Proof. exact div_m_spec. Qed.

Theorem C12_mod : forall w1 n1 d1 w2 n2 d2,
  rep_ok w1 = true -> rep_ok w2 = true -> period_ok n1 d1 = true -> period_ok n2 d2 = true ->
  forall c1 c2, div_ok w1 n1 d1 w2 n2 d2 c1 c2 = true ->
  mod_m (Dur w1 n1 d1) (Dur w2 n2 d2) c1 c2 = Val (mod_spec n1 d1 n2 d2 c1 c2).
Proof. exact mod_m_spec. Qed.

Theorem C12_compare : forall w1 n1 d1 w2 n2 d2,
  rep_ok w1 = true -> rep_ok w2 = true -> period_ok n1 d1 = true -> period_ok n2 d2 = true ->
  forall c1 c2, both_ok w1 n1 d1 w2 n2 d2 c1 c2 = true ->
  let a := Dur w1 n1 d1 in let b := Dur w2 n2 d2 in
  eq_m a b c1 c2 = Val (eq_spec n1 d1 n2 d2 c1 c2)
  /\ ne_m a b c1 c2 = Val (negb (eq_spec n1 d1 n2 d2 c1 c2))
  /\ lt_m a b c1 c2 = Val (lt_spec n1 d1 n2 d2 c1 c2)
  /\ le_m a b c1 c2 = Val (negb (lt_spec n2 d2 n1 d1 c2 c1))
  /\ gt_m a b c1 c2 = Val (lt_spec n2 d2 n1 d1 c2 c1)
  /\ ge_m a b c1 c2 = Val (negb (lt_spec n1 d1 n2 d2 c1 c2)).
Proof.
  intros w1 n1 d1 w2 n2 d2 Hw1 Hw2 Hp1 Hp2 c1 c2 Hb. cbv zeta.
  repeat split.
  - apply eq_m_spec; assumption.
  - apply ne_m_spec; assumption.
  - apply lt_m_spec; assumption.
  - apply le_m_spec; assumption.
  - apply gt_m_spec; assumption.
  - apply ge_m_spec; assumption.
Qed.

(** * duration * rep, rep * duration (same function), duration / rep, duration % rep: computed in the
      common representation max(w, ws) of the duration's and the scalar's type, period unchanged *)
Theorem C12_scalar_ops : forall w n d ws c s,
  rep_ok w = true -> rep_ok ws = true -> period_ok n d = true -> fits w c = true ->
  (fits (Z.max w ws) (c * s) = true -> smul_m (Dur w n d) ws c s = Val (c * s))
  /\ (s <> 0 -> fits (Z.max w ws) (Z.quot c s) = true ->
      sdiv_m (Dur w n d) ws c s = Val (Z.quot c s) /\ smod_m (Dur w n d) ws c s = Val (Z.rem c s)).
Proof.
  intros w n d ws c s Hw Hws Hp Hc. rewrite fits_in_rep in Hc. split.
  - apply smul_m_spec; assumption.
  - apply sdiv_m_spec; assumption.
Qed.

(** * member operators of duration and time_point (unary - +, ++ --, += -= *= /= %=): one machine
      operation on the stored count each, exact whenever the result is representable *)
Theorem C12_member_ops : forall w c x, rep_ok w = true -> fits w c = true -> fits w x = true ->
  (fits w (- c) = true -> neg_m w c = Val (- c))
  /\ uplus_m w c = Val c
  /\ (fits w (c + 1) = true -> inc_m w c = Val (c + 1) /\ tp_inc_m w c = Val (c + 1))
  /\ (fits w (c - 1) = true -> dec_m w c = Val (c - 1) /\ tp_dec_m w c = Val (c - 1))
  /\ (fits w (c + x) = true -> add_assign_m w c x = Val (c + x) /\ tp_add_assign_m w c x = Val (c + x))
  /\ (fits w (c - x) = true -> sub_assign_m w c x = Val (c - x) /\ tp_sub_assign_m w c x = Val (c - x))
  /\ (fits w (c * x) = true -> mul_assign_m w c x = Val (c * x))
  /\ (x <> 0 -> fits w (Z.quot c x) = true ->
        div_assign_m w c x = Val (Z.quot c x) /\ mod_assign_m w c x = Val (Z.rem c x)).
Proof. exact member_ops_spec. Qed.

(** * time_point + duration, duration + time_point, time_point - duration, time_point - time_point *)
Theorem C12_time_point_arith : forall w1 n1 d1 w2 n2 d2,
  rep_ok w1 = true -> rep_ok w2 = true -> period_ok n1 d1 = true -> period_ok n2 d2 = true ->
  forall c1 c2,
  let a := Dur w1 n1 d1 in let b := Dur w2 n2 d2 in
  (plus_ok w1 n1 d1 w2 n2 d2 c1 c2 = true ->
     tp_plus_m a b c1 c2 = Val (plus_spec n1 d1 n2 d2 c1 c2)
     /\ tp_plus_r_m b a c2 c1 = Val (plus_spec n1 d1 n2 d2 c1 c2))
  /\ (minus_ok w1 n1 d1 w2 n2 d2 c1 c2 = true ->
     tp_minus_m a b c1 c2 = Val (minus_spec n1 d1 n2 d2 c1 c2)
     /\ tp_diff_m a b c1 c2 = Val (minus_spec n1 d1 n2 d2 c1 c2)).
Proof.
  intros w1 n1 d1 w2 n2 d2 Hw1 Hw2 Hp1 Hp2 c1 c2. cbv zeta.
  destruct (tp_ops_are_duration_ops (Dur w1 n1 d1) (Dur w2 n2 d2) c1 c2) as (E1 & E2 & E3 & E4).
  rewrite E1, E2, E3, E4. split; intros H; split; first [apply plus_m_spec|apply minus_m_spec]; assumption.
Qed.

(** * the specification functions are the operations the standard words relationally
      (t ticks of n2/d2 versus c ticks of n1/d1  <=>  t * (d1*n2) versus c*n1*d2) *)
Theorem C12_spec_cast_is_truncation : forall n1 d1 n2 d2 c, 0 < d1 -> 0 < n2 ->
  let t := cast_spec n1 d1 n2 d2 c in
  Z.abs (t * (d1 * n2)) <= Z.abs (c * n1 * d2) /\ Z.abs (c * n1 * d2 - t * (d1 * n2)) < d1 * n2
  /\ (0 <= c * n1 * d2 -> 0 <= t) /\ (c * n1 * d2 <= 0 -> t <= 0).
Proof. exact cast_spec_char. Qed.

Theorem C12_spec_floor_is_greatest_below : forall n1 d1 n2 d2 c, 0 < d1 -> 0 < n2 ->
  let t := floor_spec n1 d1 n2 d2 c in
  t * (d1 * n2) <= c * n1 * d2 < (t + 1) * (d1 * n2)
  /\ (forall t', t' * (d1 * n2) <= c * n1 * d2 -> t' <= t).
Proof. exact floor_spec_char. Qed.

Theorem C12_spec_ceil_is_least_above : forall n1 d1 n2 d2 c, 0 < d1 -> 0 < n2 ->
  let t := ceil_spec n1 d1 n2 d2 c in
  (t - 1) * (d1 * n2) < c * n1 * d2 <= t * (d1 * n2)
  /\ (forall t', c * n1 * d2 <= t' * (d1 * n2) -> t <= t').
Proof. exact ceil_spec_char. Qed.

Theorem C12_spec_round_is_nearest_even : forall n1 d1 n2 d2 c, 0 < d1 -> 0 < n2 ->
  let t := round_spec n1 d1 n2 d2 c in
  forall t', Z.abs (c * n1 * d2 - t * (d1 * n2)) <= Z.abs (c * n1 * d2 - t' * (d1 * n2))
             /\ (t' <> t -> Z.abs (c * n1 * d2 - t * (d1 * n2)) = Z.abs (c * n1 * d2 - t' * (d1 * n2)) ->
                 Z.even t = true).
Proof. exact round_spec_char. Qed.

Theorem C12_spec_plus_minus_exact : forall n1 d1 n2 d2, period_ok n1 d1 = true -> period_ok n2 d2 = true ->
  forall c1 c2,
  plus_spec n1 d1 n2 d2 c1 c2 * cnum n1 n2 * (d1 * d2) = cden d1 d2 * (c1 * n1 * d2 + c2 * n2 * d1)
  /\ minus_spec n1 d1 n2 d2 c1 c2 * cnum n1 n2 * (d1 * d2) = cden d1 d2 * (c1 * n1 * d2 - c2 * n2 * d1).
Proof. intros n1 d1 n2 d2 H1 H2 c1 c2. split; [apply plus_spec_char|apply minus_spec_char]; assumption. Qed.

Theorem C12_spec_div_mod : forall n1 d1 n2 d2, period_ok n1 d1 = true -> period_ok n2 d2 = true ->
  forall c1 c2, c2 <> 0 ->
  in_common n1 d1 n2 d2 c1
  = in_common n2 d2 n1 d1 c2 * div_spec n1 d1 n2 d2 c1 c2 + mod_spec n1 d1 n2 d2 c1 c2
  /\ Z.abs (mod_spec n1 d1 n2 d2 c1 c2) < Z.abs (in_common n2 d2 n1 d1 c2).
Proof. exact div_mod_spec_char. Qed.

(** * laws relating the four conversions (any positive periods, every count) *)
Theorem C12_conversion_laws : forall n1 d1 n2 d2, 0 < n1 -> 0 < d1 -> 0 < n2 -> 0 < d2 ->
  forall c,
  let tr := cast_spec n1 d1 n2 d2 in let fl := floor_spec n1 d1 n2 d2 in
  let ce := ceil_spec n1 d1 n2 d2 in let ro := round_spec n1 d1 n2 d2 in
  (* order: floor <= trunc, round <= ceil <= floor + 1; trunc is floor for c >= 0 and ceil for c < 0 *)
  (fl c <= tr c <= ce c /\ fl c <= ro c <= ce c /\ ce c <= fl c + 1
   /\ tr c = (if 0 <=? c then fl c else ce c))
  (* exactness: floor = ceil iff the quotient is a whole number, and then all four agree exactly *)
  /\ ((c * n1 * d2) mod (d1 * n2) = 0 <-> fl c = ce c)
  /\ ((c * n1 * d2) mod (d1 * n2) = 0 ->
        tr c = fl c /\ ce c = fl c /\ ro c = fl c /\ fl c * (d1 * n2) = c * n1 * d2)
  (* negation: trunc and round are odd functions, floor and ceil are dual *)
  /\ (tr (- c) = - tr c /\ fl (- c) = - ce c /\ ce (- c) = - fl c /\ ro (- c) = - ro c)
  (* monotone *)
  /\ (forall c', c <= c' -> tr c <= tr c' /\ fl c <= fl c' /\ ce c <= ce c' /\ ro c <= ro c').
Proof.
  intros n1 d1 n2 d2 Hn1 Hd1 Hn2 Hd2 c. cbv zeta.
  split; [apply spec_order; assumption|]. split; [apply spec_exact; assumption|].
  split; [apply spec_exact_all; assumption|]. split; [apply spec_neg; assumption|].
  intros c' Hc. apply spec_mono; assumption.
Qed.

(* a conversion to a period that divides the source period (e.g. hours -> seconds) is exact and
   is undone by each of the four conversions back; on the model: cast there and back is the identity *)
Theorem C12_finer_roundtrip : forall w1 n1 d1 w2 n2 d2 c,
  rep_ok w1 = true -> rep_ok w2 = true -> period_ok n1 d1 = true -> period_ok n2 d2 = true ->
  (n1 * d2) mod (d1 * n2) = 0 ->
  let t := cast_spec n1 d1 n2 d2 c in
  (t * (d1 * n2) = c * n1 * d2
   /\ cast_spec n2 d2 n1 d1 t = c /\ floor_spec n2 d2 n1 d1 t = c
   /\ ceil_spec n2 d2 n1 d1 t = c /\ round_spec n2 d2 n1 d1 t = c)
  /\ (cast_ok w1 n1 d1 w2 n2 d2 c = true -> cast_ok w2 n2 d2 w1 n1 d1 t = true ->
      duration_cast_m (Dur w1 n1 d1) (Dur w2 n2 d2) c = Val t
      /\ duration_cast_m (Dur w2 n2 d2) (Dur w1 n1 d1) t = Val c).
Proof.
  intros w1 n1 d1 w2 n2 d2 c Hw1 Hw2 Hp1 Hp2 Hm. cbv zeta.
  pose proof (proj1 (period_ok_iff _ _) Hp1) as (Hn1 & Hd1 & _).
  pose proof (proj1 (period_ok_iff _ _) Hp2) as (Hn2 & Hd2 & _).
  pose proof (spec_roundtrip n1 d1 n2 d2 ltac:(lia) ltac:(lia) ltac:(lia) ltac:(lia) c Hm) as R.
  cbv zeta in R. split; [exact R|]. intros H1 H2. split.
  - apply duration_cast_spec; assumption.
  - rewrite duration_cast_spec by assumption. f_equal. apply R.
Qed.

(* complete characterisation of duration_cast on the whole source range: undefined behaviour
   (signed overflow in intmax_t) exactly when count * numerator of the reduced factor does not fit,
   otherwise the truncated quotient converted (modulo 2^w2) to the target representation; never UB
   when the reduced factor is 1/k (e.g. milliseconds -> seconds, seconds -> hours) *)
Theorem C12_duration_cast_total : forall w1 n1 d1 w2 n2 d2 c,
  rep_ok w1 = true -> period_ok n1 d1 = true -> period_ok n2 d2 = true ->
  factor_num n1 d1 n2 d2 <= max64 -> factor_den n1 d1 n2 d2 <= max64 -> fits w1 c = true ->
  duration_cast_m (Dur w1 n1 d1) (Dur w2 n2 d2) c
  = (if fits 64 (c * factor_num n1 d1 n2 d2)
     then Val (wrap_rep w2 (cast_spec n1 d1 n2 d2 c)) else Ub SignedOverflow)
  /\ (factor_num n1 d1 n2 d2 = 1 ->
      duration_cast_m (Dur w1 n1 d1) (Dur w2 n2 d2) c = Val (wrap_rep w2 (cast_spec n1 d1 n2 d2 c))).
Proof.
  intros w1 n1 d1 w2 n2 d2 c Hw1 Hp1 Hp2 Ha Hb Hc. split.
  - apply duration_cast_total; assumption.
  - intros E. apply duration_cast_coarser_never_ub; assumption.
Qed.

(* the hypotheses plus_ok / minus_ok / div_ok of C12_plus, C12_minus, C12_div, C12_mod are tight:
   once both counts convert to the common type, the model has undefined behaviour exactly when the
   exact result does not fit the common representation or the divisor is zero *)
Theorem C12_arith_ub_exact : forall w1 n1 d1 w2 n2 d2,
  rep_ok w1 = true -> rep_ok w2 = true -> period_ok n1 d1 = true -> period_ok n2 d2 = true ->
  forall c1 c2, both_ok w1 n1 d1 w2 n2 d2 c1 c2 = true ->
  let a := Dur w1 n1 d1 in let b := Dur w2 n2 d2 in let wc := Z.max w1 w2 in
  plus_m a b c1 c2 = (if fits wc (plus_spec n1 d1 n2 d2 c1 c2)
                      then Val (plus_spec n1 d1 n2 d2 c1 c2) else Ub SignedOverflow)
  /\ minus_m a b c1 c2 = (if fits wc (minus_spec n1 d1 n2 d2 c1 c2)
                          then Val (minus_spec n1 d1 n2 d2 c1 c2) else Ub SignedOverflow)
  /\ (c2 = 0 -> div_m a b c1 c2 = Ub DivByZero /\ mod_m a b c1 c2 = Ub DivByZero)
  /\ (c2 <> 0 -> fits wc (div_spec n1 d1 n2 d2 c1 c2) = false ->
        div_m a b c1 c2 = Ub SignedOverflow /\ mod_m a b c1 c2 = Ub SignedOverflow).
Proof.
  intros w1 n1 d1 w2 n2 d2 Hw1 Hw2 Hp1 Hp2 c1 c2 Hb. cbv zeta.
  split; [apply plus_m_tight; assumption|]. split; [apply minus_m_tight; assumption|].
  apply div_mod_m_tight; assumption.
Qed.

(** * the named duration types *)
Theorem C12_typedefs :
  forallb (fun p => let '((w, n, d), (bits, sn, sd)) := p in (n =? sn) && (d =? sd) && (bits <=? w))
          (combine typedefs_m typedefs_spec) = true
  /\ length typedefs_m = length typedefs_spec.
Proof. exact typedefs_ok. Qed.

(** * Print Assumptions.  One call costs ~0.6 s on this development and this file is re-checked on every
      run of ./check, so the 31 theorems above are audited in 6 groups: each group is the conjunction
      (the proof term [conj ...]) of its theorems, and "Closed under the global context" for the group
      means that every theorem in it is closed.  Every theorem of this file is a member of exactly one group. *)
Definition C12_group_ratio_layer :=
  (conj C12_gcd (conj C12_lcm (conj C12_ratio_normalises C12_ratio_signed))).
Print Assumptions C12_group_ratio_layer.

Definition C12_group_conversions :=
  (conj C12_duration_cast_trunc (conj C12_floor (conj C12_ceil (conj C12_round_half_even (conj C12_abs (conj C12_duration_cast_total C12_finer_roundtrip)))))).
Print Assumptions C12_group_conversions.

Definition C12_group_common_type :=
  (conj C12_common_type (conj C12_common_type_exact C12_converting_constructor)).
Print Assumptions C12_group_common_type.

Definition C12_group_arithmetic :=
  (conj C12_plus (conj C12_minus (conj C12_div (conj C12_mod (conj C12_compare (conj C12_arith_ub_exact (conj C12_scalar_ops (conj C12_time_point_arith C12_member_ops)))))))).
Print Assumptions C12_group_arithmetic.

Definition C12_group_spec_laws :=
  (conj C12_spec_cast_is_truncation (conj C12_spec_floor_is_greatest_below (conj C12_spec_ceil_is_least_above (conj C12_spec_round_is_nearest_even (conj C12_spec_plus_minus_exact (conj C12_spec_div_mod C12_conversion_laws)))))).
Print Assumptions C12_group_spec_laws.

Definition C12_group_typedefs :=
  C12_typedefs.
Print Assumptions C12_group_typedefs.

(** * non-vacuity: the hypotheses are met by milliseconds -> seconds and by
      ratio<1001,30000> -> ratio<1,3> at +-2^31, with int64 and with int32 source counts *)
Example C12_nonvacuous :
  period_ok 1 1000 = true /\ period_ok 1 1 = true /\ period_ok 1001 30000 = true /\ period_ok 1 3 = true
  /\ round_ok 64 1 1000 64 1 1 2147483648 = true /\ round_ok 64 1 1000 64 1 1 (-2147483648) = true
  /\ ceil_ok 64 1 1000 64 1 1 (-2147483648) = true
  /\ round_ok 64 1001 30000 64 1 3 2147483648 = true /\ round_ok 64 1001 30000 64 1 3 (-2147483648) = true
  /\ ceil_ok 64 1001 30000 64 1 3 2147483648 = true
  /\ round_ok 32 1001 30000 64 1 3 (-2147483648) = true
  /\ plus_ok 64 1001 30000 64 1 3 2147483648 (-2147483648) = true
  /\ div_ok 64 1 1000 32 1 1 (-2147483648) 2147483647 = true
  /\ abs_ok 64 (-2147483648) = true
  /\ round_m (Dur 64 1 1000) (Dur 64 1 1) (-2500) = Val (-2)
  /\ round_m (Dur 64 1 1000) (Dur 64 1 1) (-3500) = Val (-4)
  /\ floor_m (Dur 64 1001 30000) (Dur 64 1 3) (-2147483648) = Val (-214963114)
  /\ round_m (Dur 64 1001 30000) (Dur 64 1 3) 2147483648 = Val 214963113.
Proof. vm_compute. repeat split; reflexivity. Qed.
