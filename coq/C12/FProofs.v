(* C12 proofs, floating-point target representation: when the source count, the reduced
   conversion factor and their product are below 2^53, duration_cast to duration<double, P2> and
   the converting constructor return the exact rational c*n1*d2/(d1*n2) rounded ONCE to nearest
   even (so the exact value whenever it is representable, in particular whenever it is an
   integer); the result is always finite.  Uses the real-number axioms of the Coq standard
   library through Flocq (see Properties_float.v). *)
From Coq Require Import ZArith Reals Bool Lia Lra ZifyBool.
From Flocq Require Import Core BinarySingleNaN.
From Tetl Require Import Lib.Base C12.Model C12.Spec C12.ProofsArith C12.ProofsCast C12.FModel.
Local Open Scope Z_scope.

Notation fexp64 := (SpecFloat.fexp 53 1024).
Notation rnd64 := (round radix2 fexp64 (round_mode mode_NE)).

Lemma two53_eq : two53 = 2 ^ 53.
Proof. reflexivity. Qed.

(** * integers below 2^53 are binary64 numbers *)
Lemma format_IZR n : Z.abs n <= two53 -> generic_format radix2 fexp64 (IZR n).
Proof.
  intros Hn. apply generic_format_FLT.
  destruct (Z.eq_dec (Z.abs n) two53) as [E|E].
  - (* +-2^53 = +-1 * 2^53 *)
    apply FLT_spec with (f := Float radix2 (Z.sgn n) 53).
    + unfold F2R. cbn [Fnum Fexp]. change (bpow radix2 53) with (IZR (2 ^ 53)). rewrite <- mult_IZR.
      f_equal. rewrite <- two53_eq, <- E. rewrite Z.mul_comm. symmetry. apply Z.abs_sgn.
    + cbn [Fnum]. destruct n; cbn; lia.
    + cbn [Fexp]. unfold SpecFloat.emin. lia.
  - apply FLT_spec with (f := Float radix2 n 0).
    + unfold F2R. cbn [Fnum Fexp bpow]. now rewrite Rmult_1_r.
    + cbn [Fnum]. change (Z.abs n < two53). lia.
    + cbn [Fexp]. unfold SpecFloat.emin. lia.
Qed.

Lemma rnd_IZR n : Z.abs n <= two53 -> rnd64 (IZR n) = IZR n.
Proof. intros H. apply round_generic; [apply valid_rnd_round_mode|apply format_IZR; exact H]. Qed.

Lemma IZR_two53_lt_emax : (IZR two53 < bpow radix2 1024)%R.
Proof. change (IZR two53) with (bpow radix2 53). apply bpow_lt. lia. Qed.

Lemma small_lt_emax r : (Rabs r <= IZR two53)%R -> (Rabs r < bpow radix2 1024)%R.
Proof. intros H. eapply Rle_lt_trans; [exact H|exact IZR_two53_lt_emax]. Qed.

Lemma Rabs_IZR_le n : Z.abs n <= two53 -> (Rabs (IZR n) <= IZR two53)%R.
Proof. intros H. rewrite <- abs_IZR. apply IZR_le. exact H. Qed.

(* rounding keeps a value of magnitude <= 2^53 within 2^53 *)
Lemma rnd_small r : (Rabs r <= IZR two53)%R -> (Rabs (rnd64 r) <= IZR two53)%R.
Proof.
  intros H. apply abs_round_le_generic; [apply FLT_exp_valid; reflexivity|apply valid_rnd_round_mode| |exact H].
  apply (format_IZR two53). unfold two53. lia.
Qed.

(** * static_cast<double>(n), multiplication and division on such values *)
Lemma d_of_Z_correct n : Z.abs n <= two53 -> B2R (d_of_Z n) = IZR n /\ is_finite (d_of_Z n) = true.
Proof.
  intros Hn. unfold d_of_Z.
  generalize (binary_normalize_correct 53 1024 p64 pe64 mode_NE n 0 false). cbn zeta.
  assert (HF : F2R (Float radix2 n 0) = IZR n).
  { unfold F2R. cbn [Fnum Fexp bpow]. now rewrite Rmult_1_r. }
  rewrite HF. rewrite rnd_IZR by exact Hn.
  rewrite Rlt_bool_true by (apply small_lt_emax, Rabs_IZR_le; exact Hn).
  intros (H1 & H2 & _). split; assumption.
Qed.

Lemma dmul_exact a b : Z.abs a <= two53 -> Z.abs b <= two53 -> Z.abs (a * b) <= two53 ->
  B2R (dmul (d_of_Z a) (d_of_Z b)) = IZR (a * b) /\ is_finite (dmul (d_of_Z a) (d_of_Z b)) = true.
Proof.
  intros Ha Hb Hab. destruct (d_of_Z_correct a Ha) as [Ra Fa]. destruct (d_of_Z_correct b Hb) as [Rb Fb].
  unfold dmul. generalize (Bmult_correct 53 1024 p64 pe64 mode_NE (d_of_Z a) (d_of_Z b)).
  rewrite Ra, Rb, <- mult_IZR. rewrite rnd_IZR by exact Hab.
  rewrite Rlt_bool_true by (apply small_lt_emax, Rabs_IZR_le; exact Hab).
  rewrite Fa, Fb. intros (H1 & H2 & _). split; assumption.
Qed.

Lemma Rdiv_small x b : (Rabs x <= IZR two53)%R -> 0 < b -> (Rabs (x / IZR b) <= IZR two53)%R.
Proof.
  intros Hx Hb. assert (H1 : (1 <= IZR b)%R) by (apply IZR_le; lia).
  unfold Rdiv. rewrite Rabs_mult. rewrite (Rabs_pos_eq (/ IZR b)) by (left; apply Rinv_0_lt_compat; lra).
  apply Rle_trans with (Rabs x * 1)%R; [|lra].
  apply Rmult_le_compat_l; [apply Rabs_pos|].
  rewrite <- Rinv_1. apply Rinv_le_contravar; lra.
Qed.

Lemma ddiv_rounded x b : is_finite x = true -> (Rabs (B2R x) <= IZR two53)%R -> 0 < b <= two53 ->
  B2R (ddiv x (d_of_Z b)) = rnd64 (B2R x / IZR b) /\ is_finite (ddiv x (d_of_Z b)) = true.
Proof.
  intros Fx Hx Hb. destruct (d_of_Z_correct b ltac:(lia)) as [Rb Fb].
  unfold ddiv. generalize (Bdiv_correct 53 1024 p64 pe64 mode_NE x (d_of_Z b)).
  rewrite Rb. intros H.
  assert (Hnz : IZR b <> 0%R) by (apply not_0_IZR; lia). specialize (H Hnz).
  rewrite Rlt_bool_true in H by (apply small_lt_emax, rnd_small, Rdiv_small; [exact Hx|lia]).
  destruct H as (H1 & H2 & _). split; [exact H1|rewrite H2; exact Fx].
Qed.

(** * duration_cast / converting constructor to duration<double, P2> *)
Definition fbounds (n1 d1 n2 d2 c : Z) : Prop :=
  Z.abs c <= two53 /\ factor_num n1 d1 n2 d2 <= two53 /\ factor_den n1 d1 n2 d2 <= two53
  /\ Z.abs (c * factor_num n1 d1 n2 d2) <= two53.

(* the reduced factor is the same rational as n1*d2 / (d1*n2) *)
Lemma factor_ratio n1 d1 n2 d2 c : 0 < n1 * d2 -> 0 < d1 * n2 ->
  (IZR (c * factor_num n1 d1 n2 d2) / IZR (factor_den n1 d1 n2 d2) = IZR (c * n1 * d2) / IZR (d1 * n2))%R.
Proof.
  intros Ha Hb. destruct (factor_facts _ _ _ _ Ha Hb) as (Hg & Ea & Eb & Hcn & Hcd).
  set (cn := factor_num n1 d1 n2 d2) in *. set (cd := factor_den n1 d1 n2 d2) in *.
  set (g := Z.gcd (n1 * d2) (d1 * n2)) in *.
  replace (c * n1 * d2) with (c * cn * g) by (rewrite <- (Z.mul_assoc c cn g), <- Ea; ring).
  rewrite Eb. rewrite !mult_IZR.
  assert (IZR g <> 0%R) by (apply not_0_IZR; lia).
  assert (IZR cd <> 0%R) by (apply not_0_IZR; lia).
  field. split; assumption.
Qed.

Lemma period_quotient_representable_m_spec w1 n1 d1 w2 n2 d2 :
  period_ok n1 d1 = true -> period_ok n2 d2 = true ->
  period_quotient_representable_m (Dur w1 n1 d1) (Dur w2 n2 d2)
  = Val ((factor_num n1 d1 n2 d2 <=? max64) && (factor_den n1 d1 n2 d2 <=? max64)).
Proof.
  unfold period_ok, lim64, factor_num, factor_den. intros H1 H2.
  assert (Hn1 : 0 < n1 <= max64) by (unfold max64; lia). assert (Hd1 : 0 < d1 <= max64) by (unfold max64; lia).
  assert (Hn2 : 0 < n2 <= max64) by (unfold max64; lia). assert (Hd2 : 0 < d2 <= max64) by (unfold max64; lia).
  destruct (cross_cancel n1 d1 n2 d2) as (Hg1 & Hg2 & P1 & P4 & P3 & P2 & EA & EB & Hab & EG); try lia.
  rewrite EG.
  assert (Hk : 0 < Z.gcd n1 n2 * Z.gcd d2 d1) by (apply Z.mul_pos_pos; assumption).
  rewrite EA at 1. rewrite EB at 1. rewrite !Z.div_mul by lia.
  unfold period_quotient_representable_m. cbn [pn pd].
  rewrite !gcd_m_spec by lia. cbn [bind].
  rewrite (Z.gcd_comm d1 d2).
  set (g1 := Z.gcd n1 n2) in *. set (g2 := Z.gcd d2 d1) in *.
  destruct ((g1 =? 0) || (g2 =? 0)) eqn:Eg; [lia|].
  rewrite !Z.quot_div_nonneg by (unfold max64; lia).
  set (q1 := n1 / g1) in *. set (q2 := d2 / g2) in *. set (e1 := d1 / g2) in *. set (e2 := n2 / g1) in *.
  destruct ((q2 =? 0) || (e2 =? 0)) eqn:Ez; [lia|].
  f_equal. apply Bool.eq_iff_eq_true.
  rewrite !Bool.andb_true_iff, !Z.leb_le.
  rewrite (le_div_iff q1 max64 q2) by lia. rewrite (le_div_iff e1 max64 e2) by lia. reflexivity.
Qed.

Section FCast.
  Variables w1 n1 d1 w2 n2 d2 c : Z.
  Hypothesis Hp1 : period_ok n1 d1 = true.
  Hypothesis Hp2 : period_ok n2 d2 = true.
  Hypothesis Hb : fbounds n1 d1 n2 d2 c.
  Let exact : R := (IZR (c * n1 * d2) / IZR (d1 * n2))%R.

  Lemma fpos : 0 < n1 * d2 /\ 0 < d1 * n2.
  Proof.
    pose proof (proj1 (period_ok_iff _ _) Hp1) as (Hn1 & Hd1 & _).
    pose proof (proj1 (period_ok_iff _ _) Hp2) as (Hn2 & Hd2 & _).
    split; apply Z.mul_pos_pos; lia.
  Qed.

  Lemma fcast_m_spec : exists r,
    fcast_m (Dur w1 n1 d1) (Dur w2 n2 d2) c = Val r /\ is_finite r = true /\ B2R r = rnd64 exact.
  Proof.
    destruct fpos as [Ha0 Hb0]. destruct Hb as (Hc & Hcn & Hcd & Hprod).
    destruct (factor_facts _ _ _ _ Ha0 Hb0) as (Hg & Ea & Eb & Pcn & Pcd).
    pose proof (factor_ratio n1 d1 n2 d2 c Ha0 Hb0) as ER. fold exact in ER.
    unfold fcast_m. cbn [rw pn pd]. cbv zeta.
    rewrite ratio_divide_m_spec by (try assumption; unfold two53, max64 in *; lia).
    cbn [bind fst snd].
    set (cn := factor_num n1 d1 n2 d2) in *. set (cd := factor_den n1 d1 n2 d2) in *.
    destruct (d_of_Z_correct c Hc) as [Rc Fc].
    destruct (cn =? 1) eqn:Ecn.
    - apply Z.eqb_eq in Ecn. rewrite Ecn, Z.mul_1_r in *.
      destruct (cd =? 1) eqn:Ecd.
      + apply Z.eqb_eq in Ecd. rewrite Ecd in ER. unfold Rdiv in ER at 1; rewrite Rinv_1, Rmult_1_r in ER.
        eexists. split; [reflexivity|]. split; [exact Fc|]. rewrite <- ER, Rc. symmetry. apply rnd_IZR. exact Hc.
      + destruct (ddiv_rounded (d_of_Z c) cd Fc) as [R1 F1].
        * rewrite Rc. apply Rabs_IZR_le. exact Hc.
        * lia.
        * eexists. split; [reflexivity|]. split; [exact F1|]. rewrite R1, Rc, ER. reflexivity.
    - destruct (dmul_exact c cn Hc ltac:(lia) Hprod) as [Rm Fm].
      destruct (cd =? 1) eqn:Ecd.
      + apply Z.eqb_eq in Ecd. rewrite Ecd in ER. unfold Rdiv in ER at 1; rewrite Rinv_1, Rmult_1_r in ER.
        eexists. split; [reflexivity|]. split; [exact Fm|]. rewrite <- ER, Rm. symmetry. apply rnd_IZR. exact Hprod.
      + destruct (ddiv_rounded (dmul (d_of_Z c) (d_of_Z cn)) cd Fm) as [R1 F1].
        * rewrite Rm. apply Rabs_IZR_le. exact Hprod.
        * lia.
        * eexists. split; [reflexivity|]. split; [exact F1|]. rewrite R1, Rm, ER. reflexivity.
  Qed.

  Lemma fconv_m_spec : exists r,
    fconv_m (Dur w1 n1 d1) (Dur w2 n2 d2) c = Val r /\ is_finite r = true /\ B2R r = rnd64 exact.
  Proof.
    destruct fpos as [Ha0 Hb0]. destruct Hb as (Hc & Hcn & Hcd & Hprod).
    destruct (factor_facts _ _ _ _ Ha0 Hb0) as (Hg & Ea & Eb & Pcn & Pcd).
    pose proof (factor_ratio n1 d1 n2 d2 c Ha0 Hb0) as ER. fold exact in ER.
    unfold fconv_m. cbv zeta.
    rewrite period_quotient_representable_m_spec by assumption.
    cbn [bind pn pd].
    replace (factor_num n1 d1 n2 d2 <=? max64) with true by (symmetry; apply Z.leb_le; unfold two53, max64 in *; lia).
    replace (factor_den n1 d1 n2 d2 <=? max64) with true by (symmetry; apply Z.leb_le; unfold two53, max64 in *; lia).
    cbn [andb negb].
    rewrite ratio_divide_m_spec by (try assumption; unfold two53, max64 in *; lia).
    cbn [bind fst snd].
    set (cn := factor_num n1 d1 n2 d2) in *. set (cd := factor_den n1 d1 n2 d2) in *.
    destruct (dmul_exact c cn Hc ltac:(lia) Hprod) as [Rm Fm].
    destruct (ddiv_rounded (dmul (d_of_Z c) (d_of_Z cn)) cd Fm) as [R1 F1].
    - rewrite Rm. apply Rabs_IZR_le. exact Hprod.
    - lia.
    - eexists. split; [reflexivity|]. split; [exact F1|]. rewrite R1, Rm, ER. reflexivity.
  Qed.
End FCast.

(* the computable specification is the once-rounded exact rational *)
Lemma fcast_spec_correct n1 d1 n2 d2 c : 0 < d1 * n2 -> fspec_ok n1 d1 n2 d2 c = true ->
  B2R (fcast_spec n1 d1 n2 d2 c) = rnd64 (IZR (c * n1 * d2) / IZR (d1 * n2))
  /\ is_finite (fcast_spec n1 d1 n2 d2 c) = true.
Proof.
  intros HB Hok. unfold fspec_ok in Hok. apply andb_true_iff in Hok. destruct Hok as [H1 H2].
  apply Z.ltb_lt in H1, H2.
  destruct (d_of_Z_correct (c * n1 * d2) ltac:(lia)) as [Rx Fx].
  unfold fcast_spec. destruct (ddiv_rounded (d_of_Z (c * n1 * d2)) (d1 * n2) Fx) as [R1 F1].
  - rewrite Rx. apply Rabs_IZR_le. lia.
  - lia.
  - rewrite R1, Rx. split; [reflexivity|exact F1].
Qed.

(* when the exact quotient is a whole number (below 2^53) the result is that number exactly *)
Lemma rnd_exact_integer X B : 0 < B -> X mod B = 0 -> Z.abs (X / B) <= two53 ->
  rnd64 (IZR X / IZR B) = IZR (X / B).
Proof.
  intros HB Hm Hq. pose proof (Z.div_mod X B ltac:(lia)) as E. rewrite Hm, Z.add_0_r in E.
  assert (IZR B <> 0%R) by (apply not_0_IZR; lia).
  replace (IZR X / IZR B)%R with (IZR (X / B)).
  - apply rnd_IZR. exact Hq.
  - rewrite E at 2. rewrite mult_IZR. field. assumption.
Qed.
