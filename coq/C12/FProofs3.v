(* C12 proofs, floating-point source representation holding whole numbers: conversion to the
   common type is exact, so + - == < and floor / ceil on such durations are the exact results. *)
From Coq Require Import ZArith Reals Bool Lia Lra ZifyBool Znumtheory.
From Flocq Require Import Core BinarySingleNaN.
From Tetl Require Import Lib.Base C12.Model C12.Spec C12.ProofsArith C12.ProofsCast C12.ProofsCommon
  C12.ProofsRound C12.FModel C12.FProofs C12.FProofs2.
Local Open Scope Z_scope.

(** * booleans of comparisons on exactly represented integers *)
Lemma Rlt_bool_IZR a b : Rlt_bool (IZR a) (IZR b) = (a <? b).
Proof.
  destruct (Z.ltb_spec a b) as [H|H].
  - apply Rlt_bool_true. apply IZR_lt. exact H.
  - apply Rlt_bool_false. apply IZR_le. exact H.
Qed.

Lemma Req_bool_IZR a b : Req_bool (IZR a) (IZR b) = (a =? b).
Proof.
  destruct (Z.eqb_spec a b) as [H|H].
  - apply Req_bool_true. f_equal. exact H.
  - apply Req_bool_false. intros E. apply eq_IZR in E. contradiction.
Qed.

Lemma dlt_exact x y a b : is_finite x = true -> is_finite y = true -> B2R x = IZR a -> B2R y = IZR b ->
  dlt x y = (a <? b).
Proof. intros Fx Fy Rx Ry. unfold dlt. rewrite Bltb_correct by assumption. rewrite Rx, Ry. apply Rlt_bool_IZR. Qed.

Lemma deq_exact x y a b : is_finite x = true -> is_finite y = true -> B2R x = IZR a -> B2R y = IZR b ->
  deq x y = (a =? b).
Proof. intros Fx Fy Rx Ry. unfold deq. rewrite Beqb_correct by assumption. rewrite Rx, Ry. apply Req_bool_IZR. Qed.

Lemma dadd_exact x y a b : is_finite x = true -> is_finite y = true -> B2R x = IZR a -> B2R y = IZR b ->
  Z.abs (a + b) <= two53 -> B2R (dadd x y) = IZR (a + b) /\ is_finite (dadd x y) = true.
Proof.
  intros Fx Fy Rx Ry Hs. unfold dadd.
  generalize (Bplus_correct 53 1024 p64 pe64 mode_NE x y Fx Fy). rewrite Rx, Ry, <- plus_IZR.
  rewrite rnd_IZR by exact Hs. rewrite Rlt_bool_true by (apply small_lt_emax, Rabs_IZR_le; exact Hs).
  intros (H1 & H2 & _). split; assumption.
Qed.

Lemma dsub_exact x y a b : is_finite x = true -> is_finite y = true -> B2R x = IZR a -> B2R y = IZR b ->
  Z.abs (a - b) <= two53 -> B2R (dsub x y) = IZR (a - b) /\ is_finite (dsub x y) = true.
Proof.
  intros Fx Fy Rx Ry Hs. unfold dsub.
  generalize (Bminus_correct 53 1024 p64 pe64 mode_NE x y Fx Fy). rewrite Rx, Ry, <- minus_IZR.
  rewrite rnd_IZR by exact Hs. rewrite Rlt_bool_true by (apply small_lt_emax, Rabs_IZR_le; exact Hs).
  intros (H1 & H2 & _). split; assumption.
Qed.

(** * the converting constructors into the common type are exact on whole numbers *)
Section Conv.
  Variables wa n d wt g l c : Z.
  Hypothesis Hp : period_ok n d = true.
  Hypothesis Hpt : period_ok g l = true.
  Hypothesis Hgn : (g | n).
  Hypothesis Hdl : (d | l).
  Let tk := ticks n d g l.
  Hypothesis Htk : tk <= two53.
  Hypothesis Hc : Z.abs c <= two53.
  Hypothesis Hct : Z.abs (c * tk) <= two53.

  Lemma conv_factor : factor_num n d g l = tk /\ factor_den n d g l = 1 /\ 0 < tk /\ tk * (d * g) = n * l.
  Proof.
    pose proof (proj1 (period_ok_iff _ _) Hp) as (Hn & Hd & _).
    pose proof (proj1 (period_ok_iff _ _) Hpt) as (Hg & Hl & _).
    destruct (ticks_facts n d g l ltac:(lia) ltac:(lia) ltac:(lia) ltac:(lia) Hgn Hdl) as (Et & Htp & Hdiv).
    assert (Hdg : 0 < d * g) by (apply Z.mul_pos_pos; lia).
    assert (EG : Z.gcd (n * l) (d * g) = d * g).
    { rewrite Z.gcd_comm. apply Z.divide_gcd_iff; [lia|exact Hdiv]. }
    unfold factor_num, factor_den. rewrite EG. fold (ticks n d g l). fold tk.
    rewrite Z.div_same by lia. repeat split; try assumption; reflexivity.
  Qed.

  Lemma conv_bounds : fbounds n d g l c.
  Proof.
    destruct conv_factor as (E1 & E2 & Hpos & _). unfold fbounds. rewrite E1, E2. unfold two53 in *. lia.
  Qed.

  Lemma exact_quotient : (c * n * l) mod (d * g) = 0 /\ c * n * l / (d * g) = c * tk.
  Proof.
    destruct conv_factor as (_ & _ & _ & Et).
    pose proof (proj1 (period_ok_iff _ _) Hp) as (Hn & Hd & _).
    pose proof (proj1 (period_ok_iff _ _) Hpt) as (Hg & Hl & _).
    assert (Hdg : 0 < d * g) by (apply Z.mul_pos_pos; lia).
    replace (c * n * l) with (c * tk * (d * g)) by (rewrite <- Z.mul_assoc, Et; ring).
    split; [apply Z.mod_mul; lia|apply Z.div_mul; lia].
  Qed.

  (* from an int64 count *)
  Lemma dconv_i_exact : exists r,
    dconv_i (Dur wa n d) (Dur wt g l) c = Val r /\ is_finite r = true /\ B2R r = IZR (c * tk).
  Proof.
    destruct (fconv_m_spec wa n d wt g l c Hp Hpt conv_bounds) as (r & E & F & R).
    destruct exact_quotient as [Em Eq].
    pose proof (proj1 (period_ok_iff _ _) Hp) as (Hn & Hd & _).
    pose proof (proj1 (period_ok_iff _ _) Hpt) as (Hg & Hl & _).
    assert (Hdg : 0 < d * g) by (apply Z.mul_pos_pos; lia).
    rewrite rnd_exact_integer in R by (try assumption; rewrite Eq; exact Hct).
    rewrite Eq in R. exists r. repeat split; assumption.
  Qed.

  (* from a double count holding the whole number c *)
  Lemma dconv_d_exact : exists r,
    dconv_d (Dur wa n d) (Dur wt g l) (d_of_Z c) = Val r /\ is_finite r = true /\ B2R r = IZR (c * tk).
  Proof.
    destruct conv_factor as (E1 & E2 & Hpos & Et).
    destruct (d_of_Z_correct c Hc) as [Rc Fc].
    unfold dconv_d. cbv zeta. destruct (same_period (Dur wa n d) (Dur wt g l)) eqn:Es.
    - unfold same_period in Es. cbn [pn pd] in Es. apply andb_true_iff in Es. destruct Es as [En Ed].
      apply Z.eqb_eq in En, Ed. subst g l.
      pose proof (proj1 (period_ok_iff _ _) Hp) as (Hn & Hd & _).
      assert (E : tk = 1) by (unfold tk, ticks; replace (n * d) with (d * n) by ring; apply Z.div_same; nia).
      exists (d_of_Z c). rewrite E, Z.mul_1_r. repeat split; assumption.
    - rewrite period_quotient_representable_m_spec by assumption. rewrite E1, E2.
      replace (tk <=? max64) with true by (symmetry; apply Z.leb_le; unfold two53, max64 in *; lia).
      cbn [bind andb negb Z.leb Z.compare Pos.compare Pos.compare_cont].
      cbn [pn pd].
      rewrite ratio_divide_m_spec by (try assumption; rewrite ?E1, ?E2; unfold two53, max64 in *; lia).
      rewrite E1, E2. cbn [bind fst snd].
      destruct (dmul_exact c tk Hc ltac:(lia) Hct) as [Rm Fm].
      destruct (ddiv_rounded (dmul (d_of_Z c) (d_of_Z tk)) 1 Fm) as [R1 F1].
      + rewrite Rm. apply Rabs_IZR_le. exact Hct.
      + unfold two53. lia.
      + eexists. split; [reflexivity|]. split; [exact F1|]. rewrite R1, Rm.
        unfold Rdiv. rewrite Rinv_1, Rmult_1_r. apply rnd_IZR. exact Hct.
  Qed.
End Conv.

(** * two durations with double counts holding the whole numbers c1, c2 *)
Definition fboth_ok (n1 d1 n2 d2 c1 c2 : Z) : Prop :=
  cden d1 d2 <= max64 /\ tk1 n1 d1 n2 d2 <= two53 /\ tk2 n1 d1 n2 d2 <= two53
  /\ Z.abs c1 <= two53 /\ Z.abs c2 <= two53
  /\ Z.abs (c1 * tk1 n1 d1 n2 d2) <= two53 /\ Z.abs (c2 * tk2 n1 d1 n2 d2) <= two53.

Section Two.
  Variables w1 n1 d1 w2 n2 d2 c1 c2 : Z.
  Hypothesis Hp1 : period_ok n1 d1 = true.
  Hypothesis Hp2 : period_ok n2 d2 = true.
  Hypothesis Hb : fboth_ok n1 d1 n2 d2 c1 c2.
  Let a := Dur w1 n1 d1.
  Let b := Dur w2 n2 d2.

  Lemma dd_common_exact : exists u v,
    dd_common_m a b (d_of_Z c1) (d_of_Z c2) = Val (u, v)
    /\ is_finite u = true /\ is_finite v = true
    /\ B2R u = IZR (c1 * tk1 n1 d1 n2 d2) /\ B2R v = IZR (c2 * tk2 n1 d1 n2 d2).
  Proof.
    destruct Hb as (Hl & Ht1 & Ht2 & Hc1 & Hc2 & Hx & Hy).
    pose proof (common_period_ok _ _ _ _ Hp1 Hp2 Hl) as Hpc.
    destruct (tk_facts n1 d1 n2 d2 Hp1 Hp2) as (Hg & Hl0 & D1 & D2 & D3 & D4 & _).
    unfold dd_common_m, dcommon, a, b. cbv zeta.
    rewrite common_m_spec by assumption. cbn [bind].
    destruct (dconv_d_exact w1 n1 d1 (Z.max w1 w2) (cnum n1 n2) (cden d1 d2) c1 Hp1 Hpc D1 D3 Ht1 Hc1 Hx)
      as (u & Eu & Fu & Ru).
    destruct (dconv_d_exact w2 n2 d2 (Z.max w1 w2) (cnum n1 n2) (cden d1 d2) c2 Hp2 Hpc D2 D4 Ht2 Hc2 Hy)
      as (v & Ev & Fv & Rv).
    rewrite Eu. cbn [bind]. rewrite Ev. cbn [bind].
    exists u, v. repeat split; assumption.
  Qed.

  Lemma dd_plus_exact : Z.abs (plus_spec n1 d1 n2 d2 c1 c2) <= two53 -> exists r,
    dd_plus_m a b (d_of_Z c1) (d_of_Z c2) = Val r /\ is_finite r = true
    /\ B2R r = IZR (plus_spec n1 d1 n2 d2 c1 c2).
  Proof.
    intros Hs. destruct dd_common_exact as (u & v & E & Fu & Fv & Ru & Rv).
    unfold dd_plus_m. cbv zeta. fold a b. rewrite E. cbn [bind].
    unfold plus_spec in *. cbv zeta in *. rewrite in_common_l, in_common_r in *.
    destruct (dadd_exact u v _ _ Fu Fv Ru Rv Hs) as [R F].
    eexists. split; [reflexivity|]. split; assumption.
  Qed.

  Lemma dd_minus_exact : Z.abs (minus_spec n1 d1 n2 d2 c1 c2) <= two53 -> exists r,
    dd_minus_m a b (d_of_Z c1) (d_of_Z c2) = Val r /\ is_finite r = true
    /\ B2R r = IZR (minus_spec n1 d1 n2 d2 c1 c2).
  Proof.
    intros Hs. destruct dd_common_exact as (u & v & E & Fu & Fv & Ru & Rv).
    unfold dd_minus_m. cbv zeta. fold a b. rewrite E. cbn [bind].
    unfold minus_spec in *. cbv zeta in *. rewrite in_common_l, in_common_r in *.
    destruct (dsub_exact u v _ _ Fu Fv Ru Rv Hs) as [R F].
    eexists. split; [reflexivity|]. split; assumption.
  Qed.

  Lemma dd_cmp_exact :
    dd_lt_m a b (d_of_Z c1) (d_of_Z c2) = Val (lt_spec n1 d1 n2 d2 c1 c2)
    /\ dd_eq_m a b (d_of_Z c1) (d_of_Z c2) = Val (eq_spec n1 d1 n2 d2 c1 c2).
  Proof.
    destruct dd_common_exact as (u & v & E & Fu & Fv & Ru & Rv).
    destruct (scaled_values n1 d1 n2 d2 c1 c2 Hp1 Hp2) as (K & l & HK & Hl & Ex & Ey).
    unfold dd_lt_m, dd_eq_m. cbv zeta. fold a b. rewrite E. cbn [bind]. split; f_equal.
    - rewrite (dlt_exact u v _ _ Fu Fv Ru Rv). unfold lt_spec. exact (scaled_lt _ _ _ _ K l HK Hl Ex Ey).
    - rewrite (deq_exact u v _ _ Fu Fv Ru Rv). unfold eq_spec. exact (scaled_eq _ _ _ _ K l HK Hl Ex Ey).
  Qed.
End Two.

(** * floor / ceil of a double count holding the whole number c, to an int64 duration *)
Section FloorCeil.
  Variables w1 n1 d1 w2 n2 d2 c : Z.
  Hypothesis Hp1 : period_ok n1 d1 = true.
  Hypothesis Hp2 : period_ok n2 d2 = true.
  Hypothesis Hfb : fbounds n1 d1 n2 d2 c.
  Hypothesis Hs : Z.abs (c * factor_num n1 d1 n2 d2) < two53.
  Hypothesis Hfit : fits 64 (cast_spec n1 d1 n2 d2 c) = true.
  Let t0 := cast_spec n1 d1 n2 d2 c.
  Hypothesis Hcmp : fboth_ok n1 d1 n2 d2 c t0.
  Let a := Dur w1 n1 d1.
  Let b := Dur w2 n2 d2.

  (* the comparison d < t (resp. t < d) made in double on the common type is the exact one *)
  Lemma cmp_parts : exists xd td,
    dconv_d a (Dur (Z.max w2 w1) (cnum n2 n1) (cden d2 d1)) (d_of_Z c) = Val xd
    /\ dconv_i b (Dur (Z.max w2 w1) (cnum n2 n1) (cden d2 d1)) t0 = Val td
    /\ dlt xd td = lt_spec n1 d1 n2 d2 c t0 /\ dlt td xd = lt_spec n2 d2 n1 d1 t0 c.
  Proof.
    destruct Hcmp as (Hl & Ht1 & Ht2 & Hc1 & Hc2 & Hx & Hy).
    pose proof (common_period_ok _ _ _ _ Hp1 Hp2 Hl) as Hpc.
    destruct (tk_facts n1 d1 n2 d2 Hp1 Hp2) as (Hg & Hl0 & D1 & D2 & D3 & D4 & _).
    rewrite (cnum_comm n1 n2), (cden_comm d1 d2).
    destruct (dconv_d_exact w1 n1 d1 (Z.max w2 w1) (cnum n1 n2) (cden d1 d2) c Hp1 Hpc D1 D3 Ht1 Hc1 Hx)
      as (xd & Ex & Fx & Rx).
    destruct (dconv_i_exact w2 n2 d2 (Z.max w2 w1) (cnum n1 n2) (cden d1 d2) t0 Hp2 Hpc D2 D4 Ht2 Hc2 Hy)
      as (td & Et & Ft & Rt).
    exists xd, td. unfold a, b. split; [exact Ex|]. split; [exact Et|].
    destruct (scaled_values n1 d1 n2 d2 c t0 Hp1 Hp2) as (K & l & HK & Hl1 & Sx & Sy).
    fold (tk1 n1 d1 n2 d2) in Rx. fold (tk2 n1 d1 n2 d2) in Rt.
    split.
    - rewrite (dlt_exact xd td _ _ Fx Ft Rx Rt). unfold lt_spec. exact (scaled_lt _ _ _ _ K l HK Hl1 Sx Sy).
    - rewrite (dlt_exact td xd _ _ Ft Fx Rt Rx). unfold lt_spec. exact (scaled_lt _ _ _ _ K l HK Hl1 Sy Sx).
  Qed.

  Lemma Bpos' : 0 < d1 * n2.
  Proof.
    pose proof (proj1 (period_ok_iff _ _) Hp1) as (_ & Hd1 & _).
    pose proof (proj1 (period_ok_iff _ _) Hp2) as (Hn2 & _ & _).
    apply Z.mul_pos_pos; lia.
  Qed.

  Lemma di_floor_m_spec : fits 64 (floor_spec n1 d1 n2 d2 c) = true ->
    di_floor_m a b (d_of_Z c) = Val (floor_spec n1 d1 n2 d2 c).
  Proof.
    intros Hf. destruct Hcmp as (Hl & _).
    destruct cmp_parts as (xd & td & Ex & Et & Elt & _).
    unfold di_floor_m, dcommon, a, b. cbv zeta.
    rewrite di_cast_m_spec by assumption. cbn [bind].
    rewrite (common_m_spec w2 n2 d2 w1 n1 d1) by (try assumption; rewrite cden_comm; exact Hl).
    cbn [bind]. fold a b t0. rewrite Ex. cbn [bind]. rewrite Et. cbn [bind]. rewrite Elt.
    pose proof Bpos' as HB.
    assert (E : (if lt_spec n1 d1 n2 d2 c t0 then t0 - 1 else t0) = floor_spec n1 d1 n2 d2 c).
    { unfold lt_spec, t0, cast_spec, floor_spec.
      replace (Z.quot (c * n1 * d2) (d1 * n2) * n2 * d1) with (Z.quot (c * n1 * d2) (d1 * n2) * (d1 * n2)) by ring.
      apply floor_from_trunc. exact HB. }
    destruct (lt_spec n1 d1 n2 d2 c t0).
    - rewrite E. apply ck64_ok. rewrite <- fits64_in64. exact Hf.
    - rewrite E. reflexivity.
  Qed.

  Lemma di_ceil_m_spec : fits 64 (ceil_spec n1 d1 n2 d2 c) = true ->
    di_ceil_m a b (d_of_Z c) = Val (ceil_spec n1 d1 n2 d2 c).
  Proof.
    intros Hf. destruct Hcmp as (Hl & _).
    destruct cmp_parts as (xd & td & Ex & Et & _ & Elt).
    unfold di_ceil_m, dcommon, a, b. cbv zeta.
    rewrite di_cast_m_spec by assumption. cbn [bind].
    rewrite (common_m_spec w2 n2 d2 w1 n1 d1) by (try assumption; rewrite cden_comm; exact Hl).
    cbn [bind]. fold a b t0. rewrite Ex. cbn [bind]. rewrite Et. cbn [bind]. rewrite Elt.
    pose proof Bpos' as HB.
    assert (E : (if lt_spec n2 d2 n1 d1 t0 c then t0 + 1 else t0) = ceil_spec n1 d1 n2 d2 c).
    { unfold lt_spec, t0, cast_spec, ceil_spec.
      replace (Z.quot (c * n1 * d2) (d1 * n2) * n2 * d1) with (Z.quot (c * n1 * d2) (d1 * n2) * (d1 * n2)) by ring.
      apply ceil_from_trunc. exact HB. }
    destruct (lt_spec n2 d2 n1 d1 t0 c).
    - rewrite E. apply ck64_ok. rewrite <- fits64_in64. exact Hf.
    - rewrite E. reflexivity.
  Qed.
End FloorCeil.

(** * round (ties to even) of a double count holding the whole number c, to an int64 duration *)
Section Round.
  Variables w1 n1 d1 w2 n2 d2 c : Z.
  Hypothesis Hp1 : period_ok n1 d1 = true.
  Hypothesis Hp2 : period_ok n2 d2 = true.
  Hypothesis Hfb : fbounds n1 d1 n2 d2 c.
  Hypothesis Hs : Z.abs (c * factor_num n1 d1 n2 d2) < two53.
  Hypothesis Hfit : fits 64 (cast_spec n1 d1 n2 d2 c) = true.
  Hypothesis Hcmp : fboth_ok n1 d1 n2 d2 c (cast_spec n1 d1 n2 d2 c).
  Let q := floor_spec n1 d1 n2 d2 c.
  Hypothesis Hq : fits 64 q = true.
  Hypothesis Hq1 : fits 64 (q + 1) = true.
  Hypothesis Hlo : fboth_ok n1 d1 n2 d2 c q.
  Hypothesis Hhi : fboth_ok n1 d1 n2 d2 c (q + 1).
  Hypothesis Hdl : Z.abs (minus_spec n1 d1 n2 d2 c q) <= two53.
  Hypothesis Hdh : Z.abs (minus_spec n2 d2 n1 d1 (q + 1) c) <= two53.
  Let a := Dur w1 n1 d1.
  Let b := Dur w2 n2 d2.

  Lemma di_round_m_spec : di_round_m a b (d_of_Z c) = Val (round_spec n1 d1 n2 d2 c).
  Proof.
    unfold di_round_m, dcommon, a, b. cbv zeta.
    rewrite di_floor_m_spec by assumption. cbn [bind]. fold q.
    rewrite ck64_ok by (rewrite <- fits64_in64; exact Hq1). cbn [bind].
    destruct Hlo as (Hl & Ht1 & Ht2 & Hc1 & Hc2 & Hx & Hy).
    destruct Hhi as (_ & _ & _ & _ & Hc2' & _ & Hy').
    pose proof (common_period_ok _ _ _ _ Hp1 Hp2 Hl) as Hpc.
    destruct (tk_facts n1 d1 n2 d2 Hp1 Hp2) as (Hg & Hl0 & D1 & D2 & D3 & D4 & _).
    rewrite common_m_spec by assumption. cbn [bind].
    destruct (dconv_d_exact w1 n1 d1 (Z.max w1 w2) (cnum n1 n2) (cden d1 d2) c Hp1 Hpc D1 D3 Ht1 Hc1 Hx)
      as (xd & Ex & Fx & Rx).
    destruct (dconv_i_exact w2 n2 d2 (Z.max w1 w2) (cnum n1 n2) (cden d1 d2) q Hp2 Hpc D2 D4 Ht2 Hc2 Hy)
      as (ld & El & Fl & Rl).
    destruct (dconv_i_exact w2 n2 d2 (Z.max w1 w2) (cnum n1 n2) (cden d1 d2) (q + 1) Hp2 Hpc D2 D4 Ht2 Hc2' Hy')
      as (hd & Eh & Fh & Rh).
    rewrite Ex. cbn [bind]. rewrite El. cbn [bind]. rewrite Eh. cbn [bind].
    fold (tk1 n1 d1 n2 d2) in Rx. fold (tk2 n1 d1 n2 d2) in Rl, Rh.
    (* the two differences, exact *)
    set (lo := minus_spec n1 d1 n2 d2 c q) in *. set (hi := minus_spec n2 d2 n1 d1 (q + 1) c) in *.
    assert (Elo : lo = c * tk1 n1 d1 n2 d2 - q * tk2 n1 d1 n2 d2).
    { unfold lo, minus_spec. cbv zeta. rewrite in_common_l, in_common_r. reflexivity. }
    assert (Ehi : hi = (q + 1) * tk2 n1 d1 n2 d2 - c * tk1 n1 d1 n2 d2).
    { unfold hi, minus_spec. cbv zeta. rewrite in_common_r, in_common_l. reflexivity. }
    destruct (dsub_exact xd ld _ _ Fx Fl Rx Rl ltac:(rewrite <- Elo; exact Hdl)) as [Rld Fld].
    destruct (dsub_exact hd xd _ _ Fh Fx Rh Rx ltac:(rewrite <- Ehi; exact Hdh)) as [Rhd Fhd].
    rewrite <- Elo in Rld. rewrite <- Ehi in Rhd.
    rewrite (dlt_exact _ _ lo hi Fld Fhd Rld Rhd). rewrite (dlt_exact _ _ hi lo Fhd Fld Rhd Rld).
    (* arithmetic: as for the integer representation *)
    destruct (scaled_values n1 d1 n2 d2 c 1 Hp1 Hp2) as (K & l & HK & Hl1 & Sx & Sy).
    assert (HB : 0 < d1 * n2) by (eapply Bpos'; eassumption).
    assert (Elo' : lo * K = (c * n1 * d2 - q * (d1 * n2)) * l).
    { rewrite Elo.
      replace ((c * tk1 n1 d1 n2 d2 - q * tk2 n1 d1 n2 d2) * K)
        with (c * tk1 n1 d1 n2 d2 * K - q * (1 * tk2 n1 d1 n2 d2 * K)) by ring.
      rewrite Sx, Sy. ring. }
    assert (Ehi' : hi * K = ((q + 1) * (d1 * n2) - c * n1 * d2) * l).
    { rewrite Ehi.
      replace (((q + 1) * tk2 n1 d1 n2 d2 - c * tk1 n1 d1 n2 d2) * K)
        with ((q + 1) * (1 * tk2 n1 d1 n2 d2 * K) - c * tk1 n1 d1 n2 d2 * K) by ring.
      rewrite Sx, Sy. ring. }
    pose proof (round_decide (c * n1 * d2) (d1 * n2) K l lo hi HB HK Hl1) as R.
    unfold q, floor_spec in Elo', Ehi'. specialize (R Elo' Ehi').
    unfold round_spec. cbv zeta. rewrite <- R. unfold q, floor_spec.
    destruct (lo <? hi); [reflexivity|]. destruct (hi <? lo); [reflexivity|].
    destruct (Z.odd (c * n1 * d2 / (d1 * n2))); reflexivity.
  Qed.
End Round.
