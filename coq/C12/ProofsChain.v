(* C12: the state-passing member operators of ModelChain.v meet SpecChain.v *)
From Tetl Require Import Lib.Base C12.Model C12.Spec C12.ProofsArith C12.ProofsScalar C12.ModelChain C12.SpecChain.
Local Open Scope Z_scope.
Ltac Zify.zify_post_hook ::= Z.to_euclidean_division_equations.

Lemma result_m_spec o c :
  result_m o c = if returns_this_spec o then ThisObject else Temporary c.
Proof. destruct o; reflexivity. Qed.

Lemma tp_result_m_spec o c :
  tp_result_m o c = if returns_this_spec o then ThisObject else Temporary c.
Proof. destruct o; reflexivity. Qed.

Lemma returns_lvalue_m_spec o : returns_lvalue_m o = returns_this_spec o.
Proof. destruct o; reflexivity. Qed.

Lemma tp_returns_lvalue_m_spec o : tp_returns_lvalue_m o = returns_this_spec o.
Proof. destruct o; reflexivity. Qed.

Lemma effect_m_spec w o c x : rep_ok w = true -> step_ok w o c x = true ->
  effect_m o w c x = Val (effect_spec o c x).
Proof.
  intros Hw H. unfold step_ok in H.
  apply Bool.andb_true_iff in H. destruct H as [H Hd].
  apply Bool.andb_true_iff in H. destruct H as [H He].
  apply Bool.andb_true_iff in H. destruct H as [Hc Hx].
  destruct (member_ops_spec w c x Hw Hc Hx) as (_ & _ & Ki & Kd & Ka & Ks & Km & Kq).
  destruct o; cbn [effect_m effect_spec divides] in *.
  - exact (proj1 (Ki He)).
  - exact (proj1 (Ki He)).
  - exact (proj1 (Kd He)).
  - exact (proj1 (Kd He)).
  - exact (proj1 (Ka He)).
  - exact (proj1 (Ks He)).
  - exact (Km He).
  - apply Bool.andb_true_iff in Hd. destruct Hd as [Hz Hq]. apply Bool.negb_true_iff, Z.eqb_neq in Hz.
    exact (proj1 (Kq Hz Hq)).
  - apply Bool.andb_true_iff in Hd. destruct Hd as [Hz Hq]. apply Bool.negb_true_iff, Z.eqb_neq in Hz.
    exact (proj2 (Kq Hz Hq)).
  - apply Bool.andb_true_iff in Hd. destruct Hd as [Hz Hq]. apply Bool.negb_true_iff, Z.eqb_neq in Hz.
    exact (proj2 (Kq Hz Hq)).
Qed.

Lemma call_m_spec w o c x : rep_ok w = true -> step_ok w o c x = true ->
  call_m o w c x = Val (effect_spec o c x, if returns_this_spec o then ThisObject else Temporary c).
Proof.
  intros Hw H. unfold call_m. rewrite (effect_m_spec w o c x Hw H). cbn [bind].
  rewrite result_m_spec. reflexivity.
Qed.

Lemma read_m_value o c x :
  read_m (effect_spec o c x) (if returns_this_spec o then ThisObject else Temporary c) = value_spec o c x.
Proof. unfold value_spec. destruct (returns_this_spec o); reflexivity. Qed.

Lemma chain_m_spec w o1 o2 c a b : rep_ok w = true -> chain_ok w o1 o2 c a b = true ->
  chain_m o1 o2 w c a b = Val (chain_spec o1 o2 c a b).
Proof.
  intros Hw H. unfold chain_ok in H. apply Bool.andb_true_iff in H. destruct H as [H1 H2].
  unfold chain_m, chain_spec. rewrite (call_m_spec w o1 c a Hw H1). cbn [bind].
  destruct (returns_this_spec o1).
  - rewrite (call_m_spec w o2 _ b Hw H2). cbn [bind]. rewrite read_m_value. reflexivity.
  - rewrite (call_m_spec w o2 _ b Hw H2). cbn [bind]. rewrite read_m_value. reflexivity.
Qed.

(* for an operator returning *this the chain IS the two single statements  obj @1 a; obj @2 b;
   on every input, undefined behaviour included *)
Lemma chain_m_two_steps w o1 o2 c a b : returns_this_spec o1 = true ->
  chain_m o1 o2 w c a b =
  (do c1 <- effect_m o1 w c a; do c2 <- effect_m o2 w c1 b; Val (c2, read_m c2 (result_m o2 c1))).
Proof.
  intros Hr. unfold chain_m, call_m. rewrite result_m_spec, Hr.
  destruct (effect_m o1 w c a) as [c1| | |]; cbn [bind]; try reflexivity.
  destruct (effect_m o2 w c1 b) as [c2| | |]; cbn [bind]; reflexivity.
Qed.

(* a postfix operator hands out a copy: whatever is done to the result, the object holds c +- 1 *)
Lemma chain_m_postfix w o1 o2 c a b : returns_this_spec o1 = false ->
  chain_m o1 o2 w c a b =
  (do c1 <- effect_m o1 w c a; do v2 <- effect_m o2 w c b; Val (c1, read_m v2 (result_m o2 c))).
Proof.
  intros Hr. unfold chain_m, call_m. rewrite result_m_spec, Hr.
  destruct (effect_m o1 w c a) as [c1| | |]; cbn [bind]; try reflexivity.
  destruct (effect_m o2 w c b) as [c2| | |]; cbn [bind]; reflexivity.
Qed.

(* time_point: the same functions on the operators it has *)
Lemma tp_chain_is_chain w o1 o2 c a b : tp_op_spec o1 = true -> tp_op_spec o2 = true ->
  tp_chain_m o1 o2 w c a b = chain_m o1 o2 w c a b.
Proof.
  intros H1 H2.
  destruct o1; try discriminate H1; destruct o2; try discriminate H2;
    unfold tp_chain_m, chain_m, tp_call_m, call_m, tp_effect_m;
    cbn [tp_has_op tp_result_m result_m effect_m];
    (destruct (inc_m w c) as [c1| | |] || destruct (dec_m w c) as [c1| | |]
     || destruct (add_assign_m w c a) as [c1| | |] || destruct (sub_assign_m w c a) as [c1| | |]);
    cbn [bind]; try reflexivity.
Qed.

Lemma tp_no_such_op w o c x : tp_op_spec o = false -> tp_call_m o w c x = IllFormed.
Proof. intros H. unfold tp_call_m, tp_effect_m. destruct o; try discriminate; reflexivity. Qed.
