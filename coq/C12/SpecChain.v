(* C12 specification, part "member operators return *this": [time.duration.arithmetic] and
   [time.point.arithmetic].

     duration& operator++();        Effects: ++rep_.          Returns: *this.
     duration  operator++(int);     Effects: Equivalent to: return duration(rep_++);
     duration& operator--();        Effects: --rep_.          Returns: *this.
     duration  operator--(int);     Effects: Equivalent to: return duration(rep_--);
     duration& operator+=(const duration& d);   Effects: rep_ += d.count().   Returns: *this.
     duration& operator-=(const duration& d);   Effects: rep_ -= d.count().   Returns: *this.
     duration& operator*=(const rep& rhs);      Effects: rep_ *= rhs.         Returns: *this.
     duration& operator/=(const rep& rhs);      Effects: rep_ /= rhs.         Returns: *this.
     duration& operator%=(const rep& rhs);      Effects: rep_ %= rhs.         Returns: *this.
     duration& operator%=(const duration& rhs); Effects: rep_ %= rhs.count(). Returns: *this.
     time_point& operator+=(const duration& d); Effects: d_ += d.  Returns: *this.   (-=, ++, -- alike)

   Mathematical integers; "Returns: *this" = the expression designates the object, so a further
   operator applied to the result acts on the object. *)
From Tetl Require Import Lib.Base C12.Spec C12.ModelChain.
Local Open Scope Z_scope.

(* the new tick count *)
Definition effect_spec (o : mop) (c x : Z) : Z :=
  match o with
  | MPreInc | MPostInc => c + 1
  | MPreDec | MPostDec => c - 1
  | MAdd => c + x
  | MSub => c - x
  | MMul => c * x
  | MDiv => Z.quot c x
  | MModR | MModD => Z.rem c x
  end.

(* "Returns: *this" with return type duration& / time_point& *)
Definition returns_this_spec (o : mop) : bool :=
  match o with MPostInc | MPostDec => false | _ => true end.

(* the count of the value of the expression  obj @ x  (the postfix operators yield the old value) *)
Definition value_spec (o : mop) (c x : Z) : Z :=
  if returns_this_spec o then effect_spec o c x else c.

(* (obj @1 a) @2 b : (count of obj afterwards, count of the value of the expression) *)
Definition chain_spec (o1 o2 : mop) (c a b : Z) : Z * Z :=
  let c1 := effect_spec o1 c a in
  if returns_this_spec o1 then (effect_spec o2 c1 b, value_spec o2 c1 b)
  else (c1, value_spec o2 c b).

(* documented domain of one call: operand, argument and result are representable, a divisor is
   not zero (and min / -1 is excluded: its quotient is not representable) *)
Definition divides (o : mop) : bool :=
  match o with MDiv | MModR | MModD => true | _ => false end.
Definition step_ok (w : Z) (o : mop) (c x : Z) : bool :=
  fits w c && fits w x && fits w (effect_spec o c x)
  && (if divides o then negb (x =? 0) && fits w (Z.quot c x) else true).
Definition chain_ok (w : Z) (o1 o2 : mop) (c a b : Z) : bool :=
  step_ok w o1 c a
  && step_ok w o2 (if returns_this_spec o1 then effect_spec o1 c a else c) b.

(* time_point has += -= ++ -- only *)
Definition tp_op_spec (o : mop) : bool :=
  match o with MMul | MDiv | MModR | MModD => false | _ => true end.
