(* C12 — what the mutating member operators of duration / time_point RETURN
   ([time.duration.arithmetic], [time.point.arithmetic]: "Returns: *this"), and hence what a
   chained use  (obj @1 a) @2 b  leaves in obj.  Model: coq/C12/ModelChain.v (state-passing: a
   call yields the new state of the object and a designator of its result); specification:
   coq/C12/SpecChain.v. *)
From Tetl Require Import Lib.Base C12.Model C12.Spec C12.ModelChain C12.SpecChain C12.ProofsChain.
Local Open Scope Z_scope.

(** every operator whose standard return type is duration& / time_point& designates the object it
    was called on, the two postfix operators a temporary holding the old count *)
Theorem C12_member_result_designates_object : forall o c,
  result_m o c = (if returns_this_spec o then ThisObject else Temporary c)
  /\ returns_lvalue_m o = returns_this_spec o
  /\ tp_result_m o c = (if returns_this_spec o then ThisObject else Temporary c)
  /\ tp_returns_lvalue_m o = returns_this_spec o
  /\ tp_has_op o = tp_op_spec o.
Proof.
  intros o c. refine (conj (result_m_spec o c) (conj (returns_lvalue_m_spec o)
    (conj (tp_result_m_spec o c) (conj (tp_returns_lvalue_m_spec o) _)))).
  destruct o; reflexivity.
Qed.

(** one call: new count of the object and result designator, for every representable operand /
    argument / result (divisor not zero) *)
Theorem C12_member_call : forall w o c x, rep_ok w = true -> step_ok w o c x = true ->
  call_m o w c x = Val (effect_spec o c x, if returns_this_spec o then ThisObject else Temporary c).
Proof. exact call_m_spec. Qed.

(** (obj @1 a) @2 b for all 10 x 10 operator pairs: count left in obj and count of the value of
    the expression *)
Theorem C12_chain : forall w o1 o2 c a b, rep_ok w = true -> chain_ok w o1 o2 c a b = true ->
  chain_m o1 o2 w c a b = Val (chain_spec o1 o2 c a b).
Proof. exact chain_m_spec. Qed.

(** for the eight operators returning *this the chain equals the two single statements
    obj @1 a; obj @2 b;  on EVERY input (no representability hypothesis: undefined behaviour of
    either step is the undefined behaviour of the chain) *)
Theorem C12_chain_is_two_single_steps : forall w o1 o2 c a b, returns_this_spec o1 = true ->
  chain_m o1 o2 w c a b =
  (do c1 <- effect_m o1 w c a; do c2 <- effect_m o2 w c1 b; Val (c2, read_m c2 (result_m o2 c1))).
Proof. exact chain_m_two_steps. Qed.

(** a postfix operator hands out a copy: the second operator works on the old count and the
    object keeps the single step *)
Theorem C12_chain_after_postfix : forall w o1 o2 c a b, returns_this_spec o1 = false ->
  chain_m o1 o2 w c a b =
  (do c1 <- effect_m o1 w c a; do v2 <- effect_m o2 w c b; Val (c1, read_m v2 (result_m o2 c))).
Proof. exact chain_m_postfix. Qed.

(** time_point: += -= ++ -- behave like the stored duration's, the other four do not exist *)
Theorem C12_time_point_chain : forall w o1 o2 c a b,
  (tp_op_spec o1 = true -> tp_op_spec o2 = true ->
     tp_chain_m o1 o2 w c a b = chain_m o1 o2 w c a b
     /\ (rep_ok w = true -> chain_ok w o1 o2 c a b = true ->
         tp_chain_m o1 o2 w c a b = Val (chain_spec o1 o2 c a b)))
  /\ (tp_op_spec o1 = false -> tp_call_m o1 w c a = IllFormed).
Proof.
  intros w o1 o2 c a b. split.
  - intros H1 H2. split; [exact (tp_chain_is_chain w o1 o2 c a b H1 H2)|].
    intros Hw Hok. rewrite (tp_chain_is_chain w o1 o2 c a b H1 H2). exact (chain_m_spec w o1 o2 c a b Hw Hok).
  - exact (tp_no_such_op w o1 c a).
Qed.

Definition C12_group_member_chains :=
  (conj C12_member_result_designates_object (conj C12_member_call (conj C12_chain
    (conj C12_chain_is_two_single_steps (conj C12_chain_after_postfix C12_time_point_chain))))).
Print Assumptions C12_group_member_chains.

(** non-vacuity: (d -= 250) -= 1000 on 2000 leaves 750 in d; (d -= -3) += 10 on -7 leaves 6;
    (d++) *= 5 on 7 leaves 8 in d and the expression is 35; the hypotheses hold there *)
Example C12_chain_nonvacuous :
  chain_ok 64 MSub MSub 2000 250 1000 = true /\ chain_m MSub MSub 64 2000 250 1000 = Val (750, 750)
  /\ chain_ok 32 MSub MAdd (-7) (-3) 10 = true /\ chain_m MSub MAdd 32 (-7) (-3) 10 = Val (6, 6)
  /\ chain_ok 32 MPostInc MMul 7 1 5 = true /\ chain_m MPostInc MMul 32 7 1 5 = Val (8, 35)
  /\ chain_ok 64 MDiv MModR (-100) 7 4 = true /\ chain_m MDiv MModR 64 (-100) 7 4 = Val (-2, -2)
  /\ tp_chain_m MAdd MPostDec 64 5 6 0 = Val (10, 11).
Proof. vm_compute. repeat split; reflexivity. Qed.
