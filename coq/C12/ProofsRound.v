(* C12 proofs, part 4: floor, ceil, round (ties to even), abs, the converting constructor and
   the derived comparison operators. *)
From Tetl Require Import Lib.Base C12.Model C12.Spec C12.ProofsArith C12.ProofsCast C12.ProofsCommon.
From Coq Require Import ZifyBool Znumtheory.
Local Open Scope Z_scope.
Ltac Zify.zify_post_hook ::= Z.to_euclidean_division_equations.

(** * pure arithmetic: floor / ceil / nearest-even from the truncated quotient *)
Lemma quot_rem_facts X B : 0 < B ->
  X = B * Z.quot X B + Z.rem X B /\ - B < Z.rem X B < B
  /\ (0 <= X -> 0 <= Z.rem X B) /\ (X <= 0 -> Z.rem X B <= 0).
Proof.
  intros HB. pose proof (Z.quot_rem' X B) as E.
  pose proof (Z.rem_bound_abs X B ltac:(lia)) as Hb.
  split; [exact E|]. split; [lia|]. split; intros HX.
  - apply Z.rem_nonneg; lia.
  - apply Z.rem_nonpos; lia.
Qed.

Lemma floor_from_trunc X B : 0 < B ->
  (if X <? Z.quot X B * B then Z.quot X B - 1 else Z.quot X B) = X / B.
Proof.
  intros HB. destruct (quot_rem_facts X B HB) as (E & Hr & Hp & Hn).
  set (t := Z.quot X B) in *. set (r := Z.rem X B) in *.
  destruct (X <? t * B) eqn:Elt.
  - apply Z.ltb_lt in Elt. apply (Z.div_unique X B (t - 1) (r + B)); [left|]; nia.
  - apply Z.ltb_ge in Elt. apply (Z.div_unique X B t r); [left|]; nia.
Qed.

Lemma ceil_from_trunc X B : 0 < B ->
  (if Z.quot X B * B <? X then Z.quot X B + 1 else Z.quot X B) = - ((- X) / B).
Proof.
  intros HB. destruct (quot_rem_facts X B HB) as (E & Hr & Hp & Hn).
  set (t := Z.quot X B) in *. set (r := Z.rem X B) in *.
  destruct (t * B <? X) eqn:Elt.
  - apply Z.ltb_lt in Elt.
    rewrite <- (Z.div_unique (- X) B (- (t + 1)) (B - r)); [lia|left; nia|nia].
  - apply Z.ltb_ge in Elt.
    rewrite <- (Z.div_unique (- X) B (- t) (- r)); [lia|left; nia|nia].
Qed.

Lemma round_decide X B K l lo hi :
  0 < B -> 0 < K -> 0 < l ->
  lo * K = (X - X / B * B) * l -> hi * K = ((X / B + 1) * B - X) * l ->
  (if lo <? hi then X / B else if hi <? lo then X / B + 1 else if Z.odd (X / B) then X / B + 1 else X / B)
  = (if 2 * (X mod B) <? B then X / B
     else if B <? 2 * (X mod B) then X / B + 1 else if Z.even (X / B) then X / B else X / B + 1).
Proof.
  intros HB HK Hl Elo Ehi.
  pose proof (Z.div_mod X B ltac:(lia)) as E. pose proof (Z.mod_pos_bound X B HB) as Hr.
  set (q := X / B) in *. set (r := X mod B) in *.
  assert (Elo' : lo * K = r * l) by (rewrite Elo; f_equal; lia).
  assert (Ehi' : hi * K = (B - r) * l) by (rewrite Ehi; f_equal; lia).
  assert (H1 : (lo <? hi) = (2 * r <? B)).
  { apply Bool.eq_iff_eq_true. rewrite !Z.ltb_lt. nia. }
  assert (H2 : (hi <? lo) = (B <? 2 * r)).
  { apply Bool.eq_iff_eq_true. rewrite !Z.ltb_lt. nia. }
  rewrite H1, H2. rewrite <- Z.negb_even. destruct (Z.even q); reflexivity.
Qed.

(** * symmetry of the representability predicate *)
Lemma tk_swap n1 d1 n2 d2 : tk1 n2 d2 n1 d1 = tk2 n1 d1 n2 d2 /\ tk2 n2 d2 n1 d1 = tk1 n1 d1 n2 d2.
Proof. unfold tk1, tk2. rewrite (cnum_comm n1 n2), (cden_comm d1 d2). split; reflexivity. Qed.

Lemma common_ok_sym n1 d1 n2 d2 : common_ok n2 d2 n1 d1 = common_ok n1 d1 n2 d2.
Proof.
  unfold common_ok. rewrite (cden_comm d1 d2), (cnum_comm n1 n2).
  rewrite <- !Bool.andb_assoc. f_equal. apply Bool.andb_comm.
Qed.

Lemma both_ok_sym w1 n1 d1 w2 n2 d2 c1 c2 :
  both_ok w2 n2 d2 w1 n1 d1 c2 c1 = both_ok w1 n1 d1 w2 n2 d2 c1 c2.
Proof.
  apply Bool.eq_iff_eq_true. rewrite !both_ok_iff.
  destruct (tk_swap n1 d1 n2 d2) as [E1 E2]. rewrite E1, E2, common_ok_sym, (Z.max_comm w2 w1). tauto.
Qed.

(** * operators on two durations of the same type *)
Lemma same_ty_refl t : same_ty t t = true.
Proof. apply same_ty_iff. reflexivity. Qed.

Lemma conv_m_same t c : conv_m t t c = Val c.
Proof. unfold conv_m. cbv zeta. rewrite same_ty_refl. reflexivity. Qed.

Lemma to_common_m_self w n d x y : period_ok n d = true ->
  to_common_m (Dur w n d) (Dur w n d) x y = Val (Dur w n d, x, y).
Proof.
  intros Hp. unfold to_common_m. cbv zeta. rewrite common_m_self by assumption. cbn [bind].
  rewrite !conv_m_same. reflexivity.
Qed.

Lemma lt_m_self w n d x y : period_ok n d = true -> lt_m (Dur w n d) (Dur w n d) x y = Val (x <? y).
Proof. intros Hp. unfold lt_m. cbv zeta. rewrite to_common_m_self by assumption. reflexivity. Qed.

Lemma plus_m_self w n d x y : period_ok n d = true ->
  plus_m (Dur w n d) (Dur w n d) x y = ck_rep w (x + y).
Proof. intros Hp. unfold plus_m. cbv zeta. rewrite to_common_m_self by assumption. reflexivity. Qed.

Lemma minus_m_self w n d x y : period_ok n d = true ->
  minus_m (Dur w n d) (Dur w n d) x y = ck_rep w (x - y).
Proof. intros Hp. unfold minus_m. cbv zeta. rewrite to_common_m_self by assumption. reflexivity. Qed.

Section Rounding.
  Variables w1 n1 d1 w2 n2 d2 : Z.
  Hypothesis Hw1 : rep_ok w1 = true.
  Hypothesis Hw2 : rep_ok w2 = true.
  Hypothesis Hp1 : period_ok n1 d1 = true.
  Hypothesis Hp2 : period_ok n2 d2 = true.
  Let from := Dur w1 n1 d1.
  Let to := Dur w2 n2 d2.

  Lemma pos_factor : 0 < d1 * n2.
  Proof.
    apply period_ok_iff in Hp1, Hp2. nia.
  Qed.

  Lemma floor_m_spec c : floor_ok w1 n1 d1 w2 n2 d2 c = true ->
    floor_m from to c = Val (floor_spec n1 d1 n2 d2 c).
  Proof.
    unfold floor_ok. cbv zeta. rewrite !Bool.andb_true_iff, fits_in_rep. intros [[Hc Hb] Hf].
    unfold floor_m, from, to. cbv zeta. rewrite duration_cast_spec by assumption. cbn [bind].
    unfold gt_m. cbv zeta. rewrite lt_m_spec by assumption. cbn [bind rw].
    pose proof pos_factor as HB.
    assert (E : (if lt_spec n1 d1 n2 d2 c (cast_spec n1 d1 n2 d2 c)
                 then cast_spec n1 d1 n2 d2 c - 1 else cast_spec n1 d1 n2 d2 c) = floor_spec n1 d1 n2 d2 c).
    { unfold lt_spec, cast_spec, floor_spec.
      replace (Z.quot (c * n1 * d2) (d1 * n2) * n2 * d1) with (Z.quot (c * n1 * d2) (d1 * n2) * (d1 * n2)) by ring.
      apply floor_from_trunc. exact HB. }
    destruct (lt_spec n1 d1 n2 d2 c (cast_spec n1 d1 n2 d2 c)).
    - rewrite E. apply ck_rep_ok. exact Hf.
    - rewrite E. reflexivity.
  Qed.

  Lemma ceil_m_spec c : ceil_ok w1 n1 d1 w2 n2 d2 c = true ->
    ceil_m from to c = Val (ceil_spec n1 d1 n2 d2 c).
  Proof.
    unfold ceil_ok. cbv zeta. rewrite !Bool.andb_true_iff, fits_in_rep. intros [[Hc Hb] Hf].
    unfold ceil_m, from, to. cbv zeta. rewrite duration_cast_spec by assumption. cbn [bind].
    rewrite lt_m_spec by (try assumption; rewrite both_ok_sym; assumption). cbn [bind rw].
    pose proof pos_factor as HB.
    assert (E : (if lt_spec n2 d2 n1 d1 (cast_spec n1 d1 n2 d2 c) c
                 then cast_spec n1 d1 n2 d2 c + 1 else cast_spec n1 d1 n2 d2 c) = ceil_spec n1 d1 n2 d2 c).
    { unfold lt_spec, cast_spec, ceil_spec.
      replace (Z.quot (c * n1 * d2) (d1 * n2) * n2 * d1) with (Z.quot (c * n1 * d2) (d1 * n2) * (d1 * n2)) by ring.
      apply ceil_from_trunc. exact HB. }
    destruct (lt_spec n2 d2 n1 d1 (cast_spec n1 d1 n2 d2 c) c).
    - rewrite E. apply ck_rep_ok. exact Hf.
    - rewrite E. reflexivity.
  Qed.

  Lemma round_m_spec c : round_ok w1 n1 d1 w2 n2 d2 c = true ->
    round_m from to c = Val (round_spec n1 d1 n2 d2 c).
  Proof.
    unfold round_ok. cbv zeta. rewrite !Bool.andb_true_iff, fits_in_rep. intros [[[Hfl Hq1] Hm1] Hm2].
    unfold round_m, from, to. cbv zeta. rewrite floor_m_spec by assumption. cbn [bind].
    (* the common types *)
    assert (Hbo : both_ok w1 n1 d1 w2 n2 d2 c (floor_spec n1 d1 n2 d2 c) = true).
    { unfold minus_ok in Hm1. cbv zeta in Hm1. apply Bool.andb_true_iff in Hm1. tauto. }
    pose proof (proj1 (both_ok_iff _ _ _ _ _ _ _ _) Hbo) as (Hco & _).
    pose proof (proj1 (common_ok_iff _ _ _ _) Hco) as (Hl & _ & _).
    pose proof (common_period_ok _ _ _ _ Hp1 Hp2 Hl) as Hpc.
    unfold round_ops. rewrite common_m_self by assumption. cbn [bind].
    rewrite common_m_spec by assumption. cbn [bind].
    rewrite (common_m_spec w2 n2 d2 w1 n1 d1) by (try assumption; rewrite cden_comm; assumption).
    cbn [bind]. rewrite (cnum_comm n1 n2), (cden_comm d1 d2), (Z.max_comm w2 w1).
    (* low + To{1}, converted back to To *)
    rewrite plus_m_self by assumption. rewrite ck_rep_ok by assumption. cbn [bind].
    rewrite conv_m_same. cbn [bind].
    rewrite minus_m_spec by assumption. cbn [bind].
    rewrite minus_m_spec by assumption. cbn [bind].
    rewrite lt_m_self by assumption. cbn [bind].
    unfold gt_m. cbv zeta. rewrite lt_m_self by assumption. cbn [bind].
    (* arithmetic *)
    set (q := floor_spec n1 d1 n2 d2 c) in *.
    set (lo := minus_spec n1 d1 n2 d2 c q). set (hi := minus_spec n2 d2 n1 d1 (q + 1) c).
    destruct (scaled_values n1 d1 n2 d2 c 1 Hp1 Hp2) as (K & l & HK & Hl0 & Ex & Ey).
    pose proof pos_factor as HB.
    assert (Elo : lo * K = (c * n1 * d2 - q * (d1 * n2)) * l).
    { unfold lo, minus_spec. cbv zeta. rewrite in_common_l, in_common_r.
      replace ((c * tk1 n1 d1 n2 d2 - q * tk2 n1 d1 n2 d2) * K)
        with (c * tk1 n1 d1 n2 d2 * K - q * (1 * tk2 n1 d1 n2 d2 * K)) by ring.
      rewrite Ex, Ey. ring. }
    assert (Ehi : hi * K = ((q + 1) * (d1 * n2) - c * n1 * d2) * l).
    { unfold hi, minus_spec. cbv zeta. rewrite !in_common_l.
      destruct (tk_swap n1 d1 n2 d2) as [E1 E2]. rewrite E1.
      replace (((q + 1) * tk2 n1 d1 n2 d2 - c * tk1 n1 d1 n2 d2) * K)
        with ((q + 1) * (1 * tk2 n1 d1 n2 d2 * K) - c * tk1 n1 d1 n2 d2 * K) by ring.
      rewrite Ex, Ey. ring. }
    pose proof (round_decide (c * n1 * d2) (d1 * n2) K l lo hi HB HK Hl0) as R.
    unfold q, floor_spec in Elo, Ehi. specialize (R Elo Ehi).
    unfold round_spec. cbv zeta. rewrite <- R. unfold q, floor_spec.
    destruct (lo <? hi); [reflexivity|]. destruct (hi <? lo); [reflexivity|].
    destruct (Z.odd (c * n1 * d2 / (d1 * n2))); reflexivity.
  Qed.
End Rounding.

(** * abs *)
Lemma abs_m_spec w n d c : period_ok n d = true -> abs_ok w c = true ->
  abs_m (Dur w n d) c = Val (abs_spec c).
Proof.
  intros Hp. unfold abs_ok. rewrite Bool.andb_true_iff, !fits_in_rep. intros [Hc Hn].
  unfold abs_m, abs_ops. cbv zeta. rewrite common_m_self by assumption. cbn [bind].
  rewrite lt_m_self by assumption. cbn [bind]. unfold abs_spec.
  destruct (c <? 0) eqn:E.
  - rewrite minus_m_self by assumption. rewrite ck_rep_ok by exact Hn. cbn [bind].
    rewrite conv_m_same. f_equal. lia.
  - f_equal. lia.
Qed.

(** * derived comparisons *)
Section Cmp.
  Variables w1 n1 d1 w2 n2 d2 : Z.
  Hypothesis Hw1 : rep_ok w1 = true.
  Hypothesis Hw2 : rep_ok w2 = true.
  Hypothesis Hp1 : period_ok n1 d1 = true.
  Hypothesis Hp2 : period_ok n2 d2 = true.
  Let a := Dur w1 n1 d1.
  Let b := Dur w2 n2 d2.
  Variables c1 c2 : Z.
  Hypothesis Hb : both_ok w1 n1 d1 w2 n2 d2 c1 c2 = true.

  Lemma lt_spec_swap : lt_spec n2 d2 n1 d1 c2 c1 = (c2 * n2 * d1 <? c1 * n1 * d2).
  Proof. reflexivity. Qed.

  Lemma ne_m_spec : ne_m a b c1 c2 = Val (negb (eq_spec n1 d1 n2 d2 c1 c2)).
  Proof. unfold ne_m, a, b. cbv zeta. rewrite eq_m_spec by assumption. reflexivity. Qed.

  Lemma gt_m_spec : gt_m a b c1 c2 = Val (lt_spec n2 d2 n1 d1 c2 c1).
  Proof.
    unfold gt_m, a, b. cbv zeta. rewrite lt_m_spec by (try assumption; rewrite both_ok_sym; assumption).
    reflexivity.
  Qed.

  Lemma le_m_spec : le_m a b c1 c2 = Val (negb (lt_spec n2 d2 n1 d1 c2 c1)).
  Proof.
    unfold le_m, a, b. cbv zeta. rewrite lt_m_spec by (try assumption; rewrite both_ok_sym; assumption).
    reflexivity.
  Qed.

  Lemma ge_m_spec : ge_m a b c1 c2 = Val (negb (lt_spec n1 d1 n2 d2 c1 c2)).
  Proof. unfold ge_m, a, b. cbv zeta. rewrite lt_m_spec by assumption. reflexivity. Qed.
End Cmp.

(** * the converting constructor in general *)
(* whole-number factor: the reduced denominator is 1 exactly when d1*n2 divides n1*d2, and then
   the reduced numerator is the quotient *)
Lemma factor_integral n1 d1 n2 d2 : 0 < n1 * d2 -> 0 < d1 * n2 ->
  ((factor_num n1 d1 n2 d2 <=? max64) && (factor_den n1 d1 n2 d2 =? 1))
  = (((n1 * d2) mod (d1 * n2) =? 0) && ((n1 * d2) / (d1 * n2) <=? max64)).
Proof.
  intros Ha0 Hb0. unfold factor_num, factor_den.
  destruct (reduce_facts _ _ Ha0 Hb0) as (Hg & Ea & Eb & Hcn & Hcd).
  set (g := Z.gcd (n1 * d2) (d1 * n2)) in *.
  destruct (d1 * n2 / g =? 1) eqn:E1.
  - apply Z.eqb_eq in E1. rewrite E1, Z.mul_1_l in Eb.
    rewrite Bool.andb_true_r. rewrite <- Eb in *.
    assert (Em : (n1 * d2) mod (d1 * n2) = 0) by (rewrite Ea; apply Z.mod_mul; lia).
    rewrite Em. reflexivity.
  - rewrite Bool.andb_false_r. symmetry. apply Bool.andb_false_iff. left.
    apply Z.eqb_neq. intros Em. apply Z.mod_divide in Em; [|lia].
    assert (EG : g = d1 * n2).
    { unfold g. rewrite Z.gcd_comm. apply Z.divide_gcd_iff; [lia|exact Em]. }
    rewrite EG in E1. rewrite Z.div_same in E1 by lia. discriminate.
Qed.

Lemma convertible_m_spec w1 n1 d1 w2 n2 d2 :
  period_ok n1 d1 = true -> period_ok n2 d2 = true ->
  convertible_m (Dur w1 n1 d1) (Dur w2 n2 d2)
  = Val (((n1 * d2) mod (d1 * n2) =? 0) && ((n1 * d2) / (d1 * n2) <=? max64)).
Proof.
  intros Hp1 Hp2.
  pose proof (proj1 (period_ok_iff _ _) Hp1) as (Hn1 & Hd1 & Hg1).
  pose proof (proj1 (period_ok_iff _ _) Hp2) as (Hn2 & Hd2 & Hg2).
  unfold convertible_m. destruct (same_ty (Dur w1 n1 d1) (Dur w2 n2 d2)) eqn:Es.
  - apply same_ty_iff in Es. injection Es as -> -> ->.
    replace (n2 * d2) with (1 * (d2 * n2)) by ring. rewrite Z.mod_mul, Z.div_mul by nia. reflexivity.
  - rewrite period_quotient_integral_m_spec by assumption. f_equal.
    apply factor_integral; nia.
Qed.

Lemma conv_m_spec w1 n1 d1 w2 n2 d2 c :
  rep_ok w1 = true -> rep_ok w2 = true ->
  period_ok n1 d1 = true -> period_ok n2 d2 = true ->
  (n1 * d2) mod (d1 * n2) = 0 ->
  cast_ok w1 n1 d1 w2 n2 d2 c = true ->
  conv_m (Dur w1 n1 d1) (Dur w2 n2 d2) c = Val (cast_spec n1 d1 n2 d2 c)
  /\ cast_spec n1 d1 n2 d2 c * (d1 * n2) = c * n1 * d2.
Proof.
  intros Hw1 Hw2 Hp1 Hp2 Hex Hok.
  pose proof (proj1 (period_ok_iff _ _) Hp1) as (Hn1 & Hd1 & Hg1).
  pose proof (proj1 (period_ok_iff _ _) Hp2) as (Hn2 & Hd2 & Hg2).
  assert (Ha0 : 0 < n1 * d2) by nia. assert (Hb0 : 0 < d1 * n2) by nia.
  assert (Hexact : cast_spec n1 d1 n2 d2 c * (d1 * n2) = c * n1 * d2).
  { unfold cast_spec. apply Z.mod_divide in Hex; [|lia]. destruct Hex as [k Ek].
    replace (c * n1 * d2) with (c * k * (d1 * n2)) by (rewrite <- Z.mul_assoc, <- Ek; ring).
    rewrite Z.quot_mul by lia. reflexivity. }
  split; [|exact Hexact].
  pose proof Hok as Hok'.
  unfold cast_ok in Hok. cbv zeta in Hok. rewrite !Bool.andb_true_iff in Hok.
  destruct Hok as ((((Ha & Hb) & Hc) & Hm) & Hr).
  apply Z.leb_le in Ha, Hb. unfold lim64 in Ha, Hb.
  rewrite fits64_in64 in Hm. rewrite fits_in_rep in Hc, Hr.
  unfold conv_m. cbv zeta. destruct (same_ty (Dur w1 n1 d1) (Dur w2 n2 d2)) eqn:Es.
  - apply same_ty_iff in Es. injection Es as -> -> ->. f_equal.
    unfold cast_spec. replace (c * n2 * d2) with (c * (d2 * n2)) by ring. rewrite Z.quot_mul by lia. reflexivity.
  - cbn [pn pd rw].
    rewrite period_quotient_integral_m_spec by assumption.
    rewrite factor_integral by assumption.
    apply Z.mod_divide in Hex; [|lia].
    assert (EG : Z.gcd (n1 * d2) (d1 * n2) = d1 * n2).
    { rewrite Z.gcd_comm. apply Z.divide_gcd_iff; [lia|exact Hex]. }
    assert (Efn : factor_num n1 d1 n2 d2 = n1 * d2 / (d1 * n2)) by (unfold factor_num; rewrite EG; reflexivity).
    assert (Efd : factor_den n1 d1 n2 d2 = 1) by (unfold factor_den; rewrite EG; apply Z.div_same; lia).
    assert (Em : (n1 * d2) mod (d1 * n2) = 0) by (apply Z.mod_divide; [lia|exact Hex]).
    rewrite Em. rewrite <- Efn. replace (factor_num n1 d1 n2 d2 <=? max64) with true by (symmetry; apply Z.leb_le; exact Ha).
    cbn [bind Z.eqb andb negb].
    rewrite ratio_divide_m_spec by (try assumption; unfold max64; lia).
    cbn [bind fst snd].
    rewrite (cast_reduced n1 d1 n2 d2 c Ha0 Hb0) in *. rewrite Efd in *.
    rewrite Z.quot_1_r in *.
    rewrite ck64_ok by assumption. cbn [bind]. rewrite div_rep_pos by lia. cbn [bind].
    rewrite Z.quot_1_r. rewrite wrap_rep_id by assumption. reflexivity.
Qed.
