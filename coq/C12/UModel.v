(* C12 model, part 2: duration / time_point arithmetic for EVERY standard integer representation
   (signed and unsigned, 8 / 16 / 32 / 64 bits; LP64), i.e. with the integral promotions, the usual
   arithmetic conversions, unsigned wrap-around and the modular narrowing conversions the C++ performs.

   Model.v treats the representations int (32) and long = intmax_t (64) only; there
   common_type_t<Rep1, Rep2> is the wider one and all arithmetic is signed.  Here a representation type
   is a code r stored in the same field [rw] of [dty]:
       8, 16, 32, 64   = signed char, short, int, long           (int8_t .. int64_t)
      -8,-16,-32,-64   = unsigned char, unsigned short, unsigned, unsigned long   (uint8_t .. uint64_t)
   The period layer (gcd, lcm, ratio, ratio_divide, period_quotient) is the one of Model.v, unchanged.

   Mirrored expressions (include/etl/_chrono/duration.hpp, time_point.hpp, duration_cast.hpp):
     converting constructor   static_cast<Rep>(static_cast<common_type_t<Rep, Rep2, intmax_t>>(other.count())
                                               * ratio_divide<Period2, period>::num / ratio_divide<Period2, period>::den)
     operator+ (- %)          CD(static_cast<CR>(CD(lhs).count() + CD(rhs).count()))     CR = common_type_t<Rep1, Rep2>
     operator/                CD(lhs).count() / CD(rhs).count()                          returned as CR
     operator== (<)           CD(lhs).count() == CD(rhs).count()
     d * s, d / s, d % s      CD(CD(d).count() * s)     CD = duration<common_type_t<Rep1, Rep2>, Period>, s of type Rep2
     members                  CD(-_rep), ++_rep, --_rep, _rep += d.count(), _rep -= .., _rep *= rhs, _rep /= rhs, _rep %= rhs
     time_point               CT(lhs.time_since_epoch() + rhs), rhs + lhs, CT(lhs.time_since_epoch() - rhs),
                              lhs.time_since_epoch() - rhs.time_since_epoch()
   An arithmetic expression on operands of types T1, T2 is evaluated in the type given by the usual
   arithmetic conversions ([uac]); if that type is signed an unrepresentable result is undefined behaviour,
   if it is unsigned the result is reduced modulo 2^bits; storing the result into a narrower or differently
   signed type converts modulo 2^bits ([cvt], C++20 [conv.integral]). *)
From Tetl Require Import Lib.Base C12.Model.
Local Open Scope Z_scope.

(** * representation types *)
Definition rty_ok (r : Z) : bool :=
  (r =? 8) || (r =? 16) || (r =? 32) || (r =? 64) || (r =? -8) || (r =? -16) || (r =? -32) || (r =? -64).
Definition rsigned (r : Z) : bool := 0 <? r.

(* numeric_limits<T>::min(), ::max() with the constants written out *)
Definition rmin (r : Z) : Z :=
  if r =? 8 then -128 else if r =? 16 then -32768 else if r =? 32 then min32 else if r =? 64 then min64 else 0.
Definition rmax (r : Z) : Z :=
  if r =? 8 then 127 else if r =? 16 then 32767 else if r =? 32 then max32 else if r =? 64 then max64
  else if r =? -8 then 255 else if r =? -16 then 65535 else if r =? -32 then 4294967295
  else 18446744073709551615.
Definition rmodulus (r : Z) : Z :=
  if (r =? 8) || (r =? -8) then 256 else if (r =? 16) || (r =? -16) then 65536
  else if (r =? 32) || (r =? -32) then two32 else two64.
Definition in_rty (r x : Z) : bool := (rmin r <=? x) && (x <=? rmax r).

(* conversion of the value x to the integer type r: value-preserving when representable, otherwise the
   unique value of r congruent to x modulo 2^bits *)
Definition cvt (r x : Z) : Z :=
  if in_rty r x then x
  else let y := x mod rmodulus r in if y <=? rmax r then y else y - rmodulus r.

(* integral promotion [conv.prom]: the four types narrower than int become int *)
Definition promote (r : Z) : Z :=
  if (r =? 8) || (r =? 16) || (r =? -8) || (r =? -16) then 32 else r.

(* usual arithmetic conversions [expr.arith.conv] on two integer types *)
Definition uac (r1 r2 : Z) : Z :=
  let p1 := promote r1 in
  let p2 := promote r2 in
  if p1 =? p2 then p1
  else if rsigned p1 && rsigned p2 then Z.max p1 p2             (* both signed: the greater rank *)
  else if negb (rsigned p1) && negb (rsigned p2) then Z.min p1 p2   (* both unsigned: the greater rank *)
  else
    let u := Z.min p1 p2 in                                       (* the unsigned one (negative code) *)
    let s := Z.max p1 p2 in                                       (* the signed one *)
    if s <=? - u then u                                           (* rank(unsigned) >= rank(signed) *)
    else s.                                                       (* the signed type represents all values of the unsigned *)

(* common_type_t<R1, R2> = decay_t<decltype(false ? declval<R1>() : declval<R2>())>: operands of the same
   type keep it (no promotion), otherwise the usual arithmetic conversions *)
Definition common_rep (r1 r2 : Z) : Z := if r1 =? r2 then r1 else uac r1 r2.
(* common_type_t<Rep, Rep2, intmax_t> = common_type_t<common_type_t<Rep, Rep2>, intmax_t> *)
Definition cr3 (rto rfrom : Z) : Z := common_rep (common_rep rto rfrom) 64.

(** * one arithmetic operation in the type t (already the result of the usual arithmetic conversions) *)
Definition ar (t v : Z) : out Z :=
  if rsigned t then (if in_rty t v then Val v else Ub SignedOverflow) else Val (cvt t v).

(* x (of type ra) op y (of type rb) *)
Definition bin_add (ra rb x y : Z) : out Z := let t := uac ra rb in ar t (cvt t x + cvt t y).
Definition bin_sub (ra rb x y : Z) : out Z := let t := uac ra rb in ar t (cvt t x - cvt t y).
Definition bin_mul (ra rb x y : Z) : out Z := let t := uac ra rb in ar t (cvt t x * cvt t y).
Definition bin_div (ra rb x y : Z) : out Z :=
  let t := uac ra rb in
  let x' := cvt t x in
  let y' := cvt t y in
  if y' =? 0 then Ub DivByZero
  else if rsigned t && (x' =? rmin t) && (y' =? -1) then Ub SignedOverflow
  else Val (if y' =? 1 then x' else Z.quot x' y').
Definition bin_rem (ra rb x y : Z) : out Z :=
  let t := uac ra rb in
  let x' := cvt t x in
  let y' := cvt t y in
  if y' =? 0 then Ub DivByZero
  else if rsigned t && (x' =? rmin t) && (y' =? -1) then Ub SignedOverflow
  else Val (Z.rem x' y').
Definition bin_lt (ra rb x y : Z) : bool := let t := uac ra rb in cvt t x <? cvt t y.
Definition bin_eq (ra rb x y : Z) : bool := let t := uac ra rb in cvt t x =? cvt t y.
(* -x for x of type r (promoted first) *)
Definition un_neg (r x : Z) : out Z := let t := promote r in ar t (- cvt t x).

(** * common_type<duration<R1,P1>, duration<R2,P2>> *)
Definition ucommon_m (a b : dty) : out dty :=
  do t <- common_m a b;
  Val {| rw := common_rep (rw a) (rw b); pn := pn t; pd := pd t |}.

(** * converting constructor *)
Definition uconv_m (from to : dty) : Z -> out Z :=
  let same := same_ty from to in
  let ok := period_quotient_integral_m from to in
  let cf := ratio_divide_m (pn from, pd from) (pn to, pd to) in
  let cr := cr3 (rw to) (rw from) in
  let t1 := uac cr 64 in                       (* static_cast<CR>(count) * ratio::num, num an intmax_t *)
  fun c =>
    if same then Val c
    else
      do ok' <- ok;
      if negb ok' then IllFormed
      else
        do cf' <- cf;
        do p <- bin_mul cr 64 (cvt cr c) (fst cf');
        do q <- bin_div t1 64 p (snd cf');
        Val (cvt (rw to) q).

Definition uconvertible_m := convertible_m.    (* the constraint looks at the periods only (integer reps) *)

(** * duration_cast: CR = common_type_t<ToRep, Rep, intmax_t>, every operand static_cast to CR *)
Definition ucast_m (from to : dty) : Z -> out Z :=
  let cf := ratio_divide_m (pn from, pd from) (pn to, pd to) in
  let cr := cr3 (rw to) (rw from) in
  fun c =>
    do cf' <- cf;
    let cn := fst cf' in
    let cd := snd cf' in
    let x := cvt cr c in
    do v <- (if cn =? 1 then
               (if cd =? 1 then Val c else bin_div cr cr x (cvt cr cd))
             else if cd =? 1 then bin_mul cr cr x (cvt cr cn)
             else do p <- bin_mul cr cr x (cvt cr cn); bin_div cr cr p (cvt cr cd));
    Val (cvt (rw to) v).

(** * CD(lhs).count(), CD(rhs).count() *)
Definition uto_common_m (a b : dty) : Z -> Z -> out (dty * Z * Z) :=
  let k := (do t <- ucommon_m a b; Val (t, uconv_m a t, uconv_m b t)) in
  fun ca cb =>
    do '(t, fa, fb) <- k;
    do x <- fa ca;
    do y <- fb cb;
    Val (t, x, y).

(* the two counts are of type CR = rw t; the sum is formed in the promoted type and converted back to CR *)
Definition uadd_m (a b : dty) : Z -> Z -> out Z :=
  let tc := uto_common_m a b in
  fun ca cb => do '(t, x, y) <- tc ca cb; do s <- bin_add (rw t) (rw t) x y; Val (cvt (rw t) s).
Definition usub_m (a b : dty) : Z -> Z -> out Z :=
  let tc := uto_common_m a b in
  fun ca cb => do '(t, x, y) <- tc ca cb; do s <- bin_sub (rw t) (rw t) x y; Val (cvt (rw t) s).
Definition udiv_m (a b : dty) : Z -> Z -> out Z :=
  let tc := uto_common_m a b in
  fun ca cb => do '(t, x, y) <- tc ca cb; do s <- bin_div (rw t) (rw t) x y; Val (cvt (rw t) s).
Definition umod_m (a b : dty) : Z -> Z -> out Z :=
  let tc := uto_common_m a b in
  fun ca cb => do '(t, x, y) <- tc ca cb; do s <- bin_rem (rw t) (rw t) x y; Val (cvt (rw t) s).
Definition ueq_m (a b : dty) : Z -> Z -> out bool :=
  let tc := uto_common_m a b in
  fun ca cb => do '(t, x, y) <- tc ca cb; Val (bin_eq (rw t) (rw t) x y).
Definition ult_m (a b : dty) : Z -> Z -> out bool :=
  let tc := uto_common_m a b in
  fun ca cb => do '(t, x, y) <- tc ca cb; Val (bin_lt (rw t) (rw t) x y).
Definition une_m (a b : dty) : Z -> Z -> out bool :=
  let f := ueq_m a b in fun ca cb => do r <- f ca cb; Val (negb r).
Definition ule_m (a b : dty) : Z -> Z -> out bool :=
  let f := ult_m b a in fun ca cb => do r <- f cb ca; Val (negb r).
Definition ugt_m (a b : dty) : Z -> Z -> out bool :=
  let f := ult_m b a in fun ca cb => f cb ca.
Definition uge_m (a b : dty) : Z -> Z -> out bool :=
  let f := ult_m a b in fun ca cb => do r <- f ca cb; Val (negb r).

(** * members of duration<r, P> (value left in the object) *)
Definition uneg_m (r c : Z) : out Z := do v <- un_neg r c; Val (cvt r v).        (* common_type_t<duration>(-_rep) *)
Definition uuplus_m (r c : Z) : out Z := Val c.
Definition uinc_m (r c : Z) : out Z := do v <- bin_add r 32 c 1; Val (cvt r v).   (* ++_rep: _rep = _rep + 1 *)
Definition udec_m (r c : Z) : out Z := do v <- bin_sub r 32 c 1; Val (cvt r v).
Definition uadd_assign_m (r c d : Z) : out Z := do v <- bin_add r r c d; Val (cvt r v).
Definition usub_assign_m (r c d : Z) : out Z := do v <- bin_sub r r c d; Val (cvt r v).
Definition umul_assign_m (r c s : Z) : out Z := do v <- bin_mul r r c s; Val (cvt r v).
Definition udiv_assign_m (r c s : Z) : out Z := do v <- bin_div r r c s; Val (cvt r v).
Definition umod_assign_m (r c s : Z) : out Z := do v <- bin_rem r r c s; Val (cvt r v).

(** * duration<R1, P> op scalar of type R2 *)
Definition uscale_ty (a : dty) (rs : Z) : dty := {| rw := common_rep (rw a) rs; pn := pn a; pd := pd a |}.
Definition usmul_m (a : dty) (rs : Z) : Z -> Z -> out Z :=
  let t := uscale_ty a rs in
  let cv := uconv_m a t in
  fun c s => do x <- cv c; do v <- bin_mul (rw t) rs x s; Val (cvt (rw t) v).
Definition usdiv_m (a : dty) (rs : Z) : Z -> Z -> out Z :=
  let t := uscale_ty a rs in
  let cv := uconv_m a t in
  fun c s => do x <- cv c; do v <- bin_div (rw t) rs x s; Val (cvt (rw t) v).
Definition usmod_m (a : dty) (rs : Z) : Z -> Z -> out Z :=
  let t := uscale_ty a rs in
  let cv := uconv_m a t in
  fun c s => do x <- cv c; do v <- bin_rem (rw t) rs x s; Val (cvt (rw t) v).

(** * floor, ceil, round, abs on any two integer representations *)
Definition ufloor_m (from to : dty) : Z -> out Z :=
  let cast := ucast_m from to in
  let gt := ugt_m to from in
  fun c =>
    do t <- cast c;
    do g <- gt t c;                                                       (* t > d *)
    if g then do v <- bin_sub (rw to) (rw to) t 1; Val (cvt (rw to) v)    (* To(t.count() - static_cast<rep>(1)) *)
    else Val t.

Definition uceil_m (from to : dty) : Z -> out Z :=
  let cast := ucast_m from to in
  let lt := ult_m to from in
  fun c =>
    do t <- cast c;
    do l <- lt t c;
    if l then do v <- bin_add (rw to) (rw to) t 1; Val (cvt (rw to) v)
    else Val t.

Definition uround_ops (from to : dty) :=
  do t2 <- ucommon_m to to;
  do cd1 <- ucommon_m from to;
  do cd2 <- ucommon_m to from;
  Val (uadd_m to to, uconv_m t2 to, usub_m from to, usub_m to from, ult_m cd1 cd2, ugt_m cd1 cd2).

Definition uround_m (from to : dty) : Z -> out Z :=
  let fl := ufloor_m from to in
  let ops := uround_ops from to in
  fun c =>
    do low <- fl c;
    do '(pl, cv, mi1, mi2, lt, gt) <- ops;
    do h0 <- pl low 1;
    do high <- cv h0;
    do lowDiff <- mi1 c low;
    do highDiff <- mi2 high c;
    do l <- lt lowDiff highDiff;
    if l then Val low
    else
      do g <- gt lowDiff highDiff;
      if g then Val high
      else if Z.odd low then Val high else Val low.

(* abs is constrained to numeric_limits<R>::is_signed *)
Definition uabs_ops (t : dty) :=
  do t2 <- ucommon_m t t; Val (ult_m t t, usub_m t t, uconv_m t2 t).
Definition uabs_m (t : dty) : Z -> out Z :=
  let ops := uabs_ops t in
  fun c =>
    if negb (rsigned (rw t)) then IllFormed
    else
      do '(lt, mi, cv) <- ops;
      do neg <- lt c 0;
      if neg then do r <- mi 0 c; cv r
      else Val c.

(** * time_point: the duration operators on time_since_epoch() *)
Definition utp_plus_m := uadd_m.
Definition utp_plus_r_m (d tp : dty) : Z -> Z -> out Z :=
  let f := uadd_m tp d in fun cd ctp => f ctp cd.
Definition utp_minus_m := usub_m.
Definition utp_diff_m := usub_m.
Definition utp_add_assign_m := uadd_assign_m.
Definition utp_sub_assign_m := usub_assign_m.
Definition utp_inc_m := uinc_m.
Definition utp_dec_m := udec_m.
Definition utp_eq_m := ueq_m.
Definition utp_ne_m := une_m.
Definition utp_lt_m := ult_m.
Definition utp_le_m := ule_m.
Definition utp_gt_m := ugt_m.
Definition utp_ge_m := uge_m.
