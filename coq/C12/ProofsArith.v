(* C12 proofs, part 1: machine arithmetic, gcd / lcm / ratio / ratio_divide of the model equal
   the mathematical gcd, lcm and reduced fractions on positive 64-bit operands. *)
From Tetl Require Import Lib.Base C12.Model C12.Spec.
From Coq Require Import ZifyBool Znumtheory.
Local Open Scope Z_scope.
Ltac Zify.zify_post_hook ::= Z.to_euclidean_division_equations.

(** * Representability predicates *)
Lemma fits_in_rep w x : fits w x = in_rep w x.
Proof. reflexivity. Qed.

Lemma in64_iff x : in64 x = true <-> min64 <= x <= max64.
Proof. unfold in64. lia. Qed.

Lemma in32_iff x : in32 x = true <-> min32 <= x <= max32.
Proof. unfold in32. lia. Qed.

Lemma in_rep_in64 w x : rep_ok w = true -> in_rep w x = true -> in64 x = true.
Proof.
  unfold rep_ok, in_rep, in64, in32, min64, max64, min32, max32. intros Hw H.
  destruct (w =? 32) eqn:E; lia.
Qed.

Lemma in_rep_max_l w1 w2 x : rep_ok w1 = true -> rep_ok w2 = true ->
  in_rep w1 x = true -> in_rep (Z.max w1 w2) x = true.
Proof.
  unfold rep_ok, in_rep, in64, in32, min64, max64, min32, max32. intros H1 H2 H.
  destruct (w1 =? 32) eqn:E1; destruct (Z.max w1 w2 =? 32) eqn:E; lia.
Qed.

Lemma rep_ok_max w1 w2 : rep_ok w1 = true -> rep_ok w2 = true -> rep_ok (Z.max w1 w2) = true.
Proof. unfold rep_ok. lia. Qed.

Lemma wrap_rep_id w x : in_rep w x = true -> wrap_rep w x = x.
Proof.
  unfold wrap_rep, in_rep. destruct (w =? 32); intros H; rewrite H; reflexivity.
Qed.

Lemma ck_rep_ok w x : in_rep w x = true -> ck_rep w x = Val x.
Proof. unfold ck_rep. intros H; rewrite H; reflexivity. Qed.

Lemma ck64_ok x : in64 x = true -> ck64 x = Val x.
Proof. unfold ck64. intros H; rewrite H; reflexivity. Qed.

Lemma cx64_ok x : min64 <= x <= max64 -> cx64 x = Val x.
Proof. intros H. unfold cx64. rewrite (proj2 (in64_iff x) H). reflexivity. Qed.

Lemma uabs64_id v : 0 <= v <= max64 -> uabs64 v = v.
Proof.
  unfold uabs64, wrapu64, two64, max64. intros H.
  destruct (v <? 0) eqn:E; [lia|]. apply Z.mod_small. lia.
Qed.

Lemma wraps64_id v : 0 <= v <= max64 -> wraps64 v = v.
Proof.
  unfold wraps64, two64, max64. intros H. rewrite Z.mod_small by lia.
  destruct (v <=? 9223372036854775807) eqn:E; lia.
Qed.

Lemma wrapu64_id v : 0 <= v <= max64 -> wrapu64 v = v.
Proof. unfold wrapu64, two64, max64. intros H. apply Z.mod_small. lia. Qed.

(** * gcd.hpp: the Euclidean loop *)
Lemma gcd_loop_S f a b : gcd_loop (S f) a b = if b =? 0 then Val a else gcd_loop f b (a mod b).
Proof. reflexivity. Qed.

(* the product of the operands at least halves in every iteration, so [f] iterations suffice
   for operands whose product is below 2^f *)
Lemma gcd_loop_enough : forall (f : nat) a b,
  0 <= b <= a -> a * b < 2 ^ Z.of_nat f -> gcd_loop (S f) a b = Val (Z.gcd a b).
Proof.
  induction f as [|f IH]; intros a b Hab Hp.
  - assert (Hb : b = 0) by nia. subst b. rewrite gcd_loop_S, Z.eqb_refl.
    rewrite Z.gcd_0_r, Z.abs_eq by lia. reflexivity.
  - rewrite gcd_loop_S. destruct (b =? 0) eqn:Eb.
    + apply Z.eqb_eq in Eb. subst b. rewrite Z.gcd_0_r, Z.abs_eq by lia. reflexivity.
    + apply Z.eqb_neq in Eb.
      assert (Hb : 0 < b) by lia.
      pose proof (Z.mod_pos_bound a b Hb) as Hr.
      pose proof (Z.div_mod a b Eb) as Hdm.
      assert (Hq : 1 <= a / b) by (apply Z.div_le_lower_bound; lia).
      rewrite IH.
      * rewrite Z.gcd_comm, Z.gcd_mod by lia. rewrite Z.gcd_comm. reflexivity.
      * lia.
      * rewrite Nat2Z.inj_succ, Z.pow_succ_r in Hp by lia.
        assert (H2 : 2 * (a mod b) <= a) by nia.
        nia.
Qed.

Lemma gcd_loop_mono : forall (f : nat) a b r, gcd_loop f a b = Val r -> gcd_loop (S f) a b = Val r.
Proof.
  induction f as [|f IH]; intros a b r H; [discriminate|].
  rewrite gcd_loop_S in H. rewrite gcd_loop_S.
  destruct (b =? 0); [exact H|]. apply IH. exact H.
Qed.

Lemma gcd_loop_mono_le : forall (k f : nat) a b r, gcd_loop f a b = Val r -> gcd_loop (k + f) a b = Val r.
Proof.
  induction k as [|k IH]; intros f a b r H; [exact H|].
  change (S k + f)%nat with (S (k + f)). apply gcd_loop_mono. apply IH. exact H.
Qed.

Lemma gcd_loop_64 a b : 0 <= a <= max64 -> 0 <= b <= max64 ->
  gcd_loop gcd_fuel a b = Val (Z.gcd a b).
Proof.
  intros Ha Hb.
  assert (Hf : gcd_fuel = S (70 + S 128)) by reflexivity. rewrite Hf. clear Hf.
  rewrite gcd_loop_S.
  destruct (b =? 0) eqn:Eb.
  - apply Z.eqb_eq in Eb. subst b. rewrite Z.gcd_0_r, Z.abs_eq by lia. reflexivity.
  - apply Z.eqb_neq in Eb.
    assert (Hb0 : 0 < b) by lia.
    pose proof (Z.mod_pos_bound a b Hb0) as Hr.
    apply gcd_loop_mono_le.
    rewrite gcd_loop_enough.
    + rewrite Z.gcd_comm, Z.gcd_mod by lia. rewrite Z.gcd_comm. reflexivity.
    + lia.
    + unfold max64 in *. change (Z.of_nat 128) with 128.
      assert (H64 : 2 ^ 128 = 340282366920938463463374607431768211456) by reflexivity.
      rewrite H64. nia.
Qed.

Lemma gcd_le_l a b : 0 < a -> 0 <= Z.gcd a b <= a.
Proof.
  intros Ha. split; [apply Z.gcd_nonneg|].
  apply Z.divide_pos_le; [lia|apply Z.gcd_divide_l].
Qed.

Lemma gcd_pos_l a b : 0 < a -> 0 < Z.gcd a b.
Proof.
  intros Ha. pose proof (Z.gcd_nonneg a b) as H.
  assert (Hn : Z.gcd a b <> 0) by (intros E; apply Z.gcd_eq_0_l in E; lia). lia.
Qed.

Lemma gcd_m_spec m n : 0 < m <= max64 -> 0 <= n <= max64 -> gcd_m m n = Val (Z.gcd m n).
Proof.
  intros Hm Hn. unfold gcd_m. rewrite !uabs64_id by lia. rewrite gcd_loop_64 by lia.
  cbn [bind]. pose proof (gcd_le_l m n ltac:(lia)) as Hg. rewrite wraps64_id by lia. reflexivity.
Qed.

(** * lcm.hpp *)
Lemma lcm_formula m n : 0 < m -> 0 < n -> Z.lcm m n = m / Z.gcd m n * n.
Proof.
  intros Hm Hn. unfold Z.lcm.
  pose proof (gcd_pos_l m n Hm) as Hg.
  destruct (Z.gcd_divide_l m n) as [m' Em]. destruct (Z.gcd_divide_r m n) as [n' En].
  remember (Z.gcd m n) as g eqn:Eg. clear Eg.
  assert (Hm' : 0 < m') by nia. assert (Hn' : 0 < n') by nia.
  assert (H1 : n / g = n') by (rewrite En; apply Z.div_mul; lia).
  assert (H2 : m / g = m') by (rewrite Em; apply Z.div_mul; lia).
  rewrite H1, H2. rewrite Z.abs_eq by nia. rewrite Em, En. ring.
Qed.

Lemma lcm_pos m n : 0 < m -> 0 < n -> 0 < Z.lcm m n.
Proof.
  intros Hm Hn. pose proof (Z.lcm_nonneg m n) as H.
  assert (Hz : Z.lcm m n <> 0) by (intros E; apply Z.lcm_eq_0 in E; lia). lia.
Qed.

Lemma lcm_m_spec m n : 0 < m <= max64 -> 0 < n <= max64 -> Z.lcm m n <= max64 ->
  lcm_m m n = Val (Z.lcm m n).
Proof.
  intros Hm Hn Hl. unfold lcm_m.
  destruct ((m =? 0) || (n =? 0)) eqn:E; [lia|].
  rewrite gcd_m_spec by lia. cbn [bind].
  pose proof (gcd_le_l m n ltac:(lia)) as Hg. pose proof (gcd_pos_l m n ltac:(lia)) as Hg0.
  rewrite !uabs64_id by lia. rewrite (wrapu64_id (Z.gcd m n)) by lia.
  rewrite Z.quot_div_nonneg by lia.
  rewrite <- lcm_formula by lia.
  pose proof (lcm_pos m n ltac:(lia) ltac:(lia)) as Hp.
  rewrite wrapu64_id by lia. rewrite wraps64_id by lia. reflexivity.
Qed.

(** * ratio.hpp *)
Lemma ratio_m_pos n d : 0 < n <= max64 -> 0 < d <= max64 ->
  ratio_m n d = Val (n / Z.gcd n d, d / Z.gcd n d).
Proof.
  intros Hn Hd. unfold ratio_m. rewrite gcd_m_spec by lia. cbn [bind].
  pose proof (gcd_pos_l n d ltac:(lia)) as Hg.
  destruct ((d =? 0) || (Z.gcd n d =? 0)) eqn:E; [lia|].
  rewrite !Z.abs_eq by lia. unfold max64, min64 in *.
  rewrite !cx64_ok by (unfold min64, max64; lia). cbn [bind].
  unfold sign_m. destruct (n <? 0) eqn:E1; [lia|]. destruct (d <? 0) eqn:E2; [lia|].
  rewrite !Z.quot_div_nonneg by lia.
  replace (1 * 1 * n) with n by ring. reflexivity.
Qed.

Lemma ratio_m_normal n d : period_ok n d = true -> ratio_m n d = Val (n, d).
Proof.
  unfold period_ok, lim64. intros H.
  assert (Hg : Z.gcd n d = 1) by lia.
  rewrite ratio_m_pos by (unfold max64; lia). rewrite Hg, !Z.div_1_r. reflexivity.
Qed.

(* reducing a positive fraction gives a period in the sense of the specification *)
Lemma reduced_period_ok n d : 0 < n <= max64 -> 0 < d <= max64 ->
  period_ok (n / Z.gcd n d) (d / Z.gcd n d) = true.
Proof.
  intros Hn Hd. pose proof (gcd_pos_l n d ltac:(lia)) as Hg.
  destruct (Z.gcd_divide_l n d) as [n' En]. destruct (Z.gcd_divide_r n d) as [d' Ed].
  assert (Hc : Z.gcd (n / Z.gcd n d) (d / Z.gcd n d) = 1).
  { apply Z.gcd_div_gcd; [lia|reflexivity]. }
  set (g := Z.gcd n d) in *.
  assert (Hn' : n / g = n') by (rewrite En at 1; apply Z.div_mul; lia).
  assert (Hd' : d / g = d') by (rewrite Ed at 1; apply Z.div_mul; lia).
  unfold period_ok, lim64. rewrite Hc. rewrite Hn', Hd' in *. unfold max64 in *.
  assert (0 < n') by nia. assert (0 < d') by nia.
  assert (n' <= n) by nia. assert (d' <= d) by nia. lia.
Qed.

Lemma mk_dty_spec w n d : 0 < n <= max64 -> 0 < d <= max64 ->
  mk_dty w n d = Val {| rw := w; pn := n / Z.gcd n d; pd := d / Z.gcd n d |}.
Proof. intros Hn Hd. unfold mk_dty. rewrite ratio_m_pos by lia. reflexivity. Qed.

(* facts about a reduced fraction a/g, b/g *)
Lemma reduce_facts a b : 0 < a -> 0 < b ->
  let g := Z.gcd a b in
  0 < g /\ a = a / g * g /\ b = b / g * g /\ 0 < a / g /\ 0 < b / g.
Proof.
  intros Ha Hb g. pose proof (gcd_pos_l a b Ha) as Hg. fold g in Hg.
  destruct (Z.gcd_divide_l a b) as [a' Ea]. destruct (Z.gcd_divide_r a b) as [b' Eb]. fold g in Ea, Eb.
  assert (Ha' : a / g = a') by (rewrite Ea at 1; apply Z.div_mul; lia).
  assert (Hb' : b / g = b') by (rewrite Eb at 1; apply Z.div_mul; lia).
  rewrite Ha', Hb'. repeat split; try lia; nia.
Qed.

(** * ratio_divide.hpp *)
(* cross-cancelling two fractions in lowest terms leaves the quotient in lowest terms *)
Lemma cross_cancel n1 d1 n2 d2 :
  0 < n1 -> 0 < d1 -> 0 < n2 -> 0 < d2 -> Z.gcd n1 d1 = 1 -> Z.gcd n2 d2 = 1 ->
  let g1 := Z.gcd n1 n2 in
  let g2 := Z.gcd d2 d1 in
  let a := n1 / g1 * (d2 / g2) in
  let b := d1 / g2 * (n2 / g1) in
  0 < g1 /\ 0 < g2 /\ 0 < n1 / g1 /\ 0 < d2 / g2 /\ 0 < d1 / g2 /\ 0 < n2 / g1
  /\ n1 * d2 = a * (g1 * g2) /\ d1 * n2 = b * (g1 * g2)
  /\ Z.gcd a b = 1 /\ Z.gcd (n1 * d2) (d1 * n2) = g1 * g2.
Proof.
  intros Hn1 Hd1 Hn2 Hd2 Hc1 Hc2 g1 g2 a b.
  assert (Hg1 : 0 < g1) by (apply gcd_pos_l; lia).
  assert (Hg2 : 0 < g2) by (apply gcd_pos_l; lia).
  destruct (Z.gcd_divide_l n1 n2) as [n1' En1]. destruct (Z.gcd_divide_r n1 n2) as [n2' En2].
  destruct (Z.gcd_divide_l d2 d1) as [d2' Ed2]. destruct (Z.gcd_divide_r d2 d1) as [d1' Ed1].
  fold g1 in En1, En2. fold g2 in Ed1, Ed2.
  assert (Q1 : n1 / g1 = n1') by (rewrite En1 at 1; apply Z.div_mul; lia).
  assert (Q2 : n2 / g1 = n2') by (rewrite En2 at 1; apply Z.div_mul; lia).
  assert (Q3 : d1 / g2 = d1') by (rewrite Ed1 at 1; apply Z.div_mul; lia).
  assert (Q4 : d2 / g2 = d2') by (rewrite Ed2 at 1; apply Z.div_mul; lia).
  assert (P1 : 0 < n1') by nia. assert (P2 : 0 < n2') by nia.
  assert (P3 : 0 < d1') by nia. assert (P4 : 0 < d2') by nia.
  (* pairwise coprimality of the cancelled factors *)
  assert (R12 : rel_prime n1' n2').
  { apply Zgcd_1_rel_prime. rewrite <- Q1, <- Q2. apply Z.gcd_div_gcd; [lia|reflexivity]. }
  assert (R43 : rel_prime d2' d1').
  { apply Zgcd_1_rel_prime. rewrite <- Q4, <- Q3. apply Z.gcd_div_gcd; [lia|reflexivity]. }
  assert (D1 : (n1' | n1)) by (exists g1; lia). assert (D2 : (n2' | n2)) by (exists g1; lia).
  assert (D3 : (d1' | d1)) by (exists g2; lia). assert (D4 : (d2' | d2)) by (exists g2; lia).
  apply Zgcd_1_rel_prime in Hc1, Hc2.
  assert (R13 : rel_prime n1' d1').
  { apply rel_prime_sym. eapply rel_prime_div; [|exact D3]. apply rel_prime_sym.
    eapply rel_prime_div; [exact Hc1|exact D1]. }
  assert (R42 : rel_prime d2' n2').
  { eapply rel_prime_div; [|exact D4]. apply rel_prime_sym.
    eapply rel_prime_div; [exact Hc2|exact D2]. }
  assert (Rab : rel_prime (n1' * d2') (d1' * n2')).
  { apply rel_prime_sym. apply rel_prime_mult; apply rel_prime_sym; apply rel_prime_mult; assumption. }
  apply Zgcd_1_rel_prime in Rab.
  unfold a, b. rewrite Q1, Q2, Q3, Q4.
  assert (EA : n1 * d2 = n1' * d2' * (g1 * g2)) by (rewrite En1, Ed2; ring).
  assert (EB : d1 * n2 = d1' * n2' * (g1 * g2)) by (rewrite Ed1, En2; ring).
  repeat split; try assumption.
  rewrite EA, EB. rewrite Z.gcd_mul_mono_r_nonneg by nia. rewrite Rab. ring.
Qed.

(* ratio_divide yields the conversion factor in lowest terms whenever that is representable *)
Lemma ratio_divide_m_spec n1 d1 n2 d2 :
  period_ok n1 d1 = true -> period_ok n2 d2 = true ->
  factor_num n1 d1 n2 d2 <= max64 -> factor_den n1 d1 n2 d2 <= max64 ->
  ratio_divide_m (n1, d1) (n2, d2) = Val (factor_num n1 d1 n2 d2, factor_den n1 d1 n2 d2).
Proof.
  unfold period_ok, lim64, factor_num, factor_den. intros H1 H2 Ha Hb.
  assert (Hn1 : 0 < n1 <= max64) by (unfold max64; lia). assert (Hd1 : 0 < d1 <= max64) by (unfold max64; lia).
  assert (Hn2 : 0 < n2 <= max64) by (unfold max64; lia). assert (Hd2 : 0 < d2 <= max64) by (unfold max64; lia).
  destruct (cross_cancel n1 d1 n2 d2) as (Hg1 & Hg2 & P1 & P4 & P3 & P2 & EA & EB & Hab & EG); try lia.
  rewrite EG in *.
  assert (Hk : 0 < Z.gcd n1 n2 * Z.gcd d2 d1) by (apply Z.mul_pos_pos; assumption).
  rewrite EA in Ha |- *. rewrite EB in Hb |- *. rewrite !Z.div_mul in * by lia.
  unfold ratio_divide_m. cbn [fst snd].
  destruct (n2 =? 0) eqn:E0; [lia|].
  rewrite !gcd_m_spec by lia. cbn [bind].
  destruct ((Z.gcd n1 n2 =? 0) || (Z.gcd d2 d1 =? 0)) eqn:Eg; [lia|].
  rewrite !Z.quot_div_nonneg by lia.
  set (a := n1 / Z.gcd n1 n2 * (d2 / Z.gcd d2 d1)) in *.
  set (b := d1 / Z.gcd d2 d1 * (n2 / Z.gcd n1 n2)) in *.
  assert (Ha0 : 0 < a) by (unfold a; apply Z.mul_pos_pos; assumption).
  assert (Hb0 : 0 < b) by (unfold b; apply Z.mul_pos_pos; assumption).
  rewrite !cx64_ok by (unfold min64; lia). cbn [bind].
  apply ratio_m_normal. unfold period_ok, lim64. unfold max64 in *. lia.
Qed.

Lemma factor_facts n1 d1 n2 d2 : 0 < n1 * d2 -> 0 < d1 * n2 ->
  let cn := factor_num n1 d1 n2 d2 in let cd := factor_den n1 d1 n2 d2 in
  let g := Z.gcd (n1 * d2) (d1 * n2) in
  0 < g /\ n1 * d2 = cn * g /\ d1 * n2 = cd * g /\ 0 < cn /\ 0 < cd.
Proof. intros Ha Hb. apply reduce_facts; assumption. Qed.


(** * detail::period_quotient (duration.hpp): representability and integrality of the factor *)
Lemma le_div_iff q a b : 0 < b -> q <= a / b <-> q * b <= a.
Proof.
  intros Hb. split; intros H.
  - pose proof (Z.mul_div_le a b Hb). nia.
  - apply Z.div_le_lower_bound; lia.
Qed.

Lemma mul_eq_1_pos a b : 0 < a -> 0 < b -> (a * b = 1 <-> a = 1 /\ b = 1).
Proof. intros Ha Hb. split; nia. Qed.

Lemma period_quotient_integral_m_spec w1 n1 d1 w2 n2 d2 :
  period_ok n1 d1 = true -> period_ok n2 d2 = true ->
  period_quotient_integral_m (Build_dty w1 n1 d1) (Build_dty w2 n2 d2)
  = Val ((factor_num n1 d1 n2 d2 <=? max64) && (factor_den n1 d1 n2 d2 =? 1)).
Proof.
  unfold period_ok, lim64, factor_num, factor_den. intros H1 H2.
  assert (Hn1 : 0 < n1 <= max64) by (unfold max64; lia). assert (Hd1 : 0 < d1 <= max64) by (unfold max64; lia).
  assert (Hn2 : 0 < n2 <= max64) by (unfold max64; lia). assert (Hd2 : 0 < d2 <= max64) by (unfold max64; lia).
  destruct (cross_cancel n1 d1 n2 d2) as (Hg1 & Hg2 & P1 & P4 & P3 & P2 & EA & EB & Hab & EG); try lia.
  rewrite EG.
  assert (Hk : 0 < Z.gcd n1 n2 * Z.gcd d2 d1) by (apply Z.mul_pos_pos; assumption).
  rewrite EA at 1. rewrite EB at 1. rewrite !Z.div_mul by lia.
  unfold period_quotient_integral_m. cbn [pn pd].
  rewrite !gcd_m_spec by lia. cbn [bind].
  rewrite (Z.gcd_comm d1 d2).
  set (g1 := Z.gcd n1 n2) in *. set (g2 := Z.gcd d2 d1) in *.
  destruct ((g1 =? 0) || (g2 =? 0)) eqn:Eg; [lia|].
  rewrite !Z.quot_div_nonneg by (unfold max64; lia).
  set (q1 := n1 / g1) in *. set (q2 := d2 / g2) in *. set (e1 := d1 / g2) in *. set (e2 := n2 / g1) in *.
  destruct ((q2 =? 0) || (e2 =? 0)) eqn:Ez; [lia|].
  f_equal. apply Bool.eq_iff_eq_true.
  rewrite !Bool.andb_true_iff, !Z.leb_le, !Z.eqb_eq.
  rewrite (le_div_iff q1 max64 q2) by lia. rewrite (le_div_iff e1 max64 e2) by lia.
  rewrite (mul_eq_1_pos e1 e2) by lia. unfold max64. intuition lia.
Qed.
