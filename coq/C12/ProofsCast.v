(* C12 proofs, part 2: duration_cast = truncation toward zero of the exact quotient. *)
From Tetl Require Import Lib.Base C12.Model C12.Spec C12.ProofsArith.
From Coq Require Import ZifyBool.
Local Open Scope Z_scope.
Ltac Zify.zify_post_hook ::= Z.to_euclidean_division_equations.

(* the type duration<Rep (w bits), ratio<n, d>> with n/d in lowest terms *)
Notation Dur := Build_dty.

Lemma fits64_iff x : fits 64 x = true <-> min64 <= x <= max64.
Proof. unfold fits, min64, max64. change (64 =? 32) with false. cbv iota. lia. Qed.

Lemma fits64_in64 x : fits 64 x = in64 x.
Proof. reflexivity. Qed.

Lemma div_rep_pos w a b : 0 < b -> div_rep w a b = Val (Z.quot a b).
Proof.
  intros Hb. unfold div_rep. destruct (b =? 0) eqn:E0; [lia|].
  destruct (b =? -1) eqn:E1; [lia|]. rewrite Bool.andb_false_r.
  destruct (b =? 1) eqn:E2; [|reflexivity].
  apply Z.eqb_eq in E2. subst b. rewrite Z.quot_1_r. reflexivity.
Qed.

Lemma period_ok_iff n d : period_ok n d = true <-> 0 < n <= max64 /\ 0 < d <= max64 /\ Z.gcd n d = 1.
Proof. unfold period_ok, lim64, max64. lia. Qed.

(* the reduced conversion factor cn/cd = (n1*d2)/(d1*n2) *)
Lemma cast_reduced n1 d1 n2 d2 c :
  0 < n1 * d2 -> 0 < d1 * n2 ->
  cast_spec n1 d1 n2 d2 c = Z.quot (c * factor_num n1 d1 n2 d2) (factor_den n1 d1 n2 d2).
Proof.
  intros Ha Hb. destruct (factor_facts _ _ _ _ Ha Hb) as (Hg & Ea & Eb & Hcn & Hcd).
  unfold cast_spec.
  set (cn := factor_num n1 d1 n2 d2) in *. set (cd := factor_den n1 d1 n2 d2) in *.
  set (g := Z.gcd (n1 * d2) (d1 * n2)) in *.
  replace (c * n1 * d2) with (c * cn * g) by (rewrite <- (Z.mul_assoc c cn g), <- Ea; ring).
  replace (d1 * n2) with (cd * g) by (symmetry; exact Eb).
  apply Z.quot_mul_cancel_r; lia.
Qed.

Lemma cast_ok_iff w1 n1 d1 w2 n2 d2 c :
  cast_ok w1 n1 d1 w2 n2 d2 c = true <->
  factor_num n1 d1 n2 d2 <= max64 /\ factor_den n1 d1 n2 d2 <= max64
  /\ in_rep w1 c = true /\ in64 (c * factor_num n1 d1 n2 d2) = true
  /\ in_rep w2 (cast_spec n1 d1 n2 d2 c) = true.
Proof.
  unfold cast_ok. cbv zeta. rewrite !Bool.andb_true_iff, !Z.leb_le, !fits_in_rep.
  unfold lim64, max64. change (in_rep 64) with in64. tauto.
Qed.

Lemma duration_cast_spec w1 n1 d1 w2 n2 d2 c :
  rep_ok w1 = true -> rep_ok w2 = true ->
  period_ok n1 d1 = true -> period_ok n2 d2 = true ->
  cast_ok w1 n1 d1 w2 n2 d2 c = true ->
  duration_cast_m (Dur w1 n1 d1) (Dur w2 n2 d2) c = Val (cast_spec n1 d1 n2 d2 c).
Proof.
  intros Hw1 Hw2 Hp1 Hp2 Hok.
  pose proof (proj1 (period_ok_iff _ _) Hp1) as (Hn1 & Hd1 & Hg1).
  pose proof (proj1 (period_ok_iff _ _) Hp2) as (Hn2 & Hd2 & Hg2).
  apply cast_ok_iff in Hok. destruct Hok as (Ha & Hb & Hc & Hm & Hr).
  assert (Ha0 : 0 < n1 * d2) by nia. assert (Hb0 : 0 < d1 * n2) by nia.
  unfold duration_cast_m. cbn [rw pn pd]. cbv zeta.
  rewrite ratio_divide_m_spec by assumption.
  cbn [bind fst snd].
  rewrite (cast_reduced n1 d1 n2 d2 c Ha0 Hb0) in *.
  destruct (factor_facts _ _ _ _ Ha0 Hb0) as (Hg & Ea & Eb & Hcn & Hcd).
  set (cn := factor_num n1 d1 n2 d2) in *. set (cd := factor_den n1 d1 n2 d2) in *.
  destruct (cn =? 1) eqn:Ecn.
  - apply Z.eqb_eq in Ecn. rewrite Ecn in *. rewrite Z.mul_1_r in *.
    destruct (cd =? 1) eqn:Ecd.
    + apply Z.eqb_eq in Ecd. rewrite Ecd in *. rewrite Z.quot_1_r in *. cbn [bind].
      rewrite wrap_rep_id by assumption. reflexivity.
    + rewrite div_rep_pos by lia. cbn [bind]. rewrite wrap_rep_id by assumption. reflexivity.
  - destruct (cd =? 1) eqn:Ecd.
    + apply Z.eqb_eq in Ecd. rewrite Ecd in *. rewrite Z.quot_1_r in *.
      rewrite ck64_ok by assumption. cbn [bind]. rewrite wrap_rep_id by assumption. reflexivity.
    + rewrite ck64_ok by assumption. cbn [bind]. rewrite div_rep_pos by lia. cbn [bind].
      rewrite wrap_rep_id by assumption. reflexivity.
Qed.
