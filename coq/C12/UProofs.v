(* C12 proofs, part U: duration / time_point arithmetic on every standard integer representation
   (UModel.v against Spec.v / USpec.v): common representation, exact conversion to the common type,
   + - / % comparisons, scalar and member operators, duration_cast; modular behaviour of unsigned and
   narrower-than-int representations; the signed 32/64-bit case of Model.v as a special case. *)
From Tetl Require Import Lib.Base C12.Model C12.Spec C12.UModel C12.USpec C12.ProofsArith C12.ProofsCast C12.ProofsCommon C12.ProofsRound C12.ProofsScalar.
From Coq Require Import ZifyBool Znumtheory.
Local Open Scope Z_scope.
Ltac Zify.zify_post_hook ::= Z.to_euclidean_division_equations.

Lemma urep_cases r : urep_ok r = true ->
  r = 8 \/ r = 16 \/ r = 32 \/ r = 64 \/ r = -8 \/ r = -16 \/ r = -32 \/ r = -64.
Proof. unfold urep_ok. cbn [existsb]. lia. Qed.

Ltac rcases H := apply urep_cases in H; destruct H as [H|[H|[H|[H|[H|[H|[H|H]]]]]]]; subst.

Lemma urep_rty r : urep_ok r = true -> rty_ok r = true.
Proof. intros H; rcases H; reflexivity. Qed.

Lemma ufits_in_rty r x : urep_ok r = true -> ufits r x = in_rty r x.
Proof. intros H; rcases H; reflexivity. Qed.

Lemma common_rep_spec r1 r2 : urep_ok r1 = true -> urep_ok r2 = true ->
  common_rep r1 r2 = crep_spec r1 r2 /\ urep_ok (crep_spec r1 r2) = true.
Proof. intros H1 H2; rcases H1; rcases H2; split; reflexivity. Qed.

Lemma rty_cases r : rty_ok r = true ->
  r = 8 \/ r = 16 \/ r = 32 \/ r = 64 \/ r = -8 \/ r = -16 \/ r = -32 \/ r = -64.
Proof. unfold rty_ok. lia. Qed.
Ltac tcases H := apply rty_cases in H; destruct H as [H|[H|[H|[H|[H|[H|[H|H]]]]]]]; subst.

(** * ranges *)
Definition rsup (r t : Z) : bool := (rmin t <=? rmin r) && (rmax r <=? rmax t).
Lemma in_rty_sup r t x : rsup r t = true -> in_rty r x = true -> in_rty t x = true.
Proof. unfold rsup, in_rty. lia. Qed.
Lemma in_rty_iff r x : in_rty r x = true <-> rmin r <= x <= rmax r.
Proof. unfold in_rty. lia. Qed.

Lemma rty_facts r : rty_ok r = true ->
  rmin r <= 0 /\ 1 <= rmax r /\ (rsigned r = true -> rmin r = - rmax r - 1) /\ (rsigned r = false -> rmin r = 0).
Proof. intros H; tcases H; vm_compute; repeat split; intros; congruence. Qed.

Lemma cvt_id r x : in_rty r x = true -> cvt r x = x.
Proof. unfold cvt. intros ->. reflexivity. Qed.

Lemma ar_ok t v : in_rty t v = true -> ar t v = Val v.
Proof. intros H. unfold ar. rewrite H. destruct (rsigned t); [reflexivity|]. rewrite cvt_id by assumption. reflexivity. Qed.

(** * one binary operation whose operands and exact result are representable in the computation type *)
Lemma bin_add_ok ra rb t x y : uac ra rb = t ->
  in_rty t x = true -> in_rty t y = true -> in_rty t (x + y) = true -> bin_add ra rb x y = Val (x + y).
Proof. intros <- Hx Hy Hs. unfold bin_add. cbv zeta. rewrite !cvt_id by assumption. apply ar_ok; assumption. Qed.
Lemma bin_sub_ok ra rb t x y : uac ra rb = t ->
  in_rty t x = true -> in_rty t y = true -> in_rty t (x - y) = true -> bin_sub ra rb x y = Val (x - y).
Proof. intros <- Hx Hy Hs. unfold bin_sub. cbv zeta. rewrite !cvt_id by assumption. apply ar_ok; assumption. Qed.
Lemma bin_mul_ok ra rb t x y : uac ra rb = t ->
  in_rty t x = true -> in_rty t y = true -> in_rty t (x * y) = true -> bin_mul ra rb x y = Val (x * y).
Proof. intros <- Hx Hy Hs. unfold bin_mul. cbv zeta. rewrite !cvt_id by assumption. apply ar_ok; assumption. Qed.

Lemma bin_div_rem_ok ra rb t x y : uac ra rb = t -> rty_ok t = true ->
  in_rty t x = true -> in_rty t y = true -> y <> 0 -> in_rty t (Z.quot x y) = true ->
  bin_div ra rb x y = Val (Z.quot x y) /\ bin_rem ra rb x y = Val (Z.rem x y).
Proof.
  intros <- Ht Hx Hy Hy0 Hq. unfold bin_div, bin_rem. cbv zeta. rewrite !cvt_id by assumption.
  destruct (y =? 0) eqn:E0; [lia|].
  set (t := uac ra rb) in *.
  destruct (rsigned t && (x =? rmin t) && (y =? -1)) eqn:Em.
  - exfalso. apply Bool.andb_true_iff in Em. destruct Em as [Em E2]. apply Bool.andb_true_iff in Em.
    destruct Em as [Es E1]. apply Z.eqb_eq in E1, E2. subst x y.
    destruct (rty_facts t Ht) as (_ & _ & F & _). specialize (F Es).
    apply in_rty_iff in Hq. rewrite F in Hq. change (-1) with (- (1)) in Hq. rewrite Z.quot_opp_r, Z.quot_1_r in Hq by lia. lia.
  - split; [|reflexivity]. destruct (y =? 1) eqn:E1; [|reflexivity].
    apply Z.eqb_eq in E1. rewrite E1, Z.quot_1_r. reflexivity.
Qed.

Lemma bin_div_one ra rb t x : uac ra rb = t -> rty_ok t = true -> in_rty t x = true -> bin_div ra rb x 1 = Val x.
Proof.
  intros E Ht Hx. destruct (rty_facts t Ht) as (F1 & F2 & _ & _).
  destruct (bin_div_rem_ok ra rb t x 1 E Ht Hx) as [Ed _].
  - apply in_rty_iff. lia.
  - lia.
  - rewrite Z.quot_1_r. exact Hx.
  - rewrite Ed, Z.quot_1_r. reflexivity.
Qed.

(** * facts on the conversion lattice, each by enumeration of the 8 (x 8) types *)
Lemma cr3_val rt ra : rty_ok rt = true -> rty_ok ra = true ->
  cr3 rt ra = if (rt =? -64) || (ra =? -64) then -64 else 64.
Proof. intros H1 H2; tcases H1; tcases H2; reflexivity. Qed.

Lemma common_rep_u64 r1 r2 : rty_ok r1 = true -> rty_ok r2 = true ->
  (common_rep r1 r2 =? -64) = (r1 =? -64) || (r2 =? -64).
Proof. intros H1 H2; tcases H1; tcases H2; reflexivity. Qed.

Lemma common_rep_ok r1 r2 : rty_ok r1 = true -> rty_ok r2 = true -> rty_ok (common_rep r1 r2) = true.
Proof. intros H1 H2; tcases H1; tcases H2; reflexivity. Qed.

Lemma common_rep_comm r1 r2 : rty_ok r1 = true -> rty_ok r2 = true -> common_rep r2 r1 = common_rep r1 r2.
Proof. intros H1 H2; tcases H1; tcases H2; reflexivity. Qed.

(* the type in which two counts of the common representation are combined contains it *)
Lemma uac_self_sup r : rty_ok r = true -> rsup r (uac r r) = true /\ rty_ok (uac r r) = true.
Proof. intros H; tcases H; split; reflexivity. Qed.
(* ... and so does the type of (count of the common representation) op (scalar of the second type) *)
Lemma uac_scalar_sup r1 rs : rty_ok r1 = true -> rty_ok rs = true ->
  rsup (common_rep r1 rs) (uac (common_rep r1 rs) rs) = true /\ rty_ok (uac (common_rep r1 rs) rs) = true.
Proof. intros H1 H2; tcases H1; tcases H2; split; reflexivity. Qed.
(* ++ / -- : the type of _rep + 1 *)
Lemma uac_int_sup r : rty_ok r = true -> rsup r (uac r 32) = true /\ rty_ok (uac r 32) = true /\ in_rty (uac r 32) 1 = true.
Proof. intros H; tcases H; repeat split; reflexivity. Qed.
Lemma promote_sup r : rty_ok r = true -> rsup r (promote r) = true /\ rty_ok (promote r) = true.
Proof. intros H; tcases H; split; reflexivity. Qed.

Lemma in_rty_64 r x : rty_ok r = true -> r <> -64 -> in_rty r x = true -> in_rty 64 x = true.
Proof.
  intros H Hn; tcases H; try congruence;
  cbv [in_rty rmin rmax Z.eqb Pos.eqb min32 max32 min64 max64]; lia.
Qed.

(** * common_type of two durations *)
Lemma ucommon_m_spec r1 n1 d1 r2 n2 d2 :
  period_ok n1 d1 = true -> period_ok n2 d2 = true -> cden d1 d2 <= max64 ->
  ucommon_m (Dur r1 n1 d1) (Dur r2 n2 d2) = Val (Dur (common_rep r1 r2) (cnum n1 n2) (cden d1 d2)).
Proof.
  intros Hp1 Hp2 Hl. unfold ucommon_m. rewrite common_m_spec by assumption. reflexivity.
Qed.

(** * the converting constructor into a type whose period divides the source period: exact whenever the
      count and the converted count are representable; the computation type is unsigned long when the
      target (or the source) is, and then a negative count would wrap: excluded by the hypotheses *)
Lemma uconv_exact ra n d rt g l c :
  rty_ok ra = true -> rty_ok rt = true -> (ra = -64 -> rt = -64) ->
  period_ok n d = true -> period_ok g l = true -> (g | n) -> (d | l) -> ticks n d g l <= max64 ->
  in_rty ra c = true -> in_rty rt (c * ticks n d g l) = true ->
  uconv_m (Dur ra n d) (Dur rt g l) c = Val (c * ticks n d g l).
Proof.
  intros Hra Hrt Hu Hp Hpt Hgn Hdl Htk Hc Hfit.
  pose proof (proj1 (period_ok_iff _ _) Hp) as (Hn & Hd & Hcp).
  pose proof (proj1 (period_ok_iff _ _) Hpt) as (Hg & Hl & Hcc).
  destruct (ticks_facts n d g l ltac:(lia) ltac:(lia) ltac:(lia) ltac:(lia) Hgn Hdl) as (Et & Htp & Hdiv).
  unfold uconv_m. cbv zeta.
  destruct (same_ty (Dur ra n d) (Dur rt g l)) eqn:Es.
  - apply same_ty_iff in Es. injection Es as -> -> ->.
    assert (E1 : ticks g l g l = 1) by nia. rewrite E1, Z.mul_1_r. reflexivity.
  - cbn [pn pd rw].
    assert (Hb : d * g <= n * l) by (apply Z.divide_pos_le; [nia|exact Hdiv]).
    assert (EG : Z.gcd (n * l) (d * g) = d * g).
    { rewrite Z.gcd_comm. apply Z.divide_gcd_iff; [nia|exact Hdiv]. }
    assert (Efn : factor_num n d g l = ticks n d g l) by (unfold factor_num, ticks; rewrite EG; reflexivity).
    assert (Efd : factor_den n d g l = 1) by (unfold factor_den; rewrite EG; apply Z.div_same; nia).
    rewrite period_quotient_integral_m_spec by assumption.
    rewrite ratio_divide_m_spec by (try assumption; rewrite ?Efn, ?Efd; unfold max64 in *; lia).
    rewrite Efn, Efd. cbn [bind fst snd].
    replace (ticks n d g l <=? max64) with true by lia. cbn [andb Z.eqb Pos.eqb negb].
    set (tk := ticks n d g l) in *.
    rewrite cr3_val by assumption.
    destruct ((rt =? -64) || (ra =? -64)) eqn:E64.
    + (* computation in unsigned long *)
      assert (Ert : rt = -64) by (destruct (rt =? -64) eqn:E; [lia|apply Hu; lia]).
      subst rt. apply in_rty_iff in Hfit. change (rmin (-64)) with 0 in Hfit.
      change (rmax (-64)) with 18446744073709551615 in Hfit.
      assert (Hc0 : 0 <= c) by nia.
      assert (Hcu : in_rty (-64) c = true) by (apply in_rty_iff; change (rmin (-64)) with 0; change (rmax (-64)) with 18446744073709551615; nia).
      assert (Htu : in_rty (-64) tk = true) by (apply in_rty_iff; change (rmin (-64)) with 0; change (rmax (-64)) with 18446744073709551615; unfold max64 in *; lia).
      assert (Hpu : in_rty (-64) (c * tk) = true) by (apply in_rty_iff; exact Hfit).
      rewrite (cvt_id (-64) c) by assumption.
      rewrite (bin_mul_ok (-64) 64 (-64)) by (try reflexivity; assumption). cbn [bind].
      rewrite (bin_div_one (uac (-64) 64) 64 (-64)) by (try reflexivity; assumption).
      cbn [bind]. rewrite cvt_id by assumption. reflexivity.
    + (* computation in intmax_t *)
      assert (Hrt64 : rt <> -64) by lia. assert (Hra64 : ra <> -64) by lia.
      assert (Hc64 : in_rty 64 c = true) by (apply (in_rty_64 ra); assumption).
      assert (Hp64 : in_rty 64 (c * tk) = true) by (apply (in_rty_64 rt); assumption).
      assert (Ht64 : in_rty 64 tk = true) by (apply in_rty_iff; change (rmin 64) with min64; change (rmax 64) with max64; unfold min64, max64 in *; lia).
      rewrite (cvt_id 64 c) by assumption.
      rewrite (bin_mul_ok 64 64 64) by (try reflexivity; assumption). cbn [bind].
      rewrite (bin_div_one (uac 64 64) 64 64) by (try reflexivity; assumption).
      cbn [bind]. rewrite cvt_id by assumption. reflexivity.
Qed.

(** * CD(lhs).count(), CD(rhs).count() *)
Lemma uboth_ok_iff r1 n1 d1 r2 n2 d2 c1 c2 : urep_ok r1 = true -> urep_ok r2 = true ->
  uboth_ok r1 n1 d1 r2 n2 d2 c1 c2 = true <->
  common_ok n1 d1 n2 d2 = true /\ in_rty r1 c1 = true /\ in_rty r2 c2 = true
  /\ in_rty (common_rep r1 r2) (c1 * tk1 n1 d1 n2 d2) = true
  /\ in_rty (common_rep r1 r2) (c2 * tk2 n1 d1 n2 d2) = true.
Proof.
  intros H1 H2. destruct (common_rep_spec r1 r2 H1 H2) as [E Hc].
  unfold uboth_ok. cbv zeta. rewrite in_common_l, in_common_r, <- E.
  rewrite !ufits_in_rty by (try assumption; rewrite E; assumption).
  rewrite !Bool.andb_true_iff. tauto.
Qed.

Lemma uto_common_m_spec r1 n1 d1 r2 n2 d2 c1 c2 :
  urep_ok r1 = true -> urep_ok r2 = true ->
  period_ok n1 d1 = true -> period_ok n2 d2 = true ->
  uboth_ok r1 n1 d1 r2 n2 d2 c1 c2 = true ->
  uto_common_m (Dur r1 n1 d1) (Dur r2 n2 d2) c1 c2
  = Val (Dur (common_rep r1 r2) (cnum n1 n2) (cden d1 d2), c1 * tk1 n1 d1 n2 d2, c2 * tk2 n1 d1 n2 d2).
Proof.
  intros Hr1 Hr2 Hp1 Hp2 Hok.
  apply uboth_ok_iff in Hok; try assumption. destruct Hok as (Hco & Hc1 & Hc2 & Hx & Hy).
  apply common_ok_iff in Hco. destruct Hco as (Hl & Hnl1 & Hnl2).
  pose proof (common_period_ok _ _ _ _ Hp1 Hp2 Hl) as Hpc.
  destruct (tk_facts n1 d1 n2 d2 Hp1 Hp2) as (Hg & Hl0 & D1 & D2 & D3 & D4 & _).
  pose proof (urep_rty _ Hr1) as Ht1. pose proof (urep_rty _ Hr2) as Ht2.
  pose proof (common_rep_ok _ _ Ht1 Ht2) as Htc.
  pose proof (common_rep_u64 _ _ Ht1 Ht2) as E64.
  unfold uto_common_m. cbv zeta.
  rewrite ucommon_m_spec by assumption. cbn [bind].
  rewrite (uconv_exact r1 n1 d1) by (try assumption; intros ->; lia).
  cbn [bind].
  rewrite (uconv_exact r2 n2 d2) by (try assumption; intros ->; lia).
  reflexivity.
Qed.

(** * the operators: complete description once both counts convert to the common type *)
Section UBinOps.
  Variables r1 n1 d1 r2 n2 d2 : Z.
  Hypothesis Hr1 : urep_ok r1 = true.
  Hypothesis Hr2 : urep_ok r2 = true.
  Hypothesis Hp1 : period_ok n1 d1 = true.
  Hypothesis Hp2 : period_ok n2 d2 = true.
  Let a := Dur r1 n1 d1.
  Let b := Dur r2 n2 d2.
  Let rc := common_rep r1 r2.
  Variables c1 c2 : Z.
  Hypothesis Hb : uboth_ok r1 n1 d1 r2 n2 d2 c1 c2 = true.
  Let x := c1 * tk1 n1 d1 n2 d2.
  Let y := c2 * tk2 n1 d1 n2 d2.

  Lemma rc_ok : rty_ok rc = true.
  Proof. apply common_rep_ok; apply urep_rty; assumption. Qed.
  Lemma xy_in : in_rty rc x = true /\ in_rty rc y = true.
  Proof. apply uboth_ok_iff in Hb; try assumption. tauto. Qed.
  Lemma xy_in_t : in_rty (uac rc rc) x = true /\ in_rty (uac rc rc) y = true.
  Proof.
    destruct xy_in as [Hx Hy]. destruct (uac_self_sup rc rc_ok) as [Hs _].
    split; eapply in_rty_sup; eassumption.
  Qed.

  (* + and -: formed in the promoted common representation (signed: overflow is undefined behaviour,
     unsigned: modulo 2^bits), then converted back to the common representation *)
  Lemma uplus_m_total :
    uadd_m a b c1 c2 = (do s <- ar (uac rc rc) (x + y); Val (cvt rc s)).
  Proof.
    unfold uadd_m, a, b. cbv zeta. rewrite uto_common_m_spec by assumption. cbn [bind rw].
    destruct xy_in_t as [Hx Hy]. unfold bin_add. cbv zeta. fold rc x y. rewrite !cvt_id by assumption. reflexivity.
  Qed.
  Lemma uminus_m_total :
    usub_m a b c1 c2 = (do s <- ar (uac rc rc) (x - y); Val (cvt rc s)).
  Proof.
    unfold usub_m, a, b. cbv zeta. rewrite uto_common_m_spec by assumption. cbn [bind rw].
    destruct xy_in_t as [Hx Hy]. unfold bin_sub. cbv zeta. fold rc x y. rewrite !cvt_id by assumption. reflexivity.
  Qed.

  Lemma xy_spec : x = in_common n1 d1 n2 d2 c1 /\ y = in_common n2 d2 n1 d1 c2.
  Proof. rewrite in_common_l, in_common_r. split; reflexivity. Qed.

  Lemma uplus_m_spec : uplus_ok r1 n1 d1 r2 n2 d2 c1 c2 = true ->
    uadd_m a b c1 c2 = Val (plus_spec n1 d1 n2 d2 c1 c2).
  Proof.
    destruct (common_rep_spec r1 r2 Hr1 Hr2) as [E Hc].
    unfold uplus_ok. cbv zeta. rewrite Bool.andb_true_iff, <- E, ufits_in_rty by (rewrite E; assumption).
    intros [_ Hf]. rewrite uplus_m_total. unfold plus_spec in *. cbv zeta in *.
    destruct xy_spec as [Ex Ey]. rewrite <- Ex, <- Ey in Hf |- *. fold rc in Hf.
    destruct (uac_self_sup rc rc_ok) as [Hs _].
    rewrite ar_ok by (eapply in_rty_sup; eassumption). cbn [bind]. rewrite cvt_id by assumption. reflexivity.
  Qed.
  Lemma uminus_m_spec : uminus_ok r1 n1 d1 r2 n2 d2 c1 c2 = true ->
    usub_m a b c1 c2 = Val (minus_spec n1 d1 n2 d2 c1 c2).
  Proof.
    destruct (common_rep_spec r1 r2 Hr1 Hr2) as [E Hc].
    unfold uminus_ok. cbv zeta. rewrite Bool.andb_true_iff, <- E, ufits_in_rty by (rewrite E; assumption).
    intros [_ Hf]. rewrite uminus_m_total. unfold minus_spec in *. cbv zeta in *.
    destruct xy_spec as [Ex Ey]. rewrite <- Ex, <- Ey in Hf |- *. fold rc in Hf.
    destruct (uac_self_sup rc rc_ok) as [Hs _].
    rewrite ar_ok by (eapply in_rty_sup; eassumption). cbn [bind]. rewrite cvt_id by assumption. reflexivity.
  Qed.

  (* comparisons: the two counts of the common representation, compared after promotion (value preserving) *)
  Lemma ueq_m_spec : ueq_m a b c1 c2 = Val (eq_spec n1 d1 n2 d2 c1 c2).
  Proof.
    unfold ueq_m, a, b. cbv zeta. rewrite uto_common_m_spec by assumption. cbn [bind rw].
    destruct xy_in_t as [Hx Hy]. unfold bin_eq. cbv zeta. fold rc x y. rewrite !cvt_id by assumption.
    destruct (scaled_values n1 d1 n2 d2 c1 c2 Hp1 Hp2) as (K & l & HK & Hl & Ex & Ey).
    unfold eq_spec. f_equal. exact (scaled_eq _ _ _ _ K l HK Hl Ex Ey).
  Qed.
  Lemma ult_m_spec : ult_m a b c1 c2 = Val (lt_spec n1 d1 n2 d2 c1 c2).
  Proof.
    unfold ult_m, a, b. cbv zeta. rewrite uto_common_m_spec by assumption. cbn [bind rw].
    destruct xy_in_t as [Hx Hy]. unfold bin_lt. cbv zeta. fold rc x y. rewrite !cvt_id by assumption.
    destruct (scaled_values n1 d1 n2 d2 c1 c2 Hp1 Hp2) as (K & l & HK & Hl & Ex & Ey).
    unfold lt_spec. f_equal. exact (scaled_lt _ _ _ _ K l HK Hl Ex Ey).
  Qed.

  (* / and %: exact whenever the divisor is not zero and the quotient is representable *)
  Lemma udiv_mod_m_spec : udiv_ok r1 n1 d1 r2 n2 d2 c1 c2 = true ->
    udiv_m a b c1 c2 = Val (div_spec n1 d1 n2 d2 c1 c2) /\ umod_m a b c1 c2 = Val (mod_spec n1 d1 n2 d2 c1 c2).
  Proof.
    destruct (common_rep_spec r1 r2 Hr1 Hr2) as [E Hc].
    unfold udiv_ok. cbv zeta. rewrite !Bool.andb_true_iff, <- E, ufits_in_rty by (rewrite E; assumption).
    fold rc. intros [[_ Hnz] Hf].
    unfold udiv_m, umod_m, a, b. cbv zeta. rewrite uto_common_m_spec by assumption. cbn [bind rw].
    fold rc x y.
    destruct (scaled_values n1 d1 n2 d2 c1 c2 Hp1 Hp2) as (K & l & HK & Hl & Ex & Ey).
    destruct (tk_facts n1 d1 n2 d2 Hp1 Hp2) as (_ & _ & _ & _ & _ & _ & _ & _ & _ & Ht2).
    assert (Hy0 : y <> 0) by (unfold y; nia).
    assert (Eq : Z.quot x y = div_spec n1 d1 n2 d2 c1 c2).
    { unfold div_spec. exact (scaled_quot _ _ _ _ K l HK Hl Ex Ey Hy0). }
    destruct xy_in_t as [Hx Hy]. destruct xy_in as [Hxc Hyc].
    destruct (uac_self_sup rc rc_ok) as [Hs Hto].
    destruct (bin_div_rem_ok rc rc (uac rc rc) x y eq_refl Hto Hx Hy Hy0) as [Ed Er].
    { eapply in_rty_sup; [exact Hs|]. rewrite Eq. exact Hf. }
    rewrite Ed, Er. cbn [bind]. split.
    - rewrite Eq. rewrite cvt_id by assumption. reflexivity.
    - unfold mod_spec. cbv zeta. destruct xy_spec as [<- <-].
      rewrite cvt_id; [reflexivity|].
      (* the remainder lies between 0 and the dividend *)
      apply in_rty_iff. apply in_rty_iff in Hxc. destruct (rty_facts rc rc_ok) as (F1 & F2 & _ & _).
      pose proof (Z.rem_bound_pos_pos). 
      destruct (Z_le_gt_dec 0 x) as [Hx0|Hx0].
      + pose proof (Z.rem_nonneg x y Hy0 Hx0). pose proof (Z.rem_le x (Z.abs y) Hx0 ltac:(lia)).
        rewrite Z.rem_abs_r in H1 by lia. lia.
      + pose proof (Z.rem_nonpos x y Hy0 ltac:(lia)).
        assert (x <= Z.rem x y).
        { rewrite <- (Z.opp_involutive x) at 2. rewrite Z.rem_opp_l by lia.
          pose proof (Z.rem_le (- x) (Z.abs y) ltac:(lia) ltac:(lia)). rewrite Z.rem_abs_r in H1 by lia. lia. }
        lia.
  Qed.
End UBinOps.

(* the four derived comparisons: <= is !(rhs < lhs), > is rhs < lhs, >= is !(lhs < rhs), != is !(==) *)
Lemma uboth_ok_sym r1 n1 d1 r2 n2 d2 c1 c2 : urep_ok r1 = true -> urep_ok r2 = true ->
  uboth_ok r2 n2 d2 r1 n1 d1 c2 c1 = uboth_ok r1 n1 d1 r2 n2 d2 c1 c2.
Proof.
  intros H1 H2. apply Bool.eq_iff_eq_true. rewrite !uboth_ok_iff by assumption.
  rewrite (common_rep_comm r1 r2) by (apply urep_rty; assumption).
  rewrite common_ok_sym. destruct (tk_swap n1 d1 n2 d2) as [-> ->]. tauto.
Qed.

Lemma ucompare_spec r1 n1 d1 r2 n2 d2 c1 c2 :
  urep_ok r1 = true -> urep_ok r2 = true -> period_ok n1 d1 = true -> period_ok n2 d2 = true ->
  uboth_ok r1 n1 d1 r2 n2 d2 c1 c2 = true ->
  let a := Dur r1 n1 d1 in let b := Dur r2 n2 d2 in
  ueq_m a b c1 c2 = Val (eq_spec n1 d1 n2 d2 c1 c2)
  /\ une_m a b c1 c2 = Val (negb (eq_spec n1 d1 n2 d2 c1 c2))
  /\ ult_m a b c1 c2 = Val (lt_spec n1 d1 n2 d2 c1 c2)
  /\ ule_m a b c1 c2 = Val (negb (lt_spec n2 d2 n1 d1 c2 c1))
  /\ ugt_m a b c1 c2 = Val (lt_spec n2 d2 n1 d1 c2 c1)
  /\ uge_m a b c1 c2 = Val (negb (lt_spec n1 d1 n2 d2 c1 c2)).
Proof.
  intros H1 H2 Hp1 Hp2 Hb. cbv zeta.
  assert (Hb' : uboth_ok r2 n2 d2 r1 n1 d1 c2 c1 = true) by (rewrite uboth_ok_sym; assumption).
  unfold une_m, ule_m, ugt_m, uge_m. cbv zeta.
  rewrite (ueq_m_spec r1 n1 d1 r2 n2 d2) by assumption.
  rewrite (ult_m_spec r1 n1 d1 r2 n2 d2) by assumption.
  rewrite (ult_m_spec r2 n2 d2 r1 n1 d1) by assumption.
  cbn [bind]. repeat split; reflexivity.
Qed.

(** * duration op scalar *)
Lemma ufits_crep r1 rs v : urep_ok r1 = true -> urep_ok rs = true ->
  ufits (crep_spec r1 rs) v = in_rty (common_rep r1 rs) v.
Proof.
  intros H1 H2. destruct (common_rep_spec r1 rs H1 H2) as [E Hc]. rewrite <- E in *. apply ufits_in_rty. assumption.
Qed.

Lemma uconv_widen r n d rs c :
  urep_ok r = true -> urep_ok rs = true -> period_ok n d = true ->
  in_rty r c = true -> in_rty (common_rep r rs) c = true ->
  uconv_m (Dur r n d) (uscale_ty (Dur r n d) rs) c = Val c.
Proof.
  intros Hr Hrs Hp Hc Hcc. unfold uscale_ty. cbn [rw pn pd].
  pose proof (proj1 (period_ok_iff _ _) Hp) as (Hn & Hd & Hg).
  pose proof (ticks_self n d ltac:(lia) ltac:(lia)) as Et.
  pose proof (urep_rty _ Hr) as Ht. pose proof (urep_rty _ Hrs) as Hts.
  rewrite (uconv_exact r n d (common_rep r rs) n d c).
  - rewrite Et, Z.mul_1_r. reflexivity.
  - assumption.
  - apply common_rep_ok; assumption.
  - intros ->. pose proof (common_rep_u64 (-64) rs Ht Hts). lia.
  - assumption.
  - assumption.
  - apply Z.divide_refl.
  - apply Z.divide_refl.
  - rewrite Et. unfold max64. lia.
  - assumption.
  - rewrite Et, Z.mul_1_r. assumption.
Qed.

Lemma uscalar_ops_spec r n d rs c s :
  urep_ok r = true -> urep_ok rs = true -> period_ok n d = true -> uscalar_ok r rs c s = true ->
  let rc := crep_spec r rs in
  (ufits rc (c * s) = true -> usmul_m (Dur r n d) rs c s = Val (c * s))
  /\ (s <> 0 -> ufits rc (Z.quot c s) = true ->
      usdiv_m (Dur r n d) rs c s = Val (Z.quot c s) /\ usmod_m (Dur r n d) rs c s = Val (Z.rem c s)).
Proof.
  intros Hr Hrs Hp Hok. cbv zeta.
  unfold uscalar_ok in Hok. cbv zeta in Hok. rewrite !Bool.andb_true_iff in Hok.
  rewrite !ufits_crep in * by assumption. rewrite !ufits_in_rty in Hok by assumption.
  destruct Hok as (((Hc & Hs) & Hcc) & Hsc).
  pose proof (urep_rty _ Hr) as Ht. pose proof (urep_rty _ Hrs) as Hts.
  destruct (uac_scalar_sup r rs Ht Hts) as [Hsup Hto].
  set (rc := common_rep r rs) in *. set (t := uac rc rs) in *.
  assert (Hct : in_rty t c = true) by (eapply in_rty_sup; eassumption).
  assert (Hst : in_rty t s = true) by (eapply in_rty_sup; eassumption).
  split.
  - intros Hf. unfold usmul_m. cbv zeta. rewrite uconv_widen by assumption. cbn [bind uscale_ty rw]. fold rc.
    rewrite (bin_mul_ok rc rs t) by (try reflexivity; try assumption; eapply in_rty_sup; eassumption).
    cbn [bind]. rewrite cvt_id by assumption. reflexivity.
  - intros Hs0 Hf. unfold usdiv_m, usmod_m. cbv zeta. rewrite uconv_widen by assumption. cbn [bind uscale_ty rw]. fold rc.
    destruct (bin_div_rem_ok rc rs t c s eq_refl Hto Hct Hst Hs0) as [Ed Er].
    { eapply in_rty_sup; eassumption. }
    rewrite Ed, Er. cbn [bind]. rewrite cvt_id by assumption. split; [reflexivity|].
    rewrite cvt_id; [reflexivity|].
    apply in_rty_iff. apply in_rty_iff in Hcc.
    assert (Hrc : rty_ok rc = true) by (apply common_rep_ok; assumption).
    destruct (rty_facts rc Hrc) as (F1 & F2 & _ & _).
    destruct (Z_le_gt_dec 0 c) as [Hc0|Hc0].
    + pose proof (Z.rem_nonneg c s Hs0 Hc0). pose proof (Z.rem_le c (Z.abs s) Hc0 ltac:(lia)) as H1.
      rewrite Z.rem_abs_r in H1 by lia. lia.
    + pose proof (Z.rem_nonpos c s Hs0 ltac:(lia)).
      assert (c <= Z.rem c s).
      { rewrite <- (Z.opp_involutive c) at 2. rewrite Z.rem_opp_l by lia.
        pose proof (Z.rem_le (- c) (Z.abs s) ltac:(lia) ltac:(lia)) as H1. rewrite Z.rem_abs_r in H1 by lia. lia. }
      lia.
Qed.

(** * member operators *)
Lemma umember_ops_spec r c x : urep_ok r = true -> ufits r c = true -> ufits r x = true ->
  (ufits r (- c) = true -> uneg_m r c = Val (- c))
  /\ uuplus_m r c = Val c
  /\ (ufits r (c + 1) = true -> uinc_m r c = Val (c + 1) /\ utp_inc_m r c = Val (c + 1))
  /\ (ufits r (c - 1) = true -> udec_m r c = Val (c - 1) /\ utp_dec_m r c = Val (c - 1))
  /\ (ufits r (c + x) = true -> uadd_assign_m r c x = Val (c + x) /\ utp_add_assign_m r c x = Val (c + x))
  /\ (ufits r (c - x) = true -> usub_assign_m r c x = Val (c - x) /\ utp_sub_assign_m r c x = Val (c - x))
  /\ (ufits r (c * x) = true -> umul_assign_m r c x = Val (c * x))
  /\ (x <> 0 -> ufits r (Z.quot c x) = true ->
        udiv_assign_m r c x = Val (Z.quot c x) /\ umod_assign_m r c x = Val (Z.rem c x)).
Proof.
  intros Hr. rewrite !ufits_in_rty by assumption. intros Hc Hx.
  pose proof (urep_rty _ Hr) as Ht.
  destruct (uac_self_sup r Ht) as [Hs Hto]. destruct (uac_int_sup r Ht) as (Hsi & Htoi & H1i).
  destruct (promote_sup r Ht) as [Hsp Htp].
  assert (Hct : in_rty (uac r r) c = true) by (eapply in_rty_sup; eassumption).
  assert (Hxt : in_rty (uac r r) x = true) by (eapply in_rty_sup; eassumption).
  assert (Hci : in_rty (uac r 32) c = true) by (eapply in_rty_sup; eassumption).
  unfold utp_inc_m, utp_dec_m, utp_add_assign_m, utp_sub_assign_m.
  refine (conj _ (conj eq_refl (conj _ (conj _ (conj _ (conj _ (conj _ _))))))).
  - intros Hf. unfold uneg_m, un_neg. cbv zeta.
    rewrite (cvt_id (promote r) c) by (eapply in_rty_sup; eassumption).
    rewrite ar_ok by (eapply in_rty_sup; eassumption). cbn [bind]. rewrite cvt_id by assumption. reflexivity.
  - intros Hf. unfold uinc_m. rewrite (bin_add_ok r 32 (uac r 32)) by (try reflexivity; try assumption; eapply in_rty_sup; eassumption).
    cbn [bind]. rewrite cvt_id by assumption. split; reflexivity.
  - intros Hf. unfold udec_m. rewrite (bin_sub_ok r 32 (uac r 32)) by (try reflexivity; try assumption; eapply in_rty_sup; eassumption).
    cbn [bind]. rewrite cvt_id by assumption. split; reflexivity.
  - intros Hf. unfold uadd_assign_m. rewrite (bin_add_ok r r (uac r r)) by (try reflexivity; try assumption; eapply in_rty_sup; eassumption).
    cbn [bind]. rewrite cvt_id by assumption. split; reflexivity.
  - intros Hf. unfold usub_assign_m. rewrite (bin_sub_ok r r (uac r r)) by (try reflexivity; try assumption; eapply in_rty_sup; eassumption).
    cbn [bind]. rewrite cvt_id by assumption. split; reflexivity.
  - intros Hf. unfold umul_assign_m. rewrite (bin_mul_ok r r (uac r r)) by (try reflexivity; try assumption; eapply in_rty_sup; eassumption).
    cbn [bind]. rewrite cvt_id by assumption. reflexivity.
  - intros Hx0 Hf. unfold udiv_assign_m, umod_assign_m.
    destruct (bin_div_rem_ok r r (uac r r) c x eq_refl Hto Hct Hxt Hx0) as [Ed Er]; [eapply in_rty_sup; eassumption|].
    rewrite Ed, Er. cbn [bind]. rewrite cvt_id by assumption. split; [reflexivity|].
    rewrite cvt_id; [reflexivity|].
    apply in_rty_iff. apply in_rty_iff in Hc. destruct (rty_facts r Ht) as (F1 & F2 & _ & _).
    destruct (Z_le_gt_dec 0 c) as [Hc0|Hc0].
    + pose proof (Z.rem_nonneg c x Hx0 Hc0). pose proof (Z.rem_le c (Z.abs x) Hc0 ltac:(lia)) as H1.
      rewrite Z.rem_abs_r in H1 by lia. lia.
    + pose proof (Z.rem_nonpos c x Hx0 ltac:(lia)).
      assert (c <= Z.rem c x).
      { rewrite <- (Z.opp_involutive c) at 2. rewrite Z.rem_opp_l by lia.
        pose proof (Z.rem_le (- c) (Z.abs x) ltac:(lia) ltac:(lia)) as H1. rewrite Z.rem_abs_r in H1 by lia. lia. }
      lia.
Qed.

(* the time_point operators are the duration operators on time_since_epoch() *)
Lemma utp_ops_are_duration_ops a b c1 c2 :
  utp_plus_m a b c1 c2 = uadd_m a b c1 c2 /\ utp_plus_r_m b a c2 c1 = uadd_m a b c1 c2
  /\ utp_minus_m a b c1 c2 = usub_m a b c1 c2 /\ utp_diff_m a b c1 c2 = usub_m a b c1 c2.
Proof. repeat split. Qed.

(** * modular behaviour: unsigned and narrower-than-int common representations never overflow *)
Ltac closed_pow :=
  repeat match goal with |- context [2 ^ ?k] => let p := eval vm_compute in (2 ^ k) in change (2 ^ k) with p end;
  repeat match goal with |- context [0 <? ?k] => let p := eval vm_compute in (0 <? k) in change (0 <? k) with p end.
Ltac split_ifs := repeat match goal with |- context [if ?b then _ else _] => destruct b eqn:? end.

Lemma cvt_uwrap r v : rty_ok r = true -> cvt r v = uwrap r v.
Proof.
  intros H. unfold cvt, uwrap, uhi, ubits, usigned. tcases H;
  cbv [in_rty rmin rmax rmodulus Z.abs Z.eqb Pos.eqb min32 max32 min64 max64 two32 two64 orb];
  closed_pow; cbn [andb]; split_ifs; lia.
Qed.

Lemma cvt_in r v : rty_ok r = true -> in_rty r (cvt r v) = true.
Proof.
  intros H. unfold cvt. destruct (in_rty r v) eqn:E; [exact E|]. clear E. tcases H;
  cbv [in_rty rmin rmax rmodulus Z.eqb Pos.eqb min32 max32 min64 max64 two32 two64 orb];
  split_ifs; lia.
Qed.

(* a sum / difference v of two values of the type rc, formed in the promoted type and stored back *)
Lemma ar_cvt_total rc v : rty_ok rc = true -> Z.abs v <= 2 * (rmax rc - rmin rc) ->
  (do s <- ar (uac rc rc) v; Val (cvt rc s))
  = if negb (overflow_is_ub rc) || in_rty rc v then Val (cvt rc v) else Ub SignedOverflow.
Proof.
  intros H Hv. unfold overflow_is_ub. tcases H.
  - change (uac 8 8) with 32. rewrite ar_ok by (apply in_rty_iff; cbv [rmin rmax Z.eqb Pos.eqb min32 max32] in *; lia). reflexivity.
  - change (uac 16 16) with 32. rewrite ar_ok by (apply in_rty_iff; cbv [rmin rmax Z.eqb Pos.eqb min32 max32] in *; lia). reflexivity.
  - change (uac 32 32) with 32. unfold ar. cbn [rsigned Z.ltb Z.compare Z.eqb Pos.eqb orb negb].
    destruct (in_rty 32 v) eqn:E; [|reflexivity]. cbn [bind]. reflexivity.
  - change (uac 64 64) with 64. unfold ar. cbn [rsigned Z.ltb Z.compare Z.eqb Pos.eqb orb negb].
    destruct (in_rty 64 v) eqn:E; [|reflexivity]. cbn [bind]. reflexivity.
  - change (uac (-8) (-8)) with 32. rewrite ar_ok by (apply in_rty_iff; cbv [rmin rmax Z.eqb Pos.eqb min32 max32] in *; lia). reflexivity.
  - change (uac (-16) (-16)) with 32. rewrite ar_ok by (apply in_rty_iff; cbv [rmin rmax Z.eqb Pos.eqb min32 max32] in *; lia). reflexivity.
  - change (uac (-32) (-32)) with (-32). unfold ar. cbn [rsigned Z.ltb Z.compare bind Z.eqb Pos.eqb orb negb].
    rewrite (cvt_id (-32) (cvt (-32) v)) by (apply cvt_in; reflexivity). reflexivity.
  - change (uac (-64) (-64)) with (-64). unfold ar. cbn [rsigned Z.ltb Z.compare bind Z.eqb Pos.eqb orb negb].
    rewrite (cvt_id (-64) (cvt (-64) v)) by (apply cvt_in; reflexivity). reflexivity.
Qed.

Section UTotal.
  Variables r1 n1 d1 r2 n2 d2 : Z.
  Hypothesis Hr1 : urep_ok r1 = true.
  Hypothesis Hr2 : urep_ok r2 = true.
  Hypothesis Hp1 : period_ok n1 d1 = true.
  Hypothesis Hp2 : period_ok n2 d2 = true.
  Variables c1 c2 : Z.
  Hypothesis Hb : uboth_ok r1 n1 d1 r2 n2 d2 c1 c2 = true.

  (* + and - on the whole domain of convertible operands: undefined exactly when the common
     representation is int or long and the exact result does not fit; in every other common representation
     (unsigned, or narrower than int) the result is the exact one reduced modulo 2^bits *)
  Lemma uplus_minus_total :
    let rc := crep_spec r1 r2 in
    uadd_m (Dur r1 n1 d1) (Dur r2 n2 d2) c1 c2
      = (if negb (overflow_is_ub rc) || ufits rc (plus_spec n1 d1 n2 d2 c1 c2)
         then Val (uwrap rc (plus_spec n1 d1 n2 d2 c1 c2)) else Ub SignedOverflow)
    /\ usub_m (Dur r1 n1 d1) (Dur r2 n2 d2) c1 c2
      = (if negb (overflow_is_ub rc) || ufits rc (minus_spec n1 d1 n2 d2 c1 c2)
         then Val (uwrap rc (minus_spec n1 d1 n2 d2 c1 c2)) else Ub SignedOverflow).
  Proof.
    cbv zeta. destruct (common_rep_spec r1 r2 Hr1 Hr2) as [E Hc]. rewrite <- E in *.
    pose proof (rc_ok r1 r2 Hr1 Hr2) as Hrc.
    destruct (xy_in r1 n1 d1 r2 n2 d2 Hr1 Hr2 c1 c2 Hb) as [Hx Hy].
    destruct (xy_spec n1 d1 n2 d2 c1 c2) as [Ex Ey].
    apply in_rty_iff in Hx, Hy. destruct (rty_facts _ Hrc) as (F1 & F2 & _ & _).
    rewrite !ufits_in_rty by assumption. rewrite <- !cvt_uwrap by assumption.
    rewrite uplus_m_total, uminus_m_total by assumption.
    unfold plus_spec, minus_spec. cbv zeta. rewrite <- Ex, <- Ey.
    split; apply ar_cvt_total; try assumption; lia.
  Qed.
End UTotal.

(** * duration_cast between any two integer representations *)
Lemma ucast_ok_iff r1 n1 d1 r2 n2 d2 c : urep_ok r1 = true -> urep_ok r2 = true ->
  ucast_ok r1 n1 d1 r2 n2 d2 c = true <->
  factor_num n1 d1 n2 d2 <= max64 /\ factor_den n1 d1 n2 d2 <= max64
  /\ in_rty r1 c = true /\ in_rty (cr3 r2 r1) c = true /\ in_rty (cr3 r2 r1) (c * factor_num n1 d1 n2 d2) = true
  /\ in_rty r2 (cast_spec n1 d1 n2 d2 c) = true.
Proof.
  intros H1 H2. unfold ucast_ok, cr3. cbv zeta.
  destruct (common_rep_spec r2 r1 H2 H1) as [E Hc]. rewrite <- E in *.
  assert (H64 : urep_ok 64 = true) by reflexivity.
  destruct (common_rep_spec _ 64 Hc H64) as [E2 Hc2]. rewrite <- E2 in *.
  rewrite !ufits_in_rty by assumption.
  rewrite !Bool.andb_true_iff, !Z.leb_le. unfold lim64, max64. tauto.
Qed.

Lemma quot_in r x k : rty_ok r = true -> in_rty r x = true -> 0 < k -> in_rty r (Z.quot x k) = true.
Proof.
  intros Hr Hx Hk. apply in_rty_iff. apply in_rty_iff in Hx. destruct (rty_facts r Hr) as (F1 & F2 & _ & _).
  destruct (Z_le_gt_dec 0 x).
  - pose proof (Z.quot_pos x k ltac:(lia) Hk). pose proof (Z.quot_le_upper_bound x k x Hk ltac:(nia)). lia.
  - pose proof (Z.quot_opp_l x k ltac:(lia)) as E.
    pose proof (Z.quot_pos (- x) k ltac:(lia) Hk). pose proof (Z.quot_le_upper_bound (- x) k (- x) Hk ltac:(nia)). lia.
Qed.

Lemma ucast_m_spec r1 n1 d1 r2 n2 d2 c :
  urep_ok r1 = true -> urep_ok r2 = true ->
  period_ok n1 d1 = true -> period_ok n2 d2 = true ->
  ucast_ok r1 n1 d1 r2 n2 d2 c = true ->
  ucast_m (Dur r1 n1 d1) (Dur r2 n2 d2) c = Val (cast_spec n1 d1 n2 d2 c).
Proof.
  intros Hr1 Hr2 Hp1 Hp2 Hok.
  pose proof (proj1 (period_ok_iff _ _) Hp1) as (Hn1 & Hd1 & Hg1).
  pose proof (proj1 (period_ok_iff _ _) Hp2) as (Hn2 & Hd2 & Hg2).
  apply ucast_ok_iff in Hok; try assumption. destruct Hok as (Ha & Hb & Hc & Hcc & Hm & Hr).
  assert (Ha0 : 0 < n1 * d2) by nia. assert (Hb0 : 0 < d1 * n2) by nia.
  pose proof (urep_rty _ Hr1) as Ht1. pose proof (urep_rty _ Hr2) as Ht2.
  unfold ucast_m. cbn [rw pn pd]. cbv zeta.
  rewrite ratio_divide_m_spec by assumption.
  cbn [bind fst snd].
  rewrite (cast_reduced n1 d1 n2 d2 c Ha0 Hb0) in *.
  destruct (factor_facts _ _ _ _ Ha0 Hb0) as (Hg & Ea & Eb & Hcn & Hcd).
  set (cn := factor_num n1 d1 n2 d2) in *. set (cd := factor_den n1 d1 n2 d2) in *.
  (* the computation type is long or unsigned long *)
  assert (Hcr : (cr3 r2 r1 = 64 \/ cr3 r2 r1 = -64)) by (rewrite cr3_val by assumption; destruct ((r2 =? -64) || (r1 =? -64)); auto).
  set (cr := cr3 r2 r1) in *.
  assert (Hcrok : rty_ok cr = true) by (destruct Hcr as [-> | ->]; reflexivity).
  assert (Eu : uac cr cr = cr) by (destruct Hcr as [-> | ->]; reflexivity).
  assert (Hk : forall k, 0 < k <= max64 -> in_rty cr k = true).
  { intros k Hk0. apply in_rty_iff. destruct Hcr as [-> | ->]; cbv [rmin rmax Z.eqb Pos.eqb min64 max64] in *; lia. }
  rewrite (cvt_id cr c) by assumption.
  rewrite (cvt_id cr cn) by (apply Hk; lia). rewrite (cvt_id cr cd) by (apply Hk; lia).
  destruct (cn =? 1) eqn:Ecn.
  - apply Z.eqb_eq in Ecn. rewrite Ecn in *. rewrite Z.mul_1_r in *.
    destruct (cd =? 1) eqn:Ecd.
    + apply Z.eqb_eq in Ecd. rewrite Ecd in *. rewrite Z.quot_1_r in *. cbn [bind].
      rewrite cvt_id by assumption. reflexivity.
    + destruct (bin_div_rem_ok cr cr cr c cd Eu Hcrok Hcc (Hk cd ltac:(lia)) ltac:(lia)) as [Ed _].
      { apply quot_in; try assumption; lia. }
      rewrite Ed. cbn [bind]. rewrite cvt_id by assumption. reflexivity.
  - destruct (cd =? 1) eqn:Ecd.
    + apply Z.eqb_eq in Ecd. rewrite Ecd in *. rewrite Z.quot_1_r in *.
      rewrite (bin_mul_ok cr cr cr) by (try assumption; apply Hk; lia). cbn [bind].
      rewrite cvt_id by assumption. reflexivity.
    + rewrite (bin_mul_ok cr cr cr) by (try assumption; apply Hk; lia). cbn [bind].
      destruct (bin_div_rem_ok cr cr cr (c * cn) cd Eu Hcrok Hm (Hk cd ltac:(lia)) ltac:(lia)) as [Ed _].
      { apply quot_in; try assumption; lia. }
      rewrite Ed. cbn [bind]. rewrite cvt_id by assumption. reflexivity.
Qed.

(** * the signed 32/64-bit representations of Model.v / Spec.v are the special case *)
Lemma signed_special_case w1 w2 : rep_ok w1 = true -> rep_ok w2 = true ->
  urep_ok w1 = true /\ urep_ok w2 = true /\ crep_spec w1 w2 = Z.max w1 w2
  /\ (forall x, ufits w1 x = fits w1 x) /\ (forall x, ufits w2 x = fits w2 x)
  /\ (forall x, ufits (Z.max w1 w2) x = fits (Z.max w1 w2) x).
Proof.
  unfold rep_ok. intros H1 H2.
  assert (E1 : w1 = 32 \/ w1 = 64) by lia. assert (E2 : w2 = 32 \/ w2 = 64) by lia.
  destruct E1 as [-> | ->], E2 as [-> | ->]; repeat split; reflexivity.
Qed.

Lemma signed_ok_agree w1 n1 d1 w2 n2 d2 c1 c2 : rep_ok w1 = true -> rep_ok w2 = true ->
  uboth_ok w1 n1 d1 w2 n2 d2 c1 c2 = both_ok w1 n1 d1 w2 n2 d2 c1 c2
  /\ uplus_ok w1 n1 d1 w2 n2 d2 c1 c2 = plus_ok w1 n1 d1 w2 n2 d2 c1 c2
  /\ uminus_ok w1 n1 d1 w2 n2 d2 c1 c2 = minus_ok w1 n1 d1 w2 n2 d2 c1 c2
  /\ udiv_ok w1 n1 d1 w2 n2 d2 c1 c2 = div_ok w1 n1 d1 w2 n2 d2 c1 c2.
Proof.
  intros H1 H2. destruct (signed_special_case w1 w2 H1 H2) as (_ & _ & Ec & F1 & F2 & Fc).
  unfold uplus_ok, uminus_ok, udiv_ok, plus_ok, minus_ok, div_ok, uboth_ok, both_ok. cbv zeta.
  rewrite Ec, !F1, !F2, !Fc. repeat split; reflexivity.
Qed.
