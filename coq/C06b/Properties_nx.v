(* C06 (part b) — fix-miss round 5: the numeric folds on heterogeneous arithmetic types (coq/C06b/ModelNumT.v).
   For EVERY meaning of the conversions and of the arithmetic inside one type (conv, arith), every accumulator type T, element
   types and lists: the code's loops compute exactly the standard's left folds "acc = std::move(acc) + *i" with acc of type T and
   the operation carried out on the operands' OWN types (transparent), the 4-argument transform_reduce is the inner product, and
   every result has the static type the standard gives it. *)
From Tetl Require Import Lib.Base C06b.Model C06b.Spec C06b.ProofsNum C06b.ModelNumT.
From Coq Require Import List ZArith Lia.
Import ListNotations.

Lemma fold_left_ty {V} (conv : nty -> V -> V) (f : tv -> tv -> tv) (T : nty) :
  forall (l : list (@tv V)) acc, ty acc = T -> (forall a x, ty (cvt conv T (f a x)) = T) ->
  ty (fold_left (fun a x => cvt conv T (f a x)) l acc) = T.
Proof. induction l as [|x l IH]; intros acc Ha Hf; cbn [fold_left]; [exact Ha|]. apply IH; [reflexivity|exact Hf]. Qed.

Theorem C06b_typed_numeric_folds : forall (V : Type) (conv : nty -> V -> V) (arith : nat -> nty -> V -> V -> V) (zero one : V)
    (o o1 o2 : nat) (T E D : nty) (l l1 l2 : list (@tv V)) (init : tv) (dflt : bool) (n : nat),
  accumulate_t conv arith o T l init = accumulate_ts conv arith o T l init
  /\ reduce_t conv arith o T l init = accumulate_ts conv arith o T l init
  /\ reduce0_t conv arith zero E l = accumulate_ts conv arith 0 E l (TV E zero)
  /\ (length l1 <= length l2 ->
      inner_product_t conv arith o1 o2 T l1 l2 init = Ok (inner_product_ts conv arith o1 o2 T l1 l2 init)
      /\ transform_reduce_t conv arith o1 o2 T l1 l2 init = Ok (inner_product_ts conv arith o1 o2 T l1 l2 init)
      /\ transform_reduce4_t conv arith T l1 l2 init = inner_product_t conv arith 0 2 T l1 l2 init)
  /\ transform_reduce1_t conv arith o T l init = transform_reduce1_ts conv arith o T l init
  /\ partial_sum_t conv arith o E D l = partial_sum_ts conv arith o E D l
  /\ adjacent_difference_t conv arith dflt o E D l = adjacent_difference_ts conv arith dflt o E D l
  /\ iota_t conv arith one T D n init = iota_ts conv arith one T D n init
  /\ ty (accumulate_t conv arith o T l init) = T
  /\ ty (transform_reduce1_t conv arith o T l init) = T
  /\ Forall (fun x => ty x = D) (partial_sum_t conv arith o E D l)
  /\ Forall (fun x => ty x = D) (adjacent_difference_t conv arith dflt o E D l)
  /\ Forall (fun x => ty x = D) (iota_t conv arith one T D n init).
Proof.
  intros.
  assert (HF : forall (f : @tv V -> @tv V) (k : list tv), Forall (fun x => ty x = D) (map (fun x => cvt conv D (f x)) k)).
  { intros f k. induction k as [|x k IH]; cbn [map]; constructor; [reflexivity|exact IH]. }
  assert (HF' : forall (k : list (@tv V)), Forall (fun x => ty x = D) (map (cvt conv D) k)).
  { intros k. induction k as [|x k IH]; cbn [map]; constructor; [reflexivity|exact IH]. }
  repeat split; intros;
    first
      [ apply HF'
      | solve [unfold reduce0_t, reduce_t, accumulate_t, accumulate_ts; apply accumulate_correct]
      | solve [unfold transform_reduce_t, inner_product_t, inner_product_ts; apply inner_product_correct; assumption]
      | solve [unfold transform_reduce1_t, transform_reduce1_ts; apply transform_reduce1_correct]
      | solve [unfold partial_sum_t, partial_sum_ts; rewrite partial_sum_correct; reflexivity]
      | solve [unfold adjacent_difference_t, adjacent_difference_ts; rewrite adjacent_difference_correct; reflexivity]
      | solve [unfold iota_t, iota_ts; rewrite iota_correct; reflexivity]
      | solve [unfold accumulate_t; rewrite accumulate_correct; unfold accumulate_s;
               apply (fold_left_ty conv (tbin conv arith o) T); reflexivity]
      | solve [unfold transform_reduce1_t; rewrite transform_reduce1_correct; unfold transform_reduce1_s;
               apply (fold_left_ty conv (tbin conv arith o) T); reflexivity]
      | reflexivity ].
Qed.
Print Assumptions C06b_typed_numeric_folds.

(* A concrete meaning (values in quarters, Z): conversion to an integer type truncates towards zero, to unsigned char also
   reduces modulo 256; floating-point types are exact here.  Non-vacuity + the two situations of this round:
   (a) int init, double elements {0.5, 0.5, 1.5} x {4, 6, 2}: the code (transparent functors) gives 8, typed functors
       plus<int> / multiplies<int> (seeded change C06-i2) would give 2;
   (b) unsigned char elements {9, 4}, int destination: adjacent_difference gives {9, -5}; the code before the fix gave {9, 251}. *)
Definition qconv (t : nty) (x : Z) : Z :=
  match t with
  | NU8 => (Z.quot x 4 mod 256) * 4
  | NI32 | NI64 => Z.quot x 4 * 4
  | _ => x
  end%Z.
Definition qarith (o : nat) (t : nty) (x y : Z) : Z :=
  qconv t (match o with O => x + y | 1%nat => x - y | _ => Z.quot (x * y) 4 end)%Z.
Definition dbl (halves : Z) : @tv Z := TV NF64 (2 * halves)%Z.
Definition u8v (x : Z) : @tv Z := TV NU8 (4 * x)%Z.

Theorem C06b_typed_numeric_nonvacuous :
  option_map val (match transform_reduce4_t qconv qarith NI32 [dbl 1; dbl 1; dbl 3] [dbl 8; dbl 12; dbl 4] (TV NI32 0%Z) with Ok r => Some r | _ => None end) = Some 32%Z
  /\ option_map val (match transform_reduce4_typed qconv qarith NI32 [dbl 1; dbl 1; dbl 3] [dbl 8; dbl 12; dbl 4] (TV NI32 0%Z) with Ok r => Some r | _ => None end) = Some 8%Z
  /\ map val (adjacent_difference_t qconv qarith true 0 NU8 NI32 [u8v 9; u8v 4]) = [36; -20]%Z
  /\ map val (adjacent_difference_before_fix qconv qarith NU8 NI32 [u8v 9; u8v 4]) = [36; 1004]%Z.
Proof. vm_compute. repeat split; reflexivity. Qed.
Print Assumptions C06b_typed_numeric_nonvacuous.
