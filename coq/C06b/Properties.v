(* C06b — algorithms return exactly what the standard specifies (non-mutating half + numeric).
   Property theorems only: each is closed by [exact] of a lemma proved in Proofs*.v, followed by
   Print Assumptions.  Model functions (_m) mirror include/etl/_algorithm and _numeric, spec
   functions (_s) are the declarative definitions of Spec.v.  All theorems hold for every element
   type, every list length, every predicate / comparator satisfying the stated hypothesis. *)
From Tetl Require Import Lib.Base C06b.Model C06b.Spec C06b.Order C06b.ProofsScan C06b.ProofsSearch
  C06b.ProofsNum C06b.ProofsBound C06b.ProofsMinMax C06b.ProofsSet C06b.ProofsIncludes C06b.ProofsPerm C06b.SpecFacts.
From Coq Require Import Permutation.

(* ---- how to read the position combinators of the specification *)
Theorem C06b_least_is_first : forall (P : nat -> bool) n,
  least P n <= n /\ (forall j, j < least P n -> P j = false) /\ (least P n < n -> P (least P n) = true).
Proof. exact least_spec. Qed.
Print Assumptions C06b_least_is_first.

Theorem C06b_last_sat_is_last : forall (P : nat -> bool) n d,
  (last_sat P n d = d /\ forall j, j < n -> P j = false)
  \/ (last_sat P n d < n /\ P (last_sat P n d) = true /\ forall j, last_sat P n d < j < n -> P j = false).
Proof. exact last_sat_spec. Qed.
Print Assumptions C06b_last_sat_is_last.

(* ---- [alg.find] [alg.find.first.of] [alg.count] [alg.all.of] [alg.any.of] [alg.none.of] *)
Theorem C06b_find : forall A (eqb : A -> A -> bool) l v, find_m eqb l v = find_s eqb l v.
Proof. exact (@find_correct). Qed.
Print Assumptions C06b_find.

Theorem C06b_find_if : forall A (p : A -> bool) l, find_if_m p l = find_if_s p l.
Proof. exact (@find_if_correct). Qed.
Print Assumptions C06b_find_if.

Theorem C06b_find_if_not : forall A (p : A -> bool) l, find_if_not_m p l = find_if_not_s p l.
Proof. exact (@find_if_not_correct). Qed.
Print Assumptions C06b_find_if_not.

Theorem C06b_find_first_of : forall A (pred : A -> A -> bool) l s, find_first_of_m pred l s = find_first_of_s pred l s.
Proof. exact (@find_first_of_correct). Qed.
Print Assumptions C06b_find_first_of.

Theorem C06b_count : forall A (eqb : A -> A -> bool) l v, count_m eqb l v = count_s eqb l v.
Proof. exact (@count_correct). Qed.
Print Assumptions C06b_count.

Theorem C06b_count_if : forall A (p : A -> bool) l, count_if_m p l = count_if_s p l.
Proof. exact (@count_if_correct). Qed.
Print Assumptions C06b_count_if.

Theorem C06b_all_of : forall A (p : A -> bool) l, all_of_m p l = all_of_s p l.
Proof. exact (@all_of_correct). Qed.
Print Assumptions C06b_all_of.

Theorem C06b_any_of : forall A (p : A -> bool) l, any_of_m p l = any_of_s p l.
Proof. exact (@any_of_correct). Qed.
Print Assumptions C06b_any_of.

Theorem C06b_none_of : forall A (p : A -> bool) l, none_of_m p l = none_of_s p l.
Proof. exact (@none_of_correct). Qed.
Print Assumptions C06b_none_of.

(* ---- [alg.foreach] *)
Theorem C06b_for_each : forall A St (f : St -> A -> St * A) (s : St) l, for_each_m f s l = for_each_s f s l.
Proof. exact (@for_each_correct). Qed.
Print Assumptions C06b_for_each.

Theorem C06b_for_each_n : forall A St (f : St -> A -> St * A) (s : St) (l : list A) (n : Z),
  (0 <= n <= Z.of_nat (length l))%Z -> for_each_n_m f s l n = Ok (for_each_n_s f s l (Z.to_nat n)).
Proof. exact (@for_each_n_correct). Qed.
Print Assumptions C06b_for_each_n.

(* ---- [alg.adjacent.find] [mismatch] [alg.equal] [alg.lex.comparison] *)
Theorem C06b_adjacent_find : forall A (pred : A -> A -> bool) l, adjacent_find_m pred l = adjacent_find_s pred l.
Proof. exact (@adjacent_find_correct). Qed.
Print Assumptions C06b_adjacent_find.

Theorem C06b_mismatch4 : forall A (pred : A -> A -> bool) l1 l2, mismatch4_m pred l1 l2 = mismatch_s pred l1 l2.
Proof. exact (@mismatch4_correct). Qed.
Print Assumptions C06b_mismatch4.

Theorem C06b_mismatch3 : forall A (pred : A -> A -> bool) l1 l2, length l1 <= length l2 ->
  mismatch3_m pred l1 l2 = Ok (mismatch_s pred l1 (second_range l1 l2)).
Proof. exact (@mismatch3_correct). Qed.
Print Assumptions C06b_mismatch3.

(* both branches of the `if constexpr` on the iterator category *)
Theorem C06b_equal4 : forall A (ra : bool) (pred : A -> A -> bool) l1 l2,
  equal4_m ra pred l1 l2 = Ok (equal_s pred l1 l2).
Proof. exact (@equal4_correct). Qed.
Print Assumptions C06b_equal4.

Theorem C06b_equal3 : forall A (pred : A -> A -> bool) l1 l2, length l1 <= length l2 ->
  equal3_m pred l1 l2 = Ok (equal_s pred l1 (second_range l1 l2)).
Proof. exact (@equal3_correct). Qed.
Print Assumptions C06b_equal3.

Theorem C06b_lexicographical_compare : forall A (lt : A -> A -> bool) l1 l2,
  lexicographical_compare_m lt l1 l2 = lexicographical_compare_s lt l1 l2.
Proof. exact (@lexicographical_compare_correct). Qed.
Print Assumptions C06b_lexicographical_compare.

(* ---- [alg.search] [alg.find.end] *)
Theorem C06b_search : forall A (pred : A -> A -> bool) l s, search_m pred l s = search_s pred l s.
Proof. exact (@search_correct). Qed.
Print Assumptions C06b_search.

Theorem C06b_default_searcher : forall A (pred : A -> A -> bool) l s,
  default_searcher_m pred l s = default_searcher_s pred l s
  /\ search_searcher_m pred l s = fst (default_searcher_s pred l s).
Proof. exact (fun A pred l s => conj (@default_searcher_correct A pred l s) (@search_searcher_correct A pred l s)). Qed.
Print Assumptions C06b_default_searcher.

(* never out of fuel: the repeated search terminates *)
Theorem C06b_find_end : forall A (pred : A -> A -> bool) l s, find_end_m pred l s = Ok (find_end_s pred l s).
Proof. exact (@find_end_correct). Qed.
Print Assumptions C06b_find_end.

Theorem C06b_search_n : forall A (pred : A -> A -> bool) l (count : Z) v,
  search_n_m pred l count v = search_n_s pred l count v.
Proof. exact (@search_n_correct). Qed.
Print Assumptions C06b_search_n.

(* ---- [is.sorted]: the code looks at adjacent pairs, the standard's definition at all pairs *)
Theorem C06b_is_sorted_until : forall A (lt : A -> A -> bool) l, strict_weak lt ->
  is_sorted_until_m lt l = is_sorted_until_s lt l.
Proof. exact (@is_sorted_until_correct). Qed.
Print Assumptions C06b_is_sorted_until.

Theorem C06b_is_sorted : forall A (lt : A -> A -> bool) l, strict_weak lt -> is_sorted_m lt l = is_sorted_s lt l.
Proof. exact (@is_sorted_correct). Qed.
Print Assumptions C06b_is_sorted.

(* ---- [alg.partitions] *)
Theorem C06b_is_partitioned : forall A (p : A -> bool) l, is_partitioned_m p l = is_partitioned_s p l.
Proof. exact (@is_partitioned_correct). Qed.
Print Assumptions C06b_is_partitioned.

Theorem C06b_partition_point : forall A (p : A -> bool) l, partitioned p l = true ->
  partition_point_m p l = partition_point_s p l /\ partitioned_at p l (partition_point_s p l) = true.
Proof. exact (fun A p l H => conj (@partition_point_correct A p l H) (@partition_point_s_spec A p l H)). Qed.
Print Assumptions C06b_partition_point.

(* ---- [binary.search]: halving loops; no out-of-range read, never out of fuel *)
Theorem C06b_lower_bound : forall A (lt : A -> A -> bool) l v, partitioned (fun e => lt e v) l = true ->
  lower_bound_m lt l v = Ok (lower_bound_s lt l v).
Proof. exact (@lower_bound_correct). Qed.
Print Assumptions C06b_lower_bound.

Theorem C06b_upper_bound : forall A (lt : A -> A -> bool) l v, partitioned (fun e => negb (lt v e)) l = true ->
  upper_bound_m lt l v = Ok (upper_bound_s lt l v).
Proof. exact (@upper_bound_correct). Qed.
Print Assumptions C06b_upper_bound.

Theorem C06b_equal_range : forall A (lt : A -> A -> bool) l v,
  partitioned (fun e => lt e v) l = true -> partitioned (fun e => negb (lt v e)) l = true ->
  equal_range_m lt l v = Ok (equal_range_s lt l v).
Proof. exact (@equal_range_correct). Qed.
Print Assumptions C06b_equal_range.

Theorem C06b_binary_search : forall A (lt : A -> A -> bool) l v,
  partitioned (fun e => lt e v) l = true -> partitioned (fun e => negb (lt v e)) l = true ->
  binary_search_m lt l v = Ok (binary_search_s lt l v).
Proof. exact (@binary_search_correct). Qed.
Print Assumptions C06b_binary_search.

(* ---- [includes] [alg.merge] [alg.set.operations]: sorted ranges, strict weak ordering *)
Theorem C06b_includes : forall A (lt : A -> A -> bool), strict_weak lt -> forall l1 l2,
  sorted_all lt l1 = true -> sorted_all lt l2 = true -> includes_m lt l1 l2 = includes_s lt l1 l2.
Proof. exact (@includes_correct). Qed.
Print Assumptions C06b_includes.

(* merge is THE stable merge: the stable sort of the concatenation *)
Theorem C06b_merge : forall A (lt : A -> A -> bool), strict_weak lt -> forall l1 l2,
  sorted_all lt l1 = true -> sorted_all lt l2 = true -> merge_m lt l1 l2 = merge_s lt l1 l2.
Proof. exact (@merge_correct). Qed.
Print Assumptions C06b_merge.

Theorem C06b_set_union : forall A (lt : A -> A -> bool), strict_weak lt -> forall l1 l2,
  sorted_all lt l1 = true -> sorted_all lt l2 = true -> set_union_m lt l1 l2 = set_union_s lt l1 l2.
Proof. exact (@set_union_correct). Qed.
Print Assumptions C06b_set_union.

Theorem C06b_set_intersection : forall A (lt : A -> A -> bool), strict_weak lt -> forall l1 l2,
  sorted_all lt l1 = true -> sorted_all lt l2 = true -> set_intersection_m lt l1 l2 = set_intersection_s lt l1 l2.
Proof. exact (@set_intersection_correct). Qed.
Print Assumptions C06b_set_intersection.

Theorem C06b_set_difference : forall A (lt : A -> A -> bool), strict_weak lt -> forall l2 l1,
  sorted_all lt l1 = true -> sorted_all lt l2 = true -> set_difference_m lt l1 l2 = set_difference_s lt l1 l2.
Proof. exact (@set_difference_correct). Qed.
Print Assumptions C06b_set_difference.

Theorem C06b_set_symmetric_difference : forall A (lt : A -> A -> bool), strict_weak lt -> forall l1 l2,
  sorted_all lt l1 = true -> sorted_all lt l2 = true ->
  set_symmetric_difference_m lt l1 l2 = set_symmetric_difference_s lt l1 l2.
Proof. exact (@set_symmetric_difference_correct). Qed.
Print Assumptions C06b_set_symmetric_difference.

(* ---- [alg.min.max] [alg.clamp] *)
Theorem C06b_min : forall A (lt : A -> A -> bool), strict_weak lt -> forall a b, min_m lt a b = min_s lt a b.
Proof. exact (@min_correct). Qed.
Print Assumptions C06b_min.

Theorem C06b_max : forall A (lt : A -> A -> bool), strict_weak lt -> forall a b, max_m lt a b = max_s lt a b.
Proof. exact (@max_correct). Qed.
Print Assumptions C06b_max.

Theorem C06b_minmax : forall A (lt : A -> A -> bool) a b, minmax_m lt a b = minmax_s lt a b.
Proof. exact (@minmax_correct). Qed.
Print Assumptions C06b_minmax.

Theorem C06b_clamp : forall A (lt : A -> A -> bool), strict_weak lt -> forall v lo hi, lt hi lo = false ->
  clamp_m lt v lo hi = clamp_s lt v lo hi.
Proof. exact (@clamp_correct). Qed.
Print Assumptions C06b_clamp.

(* first smallest / first largest / (first smallest, LAST largest) *)
Theorem C06b_min_element : forall A (lt : A -> A -> bool), strict_weak lt -> forall l,
  min_element_m lt l = min_element_s lt l.
Proof. exact (@min_element_correct). Qed.
Print Assumptions C06b_min_element.

Theorem C06b_max_element : forall A (lt : A -> A -> bool), strict_weak lt -> forall l,
  max_element_m lt l = max_element_s lt l.
Proof. exact (@max_element_correct). Qed.
Print Assumptions C06b_max_element.

Theorem C06b_minmax_element : forall A (lt : A -> A -> bool), strict_weak lt -> forall l,
  minmax_element_m lt l = minmax_element_s lt l.
Proof. exact (@minmax_element_correct). Qed.
Print Assumptions C06b_minmax_element.

(* ---- [alg.is.permutation]: the result is true exactly for permutations *)
Theorem C06b_is_permutation4 : forall A (eqb : A -> A -> bool), (forall x y, eqb x y = true <-> x = y) ->
  forall l1 l2, exists b, is_permutation4_m eqb l1 l2 = Ok b /\ (b = true <-> Permutation l1 l2).
Proof. exact (@is_permutation4_iff). Qed.
Print Assumptions C06b_is_permutation4.

Theorem C06b_is_permutation4_counts : forall A (eqb : A -> A -> bool), (forall x y, eqb x y = true <-> x = y) ->
  forall l1 l2, is_permutation4_m eqb l1 l2 = Ok (is_permutation_s eqb l1 l2).
Proof. exact (@is_permutation4_correct). Qed.
Print Assumptions C06b_is_permutation4_counts.

Theorem C06b_is_permutation3 : forall A (eqb : A -> A -> bool), (forall x y, eqb x y = true <-> x = y) ->
  forall l1 l2, length l1 <= length l2 ->
  exists b, is_permutation3_m eqb l1 l2 = Ok b /\ (b = true <-> Permutation l1 (second_range l1 l2)).
Proof. exact (@is_permutation3_iff). Qed.
Print Assumptions C06b_is_permutation3.

(* ---- [numeric.ops] *)
Theorem C06b_accumulate : forall T U (op : T -> U -> T) l init, accumulate_m op l init = accumulate_s op l init.
Proof. exact (@accumulate_correct). Qed.
Print Assumptions C06b_accumulate.

Theorem C06b_reduce : forall T (op : T -> T -> T) l init, reduce_m op l init = accumulate_s op l init.
Proof. exact (@reduce_correct). Qed.
Print Assumptions C06b_reduce.

Theorem C06b_inner_product : forall T U V W (op1 : T -> W -> T) (op2 : U -> V -> W) l1 l2 init,
  length l1 <= length l2 -> inner_product_m op1 op2 l1 l2 init = Ok (inner_product_s op1 op2 l1 l2 init).
Proof. exact (@inner_product_correct). Qed.
Print Assumptions C06b_inner_product.

Theorem C06b_transform_reduce1 : forall T U W (red : T -> W -> T) (tr : U -> W) l init,
  transform_reduce1_m red tr l init = transform_reduce1_s red tr l init.
Proof. exact (@transform_reduce1_correct). Qed.
Print Assumptions C06b_transform_reduce1.

Theorem C06b_partial_sum : forall T (op : T -> T -> T) l, partial_sum_m op l = partial_sum_s op l.
Proof. exact (@partial_sum_correct). Qed.
Print Assumptions C06b_partial_sum.

Theorem C06b_adjacent_difference : forall T (op : T -> T -> T) l,
  adjacent_difference_m op l = adjacent_difference_s op l.
Proof. exact (@adjacent_difference_correct). Qed.
Print Assumptions C06b_adjacent_difference.

Theorem C06b_iota : forall T (succ : T -> T) n v, iota_m succ n v = iota_s succ n v.
Proof. exact (@iota_correct). Qed.
Print Assumptions C06b_iota.

(* ---- the set-operation specifications obey the multiplicity rules in the standard's wording
   (m, n = number of elements equivalent to z in the first / second range) and are sorted *)
Theorem C06b_spec_multiplicities : forall A (lt : A -> A -> bool), strict_weak lt -> forall z l1 l2,
  count_eqv lt z (merge_s lt l1 l2) = count_eqv lt z l1 + count_eqv lt z l2
  /\ count_eqv lt z (set_union_s lt l1 l2) = Nat.max (count_eqv lt z l1) (count_eqv lt z l2)
  /\ count_eqv lt z (set_intersection_s lt l1 l2) = Nat.min (count_eqv lt z l1) (count_eqv lt z l2)
  /\ count_eqv lt z (set_difference_s lt l1 l2) = count_eqv lt z l1 - count_eqv lt z l2
  /\ count_eqv lt z (set_symmetric_difference_s lt l1 l2)
     = (count_eqv lt z l1 - count_eqv lt z l2) + (count_eqv lt z l2 - count_eqv lt z l1).
Proof.
  exact (fun A lt SW z l1 l2 =>
    conj (merge_s_count lt z l1 l2) (conj (set_union_s_count lt SW z l1 l2)
    (conj (set_intersection_s_count lt SW z l1 l2) (conj (set_difference_s_count lt SW z l2 l1)
    (set_symmetric_difference_s_count lt SW z l1 l2))))).
Qed.
Print Assumptions C06b_spec_multiplicities.

Theorem C06b_spec_outputs_sorted : forall A (lt : A -> A -> bool), strict_weak lt -> forall l,
  sorted_all lt (stable_sort_s lt l) = true.
Proof. exact (@stable_sort_s_sorted). Qed.
Print Assumptions C06b_spec_outputs_sorted.

Theorem C06b_is_permutation_spec_decides : forall A (eqb : A -> A -> bool), (forall x y, eqb x y = true <-> x = y) ->
  forall l1 l2, is_permutation_s eqb l1 l2 = true <-> Permutation l1 l2.
Proof. exact (@is_permutation_s_iff). Qed.
Print Assumptions C06b_is_permutation_spec_decides.

(* ---- the comparator families of the correspondence run satisfy the hypothesis *)
Theorem C06b_key_comparators_strict_weak : forall A (key : A -> Z), strict_weak (fun x y => (key x <? key y)%Z).
Proof. exact (@key_strict_weak). Qed.
Print Assumptions C06b_key_comparators_strict_weak.

(* non-vacuity: the hypotheses are met by ordinary inputs, and the functions compute what one expects
   (search_n on the broken-run witness, minmax_element's last maximum, set_difference keeping the
   LAST elements, is_permutation with duplicates) *)
Example C06b_nonvacuous :
  strict_weak Z.ltb
  /\ sorted_all Z.ltb [1; 2; 2; 5]%Z = true /\ partitioned (fun e => (e <? 2)%Z) [1; 2; 2; 5]%Z = true
  /\ search_n_m Z.eqb [1; 0; 1; 1]%Z 2 1%Z = 2
  /\ lower_bound_m Z.ltb [1; 2; 2; 5]%Z 2%Z = Ok 1 /\ upper_bound_m Z.ltb [1; 2; 2; 5]%Z 2%Z = Ok 3
  /\ minmax_element_m Z.ltb [3; 1; 3; 1]%Z = (1, 2)
  /\ set_difference_m (fun x y => (x / 16 <? y / 16)%Z) [16; 17; 18]%Z [24]%Z = [17; 18]%Z
  /\ is_permutation4_m Z.eqb [1; 2; 2]%Z [2; 1; 2]%Z = Ok true
  /\ is_permutation4_m Z.eqb [1; 2]%Z [1; 2; 3]%Z = Ok false.
Proof. split; [exact (key_strict_weak (fun x : Z => x))|]. vm_compute. repeat split; reflexivity. Qed.
