(* C06b proofs, part 2: search, default_searcher, find_end, search_n, is_sorted_until / is_sorted. *)
From Tetl Require Import Lib.Base C06b.Model C06b.Spec C06b.ListX C06b.Order C06b.ProofsScan.
Ltac Zify.zify_post_hook ::= Z.to_euclidean_division_equations.

Lemma least_none : forall (P : nat -> bool) n, (forall j, j < n -> P j = false) -> least P n = n.
Proof. intros P n H. apply least_unique; [lia|exact H|lia]. Qed.

(* skip a prefix on which P is false *)
Lemma least_skip : forall m (P : nat -> bool) n, m <= n -> (forall j, j < m -> P j = false) ->
  least P n = m + least (fun j => P (m + j)) (n - m).
Proof.
  intros m; induction m as [|m IH]; intros P n Hle Hfalse.
  - rewrite Nat.sub_0_r. reflexivity.
  - destruct n as [|n]; [lia|]. rewrite least_S, (Hfalse 0) by lia.
    rewrite (IH (fun j => P (S j)) n) by (try lia; intros j Hj; apply Hfalse; lia). reflexivity.
Qed.

Lemma last_sat_none : forall (P : nat -> bool) n d, (forall j, j < n -> P j = false) -> last_sat P n d = d.
Proof.
  intros P n d; induction n as [|n IH]; intros H; cbn [last_sat]; [reflexivity|].
  rewrite (H n) by lia. apply IH. intros j Hj. apply H. lia.
Qed.

Lemma last_sat_split : forall (P : nat -> bool) n d k, k < n -> P k = true ->
  last_sat P n d = last_sat (fun j => (S k <=? j) && P j) n k.
Proof.
  intros P n d k; induction n as [|n IH]; intros Hk HP; [lia|]. cbn [last_sat].
  destruct (P n) eqn:En.
  - destruct (Nat.eq_dec k n) as [->|Hne].
    + replace (S n <=? n) with false by (symmetry; apply Nat.leb_gt; lia). cbn [andb].
      rewrite last_sat_none; [reflexivity|]. intros j Hj.
      replace (S n <=? j) with false by (symmetry; apply Nat.leb_gt; lia). reflexivity.
    + replace (S k <=? n) with true by (symmetry; apply Nat.leb_le; lia). reflexivity.
  - rewrite andb_false_r. apply IH; [|exact HP]. destruct (Nat.eq_dec k n) as [->|Hne]; [congruence|lia].
Qed.

Section Search.
Context {A : Type}.
Implicit Types (l s : list A) (pred lt : A -> A -> bool).

(* ------------------------------------------------------------------ match_at *)
Lemma match_at_S : forall pred x t s i, match_at pred (x :: t) s (S i) = match_at pred t s i.
Proof. reflexivity. Qed.

Lemma match_at_0_cons : forall pred x t y s',
  match_at pred (x :: t) (y :: s') 0 = pred x y && match_at pred t s' 0.
Proof.
  intros pred x t y s'. unfold match_at. cbn [length skipn firstn combine forallb Nat.add Nat.leb].
  destruct (pred x y); cbn [andb]; [reflexivity|]. apply andb_false_r.
Qed.

Lemma match_at_nil_needle : forall pred l i, i <= length l -> match_at pred l [] i = true.
Proof.
  intros pred l i Hi. unfold match_at. cbn [length firstn combine forallb]. rewrite andb_true_r.
  apply Nat.leb_le. lia.
Qed.

Lemma match_at_too_long : forall pred l s i, length l < i + length s -> match_at pred l s i = false.
Proof. intros pred l s i H. unfold match_at. replace (_ <=? _) with false; [reflexivity|]. symmetry. apply Nat.leb_gt. lia. Qed.

Lemma match_at_skipn : forall pred l s f i, f <= length l ->
  match_at pred (skipn f l) s i = match_at pred l s (f + i).
Proof.
  intros pred l s f i Hf. unfold match_at. rewrite skipn_skipn, skipn_length.
  replace (i + f) with (f + i) by lia. f_equal.
  destruct (Nat.leb_spec (i + length s) (length l - f)); destruct (Nat.leb_spec (f + i + length s) (length l)); try reflexivity; lia.
Qed.

(* what the inner loop of search decides *)
Lemma search_inner_cases : forall pred s l,
  match search_inner pred l s with
  | Found => match_at pred l s 0 = true
  | HitEnd => length l < length s
  | Mismatch => match_at pred l s 0 = false /\ l <> []
  end.
Proof.
  intros pred s; induction s as [|y s' IH]; intros l.
  - cbn [search_inner]. apply match_at_nil_needle. lia.
  - destruct l as [|x t]; cbn [search_inner].
    + cbn [length]. lia.
    + rewrite match_at_0_cons. destruct (pred x y); cbn [andb].
      * specialize (IH t). destruct (search_inner pred t s'); cbn [length].
        -- exact IH.
        -- lia.
        -- split; [apply IH|discriminate].
      * split; [reflexivity|discriminate].
Qed.

Lemma search_s_cons : forall pred x t s,
  search_s pred (x :: t) s = if match_at pred (x :: t) s 0 then 0 else S (search_s pred t s).
Proof. intros pred x t s. unfold search_s. cbn [length]. rewrite least_S. reflexivity. Qed.

Lemma search_correct : forall pred l s, search_m pred l s = search_s pred l s.
Proof.
  intros pred l s; induction l as [|x t IH].
  - cbn [search_m]. destruct (search_inner pred [] s); reflexivity.
  - cbn [search_m]. pose proof (search_inner_cases pred s (x :: t)) as C.
    destruct (search_inner pred (x :: t) s).
    + rewrite search_s_cons, C. reflexivity.
    + unfold search_s. symmetry. apply least_none. intros j Hj. apply match_at_too_long. lia.
    + rewrite search_s_cons. destruct C as [C _]. rewrite C, IH. reflexivity.
Qed.

Lemma search_s_le : forall pred l s, search_s pred l s <= length l.
Proof. intros. apply least_le. Qed.

Lemma default_searcher_correct : forall pred l s, default_searcher_m pred l s = default_searcher_s pred l s.
Proof.
  intros pred l s. unfold default_searcher_m, default_searcher_s. rewrite search_correct.
  pose proof (search_s_le pred l s) as Hle.
  destruct (search_s pred l s =? length l) eqn:E; cbn [negb].
  - apply Nat.eqb_eq in E. replace (_ <? _) with false; [reflexivity|]. symmetry. apply Nat.ltb_ge. lia.
  - apply Nat.eqb_neq in E. replace (_ <? _) with true; [reflexivity|]. symmetry. apply Nat.ltb_lt. lia.
Qed.

Lemma search_searcher_correct : forall pred l s,
  search_searcher_m pred l s = fst (default_searcher_s pred l s).
Proof. intros. unfold search_searcher_m. rewrite default_searcher_correct. reflexivity. Qed.

(* ------------------------------------------------------------------ find_end *)
Lemma find_end_loop_correct : forall pred l s fuel first result,
  s <> [] -> first <= length l -> length l - first < fuel ->
  find_end_loop pred l s fuel first result
  = Ok (last_sat (fun j => (first <=? j) && match_at pred l s j) (length l) result).
Proof.
  intros pred l s fuel; induction fuel as [|fuel IH]; intros first result Hs Hfirst Hfuel; [lia|].
  cbn [find_end_loop]. rewrite search_correct. unfold search_s.
  rewrite (least_ext _ (fun i => match_at pred l s (first + i)))
    by (intros j _; apply match_at_skipn; exact Hfirst).
  rewrite skipn_length.
  set (k := least (fun i => match_at pred l s (first + i)) (length l - first)).
  destruct (least_spec (fun i => match_at pred l s (first + i)) (length l - first)) as (K1 & K2 & K3).
  fold k in K1, K2, K3.
  destruct (first + k =? length l) eqn:E.
  - apply Nat.eqb_eq in E. rewrite last_sat_none; [reflexivity|]. intros j Hj.
    destruct (Nat.leb_spec first j) as [Hle|Hgt]; [|reflexivity]. cbn [andb].
    replace j with (first + (j - first)) by lia. apply K2. lia.
  - apply Nat.eqb_neq in E. rewrite IH by (try exact Hs; lia). f_equal.
    rewrite (last_sat_split _ (length l) result (first + k)).
    + apply last_sat_ext. intros j Hj.
      destruct (Nat.leb_spec (S (first + k)) j) as [H1|H1]; cbn [andb]; [|reflexivity].
      replace (first <=? j) with true by (symmetry; apply Nat.leb_le; lia). reflexivity.
    + lia.
    + replace (first <=? first + k) with true by (symmetry; apply Nat.leb_le; lia). cbn [andb]. apply K3. lia.
Qed.

Lemma find_end_correct : forall pred l s, find_end_m pred l s = Ok (find_end_s pred l s).
Proof.
  intros pred l s. unfold find_end_m, find_end_s. destruct s as [|y s']; [reflexivity|].
  rewrite find_end_loop_correct by (try discriminate; lia). reflexivity.
Qed.

(* ------------------------------------------------------------------ search_n *)
Definition run_at pred (v : A) (c : nat) l (i : nat) : bool :=
  (i + c <=? length l) && forallb (fun x => pred x v) (firstn c (skipn i l)).

Lemma run_at_app_skip : forall pred v c g l j,
  run_at pred v c (g ++ l) (length g + j) = run_at pred v c l j.
Proof.
  intros pred v c g l j. unfold run_at. rewrite app_length, skipn_app.
  replace (length g + j - length g) with j by lia.
  rewrite skipn_all2 by lia. cbn [app]. f_equal.
  destruct (Nat.leb_spec (length g + j + c) (length g + length l)); destruct (Nat.leb_spec (j + c) (length l)); try reflexivity; lia.
Qed.

(* a position whose window covers a bad element is not a run *)
Lemma run_at_bad : forall pred v c l i k x, nth_error l k = Some x -> pred x v = false -> i <= k < i + c ->
  run_at pred v c l i = false.
Proof.
  intros pred v c l i k x Hk Hbad Hik. unfold run_at. apply andb_false_iff. right.
  apply not_true_is_false. intros H. rewrite forallb_forall in H.
  assert (Hin : In x (firstn c (skipn i l))).
  { apply (nth_error_In _ (k - i)). rewrite nth_error_firstn by lia. rewrite nth_error_skipn.
    replace (i + (k - i)) with k by lia. exact Hk. }
  specialize (H x Hin). congruence.
Qed.

Lemma search_n_loop_correct : forall pred (count : Z) v l g idx found,
  (0 < count)%Z -> length g < Z.to_nat count -> length g <= idx ->
  forallb (fun x => pred x v) g = true ->
  (length g > 0 -> found = idx - length g) ->
  search_n_loop pred count v l idx (Z.of_nat (length g)) found
  = idx - length g + least (run_at pred v (Z.to_nat count) (g ++ l)) (length (g ++ l)).
Proof.
  intros pred count v l; induction l as [|x t IH]; intros g idx found Hc Hg Hidx Hgood Hfound.
  - cbn [search_n_loop]. rewrite app_nil_r. rewrite least_none; [lia|].
    intros j Hj. unfold run_at. replace (_ <=? _) with false; [reflexivity|]. symmetry. apply Nat.leb_gt. lia.
  - cbn [search_n_loop]. destruct (pred x v) eqn:Hx.
    + assert (Hf' : (if (Z.of_nat (length g) =? 0)%Z then idx else found) = idx - length g).
      { destruct (Z.eqb_spec (Z.of_nat (length g)) 0) as [E|E]; [lia|]. apply Hfound. lia. }
      rewrite Hf'. destruct (Z.eqb_spec (Z.of_nat (length g) + 1) count) as [E|E].
      * (* the run is complete: it starts at position 0 of g ++ x :: t *)
        assert (L0 : least (run_at pred v (Z.to_nat count) (g ++ x :: t)) (length (g ++ x :: t)) = 0).
        { apply least_unique; [lia| intros j Hj; lia |]. intros _. unfold run_at.
          rewrite app_length. cbn [length skipn]. apply andb_true_intro. split; [apply Nat.leb_le; lia|].
          replace (Z.to_nat count) with (length g + 1) by lia.
          rewrite firstn_app, firstn_all2 by lia. replace (length g + 1 - length g) with 1 by lia.
          cbn [firstn]. rewrite forallb_app, Hgood. cbn [forallb]. rewrite Hx. reflexivity. }
        rewrite L0. lia.
      * replace (Z.of_nat (length g) + 1)%Z with (Z.of_nat (length (g ++ [x]))) by (rewrite app_length; cbn [length]; lia).
        rewrite (IH (g ++ [x]) (S idx) (idx - length g)).
        -- rewrite <- app_assoc. cbn [app]. rewrite app_length. cbn [length]. lia.
        -- exact Hc.
        -- rewrite app_length. cbn [length]. lia.
        -- rewrite app_length. cbn [length]. lia.
        -- rewrite forallb_app, Hgood. cbn [forallb]. rewrite Hx. reflexivity.
        -- intros _. rewrite app_length. cbn [length]. lia.
    + destruct (Z.eqb_spec 0 count) as [E|E]; [lia|].
      change 0%Z with (Z.of_nat (length (@nil A))).
      rewrite (IH [] (S idx) found) by (cbn [length forallb]; try lia; reflexivity).
      cbn [app length].
      rewrite (least_skip (S (length g)) (run_at pred v (Z.to_nat count) (g ++ x :: t))).
      * rewrite app_length. cbn [length].
        replace (length g + S (length t) - S (length g)) with (length t) by lia.
        rewrite (least_ext (fun j => run_at pred v (Z.to_nat count) (g ++ x :: t) (S (length g) + j)) (run_at pred v (Z.to_nat count) t)).
        -- lia.
        -- intros j _. replace (g ++ x :: t) with ((g ++ [x]) ++ t) by (rewrite <- app_assoc; reflexivity).
           replace (S (length g) + j) with (length (g ++ [x]) + j) by (rewrite app_length; cbn [length]; lia).
           apply run_at_app_skip.
      * rewrite app_length. cbn [length]. lia.
      * intros j Hj. apply (run_at_bad pred v _ _ j (length g) x).
        -- rewrite nth_error_app2 by lia. rewrite Nat.sub_diag. reflexivity.
        -- exact Hx.
        -- lia.
Qed.

Lemma search_n_correct : forall pred l count v, search_n_m pred l count v = search_n_s pred l count v.
Proof.
  intros pred l count v. unfold search_n_m, search_n_s. destruct (count <=? 0)%Z eqn:E; [reflexivity|].
  apply Z.leb_gt in E. change 0%Z with (Z.of_nat (length (@nil A))) at 1.
  rewrite (search_n_loop_correct pred count v l [] 0 0) by (cbn [length forallb]; try lia; reflexivity).
  reflexivity.
Qed.

(* ------------------------------------------------------------------ is_sorted_until / is_sorted *)
Lemma isu_loop_adj : forall lt t x,
  isu_loop lt x t = least (fun i => negb (sorted_adj lt (firstn (S i) (x :: t)))) (length (x :: t)).
Proof.
  intros lt t; induction t as [|y t IH]; intros x.
  - reflexivity.
  - cbn [isu_loop]. cbn [length]. rewrite least_S. cbn [firstn sorted_adj negb]. rewrite least_S.
    change (sorted_adj lt (firstn 2 (x :: y :: t))) with (negb (lt y x) && true).
    rewrite andb_true_r, negb_involutive. destruct (lt y x) eqn:Hyx; [reflexivity|].
    rewrite IH. cbn [length]. rewrite least_S. cbn [firstn sorted_adj negb]. reflexivity.
Qed.

Lemma is_sorted_until_correct : forall lt l, strict_weak lt ->
  is_sorted_until_m lt l = is_sorted_until_s lt l.
Proof.
  intros lt l SW. unfold is_sorted_until_s. destruct l as [|x t]; [reflexivity|].
  cbn [is_sorted_until_m]. rewrite isu_loop_adj. apply least_ext. intros j _.
  rewrite (sorted_all_adj lt SW). reflexivity.
Qed.

Lemma isu_loop_full : forall lt t x, (isu_loop lt x t =? S (length t)) = sorted_adj lt (x :: t).
Proof.
  intros lt t; induction t as [|y t IH]; intros x; [reflexivity|].
  cbn [isu_loop length]. change (sorted_adj lt (x :: y :: t)) with (negb (lt y x) && sorted_adj lt (y :: t)).
  destruct (lt y x); cbn [negb andb]; [reflexivity|]. rewrite <- IH. reflexivity.
Qed.

Lemma is_sorted_correct : forall lt l, strict_weak lt -> is_sorted_m lt l = is_sorted_s lt l.
Proof.
  intros lt l SW. unfold is_sorted_m, is_sorted_s. rewrite (sorted_all_adj lt SW).
  destruct l as [|x t]; [reflexivity|]. apply isu_loop_full.
Qed.

End Search.
