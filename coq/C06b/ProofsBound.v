(* C06b proofs, part 4: lower_bound, upper_bound, equal_range, binary_search (halving loops). *)
From Tetl Require Import Lib.Base C06b.Model C06b.Spec C06b.ListX C06b.ProofsScan.
Ltac Zify.zify_post_hook ::= Z.to_euclidean_division_equations.

Section Bound.
Context {A : Type}.
Implicit Types (l : list A) (test : A -> bool) (lt : A -> A -> bool).

Lemma filter_length_le' : forall test l, length (filter test l) <= length l.
Proof.
  intros test l; induction l as [|x t IH]; cbn [filter length]; [lia|].
  destruct (test x); cbn [length]; lia.
Qed.

(* position-wise reading of partitioned_at *)
Lemma partitioned_at_nth : forall test l k, partitioned_at test l k = true ->
  forall i x, nth_error l i = Some x -> (i < k -> test x = true) /\ (k <= i -> test x = false).
Proof.
  intros test l k H i x Hx. unfold partitioned_at in H. apply andb_prop in H. destruct H as [H1 H2].
  rewrite forallb_forall in H1, H2. split; intros Hi.
  - apply H1. apply (nth_error_In _ i). rewrite nth_error_firstn by exact Hi. exact Hx.
  - apply negb_true_iff. apply H2. apply (nth_error_In _ (i - k)). rewrite nth_error_skipn.
    replace (k + (i - k)) with i by lia. exact Hx.
Qed.

Lemma bound_loop_correct : forall test l k,
  (forall i x, nth_error l i = Some x -> (i < k -> test x = true) /\ (k <= i -> test x = false)) ->
  forall fuel first count,
  count < fuel -> first <= k <= first + count -> first + count <= length l ->
  bound_loop test l fuel first count = Ok k.
Proof.
  intros test l k Hk fuel; induction fuel as [|fuel IH]; intros first count Hfuel Hrange Hlen; [lia|].
  cbn [bound_loop]. destruct (Nat.eqb_spec count 0) as [E|E].
  - f_equal. lia.
  - pose proof (Nat.div2_div count) as Hd. set (step := Nat.div2 count) in *.
    assert (Hstep : 2 * step <= count < 2 * step + 2).
    { rewrite Hd. pose proof (Nat.div_mod count 2). pose proof (Nat.mod_upper_bound count 2). lia. }
    destruct (nth_error l (first + step)) as [e|] eqn:He.
    + destruct (Hk _ _ He) as [Ht Hf]. destruct (test e) eqn:Te.
      * assert (first + step < k).
        { destruct (Nat.lt_ge_cases (first + step) k) as [Hlt|Hge]; [exact Hlt|]. specialize (Hf Hge). congruence. }
        apply IH; lia.
      * assert (k <= first + step).
        { destruct (Nat.lt_ge_cases (first + step) k) as [Hlt|Hge]; [|exact Hge]. specialize (Ht Hlt). congruence. }
        apply IH; lia.
    + apply nth_error_None in He. lia.
Qed.

Lemma bound_correct : forall test l, partitioned test l = true ->
  bound_loop test l (S (length l)) 0 (length l) = Ok (partition_point_s test l).
Proof.
  intros test l Hp. apply bound_loop_correct.
  - apply partitioned_at_nth. apply partition_point_s_spec. exact Hp.
  - lia.
  - unfold partition_point_s. pose proof (filter_length_le' test l). lia.
  - lia.
Qed.

Lemma lower_bound_correct : forall lt l v, partitioned (fun e => lt e v) l = true ->
  lower_bound_m lt l v = Ok (lower_bound_s lt l v).
Proof. intros lt l v Hp. apply (bound_correct (fun e => lt e v)). exact Hp. Qed.

Lemma upper_bound_correct : forall lt l v, partitioned (fun e => negb (lt v e)) l = true ->
  upper_bound_m lt l v = Ok (upper_bound_s lt l v).
Proof. intros lt l v Hp. apply (bound_correct (fun e => negb (lt v e))). exact Hp. Qed.

Lemma equal_range_correct : forall lt l v,
  partitioned (fun e => lt e v) l = true -> partitioned (fun e => negb (lt v e)) l = true ->
  equal_range_m lt l v = Ok (equal_range_s lt l v).
Proof.
  intros lt l v H1 H2. unfold equal_range_m. rewrite lower_bound_correct, upper_bound_correct by assumption.
  reflexivity.
Qed.

Lemma binary_search_correct : forall lt l v,
  partitioned (fun e => lt e v) l = true -> partitioned (fun e => negb (lt v e)) l = true ->
  binary_search_m lt l v = Ok (binary_search_s lt l v).
Proof.
  intros lt l v H1 H2. unfold binary_search_m. rewrite lower_bound_correct by exact H1. cbn [rbind].
  pose proof (partitioned_at_nth _ _ _ (partition_point_s_spec _ _ H1)) as P1.
  pose proof (partitioned_at_nth _ _ _ (partition_point_s_spec _ _ H2)) as P2.
  fold (lower_bound_s lt l v) in P1. fold (upper_bound_s lt l v) in P2.
  set (k := lower_bound_s lt l v) in *. set (k2 := upper_bound_s lt l v) in *.
  unfold binary_search_s. cbv beta in P1, P2.
  destruct (nth_error l k) as [e|] eqn:He; f_equal.
  - destruct (lt v e) eqn:Hve; cbn [negb].
    + (* l[k] is greater than v: so is everything from k on, and everything before k is less *)
      symmetry. apply not_true_is_false. intros Hex. apply existsb_exists in Hex.
      destruct Hex as (x & Hin & Hx). apply andb_prop in Hx. destruct Hx as [Hx1 Hx2].
      apply negb_true_iff in Hx1, Hx2. apply In_nth_error in Hin. destruct Hin as [i Hi].
      destruct (P1 _ _ Hi) as [A1 A2]. destruct (P2 _ _ Hi) as [B1 B2]. destruct (P2 _ _ He) as [C1 C2].
      assert (k2 <= k).
      { destruct (Nat.lt_ge_cases k k2) as [Hlt|Hge]; [|exact Hge]. specialize (C1 Hlt). rewrite Hve in C1. discriminate. }
      destruct (Nat.lt_ge_cases i k) as [Hlt|Hge].
      * specialize (A1 Hlt). congruence.
      * assert (Hk2 : k2 <= i) by lia. specialize (B2 Hk2). rewrite Hx2 in B2. discriminate.
    + symmetry. apply existsb_exists. exists e. split; [apply (nth_error_In _ k); exact He|].
      destruct (P1 _ _ He) as [_ A2]. rewrite (A2 (Nat.le_refl k)), Hve. reflexivity.
  - (* k = length: every element is less than v *)
    symmetry. apply not_true_is_false. intros Hex. apply existsb_exists in Hex.
    destruct Hex as (x & Hin & Hx). apply andb_prop in Hx. destruct Hx as [Hx1 _].
    apply negb_true_iff in Hx1. apply In_nth_error in Hin. destruct Hin as [i Hi].
    destruct (P1 _ _ Hi) as [A1 _]. apply nth_error_None in He.
    assert (Hlt : i < k). { assert (i < length l) by (apply nth_error_Some; congruence). lia. }
    specialize (A1 Hlt). congruence.
Qed.

End Bound.
