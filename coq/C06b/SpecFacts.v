(* C06b: the set-operation specifications of Spec.v (written with multiset surgery) satisfy the
   multiplicity rules in the wording of [set.union] .. [set.symmetric.difference]:
   max(m,n), min(m,n), max(m-n,0), |m-n| copies of every equivalence class, sorted output. *)
From Tetl Require Import Lib.Base C06b.Spec C06b.Order C06b.ProofsSet C06b.ProofsIncludes.
Ltac Zify.zify_post_hook ::= Z.to_euclidean_division_equations.

Section SpecFacts.
Context {A : Type} (lt : A -> A -> bool) (SW : strict_weak lt).
Implicit Types (l : list A).

Notation ceq := (count_eqv lt).
Notation rm := (remove_first_eqv lt).

Lemma ceq_app : forall z l1 l2, ceq z (l1 ++ l2) = ceq z l1 + ceq z l2.
Proof. intros z l1 l2. unfold count_eqv. rewrite filter_app, app_length. reflexivity. Qed.

Lemma equiv_trans_false : forall y x z, equiv lt y x = true -> equiv lt z y = false -> equiv lt z x = false.
Proof.
  intros y x z Eyx Ezy. destruct (equiv lt z x) eqn:Ezx; [|reflexivity].
  assert (E : equiv lt z y = true).
  { apply (equiv_trans lt SW z x y Ezx). rewrite (equiv_sym lt). exact Eyx. }
  congruence.
Qed.

(* removing the first element equivalent to y lowers the count of y's class by one (if any) *)
Lemma ceq_rm : forall z y l, ceq z (rm y l) = if equiv lt z y then pred (ceq z l) else ceq z l.
Proof.
  intros z y l; induction l as [|x t IH]; [cbn; destruct (equiv lt z y); reflexivity|].
  cbn [remove_first_eqv]. destruct (equiv lt y x) eqn:Eyx.
  - rewrite (ceq_cons lt z x). destruct (equiv lt z y) eqn:Ezy.
    + rewrite (equiv_trans lt SW z y x Ezy Eyx). reflexivity.
    + rewrite (equiv_trans_false y x z Eyx Ezy). reflexivity.
  - rewrite !(ceq_cons lt z x), IH. destruct (equiv lt z y) eqn:Ezy; [|reflexivity].
    replace (equiv lt z x) with false; [reflexivity|]. symmetry.
    destruct (equiv lt z x) eqn:Ezx; [|reflexivity].
    assert (E : equiv lt y x = true). { apply (equiv_trans lt SW y z x); [rewrite (equiv_sym lt); exact Ezy|exact Ezx]. }
    congruence.
Qed.

(* [set.difference]: max(m - n, 0) *)
Lemma set_difference_s_count : forall z l2 l1,
  ceq z (set_difference_s lt l1 l2) = ceq z l1 - ceq z l2.
Proof.
  intros z l2; induction l2 as [|y t2 IH]; intros l1.
  { unfold set_difference_s. cbn [fold_left]. change (ceq z []) with 0. lia. }
  unfold set_difference_s in *. cbn [fold_left]. rewrite IH, ceq_rm, (ceq_cons lt z y).
  destruct (equiv lt z y); lia.
Qed.

Lemma existsb_equiv_count : forall x l, existsb (equiv lt x) l = negb (ceq x l =? 0).
Proof.
  intros x l; induction l as [|a t IH]; [reflexivity|].
  cbn [existsb]. rewrite (ceq_cons lt x a), IH. destruct (equiv lt x a); reflexivity.
Qed.

(* [set.intersection]: min(m, n) *)
Lemma set_intersection_s_count : forall z l1 l2,
  ceq z (set_intersection_s lt l1 l2) = Nat.min (ceq z l1) (ceq z l2).
Proof.
  intros z l1; induction l1 as [|x t IH]; intros l2; [reflexivity|].
  cbn [set_intersection_s]. rewrite existsb_equiv_count. rewrite (ceq_cons lt z x).
  destruct (ceq x l2 =? 0) eqn:E0; cbn [negb].
  - apply Nat.eqb_eq in E0. rewrite IH. destruct (equiv lt z x) eqn:Ezx; [|reflexivity].
    rewrite (ceq_equiv lt SW z x l2 Ezx), E0. lia.
  - apply Nat.eqb_neq in E0. rewrite (ceq_cons lt z x), IH, ceq_rm. destruct (equiv lt z x) eqn:Ezx; [|reflexivity].
    rewrite (ceq_equiv lt SW z x l2 Ezx). lia.
Qed.

Lemma ceq_insert : forall z x l, ceq z (insert_stable lt x l) = (if equiv lt z x then 1 else 0) + ceq z l.
Proof.
  intros z x l; induction l as [|y t IH]; [cbn [insert_stable]; apply (ceq_cons lt z x)|].
  cbn [insert_stable]. destruct (lt y x).
  - rewrite !(ceq_cons lt z y), IH. lia.
  - rewrite (ceq_cons lt z x). reflexivity.
Qed.

Lemma stable_sort_s_count : forall z l, ceq z (stable_sort_s lt l) = ceq z l.
Proof.
  intros z l; induction l as [|x t IH]; [reflexivity|].
  unfold stable_sort_s in *. cbn [fold_right]. rewrite ceq_insert, IH, (ceq_cons lt z x). reflexivity.
Qed.

(* [alg.merge]: m + n *)
Lemma merge_s_count : forall z l1 l2, ceq z (merge_s lt l1 l2) = ceq z l1 + ceq z l2.
Proof. intros. unfold merge_s. rewrite stable_sort_s_count. apply ceq_app. Qed.

(* [set.union]: max(m, n) *)
Lemma set_union_s_count : forall z l1 l2, ceq z (set_union_s lt l1 l2) = Nat.max (ceq z l1) (ceq z l2).
Proof. intros. unfold set_union_s. rewrite stable_sort_s_count, ceq_app, set_difference_s_count. lia. Qed.

(* [set.symmetric.difference]: |m - n| *)
Lemma set_symmetric_difference_s_count : forall z l1 l2,
  ceq z (set_symmetric_difference_s lt l1 l2) = (ceq z l1 - ceq z l2) + (ceq z l2 - ceq z l1).
Proof. intros. unfold set_symmetric_difference_s. rewrite stable_sort_s_count, ceq_app, !set_difference_s_count. reflexivity. Qed.

(* the stable sort produces a sorted sequence *)
Lemma insert_sorted : forall x l, sorted_all lt l = true -> sorted_all lt (insert_stable lt x l) = true.
Proof.
  intros x l. rewrite !(sorted_all_adj lt SW). induction l as [|y t IH]; intros Hs; [reflexivity|].
  cbn [insert_stable]. destruct (lt y x) eqn:Hyx.
  - assert (Ht : sorted_adj lt t = true).
    { destruct t as [|w t']; [reflexivity|]. cbn [sorted_adj] in Hs. apply andb_prop in Hs. apply Hs. }
    specialize (IH Ht). destruct t as [|w t'].
    + cbn [insert_stable sorted_adj]. rewrite (sw_asym lt SW y x Hyx). reflexivity.
    + cbn [insert_stable] in *. cbn [sorted_adj] in Hs. apply andb_prop in Hs. destruct Hs as [Hwy _].
      destruct (lt w x).
      * change (sorted_adj lt (y :: w :: insert_stable lt x t')) with (negb (lt w y) && sorted_adj lt (w :: insert_stable lt x t')).
        rewrite Hwy, IH. reflexivity.
      * change (sorted_adj lt (y :: x :: w :: t')) with (negb (lt x y) && sorted_adj lt (x :: w :: t')).
        rewrite (sw_asym lt SW y x Hyx), IH. reflexivity.
  - change (sorted_adj lt (x :: y :: t)) with (negb (lt y x) && sorted_adj lt (y :: t)). rewrite Hyx, Hs. reflexivity.
Qed.

Lemma stable_sort_s_sorted : forall l, sorted_all lt (stable_sort_s lt l) = true.
Proof.
  intros l; induction l as [|x t IH]; [reflexivity|].
  unfold stable_sort_s in *. cbn [fold_right]. apply insert_sorted. exact IH.
Qed.

End SpecFacts.
