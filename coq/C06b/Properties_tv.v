(* C06 (part b) — fix-miss round 4: the result of a predicate enters the non-mutating algorithms only through its truth
   value.  For ANY result type R of the predicate and ANY conversion truth : R -> bool ([algorithms.requirements]: the
   result is contextually converted to bool), the modelled code `if (p( *it ))` is the model run with the predicate
   x |-> truth (p x); two predicates with the same truth values - e.g. one returning 0/1 and one returning 0/2, 0/-1,
   0/4096 - give the same result, and count_if counts the elements whose predicate result converts to true (it does not
   add the predicate results up: the seeded change C06-h2). *)
From Tetl Require Import Lib.Base C06b.Model C06b.Spec C06b.ProofsScan.
From Coq Require Import List.
Import ListNotations.

Definition tv {A R : Type} (truth : R -> bool) (p : A -> R) : A -> bool := fun x => truth (p x).

Lemma least_from_ext (P Q : nat -> bool) : (forall i, P i = Q i) -> forall k i, least_from P i k = least_from Q i k.
Proof. intros H. induction k as [|k IH]; intros i; cbn [least_from]; [reflexivity|]. rewrite H, IH. reflexivity. Qed.

Lemma forallb_ext' {A} (f g : A -> bool) : (forall x, f x = g x) -> forall l, forallb f l = forallb g l.
Proof. intros H. induction l as [|x l IH]; cbn [forallb]; [reflexivity|]. rewrite H, IH. reflexivity. Qed.

Lemma existsb_ext' {A} (f g : A -> bool) : (forall x, f x = g x) -> forall l, existsb f l = existsb g l.
Proof. intros H. induction l as [|x l IH]; cbn [existsb]; [reflexivity|]. rewrite H, IH. reflexivity. Qed.

Theorem C06b_truth_value_only : forall (A R : Type) (truth : R -> bool) (p q : A -> R) (l : list A),
  (forall x, truth (p x) = truth (q x)) ->
  count_if_m (tv truth p) l = count_if_m (tv truth q) l
  /\ count_if_m (tv truth p) l = length (filter (fun x => truth (p x)) l)
  /\ find_if_m (tv truth p) l = find_if_m (tv truth q) l
  /\ find_if_not_m (tv truth p) l = find_if_not_m (tv truth q) l
  /\ all_of_m (tv truth p) l = all_of_m (tv truth q) l
  /\ any_of_m (tv truth p) l = any_of_m (tv truth q) l
  /\ none_of_m (tv truth p) l = none_of_m (tv truth q) l.
Proof.
  intros A R truth p q l H.
  assert (Hf : forall x, tv truth p x = tv truth q x) by (intros x; apply H).
  rewrite !count_if_correct, !find_if_correct, !find_if_not_correct, !all_of_correct, !any_of_correct, !none_of_correct.
  unfold count_if_s, find_if_not_s, find_if_s, all_of_s, any_of_s, none_of_s, least.
  assert (Hl : forall i, at_ l i (tv truth p) = at_ l i (tv truth q))
    by (intros i; unfold at_; destruct (nth_error l i); [apply Hf|reflexivity]).
  assert (Hn : forall i, at_ l i (fun x => negb (tv truth p x)) = at_ l i (fun x => negb (tv truth q x)))
    by (intros i; unfold at_; destruct (nth_error l i); [rewrite Hf; reflexivity|reflexivity]).
  split; [rewrite (filter_ext _ _ Hf l); reflexivity|].
  split; [reflexivity|].
  split; [apply least_from_ext; exact Hl|].
  split; [apply least_from_ext; exact Hn|].
  split; [apply forallb_ext'; exact Hf|].
  split; [apply existsb_ext'; exact Hf|].
  rewrite (existsb_ext' _ _ Hf l). reflexivity.
Qed.
Print Assumptions C06b_truth_value_only.

(* not vacuous, and the distinction is real: a predicate with truthy value 2 on [1; 2; 3; 6; 7; 2]: three hits, sum 6 *)
Example C06b_truth_value_nonvacuous :
  count_if_m (tv (fun r : Z => negb (r =? 0)%Z) (fun x : Z => Z.land x 2)) [1; 2; 3; 6; 7; 2]%Z = 5
  /\ fold_left Z.add (map (fun x : Z => Z.land x 2) [1; 2; 3; 6; 7; 2]%Z) 0%Z = 10%Z.
Proof. split; reflexivity. Qed.
