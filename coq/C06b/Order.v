(* C06b: consequences of [alg.sorting]'s strict weak ordering and sortedness definitions. *)
From Tetl Require Import Lib.Base C06b.Spec.

Section Order.
Context {A : Type} (lt : A -> A -> bool) (SW : strict_weak lt).

Lemma sw_asym : forall a b, lt a b = true -> lt b a = false.
Proof.
  intros a b Hab. destruct (lt b a) eqn:Hba; [|reflexivity].
  pose proof (sw_trans lt SW a b a Hab Hba) as H. rewrite (sw_irrefl lt SW) in H. discriminate.
Qed.

(* negative transitivity: "not less" is transitive *)
Lemma sw_ntrans : forall a b c, lt a b = false -> lt b c = false -> lt a c = false.
Proof.
  intros a b c Hab Hbc. destruct (lt a c) eqn:Hac; [|reflexivity].
  destruct (lt b a) eqn:Hba.
  { pose proof (sw_trans lt SW b a c Hba Hac) as H. congruence. }
  destruct (lt c b) eqn:Hcb.
  { pose proof (sw_trans lt SW a c b Hac Hcb) as H. congruence. }
  assert (E : equiv lt a c = true).
  { apply (sw_equiv_trans lt SW a b c); unfold equiv; [rewrite Hab, Hba|rewrite Hbc, Hcb]; reflexivity. }
  unfold equiv in E. rewrite Hac in E. discriminate.
Qed.

(* a < b <= c *)
Lemma sw_lt_le : forall a b c, lt a b = true -> lt c b = false -> lt a c = true.
Proof.
  intros a b c Hab Hcb. destruct (lt a c) eqn:Hac; [reflexivity|].
  pose proof (sw_ntrans a c b Hac Hcb). congruence.
Qed.

(* a <= b < c *)
Lemma sw_le_lt : forall a b c, lt b a = false -> lt b c = true -> lt a c = true.
Proof.
  intros a b c Hba Hbc. destruct (lt a c) eqn:Hac; [reflexivity|].
  pose proof (sw_ntrans b a c Hba Hac). congruence.
Qed.

Lemma equiv_refl : forall a, equiv lt a a = true.
Proof. intros a. unfold equiv. rewrite (sw_irrefl lt SW). reflexivity. Qed.

Lemma equiv_sym : forall a b, equiv lt a b = equiv lt b a.
Proof. intros a b. unfold equiv. apply andb_comm. Qed.

Lemma equiv_trans : forall a b c, equiv lt a b = true -> equiv lt b c = true -> equiv lt a c = true.
Proof. exact (sw_equiv_trans lt SW). Qed.

(* equivalent elements compare alike *)
Lemma equiv_lt_l : forall a b c, equiv lt a b = true -> lt a c = lt b c.
Proof.
  intros a b c E. unfold equiv in E. apply andb_prop in E. destruct E as [E1 E2].
  apply negb_true_iff in E1, E2.
  destruct (lt a c) eqn:Hac; destruct (lt b c) eqn:Hbc; try reflexivity.
  - pose proof (sw_ntrans a b c E1 Hbc). congruence.
  - pose proof (sw_ntrans b a c E2 Hac). congruence.
Qed.

Lemma equiv_lt_r : forall a b c, equiv lt a b = true -> lt c a = lt c b.
Proof.
  intros a b c E. unfold equiv in E. apply andb_prop in E. destruct E as [E1 E2].
  apply negb_true_iff in E1, E2.
  destruct (lt c a) eqn:Hca; destruct (lt c b) eqn:Hcb; try reflexivity.
  - pose proof (sw_ntrans c b a Hcb E2). congruence.
  - pose proof (sw_ntrans c a b Hca E1). congruence.
Qed.

(* ------------------------------------------------------------------ sortedness *)
(* no adjacent inversion *)
Fixpoint sorted_adj (l : list A) : bool :=
  match l with
  | [] => true
  | x :: t => match t with [] => true | y :: _ => negb (lt y x) && sorted_adj t end
  end.

Lemma sorted_adj_all_ge : forall t x, sorted_adj (x :: t) = true -> forallb (fun y => negb (lt y x)) t = true.
Proof.
  intros t; induction t as [|y t IH]; intros x H; [reflexivity|].
  cbn [sorted_adj] in H. apply andb_prop in H. destruct H as [H1 H2]. cbn [forallb]. rewrite H1. cbn [andb].
  specialize (IH y H2). rewrite forallb_forall in *. intros z Hz. specialize (IH z Hz).
  apply negb_true_iff in H1, IH. apply negb_true_iff. exact (sw_ntrans z y x IH H1).
Qed.

(* under a strict weak ordering the standard's all-pairs definition is the adjacent one *)
Lemma sorted_all_adj : forall l, sorted_all lt l = sorted_adj l.
Proof.
  intros l; induction l as [|x t IH]; [reflexivity|].
  cbn [sorted_all]. rewrite IH. destruct t as [|y t]; [reflexivity|].
  change (sorted_adj (x :: y :: t)) with (negb (lt y x) && sorted_adj (y :: t)).
  destruct (sorted_adj (y :: t)) eqn:Hs.
  - cbn [forallb]. destruct (negb (lt y x)) eqn:Hyx; cbn [andb]; [|reflexivity].
    rewrite andb_true_r. pose proof (sorted_adj_all_ge t y Hs) as Hge.
    rewrite forallb_forall in *. intros z Hz. specialize (Hge z Hz).
    apply negb_true_iff in Hyx, Hge. apply negb_true_iff. exact (sw_ntrans z y x Hge Hyx).
  - rewrite !andb_false_r. reflexivity.
Qed.

Lemma sorted_all_cons : forall x t, sorted_all lt (x :: t) = true ->
  (forall y, In y t -> lt y x = false) /\ sorted_all lt t = true.
Proof.
  intros x t H. cbn [sorted_all] in H. apply andb_prop in H. destruct H as [H1 H2]. split; [|exact H2].
  intros y Hy. rewrite forallb_forall in H1. apply negb_true_iff. apply H1. exact Hy.
Qed.

Lemma sorted_all_intro : forall x t, (forall y, In y t -> lt y x = false) -> sorted_all lt t = true ->
  sorted_all lt (x :: t) = true.
Proof.
  intros x t H1 H2. cbn [sorted_all]. rewrite H2, andb_true_r. apply forallb_forall. intros y Hy.
  apply negb_true_iff. apply H1. exact Hy.
Qed.

End Order.

(* every comparator of the form key x < key y is a strict weak ordering: covers the families
   used by the correspondence run (less, greater, mod 3, key with tag) *)
Lemma key_strict_weak : forall {A : Type} (key : A -> Z), strict_weak (fun x y => (key x <? key y)%Z).
Proof.
  intros A key. split.
  - intros a. apply Z.ltb_irrefl.
  - intros a b c H1 H2. apply Z.ltb_lt in H1, H2. apply Z.ltb_lt. lia.
  - intros a b c H1 H2. unfold equiv in *. apply andb_prop in H1, H2. destruct H1 as [H1 H1'], H2 as [H2 H2'].
    apply negb_true_iff, Z.ltb_ge in H1, H1', H2, H2'.
    apply andb_true_intro. split; apply negb_true_iff, Z.ltb_ge; lia.
Qed.
