(* C06 (part b) — fix-miss round 5: the numeric folds on HETEROGENEOUS arithmetic types.

   The value-level models of Model.v (accumulate_m, inner_product_m, ...) are polymorphic in the accumulator type T and the
   element types, the whole question of "in which type is this + / * carried out, and where is the result converted" being
   hidden in the operation handed to them.  This file makes it explicit for the built-in arithmetic types:

   * a value carries its static type (`tv` = type tag + value);
   * `tbin o x y` is what a TRANSPARENT functor (etl::plus<>, etl::multiplies<>, etl::minus<>, a generic lambda) or the
     built-in operator does: integral promotion + usual arithmetic conversions of BOTH operands to the common type
     ([expr.arith.conv]), the operation is carried out in that type and the result has that type;
   * `fbin T o x y` is what a TYPED functor etl::plus<T> does: both operands are converted to T first, the result is a T;
   * `cvt T x` is the conversion that an assignment `init = ...` (init of type T) or `*dest = ...` performs.

   The meaning of a conversion and of an operation inside one type is a parameter (conv, arith): the driver instantiates it
   with IEEE doubles (exact for every type of the run), the theorems hold for every instantiation.                      *)
From Tetl Require Import Lib.Base C06b.Model C06b.Spec.
From Coq Require Import List.
Import ListNotations.

Inductive nty := NU8 | NI32 | NI64 | NF32 | NF64.

(* [conv.prom]: unsigned char -> int *)
Definition promote (t : nty) : nty := match t with NU8 => NI32 | _ => t end.

(* [expr.arith.conv] for the five types of the run *)
Definition common (a b : nty) : nty :=
  match promote a, promote b with
  | NF64, _ | _, NF64 => NF64
  | NF32, _ | _, NF32 => NF32
  | NI64, _ | _, NI64 => NI64
  | _, _ => NI32
  end.

Section Typed.
Context {V : Type}.
Variable conv : nty -> V -> V.                  (* conversion of a value to the type *)
Variable arith : nat -> nty -> V -> V -> V.     (* operation id (0 +, 1 -, 2 * ) carried out in the type *)
Variable zero one : V.

Record tv := TV { ty : nty; val : V }.

Definition cvt (T : nty) (x : tv) : tv := TV T (conv T (val x)).
Definition tbin (o : nat) (x y : tv) : tv :=
  let t := common (ty x) (ty y) in TV t (arith o t (conv t (val x)) (conv t (val y))).
Definition fbin (T : nty) (o : nat) (x y : tv) : tv := cvt T (tbin o (cvt T x) (cvt T y)).

(* accumulate.hpp: init = etl::move(init) + *first;   init = op(etl::move(init), *first)  (op transparent) *)
Definition accumulate_t (o : nat) (T : nty) (l : list tv) (init : tv) : tv :=
  accumulate_m (fun acc x => cvt T (tbin o acc x)) l (cvt T init).

(* reduce.hpp: reduce(f, l, init, op) = accumulate; reduce(f, l, init) = reduce(f, l, init, plus<>());
   reduce(f, l) starts from value_type{} *)
Definition reduce_t (o : nat) (T : nty) (l : list tv) (init : tv) : tv := accumulate_t o T l init.
Definition reduce0_t (E : nty) (l : list tv) : tv := reduce_t 0 E l (TV E zero).

(* inner_product.hpp: init = etl::move(init) + *first1 * *first2;  init = op1(etl::move(init), op2( *first1, *first2)) *)
Definition inner_product_t (o1 o2 : nat) (T : nty) (l1 l2 : list tv) (init : tv) : res tv :=
  inner_product_m (fun acc w => cvt T (tbin o1 acc w)) (tbin o2) l1 l2 (cvt T init).

(* transform_reduce.hpp (two ranges): init = reduce(init, transform( *first1, *first2));
   the 4-argument overload passes etl::plus() and etl::multiplies() - the TRANSPARENT functors *)
Definition transform_reduce_t (o1 o2 : nat) (T : nty) (l1 l2 : list tv) (init : tv) : res tv :=
  inner_product_m (fun acc w => cvt T (tbin o1 acc w)) (tbin o2) l1 l2 (cvt T init).
Definition transform_reduce4_t (T : nty) (l1 l2 : list tv) (init : tv) : res tv := transform_reduce_t 0 2 T l1 l2 init.

(* what the 4-argument overload would compute with the typed functors plus<T> / multiplies<T> (NOT the code: the witness of
   the non-vacuity example) *)
Definition transform_reduce4_typed (T : nty) (l1 l2 : list tv) (init : tv) : res tv :=
  inner_product_m (fun acc w => cvt T (fbin T 0 acc w)) (fbin T 2) l1 l2 (cvt T init).

(* transform_reduce.hpp (one range): init = reduce(init, transform( *first)); the run uses transform = [](auto x) { return x * x; } *)
Definition transform_reduce1_t (o : nat) (T : nty) (l : list tv) (init : tv) : tv :=
  transform_reduce1_m (fun acc w => cvt T (tbin o acc w)) (fun x => tbin 2 x x) l (cvt T init).

(* partial_sum.hpp: auto sum = *first (the value type E of the source); sum = op(etl::move(sum), *first); *++destination = sum *)
Definition partial_sum_t (o : nat) (E D : nty) (l : list tv) : list tv :=
  map (cvt D) (partial_sum_m (fun s x => cvt E (tbin o s x)) (map (cvt E) l)).

(* adjacent_difference.hpp: *++destination = op(val, etl::move(acc)) - the result of op goes straight to the destination;
   the overload without op passes the transparent etl::minus<>() (after the fix of round 5; it passed etl::minus<value_type>(),
   i.e. `fbin E 1`, which converts the difference back to the value type of the SOURCE before it reaches the destination) *)
Definition adjacent_difference_t (dflt : bool) (o : nat) (E D : nty) (l : list tv) : list tv :=
  map (cvt D) (adjacent_difference_m (fun v a => tbin (if dflt then 1 else o) v a) (map (cvt E) l)).
(* the code before the fix (kept for the refutation example) *)
Definition adjacent_difference_before_fix (E D : nty) (l : list tv) : list tv :=
  map (cvt D) (adjacent_difference_m (fun v a => fbin E 1 v a) (map (cvt E) l)).

(* iota.hpp: *first++ = value; ++value   (value of type T, elements of type D) *)
Definition iota_t (T D : nty) (n : nat) (v : tv) : list tv :=
  map (cvt D) (iota_m (fun x => cvt T (tbin 0 x (TV NI32 one))) n (cvt T v)).

(* ---- the standard's wording ([accumulate], [inner.product], [partial.sum], [adjacent.difference], [numeric.iota]):
   "acc = std::move(acc) + *i" / "acc = binary_op(std::move(acc), *i)" for every i in order, acc of type T;
   [reduce] / [transform.reduce]: GENERALIZED_SUM - equal to the left fold whenever the grouping does not matter (the
   driver prints `na` otherwise). *)
Definition accumulate_ts (o : nat) (T : nty) (l : list tv) (init : tv) : tv :=
  fold_left (fun acc x => cvt T (tbin o acc x)) l (cvt T init).
Definition inner_product_ts (o1 o2 : nat) (T : nty) (l1 l2 : list tv) (init : tv) : tv :=
  fold_left (fun acc w => cvt T (tbin o1 acc w)) (map (fun '(x, y) => tbin o2 x y) (combine l1 l2)) (cvt T init).
Definition transform_reduce1_ts (o : nat) (T : nty) (l : list tv) (init : tv) : tv :=
  fold_left (fun acc w => cvt T (tbin o acc w)) (map (fun x => tbin 2 x x) l) (cvt T init).
Definition partial_sum_ts (o : nat) (E D : nty) (l : list tv) : list tv :=
  map (cvt D) (partial_sum_s (fun s x => cvt E (tbin o s x)) (map (cvt E) l)).
Definition adjacent_difference_ts (dflt : bool) (o : nat) (E D : nty) (l : list tv) : list tv :=
  map (cvt D) (adjacent_difference_s (fun v a => tbin (if dflt then 1 else o) v a) (map (cvt E) l)).
Definition iota_ts (T D : nty) (n : nat) (v : tv) : list tv :=
  map (cvt D) (iota_s (fun x => cvt T (tbin 0 x (TV NI32 one))) n (cvt T v)).

End Typed.
