(* C06b: small list facts missing from the Coq 8.16 standard library. *)
From Tetl Require Import Lib.Base.

Section ListX.
Context {A : Type}.

Lemma skipn_skipn : forall (x y : nat) (l : list A), skipn x (skipn y l) = skipn (x + y) l.
Proof.
  intros x y; revert x; induction y as [|y IH]; intros x l.
  - rewrite Nat.add_0_r. reflexivity.
  - destruct l as [|a t].
    + rewrite !skipn_nil. reflexivity.
    + rewrite Nat.add_succ_r. cbn [skipn]. apply IH.
Qed.

Lemma nth_error_skipn : forall (n i : nat) (l : list A), nth_error (skipn n l) i = nth_error l (n + i).
Proof.
  intros n; induction n as [|n IH]; intros i l; [reflexivity|].
  destruct l as [|a t]; [destruct i; reflexivity|]. cbn [skipn Nat.add nth_error]. apply IH.
Qed.

Lemma nth_error_firstn : forall (n i : nat) (l : list A), i < n -> nth_error (firstn n l) i = nth_error l i.
Proof.
  intros n; induction n as [|n IH]; intros i l Hi; [lia|].
  destruct l as [|a t]; [reflexivity|]. destruct i as [|i]; [reflexivity|].
  cbn [firstn nth_error]. apply IH. lia.
Qed.

End ListX.
