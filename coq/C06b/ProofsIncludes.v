(* C06b proofs, part 8: includes on sorted ranges = multiset inclusion modulo equivalence. *)
From Tetl Require Import Lib.Base C06b.Model C06b.Spec C06b.Order C06b.ProofsSet.
Ltac Zify.zify_post_hook ::= Z.to_euclidean_division_equations.

Section Includes.
Context {A : Type} (lt : A -> A -> bool) (SW : strict_weak lt).
Implicit Types (l : list A).

Notation ceq := (count_eqv lt).
Notation sorted := (sorted_all lt).

Lemma forallb_ext_in : forall (f g : A -> bool) l, (forall z, In z l -> f z = g z) -> forallb f l = forallb g l.
Proof.
  intros f g l; induction l as [|a t IH]; intros H; [reflexivity|].
  cbn [forallb]. rewrite (H a (or_introl eq_refl)), IH; [reflexivity|]. intros z Hz. apply H. right. exact Hz.
Qed.

Lemma ceq_cons : forall z a l, ceq z (a :: l) = (if equiv lt z a then 1 else 0) + ceq z l.
Proof. intros z a l. unfold count_eqv. cbn [filter]. destruct (equiv lt z a); reflexivity. Qed.

Lemma equiv_congr_l : forall a b e, equiv lt a b = true -> equiv lt a e = equiv lt b e.
Proof.
  intros a b e E. unfold equiv. rewrite (equiv_lt_l lt SW a b e E), (equiv_lt_r lt SW a b e E). reflexivity.
Qed.

Lemma ceq_equiv : forall a b l, equiv lt a b = true -> ceq a l = ceq b l.
Proof.
  intros a b l E. unfold count_eqv. f_equal. apply filter_ext. intros e. apply equiv_congr_l. exact E.
Qed.

Lemma ceq_zero : forall y l, (forall w, In w l -> equiv lt y w = false) -> ceq y l = 0.
Proof.
  intros y l; induction l as [|a t IH]; intros H; [reflexivity|].
  rewrite ceq_cons, (H a (or_introl eq_refl)), IH; [reflexivity|]. intros w Hw. apply H. right. exact Hw.
Qed.

Lemma ceq_pos_ex : forall y l, ceq y l > 0 -> exists z, In z l /\ equiv lt y z = true.
Proof.
  intros y l; induction l as [|a t IH]; intros H; [cbn in H; lia|].
  rewrite ceq_cons in H. destruct (equiv lt y a) eqn:E.
  - exists a. split; [left; reflexivity|exact E].
  - destruct (IH ltac:(lia)) as (z & Hz & Ez). exists z. split; [right; exact Hz|exact Ez].
Qed.

Lemma includes_nil_r : forall l1, includes_m lt l1 [] = true.
Proof. intros [|x t1]; reflexivity. Qed.

Lemma includes_correct : forall l1 l2, sorted l1 = true -> sorted l2 = true ->
  includes_m lt l1 l2 = includes_s lt l1 l2.
Proof.
  intros l1; induction l1 as [|x t1 IH]; intros l2 Hs1 Hs2.
  - destruct l2 as [|y t2]; [reflexivity|]. cbn [includes_m]. unfold includes_s. cbn [forallb].
    rewrite ceq_cons, (equiv_refl lt SW). reflexivity.
  - destruct l2 as [|y t2]; [reflexivity|].
    destruct (sorted_all_cons lt x t1 Hs1) as [Hge1 Ht1]. destruct (sorted_all_cons lt y t2 Hs2) as [Hge2 Ht2].
    cbn [includes_m]. destruct (lt y x) eqn:Hyx.
    + (* y is below everything in l1: it cannot be matched *)
      unfold includes_s. cbn [forallb]. rewrite (ceq_cons y y), (equiv_refl lt SW).
      rewrite (ceq_zero y (x :: t1)); [reflexivity|]. intros w Hw. unfold equiv.
      rewrite (sorted_tail_gt lt SW x y t1 Hs1 Hyx w Hw). reflexivity.
    + destruct (lt x y) eqn:Hxy; cbn [negb].
      * (* x is below everything in l2: it matches nothing *)
        rewrite IH by assumption. unfold includes_s. apply forallb_ext_in. intros z Hz.
        rewrite (ceq_cons z x). replace (equiv lt z x) with false; [reflexivity|]. symmetry. unfold equiv.
        assert (Hxz : lt x z = true).
        { destruct Hz as [<-|Hz]; [exact Hxy|]. exact (sw_lt_le lt SW x y z Hxy (Hge2 z Hz)). }
        rewrite Hxz. apply andb_false_r.
      * (* x and y are equivalent: they cancel *)
        assert (Exy : equiv lt x y = true) by (unfold equiv; rewrite Hxy, Hyx; reflexivity).
        assert (Eyx : equiv lt y x = true) by (rewrite (equiv_sym lt); exact Exy).
        rewrite IH by assumption. unfold includes_s.
        assert (Hpt : forall z, (ceq z (y :: t2) <=? ceq z (x :: t1)) = (ceq z t2 <=? ceq z t1)).
        { intros z. rewrite !ceq_cons. replace (equiv lt z x) with (equiv lt z y).
          - destruct (equiv lt z y); reflexivity.
          - rewrite (equiv_sym lt z y), (equiv_sym lt z x). apply equiv_congr_l. exact Eyx. }
        cbn [forallb]. rewrite Hpt. rewrite (forallb_ext_in (fun z => ceq z (y :: t2) <=? ceq z (x :: t1)) (fun z => ceq z t2 <=? ceq z t1)) by (intros z _; apply Hpt).
        destruct (forallb (fun z => ceq z t2 <=? ceq z t1) t2) eqn:Hall; [|symmetry; apply andb_false_r].
        rewrite andb_true_r. symmetry. apply Nat.leb_le.
        destruct (ceq y t2) eqn:Ec; [lia|].
        destruct (ceq_pos_ex y t2 ltac:(lia)) as (z & Hz & Ez).
        rewrite forallb_forall in Hall. specialize (Hall z Hz). apply Nat.leb_le in Hall.
        rewrite <- (ceq_equiv y z t2 Ez), <- (ceq_equiv y z t1 Ez) in Hall. lia.
Qed.

End Includes.
