(* C06b model: executable mirror of the non-mutating half of include/etl/_algorithm and of
   include/etl/_numeric (accumulate ... iota), loop for loop.  Ranges are lists, iterators are
   positions (nat, relative to the start of the list that the function receives), `last` is the
   length.  Comparators / predicates / operations are function parameters, called with the same
   argument order as in the C++ text.  Output ranges are result lists (the returned output
   iterator is the length of the result).  A read through an iterator that has run past the end
   of its range is `UB OutOfBounds` (only the 3-iterator overloads and for_each_n can do that).
   The model mirrors the tree AFTER the three fix: commits recorded in NOTES.md (search_n,
   4-iterator equal, 4-iterator is_permutation). *)
From Tetl Require Import Lib.Base.

Section Algo.
Context {A : Type}.

(* ---------------------------------------------------------------- find.hpp, find_if.hpp, find_if_not.hpp *)
Fixpoint find_m (eqb : A -> A -> bool) (l : list A) (v : A) : nat :=
  match l with
  | [] => 0
  | x :: t => if eqb x v then 0 else S (find_m eqb t v)
  end.

Fixpoint find_if_m (p : A -> bool) (l : list A) : nat :=
  match l with
  | [] => 0
  | x :: t => if p x then 0 else S (find_if_m p t)
  end.

Fixpoint find_if_not_m (p : A -> bool) (l : list A) : nat :=
  match l with
  | [] => 0
  | x :: t => if negb (p x) then 0 else S (find_if_not_m p t)
  end.

(* ---------------------------------------------------------------- find_first_of.hpp *)
(* inner loop: for (it = sFirst; it != sLast; ++it) if (pred( *first, *it)) return first; *)
Fixpoint ffo_inner (pred : A -> A -> bool) (x : A) (s : list A) : bool :=
  match s with
  | [] => false
  | y :: s' => if pred x y then true else ffo_inner pred x s'
  end.

Fixpoint find_first_of_m (pred : A -> A -> bool) (l s : list A) : nat :=
  match l with
  | [] => 0
  | x :: t => if ffo_inner pred x s then 0 else S (find_first_of_m pred t s)
  end.

(* ---------------------------------------------------------------- search.hpp *)
Inductive inner_res := Found | HitEnd | Mismatch.

(* for (sIt = sFirst;; ++it, ++sIt) { if (sIt == sLast) return first; if (it == last) return last;
                                      if (!pred( *it, *sIt)) break; } *)
Fixpoint search_inner (pred : A -> A -> bool) (l s : list A) {struct s} : inner_res :=
  match s with
  | [] => Found
  | y :: s' =>
      match l with
      | [] => HitEnd
      | x :: l' => if pred x y then search_inner pred l' s' else Mismatch
      end
  end.

(* for (;; ++first) { inner } *)
Fixpoint search_m (pred : A -> A -> bool) (l s : list A) : nat :=
  match search_inner pred l s with
  | Found => 0
  | HitEnd => length l
  | Mismatch =>
      match l with
      | [] => 0 (* not reachable: the inner loop cannot break on an empty range *)
      | _ :: t => S (search_m pred t s)
      end
  end.

(* default_searcher::operator(): pair {i, next(i, distance(sFirst, sLast))} or {l, l} *)
Definition default_searcher_m (pred : A -> A -> bool) (l s : list A) : nat * nat :=
  let i := search_m pred l s in
  if negb (i =? length l) then (i, i + length s) else (length l, length l).

(* search(first, last, searcher) = searcher(first, last).first *)
Definition search_searcher_m (pred : A -> A -> bool) (l s : list A) : nat :=
  fst (default_searcher_m pred l s).

(* ---------------------------------------------------------------- find_end.hpp *)
(* while (true) { newResult = search(first, last, ...); if (newResult == last) break;
                  result = newResult; first = result; ++first; }            fuel = iterations *)
Fixpoint find_end_loop (pred : A -> A -> bool) (l s : list A) (fuel first result : nat) : res nat :=
  match fuel with
  | O => OutOfFuel
  | S f =>
      let nr := first + search_m pred (skipn first l) s in
      if nr =? length l then Ok result else find_end_loop pred l s f (S nr) nr
  end.

Definition find_end_m (pred : A -> A -> bool) (l s : list A) : res nat :=
  match s with
  | [] => Ok (length l)
  | _ => find_end_loop pred l s (S (length l)) 0 (length l)
  end.

(* ---------------------------------------------------------------- adjacent_find.hpp *)
(* positions relative to `first`; not found = distance(first, last) = S (length t) *)
Fixpoint adj_loop (pred : A -> A -> bool) (x : A) (t : list A) : option nat :=
  match t with
  | [] => None
  | y :: t' => if pred x y then Some 0 else option_map S (adj_loop pred y t')
  end.

Definition adjacent_find_m (pred : A -> A -> bool) (l : list A) : nat :=
  match l with
  | [] => 0
  | x :: t => match adj_loop pred x t with Some i => i | None => length l end
  end.

(* ---------------------------------------------------------------- count.hpp, count_if.hpp *)
Fixpoint count_loop (p : A -> bool) (l : list A) (result : nat) : nat :=
  match l with
  | [] => result
  | x :: t => count_loop p t (if p x then S result else result)
  end.

Definition count_if_m (p : A -> bool) (l : list A) : nat := count_loop p l 0.
Definition count_m (eqb : A -> A -> bool) (l : list A) (v : A) : nat := count_loop (fun x => eqb x v) l 0.

(* ---------------------------------------------------------------- all_of.hpp any_of.hpp none_of.hpp *)
Definition all_of_m (p : A -> bool) (l : list A) : bool := find_if_not_m p l =? length l.
Definition any_of_m (p : A -> bool) (l : list A) : bool := negb (find_if_m p l =? length l).
Definition none_of_m (p : A -> bool) (l : list A) : bool := find_if_m p l =? length l.

(* ---------------------------------------------------------------- for_each.hpp, for_each_n.hpp *)
(* the callable is a state machine: f (state, element) = (state', element') (it may write
   through the reference); result = final callable state and the range afterwards *)
Fixpoint for_each_m {St : Type} (f : St -> A -> St * A) (s : St) (l : list A) : St * list A :=
  match l with
  | [] => (s, [])
  | x :: t => let '(s1, x1) := f s x in let '(s2, t2) := for_each_m f s1 t in (s2, x1 :: t2)
  end.

(* for (Size i = 0; i < n; ++first, ++i) f( *first); return first;   n is a signed Size *)
Fixpoint for_each_n_loop {St : Type} (f : St -> A -> St * A) (s : St) (l : list A) (k : nat) {struct k}
  : res (nat * St * list A) :=
  match k with
  | O => Ok (0, s, l)
  | S k' =>
      match l with
      | [] => UB OutOfBounds
      | x :: t =>
          let '(s1, x1) := f s x in
          rbind (for_each_n_loop f s1 t k') (fun '(i, s2, t2) => Ok (S i, s2, x1 :: t2))
      end
  end.

Definition for_each_n_m {St : Type} (f : St -> A -> St * A) (s : St) (l : list A) (n : Z)
  : res (nat * St * list A) := for_each_n_loop f s l (Z.to_nat n).

(* ---------------------------------------------------------------- mismatch.hpp *)
(* 3-iterator form: the second range is not bounded by the code *)
Fixpoint mismatch3_m (pred : A -> A -> bool) (l1 l2 : list A) : res nat :=
  match l1 with
  | [] => Ok 0
  | x :: t1 =>
      match l2 with
      | [] => UB OutOfBounds
      | y :: t2 => if negb (pred x y) then Ok 0 else rbind (mismatch3_m pred t1 t2) (fun i => Ok (S i))
      end
  end.

Fixpoint mismatch4_m (pred : A -> A -> bool) (l1 l2 : list A) : nat :=
  match l1, l2 with
  | x :: t1, y :: t2 => if negb (pred x y) then 0 else S (mismatch4_m pred t1 t2)
  | _, _ => 0
  end.

(* ---------------------------------------------------------------- equal.hpp *)
Fixpoint equal3_m (pred : A -> A -> bool) (l1 l2 : list A) : res bool :=
  match l1 with
  | [] => Ok true
  | x :: t1 =>
      match l2 with
      | [] => UB OutOfBounds
      | y :: t2 => if negb (pred x y) then Ok false else equal3_m pred t1 t2
      end
  end.

(* non-random-access branch: for (; f1 != l1 and f2 != l2; ++f1, ++f2) if (!p) return false;
                             return f1 == l1 and f2 == l2; *)
Fixpoint equal_loop (pred : A -> A -> bool) (l1 l2 : list A) : bool :=
  match l1, l2 with
  | x :: t1, y :: t2 => if negb (pred x y) then false else equal_loop pred t1 t2
  | [], [] => true
  | _, _ => false
  end.

(* `ra` = both iterator types are random access (the `if constexpr`) *)
Definition equal4_m (ra : bool) (pred : A -> A -> bool) (l1 l2 : list A) : res bool :=
  if ra then
    if negb (length l1 =? length l2) then Ok false else equal3_m pred l1 l2
  else Ok (equal_loop pred l1 l2).

(* ---------------------------------------------------------------- lexicographical_compare.hpp *)
Fixpoint lexicographical_compare_m (lt : A -> A -> bool) (l1 l2 : list A) : bool :=
  match l1, l2 with
  | x :: t1, y :: t2 =>
      if lt x y then true else if lt y x then false else lexicographical_compare_m lt t1 t2
  | [], _ :: _ => true
  | _, [] => false
  end.

(* ---------------------------------------------------------------- search_n.hpp (after the fix) *)
(* returns an absolute position; idx = position of the head of l; `last` = idx + length l *)
Fixpoint search_n_loop (pred : A -> A -> bool) (count : Z) (v : A) (l : list A) (idx : nat)
  (counter : Z) (found : nat) : nat :=
  match l with
  | [] => idx
  | x :: t =>
      let '(counter', found') :=
        if pred x v then ((counter + 1)%Z, if (counter =? 0)%Z then idx else found)
        else (0%Z, found) in
      if (counter' =? count)%Z then found' else search_n_loop pred count v t (S idx) counter' found'
  end.

Definition search_n_m (pred : A -> A -> bool) (l : list A) (count : Z) (v : A) : nat :=
  if (count <=? 0)%Z then 0 else search_n_loop pred count v l 0 0%Z 0.

(* ---------------------------------------------------------------- is_sorted_until.hpp, is_sorted.hpp *)
(* position of `next` relative to `first`; not found = distance to last *)
Fixpoint isu_loop (lt : A -> A -> bool) (x : A) (t : list A) : nat :=
  match t with
  | [] => 1
  | y :: t' => if lt y x then 1 else S (isu_loop lt y t')
  end.

Definition is_sorted_until_m (lt : A -> A -> bool) (l : list A) : nat :=
  match l with
  | [] => 0
  | x :: t => isu_loop lt x t
  end.

Definition is_sorted_m (lt : A -> A -> bool) (l : list A) : bool := is_sorted_until_m lt l =? length l.

(* ---------------------------------------------------------------- is_partitioned.hpp, partition_point.hpp *)
Fixpoint ip_second (p : A -> bool) (l : list A) : bool :=
  match l with
  | [] => true
  | x :: t => if p x then false else ip_second p t
  end.

Fixpoint is_partitioned_m (p : A -> bool) (l : list A) : bool :=
  match l with
  | [] => true
  | x :: t => if negb (p x) then ip_second p l else is_partitioned_m p t
  end.

(* the pinned code scans linearly *)
Fixpoint partition_point_m (p : A -> bool) (l : list A) : nat :=
  match l with
  | [] => 0
  | x :: t => if negb (p x) then 0 else S (partition_point_m p t)
  end.

(* ---------------------------------------------------------------- lower_bound.hpp, upper_bound.hpp *)
(* while (count > 0) { it = first; step = count / 2; advance(it, step);
     if (test( *it)) { first = ++it; count -= step + 1; } else count = step; }  return first;
   lower_bound: test e = comp(e, value); upper_bound: test e = !comp(value, e) *)
Fixpoint bound_loop (test : A -> bool) (l : list A) (fuel first count : nat) : res nat :=
  match fuel with
  | O => OutOfFuel
  | S f =>
      if count =? 0 then Ok first
      else
        let step := Nat.div2 count in
        let it := first + step in
        match nth_error l it with
        | None => UB OutOfBounds
        | Some e =>
            if test e then bound_loop test l f (S it) (count - (step + 1))
            else bound_loop test l f first step
        end
  end.

Definition lower_bound_m (lt : A -> A -> bool) (l : list A) (v : A) : res nat :=
  bound_loop (fun e => lt e v) l (S (length l)) 0 (length l).

Definition upper_bound_m (lt : A -> A -> bool) (l : list A) (v : A) : res nat :=
  bound_loop (fun e => negb (lt v e)) l (S (length l)) 0 (length l).

(* ---------------------------------------------------------------- equal_range.hpp, binary_search.hpp *)
Definition equal_range_m (lt : A -> A -> bool) (l : list A) (v : A) : res (nat * nat) :=
  rbind (lower_bound_m lt l v) (fun a => rbind (upper_bound_m lt l v) (fun b => Ok (a, b))).

Definition binary_search_m (lt : A -> A -> bool) (l : list A) (v : A) : res bool :=
  rbind (lower_bound_m lt l v) (fun first =>
    match nth_error l first with
    | None => Ok false                       (* first == last *)
    | Some e => Ok (negb (lt v e))
    end).

(* ---------------------------------------------------------------- includes.hpp *)
Fixpoint includes_m (lt : A -> A -> bool) (l1 l2 : list A) : bool :=
  match l2 with
  | [] => true
  | y :: t2 =>
      match l1 with
      | [] => false
      | x :: t1 =>
          if lt y x then false
          else if negb (lt x y) then includes_m lt t1 t2 else includes_m lt t1 l2
      end
  end.

(* ---------------------------------------------------------------- merge.hpp *)
Fixpoint merge_m (lt : A -> A -> bool) (l1 : list A) : list A -> list A :=
  fix aux (l2 : list A) : list A :=
    match l1 with
    | [] => l2                                         (* return copy(first2, last2, d) *)
    | x :: t1 =>
        match l2 with
        | [] => l1                                     (* return copy(first1, last1, d) *)
        | y :: t2 => if lt y x then y :: aux t2 else x :: merge_m lt t1 l2
        end
    end.

(* ---------------------------------------------------------------- set_union.hpp *)
Fixpoint set_union_m (lt : A -> A -> bool) (l1 : list A) : list A -> list A :=
  fix aux (l2 : list A) : list A :=
    match l1 with
    | [] => l2
    | x :: t1 =>
        match l2 with
        | [] => l1
        | y :: t2 =>
            if lt y x then y :: aux t2
            else x :: (if negb (lt x y) then set_union_m lt t1 t2 else set_union_m lt t1 l2)
        end
    end.

(* ---------------------------------------------------------------- set_intersection.hpp *)
Fixpoint set_intersection_m (lt : A -> A -> bool) (l1 : list A) : list A -> list A :=
  fix aux (l2 : list A) : list A :=
    match l1 with
    | [] => []
    | x :: t1 =>
        match l2 with
        | [] => []
        | y :: t2 =>
            if lt x y then set_intersection_m lt t1 l2
            else if negb (lt y x) then x :: set_intersection_m lt t1 t2 else aux t2
        end
    end.

(* ---------------------------------------------------------------- set_difference.hpp *)
Fixpoint set_difference_m (lt : A -> A -> bool) (l1 : list A) : list A -> list A :=
  fix aux (l2 : list A) : list A :=
    match l1 with
    | [] => []
    | x :: t1 =>
        match l2 with
        | [] => l1
        | y :: t2 =>
            if lt x y then x :: set_difference_m lt t1 l2
            else if negb (lt y x) then set_difference_m lt t1 t2 else aux t2
        end
    end.

(* ---------------------------------------------------------------- set_symmetric_difference.hpp *)
Fixpoint set_symmetric_difference_m (lt : A -> A -> bool) (l1 : list A) : list A -> list A :=
  fix aux (l2 : list A) : list A :=
    match l1 with
    | [] => l2
    | x :: t1 =>
        match l2 with
        | [] => l1
        | y :: t2 =>
            if lt x y then x :: set_symmetric_difference_m lt t1 l2
            else if lt y x then y :: aux t2 else set_symmetric_difference_m lt t1 t2
        end
    end.

(* ---------------------------------------------------------------- min.hpp max.hpp minmax.hpp clamp.hpp *)
Definition min_m (lt : A -> A -> bool) (a b : A) : A := if lt b a then b else a.
Definition max_m (lt : A -> A -> bool) (a b : A) : A := if lt a b then b else a.
Definition minmax_m (lt : A -> A -> bool) (a b : A) : A * A := if lt b a then (b, a) else (a, b).
Definition clamp_m (lt : A -> A -> bool) (v lo hi : A) : A :=
  if lt v lo then lo else if lt hi v then hi else v.

(* ---------------------------------------------------------------- min_element.hpp max_element.hpp *)
(* idx = position of the head of l; (bi, bx) = position and value of smallest / largest *)
Fixpoint min_loop (lt : A -> A -> bool) (l : list A) (idx bi : nat) (bx : A) : nat :=
  match l with
  | [] => bi
  | x :: t => if lt x bx then min_loop lt t (S idx) idx x else min_loop lt t (S idx) bi bx
  end.

Definition min_element_m (lt : A -> A -> bool) (l : list A) : nat :=
  match l with
  | [] => 0
  | x :: t => min_loop lt t 1 0 x
  end.

Fixpoint max_loop (lt : A -> A -> bool) (l : list A) (idx bi : nat) (bx : A) : nat :=
  match l with
  | [] => bi
  | x :: t => if lt bx x then max_loop lt t (S idx) idx x else max_loop lt t (S idx) bi bx
  end.

Definition max_element_m (lt : A -> A -> bool) (l : list A) : nat :=
  match l with
  | [] => 0
  | x :: t => max_loop lt t 1 0 x
  end.

(* ---------------------------------------------------------------- minmax_element.hpp *)
(* state: (mi, mx) positions and values of min / max; the loop takes the elements two at a time *)
Record mm_state := { mm_mi : nat; mm_mv : A; mm_xi : nat; mm_xv : A }.

Fixpoint mm_loop (lt : A -> A -> bool) (l : list A) (idx : nat) (s : mm_state) : mm_state :=
  match l with
  | [] => s
  | i :: [] =>
      (* if (++first == last) { if (comp( *i,*min)) min = i; else if (!comp( *i,*max)) max = i; break; } *)
      if lt i (mm_mv s) then {| mm_mi := idx; mm_mv := i; mm_xi := mm_xi s; mm_xv := mm_xv s |}
      else if negb (lt i (mm_xv s)) then {| mm_mi := mm_mi s; mm_mv := mm_mv s; mm_xi := idx; mm_xv := i |}
      else s
  | i :: f :: t =>
      let s' :=
        if lt f i then
          let s1 := if lt f (mm_mv s) then {| mm_mi := S idx; mm_mv := f; mm_xi := mm_xi s; mm_xv := mm_xv s |} else s in
          if negb (lt i (mm_xv s1)) then {| mm_mi := mm_mi s1; mm_mv := mm_mv s1; mm_xi := idx; mm_xv := i |} else s1
        else
          let s1 := if lt i (mm_mv s) then {| mm_mi := idx; mm_mv := i; mm_xi := mm_xi s; mm_xv := mm_xv s |} else s in
          if negb (lt f (mm_xv s1)) then {| mm_mi := mm_mi s1; mm_mv := mm_mv s1; mm_xi := S idx; mm_xv := f |} else s1
      in mm_loop lt t (S (S idx)) s'
  end.

Definition minmax_element_m (lt : A -> A -> bool) (l : list A) : nat * nat :=
  match l with
  | [] => (0, 0)
  | x :: [] => (0, 0)
  | x :: y :: t =>
      let s0 := if lt y x then {| mm_mi := 1; mm_mv := y; mm_xi := 0; mm_xv := x |}
                else {| mm_mi := 0; mm_mv := x; mm_xi := 1; mm_xv := y |} in
      let s := mm_loop lt t 2 s0 in
      (mm_mi s, mm_xi s)
  end.

(* ---------------------------------------------------------------- is_permutation.hpp *)
(* 3-iterator form: [first2, first2 + (last - first)) must exist *)
Fixpoint isperm_loop (eqb : A -> A -> bool) (r2 : list A) (seen rest : list A) : bool :=
  match rest with
  | [] => true
  | x :: t =>
      (* if (i != find(fDiff1, i, *i)) continue; *)
      if negb (find_m eqb seen x =? length seen) then isperm_loop eqb r2 (seen ++ [x]) t
      else
        let m := count_m eqb r2 x in
        if (m =? 0) || negb (count_m eqb rest x =? m) then false
        else isperm_loop eqb r2 (seen ++ [x]) t
  end.

Definition is_permutation3_m (eqb : A -> A -> bool) (l1 l2 : list A) : res bool :=
  rbind (mismatch3_m eqb l1 l2) (fun k =>
    if negb (k =? length l1) then
      let r1 := skipn k l1 in
      if length l2 <? length l1 then UB OutOfBounds  (* next(fDiff2, distance(fDiff1, last)) past the end *)
      else
        let r2 := firstn (length r1) (skipn k l2) in
        Ok (isperm_loop eqb r2 [] r1)
    else Ok true).

(* 4-iterator form (after the fix): the lengths are compared for every iterator category *)
Definition is_permutation4_m (eqb : A -> A -> bool) (l1 l2 : list A) : res bool :=
  if negb (length l1 =? length l2) then Ok false else is_permutation3_m eqb l1 l2.

End Algo.

(* ==================================================================== numeric *)
Section Numeric.
Context {T U : Type}.

(* accumulate.hpp: init = op(move(init), *first) *)
Fixpoint accumulate_m (op : T -> U -> T) (l : list U) (init : T) : T :=
  match l with
  | [] => init
  | x :: t => accumulate_m op t (op init x)
  end.

(* inner_product.hpp / transform_reduce.hpp (binary form): init = op1(init, op2( *first1, *first2)) *)
Fixpoint inner_product_m {V W : Type} (op1 : T -> W -> T) (op2 : U -> V -> W)
  (l1 : list U) (l2 : list V) (init : T) : res T :=
  match l1 with
  | [] => Ok init
  | x :: t1 =>
      match l2 with
      | [] => UB OutOfBounds
      | y :: t2 => inner_product_m op1 op2 t1 t2 (op1 init (op2 x y))
      end
  end.

(* transform_reduce.hpp (unary form) *)
Fixpoint transform_reduce1_m {W : Type} (red : T -> W -> T) (tr : U -> W) (l : list U) (init : T) : T :=
  match l with
  | [] => init
  | x :: t => transform_reduce1_m red tr t (red init (tr x))
  end.

End Numeric.

Section Numeric2.
Context {T : Type}.

(* reduce.hpp: all three overloads end in accumulate *)
Definition reduce_m (op : T -> T -> T) (l : list T) (init : T) : T := accumulate_m op l init.

(* partial_sum.hpp *)
Fixpoint partial_sum_loop (op : T -> T -> T) (sum : T) (l : list T) : list T :=
  match l with
  | [] => []
  | x :: t => let sum' := op sum x in sum' :: partial_sum_loop op sum' t
  end.

Definition partial_sum_m (op : T -> T -> T) (l : list T) : list T :=
  match l with
  | [] => []
  | x :: t => x :: partial_sum_loop op x t
  end.

(* adjacent_difference.hpp: *++d = op(val, move(acc)); acc = move(val) *)
Fixpoint adjacent_difference_loop (op : T -> T -> T) (acc : T) (l : list T) : list T :=
  match l with
  | [] => []
  | x :: t => op x acc :: adjacent_difference_loop op x t
  end.

Definition adjacent_difference_m (op : T -> T -> T) (l : list T) : list T :=
  match l with
  | [] => []
  | x :: t => x :: adjacent_difference_loop op x t
  end.

(* iota.hpp: *first++ = value; ++value;   (n = length of the range) *)
Fixpoint iota_m (succ : T -> T) (n : nat) (value : T) : list T :=
  match n with
  | O => []
  | S k => value :: iota_m succ k (succ value)
  end.

End Numeric2.
