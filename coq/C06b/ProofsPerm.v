(* C06b proofs, part 7: is_permutation (counting loop) decides Permutation. *)
From Tetl Require Import Lib.Base C06b.Model C06b.Spec C06b.ListX C06b.ProofsScan.
From Coq Require Import Permutation.
Ltac Zify.zify_post_hook ::= Z.to_euclidean_division_equations.

Section Perm.
Context {A : Type} (eqb : A -> A -> bool) (eqb_spec : forall x y, eqb x y = true <-> x = y).
Implicit Types (l r seen rest : list A).

Definition cnt l (x : A) : nat := length (filter (fun e => eqb e x) l).

Lemma eqb_refl : forall x, eqb x x = true.
Proof. intros x. apply eqb_spec. reflexivity. Qed.

Lemma eqb_neq : forall x y, x <> y -> eqb x y = false.
Proof. intros x y H. apply not_true_is_false. intros E. apply H. apply eqb_spec. exact E. Qed.

Lemma cnt_cons : forall a l x, cnt (a :: l) x = (if eqb a x then 1 else 0) + cnt l x.
Proof. intros a l x. unfold cnt. cbn [filter]. destruct (eqb a x); reflexivity. Qed.

Lemma cnt_app : forall l1 l2 x, cnt (l1 ++ l2) x = cnt l1 x + cnt l2 x.
Proof. intros l1 l2 x. unfold cnt. rewrite filter_app, app_length. reflexivity. Qed.

Lemma cnt_pos_In : forall l x, cnt l x > 0 <-> In x l.
Proof.
  intros l x; induction l as [|a t IH]; [cbn; split; [lia|intros []]|].
  rewrite cnt_cons. cbn [In]. destruct (eqb a x) eqn:E.
  - apply eqb_spec in E. split; [intros _; left; exact E|intros _; lia].
  - rewrite <- IH. split; [intros H; right; lia|]. intros [H|H]; [|lia].
    subst. rewrite eqb_refl in E. discriminate.
Qed.

Lemma cnt_zero_notIn : forall l x, ~ In x l -> cnt l x = 0.
Proof. intros l x H. destruct (cnt l x) eqn:E; [reflexivity|]. exfalso. apply H. apply cnt_pos_In. lia. Qed.

Lemma Permutation_cnt : forall l1 l2, Permutation l1 l2 -> forall x, cnt l1 x = cnt l2 x.
Proof.
  intros l1 l2 HP x; induction HP as [|a l l' _ IH|a b l|l l' l'' _ IH1 _ IH2].
  - reflexivity.
  - rewrite !cnt_cons, IH. reflexivity.
  - rewrite !cnt_cons. lia.
  - congruence.
Qed.

(* equal lengths and equal counts for the elements of the first list suffice *)
Lemma cnt_Permutation : forall r1 r2, length r1 = length r2 ->
  (forall x, In x r1 -> cnt r1 x = cnt r2 x) -> Permutation r1 r2.
Proof.
  intros r1; induction r1 as [|a t IH]; intros r2 Hlen Hcnt.
  - destruct r2; [constructor|discriminate].
  - assert (Ha : In a r2).
    { apply cnt_pos_In. rewrite <- Hcnt by (left; reflexivity). rewrite cnt_cons, eqb_refl. lia. }
    apply in_split in Ha. destruct Ha as (u & v & ->). apply Permutation_cons_app. apply IH.
    + rewrite app_length in *. cbn [length] in Hlen. lia.
    + intros x Hx. specialize (Hcnt x (or_intror Hx)).
      rewrite cnt_cons, cnt_app, cnt_cons in Hcnt. rewrite cnt_app. lia.
Qed.

(* ------------------------------------------------------------------ the loop *)
Lemma count_m_cnt : forall l x, count_m eqb l x = cnt l x.
Proof. intros l x. rewrite count_correct. reflexivity. Qed.

Lemma find_m_full : forall l v, (find_m eqb l v =? length l) = negb (existsb (fun e => eqb e v) l).
Proof.
  intros l v; induction l as [|x t IH]; [reflexivity|].
  cbn [find_m existsb length]. destruct (eqb x v); [reflexivity|]. cbn [orb]. rewrite <- IH. reflexivity.
Qed.

Lemma seen_In : forall seen x, negb (find_m eqb seen x =? length seen) = true <-> In x seen.
Proof.
  intros seen x. rewrite find_m_full, negb_involutive, existsb_exists. split.
  - intros (e & He & E). apply eqb_spec in E. subst. exact He.
  - intros H. exists x. split; [exact H|apply eqb_refl].
Qed.

Lemma isperm_loop_iff : forall r1 r2 rest seen, r1 = seen ++ rest ->
  (isperm_loop eqb r2 seen rest = true <-> forall x, In x rest -> In x seen \/ cnt r1 x = cnt r2 x).
Proof.
  intros r1 r2 rest; induction rest as [|x t IH]; intros seen Hr1.
  - cbn [isperm_loop]. split; [intros _ x []|reflexivity].
  - cbn [isperm_loop].
    assert (Hr1' : r1 = (seen ++ [x]) ++ t) by (rewrite <- app_assoc; exact Hr1).
    specialize (IH (seen ++ [x]) Hr1').
    destruct (negb (find_m eqb seen x =? length seen)) eqn:Eseen.
    + apply seen_In in Eseen. rewrite IH. split.
      * intros H z [<-|Hz]; [left; exact Eseen|]. destruct (H z Hz) as [Hin|Hc]; [|right; exact Hc].
        apply in_app_or in Hin. destruct Hin as [Hin|[<-|[]]]; left; assumption.
      * intros H z Hz. destruct (H z (or_intror Hz)) as [Hin|Hc]; [left; apply in_or_app; left; exact Hin|right; exact Hc].
    + assert (Hnot : ~ In x seen). { intros Hin. apply seen_In in Hin. congruence. }
      rewrite !count_m_cnt.
      assert (Hcx : cnt r1 x = cnt (x :: t) x). { rewrite Hr1, cnt_app, (cnt_zero_notIn seen x Hnot). reflexivity. }
      assert (Hpos : cnt (x :: t) x > 0) by (rewrite cnt_cons, eqb_refl; lia).
      destruct ((cnt r2 x =? 0) || negb (cnt (x :: t) x =? cnt r2 x)) eqn:Echk.
      * split; [discriminate|]. intros H. exfalso. destruct (H x (or_introl eq_refl)) as [Hin|Hc]; [exact (Hnot Hin)|].
        apply orb_prop in Echk. destruct Echk as [E|E].
        -- apply Nat.eqb_eq in E. lia.
        -- apply negb_true_iff, Nat.eqb_neq in E. lia.
      * apply orb_false_elim in Echk. destruct Echk as [_ E2]. apply negb_false_iff, Nat.eqb_eq in E2.
        rewrite IH. split.
        -- intros H z [<-|Hz]; [right; lia|]. destruct (H z Hz) as [Hin|Hc]; [|right; exact Hc].
           apply in_app_or in Hin. destruct Hin as [Hin|[<-|[]]]; [left; exact Hin|right; lia].
        -- intros H z Hz. destruct (H z (or_intror Hz)) as [Hin|Hc]; [left; apply in_or_app; left; exact Hin|right; exact Hc].
Qed.

(* ------------------------------------------------------------------ common prefix *)
Lemma mismatch4_prefix : forall l1 l2,
  firstn (mismatch4_m eqb l1 l2) l1 = firstn (mismatch4_m eqb l1 l2) l2.
Proof.
  intros l1; induction l1 as [|x t1 IH]; intros [|y t2]; try reflexivity.
  cbn [mismatch4_m]. destruct (eqb x y) eqn:E; cbn [negb]; [|reflexivity].
  apply eqb_spec in E. subst. cbn [firstn]. f_equal. apply IH.
Qed.

Lemma mismatch4_le : forall l1 l2, mismatch4_m eqb l1 l2 <= length l1 /\ mismatch4_m eqb l1 l2 <= length l2.
Proof.
  intros l1; induction l1 as [|x t1 IH]; intros [|y t2]; cbn [mismatch4_m length]; try lia.
  destruct (negb (eqb x y)); [lia|]. specialize (IH t2). lia.
Qed.

Lemma mismatch4_full : forall l1 l2, length l1 = length l2 -> mismatch4_m eqb l1 l2 = length l1 -> l1 = l2.
Proof.
  intros l1 l2 Hlen Hk. pose proof (mismatch4_prefix l1 l2) as H. rewrite Hk in H.
  rewrite firstn_all in H. rewrite Hlen, firstn_all in H. exact H.
Qed.

(* ------------------------------------------------------------------ the 3- and 4-iterator forms *)
Lemma is_permutation3_iff : forall l1 l2, length l1 <= length l2 ->
  exists b, is_permutation3_m eqb l1 l2 = Ok b /\ (b = true <-> Permutation l1 (second_range l1 l2)).
Proof.
  intros l1 l2 Hlen. unfold is_permutation3_m. rewrite mismatch3_correct by exact Hlen.
  rewrite <- mismatch4_correct. cbn [rbind]. set (l2' := second_range l1 l2).
  assert (Hl2' : length l2' = length l1) by (unfold l2', second_range; rewrite firstn_length; lia).
  set (k := mismatch4_m eqb l1 l2'). destruct (mismatch4_le l1 l2') as [Hk1 Hk2]. fold k in Hk1, Hk2.
  destruct (k =? length l1) eqn:Ek; cbn [negb].
  - apply Nat.eqb_eq in Ek. exists true. split; [reflexivity|]. split; [intros _|reflexivity].
    rewrite (mismatch4_full l1 l2') by (try exact Ek; lia). apply Permutation_refl.
  - apply Nat.eqb_neq in Ek. replace (length l2 <? length l1) with false by (symmetry; apply Nat.ltb_ge; exact Hlen).
    eexists. split; [reflexivity|].
    set (r1 := skipn k l1). set (r2 := firstn (length r1) (skipn k l2)).
    assert (Hr2 : r2 = skipn k l2').
    { unfold r2, r1, l2', second_range. rewrite skipn_firstn_comm, skipn_length. reflexivity. }
    assert (Hpre : firstn k l1 = firstn k l2') by apply mismatch4_prefix.
    assert (Hsplit1 : l1 = firstn k l1 ++ r1) by (symmetry; apply firstn_skipn).
    assert (Hsplit2 : l2' = firstn k l1 ++ r2) by (rewrite Hr2, Hpre; symmetry; apply firstn_skipn).
    assert (Hlenr : length r1 = length r2).
    { rewrite Hr2. unfold r1. rewrite !skipn_length. lia. }
    rewrite (isperm_loop_iff r1 r2 r1 [] eq_refl). split.
    + intros H. rewrite Hsplit1, Hsplit2. apply Permutation_app_head. apply cnt_Permutation; [exact Hlenr|].
      intros x Hx. destruct (H x Hx) as [[]|Hc]. exact Hc.
    + intros HP x Hx. right. rewrite Hsplit1, Hsplit2 in HP. apply Permutation_app_inv_l in HP.
      apply Permutation_cnt. exact HP.
Qed.

Lemma is_permutation4_iff : forall l1 l2,
  exists b, is_permutation4_m eqb l1 l2 = Ok b /\ (b = true <-> Permutation l1 l2).
Proof.
  intros l1 l2. unfold is_permutation4_m. destruct (length l1 =? length l2) eqn:E; cbn [negb].
  - apply Nat.eqb_eq in E. destruct (is_permutation3_iff l1 l2) as (b & Hb & Hiff); [lia|].
    exists b. split; [exact Hb|]. unfold second_range in Hiff. rewrite E, firstn_all in Hiff. exact Hiff.
  - apply Nat.eqb_neq in E. exists false. split; [reflexivity|]. split; [discriminate|].
    intros HP. apply Permutation_length in HP. contradiction.
Qed.

(* ------------------------------------------------------------------ the counting specification *)
Lemma is_permutation_s_iff : forall l1 l2, is_permutation_s eqb l1 l2 = true <-> Permutation l1 l2.
Proof.
  intros l1 l2. unfold is_permutation_s. rewrite andb_true_iff, Nat.eqb_eq, forallb_forall. split.
  - intros [Hlen Hall]. apply cnt_Permutation; [exact Hlen|]. intros x Hx.
    specialize (Hall x (in_or_app _ _ _ (or_introl Hx))). apply Nat.eqb_eq in Hall. exact Hall.
  - intros HP. split; [apply Permutation_length; exact HP|]. intros x _. apply Nat.eqb_eq.
    apply (Permutation_cnt l1 l2 HP).
Qed.

Lemma bool_eq_iff : forall (b c : bool) (P : Prop), (b = true <-> P) -> (c = true <-> P) -> b = c.
Proof. intros [|] [|] P H1 H2; try reflexivity; exfalso; intuition congruence. Qed.

Lemma is_permutation4_correct : forall l1 l2,
  is_permutation4_m eqb l1 l2 = Ok (is_permutation_s eqb l1 l2).
Proof.
  intros l1 l2. destruct (is_permutation4_iff l1 l2) as (b & Hb & Hiff). rewrite Hb. f_equal.
  apply (bool_eq_iff _ _ _ Hiff (is_permutation_s_iff l1 l2)).
Qed.

Lemma is_permutation3_correct : forall l1 l2, length l1 <= length l2 ->
  is_permutation3_m eqb l1 l2 = Ok (is_permutation_s eqb l1 (second_range l1 l2)).
Proof.
  intros l1 l2 Hlen. destruct (is_permutation3_iff l1 l2 Hlen) as (b & Hb & Hiff). rewrite Hb. f_equal.
  apply (bool_eq_iff _ _ _ Hiff (is_permutation_s_iff l1 _)).
Qed.

End Perm.
