(* C06b proofs, part 5: min / max / minmax / clamp, min_element, max_element, minmax_element. *)
From Tetl Require Import Lib.Base C06b.Model C06b.Spec C06b.ListX C06b.Order C06b.ProofsScan.
Ltac Zify.zify_post_hook ::= Z.to_euclidean_division_equations.

Lemma last_sat_unique : forall (P : nat -> bool) n d r,
  r < n -> P r = true -> (forall j, r < j < n -> P j = false) -> last_sat P n d = r.
Proof.
  intros P n d r Hr HP Hafter. destruct (last_sat_spec P n d) as [[_ Hnone]|(H1 & H2 & H3)].
  - rewrite Hnone in HP by exact Hr. discriminate.
  - destruct (Nat.lt_trichotomy (last_sat P n d) r) as [Hlt|[Heq|Hgt]]; [|exact Heq|].
    + rewrite H3 in HP by lia. discriminate.
    + rewrite Hafter in H2 by lia. discriminate.
Qed.

Section MinMax.
Context {A : Type} (lt : A -> A -> bool) (SW : strict_weak lt).
Implicit Types (l pre rest : list A).

(* ------------------------------------------------------------------ min max minmax clamp *)
Lemma min_correct : forall a b, min_m lt a b = min_s lt a b.
Proof.
  intros a b. unfold min_m, min_s. destruct (lt a b) eqn:Hab; [|reflexivity].
  rewrite (sw_asym lt SW a b Hab). reflexivity.
Qed.

Lemma max_correct : forall a b, max_m lt a b = max_s lt a b.
Proof.
  intros a b. unfold max_m, max_s. destruct (lt b a) eqn:Hba; [|reflexivity].
  rewrite (sw_asym lt SW b a Hba). reflexivity.
Qed.

Lemma minmax_correct : forall a b, minmax_m lt a b = minmax_s lt a b.
Proof. reflexivity. Qed.

Lemma clamp_correct : forall v lo hi, lt hi lo = false -> clamp_m lt v lo hi = clamp_s lt v lo hi.
Proof.
  intros v lo hi Hdom. unfold clamp_m, clamp_s. destruct (lt v lo) eqn:H1; destruct (lt hi v) eqn:H2; try reflexivity.
  pose proof (sw_trans lt SW hi v lo H2 H1). congruence.
Qed.

(* ------------------------------------------------------------------ min_element *)
(* bx at position bi is the FIRST minimal element of pre *)
Definition first_min pre (bi : nat) (bx : A) : Prop :=
  nth_error pre bi = Some bx
  /\ (forall y, In y pre -> lt y bx = false)
  /\ (forall j z, j < bi -> nth_error pre j = Some z -> lt bx z = true).

Lemma nth_error_snoc_cases : forall pre (x : A) j z, nth_error (pre ++ [x]) j = Some z ->
  (j < length pre /\ nth_error pre j = Some z) \/ (j = length pre /\ z = x).
Proof.
  intros pre x j z H. destruct (Nat.lt_ge_cases j (length pre)) as [Hlt|Hge].
  - left. rewrite nth_error_app1 in H by exact Hlt. split; assumption.
  - right. rewrite nth_error_app2 in H by exact Hge.
    destruct (j - length pre) as [|k] eqn:E.
    + cbn [nth_error] in H. split; [lia|congruence].
    + cbn [nth_error] in H. destruct k; discriminate.
Qed.

Lemma first_min_step : forall pre bi bx x, first_min pre bi bx ->
  if lt x bx then first_min (pre ++ [x]) (length pre) x else first_min (pre ++ [x]) bi bx.
Proof.
  intros pre bi bx x (H0 & H1 & H2). destruct (lt x bx) eqn:Hx; unfold first_min.
  - split; [rewrite nth_error_app2, Nat.sub_diag by lia; reflexivity|]. split.
    + intros y Hy. apply in_app_or in Hy. destruct Hy as [Hy|[<-|[]]].
      * destruct (lt y x) eqn:Hyx; [|reflexivity].
        pose proof (sw_trans lt SW y x bx Hyx Hx). rewrite (H1 y Hy) in H. discriminate.
      * apply (sw_irrefl lt SW).
    + intros j z Hj Hz. rewrite nth_error_app1 in Hz by exact Hj.
      apply (sw_lt_le lt SW x bx z Hx). apply H1. apply (nth_error_In _ j). exact Hz.
  - assert (Hbi : bi < length pre) by (apply nth_error_Some; congruence).
    split; [rewrite nth_error_app1 by exact Hbi; exact H0|]. split.
    + intros y Hy. apply in_app_or in Hy. destruct Hy as [Hy|[<-|[]]]; [apply H1; exact Hy|exact Hx].
    + intros j z Hj Hz. rewrite nth_error_app1 in Hz by lia. apply (H2 j z Hj Hz).
Qed.

Lemma min_loop_inv : forall rest pre bi bx, first_min pre bi bx ->
  exists rx, first_min (pre ++ rest) (min_loop lt rest (length pre) bi bx) rx.
Proof.
  intros rest; induction rest as [|x t IH]; intros pre bi bx Hinv.
  - cbn [min_loop]. rewrite app_nil_r. exists bx. exact Hinv.
  - cbn [min_loop]. pose proof (first_min_step pre bi bx x Hinv) as Hstep.
    replace (pre ++ x :: t) with ((pre ++ [x]) ++ t) by (rewrite <- app_assoc; reflexivity).
    replace (S (length pre)) with (length (pre ++ [x])) by (rewrite app_length; cbn [length]; lia).
    destruct (lt x bx); apply IH; exact Hstep.
Qed.

Lemma first_min_is_least : forall l r rx, first_min l r rx ->
  least (fun i => at_ l i (is_minimal lt l)) (length l) = r.
Proof.
  intros l r rx (H0 & H1 & H2). assert (Hr : r < length l) by (apply nth_error_Some; congruence).
  apply least_unique; [lia| |].
  - intros j Hj. unfold at_. destruct (nth_error l j) as [z|] eqn:Hz; [|reflexivity].
    unfold is_minimal. apply not_true_is_false. intros Hall. rewrite forallb_forall in Hall.
    specialize (Hall rx (nth_error_In _ _ H0)). rewrite (H2 j z Hj Hz) in Hall. discriminate.
  - intros _. unfold at_. rewrite H0. unfold is_minimal. apply forallb_forall. intros y Hy.
    rewrite (H1 y Hy). reflexivity.
Qed.

Lemma first_min_init : forall x, first_min [x] 0 x.
Proof.
  intros x. split; [reflexivity|]. split.
  - intros y [<-|[]]. apply (sw_irrefl lt SW).
  - intros j z Hj. lia.
Qed.

Lemma min_element_correct : forall l, min_element_m lt l = min_element_s lt l.
Proof.
  intros [|x t]; [reflexivity|]. unfold min_element_m, min_element_s.
  destruct (min_loop_inv t [x] 0 x (first_min_init x)) as [rx Hrx]. cbn [length app] in Hrx.
  symmetry. apply (first_min_is_least _ _ rx). exact Hrx.
Qed.

(* ------------------------------------------------------------------ max_element *)
(* bx at position bi is the FIRST maximal element of pre *)
Definition first_max pre (bi : nat) (bx : A) : Prop :=
  nth_error pre bi = Some bx
  /\ (forall y, In y pre -> lt bx y = false)
  /\ (forall j z, j < bi -> nth_error pre j = Some z -> lt z bx = true).

Lemma first_max_step : forall pre bi bx x, first_max pre bi bx ->
  if lt bx x then first_max (pre ++ [x]) (length pre) x else first_max (pre ++ [x]) bi bx.
Proof.
  intros pre bi bx x (H0 & H1 & H2). destruct (lt bx x) eqn:Hx; unfold first_max.
  - split; [rewrite nth_error_app2, Nat.sub_diag by lia; reflexivity|]. split.
    + intros y Hy. apply in_app_or in Hy. destruct Hy as [Hy|[<-|[]]].
      * destruct (lt x y) eqn:Hxy; [|reflexivity].
        pose proof (sw_trans lt SW bx x y Hx Hxy). rewrite (H1 y Hy) in H. discriminate.
      * apply (sw_irrefl lt SW).
    + intros j z Hj Hz. rewrite nth_error_app1 in Hz by exact Hj.
      apply (sw_le_lt lt SW z bx x); [|exact Hx]. apply H1. apply (nth_error_In _ j). exact Hz.
  - assert (Hbi : bi < length pre) by (apply nth_error_Some; congruence).
    split; [rewrite nth_error_app1 by exact Hbi; exact H0|]. split.
    + intros y Hy. apply in_app_or in Hy. destruct Hy as [Hy|[<-|[]]]; [apply H1; exact Hy|exact Hx].
    + intros j z Hj Hz. rewrite nth_error_app1 in Hz by lia. apply (H2 j z Hj Hz).
Qed.

Lemma max_loop_inv : forall rest pre bi bx, first_max pre bi bx ->
  exists rx, first_max (pre ++ rest) (max_loop lt rest (length pre) bi bx) rx.
Proof.
  intros rest; induction rest as [|x t IH]; intros pre bi bx Hinv.
  - cbn [max_loop]. rewrite app_nil_r. exists bx. exact Hinv.
  - cbn [max_loop]. pose proof (first_max_step pre bi bx x Hinv) as Hstep.
    replace (pre ++ x :: t) with ((pre ++ [x]) ++ t) by (rewrite <- app_assoc; reflexivity).
    replace (S (length pre)) with (length (pre ++ [x])) by (rewrite app_length; cbn [length]; lia).
    destruct (lt bx x); apply IH; exact Hstep.
Qed.

Lemma first_max_is_least : forall l r rx, first_max l r rx ->
  least (fun i => at_ l i (is_maximal lt l)) (length l) = r.
Proof.
  intros l r rx (H0 & H1 & H2). assert (Hr : r < length l) by (apply nth_error_Some; congruence).
  apply least_unique; [lia| |].
  - intros j Hj. unfold at_. destruct (nth_error l j) as [z|] eqn:Hz; [|reflexivity].
    unfold is_maximal. apply not_true_is_false. intros Hall. rewrite forallb_forall in Hall.
    specialize (Hall rx (nth_error_In _ _ H0)). rewrite (H2 j z Hj Hz) in Hall. discriminate.
  - intros _. unfold at_. rewrite H0. unfold is_maximal. apply forallb_forall. intros y Hy.
    rewrite (H1 y Hy). reflexivity.
Qed.

Lemma max_element_correct : forall l, max_element_m lt l = max_element_s lt l.
Proof.
  intros [|x t]; [reflexivity|]. unfold max_element_m, max_element_s.
  assert (Hinit : first_max [x] 0 x).
  { split; [reflexivity|]. split; [intros y [<-|[]]; apply (sw_irrefl lt SW)|intros j z Hj; lia]. }
  destruct (max_loop_inv t [x] 0 x Hinit) as [rx Hrx]. cbn [length app] in Hrx.
  symmetry. apply (first_max_is_least _ _ rx). exact Hrx.
Qed.

(* ------------------------------------------------------------------ minmax_element *)
(* xv at position xi is the LAST maximal element of pre *)
Definition last_max pre (xi : nat) (xv : A) : Prop :=
  nth_error pre xi = Some xv
  /\ (forall y, In y pre -> lt xv y = false)
  /\ (forall j z, xi < j -> nth_error pre j = Some z -> lt z xv = true).

Lemma last_max_step : forall pre xi xv x, last_max pre xi xv ->
  if negb (lt x xv) then last_max (pre ++ [x]) (length pre) x else last_max (pre ++ [x]) xi xv.
Proof.
  intros pre xi xv x (H0 & H1 & H2). assert (Hxi : xi < length pre) by (apply nth_error_Some; congruence).
  destruct (lt x xv) eqn:Hx; cbn [negb]; unfold last_max.
  - split; [rewrite nth_error_app1 by exact Hxi; exact H0|]. split.
    + intros y Hy. apply in_app_or in Hy. destruct Hy as [Hy|[<-|[]]]; [apply H1; exact Hy|].
      apply (sw_asym lt SW). exact Hx.
    + intros j z Hj Hz. apply nth_error_snoc_cases in Hz. destruct Hz as [[Hlt Hz]|[_ ->]].
      * apply (H2 j z Hj Hz).
      * exact Hx.
  - split; [rewrite nth_error_app2, Nat.sub_diag by lia; reflexivity|]. split.
    + intros y Hy. apply in_app_or in Hy. destruct Hy as [Hy|[<-|[]]].
      * apply (sw_ntrans lt SW x xv y Hx). apply H1. exact Hy.
      * apply (sw_irrefl lt SW).
    + intros j z Hj Hz. apply nth_error_snoc_cases in Hz. destruct Hz as [[Hlt _]|[Heq _]]; lia.
Qed.

(* the single-element step that the pairwise loop is equivalent to *)
Definition mm_step1 (s : @mm_state A) (idx : nat) (e : A) : mm_state :=
  let s1 := if lt e (mm_mv s) then {| mm_mi := idx; mm_mv := e; mm_xi := mm_xi s; mm_xv := mm_xv s |} else s in
  if negb (lt e (mm_xv s1)) then {| mm_mi := mm_mi s1; mm_mv := mm_mv s1; mm_xi := idx; mm_xv := e |} else s1.

Definition mm_inv pre (s : @mm_state A) : Prop :=
  first_min pre (mm_mi s) (mm_mv s) /\ last_max pre (mm_xi s) (mm_xv s).

Lemma mm_step1_inv : forall pre s e, mm_inv pre s -> mm_inv (pre ++ [e]) (mm_step1 s (length pre) e).
Proof.
  intros pre [mi mv xi xv] e [Hmin Hmax]. cbn [mm_mi mm_mv mm_xi mm_xv] in *.
  pose proof (first_min_step pre mi mv e Hmin) as Smin. pose proof (last_max_step pre xi xv e Hmax) as Smax.
  unfold mm_step1, mm_inv. cbn [mm_mi mm_mv mm_xi mm_xv].
  destruct (lt e mv); cbn [mm_mi mm_mv mm_xi mm_xv]; destruct (negb (lt e xv)); cbn [mm_mi mm_mv mm_xi mm_xv];
    split; assumption.
Qed.

Ltac sw_contra :=
  match goal with
  | H1 : lt ?a ?b = true, H2 : lt ?b ?c = true, H3 : lt ?a ?c = false |- _ =>
      pose proof (sw_trans lt SW a b c H1 H2); congruence
  | H1 : lt ?a ?b = false, H2 : lt ?b ?c = false, H3 : lt ?a ?c = true |- _ =>
      pose proof (sw_ntrans lt SW a b c H1 H2); congruence
  end.

(* the body for a pair (i, f) equals two single steps *)
Lemma mm_pair_steps : forall s idx i f,
  (if lt f i then
     let s1 := if lt f (mm_mv s) then {| mm_mi := S idx; mm_mv := f; mm_xi := mm_xi s; mm_xv := mm_xv s |} else s in
     if negb (lt i (mm_xv s1)) then {| mm_mi := mm_mi s1; mm_mv := mm_mv s1; mm_xi := idx; mm_xv := i |} else s1
   else
     let s1 := if lt i (mm_mv s) then {| mm_mi := idx; mm_mv := i; mm_xi := mm_xi s; mm_xv := mm_xv s |} else s in
     if negb (lt f (mm_xv s1)) then {| mm_mi := mm_mi s1; mm_mv := mm_mv s1; mm_xi := S idx; mm_xv := f |} else s1)
  = mm_step1 (mm_step1 s idx i) (S idx) f.
Proof.
  intros [mi mv xi xv] idx i f. unfold mm_step1. cbn [mm_mi mm_mv mm_xi mm_xv].
  destruct (lt f i) eqn:Hfi; destruct (lt i mv) eqn:Him; destruct (lt i xv) eqn:Hix;
    destruct (lt f mv) eqn:Hfm; destruct (lt f xv) eqn:Hfx;
    repeat (progress (rewrite ?Hfi, ?Him, ?Hix, ?Hfm, ?Hfx; cbn [negb mm_mi mm_mv mm_xi mm_xv]));
    try reflexivity; sw_contra.
Qed.

Lemma mm_loop_inv : forall n rest pre s, length rest <= n -> mm_inv pre s ->
  mm_inv (pre ++ rest) (mm_loop lt rest (length pre) s).
Proof.
  intros n; induction n as [|n IH]; intros rest pre s Hlen Hinv.
  - destruct rest; [|cbn [length] in Hlen; lia]. cbn [mm_loop]. rewrite app_nil_r. exact Hinv.
  - destruct rest as [|i [|f t]].
    + cbn [mm_loop]. rewrite app_nil_r. exact Hinv.
    + (* trailing single element *)
      cbn [mm_loop]. pose proof (mm_step1_inv pre s i Hinv) as Hstep.
      replace (if lt i (mm_mv s) then _ else _) with (mm_step1 s (length pre) i); [exact Hstep|].
      unfold mm_step1. destruct (lt i (mm_mv s)) eqn:Him; [|reflexivity]. cbn [mm_xv].
      destruct Hinv as [(M0 & M1 & M2) (X0 & X1 & X2)].
      assert (Hxm : lt (mm_xv s) (mm_mv s) = false) by (apply M1; apply (nth_error_In _ _ X0)).
      rewrite (sw_lt_le lt SW i (mm_mv s) (mm_xv s) Him Hxm). reflexivity.
    + assert (E : mm_loop lt (i :: f :: t) (length pre) s
                  = mm_loop lt t (S (S (length pre))) (mm_step1 (mm_step1 s (length pre) i) (S (length pre)) f)).
      { rewrite <- mm_pair_steps. reflexivity. }
      rewrite E.
      replace (pre ++ i :: f :: t) with (((pre ++ [i]) ++ [f]) ++ t) by (rewrite <- !app_assoc; reflexivity).
      replace (S (S (length pre))) with (length ((pre ++ [i]) ++ [f])) by (rewrite !app_length; cbn [length]; lia).
      apply IH; [cbn [length] in Hlen; lia|].
      replace (S (length pre)) with (length (pre ++ [i])) by (rewrite app_length; cbn [length]; lia).
      apply mm_step1_inv. apply mm_step1_inv. exact Hinv.
Qed.

Lemma last_max_is_last : forall l r rx, last_max l r rx ->
  last_sat (fun i => at_ l i (is_maximal lt l)) (length l) (length l) = r.
Proof.
  intros l r rx (H0 & H1 & H2). assert (Hr : r < length l) by (apply nth_error_Some; congruence).
  apply last_sat_unique; [exact Hr| |].
  - unfold at_. rewrite H0. unfold is_maximal. apply forallb_forall. intros y Hy. rewrite (H1 y Hy). reflexivity.
  - intros j Hj. unfold at_. destruct (nth_error l j) as [z|] eqn:Hz; [|reflexivity].
    unfold is_maximal. apply not_true_is_false. intros Hall. rewrite forallb_forall in Hall.
    specialize (Hall rx (nth_error_In _ _ H0)). rewrite (H2 j z) in Hall by (try exact Hz; lia). discriminate.
Qed.

Lemma minmax_element_correct : forall l, minmax_element_m lt l = minmax_element_s lt l.
Proof.
  intros [|x [|y t]]; [reflexivity| |].
  - (* one element *)
    unfold minmax_element_m, minmax_element_s, min_element_s. cbn [length].
    unfold least, last_sat, least_from, at_, is_minimal, is_maximal. cbn [nth_error forallb].
    rewrite (sw_irrefl lt SW). reflexivity.
  - unfold minmax_element_m.
    set (s0 := if lt y x then _ else _).
    assert (Hs0 : s0 = mm_step1 {| mm_mi := 0; mm_mv := x; mm_xi := 0; mm_xv := x |} 1 y).
    { unfold s0, mm_step1. cbn [mm_mi mm_mv mm_xi mm_xv]. destruct (lt y x) eqn:Hyx; cbn [negb mm_mi mm_mv mm_xi mm_xv]; rewrite ?Hyx; reflexivity. }
    assert (Hinit : mm_inv [x] {| mm_mi := 0; mm_mv := x; mm_xi := 0; mm_xv := x |}).
    { split; [apply first_min_init|]. split; [reflexivity|]. split.
      - intros z [<-|[]]. apply (sw_irrefl lt SW).
      - intros j z Hj Hz. destruct j as [|[|j]]; cbn [nth_error] in Hz; try discriminate; lia. }
    pose proof (mm_step1_inv [x] _ y Hinit) as H1. cbn [length app] in H1. rewrite <- Hs0 in H1.
    pose proof (mm_loop_inv (length t) t [x; y] s0 (Nat.le_refl _) H1) as H2. cbn [length app] in H2.
    destruct H2 as [Hmin Hmax]. unfold minmax_element_s, min_element_s.
    rewrite (first_min_is_least _ _ _ Hmin), (last_max_is_last _ _ _ Hmax). reflexivity.
Qed.

End MinMax.
