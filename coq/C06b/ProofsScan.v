(* C06b proofs, part 1: the linear scans ([alg.find], [alg.count], all/any/none_of, for_each,
   adjacent_find, mismatch, equal, lexicographical_compare, is_partitioned, partition_point). *)
From Tetl Require Import Lib.Base C06b.Model C06b.Spec.
Ltac Zify.zify_post_hook ::= Z.to_euclidean_division_equations.

(* ------------------------------------------------------------------ least / last_sat *)
Lemma least_from_ext : forall (P Q : nat -> bool) k i,
  (forall j, i <= j < i + k -> P j = Q j) -> least_from P i k = least_from Q i k.
Proof.
  intros P Q k; induction k as [|k IH]; intros i H; cbn [least_from]; [reflexivity|].
  rewrite <- (H i) by lia. destruct (P i); [reflexivity|]. apply IH. intros j Hj. apply H. lia.
Qed.

Lemma least_from_shift : forall (P : nat -> bool) k i,
  least_from P (S i) k = S (least_from (fun j => P (S j)) i k).
Proof.
  intros P k; induction k as [|k IH]; intros i; cbn [least_from]; [reflexivity|].
  destruct (P (S i)); [reflexivity|]. apply IH.
Qed.

Lemma least_S : forall (P : nat -> bool) n,
  least P (S n) = if P 0 then 0 else S (least (fun j => P (S j)) n).
Proof. intros P n. unfold least. cbn [least_from]. destruct (P 0); [reflexivity|]. apply least_from_shift. Qed.

Lemma least_ext : forall (P Q : nat -> bool) n, (forall j, j < n -> P j = Q j) -> least P n = least Q n.
Proof. intros P Q n H. apply least_from_ext. intros j Hj. apply H. lia. Qed.

Lemma least_from_bounds : forall (P : nat -> bool) k i, i <= least_from P i k <= i + k.
Proof.
  intros P k; induction k as [|k IH]; intros i; cbn [least_from]; [lia|].
  destruct (P i); [lia|]. specialize (IH (S i)). lia.
Qed.

Lemma least_le : forall (P : nat -> bool) n, least P n <= n.
Proof. intros P n. pose proof (least_from_bounds P n 0). unfold least. lia. Qed.

Lemma least_from_before : forall (P : nat -> bool) k i j, i <= j < least_from P i k -> P j = false.
Proof.
  intros P k; induction k as [|k IH]; intros i j Hj; cbn [least_from] in Hj; [lia|].
  destruct (P i) eqn:E; [lia|]. destruct (Nat.eq_dec j i) as [->|Hne]; [exact E|]. apply (IH (S i)). lia.
Qed.

Lemma least_from_at : forall (P : nat -> bool) k i, least_from P i k < i + k -> P (least_from P i k) = true.
Proof.
  intros P k; induction k as [|k IH]; intros i Hlt; cbn [least_from] in *; [lia|].
  destruct (P i) eqn:E; [exact E|]. apply IH. lia.
Qed.

(* the declarative reading of [least]: the unique r <= n with P false below r and P r if r < n *)
Lemma least_spec : forall (P : nat -> bool) n,
  least P n <= n /\ (forall j, j < least P n -> P j = false) /\ (least P n < n -> P (least P n) = true).
Proof.
  intros P n. split; [apply least_le|]. split.
  - intros j Hj. apply (least_from_before P n 0). unfold least in Hj. lia.
  - intros H. apply (least_from_at P n 0). unfold least in H. lia.
Qed.

Lemma least_unique : forall (P : nat -> bool) n r,
  r <= n -> (forall j, j < r -> P j = false) -> (r < n -> P r = true) -> least P n = r.
Proof.
  intros P n r Hle Hbefore Hat. destruct (least_spec P n) as (L1 & L2 & L3).
  destruct (Nat.lt_trichotomy (least P n) r) as [Hlt|[Heq|Hgt]]; [|exact Heq|].
  - rewrite Hbefore in L3 by exact Hlt. assert (least P n < n) by lia. intuition congruence.
  - rewrite L2 in Hat by exact Hgt. assert (r < n) by lia. intuition congruence.
Qed.

Lemma last_sat_ext : forall (P Q : nat -> bool) n d, (forall j, j < n -> P j = Q j) -> last_sat P n d = last_sat Q n d.
Proof.
  intros P Q n d; induction n as [|n IH]; intros H; cbn [last_sat]; [reflexivity|].
  rewrite <- (H n) by lia. destruct (P n); [reflexivity|]. apply IH. intros j Hj. apply H. lia.
Qed.

(* the declarative reading of [last_sat] *)
Lemma last_sat_spec : forall (P : nat -> bool) n d,
  (last_sat P n d = d /\ forall j, j < n -> P j = false)
  \/ (last_sat P n d < n /\ P (last_sat P n d) = true /\ forall j, last_sat P n d < j < n -> P j = false).
Proof.
  intros P n d; induction n as [|n IH]; cbn [last_sat].
  - left. split; [reflexivity|]. intros j Hj. lia.
  - destruct (P n) eqn:E.
    + right. split; [lia|]. split; [exact E|]. intros j Hj. lia.
    + destruct IH as [[H1 H2]|(H1 & H2 & H3)].
      * left. split; [exact H1|]. intros j Hj. destruct (Nat.eq_dec j n) as [->|Hne]; [exact E|]. apply H2. lia.
      * right. split; [lia|]. split; [exact H2|]. intros j Hj.
        destruct (Nat.eq_dec j n) as [->|Hne]; [exact E|]. apply H3. lia.
Qed.

Section Scan.
Context {A : Type}.
Implicit Types (l s : list A) (p : A -> bool) (pred lt eqb : A -> A -> bool).

(* ------------------------------------------------------------------ find_if family *)
Lemma find_if_s_cons : forall p x t,
  find_if_s p (x :: t) = if p x then 0 else S (find_if_s p t).
Proof. intros p x t. unfold find_if_s. cbn [length]. rewrite least_S. reflexivity. Qed.

Lemma find_if_correct : forall p l, find_if_m p l = find_if_s p l.
Proof.
  intros p l; induction l as [|x t IH]; [reflexivity|].
  rewrite find_if_s_cons. cbn [find_if_m]. rewrite IH. reflexivity.
Qed.

Lemma find_if_not_correct : forall p l, find_if_not_m p l = find_if_not_s p l.
Proof.
  intros p l; induction l as [|x t IH]; [reflexivity|].
  unfold find_if_not_s in *. rewrite find_if_s_cons. cbn [find_if_not_m]. rewrite IH. reflexivity.
Qed.

Lemma find_correct : forall eqb l v, find_m eqb l v = find_s eqb l v.
Proof.
  intros eqb l v; induction l as [|x t IH]; [reflexivity|].
  unfold find_s in *. rewrite find_if_s_cons. cbn [find_m]. rewrite IH. reflexivity.
Qed.

Lemma ffo_inner_existsb : forall pred x s, ffo_inner pred x s = existsb (fun y => pred x y) s.
Proof.
  intros pred x s; induction s as [|y s IH]; [reflexivity|].
  cbn [ffo_inner existsb]. rewrite IH. destruct (pred x y); reflexivity.
Qed.

Lemma find_first_of_correct : forall pred l s, find_first_of_m pred l s = find_first_of_s pred l s.
Proof.
  intros pred l s; induction l as [|x t IH]; [reflexivity|].
  unfold find_first_of_s in *. rewrite find_if_s_cons. cbn [find_first_of_m].
  rewrite IH, ffo_inner_existsb. reflexivity.
Qed.

(* declarative reading of find_if_s: position of the first element satisfying p, else the length *)
Lemma find_if_s_spec : forall p l,
  let r := find_if_s p l in
  r <= length l /\ (forall j x, j < r -> nth_error l j = Some x -> p x = false)
  /\ (r < length l -> exists x, nth_error l r = Some x /\ p x = true).
Proof.
  intros p l r. destruct (least_spec (fun i => at_ l i p) (length l)) as (H1 & H2 & H3).
  fold (find_if_s p l) in H1, H2, H3. fold r in H1, H2, H3. split; [exact H1|]. split.
  - intros j x Hj Hx. specialize (H2 j Hj). unfold at_ in H2. rewrite Hx in H2. exact H2.
  - intros Hr. specialize (H3 Hr). unfold at_ in H3. destruct (nth_error l r) as [x|]; [|discriminate].
    exists x. split; [reflexivity|exact H3].
Qed.

(* ------------------------------------------------------------------ count *)
Lemma count_loop_acc : forall p l acc, count_loop p l acc = acc + length (filter p l).
Proof.
  intros p l; induction l as [|x t IH]; intros acc; cbn [count_loop filter length]; [lia|].
  rewrite IH. destruct (p x); cbn [length]; lia.
Qed.

Lemma count_if_correct : forall p l, count_if_m p l = count_if_s p l.
Proof. intros p l. unfold count_if_m, count_if_s. rewrite count_loop_acc. reflexivity. Qed.

Lemma count_correct : forall eqb l v, count_m eqb l v = count_s eqb l v.
Proof. intros eqb l v. unfold count_m, count_s, count_if_s. rewrite count_loop_acc. reflexivity. Qed.

(* ------------------------------------------------------------------ all / any / none *)
Lemma find_if_m_full : forall p l, (find_if_m p l =? length l) = negb (existsb p l).
Proof.
  intros p l; induction l as [|x t IH]; [reflexivity|].
  cbn [find_if_m existsb length]. destruct (p x); [reflexivity|]. cbn [orb]. rewrite <- IH. reflexivity.
Qed.

Lemma find_if_not_m_full : forall p l, (find_if_not_m p l =? length l) = forallb p l.
Proof.
  intros p l; induction l as [|x t IH]; [reflexivity|].
  cbn [find_if_not_m forallb length]. destruct (p x); cbn [negb andb]; [|reflexivity]. rewrite <- IH. reflexivity.
Qed.

Lemma all_of_correct : forall p l, all_of_m p l = all_of_s p l.
Proof. intros p l. apply find_if_not_m_full. Qed.

Lemma any_of_correct : forall p l, any_of_m p l = any_of_s p l.
Proof. intros p l. unfold any_of_m, any_of_s. rewrite find_if_m_full. apply negb_involutive. Qed.

Lemma none_of_correct : forall p l, none_of_m p l = none_of_s p l.
Proof. intros p l. apply find_if_m_full. Qed.

(* ------------------------------------------------------------------ for_each / for_each_n *)
Lemma for_each_s_acc : forall {St} (f : St -> A -> St * A) l (s : St) (out : list A),
  fold_left (fun '(st, o) x => let '(st', x') := f st x in (st', o ++ [x'])) l (s, out)
  = let '(s2, t2) := for_each_m f s l in (s2, out ++ t2).
Proof.
  intros St f l; induction l as [|x t IH]; intros s out; cbn [fold_left for_each_m].
  - rewrite app_nil_r. reflexivity.
  - destruct (f s x) as [s1 x1]. rewrite IH. destruct (for_each_m f s1 t) as [s2 t2].
    rewrite <- app_assoc. reflexivity.
Qed.

Lemma for_each_correct : forall {St} (f : St -> A -> St * A) (s : St) l, for_each_m f s l = for_each_s f s l.
Proof.
  intros St f s l. unfold for_each_s. rewrite for_each_s_acc. destruct (for_each_m f s l). reflexivity.
Qed.

Lemma for_each_n_loop_correct : forall {St} (f : St -> A -> St * A) k l (s : St), k <= length l ->
  for_each_n_loop f s l k = Ok (let '(st, out) := for_each_m f s (firstn k l) in (k, st, out ++ skipn k l)).
Proof.
  intros St f k; induction k as [|k IH]; intros l s Hk; cbn [for_each_n_loop].
  - cbn [firstn skipn for_each_m app]. reflexivity.
  - destruct l as [|x t]; [cbn [length] in Hk; lia|]. cbn [firstn skipn for_each_m].
    destruct (f s x) as [s1 x1]. rewrite IH by (cbn [length] in Hk; lia).
    destruct (for_each_m f s1 (firstn k t)) as [s2 t2]. reflexivity.
Qed.

Lemma for_each_n_correct : forall {St} (f : St -> A -> St * A) (s : St) l (n : Z),
  (0 <= n <= Z.of_nat (length l))%Z ->
  for_each_n_m f s l n = Ok (for_each_n_s f s l (Z.to_nat n)).
Proof.
  intros St f s l n Hn. unfold for_each_n_m, for_each_n_s.
  rewrite for_each_n_loop_correct by lia. rewrite <- for_each_correct. reflexivity.
Qed.

(* ------------------------------------------------------------------ adjacent_find *)
Lemma adjacent_find_s_cons2 : forall pred x y t,
  adjacent_find_s pred (x :: y :: t) = if pred x y then 0 else S (adjacent_find_s pred (y :: t)).
Proof.
  intros pred x y t. unfold adjacent_find_s. cbn [length]. rewrite least_S.
  unfold at2 at 1. cbn [skipn nth_error]. destruct (pred x y); reflexivity.
Qed.

Lemma adj_loop_correct : forall pred t x,
  match adj_loop pred x t with Some i => i | None => length (x :: t) end = adjacent_find_s pred (x :: t).
Proof.
  intros pred t; induction t as [|y t IH]; intros x.
  - reflexivity.
  - rewrite adjacent_find_s_cons2. cbn [adj_loop]. destruct (pred x y); [reflexivity|].
    rewrite <- IH. destruct (adj_loop pred y t); reflexivity.
Qed.

Lemma adjacent_find_correct : forall pred l, adjacent_find_m pred l = adjacent_find_s pred l.
Proof. intros pred [|x t]; [reflexivity|]. apply adj_loop_correct. Qed.

(* ------------------------------------------------------------------ mismatch *)
Lemma mismatch_s_cons : forall pred x t1 y t2,
  mismatch_s pred (x :: t1) (y :: t2) = if negb (pred x y) then 0 else S (mismatch_s pred t1 t2).
Proof.
  intros pred x t1 y t2. unfold mismatch_s. cbn [length]. rewrite <- Nat.succ_min_distr, least_S.
  unfold at2 at 1. cbn [nth_error]. destruct (pred x y); reflexivity.
Qed.

Lemma mismatch4_correct : forall pred l1 l2, mismatch4_m pred l1 l2 = mismatch_s pred l1 l2.
Proof.
  intros pred l1; induction l1 as [|x t1 IH]; intros l2.
  - reflexivity.
  - destruct l2 as [|y t2].
    + unfold mismatch_s. cbn [length]. rewrite Nat.min_0_r. reflexivity.
    + rewrite mismatch_s_cons. cbn [mismatch4_m]. rewrite IH. reflexivity.
Qed.

Lemma second_range_cons : forall (x : A) t1 (y : A) t2, second_range (x :: t1) (y :: t2) = y :: second_range t1 t2.
Proof. reflexivity. Qed.

Lemma mismatch3_correct : forall pred l1 l2, length l1 <= length l2 ->
  mismatch3_m pred l1 l2 = Ok (mismatch_s pred l1 (second_range l1 l2)).
Proof.
  intros pred l1; induction l1 as [|x t1 IH]; intros l2 Hlen.
  - reflexivity.
  - destruct l2 as [|y t2]; [cbn [length] in Hlen; lia|].
    rewrite second_range_cons, mismatch_s_cons. cbn [mismatch3_m].
    destruct (pred x y); cbn [negb]; [|reflexivity]. rewrite IH by (cbn [length] in Hlen; lia). reflexivity.
Qed.

(* ------------------------------------------------------------------ equal *)
Lemma equal_loop_correct : forall pred l1 l2, equal_loop pred l1 l2 = equal_s pred l1 l2.
Proof.
  intros pred l1; induction l1 as [|x t1 IH]; intros [|y t2]; try reflexivity.
  cbn [equal_loop]. unfold equal_s. cbn [length combine forallb Nat.eqb]. fold (equal_s pred t1 t2).
  rewrite IH. destruct (pred x y); cbn [negb andb].
  - reflexivity.
  - rewrite andb_false_r. reflexivity.
Qed.

Lemma equal3_samelen : forall pred l1 l2, length l1 = length l2 ->
  equal3_m pred l1 l2 = Ok (forallb (fun '(x, y) => pred x y) (combine l1 l2)).
Proof.
  intros pred l1; induction l1 as [|x t1 IH]; intros [|y t2] Hlen; try reflexivity; try discriminate.
  cbn [equal3_m combine forallb]. destruct (pred x y); cbn [negb andb]; [|reflexivity].
  apply IH. cbn [length] in Hlen. lia.
Qed.

Lemma equal3_correct : forall pred l1 l2, length l1 <= length l2 ->
  equal3_m pred l1 l2 = Ok (equal_s pred l1 (second_range l1 l2)).
Proof.
  intros pred l1; induction l1 as [|x t1 IH]; intros l2 Hlen.
  - reflexivity.
  - destruct l2 as [|y t2]; [cbn [length] in Hlen; lia|].
    rewrite second_range_cons. cbn [equal3_m]. unfold equal_s. cbn [length combine forallb Nat.eqb].
    fold (equal_s pred t1 (second_range t1 t2)).
    destruct (pred x y); cbn [negb andb].
    + apply IH. cbn [length] in Hlen. lia.
    + rewrite andb_false_r. reflexivity.
Qed.

Lemma equal4_correct : forall ra pred l1 l2, equal4_m ra pred l1 l2 = Ok (equal_s pred l1 l2).
Proof.
  intros ra pred l1 l2. unfold equal4_m. destruct ra.
  - unfold equal_s. destruct (length l1 =? length l2) eqn:E; cbn [negb andb]; [|reflexivity].
    apply equal3_samelen. apply Nat.eqb_eq. exact E.
  - rewrite equal_loop_correct. reflexivity.
Qed.

(* ------------------------------------------------------------------ lexicographical_compare *)
Lemma lex_s_cons : forall lt x t1 y t2,
  lexicographical_compare_s lt (x :: t1) (y :: t2)
  = if lt x y then true else if lt y x then false else lexicographical_compare_s lt t1 t2.
Proof.
  intros lt x t1 y t2. unfold lexicographical_compare_s. cbn [length]. rewrite <- Nat.succ_min_distr, least_S.
  change (at2 (x :: t1) (y :: t2) 0 (fun a b => lt a b || lt b a)) with (lt x y || lt y x).
  destruct (lt x y) eqn:Exy; cbn [orb].
  - unfold at2. cbn [nth_error Nat.ltb Nat.leb]. exact Exy.
  - destruct (lt y x) eqn:Eyx.
    + unfold at2. cbn [nth_error Nat.ltb Nat.leb]. exact Exy.
    + set (k := least _ _). change (S k <? S (Nat.min (length t1) (length t2))) with (k <? Nat.min (length t1) (length t2)).
      change (S (length t1) <? S (length t2)) with (length t1 <? length t2).
      change (at2 (x :: t1) (y :: t2) (S k) lt) with (at2 t1 t2 k lt). reflexivity.
Qed.

Lemma lexicographical_compare_correct : forall lt l1 l2,
  lexicographical_compare_m lt l1 l2 = lexicographical_compare_s lt l1 l2.
Proof.
  intros lt l1; induction l1 as [|x t1 IH]; intros [|y t2]; try reflexivity.
  rewrite lex_s_cons. cbn [lexicographical_compare_m]. rewrite IH. reflexivity.
Qed.

(* ------------------------------------------------------------------ is_partitioned / partition_point *)
Lemma ip_second_correct : forall p l, ip_second p l = forallb (fun x => negb (p x)) l.
Proof.
  intros p l; induction l as [|x t IH]; [reflexivity|].
  cbn [ip_second forallb]. rewrite IH. destruct (p x); reflexivity.
Qed.

Lemma partitioned_iff : forall p l,
  partitioned p l = true <-> exists k, k <= length l /\ partitioned_at p l k = true.
Proof.
  intros p l. unfold partitioned. rewrite existsb_exists. split.
  - intros (k & Hin & Hk). exists k. apply in_seq in Hin. split; [lia|exact Hk].
  - intros (k & Hle & Hk). exists k. split; [apply in_seq; lia|exact Hk].
Qed.

Lemma partitioned_at_cons_true : forall p x t k, p x = true ->
  partitioned_at p (x :: t) (S k) = partitioned_at p t k.
Proof. intros p x t k Hx. unfold partitioned_at. cbn [firstn skipn forallb]. rewrite Hx. reflexivity. Qed.

Lemma partitioned_cons_true : forall p x t, p x = true -> partitioned p (x :: t) = partitioned p t.
Proof.
  intros p x t Hx. apply eq_true_iff_eq. rewrite !partitioned_iff. split.
  - intros (k & Hle & Hk). destruct k as [|k].
    + unfold partitioned_at in Hk. cbn [firstn skipn forallb] in Hk. rewrite Hx in Hk. discriminate.
    + exists k. rewrite partitioned_at_cons_true in Hk by exact Hx. cbn [length] in Hle. split; [lia|exact Hk].
  - intros (k & Hle & Hk). exists (S k). rewrite partitioned_at_cons_true by exact Hx. cbn [length]. split; [lia|exact Hk].
Qed.

Lemma partitioned_cons_false : forall p x t, p x = false ->
  partitioned p (x :: t) = forallb (fun y => negb (p y)) t.
Proof.
  intros p x t Hx. apply eq_true_iff_eq. rewrite partitioned_iff. split.
  - intros (k & Hle & Hk). destruct k as [|k].
    + unfold partitioned_at in Hk. cbn [firstn skipn forallb] in Hk. rewrite Hx in Hk. exact Hk.
    + unfold partitioned_at in Hk. cbn [firstn forallb] in Hk. rewrite Hx in Hk. discriminate.
  - intros H. exists 0. split; [lia|]. unfold partitioned_at. cbn [firstn skipn forallb]. rewrite Hx, H. reflexivity.
Qed.

Lemma is_partitioned_correct : forall p l, is_partitioned_m p l = is_partitioned_s p l.
Proof.
  intros p l; induction l as [|x t IH]; [reflexivity|].
  unfold is_partitioned_s in *. cbn [is_partitioned_m]. destruct (p x) eqn:Hx; cbn [negb].
  - rewrite partitioned_cons_true by exact Hx. exact IH.
  - rewrite partitioned_cons_false by exact Hx. cbn [ip_second]. rewrite Hx. apply ip_second_correct.
Qed.

Lemma filter_none : forall p l, forallb (fun y => negb (p y)) l = true -> filter p l = [].
Proof.
  intros p l; induction l as [|x t IH]; intros H; [reflexivity|].
  cbn [forallb] in H. apply andb_prop in H. destruct H as [H1 H2]. cbn [filter].
  destruct (p x); [discriminate|]. apply IH. exact H2.
Qed.

Lemma partition_point_correct : forall p l, partitioned p l = true ->
  partition_point_m p l = partition_point_s p l.
Proof.
  intros p l; induction l as [|x t IH]; intros Hp; [reflexivity|].
  unfold partition_point_s in *. cbn [partition_point_m filter]. destruct (p x) eqn:Hx; cbn [negb length].
  - rewrite partitioned_cons_true in Hp by exact Hx. rewrite IH by exact Hp. reflexivity.
  - rewrite partitioned_cons_false in Hp by exact Hx. rewrite filter_none by exact Hp. reflexivity.
Qed.

(* the specification's value is THE partition point: all before satisfy p, none after *)
Lemma partition_point_s_spec : forall p l, partitioned p l = true ->
  partitioned_at p l (partition_point_s p l) = true.
Proof.
  intros p l; induction l as [|x t IH]; intros Hp; [reflexivity|].
  unfold partition_point_s in *. cbn [filter]. destruct (p x) eqn:Hx; cbn [length].
  - rewrite partitioned_cons_true in Hp by exact Hx. rewrite partitioned_at_cons_true by exact Hx. apply IH. exact Hp.
  - rewrite partitioned_cons_false in Hp by exact Hx. rewrite filter_none by exact Hp.
    unfold partitioned_at. cbn [length firstn skipn forallb]. rewrite Hx, Hp. reflexivity.
Qed.

End Scan.
