(* C06b proofs, part 6: merge and the set operations on sorted ranges. *)
From Tetl Require Import Lib.Base C06b.Model C06b.Spec C06b.Order.
Ltac Zify.zify_post_hook ::= Z.to_euclidean_division_equations.

Section SetOps.
Context {A : Type} (lt : A -> A -> bool) (SW : strict_weak lt).
Implicit Types (l : list A).

Notation rm := (remove_first_eqv lt).
Notation ins := (insert_stable lt).
Notation sorted := (sorted_all lt).

(* ------------------------------------------------------------------ unfolding equations *)
Lemma merge_nil_l : forall l2, merge_m lt [] l2 = l2.
Proof. intros [|y t2]; reflexivity. Qed.
Lemma merge_nil_r : forall l1, merge_m lt l1 [] = l1.
Proof. intros [|x t1]; reflexivity. Qed.
Lemma merge_cons : forall x t1 y t2,
  merge_m lt (x :: t1) (y :: t2) = if lt y x then y :: merge_m lt (x :: t1) t2 else x :: merge_m lt t1 (y :: t2).
Proof. reflexivity. Qed.

Lemma sd_nil_l : forall l2, set_difference_m lt [] l2 = [].
Proof. intros [|y t2]; reflexivity. Qed.
Lemma sd_nil_r : forall l1, set_difference_m lt l1 [] = l1.
Proof. intros [|x t1]; reflexivity. Qed.
Lemma sd_cons : forall x t1 y t2,
  set_difference_m lt (x :: t1) (y :: t2)
  = if lt x y then x :: set_difference_m lt t1 (y :: t2)
    else if negb (lt y x) then set_difference_m lt t1 t2 else set_difference_m lt (x :: t1) t2.
Proof. reflexivity. Qed.

Lemma si_nil_l : forall l2, set_intersection_m lt [] l2 = [].
Proof. intros [|y t2]; reflexivity. Qed.
Lemma si_nil_r : forall l1, set_intersection_m lt l1 [] = [].
Proof. intros [|x t1]; reflexivity. Qed.
Lemma si_cons : forall x t1 y t2,
  set_intersection_m lt (x :: t1) (y :: t2)
  = if lt x y then set_intersection_m lt t1 (y :: t2)
    else if negb (lt y x) then x :: set_intersection_m lt t1 t2 else set_intersection_m lt (x :: t1) t2.
Proof. reflexivity. Qed.

Lemma su_nil_l : forall l2, set_union_m lt [] l2 = l2.
Proof. intros [|y t2]; reflexivity. Qed.
Lemma su_nil_r : forall l1, set_union_m lt l1 [] = l1.
Proof. intros [|x t1]; reflexivity. Qed.
Lemma su_cons : forall x t1 y t2,
  set_union_m lt (x :: t1) (y :: t2)
  = if lt y x then y :: set_union_m lt (x :: t1) t2
    else x :: (if negb (lt x y) then set_union_m lt t1 t2 else set_union_m lt t1 (y :: t2)).
Proof. reflexivity. Qed.

Lemma ssd_nil_l : forall l2, set_symmetric_difference_m lt [] l2 = l2.
Proof. intros [|y t2]; reflexivity. Qed.
Lemma ssd_nil_r : forall l1, set_symmetric_difference_m lt l1 [] = l1.
Proof. intros [|x t1]; reflexivity. Qed.
Lemma ssd_cons : forall x t1 y t2,
  set_symmetric_difference_m lt (x :: t1) (y :: t2)
  = if lt x y then x :: set_symmetric_difference_m lt t1 (y :: t2)
    else if lt y x then y :: set_symmetric_difference_m lt (x :: t1) t2
    else set_symmetric_difference_m lt t1 t2.
Proof. reflexivity. Qed.

(* ------------------------------------------------------------------ order helpers on sorted lists *)
(* everything in a sorted y :: t2 is not less than anything that y is not less than *)
Lemma sorted_tail_ge : forall x y t2, sorted (y :: t2) = true -> lt y x = false ->
  forall w, In w (y :: t2) -> lt w x = false.
Proof.
  intros x y t2 Hs Hyx w [<-|Hw]; [exact Hyx|].
  destruct (sorted_all_cons lt y t2 Hs) as [Hge _]. exact (sw_ntrans lt SW w y x (Hge w Hw) Hyx).
Qed.

(* everything in a sorted x :: t1 is greater than anything less than x *)
Lemma sorted_tail_gt : forall x y t1, sorted (x :: t1) = true -> lt y x = true ->
  forall w, In w (x :: t1) -> lt y w = true.
Proof.
  intros x y t1 Hs Hyx w [<-|Hw]; [exact Hyx|].
  destruct (sorted_all_cons lt x t1 Hs) as [Hge _]. exact (sw_lt_le lt SW y x w Hyx (Hge w Hw)).
Qed.

(* ------------------------------------------------------------------ stable insertion sort *)
Lemma ins_head : forall x l, (forall w, In w l -> lt w x = false) -> ins x l = x :: l.
Proof. intros x [|y t] H; [reflexivity|]. cbn [insert_stable]. rewrite (H y (or_introl eq_refl)). reflexivity. Qed.

Lemma ssort_sorted_id : forall l, sorted l = true -> stable_sort_s lt l = l.
Proof.
  intros l; induction l as [|x t IH]; intros Hs; [reflexivity|].
  destruct (sorted_all_cons lt x t Hs) as [Hge Ht]. unfold stable_sort_s in *. cbn [fold_right].
  rewrite IH by exact Ht. apply ins_head. exact Hge.
Qed.

Lemma ssort_app : forall l1 l2, stable_sort_s lt (l1 ++ l2) = fold_right ins (stable_sort_s lt l2) l1.
Proof. intros l1 l2. unfold stable_sort_s. apply fold_right_app. Qed.

(* ------------------------------------------------------------------ merge *)
Lemma merge_In : forall l1 l2 w, In w (merge_m lt l1 l2) -> In w l1 \/ In w l2.
Proof.
  intros l1; induction l1 as [|x t1 IH1]; intros l2 w Hw.
  - rewrite merge_nil_l in Hw. right. exact Hw.
  - induction l2 as [|y t2 IH2].
    + left. exact Hw.
    + rewrite merge_cons in Hw. destruct (lt y x).
      * destruct Hw as [<-|Hw]; [right; left; reflexivity|]. destruct (IH2 Hw) as [H|H]; [left; exact H|right; right; exact H].
      * destruct Hw as [<-|Hw]; [left; left; reflexivity|]. destruct (IH1 _ _ Hw) as [H|H]; [left; right; exact H|right; exact H].
Qed.

Lemma merge_head_le : forall x t1 S, (forall w, In w S -> lt w x = false) ->
  merge_m lt (x :: t1) S = x :: merge_m lt t1 S.
Proof.
  intros x t1 [|w S'] H.
  - rewrite !merge_nil_r. reflexivity.
  - rewrite merge_cons, (H w (or_introl eq_refl)). reflexivity.
Qed.

Lemma merge_head_gt : forall y S1 S2, (forall w, In w S1 -> lt y w = true) ->
  merge_m lt S1 (y :: S2) = y :: merge_m lt S1 S2.
Proof.
  intros y [|w S1'] S2 H.
  - rewrite !merge_nil_l. reflexivity.
  - rewrite merge_cons, (H w (or_introl eq_refl)). reflexivity.
Qed.

Lemma merge_insert : forall x t1 l2, sorted (x :: t1) = true -> sorted l2 = true ->
  merge_m lt (x :: t1) l2 = ins x (merge_m lt t1 l2).
Proof.
  intros x t1 l2 Hs1. destruct (sorted_all_cons lt x t1 Hs1) as [Hge1 Ht1].
  induction l2 as [|y t2 IH]; intros Hs2.
  - rewrite !merge_nil_r. symmetry. apply ins_head. exact Hge1.
  - destruct (sorted_all_cons lt y t2 Hs2) as [Hge2 Ht2]. rewrite merge_cons. destruct (lt y x) eqn:Hyx.
    + rewrite IH by exact Ht2.
      rewrite (merge_head_gt y t1 t2).
      * cbn [insert_stable]. rewrite Hyx. reflexivity.
      * intros w Hw. exact (sw_lt_le lt SW y x w Hyx (Hge1 w Hw)).
    + symmetry. apply ins_head. intros w Hw. apply merge_In in Hw. destruct Hw as [Hw|Hw].
      * apply Hge1. exact Hw.
      * exact (sorted_tail_ge x y t2 Hs2 Hyx w Hw).
Qed.

Lemma merge_correct : forall l1 l2, sorted l1 = true -> sorted l2 = true ->
  merge_m lt l1 l2 = merge_s lt l1 l2.
Proof.
  intros l1 l2 Hs1 Hs2. unfold merge_s. rewrite ssort_app, (ssort_sorted_id l2 Hs2).
  induction l1 as [|x t1 IH].
  - apply merge_nil_l.
  - rewrite merge_insert by assumption. cbn [fold_right]. rewrite IH; [reflexivity|].
    apply (sorted_all_cons lt x t1 Hs1).
Qed.

(* ------------------------------------------------------------------ remove_first_eqv *)
Lemma rm_In : forall y l w, In w (rm y l) -> In w l.
Proof.
  intros y l; induction l as [|x t IH]; intros w Hw; [exact Hw|].
  cbn [remove_first_eqv] in Hw. destruct (equiv lt y x); [right; exact Hw|].
  destruct Hw as [<-|Hw]; [left; reflexivity|right; apply IH; exact Hw].
Qed.

Lemma rm_sorted : forall y l, sorted l = true -> sorted (rm y l) = true.
Proof.
  intros y l; induction l as [|x t IH]; intros Hs; [reflexivity|].
  destruct (sorted_all_cons lt x t Hs) as [Hge Ht]. cbn [remove_first_eqv]. destruct (equiv lt y x); [exact Ht|].
  apply sorted_all_intro; [|apply IH; exact Ht]. intros w Hw. apply Hge. apply (rm_In y). exact Hw.
Qed.

Lemma rm_none : forall y l, (forall w, In w l -> equiv lt y w = false) -> rm y l = l.
Proof.
  intros y l; induction l as [|x t IH]; intros H; [reflexivity|].
  cbn [remove_first_eqv]. rewrite (H x (or_introl eq_refl)). f_equal. apply IH. intros w Hw. apply H. right. exact Hw.
Qed.

(* ------------------------------------------------------------------ set_difference *)
Lemma sd_step : forall l1 y t2, sorted l1 = true -> sorted (y :: t2) = true ->
  set_difference_m lt l1 (y :: t2) = set_difference_m lt (rm y l1) t2.
Proof.
  intros l1 y t2; induction l1 as [|x t1 IH]; intros Hs1 Hs2.
  - cbn [remove_first_eqv]. rewrite !sd_nil_l. reflexivity.
  - destruct (sorted_all_cons lt x t1 Hs1) as [Hge1 Ht1]. destruct (sorted_all_cons lt y t2 Hs2) as [Hge2 Ht2].
    rewrite sd_cons. cbn [remove_first_eqv]. unfold equiv. destruct (lt x y) eqn:Hxy.
    + rewrite andb_false_r. rewrite IH by assumption.
      destruct t2 as [|z t2'].
      * rewrite !sd_nil_r. reflexivity.
      * rewrite sd_cons. rewrite (sw_lt_le lt SW x y z Hxy (Hge2 z (or_introl eq_refl))). reflexivity.
    + destruct (lt y x) eqn:Hyx; cbn [negb andb].
      * f_equal. symmetry. f_equal. apply rm_none. intros w Hw. unfold equiv.
        rewrite (sw_lt_le lt SW y x w Hyx (Hge1 w Hw)). reflexivity.
      * reflexivity.
Qed.

Lemma set_difference_correct : forall l2 l1, sorted l1 = true -> sorted l2 = true ->
  set_difference_m lt l1 l2 = set_difference_s lt l1 l2.
Proof.
  intros l2; induction l2 as [|y t2 IH]; intros l1 Hs1 Hs2.
  - apply sd_nil_r.
  - rewrite sd_step by assumption. unfold set_difference_s. cbn [fold_left].
    apply IH; [apply rm_sorted; exact Hs1|apply (sorted_all_cons lt y t2 Hs2)].
Qed.

Lemma sd_s_In : forall l2 l1 w, In w (set_difference_s lt l1 l2) -> In w l1.
Proof.
  intros l2; induction l2 as [|y t2 IH]; intros l1 w Hw; [exact Hw|].
  unfold set_difference_s in *. cbn [fold_left] in Hw. apply (rm_In y). apply IH. exact Hw.
Qed.

Lemma sd_s_sorted : forall l2 l1, sorted l1 = true -> sorted (set_difference_s lt l1 l2) = true.
Proof.
  intros l2; induction l2 as [|y t2 IH]; intros l1 Hs; [exact Hs|].
  unfold set_difference_s in *. cbn [fold_left]. apply IH. apply rm_sorted. exact Hs.
Qed.

Lemma sd_In : forall l1 l2 w, sorted l1 = true -> sorted l2 = true -> In w (set_difference_m lt l1 l2) -> In w l1.
Proof. intros l1 l2 w H1 H2 Hw. rewrite set_difference_correct in Hw by assumption. apply (sd_s_In l2). exact Hw. Qed.

(* ------------------------------------------------------------------ set_intersection *)
Lemma inter_nil_r : forall l1, set_intersection_s lt l1 [] = [].
Proof. intros l1; induction l1 as [|x t IH]; [reflexivity|]. cbn [set_intersection_s existsb]. exact IH. Qed.

Lemma inter_drop_small : forall l1 y t2, (forall w, In w l1 -> lt y w = true) ->
  set_intersection_s lt l1 (y :: t2) = set_intersection_s lt l1 t2.
Proof.
  intros l1 y; induction l1 as [|w l1' IH]; intros t2 H; [reflexivity|].
  assert (Hyw : lt y w = true) by (apply H; left; reflexivity).
  assert (Ewy : equiv lt w y = false) by (unfold equiv; rewrite Hyw; apply andb_false_r).
  cbn [set_intersection_s existsb remove_first_eqv]. rewrite Ewy. cbn [orb].
  destruct (existsb (equiv lt w) t2); [f_equal|]; apply IH; intros z Hz; apply H; right; exact Hz.
Qed.

Lemma set_intersection_correct : forall l1 l2, sorted l1 = true -> sorted l2 = true ->
  set_intersection_m lt l1 l2 = set_intersection_s lt l1 l2.
Proof.
  intros l1; induction l1 as [|x t1 IH1]; intros l2 Hs1 Hs2.
  - apply si_nil_l.
  - destruct (sorted_all_cons lt x t1 Hs1) as [Hge1 Ht1].
    induction l2 as [|y t2 IH2].
    + rewrite si_nil_r, inter_nil_r. reflexivity.
    + destruct (sorted_all_cons lt y t2 Hs2) as [Hge2 Ht2]. rewrite si_cons. destruct (lt x y) eqn:Hxy.
      * (* x is below everything in l2 *)
        rewrite IH1 by assumption. cbn [set_intersection_s].
        replace (existsb (equiv lt x) (y :: t2)) with false; [reflexivity|].
        symmetry. apply not_true_is_false. intros Hex. apply existsb_exists in Hex. destruct Hex as (w & Hw & Ew).
        assert (Hxw : lt x w = true).
        { destruct Hw as [<-|Hw]; [exact Hxy|]. exact (sw_lt_le lt SW x y w Hxy (Hge2 w Hw)). }
        unfold equiv in Ew. rewrite Hxw in Ew. discriminate.
      * destruct (lt y x) eqn:Hyx; cbn [negb].
        -- rewrite IH2 by exact Ht2. symmetry. apply inter_drop_small.
           exact (sorted_tail_gt x y t1 Hs1 Hyx).
        -- assert (Exy : equiv lt x y = true) by (unfold equiv; rewrite Hxy, Hyx; reflexivity).
           cbn [set_intersection_s existsb remove_first_eqv]. rewrite !Exy. cbn [orb].
           f_equal. apply IH1; assumption.
Qed.

(* ------------------------------------------------------------------ set_union *)
Lemma su_merge : forall l1 l2, sorted l1 = true -> sorted l2 = true ->
  set_union_m lt l1 l2 = merge_m lt l1 (set_difference_m lt l2 l1).
Proof.
  intros l1; induction l1 as [|x t1 IH1]; intros l2 Hs1 Hs2.
  - rewrite su_nil_l, sd_nil_r, merge_nil_l. reflexivity.
  - destruct (sorted_all_cons lt x t1 Hs1) as [Hge1 Ht1].
    induction l2 as [|y t2 IH2].
    + rewrite su_nil_r, sd_nil_l, merge_nil_r. reflexivity.
    + destruct (sorted_all_cons lt y t2 Hs2) as [Hge2 Ht2]. rewrite su_cons, sd_cons. destruct (lt y x) eqn:Hyx.
      * rewrite IH2 by exact Ht2. rewrite merge_cons, Hyx. reflexivity.
      * destruct (lt x y) eqn:Hxy; cbn [negb].
        -- rewrite IH1 by assumption. symmetry. apply merge_head_le. intros w Hw.
           apply sd_In in Hw; try assumption. exact (sorted_tail_ge x y t2 Hs2 Hyx w Hw).
        -- rewrite IH1 by assumption. symmetry. apply merge_head_le. intros w Hw.
           apply sd_In in Hw; try assumption. apply (sorted_tail_ge x y t2 Hs2 Hyx w). right. exact Hw.
Qed.

Lemma set_union_correct : forall l1 l2, sorted l1 = true -> sorted l2 = true ->
  set_union_m lt l1 l2 = set_union_s lt l1 l2.
Proof.
  intros l1 l2 Hs1 Hs2. rewrite su_merge by assumption. rewrite set_difference_correct by assumption.
  rewrite merge_correct; [reflexivity|exact Hs1|]. apply sd_s_sorted. exact Hs2.
Qed.

(* ------------------------------------------------------------------ set_symmetric_difference *)
Lemma ssd_merge : forall l1 l2, sorted l1 = true -> sorted l2 = true ->
  set_symmetric_difference_m lt l1 l2
  = merge_m lt (set_difference_m lt l1 l2) (set_difference_m lt l2 l1).
Proof.
  intros l1; induction l1 as [|x t1 IH1]; intros l2 Hs1 Hs2.
  - rewrite ssd_nil_l, sd_nil_l, sd_nil_r, merge_nil_l. reflexivity.
  - destruct (sorted_all_cons lt x t1 Hs1) as [Hge1 Ht1].
    induction l2 as [|y t2 IH2].
    + rewrite ssd_nil_r, sd_nil_l, sd_nil_r, merge_nil_r. reflexivity.
    + destruct (sorted_all_cons lt y t2 Hs2) as [Hge2 Ht2]. rewrite ssd_cons, (sd_cons x t1 y t2), (sd_cons y t2 x t1).
      destruct (lt x y) eqn:Hxy.
      * pose proof (sw_asym lt SW x y Hxy) as Hyx. rewrite Hyx. cbn [negb].
        rewrite IH1 by assumption. symmetry. apply merge_head_le. intros w Hw.
        apply sd_In in Hw; try assumption. exact (sorted_tail_ge x y t2 Hs2 Hyx w Hw).
      * destruct (lt y x) eqn:Hyx; cbn [negb].
        -- rewrite IH2 by exact Ht2. symmetry. apply merge_head_gt. intros w Hw.
           apply sd_In in Hw; try assumption. exact (sorted_tail_gt x y t1 Hs1 Hyx w Hw).
        -- apply IH1; assumption.
Qed.

Lemma set_symmetric_difference_correct : forall l1 l2, sorted l1 = true -> sorted l2 = true ->
  set_symmetric_difference_m lt l1 l2 = set_symmetric_difference_s lt l1 l2.
Proof.
  intros l1 l2 Hs1 Hs2. rewrite ssd_merge by assumption. rewrite !set_difference_correct by assumption.
  apply merge_correct; apply sd_s_sorted; assumption.
Qed.

End SetOps.
