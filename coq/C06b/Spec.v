(* C06b specification: what [alg.nonmodifying], [alg.sorting] (binary search, merge, set
   operations, min/max, lexicographical comparison, is_sorted, partitions) and [numeric.ops]
   of C++20 say, over lists and positions.  Written with "the least / the last position such
   that ...", counting, filtering and multiset surgery; never mentions how the code loops. *)
From Tetl Require Import Lib.Base.
From Coq Require Import Permutation.

(* ---------------------------------------------------------------- position combinators *)
(* least j in [i, i+k) with P j, else i+k *)
Fixpoint least_from (P : nat -> bool) (i k : nat) : nat :=
  match k with
  | O => i
  | S k' => if P i then i else least_from P (S i) k'
  end.

(* the least position below n that satisfies P, else n *)
Definition least (P : nat -> bool) (n : nat) : nat := least_from P 0 n.

(* the last position below n that satisfies P, else dflt *)
Fixpoint last_sat (P : nat -> bool) (n dflt : nat) : nat :=
  match n with
  | O => dflt
  | S k => if P k then k else last_sat P k dflt
  end.

Section Spec.
Context {A : Type}.

(* element i satisfies f (false outside the range) *)
Definition at_ (l : list A) (i : nat) (f : A -> bool) : bool :=
  match nth_error l i with Some x => f x | None => false end.

Definition at2 (l1 l2 : list A) (i : nat) (f : A -> A -> bool) : bool :=
  match nth_error l1 i, nth_error l2 i with Some x, Some y => f x y | _, _ => false end.

(* [alg.sorting]/4: comp is a strict weak ordering: comp and equiv(a,b) = !comp(a,b) && !comp(b,a)
   are transitive, comp is irreflexive *)
Definition equiv (lt : A -> A -> bool) (a b : A) : bool := negb (lt a b) && negb (lt b a).

Record strict_weak (lt : A -> A -> bool) : Prop := {
  sw_irrefl : forall a, lt a a = false;
  sw_trans : forall a b c, lt a b = true -> lt b c = true -> lt a c = true;
  sw_equiv_trans : forall a b c, equiv lt a b = true -> equiv lt b c = true -> equiv lt a c = true
}.

(* [alg.sorting]/5: a sequence is sorted with respect to comp if for every position i and every
   n >= 0 with i + n in the sequence, comp( *(i+n), *i) == false   (ALL pairs, not adjacent ones) *)
Fixpoint sorted_all (lt : A -> A -> bool) (l : list A) : bool :=
  match l with
  | [] => true
  | x :: t => forallb (fun y => negb (lt y x)) t && sorted_all lt t
  end.

(* [alg.sorting]/6 partitioned with respect to f: exists k, all of the first k satisfy f, none of the rest *)
Definition partitioned_at (f : A -> bool) (l : list A) (k : nat) : bool :=
  forallb f (firstn k l) && forallb (fun x => negb (f x)) (skipn k l).

Definition partitioned (f : A -> bool) (l : list A) : bool :=
  existsb (partitioned_at f l) (seq 0 (S (length l))).

(* ---------------------------------------------------------------- [alg.find] [alg.find.first.of] [alg.count] *)
Definition find_if_s (p : A -> bool) (l : list A) : nat := least (fun i => at_ l i p) (length l).
Definition find_s (eqb : A -> A -> bool) (l : list A) (v : A) : nat := find_if_s (fun x => eqb x v) l.
Definition find_if_not_s (p : A -> bool) (l : list A) : nat := find_if_s (fun x => negb (p x)) l.
Definition find_first_of_s (pred : A -> A -> bool) (l s : list A) : nat :=
  find_if_s (fun x => existsb (fun y => pred x y) s) l.
Definition count_if_s (p : A -> bool) (l : list A) : nat := length (filter p l).
Definition count_s (eqb : A -> A -> bool) (l : list A) (v : A) : nat := count_if_s (fun x => eqb x v) l.

(* ---------------------------------------------------------------- [alg.all.of] [alg.any.of] [alg.none.of] *)
Definition all_of_s (p : A -> bool) (l : list A) : bool := forallb p l.
Definition any_of_s (p : A -> bool) (l : list A) : bool := existsb p l.
Definition none_of_s (p : A -> bool) (l : list A) : bool := negb (existsb p l).

(* ---------------------------------------------------------------- [alg.foreach] *)
(* f is applied to every element in order; its final state is returned *)
Definition for_each_s {St : Type} (f : St -> A -> St * A) (s : St) (l : list A) : St * list A :=
  fold_left (fun '(st, out) x => let '(st', x') := f st x in (st', out ++ [x'])) l (s, []).

(* for_each_n: requires 0 <= n <= length; applies f to the first n elements, returns first + n *)
Definition for_each_n_s {St : Type} (f : St -> A -> St * A) (s : St) (l : list A) (n : nat)
  : nat * St * list A :=
  let '(st, out) := for_each_s f s (firstn n l) in (n, st, out ++ skipn n l).

(* ---------------------------------------------------------------- [alg.search] [alg.find.end] *)
(* the needle s matches at position i of l: i + |s| <= |l| and pred(l[i+n], s[n]) for every n < |s| *)
Definition match_at (pred : A -> A -> bool) (l s : list A) (i : nat) : bool :=
  (i + length s <=? length l)
  && forallb (fun '(x, y) => pred x y) (combine (firstn (length s) (skipn i l)) s).

(* first match position; first1 (= 0) if the needle is empty; last1 if there is none *)
Definition search_s (pred : A -> A -> bool) (l s : list A) : nat :=
  least (match_at pred l s) (length l).

(* last match position; last1 if the needle is empty or there is none *)
Definition find_end_s (pred : A -> A -> bool) (l s : list A) : nat :=
  match s with
  | [] => length l
  | _ => last_sat (match_at pred l s) (length l) (length l)
  end.

(* default_searcher: (i, i + |s|) when found, (last, last) otherwise *)
Definition default_searcher_s (pred : A -> A -> bool) (l s : list A) : nat * nat :=
  let i := search_s pred l s in
  if i <? length l then (i, i + length s) else (length l, length l).

(* search_n: first position of count consecutive elements e with pred(e, v); first if count <= 0 *)
Definition search_n_s (pred : A -> A -> bool) (l : list A) (count : Z) (v : A) : nat :=
  if (count <=? 0)%Z then 0
  else
    let c := Z.to_nat count in
    least (fun i => (i + c <=? length l) && forallb (fun x => pred x v) (firstn c (skipn i l))) (length l).

(* ---------------------------------------------------------------- [alg.adjacent.find] *)
Definition adjacent_find_s (pred : A -> A -> bool) (l : list A) : nat :=
  least (fun i => at2 l (skipn 1 l) i pred) (length l).

(* ---------------------------------------------------------------- [mismatch] [alg.equal] *)
(* first position below min(n1, n2) where pred fails, else min(n1, n2) *)
Definition mismatch_s (pred : A -> A -> bool) (l1 l2 : list A) : nat :=
  least (fun i => at2 l1 l2 i (fun x y => negb (pred x y))) (Nat.min (length l1) (length l2)).

Definition equal_s (pred : A -> A -> bool) (l1 l2 : list A) : bool :=
  (length l1 =? length l2) && forallb (fun '(x, y) => pred x y) (combine l1 l2).

(* 3-iterator forms: the second range is [first2, first2 + (last1 - first1)), which must exist *)
Definition second_range (l1 l2 : list A) : list A := firstn (length l1) l2.

(* ---------------------------------------------------------------- [alg.lex.comparison] *)
(* at the first position where the sequences differ (one element less than the other) the
   result is "l1's element is less"; without such a position, "l1 is shorter" *)
Definition lexicographical_compare_s (lt : A -> A -> bool) (l1 l2 : list A) : bool :=
  let m := Nat.min (length l1) (length l2) in
  let k := least (fun i => at2 l1 l2 i (fun x y => lt x y || lt y x)) m in
  if k <? m then at2 l1 l2 k lt else length l1 <? length l2.

(* ---------------------------------------------------------------- [is.sorted] *)
(* last position i such that [first, i) is sorted *)
Definition is_sorted_until_s (lt : A -> A -> bool) (l : list A) : nat :=
  least (fun i => negb (sorted_all lt (firstn (S i) l))) (length l).

Definition is_sorted_s (lt : A -> A -> bool) (l : list A) : bool := sorted_all lt l.

(* ---------------------------------------------------------------- [alg.partitions] *)
Definition is_partitioned_s (p : A -> bool) (l : list A) : bool := partitioned p l.

(* on a partitioned range: the position mid with all_of(first, mid) and none_of(mid, last) =
   the number of elements that satisfy p *)
Definition partition_point_s (p : A -> bool) (l : list A) : nat := length (filter p l).

(* ---------------------------------------------------------------- [binary.search] *)
(* range partitioned with respect to comp(e, value): the furthermost i with comp(e, value) for all e before i *)
Definition lower_bound_s (lt : A -> A -> bool) (l : list A) (v : A) : nat :=
  partition_point_s (fun e => lt e v) l.
Definition upper_bound_s (lt : A -> A -> bool) (l : list A) (v : A) : nat :=
  partition_point_s (fun e => negb (lt v e)) l.
Definition equal_range_s (lt : A -> A -> bool) (l : list A) (v : A) : nat * nat :=
  (lower_bound_s lt l v, upper_bound_s lt l v).
Definition binary_search_s (lt : A -> A -> bool) (l : list A) (v : A) : bool :=
  existsb (fun e => negb (lt e v) && negb (lt v e)) l.

(* the requirement of equal_range / binary_search on the range *)
Definition bsearch_domain (lt : A -> A -> bool) (l : list A) (v : A) : Prop :=
  partitioned (fun e => lt e v) l = true /\ partitioned (fun e => negb (lt v e)) l = true
  /\ (forall e, In e l -> lt e v = true -> lt v e = false).

(* ---------------------------------------------------------------- multisets modulo equivalence *)
Definition count_eqv (lt : A -> A -> bool) (x : A) (l : list A) : nat := length (filter (equiv lt x) l).

(* remove the first element equivalent to y, if any *)
Fixpoint remove_first_eqv (lt : A -> A -> bool) (y : A) (l : list A) : list A :=
  match l with
  | [] => []
  | x :: t => if equiv lt y x then t else x :: remove_first_eqv lt y t
  end.

(* stable sort = insertion of each element before the first element that is not less than it
   (so after every smaller and before every equivalent or larger one already placed) *)
Fixpoint insert_stable (lt : A -> A -> bool) (x : A) (l : list A) : list A :=
  match l with
  | [] => [x]
  | y :: t => if lt y x then y :: insert_stable lt x t else x :: l
  end.

Definition stable_sort_s (lt : A -> A -> bool) (l : list A) : list A :=
  fold_right (insert_stable lt) [] l.

(* ---------------------------------------------------------------- [includes] *)
(* every equivalence class occurs in l1 at least as often as in l2 *)
Definition includes_s (lt : A -> A -> bool) (l1 l2 : list A) : bool :=
  forallb (fun y => count_eqv lt y l2 <=? count_eqv lt y l1) l2.

(* ---------------------------------------------------------------- [alg.merge] *)
(* sorted, all elements of both ranges, stable: equivalent elements keep their order and those of
   the first range precede those of the second = the stable sort of the concatenation *)
Definition merge_s (lt : A -> A -> bool) (l1 l2 : list A) : list A := stable_sort_s lt (l1 ++ l2).

(* ---------------------------------------------------------------- [set.difference] *)
(* of m equivalent elements in l1 and n in l2 the LAST max(m-n, 0) of l1 are kept, in order:
   every element of l2 cancels the first remaining equivalent element of l1 *)
Definition set_difference_s (lt : A -> A -> bool) (l1 l2 : list A) : list A :=
  fold_left (fun acc y => remove_first_eqv lt y acc) l2 l1.

(* ---------------------------------------------------------------- [set.intersection] *)
(* the FIRST min(m, n) elements of l1 are kept: an element of l1 is kept iff an equivalent element
   is still available in l2, which it then uses up *)
Fixpoint set_intersection_s (lt : A -> A -> bool) (l1 l2 : list A) : list A :=
  match l1 with
  | [] => []
  | x :: t =>
      if existsb (equiv lt x) l2 then x :: set_intersection_s lt t (remove_first_eqv lt x l2)
      else set_intersection_s lt t l2
  end.

(* ---------------------------------------------------------------- [set.union] *)
(* all m elements of l1, then the final max(n-m, 0) of l2, sorted, l1's elements first among equivalents *)
Definition set_union_s (lt : A -> A -> bool) (l1 l2 : list A) : list A :=
  stable_sort_s lt (l1 ++ set_difference_s lt l2 l1).

(* ---------------------------------------------------------------- [set.symmetric.difference] *)
(* the last m-n of l1 if m > n, the last n-m of l2 if m < n, sorted *)
Definition set_symmetric_difference_s (lt : A -> A -> bool) (l1 l2 : list A) : list A :=
  stable_sort_s lt (set_difference_s lt l1 l2 ++ set_difference_s lt l2 l1).

(* ---------------------------------------------------------------- [alg.min.max] [alg.clamp] *)
(* the smaller / larger value; the FIRST argument when they are equivalent *)
Definition min_s (lt : A -> A -> bool) (a b : A) : A := if lt a b then a else if lt b a then b else a.
Definition max_s (lt : A -> A -> bool) (a b : A) : A := if lt b a then a else if lt a b then b else a.
(* pair(b, a) if b is smaller than a, pair(a, b) otherwise *)
Definition minmax_s (lt : A -> A -> bool) (a b : A) : A * A := if lt b a then (b, a) else (a, b).
(* requires !(hi < lo): lo if v < lo, hi if hi < v, otherwise v *)
Definition clamp_s (lt : A -> A -> bool) (v lo hi : A) : A :=
  if lt hi v then hi else if lt v lo then lo else v.

(* no element of l is smaller / larger than x *)
Definition is_minimal (lt : A -> A -> bool) (l : list A) (x : A) : bool := forallb (fun y => negb (lt y x)) l.
Definition is_maximal (lt : A -> A -> bool) (l : list A) (x : A) : bool := forallb (fun y => negb (lt x y)) l.

(* first position of a minimal / maximal element; last (= 0) when empty *)
Definition min_element_s (lt : A -> A -> bool) (l : list A) : nat :=
  least (fun i => at_ l i (is_minimal lt l)) (length l).
Definition max_element_s (lt : A -> A -> bool) (l : list A) : nat :=
  least (fun i => at_ l i (is_maximal lt l)) (length l).
(* (first minimal, LAST maximal); (first, first) when empty *)
Definition minmax_element_s (lt : A -> A -> bool) (l : list A) : nat * nat :=
  (min_element_s lt l, last_sat (fun i => at_ l i (is_maximal lt l)) (length l) (length l)).

(* ---------------------------------------------------------------- [alg.is.permutation] *)
(* decision procedure for Permutation by counting *)
Definition is_permutation_s (eqb : A -> A -> bool) (l1 l2 : list A) : bool :=
  (length l1 =? length l2)
  && forallb (fun x => count_s eqb l1 x =? count_s eqb l2 x) (l1 ++ l2).

End Spec.

(* ==================================================================== [numeric.ops] *)
Section NumSpec.
Context {T U : Type}.

(* accumulate / reduce (with the left fold that accumulate prescribes) *)
Definition accumulate_s (op : T -> U -> T) (l : list U) (init : T) : T := fold_left op l init.

Definition inner_product_s {V W : Type} (op1 : T -> W -> T) (op2 : U -> V -> W)
  (l1 : list U) (l2 : list V) (init : T) : T :=
  fold_left op1 (map (fun '(x, y) => op2 x y) (combine l1 l2)) init.

Definition transform_reduce1_s {W : Type} (red : T -> W -> T) (tr : U -> W) (l : list U) (init : T) : T :=
  fold_left red (map tr l) init.
End NumSpec.

Section NumSpec2.
Context {T : Type}.

(* out[i] = ((l[0] op l[1]) op ...) op l[i] *)
Definition partial_sum_s (op : T -> T -> T) (l : list T) : list T :=
  match l with
  | [] => []
  | x :: t => map (fun i => fold_left op (firstn i t) x) (seq 0 (S (length t)))
  end.

(* out[0] = l[0], out[i] = op l[i] l[i-1] *)
Definition adjacent_difference_s (op : T -> T -> T) (l : list T) : list T :=
  match l with
  | [] => []
  | x :: t => x :: map (fun '(cur, prev) => op cur prev) (combine t l)
  end.

(* out[i] = value incremented i times *)
Definition iota_s (succ : T -> T) (n : nat) (value : T) : list T :=
  map (fun i => Nat.iter i succ value) (seq 0 n).
End NumSpec2.
