(* C06b proofs, part 3: numeric algorithms (accumulate, reduce, inner_product, transform_reduce,
   partial_sum, adjacent_difference, iota). *)
From Tetl Require Import Lib.Base C06b.Model C06b.Spec.
Ltac Zify.zify_post_hook ::= Z.to_euclidean_division_equations.

Section Num.
Context {T U : Type}.

Lemma accumulate_correct : forall (op : T -> U -> T) l init, accumulate_m op l init = accumulate_s op l init.
Proof. intros op l; induction l as [|x t IH]; intros init; [reflexivity|]. cbn [accumulate_m]. apply IH. Qed.

Lemma inner_product_correct : forall {V W} (op1 : T -> W -> T) (op2 : U -> V -> W) l1 l2 init,
  length l1 <= length l2 ->
  inner_product_m op1 op2 l1 l2 init = Ok (inner_product_s op1 op2 l1 l2 init).
Proof.
  intros V W op1 op2 l1; induction l1 as [|x t1 IH]; intros l2 init Hlen; [reflexivity|].
  destruct l2 as [|y t2]; [cbn [length] in Hlen; lia|]. cbn [inner_product_m].
  rewrite IH by (cbn [length] in Hlen; lia). reflexivity.
Qed.

Lemma transform_reduce1_correct : forall {W} (red : T -> W -> T) (tr : U -> W) l init,
  transform_reduce1_m red tr l init = transform_reduce1_s red tr l init.
Proof. intros W red tr l; induction l as [|x t IH]; intros init; [reflexivity|]. cbn [transform_reduce1_m]. apply IH. Qed.

End Num.

Section Num2.
Context {T : Type}.

Lemma reduce_correct : forall (op : T -> T -> T) l init, reduce_m op l init = accumulate_s op l init.
Proof. intros. apply accumulate_correct. Qed.

Lemma partial_sum_loop_correct : forall (op : T -> T -> T) t sum,
  partial_sum_loop op sum t = map (fun i => fold_left op (firstn i t) sum) (seq 1 (length t)).
Proof.
  intros op t; induction t as [|y t IH]; intros sum; [reflexivity|].
  cbn [partial_sum_loop length seq map firstn fold_left]. f_equal.
  rewrite IH, <- (seq_shift (length t) 1), map_map. reflexivity.
Qed.

Lemma partial_sum_correct : forall (op : T -> T -> T) l, partial_sum_m op l = partial_sum_s op l.
Proof.
  intros op [|x t]; [reflexivity|]. cbn [partial_sum_m partial_sum_s seq map firstn fold_left]. f_equal.
  apply partial_sum_loop_correct.
Qed.

Lemma adjacent_difference_loop_correct : forall (op : T -> T -> T) t acc,
  adjacent_difference_loop op acc t = map (fun '(cur, prev) => op cur prev) (combine t (acc :: t)).
Proof.
  intros op t; induction t as [|y t IH]; intros acc; [reflexivity|].
  cbn [adjacent_difference_loop combine map]. f_equal. apply IH.
Qed.

Lemma adjacent_difference_correct : forall (op : T -> T -> T) l,
  adjacent_difference_m op l = adjacent_difference_s op l.
Proof.
  intros op [|x t]; [reflexivity|]. cbn [adjacent_difference_m adjacent_difference_s]. f_equal.
  apply adjacent_difference_loop_correct.
Qed.

Lemma iter_succ_r : forall (f : T -> T) n x, Nat.iter (S n) f x = Nat.iter n f (f x).
Proof. intros f n x; induction n as [|n IH]; [reflexivity|]. change (Nat.iter (S (S n)) f x) with (f (Nat.iter (S n) f x)). rewrite IH. reflexivity. Qed.

Lemma iota_correct : forall (succ : T -> T) n v, iota_m succ n v = iota_s succ n v.
Proof.
  intros succ n; induction n as [|n IH]; intros v; [reflexivity|].
  unfold iota_s in *. cbn [iota_m seq map Nat.iter]. f_equal. rewrite IH, <- seq_shift, map_map.
  apply map_ext. intros i. symmetry. apply iter_succ_r.
Qed.

End Num2.

Lemma iter_Zsucc : forall i v, Nat.iter i Z.succ v = (v + Z.of_nat i)%Z.
Proof. intros i v; induction i as [|i IH]; [simpl; lia|]. change (Nat.iter (S i) Z.succ v) with (Z.succ (Nat.iter i Z.succ v)). rewrite IH. lia. Qed.

(* with succ = +1 on Z the value written at position i is value + i *)
Lemma iota_Z : forall n v, iota_s Z.succ n v = map (fun i => (v + Z.of_nat i)%Z) (seq 0 n).
Proof. intros n v. unfold iota_s. apply map_ext. intros i. apply iter_Zsucc. Qed.
