From Tetl Require Import Lib.Base C06b.Model C06b.Spec C06b.ModelNumT.
Require Extraction.
Require Import ExtrOcamlBasic.
Extraction Language OCaml.
Extraction "C06b_model.ml" wire_anchor
  find_m find_if_m find_if_not_m find_first_of_m search_m default_searcher_m search_searcher_m find_end_m
  adjacent_find_m count_m count_if_m all_of_m any_of_m none_of_m for_each_m for_each_n_m
  mismatch3_m mismatch4_m equal3_m equal4_m lexicographical_compare_m search_n_m
  is_sorted_until_m is_sorted_m is_partitioned_m partition_point_m lower_bound_m upper_bound_m
  equal_range_m binary_search_m includes_m merge_m set_union_m set_intersection_m set_difference_m
  set_symmetric_difference_m min_m max_m minmax_m clamp_m min_element_m max_element_m minmax_element_m
  is_permutation3_m is_permutation4_m
  accumulate_m inner_product_m transform_reduce1_m reduce_m partial_sum_m adjacent_difference_m iota_m
  sorted_all partitioned second_range
  find_s find_if_s find_if_not_s find_first_of_s count_s count_if_s all_of_s any_of_s none_of_s
  for_each_s for_each_n_s search_s find_end_s default_searcher_s search_n_s adjacent_find_s
  mismatch_s equal_s lexicographical_compare_s is_sorted_until_s is_sorted_s is_partitioned_s
  partition_point_s lower_bound_s upper_bound_s equal_range_s binary_search_s includes_s merge_s
  set_difference_s set_intersection_s set_union_s set_symmetric_difference_s
  min_s max_s minmax_s clamp_s min_element_s max_element_s minmax_element_s is_permutation_s
  accumulate_s inner_product_s transform_reduce1_s partial_sum_s adjacent_difference_s iota_s
  common accumulate_t reduce_t reduce0_t inner_product_t transform_reduce_t transform_reduce4_t transform_reduce1_t
  partial_sum_t adjacent_difference_t iota_t
  accumulate_ts inner_product_ts transform_reduce1_ts partial_sum_ts adjacent_difference_ts iota_ts.
