(* C19 model: executable mirror of
     include/etl/_mdspan/extents.hpp          (extents: static pattern + dynamic array, constructors,
                                               extent, fwd/rev_prod_of_extents)
     include/etl/_mdspan/layout_left.hpp      (mapping: required_span_size, stride, operator())
     include/etl/_mdspan/layout_right.hpp
     include/etl/_mdspan/layout_stride.hpp    (mapping with explicit strides)
     include/etl/_linalg/layout_transpose.hpp (transpose_extents, mapping over a nested mapping)
     include/etl/_mdspan/mdspan.hpp, _mdarray/mdarray.hpp (element access = data + mapping, size)
     include/etl/_mdspan/submdspan_extents.hpp (full_extent / index slices)
     include/etl/_span/span.hpp               (first / last / subspan, static and dynamic forms)
   Parametric in the rank (lists) and in the index type [t : ity] (width, signedness).
   Machine arithmetic is explicit: size_t arithmetic wraps modulo 2^64, conversions to the index type
   are modular ([cast]), arithmetic of operator() happens in the promoted type ([arith t]: int for
   index types narrower than int) -- unsigned wraps, signed is checked (None = signed overflow = UB). *)
From Tetl Require Import Lib.Base C19.Slices.
Local Open Scope Z_scope.

Notation "'do' x <- a ; b" := (obind a (fun x => b)) (at level 200, x name, a at level 100, b at level 200).

(** * Integer conversions *)
Definition szw (x : Z) : Z := x mod 18446744073709551616.      (* conversion to / arithmetic in size_t *)
Definition cast (t : ity) (x : Z) : Z := wrap_ty t x.           (* static_cast<index_type>(x) *)
Definition to_size_type (t : ity) (x : Z) : Z := wrapu (bits t) x. (* make_unsigned_t<index_type> *)
Definition dynamic_extent : Z := 18446744073709551615.

(* usual arithmetic conversions for index_type (op) index_type *)
Definition arith (t : ity) : ity := if bits t <? 32 then i32 else t.
Definition aop (t : ity) (x : Z) : option Z :=
  let ty := arith t in if sgn ty then chk ty x else Some (wrapu (bits ty) x).
Definition amul (t : ity) (a b : Z) : option Z := aop t (a * b).
Definition aadd (t : ity) (a b : Z) : option Z := aop t (a + b).

(** * extents<IndexType, Extents...> *)
(* static pattern: Some n = static extent n, None = dynamic_extent *)
Definition pattern := list (option Z).
Record extents := { pat : pattern; dyn : list Z }.   (* dyn = array<IndexType, rank_dynamic> _extents *)

Definition rank (e : extents) : nat := length (pat e).

Fixpoint rank_dynamic (p : pattern) : nat :=
  match p with
  | [] => O
  | None :: r => S (rank_dynamic r)
  | Some _ :: r => rank_dynamic r
  end.

(* _dynamic_index(i): the fold ((Idxs < i ? (Extents == dynamic_extent ? 1 : 0) : 0) + ... + 0) *)
Fixpoint dyn_index_from (p : pattern) (k i : nat) : nat :=
  match p with
  | [] => O
  | x :: r => ((if (k <? i)%nat then match x with None => 1 | Some _ => 0 end else 0)
               + dyn_index_from r (S k) i)%nat
  end.
Definition dynamic_index (p : pattern) (i : nat) : nat := dyn_index_from p 0 i.

Definition static_extent (p : pattern) (i : nat) : option Z := nth i p None.

(* extent(i): three `if constexpr` branches *)
Definition extent (t : ity) (e : extents) (i : nat) : Z :=
  if (rank_dynamic (pat e) =? 0)%nat then
    match static_extent (pat e) i with Some n => cast t n | None => cast t dynamic_extent end
  else if (rank_dynamic (pat e) =? length (pat e))%nat then
    nth i (dyn e) 0
  else
    match static_extent (pat e) i with
    | Some n => cast t n
    | None => nth (dynamic_index (pat e) i) (dyn e) 0
    end.

Definition extents_list (t : ity) (e : extents) : list Z := map (extent t e) (seq 0 (rank e)).

(* array store a[i] = v (no effect outside the array; the generators never go there) *)
Fixpoint upd (l : list Z) (i : nat) (v : Z) : list Z :=
  match l, i with
  | [], _ => []
  | _ :: r, O => v :: r
  | x :: r, S k => x :: upd r k v
  end.

(* default constructor: array value-initialised *)
Definition ext_default (p : pattern) : extents := {| pat := p; dyn := repeat 0 (rank_dynamic p) |}.

(* the loop `for i < rank: if static_extent(i) == dynamic_extent: _extents[_dynamic_index(i)] = f(i)` *)
Definition fill_dyn (p : pattern) (f : nat -> Z) : list Z :=
  fold_left (fun d i => match static_extent p i with
                        | None => upd d (dynamic_index p i) (f i)
                        | Some _ => d
                        end)
            (seq 0 (length p)) (repeat 0 (rank_dynamic p)).

(* extents(span<OtherIndexType, N>)   (N == rank_dynamic() or N == rank()) *)
Definition ext_from_span (t : ity) (p : pattern) (vals : list Z) : extents :=
  if (rank_dynamic p =? 0)%nat then ext_default p
  else if (length vals =? rank_dynamic p)%nat then
    {| pat := p; dyn := map (cast t) vals |}                              (* transform(...) *)
  else
    {| pat := p; dyn := fill_dyn p (fun i => cast t (nth i vals 0)) |}.   (* N == rank() *)

(* extents(OtherIndexTypes... es): array<IndexType, N>{static_cast<IndexType>(es)...} -> span *)
Definition ext_from_pack (t : ity) (p : pattern) (vals : list Z) : extents :=
  ext_from_span t p (map (cast t) vals).

(* extents(extents<OtherIndexType, OtherExtents...> const& e) *)
Definition ext_convert (t : ity) (p : pattern) (t' : ity) (e' : extents) : extents :=
  if (0 <? rank_dynamic p)%nat then
    {| pat := p; dyn := fill_dyn p (fun i => cast t (extent t' e' i)) |}
  else ext_default p.

(* is the converting constructor extents<t, p...>(extents<t', p'...> const&) IMPLICIT?  Its explicit-specifier is
   ((Extents != dynamic_extent and OtherExtents == dynamic_extent) or ...)
   or numeric_limits<IndexType>::max() < numeric_limits<OtherIndexType>::max();
   the same-layout mapping conversions and the mdspan conversion inherit it (explicit(not is_convertible_v<...>)) *)
Definition conv_implicit (t : ity) (p : pattern) (t' : ity) (p' : pattern) : bool :=
  forallb (fun ab => match fst ab, snd ab with Some _, None => false | _, _ => true end) (combine p p')
  && (imax t' <=? imax t).

(* operator==(extents<I1, E1...>, extents<I2, E2...>): false for different ranks, otherwise the loop
   `if (cmp_not_equal(lhs.extent(i), rhs.extent(i))) return false` -- cmp_not_equal compares the mathematical
   values whatever the two index types are.  layout_left/right::mapping::operator== compares the extents. *)
Definition ext_eqb (t1 : ity) (e1 : extents) (t2 : ity) (e2 : extents) : bool :=
  if (rank e1 =? rank e2)%nat
  then forallb (fun i => extent t1 e1 i =? extent t2 e2 i) (seq 0 (rank e1))
  else false.

(* fwd_prod_of_extents(i) / rev_prod_of_extents(i), in size_t *)
Definition prod_step (t : ity) (e : extents) (r : Z) (k : nat) : Z := szw (r * szw (extent t e k)).
Definition fwd_prod (t : ity) (e : extents) (i : nat) : Z :=
  if (rank e =? 0)%nat then 1 else fold_left (prod_step t e) (seq 0 i) 1.
Definition rev_prod (t : ity) (e : extents) (i : nat) : Z :=
  fold_left (prod_step t e) (seq (S i) (rank e - S i)) 1.

(** * Layout mappings *)
Inductive layout := LLeft | LRight.

Definition lay_stride_raw (l : layout) (t : ity) (e : extents) (r : nat) : Z :=
  match l with
  | LLeft => cast t (fwd_prod t e r)
  | LRight => cast t (rev_prod t e r)
  end.

(* stride(r) with its TETL_PRECONDITION(r < rank()) *)
Definition lay_stride (l : layout) (t : ity) (e : extents) (r : nat) : res Z :=
  if (r <? rank e)%nat then Ok (lay_stride_raw l t e r) else Contract.

Definition lay_strides (l : layout) (t : ity) (e : extents) : list Z :=
  map (lay_stride_raw l t e) (seq 0 (rank e)).

Definition lay_required (l : layout) (t : ity) (e : extents) : Z := cast t (fwd_prod t e (rank e)).

(* the right fold ((static_cast<index_type>(idx) * stride(Is)) + ... + 0) in the promoted type *)
Fixpoint fold_terms (t : ity) (idx strides : list Z) : option Z :=
  match idx, strides with
  | i :: ir, s :: sr =>
      do a <- amul t (cast t i) s;
      do b <- fold_terms t ir sr;
      aadd t a b
  | _, _ => Some 0
  end.

(* mapping::operator()(indices...) *)
Definition lay_map (l : layout) (t : ity) (e : extents) (idx : list Z) : option Z :=
  do s <- fold_terms t idx (lay_strides l t e); Some (cast t s).

(* layout_stride::mapping(extents, strides): strides converted to index_type at construction *)
Record strided := { st_ext : extents; st_strides : list Z }.
Definition strided_ctor (t : ity) (e : extents) (s : list Z) : strided :=
  {| st_ext := e; st_strides := map (cast t) s |}.
(* layout_stride::mapping(): extents_type{} and the strides of layout_right::mapping<extents_type>()
   (static_cast<index_type>(ext.rev_prod_of_extents(Is))...), fix d746fe9 *)
Definition strided_default (t : ity) (p : pattern) : strided :=
  {| st_ext := ext_default p;
     st_strides := map (fun r => cast t (rev_prod t (ext_default p) r)) (seq 0 (length p)) |}.
(* conversions between the layouts (defined by fixes 489f446, 54b4c1a, 4b7dc8a):
   layout_stride::mapping(StridedLayoutMapping const& other): _extents(other.extents()) -- the converting
   extents constructor -- and _strides[r] = static_cast<index_type>(other.stride(r));
   layout_left/right::mapping(layout_stride::mapping<OtherExtents> const& other): _extents{other.extents()} *)
Definition strided_of_layout (l : layout) (t : ity) (p : pattern) (t' : ity) (e' : extents) : strided :=
  {| st_ext := ext_convert t p t' e'; st_strides := map (cast t) (lay_strides l t' e') |}.
Definition layout_of_strided (t : ity) (p : pattern) (t' : ity) (m : strided) : extents :=
  ext_convert t p t' (st_ext m).
Definition strided_stride (m : strided) (r : nat) : res Z :=
  if (r <? rank (st_ext m))%nat then Ok (nth r (st_strides m) 0) else Contract.
(* layout_stride::mapping::required_span_size() (defined by fix 2c4c8ad): 0 as soon as an extent is 0 (first
   loop); otherwise span = 1, then span = static_cast<index_type>(span + (extent(r) - index_type(1)) * stride(r))
   for every r -- each operation in the promoted type (unsigned wraps, signed overflow = None) *)
Fixpoint strided_req_sum (t : ity) (xs ss : list Z) (span : Z) : option Z :=
  match xs, ss with
  | x :: xr, s :: sr =>
      do a <- aop t (x - 1);
      do b <- aop t (a * s);
      do c <- aop t (span + b);
      strided_req_sum t xr sr (cast t c)
  | _, _ => Some span
  end.
Definition strided_required (t : ity) (m : strided) : option Z :=
  let xs := extents_list t (st_ext m) in
  if existsb (fun x => x =? 0) xs then Some 0 else strided_req_sum t xs (st_strides m) 1.
Definition strided_map (t : ity) (m : strided) (idx : list Z) : option Z :=
  do s <- fold_terms t idx (st_strides m); Some (cast t s).

(** * linalg::layout_transpose<Layout>::mapping (rank 2) over a nested layout_left/right mapping *)
(* detail::transpose_extents(e): the four `if constexpr` cases *)
Definition transpose_extents (t : ity) (e : extents) : extents :=
  let p0 := static_extent (pat e) 0 in
  let p1 := static_extent (pat e) 1 in
  let tp := [p1; p0] in
  match p0, p1 with
  | None, None => ext_from_pack t tp [extent t e 1; extent t e 0]
  | None, Some _ => ext_from_pack t tp [extent t e 0]
  | Some _, None => ext_from_pack t tp [extent t e 1]
  | Some _, Some _ => ext_default tp
  end.

Definition tr_extents (t : ity) (ne : extents) : extents := transpose_extents t ne.
Definition tr_required (l : layout) (t : ity) (ne : extents) : Z := lay_required l t ne.
(* operator()(i, j) = _nestedMapping(j, i), returned as size_type *)
Definition tr_map (l : layout) (t : ity) (ne : extents) (i j : Z) : option Z :=
  do o <- lay_map l t ne [j; i]; Some (to_size_type t o).
(* stride(r): r == rank-1 -> nested.stride(r-1); r == rank-2 -> nested.stride(r+1); else nested.stride(r) *)
Definition tr_stride (l : layout) (t : ity) (ne : extents) (r : nat) : res Z :=
  rbind (if (r =? 1)%nat then lay_stride l t ne 0
         else if (r =? 0)%nat then lay_stride l t ne 1
         else lay_stride l t ne r)
        (fun s => Ok (to_size_type t s)).

(** * mdspan / mdarray element access: data + mapping *)
(* mdspan::operator()(indices...): static_cast<size_t>(_map(index_cast(indices)...)) -> p[idx] *)
Definition mds_offset (l : layout) (t : ity) (e : extents) (idx : list Z) : option Z :=
  do o <- lay_map l t e (map (cast t) idx); Some (szw o).
(* the element the reference designates: default_accessor::access(p, i) = p[i], on a buffer of known
   length ([nth_error]: None = the access would be outside the buffer) *)
Definition mds_get {A} (buf : list A) (l : layout) (t : ity) (e : extents) (idx : list Z) : option A :=
  do o <- mds_offset l t e idx; nth_error buf (Z.to_nat o).
(* size(): static_cast<size_type>(fwd_prod_of_extents(rank())) *)
Definition mds_size (t : ity) (e : extents) : Z := to_size_type t (fwd_prod t e (rank e)).
Definition mds_empty (t : ity) (e : extents) : bool := mds_size t e =? 0.
(* mdarray(extents): container_type(static_cast<size_t>(required_span_size())) *)
Definition mda_container_size (l : layout) (t : ity) (e : extents) : Z := szw (lay_required l t e).

(* an mdarray over a layout_stride mapping: EVERY constructor that creates the container itself -- mdarray(mapping),
   mdarray(mapping, value) (and the extents forms, which delegate to them) -- sizes it with
   static_cast<size_t>(_map.required_span_size()); the (mapping, container) forms keep the caller's container *)
Definition mda_strided_container_size (t : ity) (m : strided) : option Z :=
  do rq <- strided_required t m; Some (szw rq).

(** * submdspan_extents(ext, slices...)  with slices = full_extent (None) or an index (Some k) *)
Fixpoint sub_keep {A} (sl : list (option Z)) (l : list A) : list A :=
  match sl, l with
  | None :: sr, x :: r => x :: sub_keep sr r
  | Some _ :: sr, _ :: r => sub_keep sr r
  | _, _ => []
  end.
(* the builder keeps the static extent of every full_extent dimension, collects ext.extent(k) for
   them and finally calls extents<IndexT, NewStatic...>(newExts...) with N == rank of the result *)
Definition sub_extents (t : ity) (e : extents) (sl : list (option Z)) : extents :=
  ext_from_pack t (sub_keep sl (pat e)) (sub_keep sl (extents_list t e)).

(* the same builder with pair-like slices (first, last) of run-time values (fix 857745d):
   submdspan_static_extent gives dynamic_extent for such a slice and the builder appends
   static_cast<IndexT>(static_cast<IndexT>(get<1>(slice)) - static_cast<IndexT>(get<0>(slice)))
   (the subtraction in the promoted type: unsigned wraps, signed overflow = UB = None) *)
Fixpoint subp_pat (sl : list slice) (p : pattern) : pattern :=
  match sl, p with
  | SlFull :: sr, x :: r => x :: subp_pat sr r
  | SlIndex _ :: sr, _ :: r => subp_pat sr r
  | SlPair _ _ :: sr, _ :: r => None :: subp_pat sr r
  | SlCPair a b :: sr, _ :: r => Some (szw (b - a)) :: subp_pat sr r   (* size_t(de_ice(last) - de_ice(first)), fix 4c4e37b *)
  | _, _ => []
  end.
Fixpoint subp_vals (t : ity) (sl : list slice) (xs : list Z) : option (list Z) :=
  match sl, xs with
  | SlFull :: sr, x :: r => do v <- subp_vals t sr r; Some (x :: v)
  | SlIndex _ :: sr, _ :: r => subp_vals t sr r
  | SlPair a b :: sr, _ :: r | SlCPair a b :: sr, _ :: r =>
      do d <- aop t (cast t b - cast t a);
      do v <- subp_vals t sr r;
      Some (cast t d :: v)
  | _, _ => Some []
  end.
Definition sub_extents_p (t : ity) (e : extents) (sl : list slice) : option extents :=
  do v <- subp_vals t sl (extents_list t e); Some (ext_from_pack t (subp_pat sl (pat e)) v).

(* [mdspan.sub.helpers] first_ / last_: detail::submdspan_first<IndexType, K>(slices...) and
   detail::submdspan_last<K>(src, slices...) (instantiable for K > 0 since fix 9ae67a4), for the K-th slice
   specifier [s] and the source extent [x] = src.extent(K).  The index branch of submdspan_last returns
   static_cast<IndexType>(de_ice(sk)) + IndexType(1) in the PROMOTED type (the return type is deduced) *)
Definition sub_first (t : ity) (s : slice) : Z :=
  match s with
  | SlFull => 0
  | SlIndex k => cast t k
  | SlPair a _ | SlCPair a _ => cast t a
  end.
Definition sub_last (t : ity) (x : Z) (s : slice) : option Z :=
  match s with
  | SlFull => Some (cast t x)
  | SlIndex k => aadd t (cast t k) 1
  | SlPair _ b | SlCPair _ b => Some (cast t b)
  end.

(** * span<T, Extent> as a window (offset, size) into the underlying sequence *)
Record spanv := { s_off : Z; s_size : Z; s_ext : option Z }.   (* s_ext: Some n = static extent *)

(* the storage of a span: static_storage ignores the count, size() == Extent *)
Definition mk_span (ext : option Z) (ptr sz : Z) : spanv :=
  {| s_off := ptr; s_size := match ext with Some n => n | None => sz end; s_ext := ext |}.
(* the constructors span(It first, size_type count), span(R&& r), span(span<U, N> const&): _storage{ptr, count} and
   -- since fix 721a088 -- TETL_PRECONDITION(extent == dynamic_extent or count == extent).  The members below build
   their results with [mk_span]: C19_span_ctor shows that their counts always equal the static extent they name, so
   the constructor's check can never fire inside the library *)
Definition sp_ctor (ext : option Z) (ptr sz : Z) : res spanv :=
  match ext with
  | Some n => if sz =? n then Ok (mk_span ext ptr sz) else Contract
  | None => Ok (mk_span ext ptr sz)
  end.

(* first<Count>() / last<Count>(): static_assert(Count <= Extent) -- vacuous for a dynamic-extent span -- and
   TETL_PRECONDITION(Count <= size()) (run-time check added by the fix commit of the C19 review; a span of static
   extent has size() == Extent, so there the check can never fire) *)
Definition sp_first_s (s : spanv) (c : Z) : res spanv :=
  if c <=? s_size s then Ok (mk_span (Some c) (s_off s) c) else Contract.
Definition sp_last_s (s : spanv) (c : Z) : res spanv :=
  if c <=? s_size s then Ok (mk_span (Some c) (s_off s + szw (s_size s - c)) c) else Contract.
(* first(count) / last(count): TETL_PRECONDITION(count <= size()) *)
Definition sp_first_d (s : spanv) (c : Z) : res spanv :=
  if c <=? s_size s then Ok (mk_span None (s_off s) c) else Contract.
Definition sp_last_d (s : spanv) (c : Z) : res spanv :=
  if c <=? s_size s then Ok (mk_span None (s_off s + szw (s_size s - c)) c) else Contract.

(* detail::subspan_extent<Offset, Count, Extent>() *)
Definition subspan_extent (o : Z) (c ext : option Z) : option Z :=
  match c with
  | Some n => Some n
  | None => match ext with Some x => Some (szw (x - o)) | None => None end
  end.
(* subspan<Offset, Count>(): the two static_asserts (vacuous for a dynamic-extent span) and the same two
   TETL_PRECONDITIONs as the run-time form (added by the fix commit of the C19 review) *)
Definition sp_sub_s (s : spanv) (o : Z) (c : option Z) : res spanv :=
  if negb (o <=? s_size s) then Contract
  else
    let sz := match c with None => szw (s_size s - o) | Some n => n end in
    let r := mk_span (subspan_extent o c (s_ext s)) (s_off s + o) sz in
    match c with
    | Some n => if n <=? szw (s_size s - o) then Ok r else Contract
    | None => Ok r
    end.
(* subspan(offset, count = dynamic_extent): two preconditions *)
Definition sp_sub_d (s : spanv) (o : Z) (c : option Z) : res spanv :=
  if negb (o <=? s_size s) then Contract
  else match c with
       | Some n => if n <=? szw (s_size s - o) then Ok (mk_span None (s_off s + o) n) else Contract
       | None => Ok (mk_span None (s_off s + o) (szw (s_size s - o)))
       end.

(* operator[](idx): TETL_PRECONDITION(idx < size()), then data()[idx] *)
Definition sp_index (s : spanv) (i : Z) : res Z :=
  if i <? s_size s then Ok (s_off s + i) else Contract.

(* front() / back(): TETL_PRECONDITION(not empty()), then *begin() / *(end() - 1) *)
Definition sp_front (s : spanv) : res Z :=
  if s_size s =? 0 then Contract else Ok (s_off s).
Definition sp_back (s : spanv) : res Z :=
  if s_size s =? 0 then Contract else Ok (s_off s + s_size s - 1).

(* size_bytes(): size() * sizeof(element_type), in size_t *)
Definition sp_size_bytes (esz : Z) (s : spanv) : Z := szw (s_size s * esz).
(* as_bytes(s) / as_writable_bytes(s): {reinterpret_cast<byte*>(s.data()), s.size_bytes()} as
   span<byte, N == dynamic_extent ? dynamic_extent : sizeof(T) * N>; offsets now count bytes *)
Definition sp_as_bytes (esz : Z) (s : spanv) : spanv :=
  mk_span (match s_ext s with Some n => Some (szw (esz * n)) | None => None end)
          (s_off s * esz) (sp_size_bytes esz s).

(* the elements a window designates in the underlying sequence *)
Definition window {A} (buf : list A) (off len : Z) : list A :=
  firstn (Z.to_nat len) (skipn (Z.to_nat off) buf).
Definition sp_elems {A} (buf : list A) (s : spanv) : list A := window buf (s_off s) (s_size s).

(** * enumeration of all multi-indices of an index space, last index fastest *)
Fixpoint all_indices (xs : list Z) : list (list Z) :=
  match xs with
  | [] => [[]]
  | x :: r => flat_map (fun i => map (cons i) (all_indices r)) (zrange_from 0 (Z.to_nat x))
  end.
