(* C19 specification: what [mdspan.extents], [mdspan.layout.left/right/stride], [linalg.transp],
   [mdspan.sub.extents] and [span.sub] say, on plain lists of mathematical integers.
   Nothing here mentions dynamic arrays, size_t, casts or fold expressions. *)
From Tetl Require Import Lib.Base C19.Slices.
Local Open Scope Z_scope.

(* size of the multidimensional index space = required_span_size of the contiguous layouts *)
Fixpoint product (l : list Z) : Z :=
  match l with [] => 1 | x :: r => x * product r end.

(* idx is a multi-index of the index space exts: same rank, 0 <= idx_k < exts_k *)
Definition in_range (idx exts : list Z) : Prop := Forall2 (fun i e => 0 <= i < e) idx exts.

(* row-major (layout_right) offset, Horner form: ((i0 * e1 + i1) * e2 + i2) ... *)
Definition row_major (exts idx : list Z) : Z :=
  fold_left (fun acc ie => acc * snd ie + fst ie) (combine idx exts) 0.

(* column-major (layout_left) offset, Horner form: i0 + e0 * (i1 + e1 * (i2 + ...)) *)
Fixpoint col_major (exts idx : list Z) : Z :=
  match exts, idx with
  | e :: er, i :: ir => i + e * col_major er ir
  | _, _ => 0
  end.

(* strides of the contiguous layouts *)
Definition stride_right (exts : list Z) (r : nat) : Z := product (skipn (S r) exts).
Definition stride_left (exts : list Z) (r : nat) : Z := product (firstn r exts).

(* strided offset: sum of idx_k * stride_k *)
Fixpoint dot (idx strides : list Z) : Z :=
  match idx, strides with
  | i :: ir, s :: sr => i * s + dot ir sr
  | _, _ => 0
  end.

(* [mdspan.layout.stride.expo] REQUIRED-SPAN-SIZE(e, strides) *)
Fixpoint span_max (exts strides : list Z) : Z :=
  match exts, strides with
  | e :: er, s :: sr => (e - 1) * s + span_max er sr
  | _, _ => 0
  end.
Definition stride_required (exts strides : list Z) : Z :=
  if existsb (fun e => e =? 0) exts then 0 else 1 + span_max exts strides.

(* [mdspan.layout.stride.cons] uniqueness precondition: strides positive and, for some permutation
   of the dimensions, each stride is at least the previous stride times the previous extent.
   [chain] states it for a list of (extent, stride) pairs ordered from the LARGEST stride down. *)
Fixpoint chain (es : list (Z * Z)) : Prop :=
  match es with
  | [] => True
  | (e, s) :: r =>
      match r with
      | [] => True
      | (e', s') :: _ => s >= e' * s'
      end /\ chain r
  end.

(* extents: the value of every dimension given the static pattern and the run-time values *)
(* all-extents form: one value per dimension *)
Fixpoint extents_all (p : list (option Z)) (vals : list Z) : list Z :=
  match p, vals with
  | Some n :: pr, _ :: vr => n :: extents_all pr vr
  | None :: pr, v :: vr => v :: extents_all pr vr
  | _, _ => []
  end.
(* dynamic-extents form: one value per dynamic dimension *)
Fixpoint extents_dyn (p : list (option Z)) (vals : list Z) : list Z :=
  match p with
  | [] => []
  | Some n :: pr => n :: extents_dyn pr vals
  | None :: pr => match vals with v :: vr => v :: extents_dyn pr vr | [] => 0 :: extents_dyn pr [] end
  end.

(* submdspan_extents with full_extent (None) / index (Some k) slices keeps the full dimensions *)
Fixpoint keep_full {A} (sl : list (option Z)) (l : list A) : list A :=
  match sl, l with
  | None :: sr, x :: r => x :: keep_full sr r
  | Some _ :: sr, _ :: r => keep_full sr r
  | _, _ => []
  end.

(* [mdspan.sub.extents] with full_extent / index / (first, last) slices: an index drops the dimension,
   full_extent keeps extent and static-ness, a pair of run-time values keeps last - first elements with a
   dynamic extent, a pair of integral constants the same with the static extent last - first.  Precondition of the standard: 0 <= first <= last <= extent (index: 0 <= k < extent). *)
Definition slice_ok (s : slice) (x : Z) : Prop :=
  match s with
  | SlFull => True
  | SlIndex k => 0 <= k < x
  | SlPair a b | SlCPair a b => 0 <= a /\ a <= b /\ b <= x
  end.
Fixpoint sub_shape (sl : list slice) (xs : list Z) : list Z :=
  match sl, xs with
  | SlFull :: sr, x :: r => x :: sub_shape sr r
  | SlIndex _ :: sr, _ :: r => sub_shape sr r
  | SlPair a b :: sr, _ :: r | SlCPair a b :: sr, _ :: r => (b - a) :: sub_shape sr r
  | _, _ => []
  end.
Fixpoint sub_pattern (sl : list slice) (p : list (option Z)) : list (option Z) :=
  match sl, p with
  | SlFull :: sr, x :: r => x :: sub_pattern sr r
  | SlIndex _ :: sr, _ :: r => sub_pattern sr r
  | SlPair _ _ :: sr, _ :: r => None :: sub_pattern sr r
  | SlCPair a b :: sr, _ :: r => Some (b - a) :: sub_pattern sr r     (* integral constants: static extent *)
  | _, _ => []
  end.

(* [mdspan.sub.helpers]: first_ / last_ of the k-th slice specifier, x = the source extent of that dimension *)
Definition first_ (s : slice) : Z :=
  match s with SlFull => 0 | SlIndex k => k | SlPair a _ | SlCPair a _ => a end.
Definition last_ (x : Z) (s : slice) : Z :=
  match s with SlFull => x | SlIndex k => k + 1 | SlPair _ b | SlCPair _ b => b end.

(* [span.sub]: the count elements starting at offset *)
Definition sub_range {A} (l : list A) (offset count : Z) : list A :=
  firstn (Z.to_nat count) (skipn (Z.to_nat offset) l).
