(* C19 proofs, part 7: the index space enumerated.  [all_indices xs] lists exactly the in-range
   multi-indices, and the row-major mapping sends that list to 0, 1, ..., size-1 in order:
   the view addresses exactly the elements it spans, each exactly once. *)
From Tetl Require Import Lib.Base C19.Model C19.Spec C19.ProofsSpec.
Local Open Scope Z_scope.
Ltac Zify.zify_post_hook ::= Z.to_euclidean_division_equations.

Lemma zrange_from_app : forall m n a,
  zrange_from a (m + n) = zrange_from a m ++ zrange_from (a + Z.of_nat m) n.
Proof.
  induction m as [|m IH]; intros n a.
  - cbn. f_equal. lia.
  - cbn [Nat.add zrange_from app]. f_equal. rewrite IH. f_equal. f_equal. lia.
Qed.

Lemma zrange_from_shift : forall n a c, map (fun k => c + k) (zrange_from a n) = zrange_from (c + a) n.
Proof.
  induction n as [|n IH]; intros a c; [reflexivity|].
  cbn [zrange_from map]. f_equal. rewrite IH. f_equal. lia.
Qed.

Theorem all_indices_complete : forall xs idx, In idx (all_indices xs) <-> in_range idx xs.
Proof.
  induction xs as [|x r IH]; intros idx.
  - cbn. split.
    + intros [H|[]]. subst. constructor.
    + intros H. inversion H. left. reflexivity.
  - cbn [all_indices]. rewrite in_flat_map. split.
    + intros [i [Hi Hidx]]. apply in_map_iff in Hidx. destruct Hidx as [idx' [He Hin]]. subst idx.
      apply zrange_from_In in Hi. apply IH in Hin. constructor; [lia | exact Hin].
    + intros H. inversion H as [|i x' ir xr Hix Hr]; subst. exists i. split.
      * apply zrange_from_In. lia.
      * apply in_map. apply IH. exact Hr.
Qed.

Lemma all_indices_length : forall xs idx, In idx (all_indices xs) -> length idx = length xs.
Proof. intros xs idx H. apply all_indices_complete in H. eapply in_range_length; eauto. Qed.

Lemma enumerate_rows : forall x r n a, 0 <= product r ->
  map (row_major r) (all_indices r) = zrange_from 0 (Z.to_nat (product r)) ->
  map (row_major (x :: r)) (flat_map (fun i => map (cons i) (all_indices r)) (zrange_from a n))
  = zrange_from (a * product r) (n * Z.to_nat (product r)).
Proof.
  intros x r n a HP IH. revert a. induction n as [|n IHn]; intros a; [reflexivity|].
  cbn [zrange_from flat_map]. rewrite map_app. rewrite IHn.
  cbn [Nat.mul]. rewrite zrange_from_app. f_equal.
  - rewrite map_map.
    transitivity (map (fun k => a * product r + k) (map (row_major r) (all_indices r))).
    + rewrite map_map. apply map_ext_in. intros idx Hidx.
      apply row_major_cons. apply all_indices_length. exact Hidx.
    + rewrite IH. rewrite zrange_from_shift. f_equal. lia.
  - f_equal. rewrite Z2Nat.id by exact HP. ring.
Qed.

Theorem row_major_enumerates : forall xs, Forall (fun x => 0 <= x) xs ->
  map (row_major xs) (all_indices xs) = zrange_from 0 (Z.to_nat (product xs)).
Proof.
  intros xs H. induction H as [|x r Hx Hr IH]; [reflexivity|].
  cbn [all_indices product]. assert (HP := product_nonneg _ Hr).
  rewrite (enumerate_rows x r (Z.to_nat x) 0 HP IH).
  rewrite Z2Nat.inj_mul by lia. f_equal.
Qed.

(* consequence for any injective in-bounds mapping: no two listed multi-indices collide *)
Theorem all_indices_nodup : forall xs, Forall (fun x => 0 <= x) xs -> NoDup (all_indices xs).
Proof.
  intros xs H. apply (NoDup_map_inv (row_major xs)). rewrite row_major_enumerates by exact H.
  generalize (Z.to_nat (product xs)) as n. generalize 0 as a.
  intros a n. revert a. induction n as [|n IHn]; intros a; cbn [zrange_from]; constructor.
  - intros Hin. apply zrange_from_In in Hin. lia.
  - apply IHn.
Qed.

Lemma all_indices_count : forall xs, Forall (fun x => 0 <= x) xs ->
  length (all_indices xs) = Z.to_nat (product xs).
Proof.
  intros xs H. rewrite <- (map_length (row_major xs)). rewrite row_major_enumerates by exact H.
  generalize 0 as a. generalize (Z.to_nat (product xs)) as n.
  induction n as [|n IHn]; intros a; cbn [zrange_from length]; [reflexivity | rewrite IHn; reflexivity].
Qed.

(* the column-major mapping visits the same offsets 0 .. size-1, each once, in another order *)
From Coq Require Import Permutation.

Lemma NoDup_map_inj_on : forall (A B : Type) (f : A -> B) l,
  (forall a b, In a l -> In b l -> f a = f b -> a = b) -> NoDup l -> NoDup (map f l).
Proof.
  intros A B f l Hinj Hnd. induction Hnd as [|a l Hnotin Hnd IH]; [constructor|].
  cbn [map]. constructor.
  - intros Hin. apply in_map_iff in Hin. destruct Hin as [b [Hfb Hb]].
    assert (b = a) by (apply Hinj; [right; exact Hb | left; reflexivity | exact Hfb]). subst b. contradiction.
  - apply IH. intros x y Hx Hy. apply Hinj; right; assumption.
Qed.

Lemma zrange_from_nodup : forall n a, NoDup (zrange_from a n).
Proof.
  induction n as [|n IHn]; intros a; cbn [zrange_from]; constructor.
  - intros Hin. apply zrange_from_In in Hin. lia.
  - apply IHn.
Qed.

Lemma zrange_from_length : forall n a, length (zrange_from a n) = n.
Proof. induction n as [|n IHn]; intros a; cbn [zrange_from length]; [reflexivity | rewrite IHn; reflexivity]. Qed.

Theorem col_major_permutes : forall xs, Forall (fun x => 0 <= x) xs ->
  Permutation (map (col_major xs) (all_indices xs)) (zrange_from 0 (Z.to_nat (product xs))).
Proof.
  intros xs H. assert (HP := product_nonneg _ H).
  assert (Hnd : NoDup (map (col_major xs) (all_indices xs))).
  { apply NoDup_map_inj_on; [|apply all_indices_nodup; exact H].
    intros a b Ha Hb Heq. apply all_indices_complete in Ha. apply all_indices_complete in Hb.
    eapply col_major_inj; eauto. }
  assert (Hincl : incl (map (col_major xs) (all_indices xs)) (zrange_from 0 (Z.to_nat (product xs)))).
  { intros o Ho. apply in_map_iff in Ho. destruct Ho as [idx [He Hidx]]. subst o.
    apply all_indices_complete in Hidx. assert (B := col_major_bounds _ _ Hidx).
    apply zrange_from_In. lia. }
  apply NoDup_Permutation; [exact Hnd | apply zrange_from_nodup|].
  intros o. split; [apply Hincl|].
  apply NoDup_length_incl; [exact Hnd | | exact Hincl].
  rewrite map_length. rewrite all_indices_count by exact H. rewrite zrange_from_length. lia.
Qed.
