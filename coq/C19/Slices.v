(* C19: slice specifiers of submdspan_extents -- input vocabulary shared by Model.v and Spec.v
   ([mdspan.sub.overview]: full_extent, a single index, an index pair (first, last)). *)
From Tetl Require Import Lib.Base.
Local Open Scope Z_scope.

Inductive slice :=
| SlFull                      (* full_extent: the whole dimension, static extent preserved *)
| SlIndex (k : Z)             (* an index: the dimension is dropped *)
| SlPair (first last : Z)     (* pair-like (first, last) of run-time values: last - first elements, dynamic extent *)
| SlCPair (first last : Z).   (* pair of integral constants: last - first elements, STATIC extent last - first *)
