(* C19: slice specifiers of submdspan_extents whose two bounds are of MIXED kind -- input vocabulary shared by
   ModelMix.v and SpecMix.v.  [mdspan.sub.overview]: a pair-like (first, last) may spell each bound either as a
   run-time value of an integer type or as an integral-constant-like object (integral_constant<int, 3>{});
   a strided_slice{offset, extent, stride} likewise, member by member. *)
From Tetl Require Import Lib.Base C19.Slices.
Local Open Scope Z_scope.

Inductive bound :=
| BRun (v : Z)        (* a run-time integer *)
| BConst (v : Z).     (* an integral-constant-like object of value v *)

Definition bval (b : bound) : Z := match b with BRun v | BConst v => v end.
Definition is_const (b : bound) : bool := match b with BConst _ => true | BRun _ => false end.

Inductive mslice :=
| MFull                          (* full_extent *)
| MIndex (k : Z)                 (* an index: the dimension is dropped *)
| MPair (first last : bound).    (* pair-like (first, last): pair / tuple / array<_, 2>, each bound run-time or constant *)

(* strided_slice<OffsetType, ExtentType, StrideType>{offset, extent, stride} *)
Record sslice := { ss_offset : bound; ss_extent : bound; ss_stride : bound }.

(* the slice of Slices.v that has the same meaning (both bounds constant = SlCPair, anything else = SlPair) *)
Definition to_slice (s : mslice) : slice :=
  match s with
  | MFull => SlFull
  | MIndex k => SlIndex k
  | MPair (BConst a) (BConst b) => SlCPair a b
  | MPair a b => SlPair (bval a) (bval b)
  end.
