(* C19 properties (part 2): submdspan_extents / submdspan_static_extent with slice bounds of mixed kind
   (run-time value or integral constant, bound by bound), and strided_slice static extents. *)
From Tetl Require Import Lib.Base C19.Slices C19.SlicesMix C19.Model C19.ModelMix C19.Spec C19.SpecMix
  C19.ProofsArith C19.ProofsExt C19.ProofsSub C19.ProofsMix.
Local Open Scope Z_scope.

(* submdspan_extents(ext, slices...) for EVERY rank, static/dynamic pattern, index type and every choice of slice
   specifiers -- full_extent, an index, a pair-like (first, last) with EACH bound either a run-time value or an
   integral constant -- that meets the precondition of [mdspan.sub.extents]: the builder does not overflow and returns
   a well-formed extents object; the run-time extent of a pair slice is last - first whatever the kind of its bounds;
   its static extent is last - first when BOTH bounds are constants and dynamic_extent otherwise *)
Theorem C19_submdspan_extents_mixed : forall t e sl, wf_ity t -> wf_ext t e ->
  Forall2 mslice_ok sl (extents_list t e) ->
  exists r, sub_extents_m t e sl = Some r
            /\ extents_list t r = msub_shape sl (extents_list t e)
            /\ pat r = msub_pattern sl (pat e)
            /\ wf_ext t r.
Proof. exact sub_extents_m_spec. Qed.
Print Assumptions C19_submdspan_extents_mixed.

(* the static extents of the RESULT TYPE never contradict the extents of the RESULT OBJECT: each is dynamic_extent
   or equal to the run-time extent (the source's static extents being representable in the index type, which
   extents<I, ...> mandates) *)
Theorem C19_submdspan_static_agrees : forall t e sl, wf_ity t -> wf_ext t e ->
  Forall (fun po => match po with Some n => 0 <= n <= imax t | None => True end) (pat e) ->
  Forall2 mslice_ok sl (extents_list t e) ->
  exists r, sub_extents_m t e sl = Some r /\ Forall2 static_agrees (pat r) (extents_list t r).
Proof. exact sub_extents_m_static_agrees. Qed.
Print Assumptions C19_submdspan_static_agrees.

(* detail::submdspan_static_extent of one pair slice: the standard's closed form; a static extent exactly when both
   bounds are integral constants; dynamic_extent or last - first in every case *)
Theorem C19_pair_static_extent : forall a b, 0 <= bval a <= bval b -> bval b < 2 ^ 64 ->
  pair_static a b = pair_static_spec a b
  /\ static_agrees (pair_static a b) (bval b - bval a).
Proof. intros a b H H64. split; [apply pair_static_spec_eq | apply pair_static_agrees]; assumption. Qed.
Print Assumptions C19_pair_static_extent.

Theorem C19_pair_static_only_both_constants : forall a b,
  (exists n, pair_static a b = Some n) <-> (is_const a = true /\ is_const b = true).
Proof. exact pair_static_some_iff. Qed.
Print Assumptions C19_pair_static_only_both_constants.

(* with bounds that are all run-time values or all constants the builder is the one of C19_submdspan_extents_pairs *)
Theorem C19_submdspan_extents_mixed_conservative : forall t e sl,
  sub_extents_m t e sl = sub_extents_p t e (map to_slice sl).
Proof. exact sub_extents_m_as_p. Qed.
Print Assumptions C19_submdspan_extents_mixed_conservative.

(* detail::submdspan_static_extent of a strided_slice (after fix 16f105f): 0 for the constant extent 0, the closed form
   1 + (extent - 1) / stride when extent and stride are constants, dynamic_extent otherwise; it is dynamic_extent or
   the number of elements the slice selects *)
Theorem C19_strided_static_extent : forall s, 0 <= bval (ss_extent s) < 2 ^ 63 -> 0 < bval (ss_stride s) ->
  strided_static s = strided_static_spec s
  /\ static_agrees (strided_static s) (strided_count (bval (ss_extent s)) (bval (ss_stride s))).
Proof. intros s He Hd. split; [apply strided_static_eq | apply strided_static_agrees]; assumption. Qed.
Print Assumptions C19_strided_static_extent.

Theorem C19_strided_static_needs_constant_extent : forall s, is_const (ss_extent s) = false -> strided_static s = None.
Proof. exact strided_static_none. Qed.
Print Assumptions C19_strided_static_needs_constant_extent.

(* necessity of "both": a static extent computed when EITHER bound is a constant (the other default-constructed as 0)
   contradicts the run-time extent *)
Theorem C19_pair_static_either_refuted : ~ static_agrees (pair_static_or (BConst 2) (BRun 4)) (4 - 2).
Proof. exact pair_static_or_disagrees. Qed.
Print Assumptions C19_pair_static_either_refuted.

Example C19_mix_nonvacuous :
  let e := ext_from_pack i32 [Some 4; None; Some 4] [4; 5; 4] in
  wf_ext i32 e
  /\ Forall2 mslice_ok [MPair (BConst 2) (BRun 4); MPair (BRun 1) (BConst 3); MPair (BConst 1) (BConst 3)] (extents_list i32 e)
  /\ option_map (extents_list i32) (sub_extents_m i32 e [MPair (BConst 2) (BRun 4); MPair (BRun 1) (BConst 3); MPair (BConst 1) (BConst 3)]) = Some [2; 2; 2]
  /\ option_map pat (sub_extents_m i32 e [MPair (BConst 2) (BRun 4); MPair (BRun 1) (BConst 3); MPair (BConst 1) (BConst 3)]) = Some [None; None; Some 2]
  /\ strided_static {| ss_offset := BRun 0; ss_extent := BConst 0; ss_stride := BConst 2 |} = Some 0
  /\ strided_static {| ss_offset := BRun 0; ss_extent := BConst 5; ss_stride := BConst 2 |} = Some 3.
Proof.
  cbv zeta. split; [|split; [|split; [|split; [|split]]]].
  - split; [vm_compute; reflexivity | repeat constructor].
  - replace (extents_list i32 _) with [4; 5; 4] by (vm_compute; reflexivity).
    repeat (constructor; [cbn [mslice_ok bval]; lia|]). constructor.
  - vm_compute; reflexivity.
  - vm_compute; reflexivity.
  - vm_compute; reflexivity.
  - vm_compute; reflexivity.
Qed.
