(* C19 proofs, part 6: span first / last / subspan designate exactly the requested sub-range of the
   parent's elements and never anything outside the parent; the run-time forms fire their
   precondition exactly when the request does not fit. *)
From Tetl Require Import Lib.Base C19.Model C19.Spec C19.ProofsArith.
Local Open Scope Z_scope.
Ltac Zify.zify_post_hook ::= Z.to_euclidean_division_equations.

Lemma skipn_skipn' : forall (A : Type) a b (l : list A), skipn a (skipn b l) = skipn (b + a) l.
Proof.
  intros A a b. revert a. induction b as [|b IH]; intros a l; [reflexivity|].
  destruct l as [|x r]; [cbn; destruct a; reflexivity|]. cbn [skipn Nat.add]. apply IH.
Qed.

(* taking c elements at offset o inside a window of n elements at offset a *)
Lemma window_window : forall (A : Type) (buf : list A) a n o c, (o + c <= n)%nat ->
  firstn c (skipn o (firstn n (skipn a buf))) = firstn c (skipn (a + o) buf).
Proof.
  intros A buf a n o c H. rewrite skipn_firstn_comm. rewrite firstn_firstn.
  rewrite Nat.min_l by lia. rewrite skipn_skipn'. reflexivity.
Qed.

(* a span is valid when it lies inside the underlying sequence; sizes are size_t values *)
Definition sp_valid {A} (buf : list A) (s : spanv) : Prop :=
  0 <= s_off s /\ 0 <= s_size s < 18446744073709551616 /\ s_off s + s_size s <= Z.of_nat (length buf).
(* r designates a part of what s designates *)
Definition sp_within (r s : spanv) : Prop :=
  s_off s <= s_off r /\ s_off r + s_size r <= s_off s + s_size s.

Lemma elems_sub : forall (A : Type) (buf : list A) s o c, sp_valid buf s -> 0 <= o -> 0 <= c ->
  o + c <= s_size s ->
  window buf (s_off s + o) c = sub_range (sp_elems buf s) o c.
Proof.
  intros A buf s o c [H0 [H1 H2]] Ho Hc Hoc. unfold window, sub_range, sp_elems, window.
  rewrite window_window by lia. f_equal. f_equal. lia.
Qed.

Section SpanOps.
  Variable A : Type.
  Variable buf : list A.

  (* subspan(offset, count): run-time form *)
  Theorem sp_sub_d_count : forall s o c, sp_valid buf s -> 0 <= o -> 0 <= c ->
    o + c <= s_size s ->
    exists r, sp_sub_d s o (Some c) = Ok r /\ sp_elems buf r = sub_range (sp_elems buf s) o c
              /\ s_size r = c /\ s_ext r = None /\ sp_within r s /\ sp_valid buf r.
  Proof.
    intros s o c Hv Ho Hc Hoc. assert (Hv' := Hv). destruct Hv' as [H0 [H1 H2]].
    unfold sp_sub_d. replace (o <=? s_size s) with true by lia. cbn [negb].
    rewrite szw_id by lia. replace (c <=? s_size s - o) with true by lia.
    eexists. split; [reflexivity|]. unfold sp_elems, mk_span, sp_within, sp_valid. cbn [s_off s_size s_ext].
    split; [apply elems_sub; assumption|]. repeat split; lia.
  Qed.

  Theorem sp_sub_d_rest : forall s o, sp_valid buf s -> 0 <= o <= s_size s ->
    exists r, sp_sub_d s o None = Ok r
              /\ sp_elems buf r = sub_range (sp_elems buf s) o (s_size s - o)
              /\ s_size r = s_size s - o /\ s_ext r = None /\ sp_within r s /\ sp_valid buf r.
  Proof.
    intros s o Hv Ho. assert (Hv' := Hv). destruct Hv' as [H0 [H1 H2]].
    unfold sp_sub_d. replace (o <=? s_size s) with true by lia. cbn [negb].
    rewrite szw_id by lia.
    eexists. split; [reflexivity|]. unfold sp_elems, mk_span, sp_within, sp_valid. cbn [s_off s_size s_ext].
    split; [apply elems_sub; try assumption; lia|]. repeat split; lia.
  Qed.

  (* the precondition checks fire exactly when the request does not fit *)
  Theorem sp_sub_d_contract : forall s o c, 0 <= s_size s < 18446744073709551616 -> 0 <= o ->
    (sp_sub_d s o c = Contract <->
     ~ (o <= s_size s /\ match c with Some n => n <= s_size s - o | None => True end)).
  Proof.
    intros s o c Hs Ho. unfold sp_sub_d. destruct (o <=? s_size s) eqn:H1; cbn [negb].
    - rewrite szw_id by lia. destruct c as [n|].
      + destruct (n <=? s_size s - o) eqn:H2; split; intros H; try discriminate; try lia; reflexivity.
      + split; intros H; [discriminate | lia].
    - split; intros H; [lia | reflexivity].
  Qed.

  (* first(count) / last(count) *)
  Theorem sp_first_d_spec : forall s c, sp_valid buf s -> 0 <= c ->
    (c <= s_size s ->
     exists r, sp_first_d s c = Ok r /\ sp_elems buf r = sub_range (sp_elems buf s) 0 c
               /\ s_size r = c /\ sp_within r s)
    /\ (s_size s < c -> sp_first_d s c = Contract).
  Proof.
    intros s c Hv Hc. assert (Hv' := Hv). destruct Hv' as [H0 [H1 H2]]. unfold sp_first_d. split; intros H.
    - replace (c <=? s_size s) with true by lia. eexists. split; [reflexivity|].
      unfold sp_elems, mk_span, sp_within. cbn [s_off s_size s_ext].
      replace (s_off s) with (s_off s + 0) at 1 by lia.
      split; [apply elems_sub; try assumption; lia|]. split; lia.
    - replace (c <=? s_size s) with false by lia. reflexivity.
  Qed.

  Theorem sp_last_d_spec : forall s c, sp_valid buf s -> 0 <= c ->
    (c <= s_size s ->
     exists r, sp_last_d s c = Ok r /\ sp_elems buf r = sub_range (sp_elems buf s) (s_size s - c) c
               /\ s_size r = c /\ sp_within r s)
    /\ (s_size s < c -> sp_last_d s c = Contract).
  Proof.
    intros s c Hv Hc. assert (Hv' := Hv). destruct Hv' as [H0 [H1 H2]]. unfold sp_last_d. split; intros H.
    - replace (c <=? s_size s) with true by lia. rewrite szw_id by lia. eexists. split; [reflexivity|].
      unfold sp_elems, mk_span, sp_within. cbn [s_off s_size s_ext].
      split; [apply elems_sub; try assumption; lia|]. split; lia.
    - replace (c <=? s_size s) with false by lia. reflexivity.
  Qed.

  (* compile-time forms: first<C>(), last<C>(), subspan<O, C>() (with the run-time checks of the fixed code) *)
  Theorem sp_first_s_spec : forall s c, sp_valid buf s -> 0 <= c ->
    (c <= s_size s ->
     exists r, sp_first_s s c = Ok r /\ sp_elems buf r = sub_range (sp_elems buf s) 0 c
               /\ s_size r = c /\ s_ext r = Some c /\ sp_within r s)
    /\ (s_size s < c -> sp_first_s s c = Contract).
  Proof.
    intros s c Hv Hc. assert (Hv' := Hv). destruct Hv' as [H0 [H1 H2]]. unfold sp_first_s. split; intros H.
    - replace (c <=? s_size s) with true by lia. eexists. split; [reflexivity|].
      unfold sp_elems, mk_span, sp_within. cbn [s_off s_size s_ext].
      replace (s_off s) with (s_off s + 0) at 1 by lia.
      split; [apply elems_sub; try assumption; lia|]. repeat split; lia.
    - replace (c <=? s_size s) with false by lia. reflexivity.
  Qed.

  Theorem sp_last_s_spec : forall s c, sp_valid buf s -> 0 <= c ->
    (c <= s_size s ->
     exists r, sp_last_s s c = Ok r /\ sp_elems buf r = sub_range (sp_elems buf s) (s_size s - c) c
               /\ s_size r = c /\ s_ext r = Some c /\ sp_within r s)
    /\ (s_size s < c -> sp_last_s s c = Contract).
  Proof.
    intros s c Hv Hc. assert (Hv' := Hv). destruct Hv' as [H0 [H1 H2]]. unfold sp_last_s. split; intros H.
    - replace (c <=? s_size s) with true by lia. rewrite szw_id by lia. eexists. split; [reflexivity|].
      unfold sp_elems, mk_span, sp_within. cbn [s_off s_size s_ext].
      split; [apply elems_sub; try assumption; lia|]. repeat split; lia.
    - replace (c <=? s_size s) with false by lia. reflexivity.
  Qed.

  (* the static extent is consistent with the size the span reports *)
  Definition sp_consistent (s : spanv) : Prop := match s_ext s with Some n => s_size s = n | None => True end.

  Theorem sp_sub_s_spec : forall s o c, sp_valid buf s -> sp_consistent s -> 0 <= o <= s_size s ->
    match c with Some n => 0 <= n <= s_size s - o | None => True end ->
    let cnt := match c with Some n => n | None => s_size s - o end in
    exists r, sp_sub_s s o c = Ok r
    /\ sp_elems buf r = sub_range (sp_elems buf s) o cnt /\ s_size r = cnt /\ sp_within r s
    /\ s_ext r = match c with
                 | Some n => Some n
                 | None => match s_ext s with Some x => Some (x - o) | None => None end
                 end
    /\ sp_consistent r.
  Proof.
    intros s o c Hv Hcons Ho Hc cnt. assert (Hv' := Hv). destruct Hv' as [H0 [H1 H2]].
    subst cnt. unfold sp_sub_s. replace (o <=? s_size s) with true by lia. cbn [negb].
    destruct c as [n|].
    - rewrite (szw_id (s_size s - o)) by lia. replace (n <=? s_size s - o) with true by lia.
      eexists. split; [reflexivity|].
      unfold sp_elems, mk_span, sp_within, subspan_extent, sp_consistent in *. cbn [s_off s_size s_ext].
      split; [apply elems_sub; try assumption; lia|]. repeat split; lia.
    - eexists. split; [reflexivity|].
      unfold sp_elems, mk_span, sp_within, subspan_extent, sp_consistent in *.
      destruct (s_ext s) as [x|] eqn:Hx; cbn [s_off s_size s_ext].
      + subst x. rewrite szw_id by lia.
        split; [apply elems_sub; try assumption; lia|]. repeat split; lia.
      + rewrite szw_id by lia.
        split; [apply elems_sub; try assumption; lia|]. repeat split; lia.
  Qed.

  (* the run-time checks of subspan<O, C>() fire exactly outside [span.sub]'s domain; on a parent of static
     extent (where the static_asserts already guarantee O <= Extent and C <= Extent - O) they never fire *)
  Theorem sp_sub_s_contract : forall s o c, 0 <= s_size s < 18446744073709551616 -> 0 <= o ->
    (sp_sub_s s o c = Contract <->
     ~ (o <= s_size s /\ match c with Some n => n <= s_size s - o | None => True end)).
  Proof.
    intros s o c Hs Ho. unfold sp_sub_s.
    destruct (o <=? s_size s) eqn:Eo; cbn [negb].
    - apply Z.leb_le in Eo. rewrite (szw_id (s_size s - o)) by lia. destruct c as [n|].
      + destruct (n <=? s_size s - o) eqn:En.
        * apply Z.leb_le in En. split; [discriminate | intros H; exfalso; apply H; split; assumption].
        * apply Z.leb_gt in En. split; [intros _ [_ H]; lia | reflexivity].
      + split; [discriminate | intros H; exfalso; apply H; split; [assumption | exact I]].
    - apply Z.leb_gt in Eo. split; [intros _ [H _]; lia | reflexivity].
  Qed.

  (* operator[]: in-range index -> the idx-th element's address, otherwise the precondition fires *)
  Theorem sp_index_spec : forall s i, 0 <= i ->
    (i < s_size s -> sp_index s i = Ok (s_off s + i)) /\ (s_size s <= i -> sp_index s i = Contract).
  Proof.
    intros s i Hi. unfold sp_index. split; intros H.
    - replace (i <? s_size s) with true by lia. reflexivity.
    - replace (i <? s_size s) with false by lia. reflexivity.
  Qed.

  (* the constructors (pointer + count, range, other span): on a span type of static extent the count must equal
     the extent (precondition, fix 721a088), otherwise the span designates exactly [ptr, ptr + count); every span
     the library itself builds (the results of first/last/subspan/as_bytes are [sp_consistent]) passes the check *)
  Theorem sp_ctor_spec : forall ext ptr sz,
    (sp_ctor ext ptr sz = Contract <-> exists n, ext = Some n /\ sz <> n)
    /\ (forall r, sp_ctor ext ptr sz = Ok r ->
         s_off r = ptr /\ s_size r = sz /\ s_ext r = ext /\ sp_consistent r).
  Proof.
    intros ext ptr sz. unfold sp_ctor, mk_span, sp_consistent. destruct ext as [n|].
    - destruct (sz =? n) eqn:E.
      + apply Z.eqb_eq in E. subst n. split.
        * split; [discriminate | intros [m [Hm Hne]]; inversion Hm; subst; contradiction].
        * intros r Hr. inversion Hr; subst r. cbn [s_off s_size s_ext]. repeat split.
      + apply Z.eqb_neq in E. split.
        * split; [intros _; exists n; split; [reflexivity | exact E] | reflexivity].
        * intros r Hr. discriminate.
    - split.
      + split; [discriminate | intros [m [Hm _]]; discriminate].
      + intros r Hr. inversion Hr; subst r. cbn [s_off s_size s_ext]. repeat split.
  Qed.

  Theorem sp_ctor_internal : forall r, sp_consistent r -> sp_ctor (s_ext r) (s_off r) (s_size r) = Ok r.
  Proof.
    intros [o sz ext] H. unfold sp_consistent, sp_ctor, mk_span in *. cbn [s_off s_size s_ext] in *.
    destruct ext as [n|]; [subst sz; rewrite Z.eqb_refl; reflexivity | reflexivity].
  Qed.

  (* front() / back(): the first / last element of the window (operator[] at 0 / size()-1), precondition exactly
     for the empty span *)
  Theorem sp_front_back_spec : forall s, 0 <= s_size s ->
    (sp_front s = Contract <-> s_size s = 0) /\ (sp_back s = Contract <-> s_size s = 0)
    /\ (0 < s_size s -> sp_front s = sp_index s 0 /\ sp_back s = sp_index s (s_size s - 1)
                        /\ sp_front s = Ok (s_off s) /\ sp_back s = Ok (s_off s + s_size s - 1)).
  Proof.
    intros s Hs. unfold sp_front, sp_back, sp_index.
    destruct (s_size s =? 0) eqn:E.
    - apply Z.eqb_eq in E. repeat split; intros; try assumption; try reflexivity; lia.
    - apply Z.eqb_neq in E. split; [split; [discriminate | intros; lia]|].
      split; [split; [discriminate | intros; lia]|]. intros Hp.
      replace (0 <? s_size s) with true by lia. replace (s_size s - 1 <? s_size s) with true by lia.
      repeat split; f_equal; lia.
  Qed.
End SpanOps.
