(* C19 proofs: layout_stride::mapping::required_span_size() equals REQUIRED-SPAN-SIZE of
   [mdspan.layout.stride.expo] whenever that value is representable -- no overflow on the way. *)
From Tetl Require Import Lib.Base C19.Model C19.Spec C19.ProofsArith C19.ProofsExt C19.ProofsSpec.
Local Open Scope Z_scope.
Ltac Zify.zify_post_hook ::= Z.to_euclidean_division_equations.

Lemma span_max_nonneg : forall xs ss, Forall (fun x => 0 < x) xs -> Forall (fun s => 0 <= s) ss ->
  0 <= span_max xs ss.
Proof.
  intros xs ss H. revert ss. induction H as [|x xr Hx Hr IH]; intros ss Hs; [cbn; lia|].
  destruct Hs as [|s sr Hs0 Hsr]; cbn [span_max]; [lia|]. specialize (IH sr Hsr). nia.
Qed.

Lemma req_sum_spec : forall t xs ss span, wf_ity t ->
  Forall (fun x => 0 < x <= imax t) xs -> Forall (fun s => 0 <= s) ss ->
  0 <= span -> span + span_max xs ss <= imax t ->
  strided_req_sum t xs ss span = Some (span + span_max xs ss).
Proof.
  intros t xs ss span Hwf Hx. revert ss span. induction Hx as [|x xr Hx0 Hxr IH]; intros ss span Hs H0 Hb.
  - cbn. f_equal. lia.
  - destruct Hs as [|s sr Hs0 Hsr]; [cbn; f_equal; lia|].
    cbn [strided_req_sum span_max] in *.
    assert (Hpos : Forall (fun x => 0 < x) xr).
    { clear -Hxr. induction Hxr; constructor; [lia | assumption]. }
    assert (Hm := span_max_nonneg xr sr Hpos Hsr).
    rewrite (aop_small t (x - 1)) by (try assumption; lia). cbn [obind].
    rewrite (aop_small t ((x - 1) * s)) by (try assumption; nia). cbn [obind].
    rewrite (aop_small t (span + (x - 1) * s)) by (try assumption; nia). cbn [obind].
    rewrite (cast_id t (span + (x - 1) * s)) by (try assumption; nia).
    rewrite IH by (try assumption; nia). f_equal. lia.
Qed.

Lemma existsb_zero_false : forall xs, Forall (fun x => 0 <= x) xs -> existsb (fun x => x =? 0) xs = false ->
  Forall (fun x => 0 < x) xs.
Proof.
  intros xs H. induction H as [|x r Hx Hr IH]; intros He; [constructor|].
  cbn [existsb] in He. apply orb_false_iff in He. destruct He as [H1 H2].
  constructor; [lia | apply IH; exact H2].
Qed.

Theorem strided_required_spec : forall t e ss, wf_ity t -> wf_ext t e ->
  Forall (fun x => 0 <= x) (extents_list t e) ->
  Forall (fun s => 0 <= s <= imax t) ss ->
  stride_required (extents_list t e) ss <= imax t ->
  strided_required t (strided_ctor t e ss) = Some (stride_required (extents_list t e) ss).
Proof.
  intros t e ss Hwf Hwe Hnn Hs Hreq. unfold strided_required, strided_ctor, stride_required in *.
  cbn [st_ext st_strides].
  assert (Hss : map (cast t) ss = ss).
  { apply map_cast_repr; [exact Hwf|]. clear -Hs. induction Hs; constructor; [unfold representable; lia | assumption]. }
  rewrite Hss.
  destruct (existsb (fun x => x =? 0) (extents_list t e)) eqn:He; [reflexivity|].
  assert (Hpos := existsb_zero_false _ Hnn He).
  assert (Hin := extents_list_in_ty t e Hwf Hwe).
  assert (Hx : Forall (fun x => 0 < x <= imax t) (extents_list t e)).
  { clear -Hpos Hin. induction Hpos as [|x r Hx Hr IH]; [constructor|].
    inversion Hin as [|? ? Hi Hir]; subst. constructor; [unfold in_ty in Hi; lia | apply IH; exact Hir]. }
  assert (Hs0 : Forall (fun s => 0 <= s) ss).
  { clear -Hs. induction Hs; constructor; [lia | assumption]. }
  rewrite req_sum_spec; try assumption; try lia. reflexivity.
Qed.

(* layout_stride::mapping::stride(r): the stored stride, its precondition fires exactly for r >= rank *)
Theorem strided_stride_spec : forall t e ss r, wf_ity t -> length ss = rank e ->
  (strided_stride (strided_ctor t e ss) r = Contract <-> (rank e <= r)%nat)
  /\ ((r < rank e)%nat -> strided_stride (strided_ctor t e ss) r = Ok (cast t (nth r ss 0))).
Proof.
  intros t e ss r Hwf Hl. unfold strided_stride, strided_ctor. cbn [st_ext st_strides].
  destruct (r <? rank e)%nat eqn:Hr.
  - apply Nat.ltb_lt in Hr. split; [split; [discriminate | lia]|].
    intros _. f_equal. rewrite <- (map_nth (cast t)).
    assert (H0 : cast t 0 = 0) by (apply cast_id; [exact Hwf | assert (H := imax_nonneg t Hwf); lia]).
    rewrite H0. reflexivity.
  - apply Nat.ltb_ge in Hr. split; [split; [lia | reflexivity] | lia].
Qed.

(** * conversions between the layouts preserve extents, strides and offsets *)
Lemma merge_convert_id : forall t p d, wf_ity t -> Forall (fun v => in_ty t v = true) d ->
  (rank_dynamic p <= length d)%nat ->
  map (cast t) (extents_all p (merge t p d)) = merge t p d.
Proof.
  intros t. induction p as [|x r IH]; intros d Hwf Hd Hl; [reflexivity|].
  destruct x as [n|]; cbn [merge rank_dynamic extents_all map] in *.
  - rewrite IH by assumption. reflexivity.
  - destruct d as [|v vs]; [cbn in Hl; lia|]. inversion Hd; subst. cbn [nth tl].
    rewrite IH by (try assumption; cbn in Hl; lia). rewrite cast_fix by assumption. reflexivity.
Qed.

Lemma ext_convert_same : forall t e, wf_ity t -> wf_ext t e ->
  extents_list t (ext_convert t (pat e) t e) = extents_list t e.
Proof.
  intros t e Hwf [Hl Hd]. rewrite ext_convert_list by reflexivity. rewrite extents_list_merge.
  apply merge_convert_id; [assumption | assumption | lia].
Qed.

Lemma ext_convert_pat : forall t p t' e', pat (ext_convert t p t' e') = p.
Proof. intros. unfold ext_convert. destruct (0 <? rank_dynamic p)%nat; reflexivity. Qed.

Theorem layout_conversions_roundtrip : forall l t e idx, wf_ity t -> wf_ext t e ->
  let m := strided_of_layout l t (pat e) t e in
  extents_list t (st_ext m) = extents_list t e
  /\ st_strides m = lay_strides l t e
  /\ strided_map t m idx = lay_map l t e idx
  /\ extents_list t (layout_of_strided t (pat e) t m) = extents_list t e.
Proof.
  intros l t e idx Hwf Hwe m. subst m. unfold strided_of_layout, layout_of_strided. cbn [st_ext st_strides].
  assert (Hs : map (cast t) (lay_strides l t e) = lay_strides l t e).
  { unfold lay_strides. rewrite map_map. apply map_ext. intros r. unfold lay_stride_raw.
    destruct l; apply cast_idem; exact Hwf. }
  split; [apply ext_convert_same; assumption|]. split; [exact Hs|]. split.
  - unfold strided_map, lay_map. cbn [st_strides]. rewrite Hs. reflexivity.
  - assert (Hwe' : wf_ext t (ext_convert t (pat e) t e)) by (apply ext_convert_wf; exact Hwf).
    assert (H1 := ext_convert_same t (ext_convert t (pat e) t e) Hwf Hwe').
    rewrite ext_convert_pat in H1. rewrite H1. apply ext_convert_same; assumption.
Qed.
