(* C19 proofs: algebra of the span operations -- first / last are subspans, subspans compose by adding
   offsets (the "equivalent pointer arithmetic on the original range"). *)
From Tetl Require Import Lib.Base C19.Model C19.Spec C19.ProofsArith C19.ProofsSpan.
Local Open Scope Z_scope.
Ltac Zify.zify_post_hook ::= Z.to_euclidean_division_equations.

Definition size_ok (s : spanv) : Prop := 0 <= s_size s < 18446744073709551616.

(* first(count) is subspan(0, count), for every count (also when the precondition fires) *)
Theorem sp_first_is_subspan : forall s c, size_ok s -> 0 <= c ->
  sp_sub_d s 0 (Some c) = rbind (sp_first_d s c) (fun r => Ok (mk_span None (s_off r + 0) (s_size r))).
Proof.
  intros s c Hs Hc. unfold size_ok in Hs. unfold sp_sub_d, sp_first_d.
  replace (0 <=? s_size s) with true by lia. cbn [negb].
  rewrite Z.sub_0_r. rewrite szw_id by lia.
  destruct (c <=? s_size s); reflexivity.
Qed.

(* last(count) is subspan(size() - count, count) whenever count <= size() *)
Theorem sp_last_is_subspan : forall s c, size_ok s -> 0 <= c <= s_size s ->
  sp_last_d s c = sp_sub_d s (s_size s - c) (Some c).
Proof.
  intros s c Hs Hc. unfold size_ok in Hs. unfold sp_sub_d, sp_last_d.
  replace (c <=? s_size s) with true by lia.
  replace (s_size s - c <=? s_size s) with true by lia. cbn [negb].
  replace (s_size s - (s_size s - c)) with c by lia.
  rewrite (szw_id c) by lia. rewrite (szw_id (s_size s - c)) by lia.
  replace (c <=? c) with true by lia. reflexivity.
Qed.

(* a subspan of a subspan is the subspan at the sum of the offsets: same window of the original range *)
Theorem sp_subspan_compose : forall s o c o' c', size_ok s -> 0 <= o -> 0 <= c -> o + c <= s_size s ->
  0 <= o' -> 0 <= c' -> o' + c' <= c ->
  exists r, sp_sub_d s o (Some c) = Ok r
            /\ sp_sub_d r o' (Some c') = Ok (mk_span None (s_off s + (o + o')) c')
            /\ sp_sub_d s (o + o') (Some c') = Ok (mk_span None (s_off s + (o + o')) c').
Proof.
  intros s o c o' c' Hs Ho Hc Hoc Ho' Hc' Hoc'. unfold size_ok in Hs. unfold sp_sub_d.
  replace (o <=? s_size s) with true by lia. cbn [negb]. rewrite (szw_id (s_size s - o)) by lia.
  replace (c <=? s_size s - o) with true by lia.
  eexists. split; [reflexivity|]. cbn [mk_span s_off s_size s_ext]. split.
  - replace (o' <=? c) with true by lia. cbn [negb]. rewrite (szw_id (c - o')) by lia.
    replace (c' <=? c - o') with true by lia. f_equal. f_equal. lia.
  - replace (o + o' <=? s_size s) with true by lia. cbn [negb]. rewrite (szw_id (s_size s - (o + o'))) by lia.
    replace (c' <=? s_size s - (o + o')) with true by lia. reflexivity.
Qed.

(* the run-time and the compile-time form of subspan designate the same window *)
Theorem sp_static_dynamic_agree : forall s o c, size_ok s -> sp_consistent s -> 0 <= o <= s_size s ->
  match c with Some n => 0 <= n <= s_size s - o | None => True end ->
  exists r r', sp_sub_d s o c = Ok r /\ sp_sub_s s o c = Ok r' /\ s_off r = s_off r' /\ s_size r = s_size r'.
Proof.
  intros s o c Hs Hcons Ho Hc. unfold size_ok in Hs. unfold sp_consistent in Hcons.
  unfold sp_sub_d, sp_sub_s, subspan_extent, mk_span.
  replace (o <=? s_size s) with true by lia. cbn [negb].
  destruct c as [n|].
  - rewrite (szw_id (s_size s - o)) by lia. replace (n <=? s_size s - o) with true by lia.
    eexists. eexists. split; [reflexivity|]. split; [reflexivity|]. cbn [s_off s_size s_ext]. split; reflexivity.
  - eexists. eexists. split; [reflexivity|]. split; [reflexivity|]. cbn [s_off s_size s_ext]. split; [reflexivity|].
    destruct (s_ext s) as [x|]; [subst x; reflexivity | reflexivity].
Qed.

(* ... and for EVERY offset and count (no hypothesis at all) the two forms have the same outcome: both fire a
   precondition, or both return the same window *)
Theorem sp_static_dynamic_same_outcome : forall s o c,
  match sp_sub_d s o c, sp_sub_s s o c with
  | Ok r, Ok r' => s_off r = s_off r' /\ (sp_consistent s -> s_size r = s_size r') /\ s_ext r = None
                   /\ s_ext r' = subspan_extent o c (s_ext s)
  | Contract, Contract => True
  | _, _ => False
  end.
Proof.
  intros s o c. unfold sp_sub_d, sp_sub_s.
  destruct (o <=? s_size s); cbn [negb]; [|exact I].
  destruct c as [n|]; [destruct (n <=? szw (s_size s - o)); [|exact I]|];
    unfold mk_span, subspan_extent, sp_consistent; cbn [s_off s_size s_ext]; repeat split;
    destruct (s_ext s) as [x|]; intros; subst; reflexivity.
Qed.

(** * as_bytes: the byte view covers exactly the object representations of the span's elements *)
Lemma flat_map_window : forall (A B : Type) (f : A -> list B) k (l : list A),
  (forall x, length (f x) = k) -> forall a n,
  firstn (n * k) (skipn (a * k) (flat_map f l)) = flat_map f (firstn n (skipn a l)).
Proof.
  intros A B f k l Hk. induction l as [|x r IH]; intros a n.
  - cbn. rewrite skipn_nil, firstn_nil. destruct a, n; reflexivity.
  - destruct a as [|a].
    + cbn [Nat.mul skipn]. destruct n as [|n]; [reflexivity|].
      cbn [flat_map firstn Nat.mul]. rewrite firstn_app. rewrite Hk.
      rewrite firstn_all2 by (rewrite Hk; lia). replace (k + n * k - k)%nat with (n * k)%nat by lia.
      f_equal. specialize (IH O n). cbn [Nat.mul skipn] in IH. exact IH.
    + cbn [flat_map skipn]. replace (S a * k)%nat with (k + a * k)%nat by lia.
      rewrite skipn_app. rewrite Hk. rewrite skipn_all2 by (rewrite Hk; lia). cbn [app].
      replace (k + a * k - k)%nat with (a * k)%nat by lia. apply IH.
Qed.

Theorem sp_as_bytes_spec : forall (A B : Type) (repr : A -> list B) (esz : Z) (buf : list A) s,
  0 < esz -> (forall x, Z.of_nat (length (repr x)) = esz) ->
  sp_valid buf s -> sp_consistent s -> Z.of_nat (length buf) * esz < 18446744073709551616 ->
  let r := sp_as_bytes esz s in
  s_off r = s_off s * esz /\ s_size r = s_size s * esz
  /\ s_ext r = match s_ext s with Some n => Some (esz * n) | None => None end
  /\ sp_elems (flat_map repr buf) r = flat_map repr (sp_elems buf s)
  /\ sp_consistent r.
Proof.
  intros A B repr esz buf s Hesz Hrepr [H0 [H1 H2]] Hcons Hfit r. subst r.
  unfold sp_consistent in Hcons.
  assert (Hsz : szw (s_size s * esz) = s_size s * esz) by (apply szw_id; nia).
  unfold sp_as_bytes, sp_size_bytes, mk_span, sp_elems, window, sp_consistent. cbn [s_off s_size s_ext].
  destruct (s_ext s) as [n|] eqn:He.
  - subst n. assert (Hsz' : szw (esz * s_size s) = s_size s * esz) by (rewrite Z.mul_comm; exact Hsz).
    rewrite Hsz'. split; [reflexivity|]. split; [reflexivity|]. split; [f_equal; lia|]. split; [|reflexivity].
    replace (Z.to_nat (s_size s * esz)) with (Z.to_nat (s_size s) * Z.to_nat esz)%nat by nia.
    replace (Z.to_nat (s_off s * esz)) with (Z.to_nat (s_off s) * Z.to_nat esz)%nat by nia.
    apply flat_map_window. intros x. specialize (Hrepr x). lia.
  - rewrite Hsz. split; [reflexivity|]. split; [reflexivity|]. split; [reflexivity|]. split; [|exact I].
    replace (Z.to_nat (s_size s * esz)) with (Z.to_nat (s_size s) * Z.to_nat esz)%nat by nia.
    replace (Z.to_nat (s_off s * esz)) with (Z.to_nat (s_off s) * Z.to_nat esz)%nat by nia.
    apply flat_map_window. intros x. specialize (Hrepr x). lia.
Qed.
