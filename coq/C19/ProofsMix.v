(* C19 proofs: submdspan_extents / submdspan_static_extent with slice bounds of mixed kind. *)
From Tetl Require Import Lib.Base C19.Slices C19.SlicesMix C19.Model C19.ModelMix C19.Spec C19.SpecMix
  C19.ProofsArith C19.ProofsExt C19.ProofsSub.
Local Open Scope Z_scope.
Ltac Zify.zify_post_hook ::= Z.to_euclidean_division_equations.

(** * the mixed-kind builder is the builder of Model.v on the translated slices *)
Lemma subm_pat_as_p : forall sl p, subm_pat sl p = subp_pat (map to_slice sl) p.
Proof.
  induction sl as [|s sr IH]; intros p; [reflexivity|].
  destruct p as [|x r]; [destruct s as [|k|[a|a] [b|b]]; reflexivity|].
  destruct s as [|k|[a|a] [b|b]]; cbn [map to_slice subm_pat subp_pat pair_static is_const andb bval];
    rewrite IH; reflexivity.
Qed.

Lemma subm_vals_as_p : forall t sl xs, subm_vals t sl xs = subp_vals t (map to_slice sl) xs.
Proof.
  intros t. induction sl as [|s sr IH]; intros xs; [destruct xs; reflexivity|].
  destruct xs as [|x r]; [destruct s as [|k|[a|a] [b|b]]; reflexivity|].
  destruct s as [|k|[a|a] [b|b]]; cbn [map to_slice subm_vals subp_vals bval]; rewrite IH; reflexivity.
Qed.

Lemma sub_extents_m_as_p : forall t e sl, sub_extents_m t e sl = sub_extents_p t e (map to_slice sl).
Proof. intros t e sl. unfold sub_extents_m, sub_extents_p. rewrite subm_vals_as_p, subm_pat_as_p. reflexivity. Qed.

(** * the closed forms of SpecMix.v are those of Spec.v on the translated slices *)
Lemma msub_shape_as : forall sl xs, msub_shape sl xs = sub_shape (map to_slice sl) xs.
Proof.
  induction sl as [|s sr IH]; intros xs; [reflexivity|].
  destruct xs as [|x r]; [destruct s as [|k|[a|a] [b|b]]; reflexivity|].
  destruct s as [|k|[a|a] [b|b]]; cbn [map to_slice msub_shape sub_shape bval]; rewrite IH; reflexivity.
Qed.

Lemma msub_pattern_as : forall sl p, msub_pattern sl p = sub_pattern (map to_slice sl) p.
Proof.
  induction sl as [|s sr IH]; intros p; [reflexivity|].
  destruct p as [|x r]; [destruct s as [|k|[a|a] [b|b]]; reflexivity|].
  destruct s as [|k|[a|a] [b|b]]; cbn [map to_slice msub_pattern sub_pattern pair_static_spec]; rewrite IH; reflexivity.
Qed.

Lemma mslice_ok_as : forall sl xs, Forall2 mslice_ok sl xs -> Forall2 slice_ok (map to_slice sl) xs.
Proof.
  intros sl xs H. induction H as [|s x sr xr Hs Hr IH]; [constructor|].
  cbn [map]. constructor; [|exact IH].
  destruct s as [|k|[a|a] [b|b]]; cbn [to_slice slice_ok mslice_ok bval] in *; exact Hs.
Qed.

(* submdspan_extents(ext, slices...) for EVERY rank, static/dynamic pattern, index type and every choice of slice
   specifiers -- full_extent, index, pair-like (first, last) with each bound a run-time value or an integral constant --
   meeting the precondition of [mdspan.sub.extents]: no overflow, a well-formed result whose run-time extents are
   last - first for every pair slice WHATEVER the kind of its bounds, and whose static extents are those of the standard *)
Theorem sub_extents_m_spec : forall t e sl, wf_ity t -> wf_ext t e ->
  Forall2 mslice_ok sl (extents_list t e) ->
  exists r, sub_extents_m t e sl = Some r
            /\ extents_list t r = msub_shape sl (extents_list t e)
            /\ pat r = msub_pattern sl (pat e)
            /\ wf_ext t r.
Proof.
  intros t e sl Hwf Hwe Hok. rewrite sub_extents_m_as_p, msub_shape_as, msub_pattern_as.
  apply sub_extents_p_spec; [exact Hwf | exact Hwe | apply mslice_ok_as; exact Hok].
Qed.

(** * static extents: dynamic_extent or equal to the run-time extent *)
(* the model's submdspan_static_extent of a pair slice is the standard's *)
Lemma pair_static_spec_eq : forall a b, 0 <= bval a <= bval b -> bval b < 2 ^ 64 ->
  pair_static a b = pair_static_spec a b.
Proof.
  intros [a|a] [b|b] H H64; cbn [pair_static pair_static_spec is_const andb bval] in *; try reflexivity.
  rewrite szw_id by lia. reflexivity.
Qed.

(* it is a static extent only when BOTH bounds are integral constants *)
Lemma pair_static_some_iff : forall a b, (exists n, pair_static a b = Some n) <-> (is_const a = true /\ is_const b = true).
Proof.
  intros [a|a] [b|b]; cbn [pair_static is_const andb]; split; intros H;
    try (destruct H as [n H]; discriminate H); try (destruct H as [H1 H2]; discriminate); try (split; reflexivity).
  eexists; reflexivity.
Qed.

Lemma pair_static_agrees : forall a b, 0 <= bval a <= bval b -> bval b < 2 ^ 64 ->
  static_agrees (pair_static a b) (bval b - bval a).
Proof.
  intros a b H H64. rewrite pair_static_spec_eq by assumption.
  destruct a as [a|a], b as [b|b]; cbn [pair_static_spec bval]; [left|left|left|right]; reflexivity.
Qed.

(* every static extent of the result TYPE agrees with the run-time extent of the result OBJECT, for every slice
   list, provided the static extents of the source agree with its run-time extents *)
Lemma msub_pattern_agrees : forall sl p xs, Forall2 static_agrees p xs ->
  Forall2 static_agrees (msub_pattern sl p) (msub_shape sl xs).
Proof.
  induction sl as [|s sr IH]; intros p xs H; [constructor|].
  inversion H as [|po x pr xr Hpo Hr]; subst; [destruct s; constructor|].
  destruct s as [|k|a b]; cbn [msub_pattern msub_shape].
  - constructor; [exact Hpo | apply IH; exact Hr].
  - apply IH; exact Hr.
  - constructor; [|apply IH; exact Hr].
    destruct a as [a|a], b as [b|b]; cbn [pair_static_spec bval]; [left|left|left|right]; reflexivity.
Qed.

Lemma ext_rel_agrees : forall t p xs, wf_ity t -> Forall2 (ext_rel t) p xs ->
  Forall (fun po => match po with Some n => 0 <= n <= imax t | None => True end) p ->
  Forall2 static_agrees p xs.
Proof.
  intros t p xs Hwf H. induction H as [|po x pr xr [Hin Hpo] Hr IH]; intros Hp; [constructor|].
  inversion Hp as [|? ? Hn Hpr]; subst. constructor; [|apply IH; exact Hpr].
  destruct po as [n|]; [right|left; reflexivity]. rewrite Hpo. rewrite cast_id by (try assumption; lia). reflexivity.
Qed.

(** * strided_slice: submdspan_static_extent *)
Lemma strided_static_eq : forall s, 0 <= bval (ss_extent s) < 2 ^ 63 -> 0 < bval (ss_stride s) ->
  strided_static s = strided_static_spec s.
Proof.
  intros [o [e|e] [d|d]] He Hd; unfold strided_static, strided_static_spec;
    cbn [ss_extent ss_stride is_const andb bval] in *.
  - reflexivity.
  - reflexivity.
  - destruct (e =? 0); reflexivity.
  - unfold strided_count. destruct (e =? 0) eqn:E0; [reflexivity|]. apply Z.eqb_neq in E0.
    rewrite Z.quot_div_nonneg by lia. rewrite szw_id; [reflexivity|].
    assert (0 <= (e - 1) / d <= e - 1) by (split; [apply Z.div_pos; lia | apply Z.div_le_upper_bound; nia]). lia.
Qed.

Lemma strided_static_agrees : forall s, 0 <= bval (ss_extent s) < 2 ^ 63 -> 0 < bval (ss_stride s) ->
  static_agrees (strided_static s) (strided_count (bval (ss_extent s)) (bval (ss_stride s))).
Proof.
  intros s He Hd. rewrite strided_static_eq by assumption.
  destruct s as [o [e|e] [d|d]]; cbn [strided_static_spec ss_extent ss_stride bval] in *.
  - left; reflexivity.
  - left; reflexivity.
  - unfold strided_count. destruct (e =? 0); [right|left]; reflexivity.
  - right; reflexivity.
Qed.

(* static only when the extent is a constant, and then only when it is 0 or the stride is a constant too *)
Lemma strided_static_none : forall s, is_const (ss_extent s) = false -> strided_static s = None.
Proof. intros [o [e|e] d] H; [reflexivity | discriminate H]. Qed.

(** * the seeded behaviour is excluded: `or` instead of `and` gives a static extent that disagrees *)
Definition pair_static_or (a b : bound) : option Z :=
  if is_const a || is_const b
  then Some (szw ((if is_const b then bval b else 0) - (if is_const a then bval a else 0))) else None.
Lemma pair_static_or_disagrees : ~ static_agrees (pair_static_or (BConst 2) (BRun 4)) (4 - 2).
Proof. intros [H|H]; vm_compute in H; discriminate H. Qed.

(* the sub-extents object as a whole: every static extent of its type is dynamic_extent or the extent it reports *)
Theorem sub_extents_m_static_agrees : forall t e sl, wf_ity t -> wf_ext t e ->
  Forall (fun po => match po with Some n => 0 <= n <= imax t | None => True end) (pat e) ->
  Forall2 mslice_ok sl (extents_list t e) ->
  exists r, sub_extents_m t e sl = Some r /\ Forall2 static_agrees (pat r) (extents_list t r).
Proof.
  intros t e sl Hwf Hwe Hp Hok.
  destruct (sub_extents_m_spec t e sl Hwf Hwe Hok) as [r [Hr [Hx [Hpat _]]]].
  exists r. split; [exact Hr|]. rewrite Hx, Hpat. apply msub_pattern_agrees.
  apply (ext_rel_agrees t); [exact Hwf | apply extents_rel; assumption | exact Hp].
Qed.
