(* C19 model: detail::submdspan_static_extent<K, Extents, Sk>() and the recursive builder of submdspan_extents for
   pair-like slices whose bounds are of mixed kind (executable mirror of include/etl/_mdspan/submdspan_extents.hpp). *)
From Tetl Require Import Lib.Base C19.Slices C19.SlicesMix C19.Model.
Local Open Scope Z_scope.

(* index_pair_like branch:
     if constexpr (integral_constant_like<FirstT> and integral_constant_like<SecondT>)
         return static_cast<size_t>(de_ice(SecondT()) - de_ice(FirstT()));
     ... return dynamic_extent;                                                        *)
Definition pair_static (a b : bound) : option Z :=
  if is_const a && is_const b then Some (szw (bval b - bval a)) else None.

(* is_strided_slice branch (after fix: the zero-extent case no longer asks for a run-time stride):
     if constexpr (integral_constant_like<ExtT> and ExtT() == 0) return 0;
     else if constexpr (integral_constant_like<ExtT> and integral_constant_like<StrideT>)
         return static_cast<size_t>(1 + (de_ice(ExtT()) - 1) / de_ice(StrideT()));      (C++ division truncates)
     ... return dynamic_extent;                                                        *)
Definition strided_static (s : sslice) : option Z :=
  if is_const (ss_extent s) && (bval (ss_extent s) =? 0) then Some 0
  else if is_const (ss_extent s) && is_const (ss_stride s)
       then Some (szw (1 + Z.quot (bval (ss_extent s) - 1) (bval (ss_stride s))))
       else None.

(* submdspan_static_extent for the slice specifier of a dimension whose source static extent is [x] *)
Definition sub_static (x : option Z) (s : mslice) : option Z :=
  match s with
  | MFull => x
  | MIndex _ => None                 (* never asked: the builder drops the dimension *)
  | MPair a b => pair_static a b
  end.

(* the builder: NewExtents..., newStaticExt for a pair-like slice, and the run-time value
   static_cast<IndexT>(static_cast<IndexT>(get<1>(slice)) - static_cast<IndexT>(get<0>(slice)))
   whatever the kind of the two bounds (an integral constant converts to its value) *)
Fixpoint subm_pat (sl : list mslice) (p : pattern) : pattern :=
  match sl, p with
  | MFull :: sr, x :: r => x :: subm_pat sr r
  | MIndex _ :: sr, _ :: r => subm_pat sr r
  | MPair a b :: sr, _ :: r => pair_static a b :: subm_pat sr r
  | _, _ => []
  end.
Fixpoint subm_vals (t : ity) (sl : list mslice) (xs : list Z) : option (list Z) :=
  match sl, xs with
  | MFull :: sr, x :: r => do v <- subm_vals t sr r; Some (x :: v)
  | MIndex _ :: sr, _ :: r => subm_vals t sr r
  | MPair a b :: sr, _ :: r =>
      do d <- aop t (cast t (bval b) - cast t (bval a));
      do v <- subm_vals t sr r;
      Some (cast t d :: v)
  | _, _ => Some []
  end.
(* finally extents<IndexT, NewStatic...>(newExts...): a static position ignores the value passed for it *)
Definition sub_extents_m (t : ity) (e : extents) (sl : list mslice) : option extents :=
  do v <- subm_vals t sl (extents_list t e); Some (ext_from_pack t (subm_pat sl (pat e)) v).
