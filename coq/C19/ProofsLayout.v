(* C19 proofs, part 4: the layout mappings of the model compute the closed forms, for any rank,
   any extents and any index type, whenever the size of the index space is representable. *)
From Tetl Require Import Lib.Base C19.Model C19.Spec C19.ProofsArith C19.ProofsExt C19.ProofsSpec.
Local Open Scope Z_scope.
Ltac Zify.zify_post_hook ::= Z.to_euclidean_division_equations.

(** * fwd_prod_of_extents / rev_prod_of_extents *)
Lemma szw_idem : forall x, szw (szw x) = szw x.
Proof. intros x. unfold szw. apply Z.mod_mod. lia. Qed.

Lemma fold_prod_step : forall t e l acc, szw acc = acc ->
  fold_left (prod_step t e) l acc = szw (acc * product (map (extent t e) l)).
Proof.
  intros t e. induction l as [|k r IH]; intros acc Hacc.
  - cbn. rewrite Z.mul_1_r. symmetry. exact Hacc.
  - cbn [fold_left map product]. rewrite IH by (unfold prod_step; apply szw_idem).
    unfold prod_step. rewrite szw_mul_l.
    replace (acc * szw (extent t e k) * product (map (extent t e) r))
      with (acc * product (map (extent t e) r) * szw (extent t e k)) by ring.
    rewrite szw_mul. f_equal. ring.
Qed.

Lemma firstn_seq' : forall n a len, (n <= len)%nat -> firstn n (seq a len) = seq a n.
Proof.
  induction n as [|n IH]; intros a len H; [reflexivity|].
  destruct len as [|len]; [lia|]. cbn [seq firstn]. f_equal. apply IH. lia.
Qed.

Lemma skipn_seq' : forall n a len, (n <= len)%nat -> skipn n (seq a len) = seq (a + n) (len - n).
Proof.
  induction n as [|n IH]; intros a len H.
  - cbn. rewrite Nat.add_0_r. rewrite Nat.sub_0_r. reflexivity.
  - destruct len as [|len]; [lia|]. cbn [seq skipn]. rewrite IH by lia.
    replace (S a + n)%nat with (a + S n)%nat by lia. reflexivity.
Qed.

Lemma fwd_prod_spec : forall t e i, (i <= rank e)%nat ->
  fwd_prod t e i = szw (product (firstn i (extents_list t e))).
Proof.
  intros t e i Hi. unfold fwd_prod. destruct (rank e =? 0)%nat eqn:H0.
  - apply Nat.eqb_eq in H0. assert (i = O) by lia. subst i. reflexivity.
  - rewrite fold_prod_step by reflexivity. rewrite Z.mul_1_l.
    unfold extents_list. rewrite firstn_map. rewrite firstn_seq' by exact Hi. reflexivity.
Qed.

Lemma rev_prod_spec : forall t e i, (i < rank e)%nat ->
  rev_prod t e i = szw (product (skipn (S i) (extents_list t e))).
Proof.
  intros t e i Hi. unfold rev_prod. rewrite fold_prod_step by reflexivity. rewrite Z.mul_1_l.
  unfold extents_list. rewrite skipn_map. rewrite skipn_seq' by lia. reflexivity.
Qed.

(* size() / required_span_size: the size of the index space when it is representable *)
Lemma lay_required_spec : forall l t e, wf_ity t ->
  0 <= product (extents_list t e) <= imax t ->
  lay_required l t e = product (extents_list t e).
Proof.
  intros l t e Hwf Hp. unfold lay_required. rewrite fwd_prod_spec by lia.
  rewrite <- (extents_list_length t e). rewrite firstn_all.
  assert (H64 := imax_lt_2_64 t Hwf). rewrite szw_id by lia. apply cast_id; assumption.
Qed.

(** * strides *)
Lemma lay_stride_raw_left : forall t e r, wf_ity t -> (r <= rank e)%nat ->
  0 <= stride_left (extents_list t e) r <= imax t ->
  lay_stride_raw LLeft t e r = stride_left (extents_list t e) r.
Proof.
  intros t e r Hwf Hr Hp. unfold lay_stride_raw, stride_left in *. rewrite fwd_prod_spec by exact Hr.
  assert (H64 := imax_lt_2_64 t Hwf). rewrite szw_id by lia. apply cast_id; assumption.
Qed.

Lemma lay_stride_raw_right : forall t e r, wf_ity t -> (r < rank e)%nat ->
  0 <= stride_right (extents_list t e) r <= imax t ->
  lay_stride_raw LRight t e r = stride_right (extents_list t e) r.
Proof.
  intros t e r Hwf Hr Hp. unfold lay_stride_raw, stride_right in *. rewrite rev_prod_spec by exact Hr.
  assert (H64 := imax_lt_2_64 t Hwf). rewrite szw_id by lia. apply cast_id; assumption.
Qed.

Definition spec_stride (l : layout) (xs : list Z) (r : nat) : Z :=
  match l with LLeft => stride_left xs r | LRight => stride_right xs r end.
Definition spec_strides (l : layout) (xs : list Z) : list Z :=
  match l with LLeft => strides_left xs | LRight => strides_right xs end.
Definition spec_offset (l : layout) (xs idx : list Z) : Z :=
  match l with LLeft => col_major xs idx | LRight => row_major xs idx end.

Lemma spec_stride_bounds : forall l xs r, Forall (fun x => 0 < x) xs ->
  0 < spec_stride l xs r <= product xs.
Proof.
  intros l xs r H. destruct l; unfold spec_stride, stride_left, stride_right.
  - apply product_firstn_le. exact H.
  - apply product_skipn_le. exact H.
Qed.

(* stride(r) is exact as soon as the closed-form stride itself is representable -- zero extents included
   (with a zero extent the size of the index space says nothing about the individual strides) *)
Lemma lay_stride_value : forall l t e r, wf_ity t -> (r < rank e)%nat ->
  0 <= spec_stride l (extents_list t e) r <= imax t ->
  lay_stride l t e r = Ok (spec_stride l (extents_list t e) r).
Proof.
  intros l t e r Hwf Hr Hs. unfold lay_stride.
  replace (r <? rank e)%nat with true by (symmetry; apply Nat.ltb_lt; exact Hr).
  f_equal. destruct l; [apply lay_stride_raw_left | apply lay_stride_raw_right]; unfold spec_stride in Hs; try assumption; lia.
Qed.

(* with positive extents and a representable size every stride is exact *)
Lemma lay_strides_spec : forall l t e, wf_ity t ->
  Forall (fun x => 0 < x) (extents_list t e) -> product (extents_list t e) <= imax t ->
  lay_strides l t e = spec_strides l (extents_list t e).
Proof.
  intros l t e Hwf Hpos Hp.
  transitivity (map (spec_stride l (extents_list t e)) (seq 0 (rank e))).
  - unfold lay_strides. apply map_ext_in. intros r Hr. apply in_seq in Hr.
    assert (B := spec_stride_bounds l _ r Hpos).
    destruct l; [apply lay_stride_raw_left | apply lay_stride_raw_right]; unfold spec_stride in B; try assumption; lia.
  - unfold spec_strides, strides_left, strides_right. rewrite extents_list_length. destruct l; reflexivity.
Qed.

Lemma lay_stride_spec : forall l t e r, wf_ity t -> (r < rank e)%nat ->
  Forall (fun x => 0 < x) (extents_list t e) -> product (extents_list t e) <= imax t ->
  lay_stride l t e r = Ok (spec_stride l (extents_list t e) r).
Proof.
  intros l t e r Hwf Hr Hpos Hp. unfold lay_stride.
  replace (r <? rank e)%nat with true by (symmetry; apply Nat.ltb_lt; exact Hr).
  assert (B := spec_stride_bounds l _ r Hpos).
  f_equal. destruct l; [apply lay_stride_raw_left | apply lay_stride_raw_right]; unfold spec_stride in B; try assumption; lia.
Qed.

(* stride(r) fires its precondition exactly for r >= rank *)
Lemma lay_stride_contract : forall l t e r, lay_stride l t e r = Contract <-> (rank e <= r)%nat.
Proof.
  intros l t e r. unfold lay_stride. destruct (r <? rank e)%nat eqn:H.
  - apply Nat.ltb_lt in H. split; [discriminate | lia].
  - apply Nat.ltb_ge in H. split; auto.
Qed.

(** * operator(): the fold in the promoted type never wraps and equals the sum of products *)
Lemma fold_terms_exact : forall t idx ss, wf_ity t ->
  Forall (fun i => 0 <= i <= imax t) idx -> Forall (fun s => 0 <= s) ss ->
  length idx = length ss -> dot idx ss <= imax t ->
  fold_terms t idx ss = Some (dot idx ss).
Proof.
  intros t idx ss Hwf Hi. revert ss. induction Hi as [|i ir Hi0 Hir IH]; intros ss Hs Hl Hd.
  - destruct ss; [reflexivity | discriminate].
  - destruct Hs as [|s sr Hs0 Hsr]; [discriminate|].
    cbn [fold_terms dot] in *.
    assert (Hrest : 0 <= dot ir sr).
    { apply dot_nonneg; [|exact Hsr]. rewrite Forall_forall in *. intros x Hx. apply Hir in Hx. lia. }
    assert (Hterm : 0 <= i * s) by nia.
    rewrite cast_id by assumption.
    unfold amul. rewrite aop_small by (try assumption; lia). cbn [obind].
    rewrite IH by (try assumption; try lia; cbn in Hl; lia). cbn [obind].
    unfold aadd. apply aop_small; [assumption | lia].
Qed.

Lemma spec_strides_length : forall l xs, length (spec_strides l xs) = length xs.
Proof.
  intros l xs. destruct l; unfold spec_strides, strides_left, strides_right; rewrite map_length; apply seq_length.
Qed.

Lemma spec_strides_nonneg : forall l xs, Forall (fun x => 0 < x) xs -> Forall (fun s => 0 <= s) (spec_strides l xs).
Proof.
  intros l xs H. rewrite Forall_forall. intros s Hs.
  assert (Hex : exists r, s = spec_stride l xs r).
  { destruct l; unfold spec_strides, strides_left, strides_right in Hs; apply in_map_iff in Hs;
      destruct Hs as [r [Hr _]]; exists r; symmetry; exact Hr. }
  destruct Hex as [r Hr]. subst s. assert (B := spec_stride_bounds l xs r H). lia.
Qed.

Lemma dot_spec_strides : forall l xs idx, length idx = length xs ->
  dot idx (spec_strides l xs) = spec_offset l xs idx.
Proof.
  intros l xs idx Hl. destruct l; [apply dot_strides_left | apply dot_strides_right]; exact Hl.
Qed.

Lemma spec_offset_bounds : forall l xs idx, in_range idx xs -> 0 <= spec_offset l xs idx < product xs.
Proof. intros l xs idx H. destruct l; [apply col_major_bounds | apply row_major_bounds]; exact H. Qed.

Lemma spec_offset_inj : forall l xs idx idx', in_range idx xs -> in_range idx' xs ->
  spec_offset l xs idx = spec_offset l xs idx' -> idx = idx'.
Proof. intros l xs idx idx' H H'. destruct l; [apply col_major_inj | apply row_major_inj]; assumption. Qed.

Lemma in_range_idx_bound : forall idx xs m, in_range idx xs -> product xs <= m ->
  Forall (fun i => 0 <= i <= m) idx.
Proof.
  intros idx xs m H. revert m. induction H as [|i x ir xr Hix Hr IH]; intros m Hm; [constructor|].
  cbn [product] in Hm. assert (Hp := product_pos _ (in_range_pos _ _ Hr)).
  constructor; [nia | apply IH; nia].
Qed.

(* MAIN: layout_left / layout_right operator() = the closed form, no wrap-around, no overflow *)
Theorem lay_map_formula : forall l t e idx, wf_ity t ->
  in_range idx (extents_list t e) -> product (extents_list t e) <= imax t ->
  lay_map l t e idx = Some (spec_offset l (extents_list t e) idx).
Proof.
  intros l t e idx Hwf Hin Hp. set (xs := extents_list t e) in *.
  assert (Hpos := in_range_pos _ _ Hin). assert (Hlen := in_range_length _ _ Hin).
  assert (B := spec_offset_bounds l _ _ Hin).
  unfold lay_map. rewrite lay_strides_spec by assumption. fold xs.
  rewrite fold_terms_exact.
  - cbn [obind]. rewrite dot_spec_strides by exact Hlen. rewrite cast_id by (try assumption; lia). reflexivity.
  - exact Hwf.
  - eapply in_range_idx_bound; eauto.
  - apply spec_strides_nonneg. exact Hpos.
  - rewrite spec_strides_length. exact Hlen.
  - rewrite dot_spec_strides by exact Hlen. lia.
Qed.

(* in bounds: every in-range multi-index is mapped inside [0, required_span_size) *)
Theorem lay_map_in_bounds : forall l t e idx, wf_ity t ->
  in_range idx (extents_list t e) -> product (extents_list t e) <= imax t ->
  exists o, lay_map l t e idx = Some o /\ 0 <= o < lay_required l t e.
Proof.
  intros l t e idx Hwf Hin Hp. exists (spec_offset l (extents_list t e) idx).
  split; [apply lay_map_formula; assumption|].
  assert (B := spec_offset_bounds l _ _ Hin).
  rewrite lay_required_spec; [exact B | exact Hwf | lia].
Qed.

(* injective on in-range multi-indices *)
Theorem lay_map_injective : forall l t e idx idx', wf_ity t ->
  in_range idx (extents_list t e) -> in_range idx' (extents_list t e) ->
  product (extents_list t e) <= imax t ->
  lay_map l t e idx = lay_map l t e idx' -> idx = idx'.
Proof.
  intros l t e idx idx' Hwf Hin Hin' Hp Heq.
  rewrite !lay_map_formula in Heq by assumption. inversion Heq as [Heq'].
  eapply spec_offset_inj; eauto.
Qed.

(* strides consistent with the mapping: operator() = sum of index * stride(r) *)
Theorem lay_map_strides : forall l t e idx, wf_ity t ->
  in_range idx (extents_list t e) -> product (extents_list t e) <= imax t ->
  lay_map l t e idx = Some (dot idx (lay_strides l t e)).
Proof.
  intros l t e idx Hwf Hin Hp. rewrite lay_map_formula by assumption.
  rewrite lay_strides_spec by (try assumption; eapply in_range_pos; eauto).
  rewrite dot_spec_strides by (eapply in_range_length; eauto). reflexivity.
Qed.
