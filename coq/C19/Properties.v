(* C19 property theorems (placeholder while the proofs are being written) *)
From Tetl Require Import Lib.Base C19.Model C19.Spec.
Local Open Scope Z_scope.
