(* C19 -- Multidimensional and contiguous views address exactly the elements they span.
   Property theorems only: each is closed by [exact] of a lemma proved in Proofs*.v, followed by
   Print Assumptions.  All statements quantify over EVERY rank (lists), EVERY static/dynamic pattern
   ([pattern = list (option Z)]), EVERY extent value and EVERY index type of 1..64 bits, signed or
   unsigned ([wf_ity t]); the only arithmetic hypothesis is the standard's: the size of the index
   space ([product] of the extents, resp. REQUIRED-SPAN-SIZE for layout_stride) is representable in
   the index type.  Model functions (Model.v) on the left, closed forms (Spec.v) on the right.
   Sections: extents (slots, constructors, operator==, products) -- layout_left/right -- layout_stride
   (formula, bounds, required_span_size, injectivity, canonical strides, default constructor) --
   layout_transpose -- mdspan/mdarray access (offsets and buffer contents), conversions,
   submdspan_extents (index / full / pair slices) -- span (first/last/subspan, algebra, as_bytes) --
   necessity of the hypotheses and totality for wide unsigned index types -- non-vacuity. *)
From Tetl Require Import Lib.Base C19.Slices C19.Model C19.Spec C19.ProofsArith C19.ProofsExt C19.ProofsSpec
  C19.ProofsLayout C19.ProofsMore C19.ProofsSpan C19.ProofsEnum C19.ProofsTop C19.ProofsSub C19.ProofsBuf C19.ProofsSpan2 C19.ProofsCanon C19.ProofsReq C19.ProofsConv.
From Coq Require Import Permutation.
Local Open Scope Z_scope.

(** * extents *)

(* _dynamic_index(i) counts the dynamic extents before position i, and the three `if constexpr`
   branches of extent(i) compute one and the same function *)
Theorem C19_dynamic_index : forall p i, dynamic_index p i = rank_dynamic (firstn i p).
Proof. exact dynamic_index_firstn. Qed.
Print Assumptions C19_dynamic_index.

Theorem C19_extent_branches : forall t e i, (i < rank e)%nat ->
  extent t e i = match static_extent (pat e) i with
                 | Some n => cast t n
                 | None => nth (dynamic_index (pat e) i) (dyn e) 0
                 end.
Proof. exact extent_general. Qed.
Print Assumptions C19_extent_branches.

(* memory safety of the dynamic-extents array: for every pattern, every position i with a dynamic extent is
   given a slot _dynamic_index(i) INSIDE array<IndexType, rank_dynamic()> (the stores of all constructors and the
   load of extent(i) go there), and two such positions never share a slot *)
Theorem C19_dynamic_slot_in_bounds : forall p i, (i < length p)%nat -> static_extent p i = None ->
  (dynamic_index p i < rank_dynamic p)%nat.
Proof. exact dynamic_slot_in_bounds. Qed.
Print Assumptions C19_dynamic_slot_in_bounds.

Theorem C19_dynamic_slot_injective : forall p i j, (i < j)%nat -> (j < length p)%nat ->
  static_extent p i = None -> (dynamic_index p i < dynamic_index p j)%nat.
Proof. exact dynamic_slot_injective. Qed.
Print Assumptions C19_dynamic_slot_injective.

(* all-extents constructors (N == rank): for EVERY pattern, extent(i) afterwards returns the value
   passed for dimension i (converted to the index type); static dimensions keep their static extent *)
Theorem C19_extents_ctor_all : forall t p vals, wf_ity t -> length vals = length p ->
  extents_list t (ext_from_pack t p vals) = map (cast t) (extents_all p vals)
  /\ extents_list t (ext_from_span t p vals) = map (cast t) (extents_all p vals).
Proof. intros t p vals Hwf Hl. split; [exact (ext_from_pack_all t p vals Hwf Hl) | exact (ext_from_span_all t p vals Hl)]. Qed.
Print Assumptions C19_extents_ctor_all.

(* dynamic-extents constructors (N == rank_dynamic) *)
Theorem C19_extents_ctor_dyn : forall t p vals, wf_ity t -> length vals = rank_dynamic p ->
  extents_list t (ext_from_pack t p vals) = map (cast t) (extents_dyn p vals)
  /\ extents_list t (ext_from_span t p vals) = map (cast t) (extents_dyn p vals).
Proof. intros t p vals Hwf Hl. split; [exact (ext_from_pack_dyn t p vals Hwf Hl) | exact (ext_from_span_dyn t p vals Hl)]. Qed.
Print Assumptions C19_extents_ctor_dyn.

(* under the preconditions of [mdspan.extents.cons] (values representable, equal to the static
   extents where those exist) the object's extents are exactly the values passed *)
Theorem C19_extents_ctor_std : forall t p vals, wf_ity t -> agrees p vals -> Forall (representable t) vals ->
  extents_list t (ext_from_pack t p vals) = vals /\ extents_list t (ext_from_span t p vals) = vals.
Proof. exact ctor_all_std. Qed.
Print Assumptions C19_extents_ctor_std.

Theorem C19_extents_ctor_dyn_std : forall t p vals, wf_ity t -> length vals = rank_dynamic p ->
  Forall (representable t) (extents_dyn p vals) ->
  extents_list t (ext_from_pack t p vals) = extents_dyn p vals
  /\ extents_list t (ext_from_span t p vals) = extents_dyn p vals.
Proof. exact ctor_dyn_std. Qed.
Print Assumptions C19_extents_ctor_dyn_std.

Theorem C19_extents_default : forall t p, wf_ity t ->
  extents_list t (ext_default p) = map (cast t) (extents_dyn p []).
Proof. exact ext_default_list. Qed.
Print Assumptions C19_extents_default.

(* converting constructor, any source/destination patterns and index types *)
Theorem C19_extents_convert : forall t p t' e', rank e' = length p ->
  extents_list t (ext_convert t p t' e') = map (cast t) (extents_all p (extents_list t' e')).
Proof. exact ext_convert_list. Qed.
Print Assumptions C19_extents_convert.

Theorem C19_extents_convert_std : forall t p t' e', wf_ity t -> rank e' = length p ->
  agrees p (extents_list t' e') -> Forall (representable t) (extents_list t' e') ->
  extents_list t (ext_convert t p t' e') = extents_list t' e'.
Proof. exact ctor_convert_std. Qed.
Print Assumptions C19_extents_convert_std.

(* the explicit-specifier of the converting constructor ([conv_implicit] = the conversion is implicit; inherited by the
   same-layout mapping conversions, the conversions to layout_stride (fix 9041fd5) and the mdspan conversion): whenever
   the language performs the conversion silently -- and the requires-clause (compatible static extents) and the
   Mandates (static extents representable) hold -- the destination has exactly the extents of the source; and where
   the specifier says `explicit` an admissible source object can indeed be changed by the conversion *)
Theorem C19_implicit_conversion_lossless : forall t p t' e', wf_ity t -> wf_ity t' ->
  compatible p (pat e') -> statics_representable t' (pat e') ->
  conv_implicit t p t' (pat e') = true ->
  Forall (representable t') (extents_list t' e') ->
  extents_list t (ext_convert t p t' e') = extents_list t' e'.
Proof. exact implicit_conversion_lossless. Qed.
Print Assumptions C19_implicit_conversion_lossless.

Theorem C19_explicit_conversion_can_lose :
  (conv_implicit i8 [None] u64 [None] = false
   /\ extents_list i8 (ext_convert i8 [None] u64 (ext_from_pack u64 [None] [300])) = [44])
  /\ (conv_implicit i32 [Some 3] i32 [None] = false
      /\ extents_list i32 (ext_convert i32 [Some 3] i32 (ext_from_pack i32 [None] [5])) = [3]).
Proof. exact explicit_conversion_can_lose. Qed.
Print Assumptions C19_explicit_conversion_can_lose.

(* every constructor leaves exactly rank_dynamic values of the index type in the dynamic array *)
Theorem C19_extents_wf : forall t p vals t' e', wf_ity t ->
  wf_ext t (ext_default p)
  /\ (length vals = rank_dynamic p \/ length vals = length p -> wf_ext t (ext_from_span t p vals))
  /\ wf_ext t (ext_convert t p t' e').
Proof.
  intros t p vals t' e' Hwf.
  exact (conj (ext_default_wf t p Hwf) (conj (ext_from_span_wf t p vals Hwf) (ext_convert_wf t p t' e' Hwf))).
Qed.
Print Assumptions C19_extents_wf.

(* operator== (also between different index types and patterns; the layout_left/right mappings compare
   their extents with it): true exactly when rank and all extents agree *)
Theorem C19_extents_eq : forall t1 e1 t2 e2,
  ext_eqb t1 e1 t2 e2 = true <-> extents_list t1 e1 = extents_list t2 e2.
Proof. exact ext_eqb_spec. Qed.
Print Assumptions C19_extents_eq.

(* fwd_prod_of_extents / rev_prod_of_extents: the product of the leading / trailing extents mod 2^64 *)
Theorem C19_products : forall t e i,
  ((i <= rank e)%nat -> fwd_prod t e i = szw (product (firstn i (extents_list t e))))
  /\ ((i < rank e)%nat -> rev_prod t e i = szw (product (skipn (S i) (extents_list t e)))).
Proof. intros t e i. exact (conj (fwd_prod_spec t e i) (rev_prod_spec t e i)). Qed.
Print Assumptions C19_products.

(** * layout_left / layout_right *)

(* operator() equals the column-/row-major Horner formula; no wrap-around of the index type and no
   signed overflow in the promoted arithmetic ([Some]) *)
Theorem C19_layout_formula : forall l t e idx, wf_ity t ->
  in_range idx (extents_list t e) -> product (extents_list t e) <= imax t ->
  lay_map l t e idx = Some (match l with
                            | LLeft => col_major (extents_list t e) idx
                            | LRight => row_major (extents_list t e) idx
                            end).
Proof. exact lay_map_formula. Qed.
Print Assumptions C19_layout_formula.

Theorem C19_layout_in_bounds : forall l t e idx, wf_ity t ->
  in_range idx (extents_list t e) -> product (extents_list t e) <= imax t ->
  exists o, lay_map l t e idx = Some o /\ 0 <= o < lay_required l t e.
Proof. exact lay_map_in_bounds. Qed.
Print Assumptions C19_layout_in_bounds.

Theorem C19_layout_injective : forall l t e idx idx', wf_ity t ->
  in_range idx (extents_list t e) -> in_range idx' (extents_list t e) ->
  product (extents_list t e) <= imax t ->
  lay_map l t e idx = lay_map l t e idx' -> idx = idx'.
Proof. exact lay_map_injective. Qed.
Print Assumptions C19_layout_injective.

Theorem C19_required_span_size : forall l t e, wf_ity t ->
  0 <= product (extents_list t e) <= imax t -> lay_required l t e = product (extents_list t e).
Proof. exact lay_required_spec. Qed.
Print Assumptions C19_required_span_size.

(* stride(r) is the product of the leading (left) / trailing (right) extents, the mapping is the sum
   of index * stride, and stride(r) fires its precondition exactly for r >= rank *)
Theorem C19_layout_strides : forall l t e idx, wf_ity t ->
  in_range idx (extents_list t e) -> product (extents_list t e) <= imax t ->
  lay_map l t e idx = Some (dot idx (lay_strides l t e))
  /\ forall r, (r < rank e)%nat ->
       lay_stride l t e r = Ok (match l with
                                | LLeft => stride_left (extents_list t e) r
                                | LRight => stride_right (extents_list t e) r
                                end).
Proof.
  intros l t e idx Hwf Hin Hp. split; [exact (lay_map_strides l t e idx Hwf Hin Hp)|].
  intros r Hr. exact (lay_stride_spec l t e r Hwf Hr (in_range_pos _ _ Hin) Hp).
Qed.
Print Assumptions C19_layout_strides.

(* the strides of shapes WITH a zero extent (no multi-index exists, so C19_layout_strides says nothing about them):
   stride(r) is the closed form whenever that closed form is representable *)
Theorem C19_layout_stride_values : forall l t e r, wf_ity t -> (r < rank e)%nat ->
  0 <= spec_stride l (extents_list t e) r <= imax t ->
  lay_stride l t e r = Ok (spec_stride l (extents_list t e) r).
Proof. exact lay_stride_value. Qed.
Print Assumptions C19_layout_stride_values.

Theorem C19_stride_contract : forall l t e r, lay_stride l t e r = Contract <-> (rank e <= r)%nat.
Proof. exact lay_stride_contract. Qed.
Print Assumptions C19_stride_contract.

(* exactly the elements spanned: layout_right sends the multi-indices, in index order, to
   0, 1, ..., size-1; layout_left sends them to a permutation of the same offsets *)
Theorem C19_layout_right_enumerates : forall t e, wf_ity t ->
  Forall (fun x => 0 <= x) (extents_list t e) -> product (extents_list t e) <= imax t ->
  map (lay_map LRight t e) (all_indices (extents_list t e))
  = map Some (zrange_from 0 (Z.to_nat (product (extents_list t e)))).
Proof. exact lay_right_enumerates. Qed.
Print Assumptions C19_layout_right_enumerates.

Theorem C19_layout_left_permutes : forall t e, wf_ity t ->
  Forall (fun x => 0 <= x) (extents_list t e) -> product (extents_list t e) <= imax t ->
  Permutation (map (lay_map LLeft t e) (all_indices (extents_list t e)))
              (map Some (zrange_from 0 (Z.to_nat (product (extents_list t e))))).
Proof. exact lay_left_permutes. Qed.
Print Assumptions C19_layout_left_permutes.

Theorem C19_all_indices_complete : forall xs idx, In idx (all_indices xs) <-> in_range idx xs.
Proof. exact all_indices_complete. Qed.
Print Assumptions C19_all_indices_complete.

(** * layout_stride *)
Theorem C19_layout_stride_formula : forall t e ss idx, wf_ity t -> wf_ext t e ->
  in_range idx (extents_list t e) -> length ss = rank e ->
  Forall (fun s => 0 <= s <= imax t) ss -> span_max (extents_list t e) ss <= imax t ->
  strided_map t (strided_ctor t e ss) idx = Some (dot idx ss).
Proof. exact strided_map_formula. Qed.
Print Assumptions C19_layout_stride_formula.

Theorem C19_layout_stride_in_bounds : forall t e ss idx, wf_ity t -> wf_ext t e ->
  in_range idx (extents_list t e) -> length ss = rank e ->
  Forall (fun s => 0 <= s <= imax t) ss -> span_max (extents_list t e) ss <= imax t ->
  exists o, strided_map t (strided_ctor t e ss) idx = Some o
            /\ 0 <= o < stride_required (extents_list t e) ss.
Proof. exact strided_map_in_bounds. Qed.
Print Assumptions C19_layout_stride_in_bounds.

(* required_span_size() of the strided mapping (the member defined by fix 2c4c8ad) is REQUIRED-SPAN-SIZE of
   [mdspan.layout.stride.expo] whenever that is representable -- zero extents included, no overflow on the way;
   with C19_layout_stride_in_bounds: every offset lies below the mapping's own required_span_size() *)
Theorem C19_layout_stride_required : forall t e ss, wf_ity t -> wf_ext t e ->
  Forall (fun x => 0 <= x) (extents_list t e) ->
  Forall (fun s => 0 <= s <= imax t) ss ->
  stride_required (extents_list t e) ss <= imax t ->
  strided_required t (strided_ctor t e ss) = Some (stride_required (extents_list t e) ss).
Proof. exact strided_required_spec. Qed.
Print Assumptions C19_layout_stride_required.

Theorem C19_layout_stride_stride : forall t e ss r, wf_ity t -> length ss = rank e ->
  (strided_stride (strided_ctor t e ss) r = Contract <-> (rank e <= r)%nat)
  /\ ((r < rank e)%nat -> strided_stride (strided_ctor t e ss) r = Ok (cast t (nth r ss 0))).
Proof. exact strided_stride_spec. Qed.
Print Assumptions C19_layout_stride_stride.

Theorem C19_layout_stride_access_below_required : forall t e ss idx, wf_ity t -> wf_ext t e ->
  in_range idx (extents_list t e) -> length ss = rank e ->
  Forall (fun s => 0 <= s <= imax t) ss -> stride_required (extents_list t e) ss <= imax t ->
  exists o rq, strided_map t (strided_ctor t e ss) idx = Some o
               /\ strided_required t (strided_ctor t e ss) = Some rq
               /\ 0 <= o < rq.
Proof. exact strided_access_below_required. Qed.
Print Assumptions C19_layout_stride_access_below_required.

(* injective under the uniqueness precondition of [mdspan.layout.stride.cons]: positive strides and
   a permutation of the dimensions along which stride >= previous stride * previous extent *)
Theorem C19_layout_stride_injective : forall t e ss idx idx', wf_ity t -> wf_ext t e ->
  in_range idx (extents_list t e) -> in_range idx' (extents_list t e) ->
  unique_strides (extents_list t e) ss ->
  Forall (fun s => s <= imax t) ss -> span_max (extents_list t e) ss <= imax t ->
  strided_map t (strided_ctor t e ss) idx = strided_map t (strided_ctor t e ss) idx' -> idx = idx'.
Proof. exact strided_map_injective. Qed.
Print Assumptions C19_layout_stride_injective.

(* the uniqueness condition is met by the strides of the contiguous layouts for every shape without a zero
   extent: layout_right's strides are already ordered, layout_left's in reverse *)
Theorem C19_contiguous_strides_unique : forall xs, Forall (fun x => 0 < x) xs ->
  unique_strides xs (strides_right xs) /\ unique_strides xs (strides_left xs).
Proof. exact canonical_strides_unique. Qed.
Print Assumptions C19_contiguous_strides_unique.

(* a layout_stride mapping constructed from the strides of a layout_left / layout_right mapping is that mapping
   (same strides, same offsets, for every argument) *)
Theorem C19_layout_stride_of_contiguous : forall l t e idx, wf_ity t ->
  strided_map t (strided_ctor t e (lay_strides l t e)) idx = lay_map l t e idx
  /\ st_strides (strided_ctor t e (lay_strides l t e)) = lay_strides l t e.
Proof. exact strided_of_contiguous. Qed.
Print Assumptions C19_layout_stride_of_contiguous.

(* the default-constructed layout_stride mapping (the code after fix d746fe9) has the default extents, the strides
   of layout_right over them and therefore layout_right's offsets *)
Theorem C19_layout_stride_default : forall t p idx, wf_ity t ->
  st_ext (strided_default t p) = ext_default p
  /\ st_strides (strided_default t p) = lay_strides LRight t (ext_default p)
  /\ strided_map t (strided_default t p) idx = lay_map LRight t (ext_default p) idx.
Proof. exact strided_default_spec. Qed.
Print Assumptions C19_layout_stride_default.

(* the conversions between layouts (the members defined by fixes 489f446, 54b4c1a, 4b7dc8a): a layout_stride
   mapping constructed from a layout_left / layout_right mapping has its extents, strides and offsets (for every
   argument), and converting that back gives the extents again; conversions that also change the extents type go
   through the converting extents constructor (C19_extents_convert, C19_mapping_conversion) *)
Theorem C19_layout_conversions_roundtrip : forall l t e idx, wf_ity t -> wf_ext t e ->
  let m := strided_of_layout l t (pat e) t e in
  extents_list t (st_ext m) = extents_list t e
  /\ st_strides m = lay_strides l t e
  /\ strided_map t m idx = lay_map l t e idx
  /\ extents_list t (layout_of_strided t (pat e) t m) = extents_list t e.
Proof. exact layout_conversions_roundtrip. Qed.
Print Assumptions C19_layout_conversions_roundtrip.

(** * layout_transpose *)
Theorem C19_transpose_formula : forall l t ne i j, wf_ity t -> rank ne = 2%nat ->
  in_range [i; j] (rev (extents_list t ne)) -> product (extents_list t ne) <= imax t ->
  tr_map l t ne i j = Some (spec_offset (flip l) (rev (extents_list t ne)) [i; j])
  /\ 0 <= spec_offset (flip l) (rev (extents_list t ne)) [i; j] < tr_required l t ne.
Proof. exact tr_map_formula. Qed.
Print Assumptions C19_transpose_formula.

Theorem C19_transpose_injective : forall l t ne i j i' j', wf_ity t -> rank ne = 2%nat ->
  in_range [i; j] (rev (extents_list t ne)) -> in_range [i'; j'] (rev (extents_list t ne)) ->
  product (extents_list t ne) <= imax t ->
  tr_map l t ne i j = tr_map l t ne i' j' -> i = i' /\ j = j'.
Proof. exact tr_map_injective. Qed.
Print Assumptions C19_transpose_injective.

Theorem C19_transpose_extents : forall t ne, wf_ity t -> wf_ext t ne -> rank ne = 2%nat ->
  extents_list t (tr_extents t ne) = rev (extents_list t ne).
Proof. exact tr_extents_spec. Qed.
Print Assumptions C19_transpose_extents.

Theorem C19_transpose_stride : forall l t ne, wf_ity t -> rank ne = 2%nat ->
  Forall (fun x => 0 < x) (extents_list t ne) -> product (extents_list t ne) <= imax t ->
  tr_stride l t ne 0 = Ok (spec_stride l (extents_list t ne) 1)
  /\ tr_stride l t ne 1 = Ok (spec_stride l (extents_list t ne) 0)
  /\ forall r, (2 <= r)%nat -> tr_stride l t ne r = Contract.
Proof. exact tr_stride_spec. Qed.
Print Assumptions C19_transpose_stride.

Theorem C19_transpose_stride_values : forall l t ne, wf_ity t -> rank ne = 2%nat ->
  0 <= spec_stride l (extents_list t ne) 0 <= imax t -> 0 <= spec_stride l (extents_list t ne) 1 <= imax t ->
  tr_stride l t ne 0 = Ok (spec_stride l (extents_list t ne) 1)
  /\ tr_stride l t ne 1 = Ok (spec_stride l (extents_list t ne) 0).
Proof. exact tr_stride_value. Qed.
Print Assumptions C19_transpose_stride_values.

(** * mdspan / mdarray element access, conversions, submdspan_extents *)
(* the element referenced is data[closed form], inside [0, size()); an mdarray's container has
   exactly size() elements *)
Theorem C19_mdspan_access : forall l t e idx, wf_ity t -> wf_ext t e ->
  in_range idx (extents_list t e) -> product (extents_list t e) <= imax t ->
  mds_offset l t e idx = Some (spec_offset l (extents_list t e) idx)
  /\ 0 <= spec_offset l (extents_list t e) idx < mds_size t e
  /\ mds_size t e = product (extents_list t e)
  /\ mda_container_size l t e = product (extents_list t e).
Proof. exact mds_offset_formula. Qed.
Print Assumptions C19_mdspan_access.

(* exactly the elements spanned, at the level of the buffer: reading an mdspan<T, E, layout_right> at every
   multi-index, in index order, yields the first size() elements of the buffer in order; layout_left yields a
   permutation of the same elements (each exactly once); no in-range access leaves the buffer *)
Theorem C19_mdspan_reads_prefix : forall (A : Type) (buf : list A) t e, wf_ity t -> wf_ext t e ->
  Forall (fun x => 0 <= x) (extents_list t e) -> product (extents_list t e) <= imax t ->
  product (extents_list t e) <= Z.of_nat (length buf) ->
  map (mds_get buf LRight t e) (all_indices (extents_list t e))
  = map Some (firstn (Z.to_nat (product (extents_list t e))) buf).
Proof. exact mds_right_reads_prefix. Qed.
Print Assumptions C19_mdspan_reads_prefix.

Theorem C19_mdspan_left_reads_permutation : forall (A : Type) (buf : list A) t e, wf_ity t -> wf_ext t e ->
  Forall (fun x => 0 <= x) (extents_list t e) -> product (extents_list t e) <= imax t ->
  product (extents_list t e) <= Z.of_nat (length buf) ->
  Permutation (map (mds_get buf LLeft t e) (all_indices (extents_list t e)))
              (map Some (firstn (Z.to_nat (product (extents_list t e))) buf)).
Proof. exact mds_left_reads_permutation. Qed.
Print Assumptions C19_mdspan_left_reads_permutation.

Theorem C19_mdspan_access_inside_buffer : forall (A : Type) (buf : list A) l t e idx, wf_ity t -> wf_ext t e ->
  in_range idx (extents_list t e) -> product (extents_list t e) <= imax t ->
  product (extents_list t e) <= Z.of_nat (length buf) ->
  exists a, mds_get buf l t e idx = Some a
            /\ nth_error buf (Z.to_nat (spec_offset l (extents_list t e) idx)) = Some a.
Proof. exact mds_get_inside. Qed.
Print Assumptions C19_mdspan_access_inside_buffer.

(* mdarray over a layout_stride mapping, exhaustive or not: the container every container-creating constructor builds
   (mdarray(mapping), mdarray(mapping, value)) has exactly REQUIRED-SPAN-SIZE elements and every in-range element access
   stays inside it; size() elements would not be enough (witness: 2 x 3 with strides (4, 1)) *)
Theorem C19_mdarray_strided_inside_container : forall t e ss idx, wf_ity t -> wf_ext t e ->
  in_range idx (extents_list t e) -> length ss = rank e ->
  Forall (fun s => 0 <= s <= imax t) ss -> stride_required (extents_list t e) ss <= imax t ->
  exists o, strided_map t (strided_ctor t e ss) idx = Some o
            /\ mda_strided_container_size t (strided_ctor t e ss) = Some (stride_required (extents_list t e) ss)
            /\ 0 <= o < stride_required (extents_list t e) ss.
Proof. exact mdarray_strided_inside_container. Qed.
Print Assumptions C19_mdarray_strided_inside_container.

Theorem C19_mdarray_strided_needs_required_span :
  let e := ext_from_pack i32 [None; None] [2; 3] in
  let m := strided_ctor i32 e [4; 1] in
  mds_size i32 e = 6 /\ mda_strided_container_size i32 m = Some 7 /\ strided_map i32 m [1; 2] = Some 6.
Proof. exact mdarray_strided_needs_required_span. Qed.
Print Assumptions C19_mdarray_strided_needs_required_span.

Theorem C19_mapping_conversion : forall l t1 e1 t2 e2 idx, wf_ity t1 -> wf_ity t2 ->
  extents_list t2 e2 = extents_list t1 e1 -> in_range idx (extents_list t1 e1) ->
  product (extents_list t1 e1) <= imax t1 -> product (extents_list t1 e1) <= imax t2 ->
  lay_map l t2 e2 idx = lay_map l t1 e1 idx.
Proof. exact lay_map_extents_only. Qed.
Print Assumptions C19_mapping_conversion.

Theorem C19_left_right_rank1 : forall xs idx, (length xs <= 1)%nat -> length idx = length xs ->
  col_major xs idx = row_major xs idx.
Proof. exact left_right_rank1. Qed.
Print Assumptions C19_left_right_rank1.

Theorem C19_submdspan_extents : forall t e sl, wf_ity t -> wf_ext t e ->
  extents_list t (sub_extents t e sl) = keep_full sl (extents_list t e)
  /\ pat (sub_extents t e sl) = keep_full sl (pat e).
Proof. exact sub_extents_spec. Qed.
Print Assumptions C19_submdspan_extents.

(* the same with pair-like slices (first, last) of run-time values (the code after fix 857745d): for every
   rank, pattern, index type and slice choice meeting the precondition of [mdspan.sub.extents]
   (0 <= first <= last <= extent, 0 <= index < extent) the builder does not overflow and returns a well-formed
   extents object with exactly the kept dimensions: extent and static-ness of the full_extent ones,
   last - first with a dynamic extent for the pairs of run-time values, last - first with the static extent
   last - first for the pairs of integral constants (the code after fix 4c4e37b) *)
Theorem C19_submdspan_extents_pairs : forall t e sl, wf_ity t -> wf_ext t e ->
  Forall2 slice_ok sl (extents_list t e) ->
  exists r, sub_extents_p t e sl = Some r
            /\ extents_list t r = sub_shape sl (extents_list t e)
            /\ pat r = sub_pattern sl (pat e)
            /\ wf_ext t r.
Proof. exact sub_extents_p_spec. Qed.
Print Assumptions C19_submdspan_extents_pairs.

(* first_ / last_ of [mdspan.sub.helpers] (detail::submdspan_first / submdspan_last, instantiable for every dimension
   since fix 9ae67a4): under the precondition of [mdspan.sub.extents] they return the standard's values without
   overflow, delimit a range inside the source dimension, and its length is the extent submdspan_extents keeps *)
Theorem C19_submdspan_first_last : forall t x s, wf_ity t -> 0 <= x <= imax t -> slice_ok s x ->
  sub_first t s = first_ s /\ sub_last t x s = Some (last_ x s)
  /\ 0 <= first_ s <= last_ x s /\ last_ x s <= x
  /\ match s with
     | SlIndex _ => last_ x s - first_ s = 1
     | _ => [last_ x s - first_ s] = sub_shape [s] [x]
     end.
Proof. exact sub_first_last_spec. Qed.
Print Assumptions C19_submdspan_first_last.

(** * span *)
(* subspan(offset, count): offset + count <= size -> exactly those elements of the parent, inside it *)
Theorem C19_span_subspan : forall (A : Type) (buf : list A) s o c, sp_valid buf s -> 0 <= o -> 0 <= c ->
  o + c <= s_size s ->
  exists r, sp_sub_d s o (Some c) = Ok r /\ sp_elems buf r = sub_range (sp_elems buf s) o c
            /\ s_size r = c /\ s_ext r = None /\ sp_within r s /\ sp_valid buf r.
Proof. exact sp_sub_d_count. Qed.
Print Assumptions C19_span_subspan.

Theorem C19_span_subspan_rest : forall (A : Type) (buf : list A) s o, sp_valid buf s -> 0 <= o <= s_size s ->
  exists r, sp_sub_d s o None = Ok r
            /\ sp_elems buf r = sub_range (sp_elems buf s) o (s_size s - o)
            /\ s_size r = s_size s - o /\ s_ext r = None /\ sp_within r s /\ sp_valid buf r.
Proof. exact sp_sub_d_rest. Qed.
Print Assumptions C19_span_subspan_rest.

Theorem C19_span_subspan_contract : forall s o c, 0 <= s_size s < 18446744073709551616 -> 0 <= o ->
  (sp_sub_d s o c = Contract <->
   ~ (o <= s_size s /\ match c with Some n => n <= s_size s - o | None => True end)).
Proof. exact sp_sub_d_contract. Qed.
Print Assumptions C19_span_subspan_contract.

Theorem C19_span_first : forall (A : Type) (buf : list A) s c, sp_valid buf s -> 0 <= c ->
  (c <= s_size s ->
   exists r, sp_first_d s c = Ok r /\ sp_elems buf r = sub_range (sp_elems buf s) 0 c
             /\ s_size r = c /\ sp_within r s)
  /\ (s_size s < c -> sp_first_d s c = Contract).
Proof. exact sp_first_d_spec. Qed.
Print Assumptions C19_span_first.

Theorem C19_span_last : forall (A : Type) (buf : list A) s c, sp_valid buf s -> 0 <= c ->
  (c <= s_size s ->
   exists r, sp_last_d s c = Ok r /\ sp_elems buf r = sub_range (sp_elems buf s) (s_size s - c) c
             /\ s_size r = c /\ sp_within r s)
  /\ (s_size s < c -> sp_last_d s c = Contract).
Proof. exact sp_last_d_spec. Qed.
Print Assumptions C19_span_last.

(* compile-time forms first<C>() / last<C>() / subspan<O, C>() incl. the static extent of the result; on a span of
   dynamic extent the count is checked at run time (TETL_PRECONDITIONs added by the review's fix commit): the
   precondition fires exactly outside [span.sub]'s domain *)
Theorem C19_span_first_static : forall (A : Type) (buf : list A) s c, sp_valid buf s -> 0 <= c ->
  (c <= s_size s ->
   exists r, sp_first_s s c = Ok r /\ sp_elems buf r = sub_range (sp_elems buf s) 0 c
             /\ s_size r = c /\ s_ext r = Some c /\ sp_within r s)
  /\ (s_size s < c -> sp_first_s s c = Contract).
Proof. exact sp_first_s_spec. Qed.
Print Assumptions C19_span_first_static.

Theorem C19_span_last_static : forall (A : Type) (buf : list A) s c, sp_valid buf s -> 0 <= c ->
  (c <= s_size s ->
   exists r, sp_last_s s c = Ok r /\ sp_elems buf r = sub_range (sp_elems buf s) (s_size s - c) c
             /\ s_size r = c /\ s_ext r = Some c /\ sp_within r s)
  /\ (s_size s < c -> sp_last_s s c = Contract).
Proof. exact sp_last_s_spec. Qed.
Print Assumptions C19_span_last_static.

Theorem C19_span_subspan_static : forall (A : Type) (buf : list A) s o c,
  sp_valid buf s -> sp_consistent s -> 0 <= o <= s_size s ->
  match c with Some n => 0 <= n <= s_size s - o | None => True end ->
  let cnt := match c with Some n => n | None => s_size s - o end in
  exists r, sp_sub_s s o c = Ok r
  /\ sp_elems buf r = sub_range (sp_elems buf s) o cnt /\ s_size r = cnt /\ sp_within r s
  /\ s_ext r = match c with
               | Some n => Some n
               | None => match s_ext s with Some x => Some (x - o) | None => None end
               end
  /\ sp_consistent r.
Proof. exact sp_sub_s_spec. Qed.
Print Assumptions C19_span_subspan_static.

Theorem C19_span_subspan_static_contract : forall s o c, 0 <= s_size s < 18446744073709551616 -> 0 <= o ->
  (sp_sub_s s o c = Contract <->
   ~ (o <= s_size s /\ match c with Some n => n <= s_size s - o | None => True end)).
Proof. exact sp_sub_s_contract. Qed.
Print Assumptions C19_span_subspan_static_contract.

Theorem C19_span_index : forall s i, 0 <= i ->
  (i < s_size s -> sp_index s i = Ok (s_off s + i)) /\ (s_size s <= i -> sp_index s i = Contract).
Proof. exact sp_index_spec. Qed.
Print Assumptions C19_span_index.

(* the span constructors (pointer + count, sized range, other span) with the precondition added by fix 721a088: on a
   span type of static extent a count different from the extent fires the precondition, otherwise the span is
   exactly [ptr, ptr + count); the results of first/last/subspan/as_bytes (all sp_consistent) always pass it *)
Theorem C19_span_ctor : forall ext ptr sz,
  (sp_ctor ext ptr sz = Contract <-> exists n, ext = Some n /\ sz <> n)
  /\ (forall r, sp_ctor ext ptr sz = Ok r -> s_off r = ptr /\ s_size r = sz /\ s_ext r = ext /\ sp_consistent r)
  /\ (forall r, sp_consistent r -> sp_ctor (s_ext r) (s_off r) (s_size r) = Ok r).
Proof.
  intros ext ptr sz. destruct (sp_ctor_spec ext ptr sz) as [H1 H2].
  exact (conj H1 (conj H2 sp_ctor_internal)).
Qed.
Print Assumptions C19_span_ctor.

Theorem C19_span_front_back : forall s, 0 <= s_size s ->
  (sp_front s = Contract <-> s_size s = 0) /\ (sp_back s = Contract <-> s_size s = 0)
  /\ (0 < s_size s -> sp_front s = sp_index s 0 /\ sp_back s = sp_index s (s_size s - 1)
                      /\ sp_front s = Ok (s_off s) /\ sp_back s = Ok (s_off s + s_size s - 1)).
Proof. exact sp_front_back_spec. Qed.
Print Assumptions C19_span_front_back.

(* "the equivalent pointer arithmetic on the original range": first(c) is subspan(0, c) (contract included),
   last(c) is subspan(size() - c, c), a subspan of a subspan is the subspan at the sum of the offsets, and the
   compile-time form subspan<O, C>() designates the same window as subspan(O, C) *)
Theorem C19_span_first_is_subspan : forall s c, size_ok s -> 0 <= c ->
  sp_sub_d s 0 (Some c) = rbind (sp_first_d s c) (fun r => Ok (mk_span None (s_off r + 0) (s_size r))).
Proof. exact sp_first_is_subspan. Qed.
Print Assumptions C19_span_first_is_subspan.

Theorem C19_span_last_is_subspan : forall s c, size_ok s -> 0 <= c <= s_size s ->
  sp_last_d s c = sp_sub_d s (s_size s - c) (Some c).
Proof. exact sp_last_is_subspan. Qed.
Print Assumptions C19_span_last_is_subspan.

Theorem C19_span_subspan_compose : forall s o c o' c', size_ok s -> 0 <= o -> 0 <= c -> o + c <= s_size s ->
  0 <= o' -> 0 <= c' -> o' + c' <= c ->
  exists r, sp_sub_d s o (Some c) = Ok r
            /\ sp_sub_d r o' (Some c') = Ok (mk_span None (s_off s + (o + o')) c')
            /\ sp_sub_d s (o + o') (Some c') = Ok (mk_span None (s_off s + (o + o')) c').
Proof. exact sp_subspan_compose. Qed.
Print Assumptions C19_span_subspan_compose.

Theorem C19_span_static_dynamic_agree : forall s o c, size_ok s -> sp_consistent s -> 0 <= o <= s_size s ->
  match c with Some n => 0 <= n <= s_size s - o | None => True end ->
  exists r r', sp_sub_d s o c = Ok r /\ sp_sub_s s o c = Ok r' /\ s_off r = s_off r' /\ s_size r = s_size r'.
Proof. exact sp_static_dynamic_agree. Qed.
Print Assumptions C19_span_static_dynamic_agree.

(* for EVERY offset and count, inside or outside the domain: subspan<O, C>() and subspan(O, C) either both fire
   their precondition or both return the same window (the static form with the static extent of [span.sub]) *)
Theorem C19_span_static_dynamic_same_outcome : forall s o c,
  match sp_sub_d s o c, sp_sub_s s o c with
  | Ok r, Ok r' => s_off r = s_off r' /\ (sp_consistent s -> s_size r = s_size r') /\ s_ext r = None
                   /\ s_ext r' = subspan_extent o c (s_ext s)
  | Contract, Contract => True
  | _, _ => False
  end.
Proof. exact sp_static_dynamic_same_outcome. Qed.
Print Assumptions C19_span_static_dynamic_same_outcome.

(* as_bytes / as_writable_bytes: for every element size and every object representation [repr] of that size the
   byte view starts at byte offset data()*sizeof(T), has size()*sizeof(T) bytes, static extent sizeof(T)*N, and
   designates exactly the object representations of the span's elements *)
Theorem C19_span_as_bytes : forall (A B : Type) (repr : A -> list B) (esz : Z) (buf : list A) s,
  0 < esz -> (forall x, Z.of_nat (length (repr x)) = esz) ->
  sp_valid buf s -> sp_consistent s -> Z.of_nat (length buf) * esz < 18446744073709551616 ->
  let r := sp_as_bytes esz s in
  s_off r = s_off s * esz /\ s_size r = s_size s * esz
  /\ s_ext r = match s_ext s with Some n => Some (esz * n) | None => None end
  /\ sp_elems (flat_map repr buf) r = flat_map repr (sp_elems buf s)
  /\ sp_consistent r.
Proof. exact sp_as_bytes_spec. Qed.
Print Assumptions C19_span_as_bytes.

(** * the representability hypothesis is necessary *)
Theorem C19_narrow_index_wraps :
  let e := ext_from_pack i8 [None; None] [16; 16] in
  extents_list i8 e = [16; 16] /\ in_range [8; 0] (extents_list i8 e)
  /\ lay_map LRight i8 e [8; 0] = Some (-128) /\ lay_required LRight i8 e = 0.
Proof. exact narrow_index_wraps. Qed.
Print Assumptions C19_narrow_index_wraps.

Theorem C19_int_index_overflows :
  let e := ext_from_pack i32 [None; None] [65536; 65536] in
  in_range [32768; 0] (extents_list i32 e) /\ lay_map LRight i32 e [32768; 0] = None.
Proof. exact int_index_overflows. Qed.
Print Assumptions C19_int_index_overflows.

(* for unsigned index types of at least int width operator() is total: it wraps, it is never undefined;
   for uint16_t the multiplication happens in int and overflows (tied to the code through GCC's constant
   evaluator: ce_probe cases) *)
Theorem C19_unsigned_index_total : forall l t e idx ss, sgn t = false -> 32 <= bits t ->
  (exists o, lay_map l t e idx = Some o) /\ (exists o, strided_map t (strided_ctor t e ss) idx = Some o).
Proof. exact unsigned_index_total. Qed.
Print Assumptions C19_unsigned_index_total.

Theorem C19_u16_index_overflows :
  strided_map u16 (strided_ctor u16 (ext_from_pack u16 [None] [65535]) [65535]) [65535] = None
  /\ strided_map u16 (strided_ctor u16 (ext_from_pack u16 [None] [65535]) [46340]) [46340] = Some 43024.
Proof. exact u16_index_overflows. Qed.
Print Assumptions C19_u16_index_overflows.

(* non-vacuity: the hypotheses are met by ordinary shapes, incl. a mixed pattern with a zero-free
   index space, a strided padded/permuted layout and a span request *)
Example C19_nonvacuous :
  let e := ext_from_pack i32 [Some 2; None; Some 4] [2; 3; 4] in
  wf_ity i32 /\ wf_ity u64 /\ wf_ity i8
  /\ extents_list i32 e = [2; 3; 4] /\ in_range [1; 2; 3] (extents_list i32 e)
  /\ product (extents_list i32 e) <= imax i32
  /\ lay_map LRight i32 e [1; 2; 3] = Some 23 /\ lay_map LLeft i32 e [1; 2; 3] = Some 23
  /\ lay_map LLeft i32 e [1; 0; 0] = Some 1 /\ lay_map LRight i32 e [1; 0; 0] = Some 12
  /\ unique_strides [2; 3] [4; 1]
  /\ strided_map i32 (strided_ctor i32 (ext_from_pack i32 [None; None] [2; 3]) [4; 1]) [1; 2] = Some 6
  /\ sp_valid [10; 11; 12; 13; 14] (mk_span None 1 4)
  /\ sp_sub_d (mk_span None 1 4) 1 (Some 2) = Ok (mk_span None 2 2)
  /\ sp_elems [10; 11; 12; 13; 14] (mk_span None 2 2) = [12; 13]
  /\ Forall2 slice_ok [SlFull; SlPair 1 3; SlIndex 0] (extents_list i32 e)
  /\ option_map (extents_list i32) (sub_extents_p i32 e [SlFull; SlPair 1 3; SlIndex 0]) = Some [2; 2]
  /\ option_map pat (sub_extents_p i32 e [SlCPair 0 2; SlPair 1 3; SlFull]) = Some [Some 2; None; Some 4].
Proof.
  cbv zeta. repeat split; try (vm_compute; intuition congruence); try (repeat constructor; vm_compute; congruence).
  - exists [(2, 4); (3, 1)]. split; [apply Permutation_refl | cbn; lia].
Qed.
