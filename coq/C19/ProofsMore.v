(* C19 proofs, part 5: layout_stride, layout_transpose, mdspan/mdarray access, conversions,
   submdspan_extents. *)
From Tetl Require Import Lib.Base C19.Model C19.Spec C19.ProofsArith C19.ProofsExt C19.ProofsSpec C19.ProofsLayout.
Local Open Scope Z_scope.
Ltac Zify.zify_post_hook ::= Z.to_euclidean_division_equations.

Lemma in_ty_le : forall t v, in_ty t v = true -> v <= imax t.
Proof. intros t v H. unfold in_ty in H. lia. Qed.

Lemma in_range_le_imax : forall t e idx, wf_ity t -> wf_ext t e -> in_range idx (extents_list t e) ->
  Forall (fun i => 0 <= i <= imax t) idx.
Proof.
  intros t e idx Hwf Hwe Hin. assert (Hty := extents_list_in_ty t e Hwf Hwe).
  induction Hin as [|i x ir xr Hix Hr IH]; [constructor|].
  inversion Hty as [|? ? Hx Hxr]; subst. constructor; [apply in_ty_le in Hx; lia | apply IH; exact Hxr].
Qed.

(** * layout_stride *)
Theorem strided_map_formula : forall t e ss idx, wf_ity t -> wf_ext t e ->
  in_range idx (extents_list t e) -> length ss = rank e ->
  Forall (fun s => 0 <= s <= imax t) ss -> span_max (extents_list t e) ss <= imax t ->
  strided_map t (strided_ctor t e ss) idx = Some (dot idx ss).
Proof.
  intros t e ss idx Hwf Hwe Hin Hl Hs Hmax.
  assert (Hs0 : Forall (fun s => 0 <= s) ss).
  { rewrite Forall_forall in *. intros s H. apply Hs in H. lia. }
  assert (B := dot_le_span_max _ _ _ Hin Hs0).
  unfold strided_map, strided_ctor. cbn [st_strides].
  assert (Hc : map (cast t) ss = ss) by (apply map_cast_repr; assumption).
  rewrite Hc. rewrite fold_terms_exact.
  - cbn [obind]. rewrite cast_id by (try assumption; lia). reflexivity.
  - exact Hwf.
  - eapply in_range_le_imax; eauto.
  - exact Hs0.
  - rewrite (in_range_length _ _ Hin). rewrite extents_list_length. lia.
  - lia.
Qed.

Theorem strided_map_in_bounds : forall t e ss idx, wf_ity t -> wf_ext t e ->
  in_range idx (extents_list t e) -> length ss = rank e ->
  Forall (fun s => 0 <= s <= imax t) ss -> span_max (extents_list t e) ss <= imax t ->
  exists o, strided_map t (strided_ctor t e ss) idx = Some o
            /\ 0 <= o < stride_required (extents_list t e) ss.
Proof.
  intros t e ss idx Hwf Hwe Hin Hl Hs Hmax. exists (dot idx ss).
  split; [apply strided_map_formula; assumption|].
  apply strided_in_bounds; [exact Hin|]. rewrite Forall_forall in *. intros s H. apply Hs in H. lia.
Qed.

Theorem strided_map_injective : forall t e ss idx idx', wf_ity t -> wf_ext t e ->
  in_range idx (extents_list t e) -> in_range idx' (extents_list t e) ->
  unique_strides (extents_list t e) ss ->
  Forall (fun s => s <= imax t) ss -> span_max (extents_list t e) ss <= imax t ->
  strided_map t (strided_ctor t e ss) idx = strided_map t (strided_ctor t e ss) idx' -> idx = idx'.
Proof.
  intros t e ss idx idx' Hwf Hwe Hin Hin' Hu Hs Hmax Heq.
  assert (Hu' := Hu). destruct Hu' as [Hl [Hpos _]].
  assert (Hs' : Forall (fun s => 0 <= s <= imax t) ss).
  { rewrite Forall_forall in *. intros s H. specialize (Hs s H). specialize (Hpos s H). lia. }
  rewrite extents_list_length in Hl.
  rewrite !strided_map_formula in Heq by assumption. inversion Heq.
  eapply strided_injective; eauto.
Qed.

Lemma strided_stride_spec : forall t e ss r, wf_ity t -> length ss = rank e ->
  Forall (fun s => 0 <= s <= imax t) ss -> (r < rank e)%nat ->
  strided_stride (strided_ctor t e ss) r = Ok (nth r ss 0).
Proof.
  intros t e ss r Hwf Hl Hs Hr. unfold strided_stride, strided_ctor. cbn [st_ext st_strides].
  replace (r <? rank e)%nat with true by (symmetry; apply Nat.ltb_lt; exact Hr).
  rewrite map_cast_repr by assumption. reflexivity.
Qed.

(** * mdspan / mdarray element access *)
Theorem mds_offset_formula : forall l t e idx, wf_ity t -> wf_ext t e ->
  in_range idx (extents_list t e) -> product (extents_list t e) <= imax t ->
  mds_offset l t e idx = Some (spec_offset l (extents_list t e) idx)
  /\ 0 <= spec_offset l (extents_list t e) idx < mds_size t e
  /\ mds_size t e = product (extents_list t e)
  /\ mda_container_size l t e = product (extents_list t e).
Proof.
  intros l t e idx Hwf Hwe Hin Hp.
  assert (B := spec_offset_bounds l _ _ Hin). assert (H64 := imax_lt_2_64 t Hwf).
  assert (Hidx : map (cast t) idx = idx).
  { apply map_cast_repr; [exact Hwf|]. eapply in_range_le_imax; eauto. }
  assert (Hsz : mds_size t e = product (extents_list t e)).
  { unfold mds_size. rewrite fwd_prod_spec by lia. rewrite <- (extents_list_length t e). rewrite firstn_all.
    rewrite szw_id by lia. apply to_size_type_id; [exact Hwf | lia]. }
  repeat split.
  - unfold mds_offset. rewrite Hidx. rewrite lay_map_formula by assumption. cbn [obind].
    rewrite szw_id by lia. reflexivity.
  - lia.
  - rewrite Hsz. lia.
  - exact Hsz.
  - unfold mda_container_size. rewrite lay_required_spec by (try assumption; lia). apply szw_id. lia.
Qed.

(** * conversions between mappings only copy the extents: equal extents, equal mapping *)
Theorem lay_map_extents_only : forall l t1 e1 t2 e2 idx, wf_ity t1 -> wf_ity t2 ->
  extents_list t2 e2 = extents_list t1 e1 -> in_range idx (extents_list t1 e1) ->
  product (extents_list t1 e1) <= imax t1 -> product (extents_list t1 e1) <= imax t2 ->
  lay_map l t2 e2 idx = lay_map l t1 e1 idx.
Proof.
  intros l t1 e1 t2 e2 idx H1 H2 He Hin Hp1 Hp2.
  rewrite (lay_map_formula l t1) by assumption.
  rewrite (lay_map_formula l t2) by (try assumption; rewrite He; assumption).
  rewrite He. reflexivity.
Qed.

(* layout_left(layout_right) / layout_right(layout_left) are only provided for rank <= 1, where the
   two formulas coincide *)
Theorem left_right_rank1 : forall xs idx, (length xs <= 1)%nat -> length idx = length xs ->
  col_major xs idx = row_major xs idx.
Proof.
  intros xs idx Hl Hi. destruct xs as [|x [|y r]]; destruct idx as [|i [|j ir]]; try discriminate;
    unfold row_major; cbn in *; lia.
Qed.

(** * layout_transpose *)
Definition flip (l : layout) : layout := match l with LLeft => LRight | LRight => LLeft end.

Lemma extents_list_rank2 : forall t e, rank e = 2%nat -> extents_list t e = [extent t e 0; extent t e 1].
Proof. intros t e H. unfold extents_list. rewrite H. reflexivity. Qed.

Theorem tr_map_formula : forall l t ne i j, wf_ity t -> rank ne = 2%nat ->
  in_range [i; j] (rev (extents_list t ne)) -> product (extents_list t ne) <= imax t ->
  tr_map l t ne i j = Some (spec_offset (flip l) (rev (extents_list t ne)) [i; j])
  /\ 0 <= spec_offset (flip l) (rev (extents_list t ne)) [i; j] < tr_required l t ne.
Proof.
  intros l t ne i j Hwf Hr Hin Hp. rewrite extents_list_rank2 in * by exact Hr.
  set (a := extent t ne 0) in *. set (b := extent t ne 1) in *. cbn [rev app] in Hin.
  inversion Hin as [|? ? ? ? Hi Hin' ]; subst. inversion Hin' as [|? ? ? ? Hj Hnil]; subst. clear Hin Hin' Hnil.
  assert (Hin2 : in_range [j; i] (extents_list t ne)).
  { rewrite extents_list_rank2 by exact Hr. fold a b. repeat constructor; lia. }
  assert (Hp2 : product (extents_list t ne) <= imax t).
  { rewrite extents_list_rank2 by exact Hr. exact Hp. }
  assert (Hreq : tr_required l t ne = a * b).
  { unfold tr_required. rewrite lay_required_spec; rewrite ?extents_list_rank2 by exact Hr; fold a b; cbn [product] in *; try assumption; nia. }
  assert (Hoff : spec_offset l [a; b] [j; i] = spec_offset (flip l) [b; a] [i; j]).
  { destruct l; cbn [flip spec_offset col_major]; unfold row_major; cbn; ring. }
  assert (B := spec_offset_bounds l _ _ Hin2). rewrite extents_list_rank2 in B by exact Hr. fold a b in B.
  cbn [product] in B, Hp.
  split.
  - unfold tr_map. rewrite lay_map_formula by assumption. cbn [obind].
    rewrite extents_list_rank2 by exact Hr. fold a b. cbn [rev app]. rewrite <- Hoff.
    rewrite to_size_type_id by (try assumption; lia). reflexivity.
  - cbn [rev app]. rewrite <- Hoff. rewrite Hreq. lia.
Qed.

(* extents() of the transposed mapping are the nested extents swapped, for all four static/dynamic cases *)
Theorem tr_extents_spec : forall t ne, wf_ity t -> wf_ext t ne -> rank ne = 2%nat ->
  extents_list t (tr_extents t ne) = rev (extents_list t ne).
Proof.
  intros t ne Hwf Hwe Hr.
  assert (Hty := extents_list_in_ty t ne Hwf Hwe).
  assert (Hx : extents_list t ne = [extent t ne 0; extent t ne 1]) by (apply extents_list_rank2; exact Hr).
  rewrite Hx in *.
  inversion Hty as [|? ? H0 Hty']; subst. inversion Hty' as [|? ? H1 _]; subst. clear Hty Hty'.
  apply (cast_fix t _ Hwf) in H0. apply (cast_fix t _ Hwf) in H1.
  unfold tr_extents, transpose_extents. unfold rank in Hr.
  destruct ne as [p d]. cbn [pat dyn] in *.
  destruct p as [|p0 [|p1 [|p2 pr]]]; try discriminate. cbn [static_extent nth].
  assert (E0 : forall n, p0 = Some n -> extent t {| pat := [p0; p1]; dyn := d |} 0 = cast t n).
  { intros n Hn. rewrite extent_general by (cbn; lia). subst p0. reflexivity. }
  assert (E1 : forall n, p1 = Some n -> extent t {| pat := [p0; p1]; dyn := d |} 1 = cast t n).
  { intros n Hn. rewrite extent_general by (cbn; lia). subst p1. reflexivity. }
  cbn [rev app].
  destruct p0 as [n0|]; destruct p1 as [n1|].
  - rewrite ext_default_list by exact Hwf. cbn [extents_dyn map]. rewrite (E0 n0), (E1 n1) by reflexivity. reflexivity.
  - rewrite ext_from_pack_dyn by (try exact Hwf; reflexivity). cbn [extents_dyn map].
    rewrite H1. rewrite (E0 n0) by reflexivity. reflexivity.
  - rewrite ext_from_pack_dyn by (try exact Hwf; reflexivity). cbn [extents_dyn map].
    rewrite H0. rewrite (E1 n1) by reflexivity. reflexivity.
  - rewrite ext_from_pack_dyn by (try exact Hwf; reflexivity). cbn [extents_dyn map].
    rewrite H0, H1. reflexivity.
Qed.

(* stride(r) of the transposed mapping: the nested strides swapped; contract for r >= 2 *)
Theorem tr_stride_spec : forall l t ne, wf_ity t -> rank ne = 2%nat ->
  Forall (fun x => 0 < x) (extents_list t ne) -> product (extents_list t ne) <= imax t ->
  tr_stride l t ne 0 = Ok (spec_stride l (extents_list t ne) 1)
  /\ tr_stride l t ne 1 = Ok (spec_stride l (extents_list t ne) 0)
  /\ forall r, (2 <= r)%nat -> tr_stride l t ne r = Contract.
Proof.
  intros l t ne Hwf Hr Hpos Hp.
  assert (B0 := spec_stride_bounds l _ 0%nat Hpos). assert (B1 := spec_stride_bounds l _ 1%nat Hpos).
  unfold tr_stride. cbn [Nat.eqb].
  rewrite !lay_stride_spec by (try assumption; lia). cbn [rbind].
  rewrite !to_size_type_id by (try assumption; lia).
  repeat split.
  intros r Hr2. destruct r as [|[|r]]; try lia. cbn [Nat.eqb].
  assert (Hc : lay_stride l t ne (S (S r)) = Contract) by (apply lay_stride_contract; lia).
  rewrite Hc. reflexivity.
Qed.

(* the same for shapes with a zero extent: exact whenever the two closed-form strides are representable *)
Theorem tr_stride_value : forall l t ne, wf_ity t -> rank ne = 2%nat ->
  0 <= spec_stride l (extents_list t ne) 0 <= imax t -> 0 <= spec_stride l (extents_list t ne) 1 <= imax t ->
  tr_stride l t ne 0 = Ok (spec_stride l (extents_list t ne) 1)
  /\ tr_stride l t ne 1 = Ok (spec_stride l (extents_list t ne) 0).
Proof.
  intros l t ne Hwf Hr B0 B1. unfold tr_stride. cbn [Nat.eqb].
  rewrite !lay_stride_value by (try assumption; lia). cbn [rbind].
  rewrite !to_size_type_id by (try assumption; lia). split; reflexivity.
Qed.

(** * submdspan_extents with full_extent / index slices *)
Lemma sub_keep_keep_full : forall (A : Type) sl (l : list A), sub_keep sl l = keep_full sl l.
Proof. intros A. induction sl as [|s sr IH]; intros l; destruct l; cbn; try reflexivity; destruct s; rewrite ?IH; reflexivity. Qed.

Lemma sub_merge : forall t sl p d, wf_ity t -> Forall (fun v => in_ty t v = true) d ->
  (rank_dynamic p <= length d)%nat ->
  map (cast t) (extents_all (keep_full sl p) (keep_full sl (merge t p d))) = keep_full sl (merge t p d).
Proof.
  intros t. induction sl as [|s sr IH]; intros p d Hwf Hd Hl; [reflexivity|].
  destruct p as [|x pr]; [destruct s; reflexivity|].
  destruct x as [n|]; cbn [merge rank_dynamic] in *.
  - destruct s as [k|]; cbn [keep_full extents_all map].
    + apply IH; assumption.
    + rewrite IH by assumption. reflexivity.
  - destruct d as [|v vs]; [cbn in Hl; lia|]. inversion Hd; subst. cbn [nth tl].
    destruct s as [k|]; cbn [keep_full extents_all map].
    + apply IH; [assumption | assumption | cbn in Hl; lia].
    + rewrite IH by (try assumption; cbn in Hl; lia). rewrite cast_fix by assumption. reflexivity.
Qed.

Lemma keep_full_length : forall (A B : Type) sl (l1 : list A) (l2 : list B), length l1 = length l2 ->
  length (keep_full sl l1) = length (keep_full sl l2).
Proof.
  intros A B. induction sl as [|s sr IH]; intros l1 l2 H; [reflexivity|].
  destruct l1; destruct l2; try discriminate; [destruct s; reflexivity|].
  destruct s; cbn [keep_full length]; [|f_equal]; apply IH; cbn in H; lia.
Qed.

Theorem sub_extents_spec : forall t e sl, wf_ity t -> wf_ext t e ->
  extents_list t (sub_extents t e sl) = keep_full sl (extents_list t e)
  /\ pat (sub_extents t e sl) = keep_full sl (pat e).
Proof.
  intros t e sl Hwf [Hl Hd]. unfold sub_extents. rewrite !sub_keep_keep_full.
  split.
  - rewrite ext_from_pack_all.
    + rewrite extents_list_merge. apply sub_merge; [assumption | assumption | lia].
    + exact Hwf.
    + apply keep_full_length. rewrite extents_list_length. reflexivity.
  - unfold ext_from_pack, ext_from_span.
    destruct (rank_dynamic (keep_full sl (pat e)) =? 0)%nat; [reflexivity|].
    destruct (length _ =? _)%nat; reflexivity.
Qed.
