(* C19 proofs, part 8: model-level corollaries that combine the layout theorems with the enumeration
   of the index space, and the witnesses showing the representability hypothesis is necessary. *)
From Tetl Require Import Lib.Base C19.Model C19.Spec C19.ProofsArith C19.ProofsExt C19.ProofsSpec
  C19.ProofsLayout C19.ProofsMore C19.ProofsEnum.
From Coq Require Import Permutation.
Local Open Scope Z_scope.
Ltac Zify.zify_post_hook ::= Z.to_euclidean_division_equations.

(* layout_right visits the offsets 0, 1, ..., size-1 in index order *)
Theorem lay_right_enumerates : forall t e, wf_ity t ->
  Forall (fun x => 0 <= x) (extents_list t e) -> product (extents_list t e) <= imax t ->
  map (lay_map LRight t e) (all_indices (extents_list t e))
  = map Some (zrange_from 0 (Z.to_nat (product (extents_list t e)))).
Proof.
  intros t e Hwf Hnn Hp. rewrite <- row_major_enumerates by exact Hnn. rewrite map_map.
  apply map_ext_in. intros idx Hidx. apply all_indices_complete in Hidx.
  apply (lay_map_formula LRight); assumption.
Qed.

(* layout_left visits the same offsets, each exactly once *)
Theorem lay_left_permutes : forall t e, wf_ity t ->
  Forall (fun x => 0 <= x) (extents_list t e) -> product (extents_list t e) <= imax t ->
  Permutation (map (lay_map LLeft t e) (all_indices (extents_list t e)))
              (map Some (zrange_from 0 (Z.to_nat (product (extents_list t e))))).
Proof.
  intros t e Hwf Hnn Hp.
  replace (map (lay_map LLeft t e) (all_indices (extents_list t e)))
    with (map Some (map (col_major (extents_list t e)) (all_indices (extents_list t e)))).
  - apply Permutation_map. apply col_major_permutes. exact Hnn.
  - rewrite map_map. apply map_ext_in. intros idx Hidx. apply all_indices_complete in Hidx.
    symmetry. apply (lay_map_formula LLeft); assumption.
Qed.

(* the hypothesis "size of the index space representable in index_type" cannot be dropped:
   a 16 x 16 view indexed by signed char maps (8, 0) to -128 *)
Lemma narrow_index_wraps :
  let e := ext_from_pack i8 [None; None] [16; 16] in
  extents_list i8 e = [16; 16] /\ in_range [8; 0] (extents_list i8 e)
  /\ lay_map LRight i8 e [8; 0] = Some (-128) /\ lay_required LRight i8 e = 0.
Proof. vm_compute. repeat split; repeat constructor; discriminate. Qed.

(* ... and with a 32-bit signed index the same situation is signed overflow (undefined behaviour) *)
Lemma int_index_overflows :
  let e := ext_from_pack i32 [None; None] [65536; 65536] in
  in_range [32768; 0] (extents_list i32 e) /\ lay_map LRight i32 e [32768; 0] = None.
Proof. vm_compute. repeat split; repeat constructor; discriminate. Qed.
