(* C19 proofs, part 1: machine-integer facts (conversions to the index type, size_t, promoted arithmetic) *)
From Tetl Require Import Lib.Base C19.Model C19.Spec.
Local Open Scope Z_scope.
Ltac Zify.zify_post_hook ::= Z.to_euclidean_division_equations.

(* the index types the theorems speak about: any width from 1 to 64 bits, signed or unsigned *)
Definition wf_ity (t : ity) : Prop := 0 < bits t <= 64.

Lemma pow2_pos : forall w, 0 <= w -> 0 < 2 ^ w.
Proof. intros w Hw. apply Z.pow_pos_nonneg; lia. Qed.

Lemma pow2_split : forall w, 0 < w -> 2 ^ w = 2 * 2 ^ (w - 1).
Proof.
  intros w Hw. replace w with (Z.succ (w - 1)) at 1 by lia.
  rewrite Z.pow_succ_r by lia. reflexivity.
Qed.

Lemma imax_nonneg : forall t, wf_ity t -> 0 <= imax t.
Proof.
  intros t [Hb _]. unfold imax, smax, umax.
  destruct (sgn t).
  - assert (H := pow2_pos (bits t - 1)). lia.
  - assert (H := pow2_pos (bits t)). lia.
Qed.

Lemma imax_lt_pow : forall t, wf_ity t -> imax t < 2 ^ bits t.
Proof.
  intros t [Hb _]. unfold imax, smax, umax.
  destruct (sgn t).
  - rewrite (pow2_split (bits t)) by lia. assert (H := pow2_pos (bits t - 1)). lia.
  - lia.
Qed.

Lemma imax_lt_2_64 : forall t, wf_ity t -> imax t < 18446744073709551616.
Proof.
  intros t Hwf. assert (H := imax_lt_pow t Hwf). destruct Hwf as [Hb Hb'].
  assert (H2 : 2 ^ bits t <= 2 ^ 64) by (apply Z.pow_le_mono_r; lia).
  change (2 ^ 64) with 18446744073709551616 in H2. lia.
Qed.

(* a non-negative value that fits is unchanged by static_cast<index_type> *)
Lemma cast_id : forall t x, wf_ity t -> 0 <= x <= imax t -> cast t x = x.
Proof.
  intros t x Hwf Hx. assert (Hlt := imax_lt_pow t Hwf). destruct Hwf as [Hb Hb'].
  unfold cast, wrap_ty, wraps, wrapu.
  assert (Hm : x mod 2 ^ bits t = x) by (apply Z.mod_small; lia).
  destruct (sgn t) eqn:Hs.
  - rewrite Hm. unfold imax, smax in Hx. rewrite Hs in Hx.
    destruct (x <? 2 ^ (bits t - 1)) eqn:Hc; [reflexivity | lia].
  - exact Hm.
Qed.

Lemma cast_range : forall t x, wf_ity t -> imin t <= cast t x <= imax t.
Proof.
  intros t x [Hb Hb']. unfold cast, wrap_ty, wraps, wrapu, imin, imax, smin, smax, umax.
  assert (Hp := pow2_pos (bits t)). assert (Hp1 := pow2_pos (bits t - 1)).
  assert (Hs := pow2_split (bits t) Hb).
  assert (Hm : 0 <= x mod 2 ^ bits t < 2 ^ bits t) by (apply Z.mod_pos_bound; lia).
  destruct (sgn t).
  - destruct (x mod 2 ^ bits t <? 2 ^ (bits t - 1)) eqn:Hc; lia.
  - lia.
Qed.

Lemma cast_in_ty : forall t x, wf_ity t -> in_ty t (cast t x) = true.
Proof. intros t x Hwf. assert (H := cast_range t x Hwf). unfold in_ty. lia. Qed.

Lemma cast_mod : forall t x, wf_ity t -> cast t x mod 2 ^ bits t = x mod 2 ^ bits t.
Proof.
  intros t x [Hb Hb']. unfold cast, wrap_ty, wraps, wrapu.
  assert (Hp := pow2_pos (bits t)).
  destruct (sgn t).
  - destruct (x mod 2 ^ bits t <? 2 ^ (bits t - 1)).
    + apply Z.mod_mod. lia.
    + replace (x mod 2 ^ bits t - 2 ^ bits t) with (x mod 2 ^ bits t + (-1) * 2 ^ bits t) by ring.
      rewrite Z.mod_add by lia. apply Z.mod_mod. lia.
  - apply Z.mod_mod. lia.
Qed.

(* the conversion only depends on the value modulo 2^bits *)
Lemma cast_congr : forall t x y, x mod 2 ^ bits t = y mod 2 ^ bits t -> cast t x = cast t y.
Proof. intros t x y H. unfold cast, wrap_ty, wraps, wrapu. rewrite H. reflexivity. Qed.

Lemma cast_idem : forall t x, wf_ity t -> cast t (cast t x) = cast t x.
Proof. intros t x Hwf. apply cast_congr. apply cast_mod. exact Hwf. Qed.

(* a value of the index type is a fixed point of the conversion *)
Lemma cast_fix : forall t x, wf_ity t -> in_ty t x = true -> cast t x = x.
Proof.
  intros t x Hwf Hin. assert (Hlt := imax_lt_pow t Hwf). destruct Hwf as [Hb Hb'].
  unfold in_ty, imin, imax, smin, smax, umax in Hin.
  unfold cast, wrap_ty, wraps, wrapu.
  assert (Hp := pow2_pos (bits t)). assert (Hp1 := pow2_pos (bits t - 1)).
  assert (Hs := pow2_split (bits t) Hb).
  destruct (sgn t) eqn:Hsg.
  - destruct (x <? 0) eqn:Hneg.
    + assert (Hm : x mod 2 ^ bits t = x + 2 ^ bits t).
      { symmetry. apply Z.mod_unique with (q := -1); lia. }
      rewrite Hm. destruct (x + 2 ^ bits t <? 2 ^ (bits t - 1)) eqn:Hc; lia.
    + assert (Hm : x mod 2 ^ bits t = x) by (apply Z.mod_small; lia).
      rewrite Hm. destruct (x <? 2 ^ (bits t - 1)) eqn:Hc; lia.
  - apply Z.mod_small. lia.
Qed.

(* conversion to size_t / size_type of small non-negative values *)
Lemma szw_id : forall x, 0 <= x < 18446744073709551616 -> szw x = x.
Proof. intros x Hx. unfold szw. apply Z.mod_small. lia. Qed.

Lemma szw_mul : forall a b, szw (a * szw b) = szw (a * b).
Proof. intros a b. unfold szw. rewrite Z.mul_mod_idemp_r by lia. reflexivity. Qed.

Lemma szw_mul_l : forall a b, szw (szw a * b) = szw (a * b).
Proof. intros a b. unfold szw. rewrite Z.mul_mod_idemp_l by lia. reflexivity. Qed.

Lemma to_size_type_id : forall t x, wf_ity t -> 0 <= x <= imax t -> to_size_type t x = x.
Proof.
  intros t x Hwf Hx. assert (H := imax_lt_pow t Hwf). unfold to_size_type, wrapu.
  apply Z.mod_small. lia.
Qed.

(* the promoted type is at least as wide *)
Lemma arith_imax : forall t, wf_ity t -> imax t <= imax (arith t).
Proof.
  intros t Hwf. assert (Hlt := imax_lt_pow t Hwf). destruct Hwf as [Hb Hb'].
  unfold arith. destruct (bits t <? 32) eqn:Hc; [| lia].
  assert (H2 : 2 ^ bits t <= 2 ^ 31) by (apply Z.pow_le_mono_r; lia).
  change (imax i32) with 2147483647. change (2 ^ 31) with 2147483648 in H2. lia.
Qed.

Lemma arith_wf : forall t, wf_ity t -> wf_ity (arith t).
Proof.
  intros t Hwf. unfold arith. destruct (bits t <? 32); [unfold wf_ity; cbn; lia | exact Hwf].
Qed.

(* arithmetic on values that stay inside the index type's non-negative range never wraps/overflows *)
Lemma aop_small : forall t x, wf_ity t -> 0 <= x <= imax t -> aop t x = Some x.
Proof.
  intros t x Hwf Hx. assert (Ha := arith_imax t Hwf). assert (Hwa := arith_wf t Hwf).
  assert (Hlt := imax_lt_pow (arith t) Hwa).
  unfold aop. destruct (sgn (arith t)) eqn:Hs.
  - unfold chk, in_ty, imin. rewrite Hs.
    assert (Hmin : smin (bits (arith t)) <= 0).
    { unfold smin. destruct Hwa as [Hb _]. assert (H := pow2_pos (bits (arith t) - 1)). lia. }
    replace ((smin (bits (arith t)) <=? x) && (x <=? imax (arith t))) with true by lia.
    reflexivity.
  - unfold wrapu. rewrite Z.mod_small by lia. reflexivity.
Qed.
