(* C19 proofs: the strides of layout_right / layout_left satisfy the uniqueness condition of
   [mdspan.layout.stride.cons] -- the contiguous layouts are instances of the strided injectivity theorem. *)
From Tetl Require Import Lib.Base C19.Model C19.Spec C19.ProofsSpec.
From Coq Require Import Permutation.
Local Open Scope Z_scope.
Ltac Zify.zify_post_hook ::= Z.to_euclidean_division_equations.

Lemma product_pos' : forall l, Forall (fun x => 0 < x) l -> 0 < product l.
Proof. intros l H. induction H as [|x r Hx Hr IH]; cbn [product]; [lia | nia]. Qed.

Lemma strides_right_length : forall xs, length (strides_right xs) = length xs.
Proof. intros xs. unfold strides_right. rewrite map_length, seq_length. reflexivity. Qed.

Lemma strides_left_length : forall xs, length (strides_left xs) = length xs.
Proof. intros xs. unfold strides_left. rewrite map_length, seq_length. reflexivity. Qed.

Lemma strides_right_pos : forall xs, Forall (fun x => 0 < x) xs -> Forall (fun s => 0 < s) (strides_right xs).
Proof.
  intros xs H. induction H as [|x r Hx Hr IH]; [constructor|].
  rewrite strides_right_cons. constructor; [apply product_pos'; exact Hr | exact IH].
Qed.

Lemma Forall_map_mul_pos : forall c l, 0 < c -> Forall (fun s => 0 < s) l -> Forall (fun s => 0 < s) (map (Z.mul c) l).
Proof. intros c l Hc H. induction H as [|s r Hs Hr IH]; cbn [map]; constructor; [nia | exact IH]. Qed.

Lemma strides_left_pos : forall xs, Forall (fun x => 0 < x) xs -> Forall (fun s => 0 < s) (strides_left xs).
Proof.
  intros xs H. induction H as [|x r Hx Hr IH]; [constructor|].
  rewrite strides_left_cons. constructor; [lia | apply Forall_map_mul_pos; assumption].
Qed.

(* layout_right: already ordered from the largest stride down, each stride = next extent * next stride *)
Lemma chain_right : forall xs, chain (combine xs (strides_right xs)).
Proof.
  induction xs as [|x r IH]; [exact I|].
  rewrite strides_right_cons. cbn [combine]. destruct r as [|x' r'].
  - cbn. split; exact I.
  - rewrite strides_right_cons in *. cbn [combine] in *. cbn [chain]. split; [cbn [product]; lia | exact IH].
Qed.

(* layout_left: the reversed order is a chain *)
Definition scale (c : Z) (es : Z * Z) : Z * Z := (fst es, c * snd es).

Lemma chain_scale : forall c l, 0 < c -> chain l -> chain (map (scale c) l).
Proof.
  intros c l Hc. induction l as [|[e s] r IH]; intros H; [exact I|].
  cbn [map scale fst snd]. destruct r as [|[e' s'] r'].
  - cbn. split; exact I.
  - cbn [chain] in H. destruct H as [H1 H2]. cbn [map scale fst snd chain]. split; [nia | exact (IH H2)].
Qed.

Lemma combine_map_scale : forall c xs ss, combine xs (map (Z.mul c) ss) = map (scale c) (combine xs ss).
Proof.
  intros c. induction xs as [|x r IH]; intros ss; [reflexivity|].
  destruct ss as [|s sr]; [reflexivity|]. cbn [map combine scale fst snd]. rewrite IH. reflexivity.
Qed.

Lemma chain_snoc : forall l0 e0 s0 e s, chain (l0 ++ [(e0, s0)]) -> s0 >= e * s ->
  chain ((l0 ++ [(e0, s0)]) ++ [(e, s)]).
Proof.
  induction l0 as [|[e1 s1] l1 IH]; intros e0 s0 e s H Hs.
  - cbn. repeat split; try exact I. exact Hs.
  - cbn [app] in *. destruct l1 as [|[e2 s2] l2].
    + cbn [app chain] in *. destruct H as [H1 H2]. repeat split; try exact I; assumption.
    + cbn [app] in *. cbn [chain] in H. destruct H as [H1 H2]. cbn [chain]. split; [exact H1|].
      apply (IH e0 s0 e s); assumption.
Qed.

Lemma chain_left_rev : forall xs, Forall (fun x => 0 < x) xs -> chain (rev (combine xs (strides_left xs))).
Proof.
  intros xs H. induction H as [|x r Hx Hr IH]; [exact I|].
  rewrite strides_left_cons. cbn [combine rev]. rewrite combine_map_scale. rewrite <- map_rev.
  destruct r as [|x' r'].
  - cbn. split; exact I.
  - rewrite strides_left_cons in *. cbn [combine rev] in *.
    rewrite map_app. cbn [map scale fst snd].
    apply chain_snoc.
    + rewrite <- (map_app (scale x) _ [(x', 1)]). apply chain_scale; [exact Hx | exact IH].
    + cbn [snd]. lia.
Qed.

Theorem canonical_strides_unique : forall xs, Forall (fun x => 0 < x) xs ->
  unique_strides xs (strides_right xs) /\ unique_strides xs (strides_left xs).
Proof.
  intros xs H. split.
  - split; [apply strides_right_length|]. split; [apply strides_right_pos; exact H|].
    exists (combine xs (strides_right xs)). split; [apply Permutation_refl | apply chain_right].
  - split; [apply strides_left_length|]. split; [apply strides_left_pos; exact H|].
    exists (rev (combine xs (strides_left xs))). split; [apply Permutation_rev | apply chain_left_rev; exact H].
Qed.
