(* C19 proofs: implicit conversions between extents types never lose information.
   [conv_implicit] mirrors the explicit-specifier of the converting constructor; the theorem says that whenever
   the language lets the conversion happen silently (and the requires-clause / the Mandates of [mdspan.extents]
   hold) the destination has exactly the extents of the source. *)
From Tetl Require Import Lib.Base C19.Slices C19.Model C19.Spec C19.ProofsArith C19.ProofsExt.
Local Open Scope Z_scope.
Ltac Zify.zify_post_hook ::= Z.to_euclidean_division_equations.

(* requires-clause of the converting constructor: per dimension one side dynamic, or equal static extents *)
Definition compatible (p p' : pattern) : Prop :=
  Forall2 (fun a b => match a, b with Some n, Some m => n = m | _, _ => True end) p p'.
(* Mandates of [mdspan.extents.overview]: every static extent is representable in the index type *)
Definition statics_representable (t : ity) (p : pattern) : Prop :=
  Forall (fun a => match a with Some n => representable t n | None => True end) p.

Lemma Forall2_map_seq : forall (A : Type) (P : A -> Z -> Prop) (d : A) (l : list A) (f : nat -> Z) k,
  (forall i, (i < length l)%nat -> P (nth i l d) (f (k + i)%nat)) ->
  Forall2 P l (map f (seq k (length l))).
Proof.
  intros A P d l. induction l as [|x r IH]; intros f k H; [constructor|].
  cbn [length seq map]. constructor.
  - specialize (H O). cbn in H. replace (k + 0)%nat with k in H by lia. apply H. lia.
  - apply IH. intros i Hi. specialize (H (S i)). cbn [nth length] in H.
    replace (k + S i)%nat with (S k + i)%nat in H by lia. apply H. lia.
Qed.

Lemma Forall2_nth : forall (A B : Type) (P : A -> B -> Prop) da db l1 l2, Forall2 P l1 l2 ->
  forall i, (i < length l1)%nat -> P (nth i l1 da) (nth i l2 db).
Proof.
  intros A B P da db l1 l2 H. induction H as [|x y r1 r2 Hxy Hr IH]; intros i Hi; [cbn in Hi; lia|].
  destruct i as [|i]; [exact Hxy|]. cbn [nth]. apply IH. cbn in Hi. lia.
Qed.

Lemma forallb_combine_nth : forall (A B : Type) (f : A * B -> bool) da db l1 l2, length l1 = length l2 ->
  forallb f (combine l1 l2) = true -> forall i, (i < length l1)%nat -> f (nth i l1 da, nth i l2 db) = true.
Proof.
  intros A B f da db l1. induction l1 as [|x r IH]; intros l2 Hl H i Hi; [cbn in Hi; lia|].
  destruct l2 as [|y r2]; [cbn in Hl; lia|]. cbn [combine forallb] in H. apply andb_true_iff in H. destruct H as [H1 H2].
  destruct i as [|i]; [exact H1|]. cbn [nth]. apply IH; [cbn in Hl; lia | exact H2 | cbn in Hi; lia].
Qed.

Theorem implicit_conversion_lossless : forall t p t' e', wf_ity t -> wf_ity t' ->
  compatible p (pat e') -> statics_representable t' (pat e') ->
  conv_implicit t p t' (pat e') = true ->
  Forall (representable t') (extents_list t' e') ->
  extents_list t (ext_convert t p t' e') = extents_list t' e'.
Proof.
  intros t p t' e' Hwf Hwf' Hc Hm Hi Hrep.
  assert (Hl : length p = length (pat e')) by (eapply Forall2_len; exact Hc).
  unfold conv_implicit in Hi. apply andb_true_iff in Hi. destruct Hi as [Hpat Hmax]. apply Z.leb_le in Hmax.
  apply ctor_convert_std; [exact Hwf | unfold rank; lia | |].
  - unfold agrees, extents_list. unfold rank. rewrite <- Hl.
    apply (Forall2_map_seq _ _ None). intros i Hi. cbn [Nat.add].
    destruct (nth i p None) as [n|] eqn:Hn; [|exact I].
    assert (Hf := forallb_combine_nth _ _ _ None None p (pat e') Hl Hpat i Hi). cbn [fst snd] in Hf. rewrite Hn in Hf.
    assert (Hcp := Forall2_nth _ _ _ None None _ _ Hc i Hi). cbn beta in Hcp. rewrite Hn in Hcp.
    destruct (nth i (pat e') None) as [m|] eqn:Hm'; [|discriminate]. subst m.
    rewrite extent_general by (unfold rank; lia). unfold extent_gen, static_extent. rewrite Hm'.
    apply cast_id; [exact Hwf'|].
    unfold statics_representable in Hm. rewrite Forall_forall in Hm.
    assert (Hin : In (Some n) (pat e')) by (rewrite <- Hm'; apply nth_In; lia).
    exact (Hm _ Hin).
  - eapply Forall_impl; [|exact Hrep]. intros x [H0 H1]. unfold representable. lia.
Qed.

(* the explicit-specifier is also NECESSARY for that guarantee: when it says `explicit`, some admissible source
   object is changed by the conversion (a wider index type loses the value, a dynamic extent that differs from the
   static one it is converted to is replaced by it) *)
Theorem explicit_conversion_can_lose :
  (conv_implicit i8 [None] u64 [None] = false
   /\ extents_list i8 (ext_convert i8 [None] u64 (ext_from_pack u64 [None] [300])) = [44])
  /\ (conv_implicit i32 [Some 3] i32 [None] = false
      /\ extents_list i32 (ext_convert i32 [Some 3] i32 (ext_from_pack i32 [None] [5])) = [3]).
Proof. vm_compute. repeat split; reflexivity. Qed.

(** * [mdspan.sub.helpers] first_ / last_ *)
(* under the precondition of [mdspan.sub.extents] the helpers return the standard's values without overflow, they
   delimit a range inside the source dimension, and its length is the extent submdspan_extents keeps *)
Theorem sub_first_last_spec : forall t x s, wf_ity t -> 0 <= x <= imax t -> slice_ok s x ->
  sub_first t s = first_ s /\ sub_last t x s = Some (last_ x s)
  /\ 0 <= first_ s <= last_ x s /\ last_ x s <= x
  /\ match s with
     | SlIndex _ => last_ x s - first_ s = 1
     | _ => [last_ x s - first_ s] = sub_shape [s] [x]
     end.
Proof.
  intros t x s Hwf Hx Hok. destruct s as [|k|a b|a b]; cbn [slice_ok sub_first sub_last first_ last_ sub_shape] in *.
  - rewrite cast_id by assumption. repeat split; try lia. f_equal. lia.
  - rewrite cast_id by (try assumption; lia). unfold aadd. rewrite aop_small by (try assumption; lia).
    repeat split; lia.
  - rewrite !cast_id by (try assumption; lia). repeat split; lia.
  - rewrite !cast_id by (try assumption; lia). repeat split; lia.
Qed.
