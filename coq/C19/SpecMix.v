(* C19 spec: [mdspan.sub.extents] for slice specifiers whose bounds are run-time values or integral constants. *)
From Tetl Require Import Lib.Base C19.Slices C19.SlicesMix C19.Spec.
Local Open Scope Z_scope.

(* precondition of [mdspan.sub.extents]: 0 <= first <= last <= extent (index: 0 <= k < extent) *)
Definition mslice_ok (s : mslice) (x : Z) : Prop :=
  match s with
  | MFull => True
  | MIndex k => 0 <= k < x
  | MPair a b => 0 <= bval a /\ bval a <= bval b /\ bval b <= x
  end.

(* the extents of the sub-view: last - first elements for a pair, whatever the kind of its bounds *)
Fixpoint msub_shape (sl : list mslice) (xs : list Z) : list Z :=
  match sl, xs with
  | MFull :: sr, x :: r => x :: msub_shape sr r
  | MIndex _ :: sr, _ :: r => msub_shape sr r
  | MPair a b :: sr, _ :: r => (bval b - bval a) :: msub_shape sr r
  | _, _ => []
  end.
(* the static extents of the result type: that of the source for full_extent; last - first when BOTH bounds are
   integral constants; dynamic_extent (None) otherwise *)
Definition pair_static_spec (a b : bound) : option Z :=
  match a, b with
  | BConst x, BConst y => Some (y - x)
  | _, _ => None
  end.
Fixpoint msub_pattern (sl : list mslice) (p : list (option Z)) : list (option Z) :=
  match sl, p with
  | MFull :: sr, x :: r => x :: msub_pattern sr r
  | MIndex _ :: sr, _ :: r => msub_pattern sr r
  | MPair a b :: sr, _ :: r => pair_static_spec a b :: msub_pattern sr r
  | _, _ => []
  end.

(* strided_slice: the sub-view has 0 elements when extent = 0, else 1 + (extent - 1) / stride; the static extent is
   0 when the extent is the constant 0, that closed form when extent and stride are both constants, else dynamic *)
Definition strided_count (ext str : Z) : Z := if ext =? 0 then 0 else 1 + (ext - 1) / str.
Definition strided_static_spec (s : sslice) : option Z :=
  match ss_extent s, ss_stride s with
  | BConst e, BConst d => Some (strided_count e d)
  | BConst e, BRun _ => if e =? 0 then Some 0 else None
  | BRun _, _ => None
  end.

(* a static extent agrees with a run-time extent: it is dynamic_extent or equal to it *)
Definition static_agrees (s : option Z) (x : Z) : Prop := s = None \/ s = Some x.
