From Tetl Require Import Lib.Base C19.Slices C19.SlicesMix C19.Model C19.ModelMix C19.Spec C19.SpecMix.
Require Extraction.
Require Import ExtrOcamlBasic.
Extraction Language OCaml.
Extraction "C19_model.ml" wire_anchor
  i8 u8 i16 u16 i32 u32 i64 u64 in_ty imax szw cast to_size_type
  rank rank_dynamic dynamic_index extent extents_list ext_default ext_from_span ext_from_pack ext_convert conv_implicit ext_eqb
  fwd_prod rev_prod lay_stride lay_strides lay_required lay_map
  strided_ctor strided_default strided_of_layout layout_of_strided strided_stride strided_required strided_map
  tr_extents tr_required tr_map tr_stride
  mds_offset mds_get mds_size mds_empty mda_container_size mda_strided_container_size sub_extents sub_extents_p sub_first sub_last
  mk_span sp_ctor sp_first_s sp_last_s sp_first_d sp_last_d sp_sub_s sp_sub_d sp_index sp_front sp_back sp_size_bytes sp_as_bytes sp_elems all_indices
  product row_major col_major stride_left stride_right dot span_max stride_required
  extents_all extents_dyn keep_full sub_shape sub_pattern first_ last_ sub_range
  bval is_const to_slice pair_static strided_static sub_static sub_extents_m
  msub_shape msub_pattern pair_static_spec strided_count strided_static_spec.
