(* C19 proofs: an mdspan over a buffer reads exactly the elements it spans.
   layout_right visits the first size() elements of the buffer in order, layout_left a permutation of
   them; no in-range access leaves the buffer. *)
From Tetl Require Import Lib.Base C19.Model C19.Spec C19.ProofsArith C19.ProofsExt C19.ProofsSpec
  C19.ProofsLayout C19.ProofsMore C19.ProofsEnum C19.ProofsTop.
From Coq Require Import Permutation.
Local Open Scope Z_scope.
Ltac Zify.zify_post_hook ::= Z.to_euclidean_division_equations.

Definition get_at {A} (buf : list A) (oo : option Z) : option A :=
  match oo with Some o => nth_error buf (Z.to_nat o) | None => None end.

Lemma skipn_cons_nth : forall (A : Type) a (buf : list A), (a < length buf)%nat ->
  exists x, nth_error buf a = Some x /\ skipn a buf = x :: skipn (S a) buf.
Proof.
  intros A. induction a as [|a IH]; intros buf H; destruct buf as [|y r]; cbn [length] in H; try lia.
  - exists y. split; reflexivity.
  - destruct (IH r) as [x [H1 H2]]; [lia|]. exists x. split; [exact H1 | exact H2].
Qed.

Lemma read_range : forall (A : Type) (buf : list A) n a, (a + n <= length buf)%nat ->
  map (get_at buf) (map Some (zrange_from (Z.of_nat a) n)) = map Some (firstn n (skipn a buf)).
Proof.
  intros A buf. induction n as [|n IH]; intros a H; [reflexivity|].
  destruct (skipn_cons_nth A a buf) as [x [H1 H2]]; [lia|].
  cbn [zrange_from map get_at]. rewrite Nat2Z.id. rewrite H1. rewrite H2. cbn [firstn map]. f_equal.
  replace (Z.of_nat a + 1) with (Z.of_nat (S a)) by lia. rewrite IH by lia. reflexivity.
Qed.

Lemma mds_get_get_at : forall (A : Type) (buf : list A) l t e idx,
  mds_get buf l t e idx = get_at buf (mds_offset l t e idx).
Proof. intros. unfold mds_get, get_at. destruct (mds_offset l t e idx); reflexivity. Qed.

Lemma mds_offset_lay_map : forall l t e idx, wf_ity t -> wf_ext t e ->
  in_range idx (extents_list t e) -> product (extents_list t e) <= imax t ->
  mds_offset l t e idx = lay_map l t e idx.
Proof.
  intros l t e idx Hwf Hwe Hin Hp.
  destruct (mds_offset_formula l t e idx Hwf Hwe Hin Hp) as [H _]. rewrite H.
  rewrite (lay_map_formula l t e idx Hwf Hin Hp). reflexivity.
Qed.

Lemma mds_offsets_all : forall l t e, wf_ity t -> wf_ext t e -> product (extents_list t e) <= imax t ->
  map (mds_offset l t e) (all_indices (extents_list t e)) = map (lay_map l t e) (all_indices (extents_list t e)).
Proof.
  intros l t e Hwf Hwe Hp. apply map_ext_in. intros idx Hidx. apply all_indices_complete in Hidx.
  apply mds_offset_lay_map; assumption.
Qed.

(* layout_right: reading every multi-index in index order yields the first size() elements in order *)
Theorem mds_right_reads_prefix : forall (A : Type) (buf : list A) t e, wf_ity t -> wf_ext t e ->
  Forall (fun x => 0 <= x) (extents_list t e) -> product (extents_list t e) <= imax t ->
  product (extents_list t e) <= Z.of_nat (length buf) ->
  map (mds_get buf LRight t e) (all_indices (extents_list t e))
  = map Some (firstn (Z.to_nat (product (extents_list t e))) buf).
Proof.
  intros A buf t e Hwf Hwe Hnn Hp Hlen.
  transitivity (map (get_at buf) (map (mds_offset LRight t e) (all_indices (extents_list t e)))).
  { rewrite map_map. apply map_ext. intros idx. apply mds_get_get_at. }
  rewrite mds_offsets_all by assumption. rewrite lay_right_enumerates by assumption.
  rewrite (read_range A buf _ 0) by (cbn; lia). reflexivity.
Qed.

(* layout_left: the same elements, each exactly once, in another order *)
Theorem mds_left_reads_permutation : forall (A : Type) (buf : list A) t e, wf_ity t -> wf_ext t e ->
  Forall (fun x => 0 <= x) (extents_list t e) -> product (extents_list t e) <= imax t ->
  product (extents_list t e) <= Z.of_nat (length buf) ->
  Permutation (map (mds_get buf LLeft t e) (all_indices (extents_list t e)))
              (map Some (firstn (Z.to_nat (product (extents_list t e))) buf)).
Proof.
  intros A buf t e Hwf Hwe Hnn Hp Hlen.
  replace (map (mds_get buf LLeft t e) (all_indices (extents_list t e)))
    with (map (get_at buf) (map (mds_offset LLeft t e) (all_indices (extents_list t e)))).
  2:{ rewrite map_map. apply map_ext. intros idx. symmetry. apply mds_get_get_at. }
  rewrite mds_offsets_all by assumption.
  rewrite <- (read_range A buf _ 0) by (cbn; lia). cbn [Z.of_nat].
  apply Permutation_map. apply lay_left_permutes; assumption.
Qed.

(* no in-range access leaves the buffer, whatever the layout *)
Theorem mds_get_inside : forall (A : Type) (buf : list A) l t e idx, wf_ity t -> wf_ext t e ->
  in_range idx (extents_list t e) -> product (extents_list t e) <= imax t ->
  product (extents_list t e) <= Z.of_nat (length buf) ->
  exists a, mds_get buf l t e idx = Some a
            /\ nth_error buf (Z.to_nat (spec_offset l (extents_list t e) idx)) = Some a.
Proof.
  intros A buf l t e idx Hwf Hwe Hin Hp Hlen.
  destruct (mds_offset_formula l t e idx Hwf Hwe Hin Hp) as [H [Hb [Hs _]]].
  unfold mds_get. rewrite H. cbn [obind].
  destruct (nth_error buf (Z.to_nat (spec_offset l (extents_list t e) idx))) as [a|] eqn:Hn.
  - exists a. split; reflexivity.
  - apply nth_error_None in Hn. lia.
Qed.

(** * layout_transpose is injective on its index space *)
Theorem tr_map_injective : forall l t ne i j i' j', wf_ity t -> rank ne = 2%nat ->
  in_range [i; j] (rev (extents_list t ne)) -> in_range [i'; j'] (rev (extents_list t ne)) ->
  product (extents_list t ne) <= imax t ->
  tr_map l t ne i j = tr_map l t ne i' j' -> i = i' /\ j = j'.
Proof.
  intros l t ne i j i' j' Hwf Hr Hin Hin' Hp Heq.
  destruct (tr_map_formula l t ne i j Hwf Hr Hin Hp) as [H1 _].
  destruct (tr_map_formula l t ne i' j' Hwf Hr Hin' Hp) as [H2 _].
  rewrite H1, H2 in Heq. injection Heq as Heq.
  assert (E := spec_offset_inj (flip l) _ _ _ Hin Hin' Heq).
  injection E as E1 E2. split; assumption.
Qed.

(** * strided layouts: every in-range access lies below the mapping's own required_span_size() *)
From Tetl Require Import C19.ProofsReq.
Theorem strided_access_below_required : forall t e ss idx, wf_ity t -> wf_ext t e ->
  in_range idx (extents_list t e) -> length ss = rank e ->
  Forall (fun s => 0 <= s <= imax t) ss -> stride_required (extents_list t e) ss <= imax t ->
  exists o rq, strided_map t (strided_ctor t e ss) idx = Some o
               /\ strided_required t (strided_ctor t e ss) = Some rq
               /\ 0 <= o < rq.
Proof.
  intros t e ss idx Hwf Hwe Hin Hl Hs Hreq.
  assert (Hpos := in_range_pos _ _ Hin).
  assert (Hnn : Forall (fun x => 0 <= x) (extents_list t e)).
  { clear -Hpos. induction Hpos; constructor; [lia | assumption]. }
  assert (Hmax : span_max (extents_list t e) ss <= imax t).
  { unfold stride_required in Hreq. rewrite (no_zero_extent _ _ Hin) in Hreq. lia. }
  destruct (strided_map_in_bounds t e ss idx Hwf Hwe Hin Hl Hs Hmax) as [o [Ho Hb]].
  exists o, (stride_required (extents_list t e) ss). split; [exact Ho|]. split; [|exact Hb].
  apply strided_required_spec; assumption.
Qed.

(* an mdarray over a strided mapping -- exhaustive or not (padded, permuted strides) -- owns a container of exactly
   REQUIRED-SPAN-SIZE elements and every in-range access stays inside it; the size of the index space (what size()
   returns) may be strictly smaller, so a container of size() elements would NOT do *)
Theorem mdarray_strided_inside_container : forall t e ss idx, wf_ity t -> wf_ext t e ->
  in_range idx (extents_list t e) -> length ss = rank e ->
  Forall (fun s => 0 <= s <= imax t) ss -> stride_required (extents_list t e) ss <= imax t ->
  exists o, strided_map t (strided_ctor t e ss) idx = Some o
            /\ mda_strided_container_size t (strided_ctor t e ss) = Some (stride_required (extents_list t e) ss)
            /\ 0 <= o < stride_required (extents_list t e) ss.
Proof.
  intros t e ss idx Hwf Hwe Hin Hl Hs Hreq.
  destruct (strided_access_below_required t e ss idx Hwf Hwe Hin Hl Hs Hreq) as [o [rq [Ho [Hrq Hb]]]].
  assert (Hpos := in_range_pos _ _ Hin).
  assert (Hnn : Forall (fun x => 0 <= x) (extents_list t e)).
  { clear -Hpos. induction Hpos; constructor; [lia | assumption]. }
  assert (Hspec := strided_required_spec t e ss Hwf Hwe Hnn Hs Hreq).
  rewrite Hspec in Hrq. injection Hrq as Hrq. subst rq.
  exists o. split; [exact Ho|]. split; [|exact Hb].
  unfold mda_strided_container_size. rewrite Hspec. cbn [obind].
  assert (H64 := imax_lt_2_64 t Hwf). rewrite szw_id by lia. reflexivity.
Qed.

(* witness: a 2 x 3 view with strides (4, 1) has 6 elements but needs a container of 7: element (1, 2) lives at offset 6 *)
Theorem mdarray_strided_needs_required_span :
  let e := ext_from_pack i32 [None; None] [2; 3] in
  let m := strided_ctor i32 e [4; 1] in
  mds_size i32 e = 6 /\ mda_strided_container_size i32 m = Some 7 /\ strided_map i32 m [1; 2] = Some 6.
Proof. vm_compute. repeat split; reflexivity. Qed.
