(* C19 proofs: submdspan_extents with full_extent / index / (first, last) slices. *)
From Tetl Require Import Lib.Base C19.Slices C19.Model C19.Spec C19.ProofsArith C19.ProofsExt.
Local Open Scope Z_scope.
Ltac Zify.zify_post_hook ::= Z.to_euclidean_division_equations.

(* what a well-formed extents object reports for a dimension with static extent po *)
Definition ext_rel (t : ity) (po : option Z) (x : Z) : Prop :=
  in_ty t x = true /\ match po with Some n => x = cast t n | None => True end.

Lemma merge_rel : forall t p d, wf_ity t -> Forall (fun v => in_ty t v = true) d ->
  (rank_dynamic p <= length d)%nat -> Forall2 (ext_rel t) p (merge t p d).
Proof.
  intros t. induction p as [|x r IH]; intros d Hwf Hd Hl; [constructor|].
  destruct x as [n|]; cbn [merge rank_dynamic] in *.
  - constructor; [split; [apply cast_in_ty; exact Hwf | reflexivity] | apply IH; assumption].
  - destruct d as [|v vs]; [cbn in Hl; lia|]. inversion Hd as [|? ? Hv Hvs]; subst. cbn [nth tl].
    constructor; [split; [exact Hv | exact I] | apply IH; [assumption | assumption | cbn in Hl; lia]].
Qed.

Lemma extents_rel : forall t e, wf_ity t -> wf_ext t e -> Forall2 (ext_rel t) (pat e) (extents_list t e).
Proof.
  intros t e Hwf [Hl Hd]. rewrite extents_list_merge. apply merge_rel; [assumption | assumption | lia].
Qed.

Lemma in_ty_le_imax : forall t x, in_ty t x = true -> x <= imax t.
Proof. intros t x H. unfold in_ty in H. lia. Qed.

Lemma subp_core : forall t sl xs, Forall2 slice_ok sl xs -> forall p, wf_ity t -> Forall2 (ext_rel t) p xs ->
  exists v, subp_vals t sl xs = Some v /\ length v = length (subp_pat sl p)
            /\ map (cast t) (extents_all (subp_pat sl p) v) = sub_shape sl xs
            /\ subp_pat sl p = sub_pattern sl p.
Proof.
  intros t sl xs Hok. induction Hok as [|s x sr xr Hs Hr IH]; intros p Hwf Hrel.
  - exists []. inversion Hrel; subst. repeat split; reflexivity.
  - inversion Hrel as [|po x' pr xr' [Hin Hpo] Hrel']; subst.
    destruct (IH pr Hwf Hrel') as [v [Hv [Hlen [Hmap Hpat]]]].
    assert (Hx := in_ty_le_imax t x Hin). assert (H64 := imax_lt_2_64 t Hwf).
    destruct s as [|k|a b|a b]; cbn [subp_vals subp_pat sub_shape sub_pattern].
    + rewrite Hv. cbn [obind]. exists (x :: v). split; [reflexivity|]. split; [cbn [length]; lia|].
      split; [|rewrite Hpat; reflexivity].
      destruct po as [n|]; cbn [extents_all map]; rewrite Hmap.
      * rewrite <- Hpo. reflexivity.
      * rewrite cast_fix by assumption. reflexivity.
    + exists v. repeat split; assumption.
    + cbn [slice_ok] in Hs. destruct Hs as [Ha [Hab Hbx]].
      rewrite (cast_id t a) by (try assumption; lia). rewrite (cast_id t b) by (try assumption; lia).
      rewrite (aop_small t (b - a)) by (try assumption; lia). cbn [obind]. rewrite Hv. cbn [obind].
      exists (cast t (b - a) :: v). split; [reflexivity|]. split; [cbn [length]; lia|].
      split; [|rewrite Hpat; reflexivity].
      cbn [extents_all map]. rewrite Hmap. rewrite !(cast_id t (b - a)) by (try assumption; lia). reflexivity.
    + cbn [slice_ok] in Hs. destruct Hs as [Ha [Hab Hbx]].
      rewrite (cast_id t a) by (try assumption; lia). rewrite (cast_id t b) by (try assumption; lia).
      rewrite (aop_small t (b - a)) by (try assumption; lia). cbn [obind]. rewrite Hv. cbn [obind].
      rewrite (szw_id (b - a)) by lia.
      exists (cast t (b - a) :: v). split; [reflexivity|]. split; [cbn [length]; lia|].
      split; [|rewrite Hpat; reflexivity].
      cbn [extents_all map]. rewrite Hmap. rewrite (cast_id t (b - a)) by (try assumption; lia). reflexivity.
Qed.

(* submdspan_extents(ext, slices...): for EVERY rank, pattern, index type and slice choice whose values meet
   the precondition of [mdspan.sub.extents], the result has exactly the kept dimensions: extent and
   static-ness of the full_extent ones, last - first (dynamic) for the pairs of run-time values, last - first
   (static) for the pairs of integral constants; no overflow on the way *)
Theorem sub_extents_p_spec : forall t e sl, wf_ity t -> wf_ext t e ->
  Forall2 slice_ok sl (extents_list t e) ->
  exists r, sub_extents_p t e sl = Some r
            /\ extents_list t r = sub_shape sl (extents_list t e)
            /\ pat r = sub_pattern sl (pat e)
            /\ wf_ext t r.
Proof.
  intros t e sl Hwf Hwe Hok.
  destruct (subp_core t sl (extents_list t e) Hok (pat e) Hwf (extents_rel t e Hwf Hwe)) as [v [Hv [Hlen [Hmap Hpat]]]].
  unfold sub_extents_p. rewrite Hv. cbn [obind]. eexists. split; [reflexivity|]. split; [|split].
  - rewrite ext_from_pack_all by assumption. exact Hmap.
  - rewrite <- Hpat. unfold ext_from_pack, ext_from_span.
    destruct (rank_dynamic (subp_pat sl (pat e)) =? 0)%nat; [reflexivity|].
    destruct (length _ =? _)%nat; reflexivity.
  - unfold ext_from_pack. apply ext_from_span_wf; [exact Hwf|]. right. rewrite map_length. exact Hlen.
Qed.

(* without pair slices the builder is the one modelled by [sub_extents] *)
Fixpoint slice_of_opt (sl : list (option Z)) : list slice :=
  match sl with
  | [] => []
  | None :: r => SlFull :: slice_of_opt r
  | Some k :: r => SlIndex k :: slice_of_opt r
  end.

Lemma sub_extents_p_old : forall t e sl, length sl = rank e ->
  sub_extents_p t e (slice_of_opt sl) = Some (sub_extents t e sl).
Proof.
  intros t e sl Hl. unfold sub_extents_p, sub_extents.
  assert (Hlx : length sl = length (extents_list t e)) by (rewrite extents_list_length; exact Hl).
  assert (Hp : forall (p : pattern), subp_pat (slice_of_opt sl) p = sub_keep sl p).
  { clear. induction sl as [|s sr IH]; intros p; [reflexivity|].
    destruct p as [|x r]; [destruct s; reflexivity|].
    destruct s; cbn [slice_of_opt subp_pat sub_keep]; rewrite IH; reflexivity. }
  assert (Hv : forall xs, subp_vals t (slice_of_opt sl) xs = Some (sub_keep sl xs)).
  { clear. induction sl as [|s sr IH]; intros xs; [destruct xs; reflexivity|].
    destruct xs as [|x r]; [destruct s; reflexivity|].
    destruct s; cbn [slice_of_opt subp_vals sub_keep]; rewrite IH; reflexivity. }
  rewrite Hv, Hp. reflexivity.
Qed.

(** * operator== of extents (and of the layout_left / layout_right mappings, which compare their extents) *)
Lemma map_seq_eq_iff : forall (f g : nat -> Z) n k,
  forallb (fun i => f i =? g i) (seq k n) = true <-> map f (seq k n) = map g (seq k n).
Proof.
  intros f g. induction n as [|n IH]; intros k; cbn [seq forallb map]; [split; reflexivity|].
  rewrite andb_true_iff. rewrite IH. rewrite Z.eqb_eq. split.
  - intros [H1 H2]. rewrite H1, H2. reflexivity.
  - intros H. injection H as H1 H2. split; [exact H1 | exact H2].
Qed.

Theorem ext_eqb_spec : forall t1 e1 t2 e2,
  ext_eqb t1 e1 t2 e2 = true <-> extents_list t1 e1 = extents_list t2 e2.
Proof.
  intros t1 e1 t2 e2. unfold ext_eqb, extents_list.
  destruct (rank e1 =? rank e2)%nat eqn:Hr.
  - apply Nat.eqb_eq in Hr. rewrite <- Hr. apply map_seq_eq_iff.
  - apply Nat.eqb_neq in Hr. split; [discriminate|].
    intros H. exfalso. apply Hr. apply (f_equal (@length Z)) in H. rewrite !map_length, !seq_length in H. exact H.
Qed.

(** * unsigned index types of at least int width: operator() is total (wraps, never undefined) *)
Lemma aop_unsigned : forall t x, sgn t = false -> 32 <= bits t -> aop t x = Some (wrapu (bits t) x).
Proof.
  intros t x Hs Hb. unfold aop, arith. replace (bits t <? 32) with false by lia. rewrite Hs. reflexivity.
Qed.

Lemma fold_terms_unsigned : forall t idx ss, sgn t = false -> 32 <= bits t ->
  exists v, fold_terms t idx ss = Some v.
Proof.
  intros t idx. induction idx as [|i ir IH]; intros ss Hs Hb; [exists 0; reflexivity|].
  destruct ss as [|s sr]; [exists 0; reflexivity|].
  cbn [fold_terms]. unfold amul, aadd. rewrite aop_unsigned by assumption. cbn [obind].
  destruct (IH sr Hs Hb) as [v Hv]. rewrite Hv. cbn [obind]. rewrite aop_unsigned by assumption.
  eexists. reflexivity.
Qed.

Theorem unsigned_index_total : forall l t e idx ss, sgn t = false -> 32 <= bits t ->
  (exists o, lay_map l t e idx = Some o) /\ (exists o, strided_map t (strided_ctor t e ss) idx = Some o).
Proof.
  intros l t e idx ss Hs Hb. split.
  - unfold lay_map. destruct (fold_terms_unsigned t idx (lay_strides l t e) Hs Hb) as [v Hv]. rewrite Hv.
    cbn [obind]. eexists. reflexivity.
  - unfold strided_map, strided_ctor. cbn [st_strides].
    destruct (fold_terms_unsigned t idx (map (cast t) ss) Hs Hb) as [v Hv]. rewrite Hv.
    cbn [obind]. eexists. reflexivity.
Qed.

(* uint16_t * uint16_t is int arithmetic: the classic overflow, reachable outside the standard's domain *)
Theorem u16_index_overflows :
  strided_map u16 (strided_ctor u16 (ext_from_pack u16 [None] [65535]) [65535]) [65535] = None
  /\ strided_map u16 (strided_ctor u16 (ext_from_pack u16 [None] [65535]) [46340]) [46340] = Some 43024.
Proof. split; vm_compute; reflexivity. Qed.

(** * a layout_stride mapping given the strides of a contiguous mapping is that mapping *)
Lemma lay_strides_cast : forall l t e, wf_ity t -> map (cast t) (lay_strides l t e) = lay_strides l t e.
Proof.
  intros l t e Hwf. unfold lay_strides. rewrite map_map. apply map_ext. intros r.
  unfold lay_stride_raw. destruct l; apply cast_idem; exact Hwf.
Qed.

Theorem strided_of_contiguous : forall l t e idx, wf_ity t ->
  strided_map t (strided_ctor t e (lay_strides l t e)) idx = lay_map l t e idx
  /\ st_strides (strided_ctor t e (lay_strides l t e)) = lay_strides l t e.
Proof.
  intros l t e idx Hwf. unfold strided_map, strided_ctor, lay_map. cbn [st_strides].
  rewrite lay_strides_cast by exact Hwf. split; reflexivity.
Qed.

(** * the default-constructed layout_stride mapping is the layout_right mapping of the default extents *)
Theorem strided_default_spec : forall t p idx, wf_ity t ->
  st_ext (strided_default t p) = ext_default p
  /\ st_strides (strided_default t p) = lay_strides LRight t (ext_default p)
  /\ strided_map t (strided_default t p) idx = lay_map LRight t (ext_default p) idx.
Proof.
  intros t p idx Hwf. unfold strided_default, strided_map, lay_map, lay_strides, lay_stride_raw, rank.
  cbn [st_ext st_strides pat ext_default]. repeat split; reflexivity.
Qed.

(** * every store of the constructors and every load of extent(i) hits a slot of the dynamic-extents array *)
Lemma rank_dynamic_split : forall p i, (i < length p)%nat -> static_extent p i = None ->
  rank_dynamic p = (rank_dynamic (firstn i p) + 1 + rank_dynamic (skipn (S i) p))%nat.
Proof.
  induction p as [|x r IH]; intros i Hi Hs; [cbn in Hi; lia|].
  destruct i as [|i].
  - unfold static_extent in Hs. cbn in Hs. subst x. cbn [firstn skipn rank_dynamic]. lia.
  - unfold static_extent in *. cbn [nth] in Hs. cbn [length] in Hi.
    assert (Hi' : (i < length r)%nat) by lia. specialize (IH i Hi' Hs).
    change (skipn (S (S i)) (x :: r)) with (skipn (S i) r). cbn [firstn].
    destruct x as [n|]; cbn [rank_dynamic]; lia.
Qed.

Theorem dynamic_slot_in_bounds : forall p i, (i < length p)%nat -> static_extent p i = None ->
  (dynamic_index p i < rank_dynamic p)%nat.
Proof.
  intros p i Hi Hs. rewrite dynamic_index_firstn. rewrite (rank_dynamic_split p i Hi Hs). lia.
Qed.

(* distinct dynamic positions use distinct slots: no store of the fill loop overwrites another one *)
Theorem dynamic_slot_injective : forall p i j, (i < j)%nat -> (j < length p)%nat ->
  static_extent p i = None -> (dynamic_index p i < dynamic_index p j)%nat.
Proof.
  intros p i j Hij Hj Hs. rewrite !dynamic_index_firstn.
  assert (Hi : (i < length (firstn j p))%nat) by (rewrite firstn_length; lia).
  assert (Hs' : static_extent (firstn j p) i = None).
  { unfold static_extent in *. rewrite <- Hs. clear Hs Hi. revert i j Hij Hj.
    induction p as [|x r IH]; intros i j Hij Hj; [cbn in Hj; lia|].
    destruct j as [|j]; [lia|]. destruct i as [|i]; [reflexivity|].
    cbn [firstn nth]. apply IH; cbn [length] in Hj; lia. }
  rewrite (rank_dynamic_split (firstn j p) i Hi Hs').
  rewrite firstn_firstn. rewrite Nat.min_l by lia. lia.
Qed.
