(* C19 proofs, part 3: arithmetic of the closed forms (no machine integers here):
   Horner forms = sum of index * stride, bounds, injectivity, bijection onto [0, size),
   strided layouts under the standard's uniqueness condition. *)
From Tetl Require Import Lib.Base C19.Model C19.Spec.
From Coq Require Import Permutation.
Local Open Scope Z_scope.
Ltac Zify.zify_post_hook ::= Z.to_euclidean_division_equations.

(** * products *)
Lemma product_app : forall a b, product (a ++ b) = product a * product b.
Proof. induction a as [|x a IH]; intros b; cbn [app product]; [lia|]. rewrite IH. ring. Qed.

Lemma product_pos : forall l, Forall (fun x => 0 < x) l -> 0 < product l.
Proof. intros l H. induction H as [|x r Hx Hr IH]; cbn [product]; [lia|]. nia. Qed.

Lemma product_nonneg : forall l, Forall (fun x => 0 <= x) l -> 0 <= product l.
Proof. intros l H. induction H as [|x r Hx Hr IH]; cbn [product]; [lia|]. nia. Qed.

Lemma product_firstn_skipn : forall n l, product l = product (firstn n l) * product (skipn n l).
Proof. intros n l. rewrite <- product_app. rewrite firstn_skipn. reflexivity. Qed.

Lemma Forall_firstn' : forall (P : Z -> Prop) n l, Forall P l -> Forall P (firstn n l).
Proof.
  intros P n. induction n as [|n IH]; intros l H; [constructor|].
  destruct l as [|x r]; [constructor|]. inversion H; subst. cbn. constructor; auto.
Qed.
Lemma Forall_skipn' : forall (P : Z -> Prop) n l, Forall P l -> Forall P (skipn n l).
Proof.
  intros P n. induction n as [|n IH]; intros l H; [exact H|].
  destruct l as [|x r]; [constructor|]. inversion H; subst. cbn. auto.
Qed.

(* with positive extents every partial product is at most the whole product *)
Lemma product_firstn_le : forall n l, Forall (fun x => 0 < x) l -> 0 < product (firstn n l) <= product l.
Proof.
  intros n l H. rewrite (product_firstn_skipn n l).
  assert (H1 := product_pos _ (Forall_firstn' _ n l H)).
  assert (H2 := product_pos _ (Forall_skipn' _ n l H)). nia.
Qed.
Lemma product_skipn_le : forall n l, Forall (fun x => 0 < x) l -> 0 < product (skipn n l) <= product l.
Proof.
  intros n l H. rewrite (product_firstn_skipn n l).
  assert (H1 := product_pos _ (Forall_firstn' _ n l H)).
  assert (H2 := product_pos _ (Forall_skipn' _ n l H)). nia.
Qed.

(** * index spaces *)
Lemma in_range_length : forall idx xs, in_range idx xs -> length idx = length xs.
Proof. intros idx xs H. induction H; cbn; congruence. Qed.

Lemma in_range_pos : forall idx xs, in_range idx xs -> Forall (fun x => 0 < x) xs.
Proof. intros idx xs H. induction H as [|i x ir xr Hix Hr IH]; constructor; [lia | exact IH]. Qed.

Lemma in_range_idx_nonneg : forall idx xs, in_range idx xs -> Forall (fun i => 0 <= i) idx.
Proof. intros idx xs H. induction H as [|i x ir xr Hix Hr IH]; constructor; [lia | exact IH]. Qed.

(** * row-major *)
Lemma row_fold_acc : forall idx xs acc, length idx = length xs ->
  fold_left (fun a ie => a * snd ie + fst ie) (combine idx xs) acc
  = acc * product xs + fold_left (fun a ie => a * snd ie + fst ie) (combine idx xs) 0.
Proof.
  induction idx as [|i ir IH]; intros xs acc Hl; destruct xs as [|x xr]; try discriminate.
  - cbn. lia.
  - cbn [combine fold_left fst snd product]. cbn in Hl.
    rewrite (IH xr (acc * x + i)) by lia. rewrite (IH xr (0 * x + i)) by lia. ring.
Qed.

Lemma row_major_cons : forall x xs i idx, length idx = length xs ->
  row_major (x :: xs) (i :: idx) = i * product xs + row_major xs idx.
Proof.
  intros x xs i idx Hl. unfold row_major. cbn [combine fold_left fst snd].
  rewrite row_fold_acc by exact Hl. ring.
Qed.

Lemma row_major_nil : row_major [] [] = 0.
Proof. reflexivity. Qed.

Lemma row_major_bounds : forall idx xs, in_range idx xs -> 0 <= row_major xs idx < product xs.
Proof.
  intros idx xs H. induction H as [|i x ir xr Hix Hr IH].
  - cbn. lia.
  - rewrite row_major_cons by (eapply in_range_length; exact Hr). cbn [product].
    assert (Hp := product_pos _ (in_range_pos _ _ Hr)). nia.
Qed.

Lemma row_major_inj : forall xs idx idx', in_range idx xs -> in_range idx' xs ->
  row_major xs idx = row_major xs idx' -> idx = idx'.
Proof.
  intros xs idx idx' H. revert idx'. induction H as [|i x ir xr Hix Hr IH]; intros idx' H' Heq.
  - inversion H'. reflexivity.
  - inversion H' as [|i' x' ir' xr' Hix' Hr' E1 E2]; subst.
    rewrite row_major_cons in Heq by (eapply in_range_length; exact Hr).
    rewrite row_major_cons in Heq by (eapply in_range_length; exact Hr').
    assert (B := row_major_bounds _ _ Hr). assert (B' := row_major_bounds _ _ Hr').
    assert (Hi : i = i') by nia. subst i'.
    f_equal. apply IH; [exact Hr' | lia].
Qed.

(** * column-major *)
Lemma radix_inj : forall x i i' c c', 0 <= i < x -> 0 <= i' < x -> i + x * c = i' + x * c' -> i = i' /\ c = c'.
Proof.
  intros x i i' c c' Hi Hi' Heq.
  assert (Hc : c = c').
  { destruct (Z_lt_le_dec c c') as [Hlt|Hge].
    - exfalso. assert (x * (c' - c) >= x) by nia. lia.
    - destruct (Z_lt_le_dec c' c) as [Hlt'|Hge']; [|lia].
      exfalso. assert (x * (c - c') >= x) by nia. lia. }
  subst c'. split; [lia | reflexivity].
Qed.

Lemma col_major_bounds : forall idx xs, in_range idx xs -> 0 <= col_major xs idx < product xs.
Proof.
  intros idx xs H. induction H as [|i x ir xr Hix Hr IH].
  - cbn. lia.
  - change (col_major (x :: xr) (i :: ir)) with (i + x * col_major xr ir).
    change (product (x :: xr)) with (x * product xr).
    generalize dependent (col_major xr ir). generalize (product xr). intros P c Hc.
    assert (H1 : 0 <= x * c) by nia.
    assert (H2 : x * c <= x * (P - 1)) by nia.
    lia.
Qed.

Lemma col_major_inj : forall xs idx idx', in_range idx xs -> in_range idx' xs ->
  col_major xs idx = col_major xs idx' -> idx = idx'.
Proof.
  intros xs idx idx' H. revert idx'. induction H as [|i x ir xr Hix Hr IH]; intros idx' H' Heq.
  - inversion H'. reflexivity.
  - inversion H' as [|i' x' ir' xr' Hix' Hr' E1 E2]; subst.
    change (col_major (x :: xr) (i :: ir)) with (i + x * col_major xr ir) in Heq.
    change (col_major (x :: xr) (i' :: ir')) with (i' + x * col_major xr ir') in Heq.
    destruct (radix_inj x i i' _ _ Hix Hix' Heq) as [Hi Hc]. subst i'.
    f_equal. apply IH; [exact Hr' | exact Hc].
Qed.

(** * strides: the Horner forms are sums of index * stride *)
Definition strides_right (xs : list Z) : list Z := map (stride_right xs) (seq 0 (length xs)).
Definition strides_left (xs : list Z) : list Z := map (stride_left xs) (seq 0 (length xs)).

Lemma strides_right_cons : forall x xs, strides_right (x :: xs) = product xs :: strides_right xs.
Proof.
  intros x xs. unfold strides_right. cbn [length seq map]. f_equal.
  rewrite <- seq_shift. rewrite map_map. apply map_ext. intros r. reflexivity.
Qed.

Lemma strides_left_cons : forall x xs, strides_left (x :: xs) = 1 :: map (Z.mul x) (strides_left xs).
Proof.
  intros x xs. unfold strides_left. cbn [length seq map]. f_equal.
  rewrite <- seq_shift. rewrite !map_map. apply map_ext. intros r. reflexivity.
Qed.

Lemma dot_scale : forall c idx ss, dot idx (map (Z.mul c) ss) = c * dot idx ss.
Proof.
  intros c. induction idx as [|i ir IH]; intros ss.
  - cbn. lia.
  - destruct ss as [|s sr]; cbn [map dot]; [lia|]. rewrite IH. ring.
Qed.

Lemma dot_strides_right : forall idx xs, length idx = length xs ->
  dot idx (strides_right xs) = row_major xs idx.
Proof.
  induction idx as [|i ir IH]; intros xs Hl; destruct xs as [|x xr]; try discriminate; [reflexivity|].
  rewrite strides_right_cons. cbn [dot]. cbn in Hl. rewrite IH by lia.
  rewrite row_major_cons by lia. ring.
Qed.

Lemma dot_strides_left : forall idx xs, length idx = length xs ->
  dot idx (strides_left xs) = col_major xs idx.
Proof.
  induction idx as [|i ir IH]; intros xs Hl; destruct xs as [|x xr]; try discriminate; [reflexivity|].
  rewrite strides_left_cons. cbn [dot col_major]. cbn in Hl. rewrite dot_scale. rewrite IH by lia. ring.
Qed.

(** * sums of non-negative terms *)
Lemma dot_nonneg : forall idx ss, Forall (fun i => 0 <= i) idx -> Forall (fun s => 0 <= s) ss -> 0 <= dot idx ss.
Proof.
  intros idx ss Hi. revert ss. induction Hi as [|i ir Hi0 Hir IH]; intros ss Hs; [cbn; lia|].
  destruct Hs as [|s sr Hs0 Hsr]; cbn [dot]; [lia|]. specialize (IH sr Hsr). nia.
Qed.

(** * strided layouts *)
(* every offset is at most the offset of the last element, i.e. below REQUIRED-SPAN-SIZE *)
Lemma dot_le_span_max : forall idx xs ss, in_range idx xs -> Forall (fun s => 0 <= s) ss ->
  0 <= dot idx ss <= span_max xs ss.
Proof.
  intros idx xs ss H. revert ss. induction H as [|i x ir xr Hix Hr IH]; intros ss Hs.
  - cbn. lia.
  - destruct Hs as [|s sr Hs0 Hsr]; cbn [dot span_max]; [lia|]. specialize (IH sr Hsr). nia.
Qed.

Lemma no_zero_extent : forall idx xs, in_range idx xs -> existsb (fun e => e =? 0) xs = false.
Proof.
  intros idx xs H. induction H as [|i x ir xr Hix Hr IH]; [reflexivity|].
  cbn [existsb]. rewrite IH. destruct (x =? 0) eqn:Hx; [lia | reflexivity].
Qed.

Lemma strided_in_bounds : forall idx xs ss, in_range idx xs -> Forall (fun s => 0 <= s) ss ->
  0 <= dot idx ss < stride_required xs ss.
Proof.
  intros idx xs ss H Hs. unfold stride_required. rewrite (no_zero_extent _ _ H).
  assert (B := dot_le_span_max _ _ _ H Hs). lia.
Qed.

(* uniqueness: a list of (index, index', extent, stride) ordered from the largest stride down *)
Definition q_i (q : Z * Z * Z * Z) : Z := fst (fst (fst q)).
Definition q_i' (q : Z * Z * Z * Z) : Z := snd (fst (fst q)).
Definition q_e (q : Z * Z * Z * Z) : Z := snd (fst q).
Definition q_s (q : Z * Z * Z * Z) : Z := snd q.
Definition q_es (q : Z * Z * Z * Z) : Z * Z := (q_e q, q_s q).

Fixpoint qdot (f : Z * Z * Z * Z -> Z) (l : list (Z * Z * Z * Z)) : Z :=
  match l with [] => 0 | q :: r => f q * q_s q + qdot f r end.

Definition q_ok (q : Z * Z * Z * Z) : Prop := 0 <= q_i q < q_e q /\ 0 <= q_i' q < q_e q /\ 0 < q_s q.

(* in a chain the whole tail spans less than the head's stride times its extent *)
Lemma chain_bound : forall f l, (forall q, In q l -> 0 <= f q < q_e q /\ 0 < q_s q) ->
  chain (map q_es l) ->
  0 <= qdot f l /\ match l with [] => qdot f l = 0 | q :: _ => qdot f l < q_e q * q_s q end.
Proof.
  intros f. induction l as [|q r IH]; intros Hok Hch; [cbn; lia|].
  cbn [map chain q_es] in Hch. destruct Hch as [Hhead Htail].
  assert (Hq := Hok q (or_introl eq_refl)).
  assert (Hr : forall q0, In q0 r -> 0 <= f q0 < q_e q0 /\ 0 < q_s q0) by (intros q0 H0; apply Hok; right; exact H0).
  specialize (IH Hr Htail). cbn [qdot]. destruct r as [|q2 r2].
  - cbn [qdot] in *. nia.
  - cbn [map q_es] in Hhead. destruct IH as [IH0 IH1]. nia.
Qed.

Lemma chain_inj : forall l, Forall q_ok l -> chain (map q_es l) ->
  qdot q_i l = qdot q_i' l -> Forall (fun q => q_i q = q_i' q) l.
Proof.
  induction l as [|q r IH]; intros Hok Hch Heq; [constructor|].
  inversion Hok as [|? ? Hq Hr]; subst.
  assert (Hch' := Hch). cbn [map chain q_es] in Hch'. destruct Hch' as [Hhead Htail].
  assert (B1 : 0 <= qdot q_i r /\ match r with [] => qdot q_i r = 0 | q2 :: _ => qdot q_i r < q_e q2 * q_s q2 end).
  { apply chain_bound; [|exact Htail]. intros q0 H0. rewrite Forall_forall in Hr. destruct (Hr q0 H0) as [A [B C]]. auto. }
  assert (B2 : 0 <= qdot q_i' r /\ match r with [] => qdot q_i' r = 0 | q2 :: _ => qdot q_i' r < q_e q2 * q_s q2 end).
  { apply chain_bound; [|exact Htail]. intros q0 H0. rewrite Forall_forall in Hr. destruct (Hr q0 H0) as [A [B C]]. auto. }
  cbn [qdot] in Heq. destruct Hq as [Hi [Hi' Hs]].
  assert (Hlt : qdot q_i r < q_s q /\ qdot q_i' r < q_s q).
  { destruct r as [|q2 r2]; [cbn [qdot]; lia|]. cbn [map q_es] in Hhead. lia. }
  assert (Hii : q_i q = q_i' q) by nia.
  constructor; [exact Hii|]. apply IH; [exact Hr | exact Htail | nia].
Qed.

(* the permutation: offsets and in-range-ness do not depend on the order of the dimensions *)
Lemma qdot_perm : forall f l l', Permutation l l' -> qdot f l = qdot f l'.
Proof. intros f l l' H. induction H; cbn [qdot]; lia. Qed.

Fixpoint zip4 (idx idx' xs ss : list Z) : list (Z * Z * Z * Z) :=
  match idx, idx', xs, ss with
  | i :: ir, i' :: ir', x :: xr, s :: sr => (i, i', x, s) :: zip4 ir ir' xr sr
  | _, _, _, _ => []
  end.

Lemma zip4_facts : forall idx xs, in_range idx xs -> forall idx', in_range idx' xs -> forall ss,
  length ss = length xs -> Forall (fun s => 0 < s) ss ->
  Forall q_ok (zip4 idx idx' xs ss) /\ qdot q_i (zip4 idx idx' xs ss) = dot idx ss
  /\ qdot q_i' (zip4 idx idx' xs ss) = dot idx' ss
  /\ map q_es (zip4 idx idx' xs ss) = combine xs ss
  /\ (Forall (fun q => q_i q = q_i' q) (zip4 idx idx' xs ss) -> idx = idx').
Proof.
  intros idx xs H. induction H as [|i x ir xr Hix Hr IH]; intros idx' H' ss Hl Hs.
  - inversion H'. cbn. repeat split; auto.
  - inversion H' as [|i' x' ir' xr' Hix' Hr' E1 E2]; subst.
    destruct ss as [|s sr]; [discriminate|]. inversion Hs as [|? ? Hs0 Hsr]; subst.
    cbn in Hl. destruct (IH ir' Hr' sr ltac:(lia) Hsr) as [A [B [C [Dq E]]]].
    cbn [zip4 qdot dot map combine]. repeat split.
    + constructor; [unfold q_ok, q_i, q_i', q_e, q_s; cbn; lia | exact A].
    + rewrite B. reflexivity.
    + rewrite C. reflexivity.
    + rewrite Dq. reflexivity.
    + intros HF. inversion HF as [|? ? H1 H2]; subst. cbn in H1. rewrite (E H2). congruence.
Qed.

(* [mdspan.layout.stride]: positive strides that can be ordered (by some permutation of the
   dimensions) so that each is at least the next one's stride * extent give a unique layout *)
Definition unique_strides (xs ss : list Z) : Prop :=
  length ss = length xs /\ Forall (fun s => 0 < s) ss
  /\ exists es', Permutation (combine xs ss) es' /\ chain es'.

Lemma strided_injective : forall xs ss idx idx', unique_strides xs ss ->
  in_range idx xs -> in_range idx' xs -> dot idx ss = dot idx' ss -> idx = idx'.
Proof.
  intros xs ss idx idx' [Hl [Hs [es' [Hperm Hch]]]] H H' Heq.
  destruct (zip4_facts idx xs H idx' H' ss Hl Hs) as [A [B [C [Dq E]]]].
  apply E. rewrite <- Dq in Hperm.
  destruct (Permutation_map_inv _ _ (Permutation_sym Hperm)) as [l' [Hes' Hp']].
  subst es'.
  assert (HF : Forall (fun q => q_i q = q_i' q) l').
  { apply chain_inj.
    - rewrite Forall_forall in *. intros q Hq. apply A. eapply Permutation_in; [apply Permutation_sym; exact Hp' | exact Hq].
    - exact Hch.
    - rewrite <- (qdot_perm q_i _ _ Hp'). rewrite <- (qdot_perm q_i' _ _ Hp'). congruence. }
  rewrite Forall_forall in *. intros q Hq. apply HF. eapply Permutation_in; [exact Hp' | exact Hq].
Qed.
