(* C19 proofs, part 2: extents -- _dynamic_index, extent(i), every constructor stores what extent(i)
   later returns, for EVERY static/dynamic pattern (induction on the pattern). *)
From Tetl Require Import Lib.Base C19.Model C19.Spec C19.ProofsArith.
Local Open Scope Z_scope.
Ltac Zify.zify_post_hook ::= Z.to_euclidean_division_equations.

Lemma Forall_firstn : forall (A : Type) (P : A -> Prop) n (l : list A), Forall P l -> Forall P (firstn n l).
Proof.
  intros A P n. induction n as [|n IH]; intros l H; [constructor|].
  destruct l as [|x r]; [constructor|]. inversion H; subst. cbn. constructor; auto.
Qed.

Lemma Forall_skipn : forall (A : Type) (P : A -> Prop) n (l : list A), Forall P l -> Forall P (skipn n l).
Proof.
  intros A P n. induction n as [|n IH]; intros l H; [exact H|].
  destruct l as [|x r]; [constructor|]. inversion H; subst. cbn. auto.
Qed.

(** * _dynamic_index *)
Lemma dyn_index_from_firstn : forall p k i,
  dyn_index_from p k i = rank_dynamic (firstn (i - k) p).
Proof.
  induction p as [|x r IH]; intros k i; cbn [dyn_index_from].
  - rewrite firstn_nil. reflexivity.
  - rewrite IH. destruct (k <? i)%nat eqn:Hc.
    + apply Nat.ltb_lt in Hc. replace (i - k)%nat with (S (i - S k)) by lia.
      cbn [firstn rank_dynamic]. destruct x; lia.
    + apply Nat.ltb_ge in Hc. replace (i - k)%nat with O by lia.
      replace (i - S k)%nat with O by lia. cbn. reflexivity.
Qed.

Lemma dynamic_index_firstn : forall p i, dynamic_index p i = rank_dynamic (firstn i p).
Proof. intros p i. unfold dynamic_index. rewrite dyn_index_from_firstn. f_equal. f_equal. lia. Qed.

Lemma rank_dynamic_app : forall p q, rank_dynamic (p ++ q) = (rank_dynamic p + rank_dynamic q)%nat.
Proof.
  induction p as [|x r IH]; intros q; cbn [app rank_dynamic]; [reflexivity|].
  rewrite IH. destruct x; reflexivity.
Qed.

Lemma dynamic_index_app : forall p1 p2, dynamic_index (p1 ++ p2) (length p1) = rank_dynamic p1.
Proof.
  intros p1 p2. rewrite dynamic_index_firstn. rewrite firstn_app.
  rewrite Nat.sub_diag. rewrite firstn_O. rewrite app_nil_r. rewrite firstn_all. reflexivity.
Qed.

Lemma static_extent_app : forall p1 x p2, static_extent (p1 ++ x :: p2) (length p1) = x.
Proof. intros p1 x p2. unfold static_extent. rewrite app_nth2 by lia. rewrite Nat.sub_diag. reflexivity. Qed.

Lemma rank_dynamic_le : forall p, (rank_dynamic p <= length p)%nat.
Proof. induction p as [|x r IH]; cbn [rank_dynamic length]; [lia|]. destruct x; lia. Qed.

(* no dynamic position / only dynamic positions *)
Lemma rank_dynamic_zero : forall p, rank_dynamic p = O -> Forall (fun x => x <> None) p.
Proof.
  induction p as [|x r IH]; intros H; [constructor|].
  cbn [rank_dynamic] in H. destruct x as [n|]; [|discriminate].
  constructor; [discriminate | auto].
Qed.

Lemma rank_dynamic_full : forall p, rank_dynamic p = length p -> Forall (fun x => x = None) p.
Proof.
  induction p as [|x r IH]; intros H; [constructor|].
  cbn [rank_dynamic length] in H. assert (Hle := rank_dynamic_le r).
  destruct x as [n|]; [lia|]. constructor; [reflexivity | apply IH; lia].
Qed.

Lemma rank_dynamic_all_none : forall p, Forall (fun x => x = None) p -> rank_dynamic p = length p.
Proof.
  induction p as [|x r IH]; intros H; [reflexivity|].
  inversion H as [|? ? Hx Hr]; subst. cbn [rank_dynamic length]. rewrite IH by assumption. reflexivity.
Qed.

(** * extent(i): the three `if constexpr` branches compute the same function *)
Definition extent_gen (t : ity) (p : pattern) (d : list Z) (i : nat) : Z :=
  match static_extent p i with
  | Some n => cast t n
  | None => nth (dynamic_index p i) d 0
  end.

Lemma extent_general : forall t e i, (i < rank e)%nat -> extent t e i = extent_gen t (pat e) (dyn e) i.
Proof.
  intros t e i Hi. unfold extent, extent_gen, rank in *.
  destruct (rank_dynamic (pat e) =? 0)%nat eqn:H0.
  - apply Nat.eqb_eq in H0. apply rank_dynamic_zero in H0.
    rewrite Forall_forall in H0. unfold static_extent.
    destruct (nth i (pat e) None) eqn:Hn; [reflexivity|].
    exfalso. apply (H0 None); [|reflexivity]. rewrite <- Hn. apply nth_In. exact Hi.
  - destruct (rank_dynamic (pat e) =? length (pat e))%nat eqn:H1; [|reflexivity].
    apply Nat.eqb_eq in H1. assert (Hall := rank_dynamic_full _ H1).
    assert (Hnone : static_extent (pat e) i = None).
    { rewrite Forall_forall in Hall. apply Hall. apply nth_In. exact Hi. }
    rewrite Hnone. rewrite dynamic_index_firstn.
    rewrite rank_dynamic_all_none.
    + rewrite firstn_length. rewrite Nat.min_l by lia. reflexivity.
    + apply Forall_firstn. exact Hall.
Qed.

(** * extents_list in terms of the pattern and the dynamic array *)
(* walk the pattern, taking the next element of the dynamic array at every dynamic position *)
Fixpoint merge (t : ity) (p : pattern) (d : list Z) : list Z :=
  match p with
  | [] => []
  | Some n :: r => cast t n :: merge t r d
  | None :: r => nth 0 d 0 :: merge t r (tl d)
  end.

Lemma nth_skipn_0 : forall (l : list Z) k, nth 0 (skipn k l) 0 = nth k l 0.
Proof.
  induction l as [|x r IH]; intros k; destruct k; cbn; try reflexivity. apply IH.
Qed.

Lemma tl_skipn : forall (l : list Z) k, tl (skipn k l) = skipn (S k) l.
Proof.
  induction l as [|x r IH]; intros k.
  - destruct k; reflexivity.
  - destruct k as [|k]; [reflexivity|]. cbn [skipn]. rewrite IH. reflexivity.
Qed.

Lemma extents_suffix : forall t p2 p1 d,
  map (extent_gen t (p1 ++ p2) d) (seq (length p1) (length p2))
  = merge t p2 (skipn (rank_dynamic p1) d).
Proof.
  induction p2 as [|x r IH]; intros p1 d; [reflexivity|].
  cbn [length seq map merge].
  assert (Hassoc : p1 ++ x :: r = (p1 ++ [x]) ++ r) by (rewrite <- app_assoc; reflexivity).
  assert (Hlen : S (length p1) = length (p1 ++ [x])) by (rewrite app_length; cbn; lia).
  assert (Hhead : extent_gen t (p1 ++ x :: r) d (length p1)
                  = match x with Some n => cast t n | None => nth (rank_dynamic p1) d 0 end).
  { unfold extent_gen. rewrite static_extent_app. rewrite dynamic_index_app. reflexivity. }
  rewrite Hhead. rewrite Hassoc at 1. rewrite Hlen. rewrite IH.
  rewrite rank_dynamic_app. cbn [rank_dynamic].
  destruct x as [n|].
  - replace (rank_dynamic p1 + 0)%nat with (rank_dynamic p1) by lia. reflexivity.
  - rewrite nth_skipn_0. rewrite tl_skipn.
    replace (rank_dynamic p1 + 1)%nat with (S (rank_dynamic p1)) by lia. reflexivity.
Qed.

Lemma extents_list_merge : forall t e, extents_list t e = merge t (pat e) (dyn e).
Proof.
  intros t e. unfold extents_list.
  transitivity (map (extent_gen t (pat e) (dyn e)) (seq 0 (rank e))).
  - apply map_ext_in. intros i Hi. apply in_seq in Hi. apply extent_general. lia.
  - apply (extents_suffix t (pat e) [] (dyn e)).
Qed.

Lemma extents_list_length : forall t e, length (extents_list t e) = rank e.
Proof. intros t e. unfold extents_list. rewrite map_length. apply seq_length. Qed.

Lemma merge_length : forall t p d, length (merge t p d) = length p.
Proof. induction p as [|x r IH]; intros d; [reflexivity|]. destruct x; cbn; rewrite IH; reflexivity. Qed.

(** * the constructors *)
(* positions (counted from k) of the dynamic extents *)
Fixpoint dynpos (p : pattern) (k : nat) : list nat :=
  match p with
  | [] => []
  | None :: r => k :: dynpos r (S k)
  | Some _ :: r => dynpos r (S k)
  end.

Lemma upd_app_head : forall a v w r, upd (a ++ w :: r) (length a) v = a ++ v :: r.
Proof. induction a as [|x a IH]; intros v w r; cbn; [reflexivity|]. rewrite IH. reflexivity. Qed.

(* the store loop over positions length p1 .. rank-1 *)
Lemma fill_loop : forall (f : nat -> Z) p2 p1 a,
  length a = rank_dynamic p1 ->
  fold_left (fun d i => match static_extent (p1 ++ p2) i with
                        | None => upd d (dynamic_index (p1 ++ p2) i) (f i)
                        | Some _ => d
                        end)
            (seq (length p1) (length p2)) (a ++ repeat 0 (rank_dynamic p2))
  = a ++ map f (dynpos p2 (length p1)).
Proof.
  intros f. induction p2 as [|x r IH]; intros p1 a Ha.
  - cbn. reflexivity.
  - cbn [length seq fold_left].
    rewrite static_extent_app. rewrite dynamic_index_app.
    assert (Hassoc : p1 ++ x :: r = (p1 ++ [x]) ++ r) by (rewrite <- app_assoc; reflexivity).
    assert (Hlen : S (length p1) = length (p1 ++ [x])) by (rewrite app_length; cbn; lia).
    destruct x as [n|].
    + cbn [rank_dynamic dynpos]. rewrite Hassoc. rewrite Hlen. apply IH.
      rewrite rank_dynamic_app. cbn. lia.
    + cbn [rank_dynamic repeat dynpos map]. rewrite <- Ha. rewrite upd_app_head.
      replace (a ++ f (length p1) :: repeat 0 (rank_dynamic r))
        with ((a ++ [f (length p1)]) ++ repeat 0 (rank_dynamic r)) by (rewrite <- app_assoc; reflexivity).
      rewrite Hassoc. rewrite Hlen. rewrite IH.
      * rewrite <- app_assoc. reflexivity.
      * rewrite app_length. rewrite rank_dynamic_app. cbn. lia.
Qed.

Lemma fill_dyn_spec : forall p f, fill_dyn p f = map f (dynpos p 0).
Proof. intros p f. unfold fill_dyn. apply (fill_loop f p [] []). reflexivity. Qed.

(* reading back: merge over the filled array gives f at the dynamic positions *)
Fixpoint imap (t : ity) (f : nat -> Z) (k : nat) (p : pattern) : list Z :=
  match p with
  | [] => []
  | Some n :: r => cast t n :: imap t f (S k) r
  | None :: r => f k :: imap t f (S k) r
  end.

Lemma merge_dynpos : forall t f p k, merge t p (map f (dynpos p k)) = imap t f k p.
Proof.
  intros t f. induction p as [|x r IH]; intros k; [reflexivity|].
  destruct x as [n|]; cbn [merge dynpos imap map nth tl]; rewrite IH; reflexivity.
Qed.

Lemma imap_all : forall t vals p k,
  (k + length p <= length vals)%nat ->
  imap t (fun i => cast t (nth i vals 0)) k p = map (cast t) (extents_all p (skipn k vals)).
Proof.
  intros t vals. induction p as [|x r IH]; intros k Hk; [reflexivity|].
  cbn [length] in Hk.
  assert (Hsk : skipn k vals = nth k vals 0 :: skipn (S k) vals).
  { clear - Hk. revert k Hk. induction vals as [|v vs IHv]; intros k Hk; cbn [length] in Hk; [lia|].
    destruct k; [reflexivity|]. cbn [skipn nth]. apply IHv. lia. }
  rewrite Hsk. destruct x as [n|]; cbn [imap extents_all map]; rewrite IH by lia; reflexivity.
Qed.

Lemma merge_statics : forall t p d, rank_dynamic p = O -> forall vals, length vals = length p ->
  merge t p d = map (cast t) (extents_all p vals).
Proof.
  intros t. induction p as [|x r IH]; intros d H vals Hl; [reflexivity|].
  cbn [rank_dynamic] in H. destruct x as [n|]; [|discriminate].
  destruct vals as [|v vs]; [discriminate|]. cbn [merge extents_all map]. f_equal. apply IH; auto.
Qed.

Lemma merge_statics_dyn : forall t p d, rank_dynamic p = O -> forall vals,
  merge t p d = map (cast t) (extents_dyn p vals).
Proof.
  intros t. induction p as [|x r IH]; intros d H vals; [reflexivity|].
  cbn [rank_dynamic] in H. destruct x as [n|]; [|discriminate].
  cbn [merge extents_dyn map]. f_equal. apply IH; auto.
Qed.

Lemma merge_dyn : forall t p vals, length vals = rank_dynamic p ->
  merge t p (map (cast t) vals) = map (cast t) (extents_dyn p vals).
Proof.
  intros t. induction p as [|x r IH]; intros vals Hl; [reflexivity|].
  cbn [rank_dynamic] in Hl. destruct x as [n|].
  - cbn [merge extents_dyn map]. f_equal. apply IH. exact Hl.
  - destruct vals as [|v vs]; [discriminate|]. cbn [merge extents_dyn map nth tl]. f_equal.
    apply IH. cbn in Hl. lia.
Qed.

Lemma extents_all_dyn_full : forall p vals, rank_dynamic p = length p -> length vals = length p ->
  extents_all p vals = extents_dyn p vals.
Proof.
  induction p as [|x r IH]; intros vals H Hl; [reflexivity|].
  cbn [rank_dynamic length] in H. assert (Hle := rank_dynamic_le r).
  destruct x as [n|]; [lia|]. destruct vals as [|v vs]; [discriminate|].
  cbn [extents_all extents_dyn]. f_equal. apply IH; [lia | cbn in Hl; lia].
Qed.

(* all-extents form (N == rank): every dimension gets the value passed for it, static dimensions keep
   their static extent -- for every pattern *)
Lemma ext_from_span_all : forall t p vals, length vals = length p ->
  extents_list t (ext_from_span t p vals) = map (cast t) (extents_all p vals).
Proof.
  intros t p vals Hl. rewrite extents_list_merge. unfold ext_from_span.
  destruct (rank_dynamic p =? 0)%nat eqn:H0.
  - apply Nat.eqb_eq in H0. cbn [ext_default pat dyn]. apply merge_statics; assumption.
  - destruct (length vals =? rank_dynamic p)%nat eqn:H1; cbn [pat dyn].
    + apply Nat.eqb_eq in H1. rewrite merge_dyn by assumption.
      rewrite extents_all_dyn_full; [reflexivity | lia | assumption].
    + rewrite fill_dyn_spec. rewrite merge_dynpos. rewrite imap_all by (cbn; lia). reflexivity.
Qed.

(* dynamic-extents form (N == rank_dynamic) *)
Lemma ext_from_span_dyn : forall t p vals, length vals = rank_dynamic p ->
  extents_list t (ext_from_span t p vals) = map (cast t) (extents_dyn p vals).
Proof.
  intros t p vals Hl. rewrite extents_list_merge. unfold ext_from_span.
  destruct (rank_dynamic p =? 0)%nat eqn:H0.
  - apply Nat.eqb_eq in H0. cbn [ext_default pat dyn]. apply merge_statics_dyn. assumption.
  - rewrite Hl. rewrite Nat.eqb_refl. cbn [pat dyn]. apply merge_dyn. assumption.
Qed.

Lemma map_cast_idem : forall t l, wf_ity t -> map (cast t) (map (cast t) l) = map (cast t) l.
Proof. intros t l Hwf. rewrite map_map. apply map_ext. intros x. apply cast_idem. exact Hwf. Qed.

Lemma extents_all_map : forall (f : Z -> Z) p vals, (forall n, In (Some n) p -> f n = n) ->
  extents_all p (map f vals) = map f (extents_all p vals).
Proof.
  intros f. induction p as [|x r IH]; intros vals Hf; [reflexivity|].
  destruct vals as [|v vs]; [destruct x; reflexivity|].
  destruct x as [n|]; cbn [map extents_all]; rewrite IH by (intros m Hm; apply Hf; right; exact Hm).
  - rewrite Hf by (left; reflexivity). reflexivity.
  - reflexivity.
Qed.

(* the pack constructor converts twice; the result is the same *)
Lemma ext_from_pack_all : forall t p vals, wf_ity t -> length vals = length p ->
  extents_list t (ext_from_pack t p vals) = map (cast t) (extents_all p vals).
Proof.
  intros t p vals Hwf Hl. unfold ext_from_pack.
  rewrite ext_from_span_all by (rewrite map_length; exact Hl).
  clear Hl. revert vals. induction p as [|x r IH]; intros vals; [reflexivity|].
  destruct vals as [|v vs]; [destruct x; reflexivity|].
  destruct x as [n|]; cbn [map extents_all]; rewrite IH; [reflexivity|].
  rewrite cast_idem by exact Hwf. reflexivity.
Qed.

Lemma ext_from_pack_dyn : forall t p vals, wf_ity t -> length vals = rank_dynamic p ->
  extents_list t (ext_from_pack t p vals) = map (cast t) (extents_dyn p vals).
Proof.
  intros t p vals Hwf Hl. unfold ext_from_pack.
  rewrite ext_from_span_dyn by (rewrite map_length; exact Hl).
  clear Hl. revert vals. induction p as [|x r IH]; intros vals; [reflexivity|].
  destruct x as [n|]; cbn [map extents_dyn].
  - rewrite IH. reflexivity.
  - destruct vals as [|v vs]; cbn [map extents_dyn].
    + reflexivity.
    + rewrite IH. rewrite cast_idem by exact Hwf. reflexivity.
Qed.

Lemma ext_default_list : forall t p, wf_ity t ->
  extents_list t (ext_default p) = map (cast t) (extents_dyn p []).
Proof.
  intros t p Hwf. rewrite extents_list_merge. cbn [ext_default pat dyn].
  generalize (rank_dynamic p) as n. induction p as [|x r IH]; intros n; [reflexivity|].
  destruct x as [m|]; cbn [merge extents_dyn map].
  - rewrite IH. reflexivity.
  - assert (Hc : cast t 0 = 0) by (apply cast_id; [exact Hwf | assert (H := imax_nonneg t Hwf); lia]).
    destruct n; cbn [repeat nth tl].
    + rewrite Hc. f_equal. apply (IH O).
    + rewrite Hc. f_equal. apply IH.
Qed.

(* converting constructor: every dynamic extent of the destination receives the source's extent *)
Lemma imap_conv : forall t (g : nat -> Z) p k,
  imap t (fun i => cast t (g i)) k p = map (cast t) (extents_all p (map g (seq k (length p)))).
Proof.
  intros t g. induction p as [|x r IH]; intros k; [reflexivity|].
  cbn [length seq map]. destruct x as [n|]; cbn [imap extents_all map]; rewrite IH; reflexivity.
Qed.

Lemma ext_convert_list : forall t p t' e', rank e' = length p ->
  extents_list t (ext_convert t p t' e') = map (cast t) (extents_all p (extents_list t' e')).
Proof.
  intros t p t' e' Hr. rewrite extents_list_merge. unfold ext_convert.
  destruct (0 <? rank_dynamic p)%nat eqn:H0; cbn [pat dyn ext_default].
  - rewrite fill_dyn_spec. rewrite merge_dynpos. rewrite imap_conv.
    unfold extents_list. rewrite Hr. reflexivity.
  - apply Nat.ltb_ge in H0. apply merge_statics; [lia|].
    rewrite extents_list_length. exact Hr.
Qed.

(** * statements at the level of the standard: representable values are stored unchanged *)
Definition representable (t : ity) (x : Z) : Prop := 0 <= x <= imax t.

Lemma map_cast_repr : forall t l, wf_ity t -> Forall (representable t) l -> map (cast t) l = l.
Proof.
  intros t l Hwf H. induction H as [|x r Hx Hr IH]; [reflexivity|].
  cbn [map]. rewrite IH. rewrite cast_id by assumption. reflexivity.
Qed.

(* the values passed for static dimensions equal the static extents ([mdspan.extents.cons] precondition) *)
Definition agrees (p : pattern) (vals : list Z) : Prop :=
  Forall2 (fun po v => match po with Some n => v = n | None => True end) p vals.

Lemma Forall2_len : forall (A B : Type) (R : A -> B -> Prop) l1 l2, Forall2 R l1 l2 -> length l1 = length l2.
Proof. intros A B R l1 l2 H. induction H; cbn; congruence. Qed.

Lemma extents_all_agrees : forall p vals, agrees p vals -> extents_all p vals = vals.
Proof.
  intros p vals H. induction H as [|po v pr vr Hpv Hr IH]; [reflexivity|].
  destruct po as [n|]; cbn [extents_all]; rewrite IH; [subst; reflexivity | reflexivity].
Qed.

Lemma ctor_all_std : forall t p vals, wf_ity t -> agrees p vals -> Forall (representable t) vals ->
  extents_list t (ext_from_pack t p vals) = vals /\ extents_list t (ext_from_span t p vals) = vals.
Proof.
  intros t p vals Hwf Hag Hrep.
  assert (Hl : length vals = length p) by (symmetry; eapply Forall2_len; exact Hag).
  rewrite ext_from_pack_all by assumption. rewrite ext_from_span_all by assumption.
  rewrite extents_all_agrees by assumption. rewrite map_cast_repr by assumption. auto.
Qed.

Lemma ctor_dyn_std : forall t p vals, wf_ity t -> length vals = rank_dynamic p ->
  Forall (representable t) (extents_dyn p vals) ->
  extents_list t (ext_from_pack t p vals) = extents_dyn p vals
  /\ extents_list t (ext_from_span t p vals) = extents_dyn p vals.
Proof.
  intros t p vals Hwf Hl Hrep.
  rewrite ext_from_pack_dyn by assumption. rewrite ext_from_span_dyn by assumption.
  rewrite map_cast_repr by assumption. auto.
Qed.

Lemma ctor_convert_std : forall t p t' e', wf_ity t -> rank e' = length p ->
  agrees p (extents_list t' e') -> Forall (representable t) (extents_list t' e') ->
  extents_list t (ext_convert t p t' e') = extents_list t' e'.
Proof.
  intros t p t' e' Hwf Hr Hag Hrep. rewrite ext_convert_list by assumption.
  rewrite extents_all_agrees by assumption. apply map_cast_repr; assumption.
Qed.

(* every constructor leaves values of the index type in the dynamic array, one per dynamic extent *)
Definition wf_ext (t : ity) (e : extents) : Prop :=
  length (dyn e) = rank_dynamic (pat e) /\ Forall (fun v => in_ty t v = true) (dyn e).

Lemma dynpos_length : forall p k, length (dynpos p k) = rank_dynamic p.
Proof.
  induction p as [|x r IH]; intros k; [reflexivity|]. destruct x; cbn [dynpos rank_dynamic length]; rewrite IH; reflexivity.
Qed.

Lemma Forall_map_cast : forall t l, wf_ity t -> Forall (fun v => in_ty t v = true) (map (cast t) l).
Proof.
  intros t l Hwf. induction l as [|x r IH]; [constructor|]. cbn [map]. constructor; [apply cast_in_ty; exact Hwf | exact IH].
Qed.

Lemma ext_default_wf : forall t p, wf_ity t -> wf_ext t (ext_default p).
Proof.
  intros t p Hwf. unfold wf_ext. cbn [ext_default pat dyn]. split; [apply repeat_length|].
  assert (H0 : in_ty t 0 = true).
  { rewrite <- (cast_id t 0) at 1; [apply cast_in_ty; exact Hwf | exact Hwf |].
    assert (H := imax_nonneg t Hwf). lia. }
  generalize (rank_dynamic p) as n. induction n; cbn [repeat]; constructor; auto.
Qed.

Lemma ext_from_span_wf : forall t p vals, wf_ity t ->
  length vals = rank_dynamic p \/ length vals = length p -> wf_ext t (ext_from_span t p vals).
Proof.
  intros t p vals Hwf Hl. unfold ext_from_span.
  destruct (rank_dynamic p =? 0)%nat eqn:H0; [apply ext_default_wf; exact Hwf|].
  destruct (length vals =? rank_dynamic p)%nat eqn:H1; unfold wf_ext; cbn [pat dyn].
  - apply Nat.eqb_eq in H1. split; [rewrite map_length; exact H1 | apply Forall_map_cast; exact Hwf].
  - rewrite fill_dyn_spec. split; [rewrite map_length; apply dynpos_length|].
    rewrite Forall_forall. intros v Hv. apply in_map_iff in Hv. destruct Hv as [i [Hi _]].
    subst v. apply cast_in_ty. exact Hwf.
Qed.

Lemma ext_convert_wf : forall t p t' e', wf_ity t -> wf_ext t (ext_convert t p t' e').
Proof.
  intros t p t' e' Hwf. unfold ext_convert.
  destruct (0 <? rank_dynamic p)%nat; [|apply ext_default_wf; exact Hwf].
  unfold wf_ext; cbn [pat dyn]. rewrite fill_dyn_spec. split; [rewrite map_length; apply dynpos_length|].
  rewrite Forall_forall. intros v Hv. apply in_map_iff in Hv. destruct Hv as [i [Hi _]].
  subst v. apply cast_in_ty. exact Hwf.
Qed.

(* extents of a well-formed object are values of the index type *)
Lemma merge_in_ty : forall t p d, wf_ity t -> Forall (fun v => in_ty t v = true) d ->
  (rank_dynamic p <= length d)%nat -> Forall (fun v => in_ty t v = true) (merge t p d).
Proof.
  intros t. induction p as [|x r IH]; intros d Hwf Hd Hl; [constructor|].
  destruct x as [n|]; cbn [merge rank_dynamic] in *.
  - constructor; [apply cast_in_ty; exact Hwf | apply IH; assumption].
  - destruct d as [|v vs]; [cbn in Hl; lia|]. inversion Hd; subst. cbn [nth tl]. constructor; [assumption|].
    apply IH; [assumption | assumption | cbn in Hl; lia].
Qed.

Lemma extents_list_in_ty : forall t e, wf_ity t -> wf_ext t e ->
  Forall (fun v => in_ty t v = true) (extents_list t e).
Proof.
  intros t e Hwf [Hl Hd]. rewrite extents_list_merge. apply merge_in_ty; [assumption | assumption | lia].
Qed.
