(* C05 model, part 5: the EVALUATION MODE of a guarded call (added after the missed seed C05-g1).

   include/etl/_cassert/assert.hpp:
       template <typename Assertion> [[noreturn]] auto assert_handler(Assertion const& msg) -> void;     // NOT constexpr,
                                     // neither the declaration for TETL_ENABLE_CUSTOM_ASSERT_HANDLER nor the default definition
       #define TETL_ASSERT_IMPL(...)  do { if (not(__VA_ARGS__)) [[unlikely]] { etl::assert_handler(etl::assert_msg{...}); } } while (false)

   The condition is evaluated in the same way whatever the evaluation mode (the macro does not ask
   etl::is_constant_evaluated()).  The guarded functions of the library are constexpr, so a call is evaluated either
     - at run time: a false condition calls the handler, or
     - during constant evaluation (initialiser of a constexpr / constinit variable, static_assert, template argument, array
       bound): a false condition makes the evaluation reach a call of a function that is not constexpr; the expression is not
       a core constant expression ([expr.const]) and the program is ILL-FORMED, diagnostic required - a violation can never be
       folded into a constant silently. *)
From Tetl Require Import Lib.Base C05.Model C05.ModelMode.
Local Open Scope Z_scope.

Inductive eval_mode := RunTime | ConstantEval.

(* how the statement TETL_ASSERT_IMPL(cond) leaves the normal flow of control, if it does *)
Inductive stop := StopHandler | StopIllFormed.
Definition assert_impl (m : eval_mode) (cond : bool) : option stop :=
  if cond then None else Some (match m with RunTime => StopHandler | ConstantEval => StopIllFormed end).

(* TETL_PRECONDITION(cond) / TETL_PRECONDITION_SAFE(cond): the macro of a level that is not active expands to nothing *)
Definition contract_stmt (m : eval_mode) (active cond : bool) : option stop :=
  if active then assert_impl m cond else None.

Inductive call_outcome :=
  | Returns          (* no check fired and the guard holds: the body runs with its precondition satisfied *)
  | HandlerCalled    (* etl::assert_handler was called with the failing location (run time) *)
  | IllFormed        (* constant evaluation reached the handler call: not a constant expression *)
  | Unchecked.       (* the guard is false but its macro is not active: the body runs outside its precondition (anything
                        may follow: a wrong value, or undefined behaviour - which a constant evaluation rejects by itself) *)

(* a call of a function whose TETL_PRECONDITION evaluates to [guard], the macro of its level being [active] *)
Definition guarded_call (m : eval_mode) (active guard : bool) : call_outcome :=
  match contract_stmt m active guard with
  | Some StopHandler => HandlerCalled
  | Some StopIllFormed => IllFormed
  | None => if guard then Returns else Unchecked
  end.

(* the same in a build configuration (checks / safe = the two macros of _contracts/check.hpp are defined); [safe_level] = the
   site is written with TETL_PRECONDITION_SAFE (array::operator[]) *)
Definition site_active (checks safe safe_level : bool) : bool :=
  if safe_level then precondition_safe_active checks safe else precondition_active checks safe.
Definition call_in_build (m : eval_mode) (checks safe safe_level guard : bool) : call_outcome :=
  guarded_call m (site_active checks safe safe_level) guard.

(* what a translation unit that uses the call as a constant expression does: true = it compiles *)
Definition constant_expression_accepted (o : call_outcome) : option bool :=
  match o with
  | Returns => Some true
  | IllFormed => Some false
  | HandlerCalled => Some false    (* cannot happen in a constant evaluation (theorem) *)
  | Unchecked => None              (* not determined by the contract scheme *)
  end.

(* the operations that the seed's demonstration names, in constant evaluation *)
Definition ct_day (checks safe : bool) (d : Z) : call_outcome := call_in_build ConstantEval checks safe false (day_ctor d).
Definition ct_month (checks safe : bool) (m : Z) : call_outcome := call_in_build ConstantEval checks safe false (month_ctor m).
Definition ct_span_ctor (checks safe : bool) (ext count : Z) : call_outcome :=
  call_in_build ConstantEval checks safe false (span_ctor_count ext count).
Definition ct_sv_remove_suffix (checks safe : bool) (n k : Z) : call_outcome :=
  call_in_build ConstantEval checks safe false (sv_remove_suffix n k).
Definition ct_array_index (checks safe : bool) (n i : Z) : call_outcome :=
  call_in_build ConstantEval checks safe true (u64 i <? n).
