(* C05 model, part 4:
   (a) the macro selection of include/etl/_contracts/check.hpp — which of TETL_PRECONDITION / TETL_PRECONDITION_SAFE is
       active for each combination of the two configuration macros — and what a check written with an inactive macro does;
   (b) the sized-range members of static_vector (insert / move_insert / assign / range constructor) and of
       basic_inplace_string (append(first, last) and what is built on it) with the iterator category as a parameter: which
       check fires, and whether the object is still unmodified when the handler runs. *)
From Tetl Require Import Lib.Base C05.Model.
Local Open Scope Z_scope.

(** * (a) _contracts/check.hpp
      #if defined(TETL_ENABLE_CONTRACT_CHECKS_SAFE)
          TETL_PRECONDITION_SAFE(...) = TETL_ASSERT_IMPL(...);  TETL_PRECONDITION(...) = TETL_ASSERT_IMPL(...)
      #elif defined(TETL_ENABLE_CONTRACT_CHECKS)
          TETL_PRECONDITION(...) = TETL_ASSERT_IMPL(...);       TETL_PRECONDITION_SAFE(...) = (nothing)
      #else
          both expand to nothing
    [checks] / [safe]: the macro is defined.  Result: (TETL_PRECONDITION active, TETL_PRECONDITION_SAFE active) *)
Definition contract_macros (checks safe : bool) : bool * bool :=
  if safe then (true, true) else if checks then (true, false) else (false, false).
Definition precondition_active (checks safe : bool) : bool := fst (contract_macros checks safe).
Definition precondition_safe_active (checks safe : bool) : bool := snd (contract_macros checks safe).

(* a check written with a macro: the guard decides if the macro is active, otherwise the text expands to nothing and
   the call is let through whatever the arguments *)
Definition checked (active guard : bool) : bool := if active then guard else true.

(* TETL_PRECONDITION(cond) / TETL_PRECONDITION_SAFE(cond) used directly *)
Definition mode_precondition (checks safe cond : bool) : bool := checked (precondition_active checks safe) cond.
Definition mode_precondition_safe (checks safe cond : bool) : bool := checked (precondition_safe_active checks safe) cond.
(* array<T, N>::operator[]: TETL_PRECONDITION_SAFE(pos < Size);  chrono::day / month: TETL_PRECONDITION(d <= 255) *)
Definition mode_array_index (checks safe : bool) (n i : Z) : bool :=
  checked (precondition_safe_active checks safe) (u64 i <? n).
Definition mode_day_ctor (checks safe : bool) (d : Z) : bool := checked (precondition_active checks safe) (day_ctor d).

(** * (b) ranges given by a pair of iterators
    The headers ask [detail::RandomAccessIterator<It>] (iterator_category convertible to random_access_iterator_tag:
    pointers, reverse_iterator<T*> = array::rbegin(), any class carrying the tag) to decide whether [last - first] may be
    formed — a SIZED range, checked before the first element is touched — and [is_pointer_v<It>] to decide whether
    [first <= last] can be asked (static_vector::assert_valid_iterator_pair). *)
Inductive itcat := ItPointer | ItRandomAccess | ItBidirectional | ItForward | ItInput.
Definition cat_sized (c : itcat) : bool := match c with ItPointer | ItRandomAccess => true | _ => false end.
Definition cat_pointer (c : itcat) : bool := match c with ItPointer => true | _ => false end.

(* [RStopped unmodified site]: a TETL_PRECONDITION fired; [unmodified] = the object still has the value it had when the
   member function was entered; [site] = which check (numbering below).  [RInvalidRange]: [last] is not reachable from
   [first] and no check noticed — outside what a library can diagnose (the loop walks off the source). *)
Inductive range_outcome := RDone | RStopped (unmodified : bool) (site : nat) | RInvalidRange.

(* for (; first != last; ++first) emplace_back( *first) / push_back( *first): the element-wise check fires when the
   container is full; everything appended before that has modified the object *)
Fixpoint fill_loop (site : nat) (cap sz : Z) (n : nat) (clean : bool) : range_outcome :=
  match n with
  | O => RDone
  | S k => if sz <? cap then fill_loop site cap (sz + 1) k false else RStopped clean site
  end.

(** static_vector::insert(position, first, last) and move_insert(position, first, last); position = begin() + pos,
    d = last - first (ptrdiff_t; for categories that are not sized: the number of increments from first to last).
      1: begin() <= it   2: it <= end()                      (assert_iterator_in_range)
      3: first <= last                                       (assert_valid_iterator_pair: pointers)
      8: last - first >= 0                                   (assert_valid_iterator_pair: other random access iterators;
                                                              fix commit: before it a negative difference was converted to
                                                              size_type by check 4, the sum wrapped and the call was let through)
      4: size() + static_cast<size_type>(last - first) <= capacity()      (random access iterators only)
      5: !full()                                             (emplace_back, element by element) *)
Definition vec_insert_range (c : itcat) (cap sz pos d : Z) (clean : bool) : range_outcome :=
  if pos <? 0 then RStopped clean 1
  else if sz <? pos then RStopped clean 2
  else if cat_pointer c && (d <? 0) then RStopped clean 3
  else if cat_sized c && (d <? 0) then RStopped clean 8
  else if cat_sized c && negb (u64 (sz + u64 d) <=? cap) then RStopped clean 4
  else if d <? 0 then RInvalidRange
  else fill_loop 5 cap sz (Z.to_nat d) clean.

(** static_vector::assign(first, last) and static_vector(first, last):
      6: last - first >= 0   7: static_cast<size_type>(last - first) <= capacity()    (random access iterators only)
    then clear() (assign only: the object is modified from here on unless it was empty) and insert(begin(), first, last) *)
Definition vec_assign_range (c : itcat) (cap sz d : Z) : range_outcome :=
  if cat_sized c && (d <? 0) then RStopped true 6
  else if cat_sized c && negb (u64 d <=? cap) then RStopped true 7
  else vec_insert_range c cap 0 0 d (sz =? 0).

(** basic_inplace_string::append(first, last) (the range constructor is append on the empty string; assign(first, last)
    constructs a temporary with it and assigns afterwards, so *this is untouched when a check fires):
      1: last - first >= 0   2: static_cast<size_type>(last - first) <= capacity() - size()   (random access iterators only)
      3: size() < capacity()                                 (push_back, character by character) *)
Definition str_append_range (c : itcat) (cap sz d : Z) : range_outcome :=
  if cat_sized c && (d <? 0) then RStopped true 1
  else if cat_sized c && negb (u64 d <=? u64 (cap - sz)) then RStopped true 2
  else if d <? 0 then RInvalidRange
  else fill_loop 3 cap sz (Z.to_nat d) true.
