(* C05 proofs, part 3: to_string<Capacity>(val) — the from_integer overflow test (the digit-counting loop with its
   per-digit and terminator room checks) fires exactly when the decimal text of val is longer than Capacity. *)
From Tetl Require Import Lib.Base C05.Model C05.Spec C05.Proofs C05.ModelMore C05.SpecMore.
From Coq Require Import ZifyBool.
Local Open Scope Z_scope.
Ltac Zify.zify_post_hook ::= Z.to_euclidean_division_equations.

Lemma pow10_pos k : 0 <= k -> 0 < 10 ^ k.
Proof. intros H. apply Z.pow_pos_nonneg; lia. Qed.

Lemma pow10_succ k : 0 <= k -> 10 ^ (k + 1) = 10 * 10 ^ k.
Proof. intros H. rewrite Z.pow_add_r by lia. change (10 ^ 1) with 10. lia. Qed.

Lemma pow10_ge10 k : 1 <= k -> 10 <= 10 ^ k.
Proof.
  intros H. replace k with ((k - 1) + 1) by lia. rewrite pow10_succ by lia.
  pose proof (pow10_pos (k - 1) ltac:(lia)). lia.
Qed.

(* the loop entered with num (any sign) and i characters already written, buffer of len characters:
   "no overflow" iff the remaining digits and the terminator fit *)
Lemma fi_loop_spec : forall (k : nat) num i len, Z.abs num < 10 ^ Z.of_nat k ->
  fi_loop (S k) num i len = Some (if num =? 0 then i <? len else Z.abs num <? 10 ^ (len - i - 1)).
Proof.
  induction k as [|k IH]; intros num i len Hn.
  - change (10 ^ Z.of_nat 0) with 1 in Hn. assert (num = 0) by lia. subst num.
    cbn [fi_loop]. change (0 =? 0) with true. cbv iota. f_equal. lia.
  - cbn [fi_loop]. destruct (num =? 0) eqn:E0; [f_equal; lia|].
    destruct (len <=? i) eqn:E1.
    + f_equal. symmetry. rewrite Z.pow_neg_r by lia. lia.
    + replace (Z.of_nat (S k)) with (Z.of_nat k + 1) in Hn by lia. rewrite pow10_succ in Hn by lia.
      assert (Hq : Z.abs (Z.quot num 10) < 10 ^ Z.of_nat k) by lia.
      change (fi_loop (S k) (Z.quot num 10) (i + 1) len = Some (Z.abs num <? 10 ^ (len - i - 1))).
      rewrite (IH (Z.quot num 10) (i + 1) len Hq). f_equal.
      set (k2 := len - i - 1). assert (Hk2 : 0 <= k2) by (subst k2; lia).
      replace (len - (i + 1) - 1) with (k2 - 1) by (subst k2; lia).
      destruct (Z.eq_dec k2 0) as [Hz|Hnz].
      * rewrite Hz. change (10 ^ 0) with 1. change (10 ^ (0 - 1)) with 0.
        destruct (Z.quot num 10 =? 0) eqn:Eq; lia.
      * assert (Hp : 10 ^ k2 = 10 * 10 ^ (k2 - 1)).
        { replace k2 with ((k2 - 1) + 1) at 1 by lia. apply pow10_succ. lia. }
        pose proof (pow10_pos (k2 - 1) ltac:(lia)) as Hpos.
        rewrite Hp. set (P := 10 ^ (k2 - 1)) in *.
        destruct (Z.quot num 10 =? 0) eqn:Eq; lia.
Qed.

(* 64-bit values have fewer than 64 decimal digits *)
Lemma abs_lt_pow10_63 v : - 2 ^ 63 <= v < 2 ^ 64 -> Z.abs v < 10 ^ Z.of_nat 63.
Proof. intros H. change (2 ^ 63) with 9223372036854775808 in H. change (2 ^ 64) with 18446744073709551616 in H.
  change (10 ^ Z.of_nat 63) with 1000000000000000000000000000000000000000000000000000000000000000. lia. Qed.

Lemma from_integer_ok_spec v len : - 2 ^ 63 <= v < 2 ^ 64 -> 0 <= len ->
  from_integer_ok 64 v len = Some (if v =? 0 then 2 <=? len else Z.abs v <? 10 ^ (len - 1 - (if v <? 0 then 1 else 0))).
Proof.
  intros Hv Hl. unfold from_integer_ok. destruct (v =? 0) eqn:E0; [f_equal; lia|].
  pose proof (abs_lt_pow10_63 v Hv) as Ha.
  destruct (v <? 0) eqn:En.
  - destruct (len <=? 0) eqn:El.
    + f_equal. symmetry. rewrite Z.pow_neg_r by lia. lia.
    + rewrite (fi_loop_spec 63 v 1 len Ha). rewrite E0. first [reflexivity | do 3 f_equal; lia].
  - rewrite (fi_loop_spec 63 v 0 len Ha). rewrite E0. first [reflexivity | do 3 f_equal; lia].
Qed.

(* to_string<Capacity>(val) for every capacity below 2^64 - 1 and every value of a (signed or unsigned) 64-bit type *)
Lemma to_string_guard_exact cap v : 0 <= cap < two64 - 1 -> - 2 ^ 63 <= v < 2 ^ 64 ->
  to_string_guard cap v = Some (pre_to_string cap v).
Proof.
  intros Hc Hv. unfold to_string_guard, pre_to_string.
  rewrite (u64_id (cap + 1)) by (unfold is_size_t, two64 in *; lia).
  rewrite (from_integer_ok_spec v (cap + 1) Hv ltac:(lia)).
  destruct (v =? 0); f_equal; [lia|]. first [reflexivity | do 2 f_equal; lia].
Qed.
